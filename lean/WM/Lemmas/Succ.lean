import WM.Lemmas.DFA
import WM.Lemmas.Walk
/-! `DFA.next_valid_string` returns the least accepted string at or after its argument - for a
DFA whose transitions lead to non-empty states, whose explicit labels are real characters and all
of whose (reachable) states can still reach a final state. -/
namespace WM.Lev

/-! ### Order helpers -/

theorem cons_le_cons_of_lt {a b : Nat} (l m : List Nat) (h : a < b) : a :: l ≤ b :: m :=
  List.le_of_lt (List.cons_lt_cons_iff.mpr (Or.inl h))

theorem cons_le_cons_same {a : Nat} {l m : List Nat} (h : l ≤ m) : a :: l ≤ a :: m := by
  rw [← List.not_lt, List.cons_lt_cons_iff]
  rintro (h' | ⟨_, h'⟩)
  · omega
  · exact List.not_lt.mpr h h'

theorem nil_le' (l : List Nat) : [] ≤ l := by
  cases l with
  | nil => exact List.le_refl _
  | cons a l => exact List.le_of_lt (List.nil_lt_cons a l)

theorem append_le_append_left (p : List Nat) {a b : List Nat} (h : a ≤ b) : p ++ a ≤ p ++ b := by
  induction p with
  | nil => exact h
  | cons x p ih => exact cons_le_cons_same ih

theorem append_lt_append_left (p : List Nat) {a b : List Nat} (h : a < b) : p ++ a < p ++ b := by
  induction p with
  | nil => exact h
  | cons x p ih => exact List.cons_lt_cons_iff.mpr (Or.inr ⟨rfl, ih⟩)

namespace DFA

/-- Facts about a finished DFA that `next_valid_string` relies on. -/
structure WellFormed (d : DFA) : Prop where
  tr_nonempty : ∀ S c T, (S, c, T) ∈ d.trans → T ≠ []
  df_nonempty : ∀ S T, (S, T) ∈ d.defaults → T ≠ []
  labels_valid : ∀ S c T, (S, c, T) ∈ d.trans → Scalar c

theorem mem_of_lookupTrans {d : DFA} {X T : SSet} {c : Nat} (h : d.lookupTrans X c = some T) :
    ∃ S, (S, c, T) ∈ d.trans := by
  obtain ⟨S, hS, _⟩ := NFA.lookupTrans_some h
  exact ⟨S, hS⟩

theorem nextState_some_truthy {d : DFA} (hw : WellFormed d) {q : Option SSet} {c : Nat} {T : SSet}
    (h : d.nextState q c = some T) : truthy (some T) = true := by
  have hne : T ≠ [] := by
    unfold nextState at h
    cases q with
    | none => cases h
    | some X =>
      simp only at h
      cases hl : d.lookupTrans X c with
      | some T' =>
        rw [hl] at h; simp only [Option.some.injEq] at h; subst h
        obtain ⟨S, hS⟩ := mem_of_lookupTrans hl
        exact hw.tr_nonempty S c _ hS
      | none =>
        rw [hl] at h; simp only at h
        obtain ⟨S, hS, _⟩ := NFA.lookupDefault_some h
        exact hw.df_nonempty S T hS
  cases T with
  | nil => exact absurd rfl hne
  | cons a l => rfl

theorem accept_none (d : DFA) (u : List Nat) : d.accept none u = false := by
  cases u with
  | nil => rfl
  | cons c u => simp [accept, nextState, truthy, isFinal]

theorem accept_cons {d : DFA} (hw : WellFormed d) (q : Option SSet) (c : Nat) (u : List Nat) :
    d.accept q (c :: u) = d.accept (d.nextState q c) u := by
  simp only [accept]
  cases h : d.nextState q c with
  | none => simp [truthy, accept_none, isFinal]
  | some T => rw [if_pos (nextState_some_truthy hw h)]

/-- First label `find_next_edge` may return. -/
def lo (lab : Option Nat) : Nat := match lab with | none => 0 | some l => l + 1

theorem mem_outLabels {d : DFA} {X : SSet} {c : Nat} :
    c ∈ d.outLabels X ↔ ∃ S T, (S, c, T) ∈ d.trans ∧ setEq S X = true := by
  simp only [outLabels, List.mem_filterMap]
  constructor
  · rintro ⟨⟨S, l, T⟩, hm, h⟩
    split at h
    · next hc => simp only [Option.some.injEq] at h; subst h; exact ⟨S, T, hm, hc⟩
    · cases h
  · rintro ⟨S, T, hm, hc⟩
    exact ⟨(S, c, T), hm, by simp [hc]⟩

theorem lookupTrans_isSome_iff {d : DFA} {X : SSet} {c : Nat} :
    (d.lookupTrans X c).isSome = true ↔ c ∈ d.outLabels X := by
  rw [mem_outLabels]
  constructor
  · intro h
    obtain ⟨T, hT⟩ := Option.isSome_iff_exists.mp h
    obtain ⟨S, hS, he⟩ := NFA.lookupTrans_some hT
    exact ⟨S, T, hS, (setEq_iff _ _).mpr he⟩
  · rintro ⟨S, T, hS, he⟩
    cases h : d.lookupTrans X c with
    | some T' => rfl
    | none => exact absurd ((setEq_iff _ _).mp he) (NFA.lookupTrans_none h S T hS)

theorem nextState_isSome_iff {d : DFA} {X : SSet} {c : Nat} :
    (d.nextState (some X) c).isSome = true ↔ (c ∈ d.outLabels X ∨ (d.lookupDefault X).isSome = true) := by
  rw [← lookupTrans_isSome_iff]
  unfold nextState
  simp only
  cases d.lookupTrans X c <;> simp

theorem nextLabel_some {lab : Option Nat} {l0 : Nat} (h : nextLabel lab = some l0) :
    lo lab ≤ l0 ∧ Scalar l0 ∧ ∀ c', lo lab ≤ c' → Scalar c' → l0 ≤ c' := by
  cases lab with
  | none =>
    simp only [nextLabel, Option.some.injEq] at h; subst h
    exact ⟨Nat.le_refl _, ⟨Nat.zero_le _, Or.inl (by omega)⟩, fun _ _ _ => Nat.zero_le _⟩
  | some l =>
    simp only [nextLabel] at h
    split at h
    · cases h
    · next hmax =>
      simp only [maxCodePoint] at hmax
      split at h
      · next hs =>
        simp only [Option.some.injEq] at h; subst h
        refine ⟨by simp only [lo]; omega, ⟨by simp only [maxCodePoint]; omega, Or.inr (by omega)⟩, ?_⟩
        intro c' hlo hsc
        simp only [lo] at hlo
        obtain ⟨_, h2⟩ := hsc
        omega
      · next hs =>
        simp only [Option.some.injEq] at h; subst h
        refine ⟨Nat.le_refl _, ⟨by simp only [maxCodePoint]; omega, by omega⟩, fun c' hlo _ => hlo⟩

theorem nextLabel_none {lab : Option Nat} (h : nextLabel lab = none) : maxCodePoint < lo lab := by
  cases lab with
  | none => simp [nextLabel] at h
  | some l =>
    simp only [nextLabel] at h
    split at h
    · simp only [lo]; omega
    · split at h <;> cases h

theorem edgeFrom_some {d : DFA} (hw : WellFormed d) {q : Option SSet} {l0 c : Nat} (hmax : Scalar l0)
    (h : d.edgeFrom q l0 = some c) :
    l0 ≤ c ∧ Scalar c ∧ (d.nextState q c).isSome = true ∧
      ∀ c', l0 ≤ c' → (d.nextState q c').isSome = true → c ≤ c' := by
  unfold edgeFrom at h
  cases q with
  | none => cases h
  | some X =>
    simp only at h
    split at h
    · next hc =>
      simp only [Option.some.injEq] at h
      subst h
      refine ⟨Nat.le_refl _, hmax, ?_, fun c' hc' _ => hc'⟩
      rw [nextState_isSome_iff, ← lookupTrans_isSome_iff]
      simpa using hc
    · next hc =>
      have hnd : (d.lookupDefault X).isSome = false := by
        cases hd : (d.lookupDefault X).isSome with
        | false => rfl
        | true => exact absurd (by simp [hd]) hc
      obtain ⟨hmem, hmin⟩ := List.min?_eq_some_iff.mp h
      rw [List.mem_filter] at hmem
      have hle : l0 ≤ c := by simpa using hmem.2
      refine ⟨hle, ?_, ?_, ?_⟩
      · obtain ⟨S, T, hS, _⟩ := mem_outLabels.mp hmem.1
        exact hw.labels_valid S c T hS
      · rw [nextState_isSome_iff]; exact Or.inl hmem.1
      · intro c' hc' hs'
        rw [nextState_isSome_iff, hnd] at hs'
        rcases hs' with hs' | hs'
        · exact hmin c' (List.mem_filter.mpr ⟨hs', by simpa using hc'⟩)
        · cases hs'

theorem edgeFrom_none {d : DFA} {q : Option SSet} {l0 : Nat} (h : d.edgeFrom q l0 = none) :
    ∀ c', l0 ≤ c' → d.nextState q c' = none := by
  intro c' hc'
  unfold edgeFrom at h
  cases q with
  | none => rfl
  | some X =>
    simp only at h
    split at h
    · cases h
    · next hc =>
      rw [← Option.not_isSome_iff_eq_none, nextState_isSome_iff]
      rintro (h1 | h1)
      · have : ((d.outLabels X).filter fun l => l0 ≤ l) = [] := List.min?_eq_none_iff.mp h
        have hm : c' ∈ (d.outLabels X).filter fun l => l0 ≤ l :=
          List.mem_filter.mpr ⟨h1, by simpa using hc'⟩
        rw [this] at hm; cases hm
      · exact hc (by simp [h1])

/-- `find_next_edge` returns the least real character at or after `lo label` that has an edge ... -/
theorem findNextEdge_some {d : DFA} (hw : WellFormed d) {q : Option SSet} {lab : Option Nat} {c : Nat}
    (h : d.findNextEdge q lab = some c) :
    lo lab ≤ c ∧ Scalar c ∧ (d.nextState q c).isSome = true ∧
      ∀ c', lo lab ≤ c' → Scalar c' → (d.nextState q c').isSome = true → c ≤ c' := by
  unfold findNextEdge at h
  cases hn : nextLabel lab with
  | none => rw [hn] at h; cases h
  | some l0 =>
    rw [hn] at h
    obtain ⟨hlo, hsc, hmin⟩ := nextLabel_some hn
    obtain ⟨h1, h2, h3, h4⟩ := edgeFrom_some hw hsc h
    exact ⟨Nat.le_trans hlo h1, h2, h3, fun c' hc' hs' => h4 c' (hmin c' hc' hs')⟩

/-- ... and `None` only when no real character at or after `lo label` has one. -/
theorem findNextEdge_none {d : DFA} {q : Option SSet} {lab : Option Nat}
    (h : d.findNextEdge q lab = none) :
    ∀ c', lo lab ≤ c' → Scalar c' → d.nextState q c' = none := by
  intro c' hc' hmax
  unfold findNextEdge at h
  cases hn : nextLabel lab with
  | none => have := nextLabel_none hn; have := hmax.1; omega
  | some l0 =>
    rw [hn] at h
    obtain ⟨_, _, hmin⟩ := nextLabel_some hn
    exact edgeFrom_none h c' (hmin c' hc' hmax)

/-! ### The wall-following loop -/

/-- What is assumed of the states `next_valid_string` meets: the DFA is well formed, the states
    are closed under defined transitions, and every one of them can reach a final state along a
    string of real characters. -/
structure Env (d : DFA) (G : Option SSet → Prop) : Prop where
  wf : WellFormed d
  step : ∀ q c T, G q → d.nextState q c = some T → G (some T)
  live : ∀ q, G q → ∃ u, Valid u ∧ d.accept q u = true

theorem valid_cons {c : Nat} {u : List Nat} : Valid (c :: u) ↔ Scalar c ∧ Valid u := by
  simp [Valid]

theorem valid_append {a b : List Nat} : Valid (a ++ b) ↔ Valid a ∧ Valid b := by
  simp only [Valid, List.mem_append]
  constructor
  · intro h; exact ⟨fun c hc => h c (Or.inl hc), fun c hc => h c (Or.inr hc)⟩
  · rintro ⟨h1, h2⟩ c (hc | hc)
    · exact h1 c hc
    · exact h2 c hc

/-- Descending along smallest edges from a live, non-final state yields the least non-empty
    string accepted from that state (and never returns to the older stack entries). -/
theorem wall_descend {d : DFA} {G : Option SSet → Prop} (env : Env d G) :
    ∀ (fuel : Nat) (path : List Nat) (q : Option SSet)
      (rest : List (List Nat × Option SSet × Option Nat)) (r : Option (List Nat)),
      G q → d.isFinal q = false → d.wall fuel ((path, q, none) :: rest) = .ok r →
      ∃ w, r = some (path ++ w) ∧ Valid w ∧ d.accept q w = true ∧
        ∀ u, Valid u → d.accept q u = true → w ≤ u := by
  intro fuel
  induction fuel with
  | zero => intro path q rest r _ _ h; simp [wall] at h
  | succ fuel ih =>
    intro path q rest r hG hnf h
    rw [wall] at h
    -- a live non-final state has an edge on a real character
    obtain ⟨u0, hv0, ha0⟩ := env.live q hG
    cases hu0 : u0 with
    | nil => subst hu0; simp only [accept] at ha0; rw [hnf] at ha0; cases ha0
    | cons c0 u0' =>
      subst hu0
      rw [accept_cons env.wf] at ha0
      have hc0 : (d.nextState q c0).isSome = true := by
        cases hq : d.nextState q c0 with
        | none => rw [hq, accept_none] at ha0; cases ha0
        | some T => rfl
      cases he : d.findNextEdge q none with
      | none =>
        have := findNextEdge_none he c0 (Nat.zero_le _) (valid_cons.mp hv0).1
        rw [this] at hc0; cases hc0
      | some c =>
        rw [he] at h
        simp only at h
        obtain ⟨_, hcmax, hcs, hcmin⟩ := findNextEdge_some env.wf he
        obtain ⟨T, hT⟩ := Option.isSome_iff_exists.mp hcs
        have hGT : G (some T) := env.step q c T hG hT
        -- every accepted string starts with a character ≥ c
        have hmin_head : ∀ c' u', Scalar c' → d.accept q (c' :: u') = true → c ≤ c' := by
          intro c' u' hsc' ha
          rw [accept_cons env.wf] at ha
          apply hcmin c' (Nat.zero_le _) hsc'
          cases hq : d.nextState q c' with
          | none => rw [hq, accept_none] at ha; cases ha
          | some T' => rfl
        by_cases hfin : d.isFinal (d.nextState q c) = true
        · rw [if_pos hfin] at h
          simp only [Except.ok.injEq] at h
          subst h
          refine ⟨[c], rfl, valid_cons.mpr ⟨hcmax, by simp [Valid]⟩, ?_, ?_⟩
          · rw [accept_cons env.wf]; simpa [accept] using hfin
          · intro u hvu hau
            cases u with
            | nil => simp only [accept] at hau; rw [hnf] at hau; cases hau
            | cons c' u' =>
              have := hmin_head c' u' (valid_cons.mp hvu).1 hau
              rcases Nat.lt_or_eq_of_le this with hlt | rfl
              · exact cons_le_cons_of_lt _ _ hlt
              · exact cons_le_cons_same (nil_le' _)
        · rw [if_neg hfin] at h
          rw [hT] at h hfin
          obtain ⟨w', hr, hvw, haw, hminw⟩ := ih (path ++ [c]) (some T) rest r hGT (by simpa using hfin) h
          refine ⟨c :: w', by rw [hr]; simp, valid_cons.mpr ⟨hcmax, hvw⟩, ?_, ?_⟩
          · rw [accept_cons env.wf, hT]; exact haw
          · intro u hvu hau
            cases u with
            | nil => simp only [accept] at hau; rw [hnf] at hau; cases hau
            | cons c' u' =>
              have := hmin_head c' u' (valid_cons.mp hvu).1 hau
              rcases Nat.lt_or_eq_of_le this with hlt | rfl
              · exact cons_le_cons_of_lt _ _ hlt
              · rw [accept_cons env.wf, hT] at hau
                exact cons_le_cons_same (hminw u' (valid_cons.mp hvu).2 hau)

/-- The strings a stack entry `(path, state, label)` stands for: `path`, then a real character at
    or after `lo label`, then anything, accepted from `state`. -/
def Cand (d : DFA) (e : List Nat × Option SSet × Option Nat) (t : List Nat) : Prop :=
  ∃ c u, t = e.1 ++ c :: u ∧ lo e.2.2 ≤ c ∧ Valid (c :: u) ∧ d.accept e.2.1 (c :: u) = true

/-- The wall-following loop returns the least candidate of the first stack entry that has one. -/
theorem wall_stack {d : DFA} {G : Option SSet → Prop} (env : Env d G) :
    ∀ (fuel : Nat) (stack : List (List Nat × Option SSet × Option Nat)) (r : Option (List Nat)),
      (∀ e, e ∈ stack → G e.2.1) → d.wall fuel stack = .ok r →
      (r = none ∧ ∀ e, e ∈ stack → ∀ t, ¬ Cand d e t) ∨
      (∃ pre e post m, stack = pre ++ e :: post ∧ r = some m ∧ (∀ e', e' ∈ pre → ∀ t, ¬ Cand d e' t) ∧
        Cand d e m ∧ ∀ t, Cand d e t → m ≤ t) := by
  intro fuel
  induction fuel with
  | zero =>
    intro stack r _ h
    cases stack with
    | nil =>
      simp only [wall, Except.ok.injEq] at h
      exact Or.inl ⟨h.symm, fun _ he => by cases he⟩
    | cons e rest => simp [wall] at h
  | succ fuel ih =>
    intro stack r hG h
    cases stack with
    | nil =>
      simp only [wall, Except.ok.injEq] at h
      exact Or.inl ⟨h.symm, fun _ he => by cases he⟩
    | cons e rest =>
      obtain ⟨path, q, lab⟩ := e
      have hGq : G q := hG (path, q, lab) (by simp)
      have hGrest : ∀ e, e ∈ rest → G e.2.1 := fun e he => hG e (List.mem_cons_of_mem _ he)
      rw [wall] at h
      cases he : d.findNextEdge q lab with
      | none =>
        rw [he] at h
        simp only at h
        have hnoc : ∀ t, ¬ Cand d (path, q, lab) t := by
          rintro t ⟨c, u, _, hlo, hv, ha⟩
          simp only at hlo ha
          rw [accept_cons env.wf, findNextEdge_none he c hlo (valid_cons.mp hv).1, accept_none] at ha
          cases ha
        rcases ih rest r hGrest h with ⟨hr, hno⟩ | ⟨pre, e, post, m, hst, hr, hpre, hc, hmin⟩
        · refine Or.inl ⟨hr, ?_⟩
          intro e he'
          rcases List.mem_cons.mp he' with rfl | he'
          · exact hnoc
          · exact hno e he'
        · refine Or.inr ⟨(path, q, lab) :: pre, e, post, m, by rw [hst]; rfl, hr, ?_, hc, hmin⟩
          intro e' he'
          rcases List.mem_cons.mp he' with rfl | he'
          · exact hnoc
          · exact hpre e' he'
      | some c =>
        rw [he] at h
        simp only at h
        obtain ⟨hclo, hcmax, hcs, hcmin⟩ := findNextEdge_some env.wf he
        obtain ⟨T, hT⟩ := Option.isSome_iff_exists.mp hcs
        have hGT : G (some T) := env.step q c T hGq hT
        have hhead : ∀ c' u', lo lab ≤ c' → Scalar c' → d.accept q (c' :: u') = true → c ≤ c' := by
          intro c' u' hlo' hsc' ha
          rw [accept_cons env.wf] at ha
          apply hcmin c' hlo' hsc'
          cases hq : d.nextState q c' with
          | none => rw [hq, accept_none] at ha; cases ha
          | some T' => rfl
        right
        by_cases hfin : d.isFinal (d.nextState q c) = true
        · rw [if_pos hfin] at h
          simp only [Except.ok.injEq] at h
          refine ⟨[], (path, q, lab), rest, path ++ [c], rfl, h.symm, (fun _ he' => by cases he'), ?_, ?_⟩
          · refine ⟨c, [], rfl, hclo, valid_cons.mpr ⟨hcmax, by simp [Valid]⟩, ?_⟩
            simp only
            rw [accept_cons env.wf]; simpa [accept] using hfin
          · rintro t ⟨c', u', rfl, hlo', hv', ha'⟩
            simp only at hlo' ha' ⊢
            apply append_le_append_left
            have := hhead c' u' hlo' (valid_cons.mp hv').1 ha'
            rcases Nat.lt_or_eq_of_le this with hlt | rfl
            · exact cons_le_cons_of_lt _ _ hlt
            · exact cons_le_cons_same (nil_le' _)
        · rw [if_neg hfin] at h
          rw [hT] at h hfin
          obtain ⟨w, hr, hvw, haw, hminw⟩ :=
            wall_descend env fuel (path ++ [c]) (some T) rest r hGT (by simpa using hfin) h
          refine ⟨[], (path, q, lab), rest, path ++ c :: w, rfl, by rw [hr]; simp,
            (fun _ he' => by cases he'), ?_, ?_⟩
          · refine ⟨c, w, rfl, hclo, valid_cons.mpr ⟨hcmax, hvw⟩, ?_⟩
            simp only
            rw [accept_cons env.wf, hT]; exact haw
          · rintro t ⟨c', u', rfl, hlo', hv', ha'⟩
            simp only at hlo' ha' ⊢
            apply append_le_append_left
            have := hhead c' u' hlo' (valid_cons.mp hv').1 ha'
            rcases Nat.lt_or_eq_of_le this with hlt | rfl
            · exact cons_le_cons_of_lt _ _ hlt
            · rw [accept_cons env.wf, hT] at ha'
              exact cons_le_cons_same (hminw u' (valid_cons.mp hv').2 ha')

/-! ### "Follow the DFA as far as possible" -/

/-- Candidates of an earlier (deeper) stack entry come before those of a later one. -/
def Before (d : DFA) (e e' : List Nat × Option SSet × Option Nat) : Prop :=
  ∀ t t', Cand d e t → Cand d e' t' → t ≤ t'

theorem truthy_iff_of_wf {d : DFA} (hw : WellFormed d) (q : Option SSet) (c : Nat) :
    truthy (d.nextState q c) = true ↔ ∃ T, d.nextState q c = some T := by
  constructor
  · intro h
    cases hq : d.nextState q c with
    | none => rw [hq] at h; cases h
    | some T => exact ⟨T, rfl⟩
  · rintro ⟨T, hT⟩; rw [hT]; exact nextState_some_truthy hw hT

/-- The stack built by the first phase of `next_valid_string` for the rest `rest` of the input,
    standing in state `q` after `path`: its candidates are exactly the accepted continuations of
    `path` that are greater than `rest`, deeper entries first; and the state reached is final iff
    `rest` itself is accepted. -/
theorem follow_spec {d : DFA} {G : Option SSet → Prop} (env : Env d G) :
    ∀ (rest path : List Nat) (q : Option SSet) (stack : List (List Nat × Option SSet × Option Nat)),
      G q → Valid rest →
      ∃ new, (d.follow path q rest stack).1 = new ++ stack ∧ (∀ e, e ∈ new → G e.2.1) ∧
        (∀ t, (∃ e, e ∈ new ∧ Cand d e t) ↔
          ∃ u, t = path ++ u ∧ Valid u ∧ rest < u ∧ d.accept q u = true) ∧
        new.Pairwise (Before d) ∧
        d.isFinal (d.follow path q rest stack).2 = d.accept q rest := by
  intro rest
  induction rest with
  | nil =>
    intro path q stack hG _
    refine ⟨[(path, q, none)], rfl, ?_, ?_, List.pairwise_singleton _ _, rfl⟩
    · intro e he
      have : e = (path, q, none) := by simpa using he
      subst this; exact hG
    · intro t
      constructor
      · rintro ⟨e, he, c, u, rfl, _, hv, ha⟩
        have : e = (path, q, none) := by simpa using he
        subst this
        exact ⟨c :: u, rfl, hv, List.nil_lt_cons _ _, ha⟩
      · rintro ⟨u, rfl, hv, hlt, ha⟩
        cases u with
        | nil => exact absurd hlt (List.lt_irrefl _)
        | cons c u => exact ⟨(path, q, none), by simp, c, u, rfl, Nat.zero_le _, hv, ha⟩
  | cons c rest ih =>
    intro path q stack hG hv
    obtain ⟨hcv, hvr⟩ := valid_cons.mp hv
    -- candidates of the entry pushed for this character
    have hcand0 : ∀ t, Cand d (path, q, some c) t ↔
        ∃ c' u, t = path ++ c' :: u ∧ c < c' ∧ Valid (c' :: u) ∧ d.accept q (c' :: u) = true := by
      intro t
      constructor
      · rintro ⟨c', u, rfl, hlo, hv', ha⟩; exact ⟨c', u, rfl, hlo, hv', ha⟩
      · rintro ⟨c', u, rfl, hlt, hv', ha⟩; exact ⟨c', u, rfl, hlt, hv', ha⟩
    rw [follow]
    by_cases htr : truthy (d.nextState q c) = true
    · rw [if_pos htr]
      obtain ⟨T, hT⟩ := (truthy_iff_of_wf env.wf q c).mp htr
      rw [hT]
      have hGT : G (some T) := env.step q c T hG hT
      obtain ⟨new', hst, hGn, hcand, hpw, hfin⟩ := ih (path ++ [c]) (some T) ((path, q, some c) :: stack) hGT hvr
      refine ⟨new' ++ [(path, q, some c)], by rw [hst]; simp, ?_, ?_, ?_, ?_⟩
      · intro e he
        rcases List.mem_append.mp he with h | h
        · exact hGn e h
        · have : e = (path, q, some c) := by simpa using h
          subst this; exact hG
      · intro t
        constructor
        · rintro ⟨e, he, hc⟩
          rcases List.mem_append.mp he with h | h
          · obtain ⟨u, rfl, hvu, hlt, ha⟩ := (hcand t).mp ⟨e, h, hc⟩
            refine ⟨c :: u, by simp, valid_cons.mpr ⟨hcv, hvu⟩, List.cons_lt_cons_iff.mpr (Or.inr ⟨rfl, hlt⟩), ?_⟩
            rw [accept_cons env.wf, hT]; exact ha
          · have : e = (path, q, some c) := by simpa using h
            subst this
            obtain ⟨c', u, rfl, hlt, hv', ha⟩ := (hcand0 t).mp hc
            exact ⟨c' :: u, rfl, hv', List.cons_lt_cons_iff.mpr (Or.inl hlt), ha⟩
        · rintro ⟨u, rfl, hvu, hlt, ha⟩
          cases u with
          | nil => simp at hlt
          | cons c' u =>
            rcases List.cons_lt_cons_iff.mp hlt with h | ⟨rfl, h⟩
            · exact ⟨(path, q, some c), by simp, (hcand0 _).mpr ⟨c', u, rfl, h, hvu, ha⟩⟩
            · rw [accept_cons env.wf, hT] at ha
              obtain ⟨e, he, hc⟩ := (hcand (path ++ c :: u)).mpr ⟨u, by simp, (valid_cons.mp hvu).2, h, ha⟩
              exact ⟨e, List.mem_append.mpr (Or.inl he), hc⟩
      · rw [List.pairwise_append]
        refine ⟨hpw, List.pairwise_singleton _ _, ?_⟩
        intro e he e' he' t t' hc hc'
        have : e' = (path, q, some c) := by simpa using he'
        subst this
        obtain ⟨u, rfl, _, _, _⟩ := (hcand t).mp ⟨e, he, hc⟩
        obtain ⟨c', u', rfl, hlt, _, _⟩ := (hcand0 t').mp hc'
        rw [List.append_assoc]
        apply append_le_append_left
        exact cons_le_cons_of_lt _ _ hlt
      · rw [hfin, accept_cons env.wf, hT]
    · rw [if_neg htr]
      have hnone : d.nextState q c = none := by
        cases hq : d.nextState q c with
        | none => rfl
        | some T => exact absurd (nextState_some_truthy env.wf hq) (by rw [hq] at htr; exact htr)
      refine ⟨[(path, q, some c)], rfl, ?_, ?_, List.pairwise_singleton _ _, ?_⟩
      · intro e he
        have : e = (path, q, some c) := by simpa using he
        subst this; exact hG
      · intro t
        constructor
        · rintro ⟨e, he, hc⟩
          have : e = (path, q, some c) := by simpa using he
          subst this
          obtain ⟨c', u, rfl, hlt, hv', ha⟩ := (hcand0 t).mp hc
          exact ⟨c' :: u, rfl, hv', List.cons_lt_cons_iff.mpr (Or.inl hlt), ha⟩
        · rintro ⟨u, rfl, hvu, hlt, ha⟩
          cases u with
          | nil => simp at hlt
          | cons c' u =>
            rcases List.cons_lt_cons_iff.mp hlt with h | ⟨rfl, h⟩
            · exact ⟨(path, q, some c), by simp, (hcand0 _).mpr ⟨c', u, rfl, h, hvu, ha⟩⟩
            · rw [accept_cons env.wf, hnone, accept_none] at ha; cases ha
      · rw [accept_cons env.wf, hnone, accept_none]; rfl

/-- **`next_valid_string` is the successor function of the DFA's language** - whenever it
    returns (i.e. the wall-following loop ends within the model's fuel). -/
theorem nextValidString_ok {d : DFA} {G : Option SSet → Prop} (env : Env d G)
    (hG0 : G (some d.initial)) (chain : Nat) (s : List Nat) (hv : Valid s) (r : Option (List Nat))
    (h : d.nextValidString chain s = .ok r) :
    (r = none ∧ ∀ t, Valid t → s ≤ t → d.accept (some d.initial) t = false) ∨
    (∃ m, r = some m ∧ d.accept (some d.initial) m = true ∧ s ≤ m ∧
      (∀ t, Valid t → s ≤ t → d.accept (some d.initial) t = true → m ≤ t) ∧ Valid m) := by
  obtain ⟨new, hst, hGn, hcand, hpw, hfin⟩ := follow_spec env s [] (some d.initial) [] hG0 hv
  rw [List.append_nil] at hst
  unfold nextValidString at h
  simp only at h
  by_cases hf : d.isFinal (d.follow [] (some d.initial) s []).2 = true
  · rw [if_pos hf] at h
    simp only [Except.ok.injEq] at h
    right
    exact ⟨s, h.symm, by rw [← hfin]; exact hf, List.le_refl _, fun t _ hst' _ => hst', hv⟩
  · rw [if_neg hf, hst] at h
    have hns : d.accept (some d.initial) s = false := by
      rw [← hfin]; simpa using hf
    -- a valid accepted string at or after s is a candidate of the stack
    have hiscand : ∀ t, Valid t → s ≤ t → d.accept (some d.initial) t = true →
        ∃ e, e ∈ new ∧ Cand d e t := by
      intro t hvt hle hat
      have hlt : s < t := by
        rcases List.le_iff_lt_or_eq.mp hle with h1 | h1
        · exact h1
        · subst h1; rw [hns] at hat; cases hat
      exact (hcand t).mpr ⟨t, rfl, hvt, hlt, hat⟩
    rcases wall_stack env _ new r hGn h with ⟨hr, hno⟩ | ⟨pre, e, post, m, hsplit, hr, hpre, hc, hmin⟩
    · left
      refine ⟨hr, ?_⟩
      intro t hvt hle
      cases hat : d.accept (some d.initial) t with
      | false => rfl
      | true =>
        obtain ⟨e, he, hc⟩ := hiscand t hvt hle hat
        exact absurd hc (hno e he t)
    · right
      have hem : e ∈ new := by rw [hsplit]; simp
      obtain ⟨u, hmu, hvu, hltu, hau⟩ := (hcand m).mp ⟨e, hem, hc⟩
      rw [List.nil_append] at hmu
      subst hmu
      refine ⟨m, hr, hau, List.le_of_lt hltu, ?_, hvu⟩
      intro t hvt hle hat
      obtain ⟨e', he', hc'⟩ := hiscand t hvt hle hat
      rw [hsplit] at he' hpw
      rw [List.pairwise_append] at hpw
      rcases List.mem_append.mp he' with h1 | h1
      · exact absurd hc' (hpre e' h1 t)
      · rcases List.mem_cons.mp h1 with rfl | h1
        · exact hmin t hc'
        · exact (List.pairwise_cons.mp hpw.2.1).1 e' h1 m t hc hc'

/-! ### Termination of the wall-following loop within its fuel -/

/-- A ranking of the states: along every defined transition the rank drops, and `N` ranks every
    state. -/
structure Ranked (d : DFA) (G : Option SSet → Prop) (rank : Option SSet → Nat → Prop) (N : Nat) : Prop where
  step : ∀ q c T h, G q → rank q h → d.nextState q c = some T → ∃ h', h' < h ∧ rank (some T) h'
  top : ∀ q, G q → rank q N

/-- `Bounded rank stack b`: `b` is the sum of `rank + 1` over the stack entries. -/
inductive Bounded (rank : Option SSet → Nat → Prop) :
    List (List Nat × Option SSet × Option Nat) → Nat → Prop
  | nil : Bounded rank [] 0
  | cons {e rest h b} : rank e.2.1 h → Bounded rank rest b → Bounded rank (e :: rest) (h + 1 + b)

theorem wall_terminates {d : DFA} {G : Option SSet → Prop} {rank : Option SSet → Nat → Prop} {N : Nat}
    (env : Env d G) (rk : Ranked d G rank N) :
    ∀ (fuel : Nat) (stack : List (List Nat × Option SSet × Option Nat)) (b : Nat),
      Bounded rank stack b → (∀ e, e ∈ stack → G e.2.1) → b ≤ fuel → ∃ r, d.wall fuel stack = .ok r := by
  intro fuel
  induction fuel with
  | zero =>
    intro stack b hb _ hle
    cases hb with
    | nil => exact ⟨none, rfl⟩
    | cons _ _ => omega
  | succ fuel ih =>
    intro stack b hb hG hle
    cases hb with
    | nil => exact ⟨none, rfl⟩
    | @cons e rest h b' hr hb' =>
      obtain ⟨path, q, lab⟩ := e
      simp only at hr
      have hGq : G q := hG (path, q, lab) (by simp)
      have hGrest : ∀ e, e ∈ rest → G e.2.1 := fun e he => hG e (List.mem_cons_of_mem _ he)
      rw [wall]
      cases he : d.findNextEdge q lab with
      | none => exact ih rest b' hb' hGrest (by omega)
      | some c =>
        simp only
        obtain ⟨_, _, hcs, _⟩ := findNextEdge_some env.wf he
        obtain ⟨T, hT⟩ := Option.isSome_iff_exists.mp hcs
        by_cases hfin : d.isFinal (d.nextState q c) = true
        · rw [if_pos hfin]; exact ⟨_, rfl⟩
        · rw [if_neg hfin, hT]
          obtain ⟨h', hlt, hr'⟩ := rk.step q c T h hGq hr hT
          apply ih _ (h' + 1 + b') (Bounded.cons (e := (path ++ [c], some T, none)) hr' hb')
          · intro e he'
            rcases List.mem_cons.mp he' with rfl | he'
            · exact env.step q c T hGq hT
            · exact hGrest e he'
          · omega

theorem bounded_of_top {rank : Option SSet → Nat → Prop} {N : Nat}
    (l : List (List Nat × Option SSet × Option Nat)) (h : ∀ e, e ∈ l → rank e.2.1 N) :
    Bounded rank l (l.length * (N + 1)) := by
  induction l with
  | nil => rw [List.length_nil, Nat.zero_mul]; exact Bounded.nil
  | cons e l ih =>
    have := Bounded.cons (h e (by simp)) (ih (fun e he => h e (List.mem_cons_of_mem _ he)))
    have e1 : (e :: l).length * (N + 1) = N + 1 + l.length * (N + 1) := by
      rw [List.length_cons, Nat.add_mul, Nat.one_mul, Nat.add_comm]
    rw [e1]; exact this

theorem follow_length (d : DFA) :
    ∀ (rest path : List Nat) (q : Option SSet) (stack : List (List Nat × Option SSet × Option Nat)),
      (d.follow path q rest stack).1.length ≤ rest.length + 1 + stack.length := by
  intro rest
  induction rest with
  | nil => intro path q stack; simp [follow]; omega
  | cons c rest ih =>
    intro path q stack
    rw [follow]
    split
    · have := ih (path ++ [c]) (d.nextState q c) ((path, q, some c) :: stack)
      simp only [List.length_cons] at this ⊢
      omega
    · simp only [List.length_cons]; omega

/-- **`next_valid_string` ends within the model's fuel** when `chain` bounds the ranks. -/
theorem nextValidString_terminates {d : DFA} {G : Option SSet → Prop}
    {rank : Option SSet → Nat → Prop} {N : Nat} (env : Env d G) (rk : Ranked d G rank N)
    (hG0 : G (some d.initial)) (chain : Nat) (hchain : N ≤ chain) (s : List Nat) (hv : Valid s) :
    ∃ r, d.nextValidString chain s = .ok r := by
  obtain ⟨new, hst, hGn, _, _, _⟩ := follow_spec env s [] (some d.initial) [] hG0 hv
  rw [List.append_nil] at hst
  unfold nextValidString
  simp only
  split
  · exact ⟨_, rfl⟩
  · rw [hst]
    have hlen : new.length ≤ s.length + 1 := by
      have := follow_length d s [] (some d.initial) []
      rw [hst] at this; simpa using this
    apply wall_terminates env rk _ new (new.length * (N + 1))
      (bounded_of_top new (fun e he => rk.top _ (hGn e he))) hGn
    exact Nat.mul_le_mul hlen (by omega)

end DFA
end WM.Lev
