import WM.Spec.IdSet
/-! Facts about the specification-level sets (strictly ascending lists). -/
namespace WM.Spec.IdSet

theorem sorted_nil : Sorted [] := List.Pairwise.nil

/-- Two strictly ascending lists with the same members are equal. -/
theorem sorted_ext : ∀ {a b : List Nat}, Sorted a → Sorted b → (∀ x, x ∈ a ↔ x ∈ b) → a = b
  | [], [], _, _, _ => rfl
  | [], y :: ys, _, _, h => by have := (h y).mpr (by simp); simp at this
  | x :: xs, [], _, _, h => by have := (h x).mp (by simp); simp at this
  | x :: xs, y :: ys, ha, hb, h => by
    have ha' := List.pairwise_cons.mp ha
    have hb' := List.pairwise_cons.mp hb
    have hxy : x = y := by
      have h1 : x ∈ y :: ys := (h x).mp (by simp)
      have h2 : y ∈ x :: xs := (h y).mpr (by simp)
      simp only [List.mem_cons] at h1 h2
      rcases h1 with h1 | h1
      · exact h1
      · rcases h2 with h2 | h2
        · exact h2.symm
        · have := hb'.1 x h1; have := ha'.1 y h2; omega
    subst hxy
    congr 1
    apply sorted_ext ha'.2 hb'.2
    intro z
    constructor
    · intro hz
      have := (h z).mp (List.mem_cons_of_mem _ hz)
      simp only [List.mem_cons] at this
      rcases this with rfl | h3
      · have := ha'.1 z hz; omega
      · exact h3
    · intro hz
      have := (h z).mpr (List.mem_cons_of_mem _ hz)
      simp only [List.mem_cons] at this
      rcases this with rfl | h3
      · have := hb'.1 z hz; omega
      · exact h3

theorem mem_insert {i x : Nat} : ∀ {s : List Nat}, x ∈ insert i s ↔ x = i ∨ x ∈ s
  | [] => by simp [insert]
  | y :: ys => by
    unfold insert
    split
    · simp
    · split
      · next h => subst h; simp
      · simp only [List.mem_cons, mem_insert (s := ys)]
        constructor
        · rintro (h | h | h) <;> simp [h]
        · rintro (h | h | h) <;> simp [h]

theorem sorted_insert {i : Nat} : ∀ {s : List Nat}, Sorted s → Sorted (insert i s)
  | [], _ => by simp [insert, Sorted]
  | y :: ys, h => by
    have h' := List.pairwise_cons.mp h
    unfold insert
    split
    · next hlt =>
      apply List.pairwise_cons.mpr
      refine ⟨?_, h⟩
      intro z hz
      simp only [List.mem_cons] at hz
      rcases hz with rfl | hz
      · exact hlt
      · have := h'.1 z hz; omega
    · split
      · exact h
      · next h1 h2 =>
        apply List.pairwise_cons.mpr
        refine ⟨?_, sorted_insert h'.2⟩
        intro z hz
        rcases mem_insert.mp hz with rfl | hz
        · omega
        · exact h'.1 z hz

theorem mem_ofList {x : Nat} : ∀ {l : List Nat}, x ∈ ofList l ↔ x ∈ l
  | [] => by simp [ofList]
  | y :: ys => by
    have ih := mem_ofList (x := x) (l := ys)
    simp only [ofList, List.foldr_cons] at ih ⊢
    rw [mem_insert, ih]; simp

theorem sorted_ofList : ∀ {l : List Nat}, Sorted (ofList l)
  | [] => sorted_nil
  | y :: ys => by
    have ih := sorted_ofList (l := ys)
    simp only [ofList, List.foldr_cons] at ih ⊢
    exact sorted_insert ih

theorem mem_union {x : Nat} {a : List Nat} : ∀ {b : List Nat}, x ∈ union a b ↔ x ∈ a ∨ x ∈ b
  | [] => by simp [union]
  | y :: ys => by
    have ih := mem_union (x := x) (a := a) (b := ys)
    simp only [union, List.foldr_cons] at ih ⊢
    rw [mem_insert, ih]; simp only [List.mem_cons]
    constructor
    · rintro (h | h | h) <;> simp [h]
    · rintro (h | h | h) <;> simp [h]

theorem sorted_union {a : List Nat} (ha : Sorted a) : ∀ {b : List Nat}, Sorted (union a b)
  | [] => ha
  | y :: ys => by
    have ih := sorted_union ha (b := ys)
    simp only [union, List.foldr_cons] at ih ⊢
    exact sorted_insert ih

theorem mem_erase {x i : Nat} {s : List Nat} : x ∈ erase i s ↔ x ∈ s ∧ x ≠ i := by
  simp [erase]

theorem sorted_erase {i : Nat} {s : List Nat} (h : Sorted s) : Sorted (erase i s) :=
  List.Pairwise.filter _ h

theorem mem_inter {x : Nat} {a b : List Nat} : x ∈ inter a b ↔ x ∈ a ∧ x ∈ b := by
  simp [inter]

theorem sorted_inter {a b : List Nat} (h : Sorted a) : Sorted (inter a b) :=
  List.Pairwise.filter _ h

theorem mem_diff {x : Nat} {a b : List Nat} : x ∈ diff a b ↔ x ∈ a ∧ x ∉ b := by
  simp [diff]

theorem sorted_diff {a b : List Nat} (h : Sorted a) : Sorted (diff a b) :=
  List.Pairwise.filter _ h

theorem mem_invert {x n : Nat} {a : List Nat} : x ∈ invert n a ↔ x < n ∧ x ∉ a := by
  simp [invert]

theorem sorted_invert {n : Nat} {a : List Nat} : Sorted (invert n a) :=
  List.Pairwise.filter _ List.pairwise_lt_range

/-- In a strictly ascending list `find?` returns the least member satisfying the predicate. -/
theorem find?_sorted {q : Nat → Bool} : ∀ {l : List Nat}, Sorted l → ∀ {j : Nat},
    (l.find? q = some j ↔ j ∈ l ∧ q j = true ∧ ∀ x ∈ l, x < j → q x = false)
  | [], _, j => by simp
  | a :: t, h, j => by
    have h' := List.pairwise_cons.mp h
    rw [List.find?_cons]
    cases hq : q a
    · simp only
      rw [find?_sorted h'.2]
      constructor
      · rintro ⟨h1, h2, h3⟩
        refine ⟨List.mem_cons_of_mem _ h1, h2, ?_⟩
        intro x hx hlt
        simp only [List.mem_cons] at hx
        rcases hx with rfl | hx
        · exact hq
        · exact h3 x hx hlt
      · rintro ⟨h1, h2, h3⟩
        simp only [List.mem_cons] at h1
        rcases h1 with rfl | h1
        · rw [hq] at h2; cases h2
        · exact ⟨h1, h2, fun x hx => h3 x (List.mem_cons_of_mem _ hx)⟩
    · simp only [Option.some.injEq]
      constructor
      · rintro rfl
        refine ⟨by simp, hq, ?_⟩
        intro x hx hlt
        simp only [List.mem_cons] at hx
        rcases hx with rfl | hx
        · omega
        · have := h'.1 x hx; omega
      · rintro ⟨h1, h2, h3⟩
        simp only [List.mem_cons] at h1
        rcases h1 with rfl | h1
        · rfl
        · have := h'.1 j h1
          have := h3 a (by simp) this
          rw [hq] at this; cases this

/-- In a strictly ascending list the last element of `filter q` is the greatest member
    satisfying `q`. -/
theorem getLast?_filter_sorted {q : Nat → Bool} : ∀ {l : List Nat}, Sorted l → ∀ {j : Nat},
    ((l.filter q).getLast? = some j ↔ j ∈ l ∧ q j = true ∧ ∀ x ∈ l, j < x → q x = false)
  | [], _, j => by simp
  | a :: t, h, j => by
    have h' := List.pairwise_cons.mp h
    have ih := getLast?_filter_sorted (q := q) h'.2 (j := j)
    rw [List.filter_cons]
    cases hq : q a
    · simp only [Bool.false_eq_true, ↓reduceIte]
      rw [ih]
      constructor
      · rintro ⟨h1, h2, h3⟩
        refine ⟨List.mem_cons_of_mem _ h1, h2, ?_⟩
        intro x hx hlt
        simp only [List.mem_cons] at hx
        rcases hx with rfl | hx
        · exact hq
        · exact h3 x hx hlt
      · rintro ⟨h1, h2, h3⟩
        simp only [List.mem_cons] at h1
        rcases h1 with rfl | h1
        · rw [hq] at h2; cases h2
        · exact ⟨h1, h2, fun x hx => h3 x (List.mem_cons_of_mem _ hx)⟩
    · simp only [↓reduceIte]
      rw [List.getLast?_cons]
      cases hl : (List.filter q t).getLast? with
      | none =>
        have hnil : List.filter q t = [] := List.getLast?_eq_none_iff.mp hl
        simp only [Option.getD_none, Option.some.injEq]
        constructor
        · rintro rfl
          refine ⟨by simp, hq, ?_⟩
          intro x hx hlt
          simp only [List.mem_cons] at hx
          rcases hx with rfl | hx
          · omega
          · have : x ∉ List.filter q t := by rw [hnil]; simp
            simp only [List.mem_filter, not_and] at this
            simpa using this hx
        · rintro ⟨h1, h2, h3⟩
          simp only [List.mem_cons] at h1
          rcases h1 with rfl | h1
          · rfl
          · have : j ∈ List.filter q t := List.mem_filter.mpr ⟨h1, h2⟩
            rw [hnil] at this; simp at this
      | some m =>
        simp only [Option.getD_some, Option.some.injEq]
        have ihm := (getLast?_filter_sorted (q := q) h'.2 (j := m)).mp hl
        constructor
        · rintro rfl
          refine ⟨List.mem_cons_of_mem _ ihm.1, ihm.2.1, ?_⟩
          intro x hx hlt
          simp only [List.mem_cons] at hx
          rcases hx with rfl | hx
          · have := h'.1 m ihm.1; omega
          · exact ihm.2.2 x hx hlt
        · rintro ⟨h1, h2, h3⟩
          simp only [List.mem_cons] at h1
          rcases h1 with rfl | h1
          · have := h'.1 m ihm.1
            have := h3 m (List.mem_cons_of_mem _ ihm.1) this
            rw [ihm.2.1] at this; cases this
          · -- both m and j are the greatest member of t satisfying q
            rcases Nat.lt_trichotomy m j with hlt | heq | hgt
            · have := ihm.2.2 j h1 hlt; rw [h2] at this; cases this
            · exact heq
            · have := h3 m (List.mem_cons_of_mem _ ihm.1) hgt
              rw [ihm.2.1] at this; cases this

theorem getLast?_filter_sorted_none {q : Nat → Bool} {l : List Nat} :
    (l.filter q).getLast? = none ↔ ∀ x ∈ l, q x = false := by
  rw [List.getLast?_eq_none_iff, List.filter_eq_nil_iff]
  simp

end WM.Spec.IdSet
