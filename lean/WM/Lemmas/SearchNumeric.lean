import WM.Props.C13
import WM.Props.C01
/-!
Glue between the numeric family (C13: `NumericRange._compile_query` yields `Term`/`TermRange` sub-queries over
the tier terms `NUMERIC.index` writes) and the search family (C01: what an `Or` of such sub-queries under
`ConstantScoreQuery` answers): the compiled query, as a query of `WM.Search`, is satisfied by exactly the
documents the value-level `numRange` specifies.
-/
namespace WM.Compile
open WM.Search

/-- a sub-query of `_compile_query` as a query: `Term(fieldname, bytes)` resp.
    `TermRange(fieldname, startbytes, endbytes)` (inclusive; `constantscore=True` is `TermRange`'s default) -/
def subQuery (f : String) : WM.Numeric.Sub → Query
  | .term t => .term f t 1
  | .range lo hi => .multi f (.range (some lo) (some hi) false false) 1 true

/-- `NumericRange(f, start, end, …, boost, constantscore=True)._compile_query`: no range → `NullQuery`, one →
    the bare sub-query, several → `Or(subqueries, boost)`; then `ConstantScoreQuery(q, boost)` -/
def compiledRange (f : String) (subs : List WM.Numeric.Sub) (b : Rat) : Query :=
  match subs with
  | [] => .null
  | [sub] => .constScore (subQuery f sub) b
  | _ => .constScore (.or (subs.map (subQuery f)) b) b

theorem bytesLe_eq : ∀ a b : List Nat, WM.Search.bytesLe a b = WM.Numeric.bytesLe a b
  | [], b => by cases b <;> simp [WM.Search.bytesLe, WM.Search.bytesLt, WM.Numeric.bytesLe]
  | _ :: _, [] => by simp [WM.Search.bytesLe, WM.Search.bytesLt, WM.Numeric.bytesLe]
  | x :: as, y :: bs => by
    have ih := bytesLe_eq as bs
    simp only [WM.Search.bytesLe] at ih
    simp only [WM.Search.bytesLe, WM.Search.bytesLt, WM.Numeric.bytesLe, ← ih]
    by_cases h1 : x < y
    · have : ¬ y < x := by omega
      have : (y == x) = false := by simp; omega
      simp [*]
    · by_cases h2 : x = y
      · subst h2; simp
      · have : y < x := by omega
        have h3 : (x == y) = false := by simp; omega
        simp [*]

theorem sat_subQuery (f : String) (sub : WM.Numeric.Sub) (d : Doc) :
    sat (subQuery f sub) d = (d.terms f).any (fun t => sub.selects t) := by
  cases sub with
  | term u =>
    simp only [subQuery, sat, Doc.hasTerm, WM.Numeric.Sub.selects]
    induction d.terms f with
    | nil => rfl
    | cons t ts ih => simp only [List.contains_cons, List.any_cons, ih]
  | range lo hi =>
    simp only [subQuery, sat, WM.Numeric.Sub.selects]
    congr 1
    funext t
    simp only [TermPred.test, Bool.false_eq_true, if_false, bytesLe_eq]

theorem satAny_subQueries (f : String) (d : Doc) : ∀ subs : List WM.Numeric.Sub,
    satAny (subs.map (subQuery f)) d = WM.Numeric.matchesDoc subs (d.terms f)
  | [] => rfl
  | sub :: subs => by
    simp only [List.map_cons, satAny, satAny_subQueries f d subs, sat_subQuery, WM.Numeric.matchesDoc, List.any_cons]

/-- the compiled query is satisfied iff some sub-query selects one of the document's terms -/
theorem sat_compiledRange (f : String) (subs : List WM.Numeric.Sub) (b : Rat) (d : Doc) :
    sat (compiledRange f subs b) d = WM.Numeric.matchesDoc subs (d.terms f) := by
  match subs with
  | [] => rfl
  | [sub] => simp [compiledRange, sat, sat_subQuery, WM.Numeric.matchesDoc]
  | s1 :: s2 :: rest => simp only [compiledRange, sat]; exact satAny_subQueries f d (s1 :: s2 :: rest)

theorem matchesDoc_congr (subs : List WM.Numeric.Sub) {ts ts' : List (List Nat)} (h : ∀ t, t ∈ ts ↔ t ∈ ts') :
    WM.Numeric.matchesDoc subs ts = WM.Numeric.matchesDoc subs ts' := by
  unfold WM.Numeric.matchesDoc
  congr 1
  funext sub
  rw [Bool.eq_iff_iff]
  simp only [List.any_eq_true]
  exact ⟨fun ⟨t, ht, hs⟩ => ⟨t, (h t).1 ht, hs⟩, fun ⟨t, ht, hs⟩ => ⟨t, (h t).2 ht, hs⟩⟩

/-- **An integer NUMERIC field indexed faithfully.**  The document's field `f` holds the integer values `xs`
    (in the field's domain) and its terms are exactly the tier terms `NUMERIC.index` writes for them. -/
def IntFieldDoc (w step : Nat) (signed : Bool) (f : String) (d : Doc) : Prop :=
  ∃ (xs : List Int) (ts : List (List Nat)), (∀ x ∈ xs, WM.Numeric.inDomain (8 * w) signed x) ∧
    d.nums f = xs.map (fun x : Int => (x : Rat)) ∧
    WM.Numeric.indexTermsList w step (xs.map fun x => (WM.Numeric.toSortableInt (8 * w) signed x).toNat) = .ok ts ∧
    ∀ t, t ∈ d.terms f ↔ t ∈ ts

theorem inRange_int (start end_ : Option Int) (sx ex : Bool) (x : Int) :
    inRange (start.map (fun a : Int => (a : Rat))) (end_.map (fun a : Int => (a : Rat))) sx ex (x : Rat) =
      WM.NumericSpec.inInterval WM.NumericSpec.intLt start end_ sx ex x := by
  unfold inRange WM.NumericSpec.inInterval WM.NumericSpec.intLt
  congr 1
  · cases start with
    | none => rfl
    | some a =>
      simp only [Option.map_some]
      cases sx
      · simp only [Bool.false_eq_true, if_false]
        rw [Bool.eq_iff_iff]; simp [Rat.intCast_le_intCast]
      · simp only [if_true]
        rw [Bool.eq_iff_iff]; simp [Rat.intCast_lt_intCast]
  · cases end_ with
    | none => rfl
    | some a =>
      simp only [Option.map_some]
      cases ex
      · simp only [Bool.false_eq_true, if_false]
        rw [Bool.eq_iff_iff]; simp [Rat.intCast_le_intCast]
      · simp only [if_true]
        rw [Bool.eq_iff_iff]; simp [Rat.intCast_lt_intCast]

theorem posQ_compiledRange (f : String) (subs : List WM.Numeric.Sub) {b : Rat} (hb : 0 < b) :
    PosQ (compiledRange f subs b) := by
  have hsub : ∀ sub : WM.Numeric.Sub, PosQ (subQuery f sub) := by
    intro sub; cases sub <;> simp only [subQuery, PosQ] <;> decide +kernel
  have hsubs : ∀ l : List WM.Numeric.Sub, PosQs (l.map (subQuery f)) := by
    intro l
    induction l with
    | nil => trivial
    | cons a l ih => exact ⟨hsub a, ih⟩
  match subs with
  | [] => trivial
  | [sub] => exact ⟨hb, hsub sub⟩
  | s1 :: s2 :: rest => exact ⟨hb, hb, hsubs (s1 :: s2 :: rest)⟩

theorem ok_of_toOption {ε α : Type} {x : Except ε α} {a : α} (h : x.toOption = some a) : x = .ok a := by
  cases x with
  | error e => simp [Except.toOption] at h
  | ok b => simp only [Except.toOption, Option.some.injEq] at h; rw [h]

end WM.Compile
