import WM.Model.Base85
/-! Helper lemmas for base 85 (C20). -/
set_option linter.unusedSimpArgs false
namespace WM.C20
open WM.Base85

theorem b85_chars_table : chars.length = 85 ∧ ∀ d, d < 85 → ∃ c, chars[d]? = some c ∧ decChar c = some d := by
  decide

theorem digits_acc : ∀ (n x : Nat) (acc : List Nat), digits n x acc = digits n x [] ++ acc
  | 0, _, _ => by simp [digits]
  | n + 1, x, acc => by
    simp only [digits]
    rw [digits_acc n (x / 85) ((x % 85) :: acc), digits_acc n (x / 85) [x % 85]]
    simp

theorem digits_lt : ∀ (n x : Nat) (acc : List Nat), (∀ d ∈ acc, d < 85) → ∀ d ∈ digits n x acc, d < 85
  | 0, _, _, h => by simpa [digits] using h
  | n + 1, x, acc, h => by
    simp only [digits]
    apply digits_lt n
    intro d hd
    simp only [List.mem_cons] at hd
    rcases hd with rfl | hd
    · exact Nat.mod_lt _ (by omega)
    · exact h d hd

theorem length_digits : ∀ (n x : Nat) (acc : List Nat), (digits n x acc).length = n + acc.length
  | 0, _, _ => by simp [digits]
  | n + 1, x, acc => by simp only [digits]; rw [length_digits n]; simp; omega

/-- value of a big-endian digit list -/
def value (ds : List Nat) : Nat := ds.foldl (fun acc d => acc * 85 + d) 0

theorem foldl_acc : ∀ (b : List Nat) (acc : Nat),
    b.foldl (fun acc d => acc * 85 + d) acc = acc * 85 ^ b.length + b.foldl (fun acc d => acc * 85 + d) 0
  | [], acc => by simp
  | x :: t, acc => by
    simp only [List.foldl_cons, List.length_cons, Nat.zero_mul, Nat.zero_add]
    rw [foldl_acc t (acc * 85 + x), foldl_acc t x, Nat.add_mul, Nat.pow_succ, Nat.mul_assoc,
      Nat.mul_comm (85 ^ t.length) 85, Nat.add_assoc]

theorem value_append (a b : List Nat) : value (a ++ b) = value a * 85 ^ b.length + value b := by
  unfold value
  rw [List.foldl_append, foldl_acc b]

theorem value_digits : ∀ (n x : Nat), value (digits n x []) = x % 85 ^ n
  | 0, x => by simp [digits, value, Nat.mod_one]
  | n + 1, x => by
    simp only [digits]
    rw [digits_acc, value_append, value_digits n]
    simp only [List.length_singleton, Nat.pow_one, value, List.foldl_cons, List.foldl_nil, Nat.zero_mul, Nat.zero_add]
    rw [Nat.pow_succ, Nat.mul_comm (85 ^ n) 85, Nat.mod_mul]
    omega

theorem fromBase85_chars : ∀ (ds : List Nat) (acc : Nat), (∀ d ∈ ds, d < 85) →
    ∃ cs, ds.mapM (fun d => chars[d]?) = some cs ∧ cs.length = ds.length ∧
      cs.foldlM (fun acc c => (decChar c).map fun d => acc * 85 + d) acc
        = some (ds.foldl (fun acc d => acc * 85 + d) acc)
  | [], acc, _ => ⟨[], rfl, rfl, rfl⟩
  | d :: t, acc, h => by
    rcases b85_chars_table.2 d (h d (by simp)) with ⟨c, hc, hdec⟩
    rcases fromBase85_chars t (acc * 85 + d) (fun x hx => h x (List.mem_cons_of_mem _ hx)) with ⟨cs, h1, h2, h3⟩
    refine ⟨c :: cs, by simp [List.mapM_cons, hc, h1], by simp [h2], ?_⟩
    simp only [List.foldlM_cons, hdec, Option.map_some, Option.bind_eq_bind, Option.bind_some, List.foldl_cons]
    exact h3

end WM.C20
