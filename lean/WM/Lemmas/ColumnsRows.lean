import WM.Spec.Columns
/-! The rows a sequential writer lays down for strictly increasing adds are the rows of the spec
(`cell`): the supplied value where there is one, the default elsewhere. Generic in the row type. -/
namespace WM.Columns

variable {α : Type}

/-- Rows after the adds: pad with `dflt` up to the document, then the value. -/
def extendRows (dflt : α) (rows : List α) : List (Nat × α) → List α
  | [] => rows
  | (d, v) :: rest => extendRows dflt (rows ++ List.replicate (d - rows.length) dflt ++ [v]) rest

theorem lookup_cons_ne (d0 d : Nat) (v : α) (rest : List (Nat × α)) (h : d0 ≠ d) :
    lookup ((d0, v) :: rest) d = lookup rest d := by
  simp [lookup, h]

theorem lookup_cons_eq (d0 : Nat) (v : α) (rest : List (Nat × α)) :
    lookup ((d0, v) :: rest) d0 = some v := by
  simp [lookup]

theorem lookup_none_of_lt (adds : List (Nat × α)) (d : Nat) (h : ∀ p ∈ adds, d < p.1) :
    lookup adds d = none := by
  induction adds with
  | nil => rfl
  | cons p adds ih =>
    obtain ⟨d0, v⟩ := p
    have : d0 ≠ d := by have := h (d0, v) (by simp); simp at this; omega
    rw [lookup_cons_ne d0 d v adds this]
    exact ih (fun q hq => h q (by simp [hq]))

/-- Length and content of the rows laid down by increasing adds on top of `rows`. -/
theorem extendRows_spec (dflt : α) (adds : List (Nat × α)) (rows : List α)
    (hinc : Increasing adds) (hge : ∀ p ∈ adds, rows.length ≤ p.1) :
    rows.length ≤ (extendRows dflt rows adds).length ∧
    (∀ p ∈ adds, p.1 < (extendRows dflt rows adds).length) ∧
    (∀ n, rows.length ≤ n → (∀ p ∈ adds, p.1 < n) → (extendRows dflt rows adds).length ≤ n) ∧
    ∀ d, (extendRows dflt rows adds)[d]? =
      if d < rows.length then rows[d]?
      else if d < (extendRows dflt rows adds).length then some (cell dflt adds d) else none := by
  induction adds generalizing rows with
  | nil =>
    refine ⟨Nat.le_refl _, by simp, fun n hn _ => hn, fun d => ?_⟩
    simp only [extendRows]
    by_cases h : d < rows.length
    · simp [h]
    · simp only [h, if_false]
      exact List.getElem?_eq_none (by omega)
  | cons p rest ih =>
    obtain ⟨d0, v⟩ := p
    have hd0 : rows.length ≤ d0 := hge (d0, v) (by simp)
    have hinc' : Increasing rest := (List.pairwise_cons.mp hinc).2
    have hgt : ∀ q ∈ rest, d0 < q.1 := fun q hq => (List.pairwise_cons.mp hinc).1 q hq
    have hlen1 : (rows ++ List.replicate (d0 - rows.length) dflt ++ [v]).length = d0 + 1 := by
      simp only [List.length_append, List.length_replicate, List.length_singleton]; omega
    obtain ⟨h1, h2, h3, hget⟩ := ih (rows ++ List.replicate (d0 - rows.length) dflt ++ [v]) hinc'
      (fun q hq => by rw [hlen1]; have := hgt q hq; omega)
    rw [hlen1] at h1 h3
    simp only [extendRows]
    refine ⟨by omega, ?_, ?_, fun d => ?_⟩
    · intro q hq
      simp only [List.mem_cons] at hq
      rcases hq with rfl | hq
      · show d0 < _; omega
      · exact h2 q hq
    · intro n hn hall
      exact h3 n (by have := hall (d0, v) (by simp); simp at this; omega)
        (fun q hq => hall q (by simp [hq]))
    · rw [hget d, hlen1]
      by_cases hd1 : d < rows.length
      · have : d < d0 + 1 := by omega
        simp only [this, if_true, hd1]
        rw [List.append_assoc, List.getElem?_append_left hd1]
      · simp only [hd1, if_false]
        by_cases hd2 : d < d0
        · have hd3 : d < d0 + 1 := by omega
          have hd4 : d < (extendRows dflt (rows ++ List.replicate (d0 - rows.length) dflt ++ [v]) rest).length := by
            omega
          simp only [hd3, if_true, hd4]
          rw [List.getElem?_append_left (by simp only [List.length_append, List.length_replicate]; omega),
            List.getElem?_append_right (by omega)]
          have hnone : lookup ((d0, v) :: rest) d = none := by
            rw [lookup_cons_ne d0 d v rest (by omega)]
            exact lookup_none_of_lt rest d (fun q hq => by have := hgt q hq; omega)
          simp only [cell, hnone, Option.getD_none]
          rw [List.getElem?_replicate]
          simp; omega
        · by_cases hd3 : d = d0
          · subst hd3
            have hd4 : d < (extendRows dflt (rows ++ List.replicate (d - rows.length) dflt ++ [v]) rest).length := by
              omega
            simp only [Nat.lt_succ_self, if_true, hd4]
            rw [List.getElem?_append_right (by simp only [List.length_append, List.length_replicate]; omega)]
            have : d - (rows ++ List.replicate (d - rows.length) dflt).length = 0 := by
              simp only [List.length_append, List.length_replicate]; omega
            rw [this]
            simp [cell, lookup_cons_eq]
          · have hd4 : ¬ d < d0 + 1 := by omega
            simp only [hd4, if_false]
            have : cell dflt ((d0, v) :: rest) d = cell dflt rest d := by
              simp [cell, lookup_cons_ne d0 d v rest (fun e => hd3 e.symm)]
            rw [this]
            rfl

/-- After the final padding to `doccount`: exactly the rows of the spec. -/
theorem extendRows_final (dflt : α) (adds : List (Nat × α)) (doccount : Nat)
    (hinc : Increasing adds) (hwithin : Within adds doccount) :
    extendRows dflt [] adds ++ List.replicate (doccount - (extendRows dflt [] adds).length) dflt
      = rowsOf dflt adds doccount ∧ (extendRows dflt [] adds).length ≤ doccount := by
  obtain ⟨_, hall, hmin, hget⟩ := extendRows_spec dflt adds [] hinc (fun p _ => Nat.zero_le _)
  have hlen_le : (extendRows dflt [] adds).length ≤ doccount :=
    hmin doccount (Nat.zero_le _) hwithin
  refine ⟨?_, hlen_le⟩
  apply List.ext_getElem?
  intro d
  simp only [rowsOf, List.getElem?_map]
  by_cases hd : d < doccount
  · rw [List.getElem?_range hd]
    simp only [Option.map_some]
    by_cases hr : d < (extendRows dflt [] adds).length
    · rw [List.getElem?_append_left hr, hget d]
      simp [hr]
    · rw [List.getElem?_append_right (by omega), List.getElem?_replicate]
      have hnone : lookup adds d = none := by
        unfold lookup
        rw [List.find?_eq_none.mpr]
        · rfl
        · intro p hp
          have := hall p hp
          simp; omega
      simp [cell, hnone]
      omega
  · rw [List.getElem?_eq_none (by simp; omega), List.getElem?_eq_none (by simp; omega)]
    rfl

end WM.Columns
