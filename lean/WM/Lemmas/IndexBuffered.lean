import WM.Lemmas.IndexMp
/-! BufferedWriter: every call sees committed + buffered documents; flushes and `close()` lose nothing. -/
namespace WM.Index
open WM.Dict

/-- invariant of a buffered writer between calls -/
structure BInv (b : Buffered) : Prop where
  wwf : b.writer.WF
  rwf : b.ram.WF
  rfit : ∀ d ∈ b.ram.docs, d.fits b.writer.schema = true
  ndocs : b.writer.ndocs = []
  added : b.writer.added = false
  count : b.count = 0 → b.ram.docs = []
  plan : PlanOK b.plan

theorem emptySeg_wf : emptySeg.WF := ⟨by simp [emptySeg], by simp [emptySeg], by simp [emptySeg, allPostings], by simp [emptySeg]⟩

theorem map_restrict_fits (sc : Schema) (l : List DocRec) (h : ∀ d ∈ l, d.fits sc = true) : l.map (restrict sc) = l := by
  conv => rhs; rw [← List.map_id l]
  apply List.map_congr_left
  intro d hd; exact restrict_of_fits _ _ (h d hd)

theorem liveDocs_mem_docs (s : Seg) : ∀ d ∈ s.liveDocs, d ∈ s.docs := by
  intro d hd
  simp only [Seg.liveDocs, Seg.liveIdx, List.mem_map, List.mem_filter] at hd
  obtain ⟨q, ⟨hq, _⟩, rfl⟩ := hd
  have := List.mem_zipIdx (x := q.1) (i := q.2) hq
  rw [this.2.2]; exact List.getElem_mem _

/-- what the buffered writer's own reader shows: committed + buffered (live) documents -/
theorem Buffered.content_eq (b : Buffered) (hf : ∀ d ∈ b.ram.docs, d.fits b.writer.schema = true) :
    b.content = contentOf b.writer.schema b.writer.segs ++ b.ram.liveDocs := by
  simp only [Buffered.content, Buffered.readSegs, contentOf_append]
  congr 1
  simp only [contentOf, List.flatMap_cons, List.flatMap_nil, List.append_nil]
  exact map_restrict_fits _ _ (fun d hd => hf d (liveDocs_mem_docs _ d hd))

/-- flushing: `add_reader(ramreader)` + `commit` -/
theorem Buffered.flush_spec (b : Buffered) (hi : BInv b) :
    ∃ t, (if b.count > 0 then b.writer.addReader b.ram else .ok b.writer).bind (fun w => w.commitPlan b.plan) = .ok t ∧
      t.WF ∧ t.schema = b.writer.schema ∧ t.content.Perm b.content := by
  have hcontent := Buffered.content_eq b hi.rfit
  have hlive : b.ram.liveDocs.map (restrict b.writer.schema) = b.ram.liveDocs :=
    map_restrict_fits _ _ (fun d hd => hi.rfit d (liveDocs_mem_docs _ d hd))
  have h3 := contentOf_perm b.writer.schema (hi.plan b.writer.segs)
  rw [contentOf_append] at h3
  by_cases hc : b.count > 0
  · obtain ⟨w1, h1, wf1⟩ := Writer.addReader_ok b.writer b.ram hi.wwf hi.rwf
    obtain ⟨a1, a2, a3, a4, a5, _⟩ := Writer.addReader_fields b.writer b.ram w1 h1
    obtain ⟨t, h2, wft⟩ := Writer.commitPlan_ok w1 b.plan wf1 (hi.plan.sub _)
    have hfit1 : ∀ d ∈ w1.ndocs, d.fits w1.schema = true := by
      intro d hd
      rw [a5, hi.ndocs, List.nil_append, List.mem_map] at hd
      obtain ⟨x, _, rfl⟩ := hd
      rw [a1]; exact restrict_fits _ _
    obtain ⟨c1, _, c3⟩ := Writer.commitPlan_content w1 b.plan t h2 hfit1 (by intro h; rw [a4] at h; cases h)
    refine ⟨t, by simp only [hc, if_true, h1, bind, Except.bind]; exact h2, wft, by rw [c1, a1], ?_⟩
    rw [show t.content = _ from c3, hcontent, a1, a2, a5, hi.ndocs, List.nil_append, hlive]
    -- u ++ (r ++ m)  ~  (m ++ u) ++ r
    refine List.Perm.trans ?_ (h3.append_right _)
    refine (List.Perm.append_left _ List.perm_append_comm).trans ?_
    rw [← List.append_assoc]
    exact List.Perm.append_right _ List.perm_append_comm
  · have hc0 : b.count = 0 := by omega
    obtain ⟨t, h2, wft⟩ := Writer.commitPlan_ok b.writer b.plan hi.wwf (hi.plan.sub _)
    obtain ⟨c1, _, c3⟩ := Writer.commitPlan_content b.writer b.plan t h2 (by simp [hi.ndocs]) (fun _ => hi.ndocs)
    refine ⟨t, by simp only [hc, if_false, bind, Except.bind]; exact h2, wft, c1, ?_⟩
    have hram : b.ram.liveDocs = [] := by
      have := hi.count hc0
      simp [Seg.liveDocs, Seg.liveIdx, this]
    rw [show t.content = _ from c3, hcontent, hi.ndocs, hram, List.nil_append, List.append_nil]
    exact List.perm_append_comm.trans h3

theorem Buffered.commit_spec (b : Buffered) (hi : BInv b) :
    ∃ b', b.commit = .ok b' ∧ BInv b' ∧ b'.writer.schema = b.writer.schema ∧ b'.limit = b.limit ∧ b'.plan = b.plan ∧
      b'.content.Perm b.content := by
  obtain ⟨t, h1, wft, hs, hc⟩ := Buffered.flush_spec b hi
  refine ⟨{ b with writer := t.writer, ram := emptySeg, count := 0 }, ?_, ?_, hs, rfl, rfl, ?_⟩
  · unfold Buffered.commit
    cases h0 : (if b.count > 0 then b.writer.addReader b.ram else Except.ok b.writer) with
    | error e => rw [h0] at h1; simp [bind, Except.bind] at h1
    | ok w =>
      rw [h0] at h1
      simp only [bind, Except.bind] at h1 ⊢
      rw [h1]; rfl
  · exact ⟨Toc.writer_wf t wft, emptySeg_wf, by simp [emptySeg], rfl, rfl, fun _ => rfl, hi.plan⟩
  · simp only [Buffered.content, Buffered.readSegs, contentOf_append, Toc.writer]
    have : contentOf t.schema [emptySeg] = [] := by simp [contentOf, emptySeg, Seg.liveDocs, Seg.liveIdx]
    rw [this, List.append_nil]
    simp only [Buffered.content, Buffered.readSegs, contentOf_append, Toc.content] at hc
    exact hc

theorem liveDocs_append_doc (s : Seg) (d : DocRec) (posts : List Posting) (hr : ∀ n ∈ s.deleted, n < s.docCountAll) :
    ({ docs := s.docs ++ [d], posts := posts, deleted := s.deleted } : Seg).liveDocs = s.liveDocs ++ [d] := by
  simp only [Seg.liveDocs, Seg.liveIdx, Seg.isDeleted, List.zipIdx_append, List.filter_append, List.map_append]
  congr 1
  simp only [List.zipIdx_cons, List.zipIdx_nil, Nat.zero_add]
  have hnm : s.docs.length ∉ s.deleted := by
    intro hm
    have := hr _ hm
    simp [Seg.docCountAll] at this
  simp [List.filter_cons, hnm]

/-- `add_document` on the buffered writer -/
theorem Buffered.addDocument_spec (b : Buffered) (hi : BInv b) (d : DocRec) (hf : d.fits b.writer.schema = true) :
    ∃ b', b.addDocument d = .ok b' ∧ BInv b' ∧ b'.writer.schema = b.writer.schema ∧ b'.limit = b.limit ∧ b'.plan = b.plan ∧
      b'.content.Perm (b.content ++ [d]) := by
  let ram' : Seg := { docs := b.ram.docs ++ [d]
                      posts := (b.ram.posts ++ docPostings d b.ram.docs.length).mergeSort Posting.le
                      deleted := b.ram.deleted }
  let b1 : Buffered := { b with ram := ram', count := b.count + 1 }
  have hram : ram'.WF := by
    refine ⟨hi.rwf.delNodup, ?_, ?_, mergeSort_sorted _⟩
    · intro n hn
      have := hi.rwf.delRange n hn
      show n < (b.ram.docs ++ [d]).length
      simp only [Seg.docCountAll] at this
      simp only [List.length_append, List.length_singleton]
      omega
    · refine (List.mergeSort_perm _ _).trans ?_
      show (b.ram.posts ++ docPostings d b.ram.docs.length).Perm (allPostings (b.ram.docs ++ [d]))
      rw [allPostings_append, allPostings_singleton, Nat.zero_add]
      exact hi.rwf.posts.append_right _
  have hi1 : BInv b1 :=
    ⟨hi.wwf, hram, by
      intro x hx
      simp only [b1, ram', List.mem_append, List.mem_singleton] at hx
      rcases hx with hx | rfl
      · exact hi.rfit x hx
      · exact hf, hi.ndocs, hi.added, by intro h; simp [b1] at h, hi.plan⟩
  have hc1 : b1.content = b.content ++ [d] := by
    rw [Buffered.content_eq b1 hi1.rfit, Buffered.content_eq b hi.rfit]
    show _ ++ ram'.liveDocs = _
    rw [liveDocs_append_doc b.ram d _ hi.rwf.delRange, List.append_assoc]
  have hstep : b.addDocument d = if b1.count ≥ b1.limit then b1.commit else .ok b1 := by
    simp only [Buffered.addDocument, hf, Bool.not_true, Bool.false_eq_true, if_false]
    rfl
  by_cases hl : b1.count ≥ b1.limit
  · obtain ⟨b2, h2, hi2, hs2, hl2, hp2, hc2⟩ := Buffered.commit_spec b1 hi1
    exact ⟨b2, by rw [hstep]; simp only [hl, if_true]; exact h2, hi2, hs2, hl2, hp2, hc1 ▸ hc2⟩
  · exact ⟨b1, by rw [hstep]; simp only [hl, if_false], hi1, rfl, rfl, rfl, by rw [hc1]⟩

theorem Buffered.adds_close (docs : List DocRec) (b : Buffered) (hi : BInv b)
    (hf : ∀ d ∈ docs, d.fits b.writer.schema = true) :
    ∃ b', docs.foldlM (fun b d => b.addDocument d) b = .ok b' ∧ BInv b' ∧ b'.content.Perm (b.content ++ docs) ∧
      ∃ t, b'.close = .ok t ∧ t.WF ∧ t.content.Perm (b.content ++ docs) := by
  induction docs generalizing b with
  | nil =>
    obtain ⟨t, h1, wft, _, hc⟩ := Buffered.flush_spec b hi
    exact ⟨b, rfl, hi, by simp, t, h1, wft, by simpa using hc⟩
  | cons d r ih =>
    obtain ⟨b1, h1, hi1, hs1, _, _, hc1⟩ := Buffered.addDocument_spec b hi d (hf d (by simp))
    obtain ⟨b', h2, hi', hc', t, h3, wft, hct⟩ := ih b1 hi1 (by intro x hx; rw [hs1]; exact hf x (by simp [hx]))
    have hp : (b1.content ++ r).Perm (b.content ++ d :: r) := by
      refine (hc1.append_right r).trans ?_
      simp [List.append_assoc]
    exact ⟨b', by simp only [List.foldlM_cons, h1, bind, Except.bind]; exact h2, hi', hc'.trans hp, t, h3, wft,
      hct.trans hp⟩

/-! ### deletions through the buffered writer -/

theorem liveGlobal_append (a b : List Seg) (base : Nat) :
    liveGlobal (a ++ b) base = liveGlobal a base ++ liveGlobal b (base + docCountAllSegs a) := by
  induction a generalizing base with
  | nil => simp [liveGlobal, docCountAllSegs]
  | cons s r ih =>
    simp only [List.cons_append, liveGlobal, ih, docCountAllSegs_cons, List.append_assoc]
    congr 3
    omega

theorem liveGlobal_singleton (s : Seg) (base : Nat) :
    liveGlobal [s] base = s.liveIdx.map (fun p => (p.1, p.2 + base)) := by simp [liveGlobal]

/-- same frame for a buffered writer: only deleted sets change -/
structure BFrame (b b' : Buffered) : Prop where
  wframe : Frame b.writer b'.writer
  rdocs : b'.ram.docs = b.ram.docs
  rposts : b'.ram.posts = b.ram.posts
  count : b'.count = b.count
  limit : b'.limit = b.limit
  plan : b'.plan = b.plan

theorem BFrame.refl (b : Buffered) : BFrame b b := ⟨Frame.refl _, rfl, rfl, rfl, rfl, rfl⟩
theorem BFrame.trans {a b c : Buffered} (h1 : BFrame a b) (h2 : BFrame b c) : BFrame a c :=
  ⟨h1.wframe.trans h2.wframe, h2.rdocs.trans h1.rdocs, h2.rposts.trans h1.rposts, h2.count.trans h1.count,
   h2.limit.trans h1.limit, h2.plan.trans h1.plan⟩

/-- `BufferedWriter.delete_document(n)` of a live document: succeeds and removes exactly it from
    what the writer's reader shows -/
theorem Buffered.deleteDocument_spec (b : Buffered) (hi : BInv b) (q : DocRec × Nat) (hq : q ∈ liveGlobal b.readSegs 0) :
    ∃ b', b.deleteDocument q.2 = .ok b' ∧ BInv b' ∧ BFrame b b' ∧
      liveGlobal b'.readSegs 0 = (liveGlobal b.readSegs 0).filter (fun p => p.2 != q.2) := by
  simp only [Buffered.readSegs, liveGlobal_append, Nat.zero_add, liveGlobal_singleton, List.mem_append] at hq ⊢
  unfold Buffered.deleteDocument
  by_cases hlt : q.2 < docCountAllSegs b.writer.segs
  · obtain ⟨w', h1, f1, l1⟩ := Writer.deleteDocument_ok b.writer q.2 hlt
    have wf' := Writer.deleteDocument_wf b.writer q.2 true w' hi.wwf h1
    refine ⟨{ b with writer := w' }, by simp only [hlt, if_true, h1, Except.map], ?_, ?_, ?_⟩
    · exact ⟨wf', hi.rwf, by intro d hd; rw [f1.schema]; exact hi.rfit d hd, by rw [f1.ndocs]; exact hi.ndocs,
        by rw [f1.added]; exact hi.added, hi.count, hi.plan⟩
    · exact ⟨f1, rfl, rfl, rfl, rfl, rfl⟩
    · simp only [f1.total, List.filter_append, l1]
      congr 1
      symm
      rw [List.filter_eq_self]
      intro p hp
      simp only [List.mem_map] at hp
      obtain ⟨x, _, rfl⟩ := hp
      simp; omega
  · have hge : docCountAllSegs b.writer.segs ≤ q.2 := by omega
    have hq2 : q ∈ b.ram.liveIdx.map (fun p => (p.1, p.2 + docCountAllSegs b.writer.segs)) := by
      rcases hq with hq | hq
      · have := liveGlobal_lt b.writer.segs 0 q hq; omega
      · exact hq
    obtain ⟨x, hx, hxq⟩ := List.mem_map.mp hq2
    have hloc : q.2 - docCountAllSegs b.writer.segs = x.2 := by rw [← hxq]; simp
    have hxlt := liveIdx_lt b.ram x hx
    have hxlive := liveIdx_live b.ram x hx
    refine ⟨{ b with ram := b.ram.deleteDocument x.2 true }, ?_, ?_, ?_, ?_⟩
    · simp only [hlt, if_false, hloc, hxlt, hxlive, decide_true, Bool.not_false, Bool.and_self, if_true]
    · exact ⟨hi.wwf, Seg.deleteDocument_wf b.ram x.2 true hi.rwf hxlt, by rw [Seg.deleteDocument_docs]; exact hi.rfit,
        hi.ndocs, hi.added, by rw [Seg.deleteDocument_docs]; exact hi.count, hi.plan⟩
    · exact ⟨Frame.refl _, Seg.deleteDocument_docs _ _ _, Seg.deleteDocument_posts _ _ _, rfl, rfl, rfl⟩
    · simp only [List.filter_append]
      congr 1
      · symm
        rw [List.filter_eq_self]
        intro p hp
        have := liveGlobal_lt b.writer.segs 0 p hp
        simp; omega
      · rw [Seg.liveIdx_delete, List.filter_map]
        congr 1
        apply List.filter_congr
        intro p _
        simp only [Function.comp_def]
        rw [← hxq]
        simp [bne_add_right]

/-- deleting a duplicate-free list of live document numbers -/
theorem Buffered.deleteMany_spec (ns : List Nat) (b : Buffered) (hi : BInv b) (hn : ns.Nodup)
    (hl : ∀ n ∈ ns, ∃ q ∈ liveGlobal b.readSegs 0, q.2 = n) :
    ∃ b', b.deleteMany ns = .ok b' ∧ BInv b' ∧ BFrame b b' ∧
      liveGlobal b'.readSegs 0 = (liveGlobal b.readSegs 0).filter (fun p => !ns.contains p.2) := by
  induction ns generalizing b with
  | nil => exact ⟨b, rfl, hi, BFrame.refl b, by symm; rw [List.filter_eq_self]; intro a _; simp⟩
  | cons n r ih =>
    simp only [List.nodup_cons] at hn
    obtain ⟨q, hq, rfl⟩ := hl n (by simp)
    obtain ⟨b1, h1, hi1, f1, l1⟩ := Buffered.deleteDocument_spec b hi q hq
    obtain ⟨b2, h2, hi2, f2, l2⟩ := ih b1 hi1 hn.2 (by
      intro m hm
      obtain ⟨p, hp, rfl⟩ := hl m (by simp [hm])
      refine ⟨p, ?_, rfl⟩
      rw [l1, List.mem_filter]
      refine ⟨hp, ?_⟩
      have : p.2 ≠ q.2 := by intro he; rw [he] at hm; exact hn.1 hm
      simpa using this)
    refine ⟨b2, ?_, hi2, f1.trans f2, ?_⟩
    · simp only [Buffered.deleteMany, List.foldlM_cons, h1, bind, Except.bind] at h2 ⊢
      exact h2
    · rw [l2, l1, List.filter_filter]
      apply List.filter_congr
      intro p _
      by_cases hp : p.2 = q.2
      · simp [hp]
      · have : (p.2 != q.2) = true := by simpa using hp
        simp [this, hp]

theorem map_snd_filter_nodup (L : List (DocRec × Nat)) (h : L.Pairwise (fun a b => a.2 < b.2)) (p : DocRec × Nat → Bool) :
    ((L.filter p).map (·.2)).Nodup := by
  rw [List.nodup_iff_pairwise_ne, List.pairwise_map]
  exact (h.filter p).imp (by intro a b hab; omega)

/-- `delete_by_query` on the buffered writer, for a query denoting predicate `p` -/
theorem Buffered.deleteByQuery_pred (b : Buffered) (hi : BInv b) (p : DocRec → Bool) :
    ∃ b', b.deleteByQuery (.pred p) = .ok (b', (b.content.filter p).length) ∧ BInv b' ∧ BFrame b b' ∧
      b'.content = b.content.filter (fun d => !p d) := by
  have hds := docsForQuery_pred b.writer.schema p b.readSegs 0
  obtain ⟨b', h1, hi', f1, l1⟩ := Buffered.deleteMany_spec (docsForQuery b.writer.schema (.pred p) b.readSegs 0) b hi
    (by rw [hds]; exact map_snd_filter_nodup _ (liveGlobal_pairwise _ _) _)
    (by
      intro n hn
      rw [hds] at hn
      obtain ⟨q, hq, rfl⟩ := List.mem_map.mp hn
      exact ⟨q, (List.mem_filter.mp hq).1, rfl⟩)
  refine ⟨b', ?_, hi', f1, ?_⟩
  · simp only [Buffered.deleteByQuery, h1, Except.map]
    congr 2
    rw [hds, Buffered.content, contentOf_eq_liveGlobal _ _ 0, List.filter_map, List.length_map, List.length_map]
    rfl
  · simp only [Buffered.content]
    rw [contentOf_eq_liveGlobal _ _ 0, contentOf_eq_liveGlobal _ _ 0, l1, f1.wframe.schema, List.filter_map]
    congr 1
    apply List.filter_congr
    intro q hq
    simp only [Function.comp_def]
    congr 1
    rw [hds]
    by_cases hp : p (restrict b.writer.schema q.1) = true
    · rw [hp, List.contains_iff_mem]
      exact List.mem_map.mpr ⟨q, List.mem_filter.mpr ⟨hq, hp⟩, rfl⟩
    · have hp' : p (restrict b.writer.schema q.1) = false := by simpa using hp
      rw [hp']
      apply Bool.eq_false_iff.mpr
      rw [Ne, List.contains_iff_mem]
      intro hmem
      obtain ⟨q', hq', heq⟩ := List.mem_map.mp hmem
      obtain ⟨hq'1, hq'2⟩ := List.mem_filter.mp hq'
      have := liveGlobal_inj b.readSegs 0 q' q hq'1 hq heq
      subst this
      exact hp hq'2

theorem readSegs_posts (b : Buffered) (hi : BInv b) : ∀ s ∈ b.readSegs, s.posts.Perm (allPostings s.docs) := by
  intro s hs
  simp only [Buffered.readSegs, List.mem_append, List.mem_singleton] at hs
  rcases hs with hs | rfl
  · exact (hi.wwf.segs s hs).posts
  · exact hi.rwf.posts

theorem eraseDups_nodup : ∀ (l : List Nat), l.eraseDups.Nodup
  | [] => by simp
  | a :: as => by
    rw [List.eraseDups_cons, List.nodup_cons]
    refine ⟨?_, eraseDups_nodup _⟩
    rw [List.mem_eraseDups, List.mem_filter]
    intro h
    simp at h
termination_by l => l.length
decreasing_by
  simp only [List.length_cons]
  exact Nat.lt_succ_of_le (List.length_filter_le _ _)

theorem flatMap_replicate_le_one (L : List (DocRec × Nat)) (c : DocRec × Nat → Nat) (h : ∀ q ∈ L, c q ≤ 1) :
    L.flatMap (fun q => List.replicate (c q) q.2) = (L.filter (fun q => decide (0 < c q))).map (·.2) := by
  induction L with
  | nil => rfl
  | cons q r ih =>
    have h1 := h q (by simp)
    rw [List.flatMap_cons, ih (fun x hx => h x (by simp [hx])), List.filter_cons]
    by_cases hc : 0 < c q
    · have : c q = 1 := by omega
      simp [hc, this]
    · have : c q = 0 := by omega
      simp [this]

/-- `delete_by_term` on the buffered writer (a document has at most one posting per term) -/
theorem Buffered.deleteByQuery_term (b : Buffered) (hi : BInv b) (f t : Nat)
    (hone : ∀ x ∈ liveGlobal b.readSegs 0, termCount b.writer.schema f t x.1 ≤ 1) :
    ∃ b', b.deleteByQuery (.term f t) = .ok (b', (b.content.filter (fun d => d.hasTerm f t)).length) ∧ BInv b' ∧
      BFrame b b' ∧ b'.content = b.content.filter (fun d => !d.hasTerm f t) := by
  have hp := readSegs_posts b hi
  have hperm := docsForQuery_term_perm b.writer.schema f t b.readSegs 0 hp
  rw [flatMap_replicate_le_one _ (fun q => termCount b.writer.schema f t q.1) hone] at hperm
  obtain ⟨b', h1, hi', f1, l1⟩ := Buffered.deleteMany_spec (docsForQuery b.writer.schema (.term f t) b.readSegs 0) b hi
    (hperm.nodup_iff.mpr (map_snd_filter_nodup _ (liveGlobal_pairwise _ _) _))
    (by
      intro n hn
      obtain ⟨q, hq, rfl⟩ := List.mem_map.mp (hperm.mem_iff.mp hn)
      exact ⟨q, (List.mem_filter.mp hq).1, rfl⟩)
  refine ⟨b', ?_, hi', f1, ?_⟩
  · simp only [Buffered.deleteByQuery, h1, Except.map]
    congr 2
    exact docsForQuery_term_length b.writer.schema f t b.readSegs hp hone
  · simp only [Buffered.content]
    rw [contentOf_eq_liveGlobal _ _ 0, contentOf_eq_liveGlobal _ _ 0, l1, f1.wframe.schema, List.filter_map]
    congr 1
    apply List.filter_congr
    intro q hq
    simp only [Function.comp_def]
    rw [docsForQuery_term_contains b.writer.schema f t b.readSegs hp q hq]

/-- `update_document` on the buffered writer: documents added earlier through the same writer are
    replaced too (they are visible to its searcher) -/
theorem Buffered.updateDocument_spec (b : Buffered) (hi : BInv b) (d : DocRec)
    (hun : ∀ ft ∈ uniqTerms b.writer.schema d, (b.content.filter (fun c => c.hasTerm ft.1 ft.2)).length ≤ 1) :
    BInv (b.updateDocument d).1 ∧ (b.updateDocument d).1.writer.schema = b.writer.schema ∧
    (b.updateDocument d).1.limit = b.limit ∧ (b.updateDocument d).1.plan = b.plan ∧
    (b.updateDocument d).1.content.Perm
      (b.content.filter (fun c => !sharesUnique (uniqTerms b.writer.schema d) c) ++
        (if d.fits b.writer.schema then [d] else [])) := by
  have hp := readSegs_posts b hi
  have hmem : ∀ n ∈ findUnique b.writer.schema b.readSegs (uniqTerms b.writer.schema d),
      ∃ q ∈ liveGlobal b.readSegs 0, q.2 = n := by
    intro n hn
    simp only [findUnique, List.mem_eraseDups, List.mem_filterMap] at hn
    obtain ⟨ft, _, hfirst⟩ := hn
    rw [firstId_eq_head] at hfirst
    have hm := List.mem_of_mem_head? hfirst
    rw [(docsForQuery_term_perm b.writer.schema ft.1 ft.2 b.readSegs 0 hp).mem_iff] at hm
    simp only [List.mem_flatMap, List.mem_replicate] at hm
    obtain ⟨q, hq, _, rfl⟩ := hm
    exact ⟨q, hq, rfl⟩
  obtain ⟨b1, h1, hi1, f1, l1⟩ := Buffered.deleteMany_spec
    (findUnique b.writer.schema b.readSegs (uniqTerms b.writer.schema d)) b hi
    (by unfold findUnique; exact eraseDups_nodup _) hmem
  have hc1 : b1.content = b.content.filter (fun c => !sharesUnique (uniqTerms b.writer.schema d) c) := by
    simp only [Buffered.content]
    rw [contentOf_eq_liveGlobal _ _ 0, contentOf_eq_liveGlobal _ _ 0, l1, f1.wframe.schema, List.filter_map]
    congr 1
    apply List.filter_congr
    intro q hq
    simp only [Function.comp_def]
    rw [findUnique_contains b.writer.schema b.readSegs _ hp hun q hq]
  by_cases hf : d.fits b.writer.schema = true
  · have hf1 : d.fits b1.writer.schema = true := by rw [f1.wframe.schema]; exact hf
    obtain ⟨b2, h2, hi2, hs2, hl2, hp2, hc2⟩ := Buffered.addDocument_spec b1 hi1 d hf1
    have e : b.updateDocument d = (b2, none) := by simp only [Buffered.updateDocument, h1, h2]
    rw [e]
    refine ⟨hi2, hs2.trans f1.wframe.schema, hl2.trans f1.limit, hp2.trans f1.plan, ?_⟩
    simp only [hf, if_true]
    rw [← hc1]; exact hc2
  · have hf' : d.fits b.writer.schema = false := by simpa using hf
    have hf1 : d.fits b1.writer.schema = false := by rw [f1.wframe.schema]; exact hf'
    have e : b.updateDocument d = (b1, some .unknownField) := by
      simp only [Buffered.updateDocument, h1, Buffered.addDocument, hf1, Bool.not_false, if_true]
    rw [e]
    refine ⟨hi1, f1.wframe.schema, f1.limit, f1.plan, ?_⟩
    simp only [hf', Bool.false_eq_true, if_false, List.append_nil]
    rw [hc1]

/-- side conditions per call, on the dictionary state -/
def BOpOK (sp : State) : Op → Prop
  | .add _ => True
  | .update d => ∀ ft ∈ uniqTerms sp.schema d, (sp.docs.filter (fun c => c.hasTerm ft.1 ft.2)).length ≤ 1
  | .delBy (.pred _) => True
  | .delBy (.term f t) => ∀ c ∈ sp.docs, termCount sp.schema f t c ≤ 1
  | _ => False

def BRunOK : State → List Op → Prop
  | _, [] => True
  | sp, o :: r => BOpOK sp o ∧ BRunOK (flatStep sp o) r

/-- buffered writer and dictionary agree -/
structure BRel (b : Buffered) (sp : State) : Prop where
  inv : BInv b
  schema : sp.schema = b.writer.schema
  docs : b.content.Perm sp.docs

theorem termCount_restrict (sc : Schema) (f t : Nat) (d : DocRec) :
    termCount sc f t (restrict sc d) = termCount sc f t d := by
  simp only [termCount, restrict_idem]

theorem buffered_step (b : Buffered) (sp : State) (h : BRel b sp) (op : Op) (hok : BOpOK sp op) :
    BRel (b.step op) (flatStep sp op) := by
  cases op with
  | add d =>
    by_cases hf : d.fits b.writer.schema = true
    · obtain ⟨b', h1, hi', hs', _, _, hc'⟩ := Buffered.addDocument_spec b h.inv d hf
      have hf' : d.fits sp.schema = true := by rw [h.schema]; exact hf
      simp only [Buffered.step, h1, flatStep, hf', if_true]
      exact ⟨hi', h.schema.trans hs'.symm, hc'.trans (h.docs.append_right _)⟩
    · have hf0 : d.fits b.writer.schema = false := by simpa using hf
      have hf' : d.fits sp.schema = false := by rw [h.schema]; exact hf0
      simp only [Buffered.step, Buffered.addDocument, hf0, Bool.not_false, if_true, flatStep, hf',
        Bool.false_eq_true, if_false]
      exact h
  | update d =>
    have hun : ∀ ft ∈ uniqTerms b.writer.schema d, (b.content.filter (fun c => c.hasTerm ft.1 ft.2)).length ≤ 1 := by
      intro ft hft
      rw [(h.docs.filter _).length_eq]
      exact hok ft (by rw [h.schema]; exact hft)
    obtain ⟨hi', hs', _, _, hc'⟩ := Buffered.updateDocument_spec b h.inv d hun
    refine ⟨hi', h.schema.trans hs'.symm, ?_⟩
    simp only [Buffered.step, flatStep, h.schema]
    exact hc'.trans ((h.docs.filter _).append_right _)
  | delBy q =>
    cases q with
    | pred p =>
      obtain ⟨b', h1, hi', f1, hc'⟩ := Buffered.deleteByQuery_pred b h.inv p
      simp only [Buffered.step, h1, flatStep]
      exact ⟨hi', h.schema.trans f1.wframe.schema.symm, by rw [hc']; exact h.docs.filter _⟩
    | term f t =>
      have hone : ∀ x ∈ liveGlobal b.readSegs 0, termCount b.writer.schema f t x.1 ≤ 1 := by
        intro x hx
        have hm : restrict b.writer.schema x.1 ∈ b.content := by
          simp only [Buffered.content]
          rw [contentOf_eq_liveGlobal _ _ 0]
          exact List.mem_map.mpr ⟨x, hx, rfl⟩
        have := hok _ (h.docs.mem_iff.mp hm)
        rw [h.schema, termCount_restrict] at this
        exact this
      obtain ⟨b', h1, hi', f1, hc'⟩ := Buffered.deleteByQuery_term b h.inv f t hone
      simp only [Buffered.step, h1, flatStep]
      exact ⟨hi', h.schema.trans f1.wframe.schema.symm, by rw [hc']; exact h.docs.filter _⟩
  | delDoc n => exact absurd hok (by simp [BOpOK])
  | undelDoc n => exact absurd hok (by simp [BOpOK])
  | addField f u => exact absurd hok (by simp [BOpOK])
  | removeField f => exact absurd hok (by simp [BOpOK])

/-- **buffered.** Any sequence of `add_document` / `update_document` / `delete_by_term` /
`delete_by_query` calls on a `BufferedWriter` (flushes wherever the limit says): after every call
the writer's own reader holds exactly the dictionary — committed plus buffered documents, buffered
ones being deletable and replaceable like committed ones — and `close()` commits a well-formed index
holding the same. -/
theorem buffered_run (ops : List Op) (b : Buffered) (sp : State) (h : BRel b sp) (hok : BRunOK sp ops) :
    BRel (ops.foldl Buffered.step b) (ops.foldl flatStep sp) ∧
    ∃ t, (ops.foldl Buffered.step b).close = .ok t ∧ t.WF ∧ t.content.Perm (ops.foldl flatStep sp).docs := by
  induction ops generalizing b sp with
  | nil =>
    obtain ⟨t, h1, wft, _, hc⟩ := Buffered.flush_spec b h.inv
    exact ⟨h, t, h1, wft, hc.trans h.docs⟩
  | cons o r ih => exact ih _ _ (buffered_step b sp h o hok.1) hok.2

end WM.Index
