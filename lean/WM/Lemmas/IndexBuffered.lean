import WM.Lemmas.IndexMp
/-! BufferedWriter: adding documents, flushing at the limit, closing. -/
namespace WM.Index
open WM.Dict

/-- invariant of a buffered writer between calls (no deletions pending in RAM) -/
structure BInv (b : Buffered) : Prop where
  wwf : b.writer.WF
  rwf : b.ram.WF
  rdel : b.ram.deleted = []
  rfit : ∀ d ∈ b.ram.docs, d.fits b.writer.schema = true
  ndocs : b.writer.ndocs = []
  added : b.writer.added = false
  count : b.count = 0 → b.ram.docs = []
  plan : PlanOK b.plan

theorem emptySeg_wf : emptySeg.WF := ⟨by simp [emptySeg], by simp [emptySeg], by simp [emptySeg, allPostings], by simp [emptySeg]⟩

theorem Buffered.content_eq (b : Buffered) (h : b.ram.deleted = []) (hf : ∀ d ∈ b.ram.docs, d.fits b.writer.schema = true) :
    b.content = contentOf b.writer.schema b.writer.segs ++ b.ram.docs := by
  simp only [Buffered.content, Buffered.readSegs, contentOf_append]
  congr 1
  simp only [contentOf, List.flatMap_cons, List.flatMap_nil, List.append_nil]
  rw [Seg.liveDocs_of_no_deletions _ h]
  conv => rhs; rw [← List.map_id b.ram.docs]
  apply List.map_congr_left
  intro d hd; exact restrict_of_fits _ _ (hf d hd)

/-- flushing: `add_reader(ramreader)` + `commit` + a new writer -/
theorem Buffered.flush_spec (b : Buffered) (hi : BInv b) :
    ∃ t, (if b.count > 0 then b.writer.addReader b.ram else .ok b.writer).bind (fun w => w.commitPlan b.plan) = .ok t ∧
      t.WF ∧ t.schema = b.writer.schema ∧ t.content.Perm b.content := by
  have hcontent := Buffered.content_eq b hi.rdel hi.rfit
  by_cases hc : b.count > 0
  · obtain ⟨w1, h1, wf1⟩ := Writer.addReader_ok b.writer b.ram hi.wwf hi.rwf
    obtain ⟨a1, a2, a3, a4, a5, _⟩ := Writer.addReader_fields b.writer b.ram w1 h1
    obtain ⟨t, h2, wft⟩ := Writer.commitPlan_ok w1 b.plan wf1 (hi.plan.sub _)
    have hfit1 : ∀ d ∈ w1.ndocs, d.fits w1.schema = true := by
      intro d hd
      rw [a5, hi.ndocs, List.nil_append, List.mem_map] at hd
      obtain ⟨x, _, rfl⟩ := hd
      rw [a1]; exact restrict_fits _ _
    obtain ⟨c1, _, c3⟩ := Writer.commitPlan_content w1 b.plan t h2 hfit1 (by intro h; rw [a4] at h; cases h)
    refine ⟨t, by simp only [hc, if_true, h1, bind, Except.bind]; exact h2, wft, by rw [c1, a1], ?_⟩
    rw [show t.content = _ from c3, hcontent, a1, a2, a5, hi.ndocs, List.nil_append,
      Seg.liveDocs_of_no_deletions _ hi.rdel]
    have h3 := contentOf_perm b.writer.schema (hi.plan b.writer.segs)
    rw [contentOf_append] at h3
    have hmap : b.ram.docs.map (restrict b.writer.schema) = b.ram.docs := by
      conv => rhs; rw [← List.map_id b.ram.docs]
      apply List.map_congr_left
      intro d hd; exact restrict_of_fits _ _ (hi.rfit d hd)
    rw [hmap]
    -- u ++ (r ++ m)  ~  (m ++ u) ++ r
    refine List.Perm.trans ?_ (h3.append_right _)
    refine (List.Perm.append_left _ List.perm_append_comm).trans ?_
    rw [← List.append_assoc]
    exact List.Perm.append_right _ List.perm_append_comm
  · have hc0 : b.count = 0 := by omega
    obtain ⟨t, h2, wft⟩ := Writer.commitPlan_ok b.writer b.plan hi.wwf (hi.plan.sub _)
    obtain ⟨c1, _, c3⟩ := Writer.commitPlan_content b.writer b.plan t h2 (by simp [hi.ndocs]) (fun _ => hi.ndocs)
    refine ⟨t, by simp only [hc, if_false, bind, Except.bind]; exact h2, wft, c1, ?_⟩
    rw [show t.content = _ from c3, hcontent, hi.ndocs, hi.count hc0, List.nil_append, List.append_nil]
    have h3 := contentOf_perm b.writer.schema (hi.plan b.writer.segs)
    rw [contentOf_append] at h3
    exact List.perm_append_comm.trans h3

theorem Buffered.commit_spec (b : Buffered) (hi : BInv b) :
    ∃ b', b.commit = .ok b' ∧ BInv b' ∧ b'.writer.schema = b.writer.schema ∧ b'.limit = b.limit ∧
      b'.content.Perm b.content := by
  obtain ⟨t, h1, wft, hs, hc⟩ := Buffered.flush_spec b hi
  refine ⟨{ b with writer := t.writer, ram := emptySeg, count := 0 }, ?_, ?_, hs, rfl, ?_⟩
  · unfold Buffered.commit
    cases h0 : (if b.count > 0 then b.writer.addReader b.ram else Except.ok b.writer) with
    | error e => rw [h0] at h1; simp [bind, Except.bind] at h1
    | ok w =>
      rw [h0] at h1
      simp only [bind, Except.bind] at h1 ⊢
      rw [h1]; rfl
  · exact ⟨Toc.writer_wf t wft, emptySeg_wf, rfl, by simp [emptySeg], rfl, rfl, fun _ => rfl, hi.plan⟩
  · simp only [Buffered.content, Buffered.readSegs, contentOf_append, Toc.writer]
    have : contentOf t.schema [emptySeg] = [] := by simp [contentOf, emptySeg, Seg.liveDocs, Seg.liveIdx]
    rw [this, List.append_nil]
    simp only [Buffered.content, Buffered.readSegs, contentOf_append, Toc.content] at hc
    exact hc

/-- `add_document` on the buffered writer: the document becomes visible to the writer's own reader
    at once; reaching the limit flushes without changing what the reader sees. -/
theorem Buffered.addDocument_spec (b : Buffered) (hi : BInv b) (d : DocRec) (hf : d.fits b.writer.schema = true) :
    ∃ b', b.addDocument d = .ok b' ∧ BInv b' ∧ b'.writer.schema = b.writer.schema ∧ b'.limit = b.limit ∧
      b'.content.Perm (b.content ++ [d]) := by
  let ram' : Seg := { docs := b.ram.docs ++ [d]
                      posts := (b.ram.posts ++ docPostings d b.ram.docs.length).mergeSort Posting.le
                      deleted := b.ram.deleted }
  let b1 : Buffered := { b with ram := ram', count := b.count + 1 }
  have hram : ram'.WF := by
    refine ⟨hi.rwf.delNodup, ?_, ?_, mergeSort_sorted _⟩
    · intro n hn
      have := hi.rwf.delRange n hn
      show n < (b.ram.docs ++ [d]).length
      simp only [Seg.docCountAll] at this
      simp only [List.length_append, List.length_singleton]
      omega
    · refine (List.mergeSort_perm _ _).trans ?_
      show (b.ram.posts ++ docPostings d b.ram.docs.length).Perm (allPostings (b.ram.docs ++ [d]))
      rw [allPostings_append, allPostings_singleton, Nat.zero_add]
      exact hi.rwf.posts.append_right _
  have hi1 : BInv b1 :=
    ⟨hi.wwf, hram, hi.rdel, by
      intro x hx
      simp only [b1, ram', List.mem_append, List.mem_singleton] at hx
      rcases hx with hx | rfl
      · exact hi.rfit x hx
      · exact hf, hi.ndocs, hi.added, by intro h; simp [b1] at h, hi.plan⟩
  have hc1 : b1.content = b.content ++ [d] := by
    rw [Buffered.content_eq b1 hi1.rdel hi1.rfit, Buffered.content_eq b hi.rdel hi.rfit]
    simp [b1, ram', List.append_assoc]
  have hstep : b.addDocument d = if b1.count ≥ b1.limit then b1.commit else .ok b1 := by
    simp only [Buffered.addDocument, hf, Bool.not_true, Bool.false_eq_true, if_false]
    rfl
  by_cases hl : b1.count ≥ b1.limit
  · obtain ⟨b2, h2, hi2, hs2, hl2, hc2⟩ := Buffered.commit_spec b1 hi1
    exact ⟨b2, by rw [hstep]; simp only [hl, if_true]; exact h2, hi2, hs2, hl2, hc1 ▸ hc2⟩
  · exact ⟨b1, by rw [hstep]; simp only [hl, if_false], hi1, rfl, rfl, by rw [hc1]⟩

/-- Any number of `add_document` calls, then `close()`: at every point the writer's own reader
    holds the committed documents plus the buffered ones (`addDocument_spec`), and after `close()`
    the committed index holds all of them — nothing is left unsaved. -/
theorem Buffered.adds_close (docs : List DocRec) (b : Buffered) (hi : BInv b)
    (hf : ∀ d ∈ docs, d.fits b.writer.schema = true) :
    ∃ b', docs.foldlM (fun b d => b.addDocument d) b = .ok b' ∧ BInv b' ∧ b'.content.Perm (b.content ++ docs) ∧
      ∃ t, b'.close = .ok t ∧ t.WF ∧ t.content.Perm (b.content ++ docs) := by
  induction docs generalizing b with
  | nil =>
    obtain ⟨t, h1, wft, _, hc⟩ := Buffered.flush_spec b hi
    exact ⟨b, rfl, hi, by simp, t, h1, wft, by simpa using hc⟩
  | cons d r ih =>
    obtain ⟨b1, h1, hi1, hs1, _, hc1⟩ := Buffered.addDocument_spec b hi d (hf d (by simp))
    obtain ⟨b', h2, hi', hc', t, h3, wft, hct⟩ := ih b1 hi1 (by intro x hx; rw [hs1]; exact hf x (by simp [hx]))
    have hp : (b1.content ++ r).Perm (b.content ++ d :: r) := by
      refine (hc1.append_right r).trans ?_
      simp [List.append_assoc]
    exact ⟨b', by simp only [List.foldlM_cons, h1, bind, Except.bind]; exact h2, hi', hc'.trans hp, t, h3, wft,
      hct.trans hp⟩

end WM.Index
