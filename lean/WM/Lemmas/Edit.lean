import WM.Spec.EditDistance
/-! Theory of the specification distances: the recursion computes the minimum script cost, the
distances are symmetric and invariant under reversal, and they satisfy the *prefix* (last
character) recurrences on which the row-wise DP and the Levenshtein automaton are built. -/
namespace WM.Edit

@[simp] theorem ed_nil_left (tr : Bool) (b : List Nat) : ed tr [] b = b.length := by
  rw [ed]

@[simp] theorem ed_nil_right (tr : Bool) (a : List Nat) : ed tr a [] = a.length := by
  cases a <;> simp [ed]

/-- The three classical alternatives for the first characters. -/
def base3 (tr : Bool) (x y : Nat) (a b : List Nat) : Nat :=
  min (ed tr a (y :: b) + 1) (min (ed tr (x :: a) b + 1) (ed tr a b + neq x y))

theorem ed_cons_cons_swap (tr : Bool) (x y : Nat) (a b : List Nat) (h : tr = true) :
    ed tr (x :: y :: a) (y :: x :: b) = min (base3 tr x y (y :: a) (x :: b)) (ed tr a b + 1) := by
  rw [ed.eq_3]; simp [h, base3]

theorem ed_cons_cons_noswap (tr : Bool) (x y : Nat) (a b : List Nat)
    (h : ¬ (tr = true ∧ ∃ a' b', a = y :: a' ∧ b = x :: b')) :
    ed tr (x :: a) (y :: b) = base3 tr x y a b := by
  cases a with
  | nil => rw [ed.eq_4]; rfl; simp
  | cons x' a' =>
    cases b with
    | nil => rw [ed.eq_4]; rfl; simp
    | cons y' b' =>
      rw [ed.eq_3]
      have : ¬ (tr = true ∧ x = y' ∧ x' = y) := by
        rintro ⟨h1, h2, h3⟩
        exact h ⟨h1, a', b', by simp [h3], by simp [h2]⟩
      simp only [this, if_false]; rfl

/-- Textbook recursion of the Levenshtein distance. -/
theorem lev_cons_cons (x y : Nat) (a b : List Nat) :
    lev (x :: a) (y :: b) = min (lev a (y :: b) + 1) (min (lev (x :: a) b + 1) (lev a b + neq x y)) := by
  unfold lev
  rw [ed_cons_cons_noswap]; rfl; simp

/-- Recursion of the optimal-string-alignment distance when a transposition applies ... -/
theorem osa_cons_cons_swap (x y : Nat) (a b : List Nat) :
    osa (x :: y :: a) (y :: x :: b) =
      min (min (osa (y :: a) (y :: x :: b) + 1)
            (min (osa (x :: y :: a) (x :: b) + 1) (osa (y :: a) (x :: b) + neq x y)))
          (osa a b + 1) := by
  unfold osa
  rw [ed_cons_cons_swap _ _ _ _ _ rfl]; rfl

/-- ... and when it does not. -/
theorem osa_cons_cons_noswap (x y : Nat) (a b : List Nat)
    (h : ¬ ∃ a' b', a = y :: a' ∧ b = x :: b') :
    osa (x :: a) (y :: b) = min (osa a (y :: b) + 1) (min (osa (x :: a) b + 1) (osa a b + neq x y)) := by
  unfold osa
  rw [ed_cons_cons_noswap]; rfl; simp only [true_and]; exact h

/-! ### The recursion computes the minimum script cost -/

theorem neq_le_one (x y : Nat) : neq x y ≤ 1 := by unfold neq; split <;> omega
@[simp] theorem neq_self (x : Nat) : neq x x = 0 := by simp [neq]
theorem neq_comm (x y : Nat) : neq x y = neq y x := by
  unfold neq; split <;> split <;> simp_all

/-- Scripts that only delete / only insert. -/
theorem Script.delAll (tr : Bool) : ∀ a : List Nat, Script tr a [] a.length
  | [] => Script.nil
  | x :: a => Script.del x (Script.delAll tr a)

theorem Script.insAll (tr : Bool) : ∀ b : List Nat, Script tr [] b b.length
  | [] => Script.nil
  | y :: b => Script.ins y (Script.insAll tr b)

theorem base3_script (tr : Bool) (x y : Nat) (a b : List Nat)
    (h1 : Script tr a (y :: b) (ed tr a (y :: b))) (h2 : Script tr (x :: a) b (ed tr (x :: a) b))
    (h3 : Script tr a b (ed tr a b)) : Script tr (x :: a) (y :: b) (base3 tr x y a b) := by
  unfold base3
  rcases Nat.le_total (ed tr a (y :: b) + 1) (min (ed tr (x :: a) b + 1) (ed tr a b + neq x y)) with h | h
  · rw [Nat.min_eq_left h]; exact Script.del x h1
  · rw [Nat.min_eq_right h]
    rcases Nat.le_total (ed tr (x :: a) b + 1) (ed tr a b + neq x y) with h' | h'
    · rw [Nat.min_eq_left h']; exact Script.ins y h2
    · rw [Nat.min_eq_right h']; exact Script.sub x y h3

/-- The distance is the cost of some script. -/
theorem script_ed (tr : Bool) (a b : List Nat) : Script tr a b (ed tr a b) := by
  induction a, b using ed.induct (tr := tr) with
  | case1 b => rw [ed_nil_left]; exact Script.insAll tr b
  | case2 x a => rw [ed_nil_right]; exact Script.delAll tr (x :: a)
  | case3 x y x' a' y' b' h ih1 ih2 ih3 ih4 =>
    obtain ⟨h1, h2, h3⟩ := h
    subst h2 h3
    rw [ed_cons_cons_swap _ _ _ _ _ h1]
    have hb := base3_script tr x x' _ _ ih1 ih2 ih3
    rcases Nat.le_total (base3 tr x x' (x' :: a') (x :: b')) (ed tr a' b' + 1) with h | h
    · rw [Nat.min_eq_left h]; exact hb
    · rw [Nat.min_eq_right h]; exact Script.swap _ _ h1 ih4
  | case4 x y x' a' y' b' h ih1 ih2 ih3 =>
    rw [ed_cons_cons_noswap]
    · exact base3_script tr x y _ _ ih1 ih2 ih3
    · rintro ⟨h1, a'', b'', e1, e2⟩
      simp at e1 e2
      exact h ⟨h1, e2.1.symm, e1.1⟩
  | case5 x a y b h ih1 ih2 ih3 =>
    rw [ed_cons_cons_noswap]
    · exact base3_script tr x y _ _ ih1 ih2 ih3
    · rintro ⟨_, a'', b'', e1, e2⟩
      exact h _ _ _ _ e1 e2

theorem ed_cons_cons_le_base3 (tr : Bool) (x y : Nat) (a b : List Nat) :
    ed tr (x :: a) (y :: b) ≤ base3 tr x y a b := by
  by_cases h : tr = true ∧ ∃ a' b', a = y :: a' ∧ b = x :: b'
  · obtain ⟨h1, a', b', rfl, rfl⟩ := h
    rw [ed_cons_cons_swap _ _ _ _ _ h1]; exact Nat.min_le_left _ _
  · rw [ed_cons_cons_noswap _ _ _ _ _ h]; exact Nat.le_refl _

theorem ed_cons_left_le (tr : Bool) (x : Nat) (a b : List Nat) : ed tr (x :: a) b ≤ ed tr a b + 1 := by
  cases b with
  | nil => simp
  | cons y b =>
    exact Nat.le_trans (ed_cons_cons_le_base3 tr x y a b) (Nat.min_le_left _ _)

theorem ed_cons_right_le (tr : Bool) (y : Nat) (a b : List Nat) : ed tr a (y :: b) ≤ ed tr a b + 1 := by
  cases a with
  | nil => simp
  | cons x a =>
    exact Nat.le_trans (ed_cons_cons_le_base3 tr x y a b)
      (Nat.le_trans (Nat.min_le_right _ _) (Nat.min_le_left _ _))

theorem ed_cons_cons_le (tr : Bool) (x y : Nat) (a b : List Nat) :
    ed tr (x :: a) (y :: b) ≤ ed tr a b + neq x y :=
  Nat.le_trans (ed_cons_cons_le_base3 tr x y a b)
    (Nat.le_trans (Nat.min_le_right _ _) (Nat.min_le_right _ _))

/-- The distance is a lower bound of every script cost. -/
theorem ed_le_of_script {tr : Bool} {a b : List Nat} {n : Nat} (h : Script tr a b n) : ed tr a b ≤ n := by
  induction h with
  | nil => simp
  | del x _ ih => exact Nat.le_trans (ed_cons_left_le tr x _ _) (by omega)
  | ins y _ ih => exact Nat.le_trans (ed_cons_right_le tr y _ _) (by omega)
  | sub x y _ ih => exact Nat.le_trans (ed_cons_cons_le tr x y _ _) (by omega)
  | swap x y ht _ ih =>
    rw [ed_cons_cons_swap _ _ _ _ _ ht]
    exact Nat.le_trans (Nat.min_le_right _ _) (by omega)

/-- **The recursion computes the minimum script cost.** -/
theorem ed_le_iff (tr : Bool) (a b : List Nat) (n : Nat) :
    ed tr a b ≤ n ↔ ∃ m, m ≤ n ∧ Script tr a b m :=
  ⟨fun h => ⟨_, h, script_ed tr a b⟩, fun ⟨_, hm, hs⟩ => Nat.le_trans (ed_le_of_script hs) hm⟩

/-! ### Symmetry and reversal -/

theorem Script.symm {tr : Bool} {a b : List Nat} {n : Nat} (h : Script tr a b n) : Script tr b a n := by
  induction h with
  | nil => exact Script.nil
  | del x _ ih => exact Script.ins x ih
  | ins y _ ih => exact Script.del y ih
  | sub x y _ ih => rw [neq_comm]; exact Script.sub y x ih
  | swap x y ht _ ih => exact Script.swap y x ht ih

theorem ed_symm (tr : Bool) (a b : List Nat) : ed tr a b = ed tr b a :=
  Nat.le_antisymm (ed_le_of_script (script_ed tr b a).symm) (ed_le_of_script (script_ed tr a b).symm)

theorem Script.snocDel {tr : Bool} {a b : List Nat} {n : Nat} (x : Nat) (h : Script tr a b n) :
    Script tr (a ++ [x]) b (n + 1) := by
  induction h with
  | nil => exact Script.del x Script.nil
  | del x' _ ih => exact Script.del x' ih
  | ins y _ ih => exact Script.ins y ih
  | sub x' y _ ih => rw [Nat.add_right_comm]; exact Script.sub x' y ih
  | swap x' y ht _ ih => exact Script.swap x' y ht ih

theorem Script.snocIns {tr : Bool} {a b : List Nat} {n : Nat} (y : Nat) (h : Script tr a b n) :
    Script tr a (b ++ [y]) (n + 1) := (Script.snocDel y h.symm).symm

theorem Script.snocSub {tr : Bool} {a b : List Nat} {n : Nat} (x y : Nat) (h : Script tr a b n) :
    Script tr (a ++ [x]) (b ++ [y]) (n + neq x y) := by
  induction h with
  | nil => exact Script.sub x y Script.nil
  | del x' _ ih => rw [Nat.add_right_comm]; exact Script.del x' ih
  | ins y' _ ih => rw [Nat.add_right_comm]; exact Script.ins y' ih
  | sub x' y' _ ih => rw [Nat.add_right_comm]; exact Script.sub x' y' ih
  | swap x' y' ht _ ih => rw [Nat.add_right_comm]; exact Script.swap x' y' ht ih

theorem Script.snocSwap {tr : Bool} {a b : List Nat} {n : Nat} (x y : Nat) (ht : tr = true)
    (h : Script tr a b n) : Script tr (a ++ [x, y]) (b ++ [y, x]) (n + 1) := by
  induction h with
  | nil => exact Script.swap x y ht Script.nil
  | del x' _ ih => exact Script.del x' ih
  | ins y' _ ih => exact Script.ins y' ih
  | sub x' y' _ ih => rw [Nat.add_right_comm]; exact Script.sub x' y' ih
  | swap x' y' ht' _ ih => exact Script.swap x' y' ht' ih

theorem Script.reverse {tr : Bool} {a b : List Nat} {n : Nat} (h : Script tr a b n) :
    Script tr a.reverse b.reverse n := by
  induction h with
  | nil => exact Script.nil
  | del x _ ih => rw [List.reverse_cons]; exact Script.snocDel x ih
  | ins y _ ih => rw [List.reverse_cons]; exact Script.snocIns y ih
  | sub x y _ ih => rw [List.reverse_cons, List.reverse_cons]; exact Script.snocSub x y ih
  | swap x y ht _ ih =>
    simp only [List.reverse_cons, List.append_assoc, List.cons_append, List.nil_append]
    exact Script.snocSwap y x ht ih

theorem ed_reverse (tr : Bool) (a b : List Nat) : ed tr a.reverse b.reverse = ed tr a b := by
  apply Nat.le_antisymm
  · exact ed_le_of_script (script_ed tr a b).reverse
  · have := ed_le_of_script (script_ed tr a.reverse b.reverse).reverse
    simpa using this

/-! ### Recurrences on the last characters (what the DP rows and the automaton use) -/

/-- The three classical alternatives for the last characters. -/
def snocBase (tr : Bool) (x y : Nat) (a b : List Nat) : Nat :=
  min (ed tr a (b ++ [y]) + 1) (min (ed tr (a ++ [x]) b + 1) (ed tr a b + neq x y))

theorem ed_cons_reverse_left (tr : Bool) (x : Nat) (a b : List Nat) :
    ed tr (x :: a.reverse) b.reverse = ed tr (a ++ [x]) b := by
  rw [← ed_reverse tr (a ++ [x]) b]; simp

theorem ed_cons_reverse_right (tr : Bool) (y : Nat) (a b : List Nat) :
    ed tr a.reverse (y :: b.reverse) = ed tr a (b ++ [y]) := by
  rw [← ed_reverse tr a (b ++ [y])]; simp

theorem ed_cons_reverse_both (tr : Bool) (x y : Nat) (a b : List Nat) :
    ed tr (x :: a.reverse) (y :: b.reverse) = ed tr (a ++ [x]) (b ++ [y]) := by
  rw [← ed_reverse tr (a ++ [x]) (b ++ [y])]; simp

theorem base3_reverse (tr : Bool) (x y : Nat) (a b : List Nat) :
    base3 tr x y a.reverse b.reverse = snocBase tr x y a b := by
  unfold base3 snocBase
  rw [ed_cons_reverse_left, ed_cons_reverse_right, ed_reverse]

theorem ed_snoc_snoc_swap (tr : Bool) (x y : Nat) (a b : List Nat) (ht : tr = true) :
    ed tr (a ++ [y, x]) (b ++ [x, y]) = min (snocBase tr x y (a ++ [y]) (b ++ [x])) (ed tr a b + 1) := by
  rw [← ed_reverse tr (a ++ [y, x]) (b ++ [x, y])]
  simp only [List.reverse_append, List.reverse_cons, List.reverse_nil, List.nil_append,
    List.cons_append]
  rw [ed_cons_cons_swap _ _ _ _ _ ht, ed_reverse]
  have := base3_reverse tr x y (a ++ [y]) (b ++ [x])
  simp only [List.reverse_append, List.reverse_cons, List.reverse_nil, List.nil_append,
    List.cons_append] at this
  rw [this]

theorem ed_snoc_snoc_noswap (tr : Bool) (x y : Nat) (a b : List Nat)
    (h : ¬ (tr = true ∧ ∃ a' b', a = a' ++ [y] ∧ b = b' ++ [x])) :
    ed tr (a ++ [x]) (b ++ [y]) = snocBase tr x y a b := by
  rw [← ed_cons_reverse_both, ed_cons_cons_noswap, base3_reverse]
  rintro ⟨ht, a', b', ha, hb⟩
  apply h
  refine ⟨ht, a'.reverse, b'.reverse, ?_, ?_⟩
  · have := congrArg List.reverse ha; simpa using this
  · have := congrArg List.reverse hb; simpa using this

theorem ed_snoc_left_le (tr : Bool) (x : Nat) (a b : List Nat) : ed tr (a ++ [x]) b ≤ ed tr a b + 1 :=
  ed_le_of_script (Script.snocDel x (script_ed tr a b))

theorem ed_snoc_right_le (tr : Bool) (y : Nat) (a b : List Nat) : ed tr a (b ++ [y]) ≤ ed tr a b + 1 :=
  ed_le_of_script (Script.snocIns y (script_ed tr a b))

theorem ed_snoc_snoc_le (tr : Bool) (x y : Nat) (a b : List Nat) :
    ed tr (a ++ [x]) (b ++ [y]) ≤ ed tr a b + neq x y :=
  ed_le_of_script (Script.snocSub x y (script_ed tr a b))

/-- Transpositions only help: the optimal-string-alignment distance never exceeds Levenshtein's. -/
theorem Script.mono {a b : List Nat} {n : Nat} (h : Script false a b n) : Script true a b n := by
  induction h with
  | nil => exact Script.nil
  | del x _ ih => exact Script.del x ih
  | ins y _ ih => exact Script.ins y ih
  | sub x y _ ih => exact Script.sub x y ih
  | swap x y ht _ _ => cases ht

theorem osa_le_lev (a b : List Nat) : osa a b ≤ lev a b :=
  ed_le_of_script (script_ed false a b).mono

/-! ### Removing one character changes the distance by at most one; common prefixes cancel -/

theorem script_uncons_right {tr : Bool} {a b' : List Nat} {n : Nat} (h : Script tr a b' n) :
    ∀ y b, b' = y :: b → ∃ m, m ≤ n + 1 ∧ Script tr a b m := by
  induction h with
  | nil => intro y b hb; cases hb
  | del x _ ih =>
    intro y b hb
    obtain ⟨m, hm, hs⟩ := ih y b hb
    exact ⟨m + 1, by omega, Script.del x hs⟩
  | ins y' h _ =>
    intro y b hb
    cases hb
    exact ⟨_, by omega, h⟩
  | sub x y' h _ =>
    intro y b hb
    cases hb
    exact ⟨_, by omega, Script.del x h⟩
  | swap x y' ht h _ =>
    intro y b hb
    cases hb
    refine ⟨_, ?_, Script.sub x x (Script.del y' h)⟩
    simp

theorem ed_le_cons_right (tr : Bool) (y : Nat) (a b : List Nat) : ed tr a b ≤ ed tr a (y :: b) + 1 := by
  obtain ⟨m, hm, hs⟩ := script_uncons_right (script_ed tr a (y :: b)) y b rfl
  exact Nat.le_trans (ed_le_of_script hs) hm

theorem ed_le_cons_left (tr : Bool) (x : Nat) (a b : List Nat) : ed tr a b ≤ ed tr (x :: a) b + 1 := by
  rw [ed_symm tr a b, ed_symm tr (x :: a) b]; exact ed_le_cons_right tr x b a

theorem ed_cons_cons_same (tr : Bool) (c : Nat) (a b : List Nat) : ed tr (c :: a) (c :: b) = ed tr a b := by
  apply Nat.le_antisymm
  · have := ed_cons_cons_le tr c c a b; simpa using this
  · have hb : ed tr a b ≤ base3 tr c c a b := by
      unfold base3
      have h1 := ed_le_cons_right tr c a b
      have h2 := ed_le_cons_left tr c a b
      simp only [neq_self, Nat.add_zero]
      omega
    by_cases h : tr = true ∧ ∃ a' b', a = c :: a' ∧ b = c :: b'
    · obtain ⟨ht, a', b', rfl, rfl⟩ := h
      rw [ed_cons_cons_swap _ _ _ _ _ ht]
      have h3 := ed_cons_cons_le tr c c a' b'
      simp only [neq_self, Nat.add_zero] at h3
      omega
    · rw [ed_cons_cons_noswap _ _ _ _ _ h]; exact hb

/-- A common prefix does not change the distance. -/
theorem ed_append_left_same (tr : Bool) (p a b : List Nat) : ed tr (p ++ a) (p ++ b) = ed tr a b := by
  induction p with
  | nil => rfl
  | cons c p ih => simp only [List.cons_append]; rw [ed_cons_cons_same, ih]

end WM.Edit
