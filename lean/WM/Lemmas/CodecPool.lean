import WM.Lemmas.CodecGroup
/-! The pool → `add_postings` path: the posting list of a term is, in document order, each
containing document's `word_values` item for that term. -/
namespace WM.Codec

/-- A `≤`-sorted permutation of a strictly sorted list (by an integer key) is that list. -/
theorem sorted_perm_eq {α : Type} (key : α → Int) :
    ∀ (l₁ l₂ : List α), l₁.Pairwise (fun a b => key a ≤ key b) → l₂.Pairwise (fun a b => key a < key b) →
      l₁.Perm l₂ → l₁ = l₂ := by
  intro l₁
  induction l₁ with
  | nil => intro l₂ _ _ hp; exact (List.Perm.nil_eq hp)
  | cons a t₁ ih =>
    intro l₂ h₁ h₂ hp
    cases l₂ with
    | nil => exact absurd hp.symm (by simp)
    | cons b t₂ =>
      have ha : a ∈ b :: t₂ := hp.mem_iff.mp (by simp)
      have hb : b ∈ a :: t₁ := hp.mem_iff.mpr (by simp)
      have hab : key a ≤ key b := by
        simp only [List.mem_cons] at hb
        rcases hb with rfl | hb
        · exact Int.le_refl _
        · exact (List.pairwise_cons.mp h₁).1 b hb
      have heq : a = b := by
        simp only [List.mem_cons] at ha
        rcases ha with rfl | ha
        · rfl
        · have := (List.pairwise_cons.mp h₂).1 a ha; omega
      subst heq
      rw [ih t₂ (List.pairwise_cons.mp h₁).2 (List.pairwise_cons.mp h₂).2 hp.cons_inv]

/-! `poolLe` is a total preorder -/

theorem poolLe_total (a b : Post) : (poolLe a b || poolLe b a) = true := by
  unfold poolLe
  by_cases h : a.term = b.term
  · rw [if_pos h, if_pos h.symm]
    simp only [Bool.or_eq_true, decide_eq_true_eq]; omega
  · rw [if_neg h, if_neg (fun e => h e.symm)]
    simp only [Bool.or_eq_true, decide_eq_true_eq]
    exact String.le_total _ _

theorem poolLe_trans (a b c : Post) (h1 : poolLe a b = true) (h2 : poolLe b c = true) :
    poolLe a c = true := by
  unfold poolLe at *
  by_cases hab : a.term = b.term
  · rw [if_pos hab] at h1
    by_cases hbc : b.term = c.term
    · rw [if_pos hbc] at h2
      rw [if_pos (hab.trans hbc)]
      simp only [decide_eq_true_eq] at *; omega
    · rw [if_neg hbc] at h2
      rw [if_neg (fun e => hbc (hab.symm.trans e)), hab]
      exact h2
  · rw [if_neg hab] at h1
    by_cases hbc : b.term = c.term
    · rw [if_neg (fun e => hab (e.trans hbc.symm)), ← hbc]
      exact h1
    · rw [if_neg hbc] at h2
      simp only [decide_eq_true_eq] at h1 h2
      have hac : ¬ a.term = c.term := by
        intro e
        rw [← e] at h2
        exact hab (String.le_antisymm h1 h2)
      rw [if_neg hac]
      simp only [decide_eq_true_eq]
      exact String.le_trans h1 h2

theorem poolLe_term {a b : Post} (h : poolLe a b = true) : a.term ≤ b.term := by
  unfold poolLe at h
  by_cases hab : a.term = b.term
  · rw [hab]; exact String.le_refl _
  · rw [if_neg hab] at h; simpa using h

/-! `groupRuns` on a list sorted by term -/

theorem groupRuns_head (l : List Post) :
    (groupRuns l = [] ↔ l = []) ∧ ∀ g gs, groupRuns l = g :: gs → ∃ p rest, l = p :: rest ∧ g.1 = p.term := by
  induction l with
  | nil => exact ⟨by simp [groupRuns], fun g gs h => by simp [groupRuns] at h⟩
  | cons p rest ih =>
    constructor
    · simp only [groupRuns]
      constructor
      · intro h
        split at h
        · split at h <;> simp at h
        · simp at h
      · intro h; simp at h
    · intro g gs h
      simp only [groupRuns] at h
      refine ⟨p, rest, rfl, ?_⟩
      split at h
      · next t ps gs' heq =>
        split at h
        · next ht => simp only [List.cons.injEq] at h; rw [← h.1]; exact ht
        · simp only [List.cons.injEq] at h; rw [← h.1]
      · simp only [List.cons.injEq] at h; rw [← h.1]

theorem groupOf_nil (w : String) : groupOf [] w = [] := rfl

theorem groupOf_cons_eq (t : String) (ps : List Post) (gs : List (String × List Post)) (w : String)
    (h : t = w) : groupOf ((t, ps) :: gs) w = ps := by
  simp [groupOf, List.find?_cons, h]

theorem groupOf_cons_ne (t : String) (ps : List Post) (gs : List (String × List Post)) (w : String)
    (h : t ≠ w) : groupOf ((t, ps) :: gs) w = groupOf gs w := by
  have : (t == w) = false := by simpa using h
  simp [groupOf, List.find?_cons, this]

/-- On a list whose terms do not descend, the group found for `w` is the sub-list of the posts
    with term `w`. -/
theorem groupRuns_find (l : List Post) (hs : l.Pairwise (fun a b => a.term ≤ b.term)) (w : String) :
    groupOf (groupRuns l) w = l.filter (fun p => p.term == w) := by
  induction l with
  | nil => rfl
  | cons p rest ih =>
    have hs' := (List.pairwise_cons.mp hs).2
    have hle : ∀ q ∈ rest, p.term ≤ q.term := (List.pairwise_cons.mp hs).1
    have ih' := ih hs'
    simp only [groupRuns]
    cases hg : groupRuns rest with
    | nil =>
      have hr : rest = [] := (groupRuns_head rest).1.mp hg
      subst hr
      by_cases hw : p.term = w
      · rw [groupOf_cons_eq _ _ _ _ hw]
        simp only [List.filter_cons, hw, beq_self_eq_true, if_true, List.filter_nil]
      · have hw' : (p.term == w) = false := by simpa using hw
        rw [groupOf_cons_ne _ _ _ _ hw, groupOf_nil]
        simp only [List.filter_cons, hw', Bool.false_eq_true, if_false, List.filter_nil]
    | cons g gs =>
      obtain ⟨t, ps⟩ := g
      obtain ⟨q, rest', hrest, hgt⟩ := (groupRuns_head rest).2 (t, ps) gs hg
      simp only at hgt
      rw [hg] at ih'
      by_cases ht : t = p.term
      · simp only [ht, if_true]
        by_cases hw : p.term = w
        · rw [groupOf_cons_eq _ _ _ _ hw]
          rw [groupOf_cons_eq _ _ _ _ (ht.trans hw)] at ih'
          simp only [List.filter_cons, hw, beq_self_eq_true, if_true, ← ih']
        · have hw' : (p.term == w) = false := by simpa using hw
          rw [groupOf_cons_ne _ _ _ _ hw]
          rw [groupOf_cons_ne _ _ _ _ (by rw [ht]; exact hw)] at ih'
          simp only [List.filter_cons, hw', Bool.false_eq_true, if_false, ← ih']
      · simp only [ht, if_false]
        by_cases hw : p.term = w
        · -- `p` is the only post with this term: everything after is strictly larger
          have hnone : rest.filter (fun x => x.term == w) = [] := by
            rw [List.filter_eq_nil_iff]
            intro x hx
            simp only [beq_iff_eq]
            intro hxw
            have hpq : p.term ≤ q.term := hle q (by rw [hrest]; simp)
            have hqx : q.term ≤ x.term := by
              rw [hrest] at hx hs'
              simp only [List.mem_cons] at hx
              rcases hx with rfl | hx
              · exact String.le_refl _
              · exact (List.pairwise_cons.mp hs').1 x hx
            have hxp : x.term = p.term := by rw [hxw, hw]
            rw [hxp] at hqx
            exact ht (by rw [hgt]; exact String.le_antisymm hqx hpq)
          rw [groupOf_cons_eq _ _ _ _ hw]
          simp only [List.filter_cons, hw, beq_self_eq_true, if_true, hnone]
        · have hw' : (p.term == w) = false := by simpa using hw
          rw [groupOf_cons_ne _ _ _ _ hw]
          simp only [List.filter_cons, hw', Bool.false_eq_true, if_false]
          exact ih'

/-! one document contributes at most one post per term -/

theorem filter_eq_find_toList {α : Type} (l : List α) (key : α → String) (w : String)
    (hnd : (l.map key).Nodup) : l.filter (fun x => key x == w) = (l.find? (fun x => key x == w)).toList := by
  induction l with
  | nil => rfl
  | cons a l ih =>
    have hnd' := (List.nodup_cons.mp hnd).2
    have ha : key a ∉ l.map key := (List.nodup_cons.mp hnd).1
    by_cases hw : key a = w
    · have : l.filter (fun x => key x == w) = [] := by
        rw [List.filter_eq_nil_iff]
        intro x hx
        simp only [beq_iff_eq]
        intro e
        exact ha (by rw [hw, ← e]; exact List.mem_map_of_mem hx)
      simp [List.filter_cons, List.find?_cons, hw, this]
    · have hw' : (key a == w) = false := by simpa using hw
      simp only [List.filter_cons, List.find?_cons, hw', Bool.false_eq_true, if_false]
      exact ih hnd'

/-- The `word_values` item of document `d` for term `w`, as a pool post. -/
def docPost (f32 : Rat → Rat) (fmt : Fmt) (fb : Rat) (w : String) (d : DocIn) : Option Post :=
  ((wordValues f32 fmt fb d.toks).find? (fun x => x.1 == w)).map fun x =>
    { term := x.1, docnum := d.docnum, weight := x.2.2.1 * d.boost, value := x.2.2.2 }

theorem wordValues_nodup (f32 : Rat → Rat) (fmt : Fmt) (fb : Rat) (toks : List Token) :
    ((wordValues f32 fmt fb toks).map (·.1)).Nodup := by
  have h1 : (wordValues f32 fmt fb toks).map (·.1) = distinctTexts toks := by
    cases fmt <;> simp [wordValues, groupTokens_eq, Function.comp_def]
  rw [h1]; exact nodup_distinctTexts toks

theorem docPosts_filter (f32 : Rat → Rat) (fmt : Fmt) (fb : Rat) (w : String) (d : DocIn) :
    (docPosts f32 fmt fb d).filter (fun p => p.term == w) = (docPost f32 fmt fb w d).toList := by
  unfold docPosts docPost
  rw [List.filter_map]
  have := filter_eq_find_toList (wordValues f32 fmt fb d.toks) (·.1) w (wordValues_nodup f32 fmt fb d.toks)
  simp only [Function.comp_def]
  rw [this]
  cases (wordValues f32 fmt fb d.toks).find? (fun x => x.1 == w) <;> rfl

theorem flatMap_toList {α β : Type} (l : List α) (f : α → Option β) :
    l.flatMap (fun a => (f a).toList) = l.filterMap f := by
  induction l with
  | nil => rfl
  | cons a l ih =>
    simp only [List.flatMap_cons, List.filterMap_cons, ih]
    cases f a <;> rfl

theorem docPost_docnum {f32 : Rat → Rat} {fmt : Fmt} {fb : Rat} {w : String} {d : DocIn} {p : Post}
    (h : docPost f32 fmt fb w d = some p) : p.docnum = d.docnum ∧ p.term = w := by
  unfold docPost at h
  cases hf : (wordValues f32 fmt fb d.toks).find? (fun x => x.1 == w) with
  | none => rw [hf] at h; cases h
  | some x =>
    rw [hf] at h
    simp only [Option.map_some, Option.some.injEq] at h
    subst h
    exact ⟨rfl, by simpa using List.find?_some hf⟩

theorem filterMap_docPost_sorted (f32 : Rat → Rat) (fmt : Fmt) (fb : Rat) (w : String) (docs : List DocIn)
    (hs : docs.Pairwise (fun a b => a.docnum < b.docnum)) :
    (docs.filterMap (docPost f32 fmt fb w)).Pairwise (fun a b => a.docnum < b.docnum) := by
  induction docs with
  | nil => exact List.Pairwise.nil
  | cons d docs ih =>
    have ih' := ih (List.pairwise_cons.mp hs).2
    simp only [List.filterMap_cons]
    cases hd : docPost f32 fmt fb w d with
    | none => exact ih'
    | some p =>
      refine List.pairwise_cons.mpr ⟨?_, ih'⟩
      intro q hq
      simp only [List.mem_filterMap] at hq
      obtain ⟨d', hd', hq'⟩ := hq
      rw [(docPost_docnum hd).1, (docPost_docnum hq').1]
      exact (List.pairwise_cons.mp hs).1 d' hd'

/-- **The posting list of a term, as `add_postings` receives it**: for documents given in
    ascending document-number order it is, in that order, each containing document's
    `word_values` item for the term (weight times the document's boost). -/
theorem termPostings_eq (f32 : Rat → Rat) (fmt : Fmt) (fb : Rat) (docs : List DocIn) (w : String)
    (hs : docs.Pairwise (fun a b => a.docnum < b.docnum)) :
    termPostings f32 fmt fb docs w = docs.filterMap (docPost f32 fmt fb w) := by
  unfold termPostings
  have hsorted := List.pairwise_mergeSort (le := poolLe) poolLe_trans poolLe_total
    (docs.flatMap (docPosts f32 fmt fb))
  have hterm : (pool f32 fmt fb docs).Pairwise (fun a b => a.term ≤ b.term) :=
    hsorted.imp (fun h => poolLe_term h)
  rw [groupRuns_find _ hterm w]
  apply sorted_perm_eq (fun p : Post => p.docnum)
  · -- sorted by document number inside one term
    have := (hsorted.filter (fun p => p.term == w))
    refine (List.Pairwise.and_mem.mp this).imp ?_
    rintro a b ⟨ha, hb, hab⟩
    simp only [List.mem_filter, beq_iff_eq] at ha hb
    unfold poolLe at hab
    have : a.term = b.term := by rw [ha.2, hb.2]
    rw [if_pos this] at hab
    simpa using hab
  · exact filterMap_docPost_sorted f32 fmt fb w docs hs
  · have hp : (pool f32 fmt fb docs).Perm (docs.flatMap (docPosts f32 fmt fb)) := List.mergeSort_perm _ _
    refine (hp.filter _).trans ?_
    rw [List.filter_flatMap]
    have : (docs.flatMap fun a => (docPosts f32 fmt fb a).filter (fun p => p.term == w))
        = docs.flatMap (fun a => (docPost f32 fmt fb w a).toList) := by
      congr 1; funext a; exact docPosts_filter f32 fmt fb w a
    rw [this, flatMap_toList]

end WM.Codec

namespace WM.Codec

/-- Element-wise relation between two lists of the same length. -/
inductive Forall2 {α β : Type} (R : α → β → Prop) : List α → List β → Prop
  | nil : Forall2 R [] []
  | cons {a b as bs} : R a b → Forall2 R as bs → Forall2 R (a :: as) (b :: bs)

/-- A pool post carries what the spec says about (term, document): document number, weight
    (with the document boost) and a value that decodes to the occurrences. -/
def PostMatches (fmt : Fmt) (p : Post) (q : Int × PostingSpec) : Prop :=
  p.docnum = q.1 ∧ p.weight = q.2.weight ∧ valueAgrees fmt p.value q.2

theorem mem_wordValues_fst (f32 : Rat → Rat) (fmt : Fmt) (fb : Rat) (toks : List Token) (w : String) :
    (∃ x ∈ wordValues f32 fmt fb toks, x.1 = w) ↔ w ∈ distinctTexts toks := by
  have h1 : (wordValues f32 fmt fb toks).map (·.1) = distinctTexts toks := by
    cases fmt <;> simp [wordValues, groupTokens_eq, Function.comp_def]
  rw [← h1, List.mem_map]

theorem occ_ne_nil_of_mem (toks : List Token) (w : String) (h : w ∈ distinctTexts toks) :
    occ toks w ≠ [] := by
  obtain ⟨t, ht, hte⟩ := (mem_distinctTexts toks w).mp h
  intro e
  have : t ∈ occ toks w := by simp [occ, ht, hte]
  rw [e] at this; simp at this

theorem find?_eq_none_of_forall {α : Type} (l : List α) (p : α → Bool) (h : ∀ x ∈ l, p x = false) :
    l.find? p = none := by
  rw [List.find?_eq_none]; intro x hx; simp [h x hx]

end WM.Codec

namespace WM.Codec

theorem zip_map_map {α β γ : Type} (l : List α) (f : α → β) (g : α → γ) :
    (l.map f).zip (l.map g) = l.map fun a => (f a, g a) := by
  induction l with
  | nil => rfl
  | cons a l ih => simp [ih]

theorem toBytes_ne_nil_of_shape (tail : FValue → Bytes) (qs : List (Posting Int))
    (h : ∀ q ∈ qs, ∃ v : FValue, q.value = v.toBytes tail ∧ (v ≠ .empty ∧ ∀ n, v ≠ .freq n)) :
    ∀ q ∈ qs, q.value ≠ [] := by
  intro q hq
  obtain ⟨v, hv, hsh⟩ := h q hq
  rw [hv]
  cases v with
  | empty => exact absurd rfl hsh.1
  | freq n => exact absurd rfl (hsh.2 n)
  | positions n ds => simp [FValue.toBytes, packUint]
  | chars n cs => simp [FValue.toBytes, packUint]
  | posBoosts n sm cs => simp [FValue.toBytes, packUint]
  | charBoosts n sm cs => simp [FValue.toBytes, packUint]

end WM.Codec
