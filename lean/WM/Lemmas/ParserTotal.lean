import WM.Model.Parser
/-! Totality of the modelled filter pipeline: no index access of the mirrored code is out of
bounds, no loop gets stuck.  Helper lemmas for `WM.C16.total_*`. -/
namespace WM.Parser

theorem pyGet_ok_nat {α} {l : List α} {i : Nat} (h : i < l.length) : pyGet l (i : Int) = .ok l[i] := by
  rw [pyGet_nat]; exact List.getElem?_eq_getElem h

theorem pyGet_ok_pred {α} {l : List α} {i : Nat} (h0 : 0 < i) (h : i - 1 < l.length) :
    pyGet l ((i : Int) - 1) = .ok (l[i - 1]) := by
  rw [pred_cast h0]; exact pyGet_ok_nat h

theorem pyGet_ok_succ {α} {l : List α} {i : Nat} (h : i + 1 < l.length) :
    pyGet l ((i : Int) + 1) = .ok (l[i + 1]) := by
  rw [succ_cast]; exact pyGet_ok_nat h

theorem pyDel_ok_nat {α} {l : List α} {i : Nat} (h : i < l.length) : pyDel l (i : Int) = .ok (l.eraseIdx i) := by
  unfold pyDel pyIdx
  have h0 : (0:Int) ≤ (i:Int) := by omega
  simp [h0, h]

theorem pySet_ok_nat {α} {l : List α} {i : Nat} {v : α} (h : i < l.length) :
    pySet l (i : Int) v = .ok (l.set i v) := by
  unfold pySet pyIdx
  have h0 : (0:Int) ≤ (i:Int) := by omega
  simp [h0, h]

/-- `l[-1]` on a non-empty list -/
theorem pyGet_last {α} {l : List α} (h : l ≠ []) : ∃ a, pyGet l (-1) = .ok a := by
  have hl : 0 < l.length := List.length_pos_iff.2 h
  unfold pyGet pyIdx
  have h1 : ¬ (0:Int) ≤ -1 := by omega
  have h2 : (0:Int) ≤ -1 + (l.length : Int) := by omega
  simp only [h1, if_false, h2, if_true]
  have : (-1 + (l.length : Int)).toNat < l.length := by omega
  rw [List.getElem?_eq_getElem this]
  exact ⟨_, rfl⟩

theorem mapM_ok {α β} {f : α → Except Err β} {l : List α} (h : ∀ x ∈ l, ∃ y, f x = .ok y) :
    ∃ ys, l.mapM f = .ok ys := by
  induction l with
  | nil => exact ⟨[], rfl⟩
  | cons a t ih =>
    obtain ⟨y, hy⟩ := h a (by simp)
    obtain ⟨ys, hys⟩ := ih (fun x hx => h x (by simp [hx]))
    refine ⟨y :: ys, ?_⟩
    simp [List.mapM_cons, hy, hys, bind, Except.bind, pure, Except.pure]

/-! ### do_wildcards -/

theorem wildNext_ok (group : List Node) (i : Nat) (t : Str) (f : Option Str) (b : Rat) :
    ∃ r, wildNext group i t f b = .ok r := by
  unfold wildNext
  split
  · next h =>
    rw [pyGet_ok_succ h]
    split
    · next heq => cases heq
    · rw [succ_cast, pyDel_ok_nat h]; exact ⟨_, rfl⟩
    · exact ⟨_, rfl⟩
  · exact ⟨_, rfl⟩

theorem wildStep_ok {group : List Node} {i : Nat} (hi : i < group.length) :
    ∃ r, wildStep group i = .ok r := by
  unfold wildStep
  rw [pyGet_ok_nat hi]
  split
  · next heq => cases heq
  · next t f b heq =>
    obtain ⟨⟨g1, t1⟩, h1⟩ := wildNext_ok group i t f b
    have hlen : i ≤ g1.length := by
      -- the next-pop removes an element strictly behind i
      unfold wildNext at h1
      split at h1
      · next h =>
        rw [pyGet_ok_succ h] at h1
        split at h1
        · cases h1
        · rw [succ_cast, pyDel_ok_nat h] at h1
          simp only [Except.ok.injEq, Prod.mk.injEq] at h1
          rw [← h1.1, List.length_set, List.length_eraseIdx_of_lt h]; omega
        · simp only [Except.ok.injEq, Prod.mk.injEq] at h1
          rw [← h1.1]; omega
      · simp only [Except.ok.injEq, Prod.mk.injEq] at h1
        rw [← h1.1]; omega
    rw [h1]
    simp only
    split
    · next h0 =>
      have : i - 1 < g1.length := by omega
      rw [pyGet_ok_pred h0 this]
      split
      · next heq => cases heq
      · rw [pred_cast h0, pyDel_ok_nat this]; exact ⟨_, rfl⟩
      · exact ⟨_, rfl⟩
    · exact ⟨_, rfl⟩
  · exact ⟨_, rfl⟩

theorem wildLoop_ok (group : List Node) (i : Nat) : ∃ r, wildLoop group i = .ok r := by
  fun_induction wildLoop group i with
  | case1 group i hi e hs =>
    obtain ⟨r, hr⟩ := wildStep_ok hi
    rw [hr] at hs; cases hs
  | case2 group i hi g1 i1 hs ih => exact ih
  | case3 group i hi => exact ⟨_, rfl⟩

theorem doWildcards_nongroup {n : Node} (h : n.isGroup = false) : doWildcards n = .ok n := by
  cases n
  case group => simp [Node.isGroup] at h
  all_goals
    rw [doWildcards]
    all_goals first
      | rfl
      | (intro k ns b h; cases h)

theorem doWildcards_ok (n : Node) : ∃ r, doWildcards n = .ok r := by
  induction hsz : n.size using Nat.strongRecOn generalizing n with
  | _ sz ih =>
    cases n with
    | group k ns b =>
      rw [doWildcards]
      obtain ⟨ns1, h1⟩ : ∃ ys, ns.mapM doWildcards = .ok ys := by
        apply mapM_ok
        intro x hx
        have := size_mem hx
        exact ih x.size (by subst hsz; simp only [Node.size]; omega) x rfl
      obtain ⟨ns2, h2⟩ := wildLoop_ok ns1 0
      simp [h1, h2, bind, Except.bind, pure, Except.pure]
    | _ => exact ⟨_, doWildcards_nongroup rfl⟩

/-- recursion scheme shared by the tree-walking filters: non-groups are returned unchanged, a
    group needs its children (strictly smaller) -/
theorem tree_ok {F : Node → Except Err Node}
    (hleaf : ∀ n, n.isGroup = false → F n = .ok n)
    (hgroup : ∀ k ns b, (∀ x ∈ ns, ∃ y, F x = .ok y) → ∃ r, F (.group k ns b) = .ok r)
    (n : Node) : ∃ r, F n = .ok r := by
  induction hsz : n.size using Nat.strongRecOn generalizing n with
  | _ sz ih =>
    cases n with
    | group k ns b =>
      apply hgroup
      intro x hx
      have := size_mem hx
      exact ih x.size (by subst hsz; simp only [Node.size]; omega) x rfl
    | _ => exact ⟨_, hleaf _ rfl⟩

/-! ### do_fieldnames -/

theorem fnStep_ok {group : List Node} {i : Nat} (h0 : 0 < i) (hi : i ≤ group.length) :
    ∃ r, fnStep group i = .ok r := by
  unfold fnStep
  rw [pyGet_ok_pred h0 (by omega)]
  simp only
  split
  · next h =>
    have h1 : 0 < i - 1 := h.1
    have e : (i : Int) - 1 - 1 = ((i - 1 - 1 : Nat) : Int) := by omega
    rw [e, pyGet_ok_nat (by omega)]
    split
    · next heq => cases heq
    · exact ⟨_, rfl⟩
    · exact ⟨_, rfl⟩
  · exact ⟨_, rfl⟩

theorem fnStep_le {group : List Node} {i i' : Nat} {n : Node}
    (h : fnStep group i = .ok (i', n)) : i' ≤ i := by
  unfold fnStep at h
  split at h
  · cases h
  · split at h
    · split at h
      · cases h
      · simp only [Except.ok.injEq, Prod.mk.injEq] at h; omega
      · simp only [Except.ok.injEq, Prod.mk.injEq] at h; omega
    · simp only [Except.ok.injEq, Prod.mk.injEq] at h; omega

theorem fnLoop_ok (group : List Node) (i : Nat) (acc : List Node) (hi : i ≤ group.length) :
    ∃ r, fnLoop group i acc = .ok r := by
  fun_induction fnLoop group i acc with
  | case1 i acc h0 e hs =>
    obtain ⟨r, hr⟩ := fnStep_ok h0 hi
    rw [hr] at hs; cases hs
  | case2 i acc h0 i1 n hs ih =>
    have := fnStep_le hs
    exact ih (by omega)
  | case3 i acc h0 => exact ⟨_, rfl⟩

theorem doFieldnames_nongroup (c : Cfg) {n : Node} (h : n.isGroup = false) : doFieldnames c n = .ok n := by
  cases n
  case group => simp [Node.isGroup] at h
  all_goals
    rw [doFieldnames]
    all_goals first
      | rfl
      | (intro k ns b h; cases h)

theorem doFieldnames_ok (c : Cfg) (n : Node) : ∃ r, doFieldnames c n = .ok r := by
  apply tree_ok (F := doFieldnames c) (fun n h => doFieldnames_nongroup c h)
  intro k ns b hch
  rw [doFieldnames]
  obtain ⟨ns0, h0⟩ := mapM_ok hch
  simp only [h0, bind, Except.bind]
  obtain ⟨r, hr⟩ := fnLoop_ok (if c.removeUnknown = true ∧ c.schemaTruthy = true then fnStage1 c none ns0 else ns0)
    (if c.removeUnknown = true ∧ c.schemaTruthy = true then fnStage1 c none ns0 else ns0).length [] (Nat.le_refl _)
  rw [hr]
  exact ⟨_, rfl⟩

/-! ### do_gtlt (after the fix: `if i < lasti and newgroup`) -/

theorem mapM_mem {α β} {f : α → Except Err β} {l : List α} {ys : List β} (h : l.mapM f = .ok ys)
    {y : β} (hy : y ∈ ys) : ∃ x ∈ l, f x = .ok y := by
  induction l generalizing ys with
  | nil =>
    simp [pure, Except.pure] at h; subst h; cases hy
  | cons a t ih =>
    simp only [List.mapM_cons, bind, Except.bind] at h
    split at h
    · cases h
    · next b hb =>
      split at h
      · cases h
      · next bs hbs =>
        simp only [pure, Except.pure, Except.ok.injEq] at h
        subst h
        cases hy with
        | head => exact ⟨a, by simp, hb⟩
        | tail _ hy =>
          obtain ⟨x, hx, hfx⟩ := ih hbs hy
          exact ⟨x, by simp [hx], hfx⟩

theorem doGtLt_nongroup {n : Node} (h : n.isGroup = false) : doGtLt n = .ok n := by
  cases n
  case group => simp [Node.isGroup] at h
  all_goals
    rw [doGtLt]
    all_goals first
      | rfl
      | (intro k ns b h; cases h)

theorem doGtLt_group {k ns b r} (h : doGtLt (.group k ns b) = .ok r) : r.isGroup = true := by
  rw [doGtLt] at h
  simp only [bind, Except.bind] at h
  split at h
  · cases h
  · split at h
    · cases h
    · simp only [pure, Except.pure, Except.ok.injEq] at h; subst h; rfl

theorem gtltStep_ok {group acc : List Node} {i : Nat} (hi : i < group.length) :
    ∃ r, gtltStep group i acc = .ok r := by
  unfold gtltStep
  rw [pyGet_ok_nat hi]
  split
  · next heq => cases heq
  · next rel heq =>
    split
    · next h =>
      have hne : acc ≠ [] := by
        intro he; subst he; simp at h
      obtain ⟨pv, hpv⟩ := pyGet_last hne
      rw [hpv, pyGet_ok_succ h.1]
      simp only
      split
      · exact ⟨_, rfl⟩
      · exact ⟨_, rfl⟩
    · exact ⟨_, rfl⟩
  · exact ⟨_, rfl⟩

theorem gtltLoop_ok (group : List Node) (i : Nat) (acc : List Node) : ∃ r, gtltLoop group i acc = .ok r := by
  fun_induction gtltLoop group i acc with
  | case1 i acc hi e hs =>
    obtain ⟨r, hr⟩ := gtltStep_ok (acc := acc) hi
    rw [hr] at hs; cases hs
  | case2 i acc hi i1 acc1 hs ih => exact ih
  | case3 i acc hi => exact ⟨_, rfl⟩

theorem doGtLt_ok (n : Node) : ∃ r, doGtLt n = .ok r := by
  apply tree_ok (F := doGtLt) (fun n h => doGtLt_nongroup h)
  intro k ns b hch
  rw [doGtLt]
  obtain ⟨ns0, h0⟩ := mapM_ok hch
  obtain ⟨r, hr⟩ := gtltLoop_ok ns0 0 []
  simp [h0, hr, bind, Except.bind, pure, Except.pure]

/-! ### do_fuzzyterms -/

theorem fuzzyStep_ok {group : List Node} {i : Nat} (hi : i < group.length) :
    ∃ r, fuzzyStep group i = .ok r := by
  unfold fuzzyStep
  rw [pyGet_ok_nat hi]
  simp only
  split
  · split
    · next h =>
      rw [pyGet_ok_succ h]
      split
      · next heq => cases heq
      · exact ⟨_, rfl⟩
      · exact ⟨_, rfl⟩
    · exact ⟨_, rfl⟩
  · exact ⟨_, rfl⟩
  · exact ⟨_, rfl⟩

theorem fuzzyLoop_ok (group : List Node) (i : Nat) (acc : List Node) : ∃ r, fuzzyLoop group i acc = .ok r := by
  fun_induction fuzzyLoop group i acc with
  | case1 i acc hi e hs =>
    obtain ⟨r, hr⟩ := fuzzyStep_ok hi
    rw [hr] at hs; cases hs
  | case2 i acc hi i1 n hs ih => exact ih
  | case3 i acc hi => exact ⟨_, rfl⟩

theorem doFuzzy_nongroup {n : Node} (h : n.isGroup = false) : doFuzzy n = .ok n := by
  cases n
  case group => simp [Node.isGroup] at h
  all_goals
    rw [doFuzzy]
    all_goals first
      | rfl
      | (intro k ns b h; cases h)

theorem doFuzzy_ok (n : Node) : ∃ r, doFuzzy n = .ok r := by
  apply tree_ok (F := doFuzzy) (fun n h => doFuzzy_nongroup h)
  intro k ns b hch
  rw [doFuzzy]
  obtain ⟨ns0, h0⟩ := mapM_ok hch
  obtain ⟨r, hr⟩ := fuzzyLoop_ok ns0 0 []
  simp [h0, hr, bind, Except.bind, pure, Except.pure]

/-! ### do_operators -/

theorem prefixReplace_total {g : GK} {group : List Node} {pos : Nat} (hp : pos < group.length) :
    ∃ r, prefixReplace g group pos = .ok r := by
  unfold prefixReplace
  rw [pyDel_ok_nat hp]
  simp only
  split
  · next h =>
    have hl : pos < (group.eraseIdx pos).length := by
      rw [List.length_eraseIdx_of_lt hp]; omega
    simp only [pyGet_ok_nat hl, pySet_ok_nat hl]
    exact ⟨_, rfl⟩
  · exact ⟨_, rfl⟩

theorem postfixReplace_total {g : GK} {group : List Node} {pos : Nat} (hp : pos < group.length) :
    ∃ r, postfixReplace g group pos = .ok r := by
  unfold postfixReplace
  rw [pyDel_ok_nat hp]
  simp only
  split
  · next h =>
    have hl : pos - 1 < (group.eraseIdx pos).length := by
      rw [List.length_eraseIdx_of_lt hp]; omega
    simp only [pred_cast h, pyGet_ok_nat hl, pySet_ok_nat hl]
    exact ⟨_, rfl⟩
  · exact ⟨_, rfl⟩

theorem infixReplace_total {g : GK} {la : Bool} {group : List Node} {pos : Nat} (hp : pos < group.length) :
    ∃ r, infixReplace g la group pos = .ok r := by
  unfold infixReplace
  split
  · next h =>
    rw [pyGet_ok_pred h.1 (by omega), pyGet_ok_succ h.2]
    simp only
    split
    · exact ⟨_, rfl⟩
    · split
      · exact ⟨_, rfl⟩
      · exact ⟨_, rfl⟩
  · rw [pyDel_ok_nat hp]; exact ⟨_, rfl⟩

theorem replaceSelf_total {t : OpT} {g : GK} {la : Bool} {group : List Node} {pos : Nat}
    (hp : pos < group.length) : ∃ r, replaceSelf t g la group pos = .ok r := by
  cases t
  · exact prefixReplace_total hp
  · exact postfixReplace_total hp
  · exact infixReplace_total hp

theorem opStepL_total {o : OpCfg} {group : List Node} {i : Nat} (hi : i < group.length) :
    ∃ r, opStepL o group i = .ok r := by
  unfold opStepL
  rw [pyGet_ok_nat hi]
  split
  · next heq => cases heq
  · split
    · exact replaceSelf_total hi
    · exact ⟨_, rfl⟩
  · exact ⟨_, rfl⟩

theorem opLoopL_total (o : OpCfg) (group : List Node) (i : Nat) : ∃ r, opLoopL o group i = .ok r := by
  fun_induction opLoopL o group i with
  | case1 group i hi e hs =>
    obtain ⟨r, hr⟩ := opStepL_total (o := o) hi
    rw [hr] at hs; cases hs
  | case2 group i hi g1 i1 hs ih => exact ih
  | case3 group i hi => exact ⟨_, rfl⟩

theorem opStepR_total {o : OpCfg} {group : List Node} {i : Nat} (hi : i < group.length) :
    ∃ r, opStepR o group i = .ok r := by
  unfold opStepR
  rw [pyGet_ok_nat hi]
  split
  · next heq => cases heq
  · split
    · exact replaceSelf_total hi
    · exact ⟨_, rfl⟩
  · exact ⟨_, rfl⟩

theorem opStepR_le {o : OpCfg} {group g' : List Node} {i i' : Nat} (hi : i < group.length)
    (h : opStepR o group i = .ok (g', i')) : i' ≤ g'.length := by
  unfold opStepR at h
  rw [pyGet_ok_nat hi] at h
  split at h
  · cases h
  · split at h
    · exact (replaceSelf_ok hi h).hle
    · simp only [Except.ok.injEq, Prod.mk.injEq] at h
      obtain ⟨rfl, rfl⟩ := h; omega
  · simp only [Except.ok.injEq, Prod.mk.injEq] at h
    obtain ⟨rfl, rfl⟩ := h; omega

/-- `i1 = i + 1 ≤ len(group)`: the right-to-left loop never reads past the end -/
theorem opLoopR_total (o : OpCfg) (group : List Node) (i1 : Nat) (h : i1 ≤ group.length) :
    ∃ r, opLoopR o group i1 = .ok r := by
  fun_induction opLoopR o group i1 with
  | case1 group i1 h0 e hs =>
    obtain ⟨r, hr⟩ := opStepR_total (o := o) (group := group) (i := i1 - 1) (by omega)
    rw [hr] at hs; cases hs
  | case2 group i1 h0 g1 i' hs ih =>
    exact ih (opStepR_le (by omega) hs)
  | case3 group i1 h0 => exact ⟨_, rfl⟩

theorem opPasses_total (ops : List OpCfg) (group : List Node) : ∃ r, opPasses ops group = .ok r := by
  induction ops generalizing group with
  | nil => exact ⟨_, rfl⟩
  | cons o rest ih =>
    unfold opPasses
    have : ∃ g', opPass group o = .ok g' := by
      unfold opPass
      split
      · exact opLoopL_total o group 0
      · exact opLoopR_total o group group.length (Nat.le_refl _)
    obtain ⟨g', hg⟩ := this
    rw [hg]
    exact ih g'

theorem attach_mapM_ok {f : Node → Except Err Node} {l : List Node}
    (h : ∀ x ∈ l, ∃ y, f x = .ok y) : ∃ ys, l.attach.mapM (fun ⟨n, _⟩ => f n) = .ok ys := by
  apply mapM_ok
  intro x _
  exact h x.1 x.2

theorem doOperators_nongroup (ops : List OpCfg) {n : Node} (h : n.isGroup = false) :
    doOperators ops n = .ok n := by
  cases n
  case group => simp [Node.isGroup] at h
  all_goals
    rw [doOperators]
    all_goals first
      | rfl
      | (intro k ns b h; cases h)

theorem doOperators_ok (ops : List OpCfg) (n : Node) : ∃ r, doOperators ops n = .ok r := by
  induction hsz : n.size using Nat.strongRecOn generalizing n with
  | _ sz ih =>
    cases n with
    | group k ns b =>
      obtain ⟨ns1, h1⟩ := opPasses_total ops ns
      have hs := opPasses_size h1
      rw [doOperators]
      split
      · next e he => rw [h1] at he; cases he
      · next ns1' he =>
        rw [h1] at he; injection he with he; subst he
        obtain ⟨ns2, h2⟩ : ∃ ys, ns1.attach.mapM (fun ⟨n, _⟩ => doOperators ops n) = .ok ys := by
          apply attach_mapM_ok
          intro x hx
          have := size_mem hx
          exact ih x.size (by subst hsz; simp only [Node.size]; omega) x rfl
        simp [h2, bind, Except.bind, pure, Except.pure]
    | _ => exact ⟨_, doOperators_nongroup ops rfl⟩

/-! ### the whole pipeline -/

theorem applyFilter_ok (c : Cfg) (f : FilterId) (n : Node) : ∃ r, applyFilter c f n = .ok r := by
  cases f <;> simp only [applyFilter]
  case groups => cases n <;> exact ⟨_, rfl⟩
  case cleanBoost => exact ⟨_, rfl⟩
  case fuzzy => exact doFuzzy_ok n
  case wildcards => exact doWildcards_ok n
  case aliases => exact ⟨_, rfl⟩
  case gtlt => exact doGtLt_ok n
  case fieldnames => exact doFieldnames_ok c n
  case copyfield => exact ⟨_, rfl⟩
  case multifield => exact ⟨_, rfl⟩
  case rmws => exact ⟨_, rfl⟩
  case boost => exact ⟨_, rfl⟩
  case plusminus => exact ⟨_, rfl⟩
  case operators => exact doOperators_ok c.ops n

theorem applyFilters_ok (c : Cfg) (fs : List FilterId) (n : Node) : ∃ r, applyFilters c fs n = .ok r := by
  induction fs generalizing n with
  | nil => exact ⟨_, rfl⟩
  | cons f fs ih =>
    obtain ⟨n', h⟩ := applyFilter_ok c f n
    simp only [applyFilters, h]
    exact ih n'

end WM.Parser
