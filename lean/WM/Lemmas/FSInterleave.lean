import WM.Model.FSReader
import WM.Lemmas.FSReader
/-! Linearizability of `FileIndex.reader()` under interleaved writer events (C03). -/
namespace WM.FS

theorem mrun_fs (eager : Name → Bool) (ix : Name) (s : FS × ROpen) (ms : List MStep) :
    (mrun eager ix s ms).1 = run s.1 (wevents ms) := by
  induction ms generalizing s with
  | nil => rfl
  | cons m ms ih =>
    cases m with
    | w e => simp only [mrun, List.foldl_cons, wevents] at *; rw [ih]; rfl
    | r => simp only [mrun, List.foldl_cons, wevents] at *; rw [ih]; rfl

theorem freshNames_append (fs : FS) (a b : List Event) :
    freshNames fs (a ++ b) = (freshNames fs a && freshNames (run fs a) b) := by
  induction a generalizing fs with
  | nil => simp [freshNames, run]
  | cons e es ih =>
    simp only [List.cons_append, freshNames, run_cons, ih, Bool.and_assoc]

/-- The reader's invariant: while it is opening files for TOC `t`, there is an earlier directory
    `fsj` (the one it read the TOC from) at which `t` was the readable newest TOC, the current
    directory is reached from it by fresh-name events, and what it has pinned so far is what an
    atomic open at `fsj` would have pinned. -/
def RInv (P : FS → Prop) (eager : Name → Bool) (ix : Name) (fs : FS) : ROpen → Prop
  | .start _ => True
  | .failed _ => True
  | .opening _ t todo got =>
    ∃ fsj tr, P fsj ∧ WF fsj ∧ readToc ix fsj = .ok t ∧ readable fsj t = true ∧ fs = run fsj tr ∧
      freshNames fsj tr = true ∧
      got ++ (todo.filterMap fun f => (fsj.dir f).map fun i => (f, i)) = pinned eager fsj t ∧
      (∀ f ∈ todo, f ∈ needed eager t)
  | .done t got =>
    ∃ fsj tr, P fsj ∧ WF fsj ∧ readToc ix fsj = .ok t ∧ readable fsj t = true ∧ fs = run fsj tr ∧
      freshNames fsj tr = true ∧ got = pinned eager fsj t

theorem needed_bound {eager : Name → Bool} {fs : FS} {t : Toc} (hr : readable fs t = true)
    {f : Name} (hf : f ∈ needed eager t) : (fs.dir f).isSome := by
  unfold needed at hf
  obtain ⟨s, hs, hfs⟩ := List.mem_flatMap.1 hf
  exact bound_of_isComplete ((readable_iff fs t).1 hr f (mem_toc_files hs (List.mem_filter.1 hfs).1))

theorem rinv_rstep (P : FS → Prop) (eager : Name → Bool) (ix : Name) (fs : FS) (hP : P fs) (hwf : WF fs)
    (hlr : LatestReadable ix fs)
    (ro : ROpen) (h : RInv P eager ix fs ro) : RInv P eager ix fs (rstep eager ix fs ro) := by
  cases ro with
  | start n =>
    simp only [rstep]
    cases hr : readToc ix fs with
    | ok t =>
      simp only
      exact ⟨fs, [], hP, hwf, hr, hlr t hr, rfl, rfl, by simp [pinned], fun f hf => hf⟩
    | error e =>
      cases e with
      | ioError => simp only; split <;> trivial
      | emptyIndex => trivial
      | badToc => trivial
  | failed e => exact h
  | done t got => exact h
  | opening n t todo got =>
    obtain ⟨fsj, tr, hPj, hwfj, htoc, hrd, hfs, hfr, hgot, hsub⟩ := h
    cases todo with
    | nil =>
      simp only [rstep]
      exact ⟨fsj, tr, hPj, hwfj, htoc, hrd, hfs, hfr, by simpa using hgot⟩
    | cons f rest =>
      simp only [rstep]
      cases hd : fs.dir f with
      | none => simp only; split <;> trivial
      | some i =>
        simp only
        refine ⟨fsj, tr, hPj, hwfj, htoc, hrd, hfs, hfr, ?_, fun g hg => hsub g (by simp [hg])⟩
        have hb := needed_bound (eager := eager) hrd (hsub f (by simp))
        have hmem : f ∈ fsj.names := hwfj.support f hb
        rw [hfs] at hd
        have hj := dir_stable hwfj tr hfr f hmem i hd
        rw [← hgot]
        simp [hj]

theorem rinv_wstep (P : FS → Prop) (eager : Name → Bool) (ix : Name) (fs : FS) (e : Event)
    (hfe : freshNames fs [e] = true) (ro : ROpen) (h : RInv P eager ix fs ro) :
    RInv P eager ix (step fs e) ro := by
  cases ro with
  | start n => trivial
  | failed e => trivial
  | done t got =>
    obtain ⟨fsj, tr, hPj, hwfj, htoc, hrd, hfs, hfr, hgot⟩ := h
    refine ⟨fsj, tr ++ [e], hPj, hwfj, htoc, hrd, ?_, ?_, hgot⟩
    · rw [run_append, ← hfs]; rfl
    · rw [freshNames_append, hfr, ← hfs, hfe]; rfl
  | opening n t todo got =>
    obtain ⟨fsj, tr, hPj, hwfj, htoc, hrd, hfs, hfr, hgot, hsub⟩ := h
    refine ⟨fsj, tr ++ [e], hPj, hwfj, htoc, hrd, ?_, ?_, hgot, hsub⟩
    · rw [run_append, ← hfs]; rfl
    · rw [freshNames_append, hfr, ← hfs, hfe]; rfl

theorem rinv_mono {P Q : FS → Prop} (hPQ : ∀ x, P x → Q x) (eager : Name → Bool) (ix : Name) (fs : FS)
    (ro : ROpen) (h : RInv P eager ix fs ro) : RInv Q eager ix fs ro := by
  cases ro with
  | start n => trivial
  | failed e => trivial
  | done t got =>
    obtain ⟨fsj, tr, hPj, rest⟩ := h
    exact ⟨fsj, tr, hPQ _ hPj, rest⟩
  | opening n t todo got =>
    obtain ⟨fsj, tr, hPj, rest⟩ := h
    exact ⟨fsj, tr, hPQ _ hPj, rest⟩

theorem wevents_append (a b : List MStep) : wevents (a ++ b) = wevents a ++ wevents b := by
  induction a with
  | nil => rfl
  | cons m ms ih => cases m <;> simp [wevents, ih]

theorem list_snoc_induction {α : Type} {motive : List α → Prop} (h0 : motive [])
    (hs : ∀ l a, motive l → motive (l ++ [a])) : ∀ l, motive l := by
  intro l
  rw [← List.reverse_reverse l]
  induction l.reverse with
  | nil => exact h0
  | cons a t ih => rw [List.reverse_cons]; exact hs _ _ ih

theorem mrun_inv (eager : Name → Bool) (ix : Name) (fs0 : FS) (n : Nat) (ms : List MStep)
    (hwf : WF fs0) (hfr : freshNames fs0 (wevents ms) = true)
    (hlr : ∀ k, k ≤ ms.length → LatestReadable ix (fsAt fs0 ms k)) :
    RInv (fun x => ∃ k, k ≤ ms.length ∧ x = fsAt fs0 ms k) eager ix
      (mrun eager ix (fs0, .start n) ms).1 (mrun eager ix (fs0, .start n) ms).2 := by
  revert hfr hlr
  refine list_snoc_induction (motive := fun ms =>
    freshNames fs0 (wevents ms) = true →
    (∀ k, k ≤ ms.length → LatestReadable ix (fsAt fs0 ms k)) →
    RInv (fun x => ∃ k, k ≤ ms.length ∧ x = fsAt fs0 ms k) eager ix
      (mrun eager ix (fs0, .start n) ms).1 (mrun eager ix (fs0, .start n) ms).2) ?_ ?_ ms
  · intro _ _; trivial
  · intro l a ih hfr hlr
    rw [wevents_append, freshNames_append, Bool.and_eq_true] at hfr
    have hlr' : ∀ k, k ≤ l.length → LatestReadable ix (fsAt fs0 l k) := by
      intro k hk
      have := hlr k (by simp; omega)
      unfold fsAt at this ⊢
      rwa [List.take_append_of_le_length hk] at this
    have ih' := ih hfr.1 hlr'
    have hmono : ∀ x, (∃ k, k ≤ l.length ∧ x = fsAt fs0 l k) →
        ∃ k, k ≤ (l ++ [a]).length ∧ x = fsAt fs0 (l ++ [a]) k := by
      rintro x ⟨k, hk, rfl⟩
      refine ⟨k, by simp; omega, ?_⟩
      unfold fsAt
      rw [List.take_append_of_le_length hk]
    have ih'' := rinv_mono hmono eager ix _ _ ih'
    have hfs : (mrun eager ix (fs0, .start n) l).1 = run fs0 (wevents l) := mrun_fs eager ix _ l
    have hstep : mrun eager ix (fs0, .start n) (l ++ [a])
        = mstep eager ix (mrun eager ix (fs0, .start n) l) a := by
      simp [mrun, List.foldl_append]
    rw [hstep]
    cases a with
    | w e =>
      simp only [mstep]
      apply rinv_wstep
      · rw [hfs]; simpa [wevents] using hfr.2
      · exact ih''
    | r =>
      simp only [mstep]
      apply rinv_rstep
      · refine ⟨l.length, by simp, ?_⟩
        unfold fsAt
        rw [hfs]; simp
      · rw [hfs]; exact run_wf_fresh hwf _ hfr.1
      · have := hlr l.length (by simp)
        unfold fsAt at this
        rw [hfs]
        simpa using this
      · exact ih''

/-- what the finished open has pinned is what the fresh reader of the TOC-read moment holds -/
theorem pinned_eq (eager : Name → Bool) (fs : FS) (t : Toc) :
    pinned eager fs t = t.segs.flatMap fun s => (freshSeg eager fs t.schema t.gen s).handles := by
  unfold pinned needed
  induction t.segs with
  | nil => rfl
  | cons s rest ih => simp only [List.flatMap_cons, List.filterMap_append, ih, freshSeg]

theorem wevents_take_prefix (ms : List MStep) (k : Nat) :
    ∃ j, wevents (ms.take k) = (wevents ms).take j := by
  have h : ms = ms.take k ++ ms.drop k := (List.take_append_drop k ms).symm
  refine ⟨(wevents (ms.take k)).length, ?_⟩
  conv => rhs; rw [h, wevents_append]
  simp

/-- **Linearizability of `ix.reader()`.**  Writers issue fresh-name storage events, the reader's
    steps (read the TOC, open one file, retry on a missing file) are interleaved with them in
    any way, and at every moment the newest TOC is readable.  If the reader's open completes, it
    holds exactly the handles an atomic open would have taken at the moment it read the TOC. -/
theorem open_linearizable (eager : Name → Bool) (ix : Name) (fs0 : FS) (n : Nat) (ms : List MStep)
    (hwf : WF fs0) (hfr : freshNames fs0 (wevents ms) = true)
    (hlr : ∀ k, k ≤ ms.length → LatestReadable ix (fsAt fs0 ms k))
    (t : Toc) (got : List (Name × Nat))
    (hdone : (mrun eager ix (fs0, .start n) ms).2 = .done t got) :
    ∃ k, k ≤ ms.length ∧ readToc ix (fsAt fs0 ms k) = .ok t ∧
      readable (fsAt fs0 ms k) t = true ∧ got = pinned eager (fsAt fs0 ms k) t := by
  have h := mrun_inv eager ix fs0 n ms hwf hfr hlr
  rw [hdone] at h
  obtain ⟨fsj, tr, ⟨k, hk, rfl⟩, _, htoc, hrd, _, _, hgot⟩ := h
  exact ⟨k, hk, htoc, hrd, hgot⟩

end WM.FS
