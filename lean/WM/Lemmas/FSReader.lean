import WM.Model.FSReader
import WM.Lemmas.FSRun
/-! Lemmas about readers over the abstract file system (C03). -/
namespace WM.FS

/-! ### writer events never change an inode that is not being written -/

/-- every `create` of the trace targets a name that is unbound at that moment (no in-place
    truncation of an existing file) -/
def freshCreates (fs : FS) : List Event → Bool
  | [] => true
  | e :: es =>
    (match e with
      | .create n => (fs.dir n).isNone
      | _ => true) && freshCreates (step fs e) es

theorem step_data_stable (fs : FS) (e : Event) (i : Nat) (hi : i < fs.next)
    (hs : (fs.data i).st ≠ .writing) (hc : ∀ n, e = .create n → fs.dir n = none) :
    (step fs e).data i = fs.data i ∧ fs.next ≤ (step fs e).next := by
  cases e with
  | create n =>
    have := hc n rfl
    simp only [step, this]
    exact ⟨by simp [Nat.ne_of_lt hi], Nat.le_succ _⟩
  | write n k => exact ⟨modData_data fs n _ i hs, by rw [step, modData_next]; exact Nat.le_refl _⟩
  | setToc n t => exact ⟨modData_data fs n _ i hs, by rw [step, modData_next]; exact Nat.le_refl _⟩
  | close n => exact ⟨modData_data fs n _ i hs, by rw [step, modData_next]; exact Nat.le_refl _⟩
  | rename a b =>
    simp only [step]
    cases fs.dir a <;> exact ⟨rfl, Nat.le_refl _⟩
  | delete n => exact ⟨rfl, Nat.le_refl _⟩
  | other => exact ⟨rfl, Nat.le_refl _⟩

theorem run_data_stable (fs : FS) (tr : List Event) (i : Nat) (hi : i < fs.next)
    (hs : (fs.data i).st ≠ .writing) (hc : freshCreates fs tr = true) :
    (run fs tr).data i = fs.data i := by
  induction tr generalizing fs with
  | nil => rfl
  | cons e es ih =>
    simp only [freshCreates, Bool.and_eq_true] at hc
    have hce : ∀ n, e = .create n → fs.dir n = none := by
      intro n hn; subst hn
      simpa [Option.isNone_iff_eq_none] using hc.1
    obtain ⟨h1, h2⟩ := step_data_stable fs e i hi hs hce
    rw [run_cons, ih (step fs e) (by omega) (by rw [h1]; exact hs) hc.2, h1]

/-- the handles of a reader point to allocated inodes that nobody is writing -/
def ReaderOK (fs : FS) (r : Reader) : Prop :=
  ∀ sr ∈ r.leaves, ∀ p ∈ sr.handles, p.2 < fs.next ∧ (fs.data p.2).st ≠ .writing

theorem lookupHandle_mem (hs : List (Name × Nat)) (n : Name) (i : Nat)
    (h : lookupHandle hs n = some i) : (n, i) ∈ hs := by
  induction hs with
  | nil => simp [lookupHandle] at h
  | cons p hs ih =>
    obtain ⟨k, j⟩ := p
    simp only [lookupHandle] at h
    split at h
    · next hk => cases h; simp [hk]
    · simp [ih h]

/-- With eager handles a probe only depends on the data of the pinned inodes. -/
theorem probe_congr (fs fs' : FS) (r : Reader) (he : EagerHandles r = true)
    (hd : ∀ sr ∈ r.leaves, ∀ p ∈ sr.handles, fs'.data p.2 = fs.data p.2) :
    probe fs' r = probe fs r := by
  unfold probe
  congr 1
  apply List.map_congr_left
  intro sr hsr
  unfold probeSeg
  congr 2
  apply List.map_congr_left
  intro f hf
  simp only [EagerHandles, List.all_eq_true] at he
  have hsome := he sr hsr f hf
  unfold probeFile
  cases hl : lookupHandle sr.handles f with
  | none => rw [hl] at hsome; cases hsome
  | some i =>
    simp only
    rw [hd sr hsr (f, i) (lookupHandle_mem _ _ _ hl)]

/-! ### a freshly opened reader -/

theorem openFiles_bound (fs : FS) (files : List Name) (h : ∀ f ∈ files, (fs.dir f).isSome) :
    openFiles fs files = .ok (files.filterMap fun f => (fs.dir f).map fun i => (f, i)) := by
  induction files with
  | nil => rfl
  | cons f rest ih =>
    have hf := h f (by simp)
    cases hd : fs.dir f with
    | none => rw [hd] at hf; cases hf
    | some i =>
      simp only [openFiles, hd, ih (fun g hg => h g (by simp [hg])), List.filterMap_cons, Option.map_some]

theorem openSeg_bound (eager : Name → Bool) (fs : FS) (schema gen : Nat) (seg : SegRef)
    (h : ∀ f ∈ seg.files, (fs.dir f).isSome) :
    openSeg eager fs schema seg gen = .ok (freshSeg eager fs schema gen seg) := by
  unfold openSeg
  rw [openFiles_bound fs _ (fun f hf => h f (List.mem_filter.1 hf).1)]
  rfl

theorem segreaders_fresh (eager : Name → Bool) (fs : FS) (schema gen : Nat) (segs : List SegRef)
    (h : ∀ s ∈ segs, ∀ f ∈ s.files, (fs.dir f).isSome) :
    segreaders eager fs schema gen [] segs = .ok (segs.map (freshSeg eager fs schema gen), []) := by
  induction segs with
  | nil => rfl
  | cons s rest ih =>
    simp only [segreaders, segreader, lookupSid, openSeg_bound eager fs schema gen s (h s (by simp)),
      ih (fun x hx => h x (by simp [hx])), List.map_cons]

theorem mem_toc_files {t : Toc} {s : SegRef} {f : Name} (hs : s ∈ t.segs) (hf : f ∈ s.files) :
    f ∈ t.files := by
  unfold Toc.files
  exact List.mem_flatMap.2 ⟨s, hs, hf⟩

/-- Opening a reader on a directory whose newest TOC is `t`, with every referenced file present:
    the result is exactly the fresh reader of `t`. -/
theorem openReader_fresh (eager : Name → Bool) (ix : Name) (fs : FS) (t : Toc)
    (ht : readToc ix fs = .ok t) (hr : readable fs t = true) :
    openReader eager ix fs = .ok (freshReader eager fs t) := by
  have hb : ∀ s ∈ t.segs, ∀ f ∈ s.files, (fs.dir f).isSome := by
    intro s hs f hf
    exact bound_of_isComplete ((readable_iff fs t).1 hr f (mem_toc_files hs hf))
  unfold openReader indexReader mkReader
  rw [ht]
  simp only
  cases hsegs : t.segs with
  | nil => simp [freshReader, assemble, hsegs]
  | cons s rest =>
    rw [hsegs] at hb
    simp only
    rw [segreaders_fresh eager fs t.schema t.gen (s :: rest) hb]
    simp only
    unfold freshReader
    rw [hsegs]
    cases rest with
    | nil => rfl
    | cons s2 rest2 => rfl

end WM.FS

namespace WM.FS

/-! ### recycling an older reader -/

/-- The recycled reader is versioned and agrees with the directory on every segment the current
    TOC still lists (same files, handles on the inodes the names are bound to now, deletion
    lists in canonical form). -/
structure Coherent (eager : Name → Bool) (fs : FS) (t : Toc) (r : Reader) : Prop where
  versioned : ∀ sr ∈ r.leaves, sr.gen.isSome = true
  files : ∀ sr ∈ r.leaves, ∀ seg ∈ t.segs, seg.sid = sr.seg.sid → sr.seg.files = seg.files
  handles : ∀ sr ∈ r.leaves, ∀ seg ∈ t.segs, seg.sid = sr.seg.sid →
    sr.handles = (freshSeg eager fs 0 0 seg).handles
  canon : ∀ sr ∈ r.leaves, ∀ seg ∈ t.segs, seg.sid = sr.seg.sid →
    sameSet sr.seg.deleted seg.deleted = true → sr.seg.deleted = seg.deleted

theorem carryOver_versioned (segs : List SegRef) (ls : List SegReader)
    (h : ∀ sr ∈ ls, sr.gen.isSome = true) : carryOver segs ls = segs := by
  induction ls generalizing segs with
  | nil => rfl
  | cons r rs ih =>
    have hr := h r (by simp)
    have : r.gen.isNone = false := by cases hg : r.gen <;> simp_all
    simp only [carryOver, this, Bool.false_and, Bool.false_eq_true, if_false]
    exact ih segs (fun x hx => h x (by simp [hx]))

theorem lookupSid_mem (d : List (Name × SegReader)) (sid : Name) (sr : SegReader)
    (h : lookupSid d sid = some sr) : (sid, sr) ∈ d := by
  induction d with
  | nil => simp [lookupSid] at h
  | cons p d ih =>
    obtain ⟨k, x⟩ := p
    simp only [lookupSid] at h
    split at h
    · next hk => cases h; simp [hk]
    · simp [ih h]

theorem mkReusable_ok (ls : List SegReader) :
    ∀ p ∈ mkReusable ls, p.2 ∈ ls ∧ p.1 = p.2.seg.sid := by
  induction ls with
  | nil => simp [mkReusable]
  | cons r rs ih =>
    intro p hp
    simp only [mkReusable] at hp
    split at hp
    · obtain ⟨h1, h2⟩ := ih p hp
      exact ⟨by simp [h1], h2⟩
    · simp only [List.mem_cons] at hp
      rcases hp with hp | hp
      · subst hp; exact ⟨by simp, rfl⟩
      · obtain ⟨h1, h2⟩ := ih p hp
        exact ⟨by simp [h1], h2⟩

theorem segreaders_reuse (eager : Name → Bool) (fs : FS) (t : Toc) (r : Reader)
    (hco : Coherent eager fs t r) (segs : List SegRef) (hsub : ∀ s ∈ segs, s ∈ t.segs)
    (hb : ∀ s ∈ segs, ∀ f ∈ s.files, (fs.dir f).isSome)
    (d : List (Name × SegReader)) (hd : ∀ p ∈ d, p.2 ∈ r.leaves ∧ p.1 = p.2.seg.sid) :
    ∃ d', segreaders eager fs t.schema t.gen d segs
      = .ok (segs.map (freshSeg eager fs t.schema t.gen), d') := by
  induction segs generalizing d with
  | nil => exact ⟨d, rfl⟩
  | cons s rest ih =>
    have hs := hsub s (by simp)
    have hopen := openSeg_bound eager fs t.schema t.gen s (hb s (by simp))
    -- the reader for `s` and the dictionary left afterwards
    have hone : ∃ d1, segreader eager fs t.schema t.gen d s
        = .ok (freshSeg eager fs t.schema t.gen s, d1) ∧
        ∀ p ∈ d1, p.2 ∈ r.leaves ∧ p.1 = p.2.seg.sid := by
      unfold segreader
      cases hl : lookupSid d s.sid with
      | none => exact ⟨d, by simp [hopen], hd⟩
      | some sr =>
        obtain ⟨hmem, hsid⟩ := hd _ (lookupSid_mem d s.sid sr hl)
        simp only at hmem hsid
        have hv := hco.versioned sr hmem
        have hnone : sr.gen.isNone = false := by cases hg : sr.gen <;> simp_all
        simp only [hnone, Bool.false_eq_true, if_false]
        by_cases hsame : sameSet sr.seg.deleted s.deleted = true
        · rw [if_pos hsame]
          refine ⟨eraseSid d s.sid, ?_, ?_⟩
          · have e1 := hco.files sr hmem s hs hsid
            have e2 := hco.handles sr hmem s hs hsid
            have e3 := hco.canon sr hmem s hs hsid hsame
            have hseg : sr.seg = s := by
              cases hsr : sr.seg with
              | mk sid files deleted =>
                rw [hsr] at e1 e3 hsid
                cases s with
                | mk sid' files' deleted' =>
                  simp only at e1 e3 hsid
                  rw [e1, e3, ← hsid]
            congr 1
            cases sr with
            | mk sg g sc hs' =>
              simp only at hseg e2
              simp only [freshSeg]
              rw [hseg, e2]
              rfl
          · intro p hp
            exact hd p (List.mem_filter.1 hp).1
        · rw [if_neg hsame]
          exact ⟨d, by simp [hopen], hd⟩
    obtain ⟨d1, h1, hd1⟩ := hone
    obtain ⟨d2, h2⟩ := ih (fun x hx => hsub x (by simp [hx])) (fun x hx => hb x (by simp [hx])) d1 hd1
    exact ⟨d2, by simp only [segreaders, h1, h2, List.map_cons]⟩

/-- `ix.reader(reuse=r)` returns exactly the reader `ix.reader()` returns. -/
theorem indexReader_reuse (eager : Name → Bool) (ix : Name) (fs : FS) (t : Toc) (r : Reader)
    (ht : readToc ix fs = .ok t) (hr : readable fs t = true) (hco : Coherent eager fs t r) :
    ∃ closed, indexReader eager ix fs (some r) = .ok (freshReader eager fs t, closed) := by
  have hb : ∀ s ∈ t.segs, ∀ f ∈ s.files, (fs.dir f).isSome := by
    intro s hs f hf
    exact bound_of_isComplete ((readable_iff fs t).1 hr f (mem_toc_files hs hf))
  unfold indexReader mkReader
  rw [ht]
  simp only
  rw [carryOver_versioned t.segs r.leaves hco.versioned]
  cases hsegs : t.segs with
  | nil => exact ⟨[], by simp [freshReader, assemble, hsegs]⟩
  | cons s rest =>
    simp only
    obtain ⟨d', hd'⟩ := segreaders_reuse eager fs t r hco (s :: rest)
      (by rw [hsegs]; exact fun x hx => hx) (by rw [← hsegs]; exact hb)
      (mkReusable r.leaves) (mkReusable_ok r.leaves)
    rw [hd']
    simp only
    unfold freshReader
    rw [hsegs]
    cases rest with
    | nil => exact ⟨_, rfl⟩
    | cons s2 rest2 => exact ⟨_, rfl⟩

end WM.FS

namespace WM.FS

/-! ### names are never re-bound -/

/-- the name an event binds, if any -/
def newName : Event → Option Name
  | .create n => some n
  | .rename _ b => some b
  | _ => none

/-- every `create` and every `rename` target of the trace is a name that was never bound before
    (segment ids are random, generations only grow, temp names carry a time stamp) -/
def freshNames (fs : FS) : List Event → Bool
  | [] => true
  | e :: es =>
    (match newName e with
      | some n => !(decide (n ∈ fs.names))
      | none => true) && freshNames (step fs e) es

theorem freshNames_cons {fs : FS} {e : Event} {es : List Event} (h : freshNames fs (e :: es) = true) :
    (∀ n, newName e = some n → n ∉ fs.names) ∧ freshNames (step fs e) es = true := by
  simp only [freshNames, Bool.and_eq_true] at h
  refine ⟨?_, h.2⟩
  intro n hn
  rw [hn] at h
  simpa using h.1

theorem names_step (fs : FS) (e : Event) (n : Name) (h : n ∈ fs.names) : n ∈ (step fs e).names := by
  cases e with
  | create m =>
    simp only [step]
    cases fs.dir m <;> simp [setData, h]
  | write m k => rw [step, modData_names]; exact h
  | setToc m t => rw [step, modData_names]; exact h
  | close m => rw [step, modData_names]; exact h
  | rename a b =>
    simp only [step]
    cases fs.dir a <;> simp [h]
  | delete m => exact h
  | other => exact h

theorem unbound_of_not_mem {fs : FS} (hwf : WF fs) {n : Name} (h : n ∉ fs.names) : fs.dir n = none := by
  cases hd : fs.dir n with
  | none => rfl
  | some i => exact absurd (hwf.support n (by rw [hd]; rfl)) h

theorem step_wf_fresh {fs : FS} (hwf : WF fs) (e : Event)
    (hfr : ∀ n, newName e = some n → n ∉ fs.names) : WF (step fs e) := by
  apply step_wf hwf
  · intro n hn; subst hn; exact unbound_of_not_mem hwf (hfr n rfl)
  · intro a b hn; subst hn; exact unbound_of_not_mem hwf (hfr b rfl)

/-- a binding seen after a fresh-name event on a name that was known before is the old binding -/
theorem step_dir_known {fs : FS} (hwf : WF fs) (e : Event) (f : Name) (hf : f ∈ fs.names)
    (hfr : ∀ n, newName e = some n → n ∉ fs.names) (j : Nat)
    (h : (step fs e).dir f = some j) : fs.dir f = some j := by
  cases e with
  | create n =>
    have hnn := hfr n rfl
    have hn := unbound_of_not_mem hwf hnn
    have hfn : f ≠ n := fun h => hnn (h ▸ hf)
    simpa [step, hn, hfn] using h
  | write m k => rw [step, modData_dir] at h; exact h
  | setToc m t => rw [step, modData_dir] at h; exact h
  | close m => rw [step, modData_dir] at h; exact h
  | rename a b =>
    have hnn := hfr b rfl
    have hfb : f ≠ b := fun h => hnn (h ▸ hf)
    simp only [step] at h
    cases ha : fs.dir a with
    | none => rw [ha] at h; exact h
    | some i =>
      rw [ha] at h
      simp only [hfb, if_false] at h
      by_cases hfa : f = a
      · simp [hfa] at h
      · simpa [hfa] using h
  | delete m =>
    simp only [step] at h
    by_cases hfm : f = m
    · simp [hfm] at h
    · simpa [hfm] using h
  | other => exact h

theorem dir_stable {fs : FS} (hwf : WF fs) (tr : List Event) (hfr : freshNames fs tr = true)
    (f : Name) (hf : f ∈ fs.names) (j : Nat) (h : (run fs tr).dir f = some j) :
    fs.dir f = some j := by
  induction tr generalizing fs with
  | nil => exact h
  | cons e es ih =>
    obtain ⟨h1, h2⟩ := freshNames_cons hfr
    rw [run_cons] at h
    have := ih (step_wf_fresh hwf e h1) h2 (names_step fs e f hf) h
    exact step_dir_known hwf e f hf h1 j this

theorem run_wf_fresh {fs : FS} (hwf : WF fs) (tr : List Event) (hfr : freshNames fs tr = true) :
    WF (run fs tr) := by
  induction tr generalizing fs with
  | nil => exact hwf
  | cons e es ih =>
    obtain ⟨h1, h2⟩ := freshNames_cons hfr
    rw [run_cons]
    exact ih (step_wf_fresh hwf e h1) h2

theorem freshNames_freshCreates {fs : FS} (hwf : WF fs) (tr : List Event)
    (hfr : freshNames fs tr = true) : freshCreates fs tr = true := by
  induction tr generalizing fs with
  | nil => rfl
  | cons e es ih =>
    obtain ⟨h1, h2⟩ := freshNames_cons hfr
    simp only [freshCreates, Bool.and_eq_true]
    refine ⟨?_, ih (step_wf_fresh hwf e h1) h2⟩
    cases e with
    | create n => simp [unbound_of_not_mem hwf (h1 n rfl)]
    | _ => rfl

/-- the handles a fresh reader would take now are the ones taken earlier, when every file was
    bound then and is bound now -/
theorem handles_stable {fs0 : FS} (hwf : WF fs0) (tr : List Event) (hfr : freshNames fs0 tr = true)
    (files : List Name) (h0 : ∀ f ∈ files, (fs0.dir f).isSome) (h1 : ∀ f ∈ files, ((run fs0 tr).dir f).isSome) :
    (files.filterMap fun f => (fs0.dir f).map fun i => (f, i)) =
    (files.filterMap fun f => ((run fs0 tr).dir f).map fun i => (f, i)) := by
  induction files with
  | nil => rfl
  | cons f rest ih =>
    have r := ih (fun g hg => h0 g (by simp [hg])) (fun g hg => h1 g (by simp [hg]))
    have b0 := h0 f (by simp)
    have b1 := h1 f (by simp)
    cases hd1 : (run fs0 tr).dir f with
    | none => rw [hd1] at b1; cases b1
    | some j =>
      have hmem : f ∈ fs0.names := hwf.support f b0
      have := dir_stable hwf tr hfr f hmem j hd1
      simp only [List.filterMap_cons, this, hd1, Option.map_some, r]

end WM.FS
