import WM.Spec.SearchStats
import WM.Lemmas.SearchSeg
/-! Collection statistics as sums over all documents; invariance under re-segmentation. -/
namespace WM.Compile
open WM.Search

theorem allDocs_cons (s : Segment) (rest : Index) : allDocs (s :: rest) = s.docs ++ allDocs rest := by
  simp [allDocs]

theorem docCount_eq (idx : Index) : (idx.map (·.size)).sum = (allDocs idx).length := by
  induction idx with
  | nil => rfl
  | cons s rest ih =>
    rw [List.map_cons, List.sum_cons, ih, allDocs_cons, List.length_append]; rfl

theorem docFreq_eq (idx : Index) (f : String) (t : Term) :
    (idx.map (fun s => s.docFreq f t)).sum = ((allDocs idx).filter (fun d => d.hasTerm f t)).length := by
  induction idx with
  | nil => rfl
  | cons s rest ih =>
    rw [List.map_cons, List.sum_cons, ih, allDocs_cons, List.filter_append, List.length_append]; rfl

theorem sum_append_rat (a b : List Rat) : (a ++ b).sum = a.sum + b.sum := by
  induction a with
  | nil => simp [Rat.zero_add]
  | cons x xs ih => simp [List.sum_cons, ih, Rat.add_assoc]

theorem collFreq_eq (idx : Index) (f : String) (t : Term) :
    (idx.map (fun s => s.collFreq f t)).sum = ((allDocs idx).map (fun d => d.weight f t)).sum := by
  induction idx with
  | nil => rfl
  | cons s rest ih =>
    rw [List.map_cons, List.sum_cons, ih, allDocs_cons, List.map_append, sum_append_rat]; rfl

theorem fieldLength_eq (idx : Index) (f : String) :
    (idx.map (fun s => s.fieldLength f)).sum =
      ((allDocs idx).map (fun d => WM.LengthByte.approx (d.length f))).sum := by
  induction idx with
  | nil => rfl
  | cons s rest ih =>
    rw [List.map_cons, List.sum_cons, ih, allDocs_cons, List.map_append, List.sum_append]; rfl

theorem perm_sum_map_nat {α} (g : α → Nat) {l₁ l₂ : List α} (h : l₁.Perm l₂) :
    (l₁.map g).sum = (l₂.map g).sum := by
  induction h with
  | nil => rfl
  | cons x _ ih => simp only [List.map_cons, List.sum_cons, ih]
  | swap x y l => simp only [List.map_cons, List.sum_cons]; omega
  | trans _ _ ih1 ih2 => rw [ih1, ih2]

/-- the statistics only depend on the multiset of documents -/
theorem termStats_perm {idx idx' : Index} (h : (allDocs idx).Perm (allDocs idx')) (f : String) (t : Term) :
    termStats idx f t = termStats idx' f t := by
  unfold termStats
  rw [docCount_eq, docCount_eq, docFreq_eq, docFreq_eq, collFreq_eq, collFreq_eq, fieldLength_eq, fieldLength_eq,
    h.length_eq, (h.filter _).length_eq, perm_sum_map _ h, perm_sum_map_nat _ h]

theorem live_eq_range_of_noDeletions {s : Segment} (h : s.deleted = []) : s.live = List.range s.size := by
  unfold Segment.live
  rw [h]
  simp

theorem map_doc_range (s : Segment) : (List.range s.size).map s.doc = s.docs := by
  unfold Segment.size Segment.doc
  apply List.ext_getElem
  · simp
  · intro n h1 h2
    simp at h1
    simp [h1]

theorem liveDocs_eq_allDocs {idx : Index} (h : NoDeletions idx) : liveDocs idx = allDocs idx := by
  induction idx with
  | nil => rfl
  | cons s rest ih =>
    have hs := h s List.mem_cons_self
    have hr : NoDeletions rest := fun x hx => h x (List.mem_cons_of_mem _ hx)
    simp only [liveDocs, allDocs, List.flatMap_cons] at ih ⊢
    rw [ih hr, live_eq_range_of_noDeletions hs, map_doc_range]

end WM.Compile
