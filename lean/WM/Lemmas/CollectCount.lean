import WM.Lemmas.CollectTop
/-! Helper lemmas for C14.len: when `TopCollector.total` is the number of matching documents. -/
namespace WM.Collect
open WM.Rank

theorem dropMasked_zero (mask : List Wish) (m : List Posting) : dropMasked 0 mask m = m := by
  induction m generalizing mask with
  | nil => cases mask <;> rfl
  | cons p ps ih =>
    cases mask with
    | nil => rfl
    | cons b bs => simp [dropMasked, ih bs]

theorem collect_total (k : Nat) (st st' : TopState) (h : Hit) (hc : st.collect k h = .ok st') :
    st'.total = st.total + 1 := by
  unfold TopState.collect at hc
  dsimp only at hc
  split at hc
  · cases hc; rfl
  · split at hc
    · cases hc
    · split at hc
      · split at hc
        · cases hc
        · cases hc; rfl
      · cases hc; rfl

/-- If at the end of a segment loop `may_have_dropped` is still false, it was false before and every
    posting of the segment went through `_collect`. -/
theorem matchesLoop_total (cfg : Cfg) (final : Nat → Rat → Rat) (off : Nat) :
    ∀ (n : Nat) (m : List Posting), m.length = n →
    ∀ (sched : List Step) (lv : Locals) (st : TopState) (tr : Trace) (st' : TopState) (sched' : List Step) (tr' : Trace),
      matchesLoop cfg (topConsume cfg final) (fun st => st.minscore) off sched m lv st tr = .ok (st', sched', tr') →
      tr'.mayHaveDropped = false →
      tr.mayHaveDropped = false ∧ st'.total = st.total + m.length := by
  intro n
  induction n using Nat.strongRecOn with
  | _ n ih =>
    intro m hmn sched lv st tr st' sched' tr' hrun hfin
    rw [matchesLoop] at hrun
    by_cases hem : m.isEmpty = true
    · rw [if_pos hem] at hrun
      have : m = [] := by simpa using hem
      subst this
      simp only [Except.ok.injEq, Prod.mk.injEq] at hrun
      obtain ⟨rfl, _, rfl⟩ := hrun
      exact ⟨hfin, by simp⟩
    · rw [if_neg hem] at hrun
      dsimp only at hrun
      -- what the replace phase does when the flag stays false
      have hrep : ∀ (r : List Posting × Locals × Trace × Bool),
          replacePhase cfg st.minscore (sched.headD Step.none) m lv tr = r →
          r.2.2.1.mayHaveDropped = false →
          tr.mayHaveDropped = false ∧ r.1 = m ∧ r.2.2.2 = false := by
        intro r hr hflag
        unfold replacePhase at hr
        by_cases h1 : (cfg.replace != 0) = true
        · rw [if_pos h1] at hr
          by_cases h2 : (lv.replacecounter == 0 || st.minscore != lv.minscore) = true
          · rw [if_pos h2] at hr
            dsimp only at hr
            have hthr : tr.mayHaveDropped = false ∧ replaceThreshold cfg lv = 0 := by
              by_cases h3 : (dropMasked (replaceThreshold cfg lv) (sched.headD Step.none).mask m).isEmpty = true
              · rw [if_pos h3] at hr
                subst hr
                simp only [Bool.or_eq_false_iff, bne_eq_false_iff_eq] at hflag
                exact hflag
              · rw [if_neg h3] at hr
                subst hr
                simp only [Bool.or_eq_false_iff, bne_eq_false_iff_eq] at hflag
                exact hflag
            obtain ⟨htr, hthr0⟩ := hthr
            rw [hthr0] at hr
            rw [dropMasked_zero] at hr
            rw [if_neg hem] at hr
            subst hr
            exact ⟨htr, rfl, rfl⟩
          · rw [if_neg h2] at hr
            subst hr
            exact ⟨hflag, rfl, rfl⟩
        · rw [if_neg h1] at hr
          subst hr
          exact ⟨hflag, rfl, rfl⟩
      have hskip : ∀ (m1 : List Posting) (lv1 : Locals) (tr1 : Trace),
          (skipPhase (sched.headD Step.none) m1 lv1 tr1).2.mayHaveDropped = false →
          tr1.mayHaveDropped = false ∧ (skipPhase (sched.headD Step.none) m1 lv1 tr1).1 = m1 := by
        intro m1 lv1 tr1 hflag
        unfold skipPhase at hflag ⊢
        by_cases h : (lv1.usequality && lv1.checkquality && lv1.minscore != 0) = true
        · rw [if_pos h] at hflag; simp at hflag
        · rw [if_neg h] at hflag ⊢; exact ⟨hflag, rfl⟩
      generalize hr : replacePhase cfg st.minscore (sched.headD Step.none) m lv tr = r at hrun
      by_cases hb : r.2.2.2 = true
      · rw [if_pos hb] at hrun
        simp only [Except.ok.injEq, Prod.mk.injEq] at hrun
        obtain ⟨_, _, rfl⟩ := hrun
        have := (hrep r hr hfin).2.2
        rw [this] at hb; cases hb
      · rw [if_neg hb] at hrun
        generalize hs : skipPhase (sched.headD Step.none) r.1 r.2.1 r.2.2.1 = s at hrun
        split at hrun
        · next hs1 =>
          simp only [Except.ok.injEq, Prod.mk.injEq] at hrun
          obtain ⟨_, _, rfl⟩ := hrun
          have h1 := hskip r.1 r.2.1 r.2.2.1 (by rw [hs]; exact hfin)
          have h2 := hrep r hr h1.1
          rw [hs] at h1
          rw [h1.2, h2.2.1] at hs1
          rw [hs1] at hem; simp at hem
        · next p rest hs1 =>
          cases hc : topConsume cfg final st off p with
          | error e => rw [hc] at hrun; cases hrun
          | ok st1 =>
            rw [hc] at hrun
            dsimp only at hrun
            have hrl : rest.length < n := by
              have h1 := skipPhase_length_le (sched.headD Step.none) r.1 r.2.1 r.2.2.1
              have h2 := replacePhase_length_le cfg st.minscore (sched.headD Step.none) m lv tr
              rw [hs, hs1] at h1; rw [hr] at h2
              simp only [List.length_cons] at h1
              omega
            obtain ⟨hflag2, htot⟩ := ih rest.length hrl rest rfl _ _ st1 s.2 st' sched' tr' hrun hfin
            have h1 := hskip r.1 r.2.1 r.2.2.1 (by rw [hs]; exact hflag2)
            have h2 := hrep r hr h1.1
            rw [hs] at h1
            have hm : m = p :: rest := by rw [← hs1, h1.2, h2.2.1]
            refine ⟨h2.1, ?_⟩
            rw [htot, collect_total _ _ _ _ hc, hm]
            simp only [List.length_cons]; omega

end WM.Collect

namespace WM.Collect
open WM.Rank

theorem runSegs_total (cfg : Cfg) (final : Nat → Rat → Rat) :
    ∀ (segs : List Seg) (sched : List Step) (st : TopState) (tr : Trace) (st' : TopState) (sched' : List Step)
      (tr' : Trace),
      runSegs cfg (topConsume cfg final) (fun st => st.minscore) segs sched st tr = .ok (st', sched', tr') →
      tr'.mayHaveDropped = false →
      tr.mayHaveDropped = false ∧ st'.total = st.total + (allHits cfg final segs).length := by
  intro segs
  induction segs with
  | nil =>
    intro sched st tr st' sched' tr' hrun hfin
    simp only [runSegs, Except.ok.injEq, Prod.mk.injEq] at hrun
    obtain ⟨rfl, _, rfl⟩ := hrun
    exact ⟨hfin, by simp [allHits]⟩
  | cons s segs ih =>
    intro sched st tr st' sched' tr' hrun hfin
    simp only [runSegs] at hrun
    split at hrun
    · cases hrun
    · next c1 sched1 tr1 h1 =>
      obtain ⟨hf1, ht1⟩ := ih sched1 c1 tr1 st' sched' tr' hrun hfin
      obtain ⟨hf0, ht0⟩ := matchesLoop_total cfg final s.off s.postings.length s.postings rfl _ _ _ _ _ _ _ h1 hf1
      refine ⟨hf0, ?_⟩
      rw [ht1, ht0, allHits_cons]
      simp only [List.length_append, List.length_map]
      omega

end WM.Collect
