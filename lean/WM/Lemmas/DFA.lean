import WM.Lemmas.NFA
/-! The subset construction `NFA.to_dfa` (with ANY/default arcs) accepts the language of the NFA. -/
namespace WM.Lev
open WM.Lev.NFA

/-- Equality of state sets as sets. -/
def SEq (A B : SSet) : Prop := ∀ s, s ∈ A ↔ s ∈ B

theorem SEq.refl (A : SSet) : SEq A A := fun _ => Iff.rfl
theorem SEq.symm {A B : SSet} (h : SEq A B) : SEq B A := fun s => (h s).symm
theorem SEq.trans {A B C : SSet} (h1 : SEq A B) (h2 : SEq B C) : SEq A C := fun s => (h1 s).trans (h2 s)

theorem subset_iff (A B : SSet) : subset A B = true ↔ ∀ s, s ∈ A → s ∈ B := by
  simp [subset, List.all_eq_true]

theorem setEq_iff (A B : SSet) : setEq A B = true ↔ SEq A B := by
  simp only [setEq, Bool.and_eq_true, subset_iff, SEq]
  constructor
  · rintro ⟨h1, h2⟩ s; exact ⟨h1 s, h2 s⟩
  · intro h; exact ⟨fun s => (h s).mp, fun s => (h s).mpr⟩

namespace NFA

theorem expand_mono (n : NFA) (X Y : SSet) (h : ∀ s, s ∈ X → s ∈ Y) :
    ∀ t, t ∈ n.expand X → t ∈ n.expand Y :=
  expand_induction n X (fun t => t ∈ n.expand Y) (fun s hs => subset_expand n Y (h s hs))
    (fun _ _ hs ht => expand_closed n Y hs ht)

theorem expand_nil (n : NFA) : n.expand [] = [] := by
  unfold expand; rw [expandLoop]

theorem nextState_mono (n : NFA) (S S' : SSet) (l : Label) (h : ∀ s, s ∈ S → s ∈ S') :
    ∀ t, t ∈ n.nextState S l → t ∈ n.nextState S' l := by
  unfold nextState
  apply expand_mono
  intro t ht
  obtain ⟨s, hs, harc⟩ := mem_move.mp ht
  exact mem_move.mpr ⟨s, h s hs, harc⟩

theorem nextState_congr (n : NFA) {S S' : SSet} (l : Label) (h : SEq S S') :
    SEq (n.nextState S l) (n.nextState S' l) :=
  fun t => ⟨nextState_mono n S S' l (fun s => (h s).mp) t, nextState_mono n S' S l (fun s => (h s).mpr) t⟩

theorem isFinal_iff (n : NFA) (S : SSet) : n.isFinal S = true ↔ ∃ s, s ∈ S ∧ s ∈ n.finals := by
  simp [isFinal, List.any_eq_true]

theorem isFinal_congr (n : NFA) {S S' : SSet} (h : SEq S S') : n.isFinal S = n.isFinal S' := by
  rw [Bool.eq_iff_iff, isFinal_iff, isFinal_iff]
  constructor
  · rintro ⟨s, hs, hf⟩; exact ⟨s, (h s).mp hs, hf⟩
  · rintro ⟨s, hs, hf⟩; exact ⟨s, (h s).mpr hs, hf⟩

theorem mem_getLabels (n : NFA) (S : SSet) (l : Label) :
    l ∈ n.getLabels S ↔ ∃ a t, (a, l, t) ∈ n.trans ∧ a ∈ S := by
  simp only [getLabels, List.mem_eraseDups, List.mem_filterMap]
  constructor
  · rintro ⟨⟨a, l', t⟩, hm, h⟩
    split at h
    · next hc =>
      simp only [Option.some.injEq] at h
      subst h
      exact ⟨a, t, hm, by simpa using hc⟩
    · cases h
  · rintro ⟨a, t, hm, ha⟩
    exact ⟨(a, l, t), hm, by simp [ha]⟩

theorem getLabels_congr (n : NFA) {S S' : SSet} (h : SEq S S') (l : Label) :
    l ∈ n.getLabels S ↔ l ∈ n.getLabels S' := by
  rw [mem_getLabels, mem_getLabels]
  constructor
  · rintro ⟨a, t, hm, ha⟩; exact ⟨a, t, hm, (h a).mp ha⟩
  · rintro ⟨a, t, hm, ha⟩; exact ⟨a, t, hm, (h a).mpr ha⟩

/-- A label that some member offers leads to a non-empty set. -/
theorem nextState_nonempty (n : NFA) (S : SSet) (l : Label) (h : l ∈ n.getLabels S) :
    ∃ t, t ∈ n.nextState S l := by
  obtain ⟨a, t, hm, ha⟩ := (mem_getLabels n S l).mp h
  exact ⟨t, subset_expand _ _ (mem_move.mpr ⟨a, ha, Or.inl hm⟩)⟩

/-- A character no member offers behaves like ANY. -/
theorem nextState_chr_eq_any (n : NFA) (S : SSet) (c : Nat) (h : Label.chr c ∉ n.getLabels S) :
    SEq (n.nextState S (.chr c)) (n.nextState S .any) := by
  have key : ∀ t, t ∈ (S.flatMap fun s => n.dests s (.chr c) ++ n.dests s .any).eraseDups ↔
      t ∈ (S.flatMap fun s => n.dests s .any ++ n.dests s .any).eraseDups := by
    intro t
    rw [mem_move, mem_move]
    constructor
    · rintro ⟨s, hs, h1 | h1⟩
      · exact absurd ((mem_getLabels n S _).mpr ⟨s, t, h1, hs⟩) h
      · exact ⟨s, hs, Or.inl h1⟩
    · rintro ⟨s, hs, h1 | h1⟩ <;> exact ⟨s, hs, Or.inr h1⟩
  intro t
  unfold nextState
  exact ⟨expand_mono n _ _ (fun s => (key s).mp) t, expand_mono n _ _ (fun s => (key s).mpr) t⟩

/-- Neither the character nor ANY is offered: the successor set is empty. -/
theorem nextState_empty (n : NFA) (S : SSet) (c : Nat) (h1 : Label.chr c ∉ n.getLabels S)
    (h2 : Label.any ∉ n.getLabels S) : n.nextState S (.chr c) = [] := by
  unfold nextState
  have : (S.flatMap fun s => n.dests s (.chr c) ++ n.dests s .any).eraseDups = [] := by
    rw [List.eq_nil_iff_forall_not_mem]
    intro t ht
    obtain ⟨s, hs, h | h⟩ := mem_move.mp ht
    · exact h1 ((mem_getLabels n S _).mpr ⟨s, t, h, hs⟩)
    · exact h2 ((mem_getLabels n S _).mpr ⟨s, t, h, hs⟩)
  rw [this, expand_nil]

theorem nextState_of_empty (n : NFA) (S : SSet) (l : Label) (h : ∀ s, s ∉ S) : n.nextState S l = [] := by
  unfold nextState
  have : (S.flatMap fun s => n.dests s l ++ n.dests s .any).eraseDups = [] := by
    rw [List.eq_nil_iff_forall_not_mem]
    intro t ht
    obtain ⟨s, hs, _⟩ := mem_move.mp ht
    exact h s hs
  rw [this, expand_nil]

/-! ### Invariant of the `to_dfa` loop -/

/-- Everything recorded in the DFA so far is right. -/
structure DInv (n : NFA) (s0 : SSet) (d : DFA) (seen : List SSet) : Prop where
  tr : ∀ S c T, (S, c, T) ∈ d.trans →
    T = n.nextState S (.chr c) ∧ Label.chr c ∈ n.getLabels S ∧ ∃ X, X ∈ seen ∧ SEq X T
  df : ∀ S T, (S, T) ∈ d.defaults →
    T = n.nextState S .any ∧ Label.any ∈ n.getLabels S ∧ ∃ X, X ∈ seen ∧ SEq X T
  fin : ∀ F, F ∈ d.finals → n.isFinal F = true
  init : d.initial = s0
  /-- every state met so far was produced by `next_state` -/
  src : ∀ X, X ∈ seen → ∃ S l, X = n.nextState S l

/-- The DFA state `X` has been processed: all its out-labels and its finality are recorded. -/
def Done (n : NFA) (d : DFA) (X : SSet) : Prop :=
  (∀ c, Label.chr c ∈ n.getLabels X → ∃ S T, (S, c, T) ∈ d.trans ∧ SEq S X) ∧
  (Label.any ∈ n.getLabels X → ∃ S T, (S, T) ∈ d.defaults ∧ SEq S X) ∧
  (n.isFinal X = true → ∃ F, F ∈ d.finals ∧ SEq F X)

/-- `d'` extends `d`. -/
def Mono (d d' : DFA) : Prop :=
  (∀ e, e ∈ d.trans → e ∈ d'.trans) ∧ (∀ e, e ∈ d.defaults → e ∈ d'.defaults) ∧
  (∀ F, F ∈ d.finals → F ∈ d'.finals) ∧ d'.initial = d.initial

theorem Mono.refl (d : DFA) : Mono d d := ⟨fun _ h => h, fun _ h => h, fun _ h => h, rfl⟩
theorem Mono.trans {a b c : DFA} (h1 : Mono a b) (h2 : Mono b c) : Mono a c :=
  ⟨fun e h => h2.1 e (h1.1 e h), fun e h => h2.2.1 e (h1.2.1 e h), fun e h => h2.2.2.1 e (h1.2.2.1 e h),
   h2.2.2.2.trans h1.2.2.2⟩

theorem Done.mono {n : NFA} {d d' : DFA} {X : SSet} (h : Done n d X) (hm : Mono d d') : Done n d' X := by
  obtain ⟨h1, h2, h3⟩ := h
  refine ⟨?_, ?_, ?_⟩
  · intro c hc; obtain ⟨S, T, he, hs⟩ := h1 c hc; exact ⟨S, T, hm.1 _ he, hs⟩
  · intro hc; obtain ⟨S, T, he, hs⟩ := h2 hc; exact ⟨S, T, hm.2.1 _ he, hs⟩
  · intro hc; obtain ⟨F, he, hs⟩ := h3 hc; exact ⟨F, hm.2.2.1 _ he, hs⟩

theorem Done.congr {n : NFA} {d : DFA} {X Y : SSet} (h : Done n d X) (hxy : SEq X Y) : Done n d Y := by
  obtain ⟨h1, h2, h3⟩ := h
  refine ⟨?_, ?_, ?_⟩
  · intro c hc
    obtain ⟨S, T, he, hs⟩ := h1 c ((getLabels_congr n hxy _).mpr hc)
    exact ⟨S, T, he, hs.trans hxy⟩
  · intro hc
    obtain ⟨S, T, he, hs⟩ := h2 ((getLabels_congr n hxy _).mpr hc)
    exact ⟨S, T, he, hs.trans hxy⟩
  · intro hc
    obtain ⟨F, he, hs⟩ := h3 (by rw [isFinal_congr n hxy]; exact hc)
    exact ⟨F, he, hs.trans hxy⟩

/-- Every known state is waiting on the frontier, or processed, or the one being processed. -/
def Pending (n : NFA) (s0 current : SSet) (d : DFA) (frontier seen : List SSet) : Prop :=
  ∀ X, X ∈ s0 :: seen → (∃ Y, Y ∈ frontier ∧ SEq Y X) ∨ Done n d X ∨ SEq X current

theorem dfaLabels_cons_eps (n : NFA) (current : SSet) (ls : List Label) (d : DFA)
    (frontier seen : List SSet) :
    n.dfaLabels current (.eps :: ls) d frontier seen = n.dfaLabels current ls d frontier seen := by
  rw [dfaLabels]

theorem dfaLabels_cons_chr (n : NFA) (current : SSet) (c : Nat) (ls : List Label) (d : DFA)
    (frontier seen : List SSet) :
    n.dfaLabels current (.chr c :: ls) d frontier seen =
      n.dfaLabels current ls (dfaStep n current (.chr c) d frontier seen).1
        (dfaStep n current (.chr c) d frontier seen).2.1
        (dfaStep n current (.chr c) d frontier seen).2.2 := by
  rw [dfaLabels]; simp

theorem dfaLabels_cons_any (n : NFA) (current : SSet) (ls : List Label) (d : DFA)
    (frontier seen : List SSet) :
    n.dfaLabels current (.any :: ls) d frontier seen =
      n.dfaLabels current ls (dfaStep n current .any d frontier seen).1
        (dfaStep n current .any d frontier seen).2.1
        (dfaStep n current .any d frontier seen).2.2 := by
  rw [dfaLabels]; simp

/-- `new_state not in seen` -/
def isNewState (seen : List SSet) (new : SSet) : Bool := !(seen.any fun s => setEq s new)

theorem dfaStep_seen (n : NFA) (current : SSet) (l : Label) (d : DFA) (frontier seen : List SSet) :
    (dfaStep n current l d frontier seen).2.2 =
      if isNewState seen (n.nextState current l) then n.nextState current l :: seen else seen := rfl

theorem dfaStep_frontier (n : NFA) (current : SSet) (l : Label) (d : DFA) (frontier seen : List SSet) :
    (dfaStep n current l d frontier seen).2.1 =
      if isNewState seen (n.nextState current l) then n.nextState current l :: frontier else frontier := rfl

theorem dfaStep_initial (n : NFA) (current : SSet) (l : Label) (d : DFA) (frontier seen : List SSet) :
    (dfaStep n current l d frontier seen).1.initial = d.initial := by
  cases l <;> simp only [dfaStep] <;> split <;> rfl

theorem dfaStep_trans (n : NFA) (current : SSet) (l : Label) (d : DFA) (frontier seen : List SSet)
    (e : SSet × Nat × SSet) :
    e ∈ (dfaStep n current l d frontier seen).1.trans ↔
      e ∈ d.trans ∨ ∃ c, l = .chr c ∧ e = (current, c, n.nextState current l) := by
  cases l <;> simp only [dfaStep] <;> split <;> simp [or_comm]

theorem dfaStep_defaults (n : NFA) (current : SSet) (l : Label) (d : DFA) (frontier seen : List SSet)
    (e : SSet × SSet) :
    e ∈ (dfaStep n current l d frontier seen).1.defaults ↔
      e ∈ d.defaults ∨ (l = .any ∧ e = (current, n.nextState current l)) := by
  cases l <;> simp only [dfaStep] <;> split <;> simp [or_comm]

theorem dfaStep_finals (n : NFA) (current : SSet) (l : Label) (d : DFA) (frontier seen : List SSet)
    (F : SSet) :
    F ∈ (dfaStep n current l d frontier seen).1.finals ↔
      F ∈ d.finals ∨ (isNewState seen (n.nextState current l) = true ∧
        n.isFinal (n.nextState current l) = true ∧ F = n.nextState current l) := by
  cases l <;> simp only [dfaStep, isNewState] <;> split <;> simp_all [or_comm]

theorem isNewState_false (seen : List SSet) (new : SSet) (h : isNewState seen new = false) :
    ∃ X, X ∈ seen ∧ SEq X new := by
  simp only [isNewState, Bool.not_eq_false', List.any_eq_true] at h
  obtain ⟨X, hX, he⟩ := h
  exact ⟨X, hX, (setEq_iff _ _).mp he⟩

/-- The entry that a step records for `current`. -/
def Progress (current : SSet) (l : Label) (d : DFA) : Prop :=
  match l with
  | .chr c => ∃ T, (current, c, T) ∈ d.trans
  | .any => ∃ T, (current, T) ∈ d.defaults
  | .eps => True

theorem Progress.mono {current : SSet} {l : Label} {d d' : DFA} (h : Progress current l d)
    (hm : Mono d d') : Progress current l d' := by
  cases l with
  | chr c => obtain ⟨T, hT⟩ := h; exact ⟨T, hm.1 _ hT⟩
  | any => obtain ⟨T, hT⟩ := h; exact ⟨T, hm.2.1 _ hT⟩
  | eps => trivial

theorem dfaStep_spec (n : NFA) (s0 current : SSet) (l : Label) (d : DFA) (frontier seen : List SSet)
    (hl : l ∈ n.getLabels current) (hinv : DInv n s0 d seen)
    (hpend : Pending n s0 current d frontier seen) :
    DInv n s0 (dfaStep n current l d frontier seen).1 (dfaStep n current l d frontier seen).2.2 ∧
    Pending n s0 current (dfaStep n current l d frontier seen).1
      (dfaStep n current l d frontier seen).2.1 (dfaStep n current l d frontier seen).2.2 ∧
    Mono d (dfaStep n current l d frontier seen).1 ∧
    Progress current l (dfaStep n current l d frontier seen).1 := by
  have hmono : Mono d (dfaStep n current l d frontier seen).1 :=
    ⟨fun e h => (dfaStep_trans ..).mpr (Or.inl h), fun e h => (dfaStep_defaults ..).mpr (Or.inl h),
     fun F h => (dfaStep_finals ..).mpr (Or.inl h), dfaStep_initial ..⟩
  have hseen : ∀ X, X ∈ seen → X ∈ (dfaStep n current l d frontier seen).2.2 := by
    intro X hX; rw [dfaStep_seen]; split
    · exact List.mem_cons_of_mem _ hX
    · exact hX
  have hfront : ∀ X, X ∈ frontier → X ∈ (dfaStep n current l d frontier seen).2.1 := by
    intro X hX; rw [dfaStep_frontier]; split
    · exact List.mem_cons_of_mem _ hX
    · exact hX
  have hnewseen : ∃ X, X ∈ (dfaStep n current l d frontier seen).2.2 ∧ SEq X (n.nextState current l) := by
    rw [dfaStep_seen]
    cases hn : isNewState seen (n.nextState current l) with
    | true => exact ⟨_, by simp, SEq.refl _⟩
    | false =>
      obtain ⟨X, hX, he⟩ := isNewState_false _ _ hn
      exact ⟨X, by simpa using hX, he⟩
  refine ⟨⟨?_, ?_, ?_, ?_, ?_⟩, ?_, hmono, ?_⟩
  · intro S c T he
    rcases (dfaStep_trans ..).mp he with h | ⟨c', rfl, h⟩
    · obtain ⟨h1, h2, X, hX, hXT⟩ := hinv.tr S c T h
      exact ⟨h1, h2, X, hseen X hX, hXT⟩
    · simp only [Prod.mk.injEq] at h
      obtain ⟨rfl, rfl, rfl⟩ := h
      exact ⟨rfl, hl, hnewseen⟩
  · intro S T he
    rcases (dfaStep_defaults ..).mp he with h | ⟨rfl, h⟩
    · obtain ⟨h1, h2, X, hX, hXT⟩ := hinv.df S T h
      exact ⟨h1, h2, X, hseen X hX, hXT⟩
    · simp only [Prod.mk.injEq] at h
      obtain ⟨rfl, rfl⟩ := h
      exact ⟨rfl, hl, hnewseen⟩
  · intro F hF
    rcases (dfaStep_finals ..).mp hF with h | ⟨_, h, rfl⟩
    · exact hinv.fin F h
    · exact h
  · rw [dfaStep_initial]; exact hinv.init
  · intro X hX
    rw [dfaStep_seen] at hX
    split at hX
    · rcases List.mem_cons.mp hX with rfl | hX
      · exact ⟨current, l, rfl⟩
      · exact hinv.src X hX
    · exact hinv.src X hX
  · intro X hX
    have hcase : X ∈ s0 :: seen ∨ (isNewState seen (n.nextState current l) = true ∧ X = n.nextState current l) := by
      rw [dfaStep_seen] at hX
      rcases List.mem_cons.mp hX with rfl | hX
      · exact Or.inl (by simp)
      · split at hX
        · next hn =>
          rcases List.mem_cons.mp hX with rfl | hX
          · exact Or.inr ⟨hn, rfl⟩
          · exact Or.inl (List.mem_cons_of_mem _ hX)
        · exact Or.inl (List.mem_cons_of_mem _ hX)
    rcases hcase with hold | ⟨hn, rfl⟩
    · rcases hpend X hold with ⟨Y, hY, hYX⟩ | hdone | hcur
      · exact Or.inl ⟨Y, hfront Y hY, hYX⟩
      · exact Or.inr (Or.inl (hdone.mono hmono))
      · exact Or.inr (Or.inr hcur)
    · refine Or.inl ⟨_, ?_, SEq.refl _⟩
      rw [dfaStep_frontier, hn]; simp
  · cases l with
    | chr c => exact ⟨_, (dfaStep_trans ..).mpr (Or.inr ⟨c, rfl, rfl⟩)⟩
    | any => exact ⟨_, (dfaStep_defaults ..).mpr (Or.inr ⟨rfl, rfl⟩)⟩
    | eps => trivial

/-- The inner loop of `to_dfa` over the labels `ls` of `current`. -/
theorem dfaLabels_spec (n : NFA) (s0 current : SSet) :
    ∀ (ls : List Label) (d : DFA) (frontier seen : List SSet),
      (∀ l, l ∈ ls → l ∈ n.getLabels current) → DInv n s0 d seen → Pending n s0 current d frontier seen →
      DInv n s0 (n.dfaLabels current ls d frontier seen).1 (n.dfaLabels current ls d frontier seen).2.2 ∧
      Pending n s0 current (n.dfaLabels current ls d frontier seen).1
        (n.dfaLabels current ls d frontier seen).2.1 (n.dfaLabels current ls d frontier seen).2.2 ∧
      Mono d (n.dfaLabels current ls d frontier seen).1 ∧
      ∀ l, l ∈ ls → Progress current l (n.dfaLabels current ls d frontier seen).1 := by
  intro ls
  induction ls with
  | nil =>
    intro d frontier seen _ hinv hpend
    exact ⟨hinv, hpend, Mono.refl d, fun _ h => by cases h⟩
  | cons l ls ih =>
    intro d frontier seen hls hinv hpend
    have hls' : ∀ l', l' ∈ ls → l' ∈ n.getLabels current := fun l' h => hls l' (List.mem_cons_of_mem _ h)
    cases l with
    | eps =>
      rw [dfaLabels_cons_eps]
      obtain ⟨h1, h2, h3, h4⟩ := ih d frontier seen hls' hinv hpend
      refine ⟨h1, h2, h3, ?_⟩
      intro l hl
      rcases List.mem_cons.mp hl with rfl | hl
      · trivial
      · exact h4 l hl
    | chr c =>
      rw [dfaLabels_cons_chr]
      obtain ⟨s1, s2, s3, s4⟩ := dfaStep_spec n s0 current (.chr c) d frontier seen (hls _ (by simp)) hinv hpend
      obtain ⟨h1, h2, h3, h4⟩ := ih _ _ _ hls' s1 s2
      refine ⟨h1, h2, s3.trans h3, ?_⟩
      intro l hl
      rcases List.mem_cons.mp hl with rfl | hl
      · exact s4.mono h3
      · exact h4 l hl
    | any =>
      rw [dfaLabels_cons_any]
      obtain ⟨s1, s2, s3, s4⟩ := dfaStep_spec n s0 current .any d frontier seen (hls _ (by simp)) hinv hpend
      obtain ⟨h1, h2, h3, h4⟩ := ih _ _ _ hls' s1 s2
      refine ⟨h1, h2, s3.trans h3, ?_⟩
      intro l hl
      rcases List.mem_cons.mp hl with rfl | hl
      · exact s4.mono h3
      · exact h4 l hl

/-- Outer invariant: every known state waits on the frontier or is processed. -/
def AllPending (n : NFA) (s0 : SSet) (d : DFA) (frontier seen : List SSet) : Prop :=
  ∀ X, X ∈ s0 :: seen → (∃ Y, Y ∈ frontier ∧ SEq Y X) ∨ Done n d X

/-- When the `while frontier:` loop of `to_dfa` ends, every recorded entry is right and every
    known state is processed. -/
theorem dfaLoop_spec (n : NFA) (s0 : SSet) :
    ∀ (fuel : Nat) (d : DFA) (frontier seen : List SSet) (dfin : DFA),
      DInv n s0 d seen → AllPending n s0 d frontier seen → n.dfaLoop fuel d frontier seen = some dfin →
      ∃ seen', DInv n s0 dfin seen' ∧ ∀ X, X ∈ s0 :: seen' → Done n dfin X := by
  intro fuel
  induction fuel with
  | zero =>
    intro d frontier seen dfin hinv hpend h
    cases frontier with
    | nil =>
      simp only [dfaLoop, Option.some.injEq] at h
      subst h
      refine ⟨seen, hinv, ?_⟩
      intro X hX
      rcases hpend X hX with ⟨Y, hY, _⟩ | hd
      · cases hY
      · exact hd
    | cons c f => simp [dfaLoop] at h
  | succ fuel ih =>
    intro d frontier seen dfin hinv hpend h
    cases frontier with
    | nil =>
      simp only [dfaLoop, Option.some.injEq] at h
      subst h
      refine ⟨seen, hinv, ?_⟩
      intro X hX
      rcases hpend X hX with ⟨Y, hY, _⟩ | hd
      · cases hY
      · exact hd
    | cons current frontier =>
      rw [dfaLoop] at h
      -- `if self.is_final(current): dfa.add_final_state(current)`
      generalize hd1 : (if n.isFinal current = true then { d with finals := current :: d.finals } else d) = d1 at h
      have hm1 : Mono d d1 := by
        subst hd1; split
        · exact ⟨fun _ h => h, fun _ h => h, fun _ h => List.mem_cons_of_mem _ h, rfl⟩
        · exact Mono.refl d
      have hinv1 : DInv n s0 d1 seen := by
        subst hd1; split
        · next hf =>
          exact ⟨hinv.tr, hinv.df, fun F hF => by
            rcases List.mem_cons.mp hF with rfl | hF
            · exact hf
            · exact hinv.fin F hF, hinv.init, hinv.src⟩
        · exact hinv
      have hfin1 : n.isFinal current = true → current ∈ d1.finals := by
        intro hf; subst hd1; simp [hf]
      have hpend1 : Pending n s0 current d1 frontier seen := by
        intro X hX
        rcases hpend X hX with ⟨Y, hY, hYX⟩ | hd
        · rcases List.mem_cons.mp hY with rfl | hY
          · exact Or.inr (Or.inr hYX.symm)
          · exact Or.inl ⟨Y, hY, hYX⟩
        · exact Or.inr (Or.inl (hd.mono hm1))
      obtain ⟨h1, h2, h3, h4⟩ := dfaLabels_spec n s0 current (n.getLabels current) d1 frontier seen
        (fun _ h => h) hinv1 hpend1
      have hdone : Done n (n.dfaLabels current (n.getLabels current) d1 frontier seen).1 current := by
        refine ⟨?_, ?_, ?_⟩
        · intro c hc
          obtain ⟨T, hT⟩ := h4 _ hc
          exact ⟨current, T, hT, SEq.refl _⟩
        · intro hc
          obtain ⟨T, hT⟩ := h4 _ hc
          exact ⟨current, T, hT, SEq.refl _⟩
        · intro hf
          exact ⟨current, h3.2.2.1 _ (hfin1 hf), SEq.refl _⟩
      have hpend' : AllPending n s0 (n.dfaLabels current (n.getLabels current) d1 frontier seen).1
          (n.dfaLabels current (n.getLabels current) d1 frontier seen).2.1
          (n.dfaLabels current (n.getLabels current) d1 frontier seen).2.2 := by
        intro X hX
        rcases h2 X hX with h | h | h
        · exact Or.inl h
        · exact Or.inr h
        · exact Or.inr (hdone.congr h.symm)
      exact ih _ _ _ dfin h1 hpend' h

/-! ### The finished DFA simulates the NFA -/

theorem lookupTrans_some {d : DFA} {X T : SSet} {c : Nat} (h : d.lookupTrans X c = some T) :
    ∃ S, (S, c, T) ∈ d.trans ∧ SEq S X := by
  unfold DFA.lookupTrans at h
  cases hf : d.trans.find? (fun x => setEq x.1 X && x.2.1 == c) with
  | none => rw [hf] at h; cases h
  | some e =>
    rw [hf] at h
    simp only [Option.map_some, Option.some.injEq] at h
    have hm := List.mem_of_find?_eq_some hf
    have hp := List.find?_some hf
    simp only [Bool.and_eq_true, beq_iff_eq] at hp
    obtain ⟨S, c', T'⟩ := e
    simp only at h hp
    subst h
    obtain ⟨h1, rfl⟩ := hp
    exact ⟨S, hm, (setEq_iff _ _).mp h1⟩

theorem lookupTrans_none {d : DFA} {X : SSet} {c : Nat} (h : d.lookupTrans X c = none) :
    ∀ S T, (S, c, T) ∈ d.trans → ¬ SEq S X := by
  unfold DFA.lookupTrans at h
  simp only [Option.map_eq_none_iff] at h
  intro S T hm hs
  have := List.find?_eq_none.mp h (S, c, T) hm
  simp [(setEq_iff _ _).mpr hs] at this

theorem lookupDefault_some {d : DFA} {X T : SSet} (h : d.lookupDefault X = some T) :
    ∃ S, (S, T) ∈ d.defaults ∧ SEq S X := by
  unfold DFA.lookupDefault at h
  cases hf : d.defaults.find? (fun x => setEq x.1 X) with
  | none => rw [hf] at h; cases h
  | some e =>
    rw [hf] at h
    simp only [Option.map_some, Option.some.injEq] at h
    have hm := List.mem_of_find?_eq_some hf
    have hp := List.find?_some hf
    obtain ⟨S, T'⟩ := e
    simp only at h hp
    subst h
    exact ⟨S, hm, (setEq_iff _ _).mp hp⟩

theorem lookupDefault_none {d : DFA} {X : SSet} (h : d.lookupDefault X = none) :
    ∀ S T, (S, T) ∈ d.defaults → ¬ SEq S X := by
  unfold DFA.lookupDefault at h
  simp only [Option.map_eq_none_iff] at h
  intro S T hm hs
  have := List.find?_eq_none.mp h (S, T) hm
  simp [(setEq_iff _ _).mpr hs] at this

/-- A finished subset construction: all entries right, all known states processed. -/
structure Closed (n : NFA) (s0 : SSet) (d : DFA) (seen : List SSet) : Prop where
  inv : DInv n s0 d seen
  done : ∀ X, X ∈ s0 :: seen → Done n d X

/-- `X` is (set-equal to) a state the construction has met. -/
def Reach (s0 : SSet) (seen : List SSet) (X : SSet) : Prop := ∃ Y, Y ∈ s0 :: seen ∧ SEq Y X

theorem closed_not_label {n : NFA} {s0 : SSet} {d : DFA} {seen : List SSet} (hc : Closed n s0 d seen)
    {X : SSet} (hr : Reach s0 seen X) {c : Nat} (h : d.lookupTrans X c = none) :
    Label.chr c ∉ n.getLabels X := by
  intro hl
  obtain ⟨Y, hY, hYX⟩ := hr
  obtain ⟨S, T, he, hs⟩ := (hc.done Y hY).1 c ((getLabels_congr n hYX _).mpr hl)
  exact lookupTrans_none h S T he (hs.trans hYX)

theorem closed_next_some {n : NFA} {s0 : SSet} {d : DFA} {seen : List SSet} (hc : Closed n s0 d seen)
    {X T : SSet} (hr : Reach s0 seen X) {c : Nat} (h : d.nextState (some X) c = some T) :
    Reach s0 seen T ∧ SEq T (n.nextState X (.chr c)) ∧ ∃ t, t ∈ T := by
  unfold DFA.nextState at h
  simp only at h
  cases hl : d.lookupTrans X c with
  | some T' =>
    rw [hl] at h
    simp only [Option.some.injEq] at h
    subst h
    obtain ⟨S, he, hs⟩ := lookupTrans_some hl
    obtain ⟨h1, h2, Z, hZ, hZT⟩ := hc.inv.tr S c _ he
    refine ⟨⟨Z, List.mem_cons_of_mem _ hZ, hZT⟩, ?_, ?_⟩
    · rw [h1]; exact nextState_congr n _ hs
    · rw [h1]; exact nextState_nonempty n S _ h2
  | none =>
    rw [hl] at h
    simp only at h
    obtain ⟨S, he, hs⟩ := lookupDefault_some h
    obtain ⟨h1, h2, Z, hZ, hZT⟩ := hc.inv.df S T he
    refine ⟨⟨Z, List.mem_cons_of_mem _ hZ, hZT⟩, ?_, ?_⟩
    · have hnl := closed_not_label hc hr hl
      rw [h1]
      exact (nextState_congr n .any hs).trans (nextState_chr_eq_any n X c hnl).symm
    · rw [h1]; exact nextState_nonempty n S _ h2

theorem closed_next_none {n : NFA} {s0 : SSet} {d : DFA} {seen : List SSet} (hc : Closed n s0 d seen)
    {X : SSet} (hr : Reach s0 seen X) {c : Nat} (h : d.nextState (some X) c = none) :
    n.nextState X (.chr c) = [] := by
  unfold DFA.nextState at h
  simp only at h
  cases hl : d.lookupTrans X c with
  | some T' => rw [hl] at h; cases h
  | none =>
    rw [hl] at h
    simp only at h
    apply nextState_empty n X c (closed_not_label hc hr hl)
    intro hany
    obtain ⟨Y, hY, hYX⟩ := hr
    obtain ⟨S, T, he, hs⟩ := (hc.done Y hY).2.1 ((getLabels_congr n hYX _).mpr hany)
    exact lookupDefault_none h S T he (hs.trans hYX)

theorem closed_final {n : NFA} {s0 : SSet} {d : DFA} {seen : List SSet} (hc : Closed n s0 d seen)
    {X : SSet} (hr : Reach s0 seen X) : d.isFinal (some X) = n.isFinal X := by
  rw [Bool.eq_iff_iff]
  simp only [DFA.isFinal, List.any_eq_true]
  constructor
  · rintro ⟨F, hF, he⟩
    rw [← isFinal_congr n ((setEq_iff _ _).mp he)]
    exact hc.inv.fin F hF
  · intro hf
    obtain ⟨Y, hY, hYX⟩ := hr
    obtain ⟨F, hF, hFY⟩ := (hc.done Y hY).2.2 (by rw [isFinal_congr n hYX]; exact hf)
    exact ⟨F, hF, (setEq_iff _ _).mpr (hFY.trans hYX)⟩

theorem isFinal_foldl_empty (n : NFA) (u : List Nat) (S : SSet) (h : ∀ s, s ∉ S) :
    n.isFinal (u.foldl (fun s c => n.nextState s (.chr c)) S) = false := by
  induction u generalizing S with
  | nil =>
    simp only [List.foldl_nil]
    rw [Bool.eq_false_iff]; intro hf
    obtain ⟨s, hs, _⟩ := (isFinal_iff n S).mp hf
    exact h s hs
  | cons c u ih =>
    simp only [List.foldl_cons]
    apply ih
    rw [nextState_of_empty n S _ h]; simp

theorem isFinal_foldl_congr (n : NFA) (u : List Nat) {S S' : SSet} (h : SEq S S') :
    n.isFinal (u.foldl (fun s c => n.nextState s (.chr c)) S) =
      n.isFinal (u.foldl (fun s c => n.nextState s (.chr c)) S') := by
  induction u generalizing S S' with
  | nil => exact isFinal_congr n h
  | cons c u ih => simp only [List.foldl_cons]; exact ih (nextState_congr n _ h)

theorem closed_accept {n : NFA} {s0 : SSet} {d : DFA} {seen : List SSet} (hc : Closed n s0 d seen) :
    ∀ (u : List Nat) (X : SSet), Reach s0 seen X →
      d.accept (some X) u = n.isFinal (u.foldl (fun s c => n.nextState s (.chr c)) X) := by
  intro u
  induction u with
  | nil => intro X hr; simpa [DFA.accept] using closed_final hc hr
  | cons c u ih =>
    intro X hr
    simp only [DFA.accept, List.foldl_cons]
    cases hs : d.nextState (some X) c with
    | none =>
      simp only [DFA.truthy, DFA.isFinal, Bool.false_eq_true, if_false]
      rw [closed_next_none hc hr hs]
      exact (isFinal_foldl_empty n u [] (by simp)).symm
    | some T =>
      obtain ⟨hrT, hTe, t, ht⟩ := closed_next_some hc hr hs
      have htr : DFA.truthy (some T) = true := by
        cases T with
        | nil => cases ht
        | cons a l => rfl
      rw [if_pos htr, ih T hrT]
      exact isFinal_foldl_congr n u hTe

/-- When `to_dfa` ends, the result is a finished, correct subset construction. -/
theorem toDfa_closed (n : NFA) (d : DFA) (h : n.toDfa = some d) : ∃ seen, Closed n n.start d seen := by
  unfold toDfa at h
  obtain ⟨seen, hinv, hdone⟩ := dfaLoop_spec n n.start _ _ [n.start] [] d
    ⟨fun _ _ _ h' => (by cases h'), fun _ _ h' => (by cases h'), fun _ h' => (by cases h'), rfl,
     fun _ h' => (by cases h')⟩
    (fun X hX => Or.inl ⟨n.start, by simp, by
      have : X = n.start := by simpa using hX
      subst this; exact SEq.refl _⟩) h
  exact ⟨seen, hinv, hdone⟩

/-- **Subset construction**: when `to_dfa` ends (within the model's fuel) the DFA accepts exactly
    the strings the NFA accepts. -/
theorem toDfa_accept (n : NFA) (d : DFA) (h : n.toDfa = some d) (u : List Nat) :
    d.accept (some d.initial) u = n.accept u := by
  unfold toDfa at h
  obtain ⟨seen, hinv, hdone⟩ := dfaLoop_spec n n.start _ _ [n.start] [] d
    ⟨fun _ _ _ h' => (by cases h'), fun _ _ h' => (by cases h'), fun _ h' => (by cases h'), rfl,
     fun _ h' => (by cases h')⟩
    (fun X hX => Or.inl ⟨n.start, by simp, by
      have : X = n.start := by simpa using hX
      subst this; exact SEq.refl _⟩) h
  have hc : Closed n n.start d seen := ⟨hinv, hdone⟩
  rw [hinv.init]
  exact closed_accept hc u n.start ⟨n.start, by simp, SEq.refl _⟩

end NFA
end WM.Lev
