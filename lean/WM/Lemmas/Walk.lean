import WM.Model.Lev
/-! The term-cursor walk of `Automata.find_matches`: given a `next_valid_string` that returns the
least accepted string at or after its argument, the walk returns exactly the accepted terms of the
(sorted) lexicon. -/
namespace WM.Lev

theorem lexLt_iff (a b : List Nat) : lexLt a b = true ↔ a < b := by
  induction a generalizing b with
  | nil =>
    cases b with
    | nil => simp [lexLt]
    | cons y b => simp [lexLt]
  | cons x a ih =>
    cases b with
    | nil => simp [lexLt]
    | cons y b =>
      simp only [lexLt, Bool.or_eq_true, decide_eq_true_eq, Bool.and_eq_true, beq_iff_eq,
        List.cons_lt_cons_iff, ih]

theorem lexLe_iff (a b : List Nat) : lexLe a b = true ↔ a ≤ b := by
  unfold lexLe
  rw [Bool.not_eq_true', ← Bool.not_eq_true, lexLt_iff, List.not_lt]

theorem lt_snoc_zero (t : List Nat) : t < t ++ [0] := by
  induction t with
  | nil => exact List.nil_lt_cons _ _
  | cons a t ih => rw [List.cons_append, List.cons_lt_cons_iff]; exact Or.inr ⟨rfl, ih⟩

/-- Nothing lies strictly between `t` and `t ++ [0]` (`unull` is the smallest character). -/
theorem snoc_zero_le_of_lt (t x : List Nat) (h : t < x) : t ++ [0] ≤ x := by
  induction t generalizing x with
  | nil =>
    cases x with
    | nil => exact absurd h (List.lt_irrefl _)
    | cons y x =>
      rw [← List.not_lt, List.nil_append, List.cons_lt_cons_iff]
      rintro (h | ⟨_, h⟩)
      · omega
      · cases x <;> simp at h
  | cons a t ih =>
    cases x with
    | nil => simp at h
    | cons y x =>
      rw [List.cons_lt_cons_iff] at h
      rw [← List.not_lt, List.cons_append, List.cons_lt_cons_iff]
      rintro (h' | ⟨rfl, h'⟩)
      · rcases h with h | ⟨rfl, _⟩ <;> omega
      · rcases h with h | ⟨_, h⟩
        · omega
        · exact List.not_lt.mpr (ih x h) h'

theorem llt_of_lt_of_le {a b c : List Nat} (h1 : a < b) (h2 : b ≤ c) : a < c := by
  rw [← List.not_le]; intro h; exact List.not_le.mpr h1 (List.le_trans h2 h)

theorem snoc_zero_le_iff (t x : List Nat) : t ++ [0] ≤ x ↔ t < x :=
  ⟨fun h => llt_of_lt_of_le (lt_snoc_zero t) h, snoc_zero_le_of_lt t x⟩

/-- A real character: a Unicode scalar value - at most U+10FFFF (`sys.maxunicode`) and not a
    surrogate (UTF-8, the encoding of the term dictionary, cannot express U+D800..U+DFFF). -/
def Scalar (c : Nat) : Prop := c ≤ maxCodePoint ∧ (c < 0xD800 ∨ 0xDFFF < c)

theorem scalar_iff (c : Nat) : Scalar c ↔ isScalar c = true := by
  simp only [Scalar, isScalar, Bool.and_eq_true, decide_eq_true_eq, Bool.not_eq_true',
    Bool.and_eq_false_iff, decide_eq_false_iff_not]
  omega

instance (c : Nat) : Decidable (Scalar c) := by unfold Scalar; infer_instance

/-- A string of real characters: every code point is a scalar value. -/
def Valid (t : List Nat) : Prop := ∀ c, c ∈ t → Scalar c

theorem valid_snoc_zero {t : List Nat} (h : Valid t) : Valid (t ++ [0]) := by
  intro c hc
  rcases List.mem_append.mp hc with h1 | h1
  · exact h c h1
  · have : c = 0 := by simpa using h1
    subst this; exact ⟨Nat.zero_le _, Or.inl (by omega)⟩

/-- `nv` is a correct `next_valid_string` for the acceptance predicate `acc`: on every string (of
    real characters) it returns the least accepted string (of real characters) at or after its
    argument, `None` when there is none - and never fails.  That the returned string consists of
    real characters matters to the byte-level cursor (`cur.find(match)` encodes it as UTF-8). -/
def NextValidSpec (acc : List Nat → Bool) (nv : List Nat → Except Err (Option (List Nat))) : Prop :=
  ∀ s, Valid s → (nv s = .ok none ∧ ∀ t, Valid t → s ≤ t → acc t = false) ∨
    (∃ m, nv s = .ok (some m) ∧ acc m = true ∧ s ≤ m ∧ (∀ t, Valid t → s ≤ t → acc t = true → m ≤ t) ∧
      Valid m)

/-- A lexicon: strictly ascending in Python string order. -/
def SortedLex (lex : List (List Nat)) : Prop := lex.Pairwise (· < ·)

theorem find_spec (p : List Nat → Bool) (lex : List (List Nat)) (x : List Nat) (hs : SortedLex lex)
    (h : lex.find? p = some x) : x ∈ lex ∧ p x = true ∧ ∀ t, t ∈ lex → t < x → p t = false := by
  induction lex with
  | nil => cases h
  | cons a l ih =>
    rw [SortedLex, List.pairwise_cons] at hs
    rw [List.find?_cons] at h
    cases hp : p a with
    | true =>
      rw [hp] at h
      simp only [Option.some.injEq] at h
      subst h
      refine ⟨by simp, hp, ?_⟩
      intro t ht hlt
      rcases List.mem_cons.mp ht with rfl | ht
      · exact absurd hlt (List.lt_irrefl _)
      · exact absurd hlt (List.lt_asymm (hs.1 t ht))
    | false =>
      rw [hp] at h
      obtain ⟨h1, h2, h3⟩ := ih hs.2 h
      refine ⟨List.mem_cons_of_mem _ h1, h2, ?_⟩
      intro t ht hlt
      rcases List.mem_cons.mp ht with rfl | ht
      · exact hp
      · exact h3 t ht hlt

theorem filter_len_le {p q : List Nat → Bool} (h : ∀ s, p s = true → q s = true) (l : List (List Nat)) :
    (l.filter p).length ≤ (l.filter q).length := by
  induction l with
  | nil => simp
  | cons a l ih =>
    simp only [List.filter_cons]
    cases hp : p a <;> cases hq : q a <;> simp <;> first | omega | (have := h a hp; simp [hq] at this)

theorem filter_len_lt {p q : List Nat → Bool} (h : ∀ s, p s = true → q s = true) (l : List (List Nat))
    (x : List Nat) (hx : x ∈ l) (hq : q x = true) (hp : p x = false) :
    (l.filter p).length < (l.filter q).length := by
  induction l with
  | nil => cases hx
  | cons a l ih =>
    simp only [List.filter_cons]
    rcases List.mem_cons.mp hx with rfl | hx'
    · have := filter_len_le h l
      simp [hp, hq]; omega
    · have := ih hx'
      cases hpa : p a <;> cases hqa : q a <;> simp <;> first | omega | (have := h a hpa; simp [hqa] at this)

/-- Potential of the walk: twice the number of lexicon terms at or after `s`, plus one while `s`
    is not itself a term. -/
def potential (lex : List (List Nat)) (s : List Nat) : Nat :=
  2 * (lex.filter fun t => decide (s ≤ t)).length + (if s ∈ lex then 0 else 1)

theorem filter_eq_nil_of (lex : List (List Nat)) (p : List Nat → Bool) (h : ∀ t, t ∈ lex → p t = false) :
    lex.filter p = [] := by
  rw [List.filter_eq_nil_iff]
  intro t ht; simp [h t ht]

theorem filter_yield (acc : List Nat → Bool) (s m : List Nat) (hacc : acc m = true) (hsm : s ≤ m)
    (hmin : ∀ t, Valid t → s ≤ t → acc t = true → m ≤ t) :
    ∀ (lex : List (List Nat)), (∀ t, t ∈ lex → Valid t) → SortedLex lex → m ∈ lex →
      lex.filter (fun t => decide (s ≤ t) && acc t) =
        m :: lex.filter (fun t => decide (m ++ [0] ≤ t) && acc t) := by
  intro lex
  induction lex with
  | nil => intro _ _ h; cases h
  | cons a l ih =>
    intro hv hs hm
    rw [SortedLex, List.pairwise_cons] at hs
    by_cases ham : a = m
    · subst ham
      have h1 : (decide (s ≤ a) && acc a) = true := by simp [hsm, hacc]
      have h2 : (decide (a ++ [0] ≤ a) && acc a) = false := by
        have : ¬ (a ++ [0] ≤ a) := List.not_le.mpr (lt_snoc_zero a)
        simp [this]
      rw [List.filter_cons, if_pos h1, List.filter_cons, h2]
      simp only [Bool.false_eq_true, if_false, List.cons.injEq, true_and]
      apply List.filter_congr
      intro t ht
      have hlt := hs.1 t ht
      have e1 : s ≤ t := List.le_trans hsm (List.le_of_lt hlt)
      have e2 : a ++ [0] ≤ t := snoc_zero_le_of_lt a t hlt
      simp [e1, e2]
    · have hml : m ∈ l := by
        rcases List.mem_cons.mp hm with h | h
        · exact absurd h.symm ham
        · exact h
      have halt : a < m := hs.1 m hml
      have h1 : (decide (s ≤ a) && acc a) = false := by
        by_cases hsa : s ≤ a
        · cases haa : acc a with
          | false => simp
          | true => exact absurd (hmin a (hv a (by simp)) hsa haa) (List.not_le.mpr halt)
        · simp [hsa]
      have h2 : (decide (m ++ [0] ≤ a) && acc a) = false := by
        have : ¬ (m ++ [0] ≤ a) := by
          intro h
          exact List.lt_asymm halt ((snoc_zero_le_iff m a).mp h)
        simp [this]
      rw [List.filter_cons, h1, List.filter_cons (xs := l), h2]
      simp only [Bool.false_eq_true, if_false]
      exact ih (fun t ht => hv t (List.mem_cons_of_mem _ ht)) hs.2 hml

theorem filter_skip (acc : List Nat → Bool) (s m term : List Nat) (lex : List (List Nat))
    (hv : ∀ t, t ∈ lex → Valid t)
    (hsm : s ≤ m) (hmt : m ≤ term) (hmin : ∀ t, Valid t → s ≤ t → acc t = true → m ≤ t)
    (hbefore : ∀ t, t ∈ lex → t < term → ¬ m ≤ t) :
    lex.filter (fun t => decide (s ≤ t) && acc t) =
      lex.filter (fun t => decide (term ≤ t) && acc t) := by
  apply List.filter_congr
  intro t ht
  by_cases htt : term ≤ t
  · have : s ≤ t := List.le_trans hsm (List.le_trans hmt htt)
    simp [htt, this]
  · have hlt : t < term := List.not_le.mp htt
    have hnm := hbefore t ht hlt
    have : (decide (s ≤ t) && acc t) = false := by
      by_cases hst : s ≤ t
      · cases hat : acc t with
        | false => simp
        | true => exact absurd (hmin t (hv t ht) hst hat) hnm
      · simp [hst]
    simp [this, htt]

theorem potential_yield (lex : List (List Nat)) (s m : List Nat) (hm : m ∈ lex) (hsm : s ≤ m) :
    potential lex (m ++ [0]) < potential lex s := by
  unfold potential
  have hlt : (lex.filter fun t => decide (m ++ [0] ≤ t)).length <
      (lex.filter fun t => decide (s ≤ t)).length := by
    apply filter_len_lt _ lex m hm
    · simpa using hsm
    · simpa using List.not_le.mpr (lt_snoc_zero m)
    · intro t ht
      simp only [decide_eq_true_eq] at ht ⊢
      exact List.le_trans hsm (List.le_of_lt ((snoc_zero_le_iff m t).mp ht))
  split <;> split <;> omega

theorem potential_skip (lex : List (List Nat)) (s m term : List Nat) (hterm : term ∈ lex)
    (hsm : s ≤ m) (hmt : m ≤ term) (hne : m ≠ term) :
    potential lex term < potential lex s := by
  unfold potential
  have hslt : s < term := by
    rcases List.le_iff_lt_or_eq.mp hmt with h | h
    · rw [← List.not_le]; intro hc
      exact List.not_le.mpr h (List.le_trans hc hsm)
    · exact absurd h hne
  have hle : (lex.filter fun t => decide (term ≤ t)).length ≤
      (lex.filter fun t => decide (s ≤ t)).length := by
    apply filter_len_le
    intro t ht
    simp only [decide_eq_true_eq] at ht ⊢
    exact List.le_trans (List.le_of_lt hslt) ht
  rw [if_pos hterm]
  split
  · next hsl =>
    have : (lex.filter fun t => decide (term ≤ t)).length <
        (lex.filter fun t => decide (s ≤ t)).length := by
      apply filter_len_lt _ lex s hsl
      · simp
      · simpa using List.not_le.mpr hslt
      · intro t ht
        simp only [decide_eq_true_eq] at ht ⊢
        exact List.le_trans (List.le_of_lt hslt) ht
    omega
  · omega

theorem findLoop_spec (acc : List Nat → Bool) (nv : List Nat → Except Err (Option (List Nat)))
    (hnv : NextValidSpec acc nv) (lex : List (List Nat)) (hv : ∀ t, t ∈ lex → Valid t)
    (hs : SortedLex lex) :
    ∀ (fuel : Nat) (s : List Nat) (r : Option (List Nat)), Valid s → nv s = .ok r →
      potential lex s < fuel →
      findLoop nv lex fuel r = .ok (lex.filter fun t => decide (s ≤ t) && acc t) := by
  intro fuel
  induction fuel with
  | zero => intro s r _ _ h; omega
  | succ fuel ih =>
    intro s r hvs hr hpot
    rcases hnv s hvs with ⟨hnone, hno⟩ | ⟨m, hsome, hacc, hsm, hmin, _⟩
    · -- no accepted string at or after s
      rw [hr] at hnone
      simp only [Except.ok.injEq] at hnone
      subst hnone
      rw [findLoop, filter_eq_nil_of]
      intro t ht
      by_cases h : s ≤ t
      · simp [hno t (hv t ht) h]
      · simp [h]
    · rw [hr] at hsome
      simp only [Except.ok.injEq] at hsome
      subst hsome
      rw [findLoop]
      cases hf : cursorFind lex m with
      | none =>
        -- every term of the lexicon is before the next match
        simp only
        rw [filter_eq_nil_of]
        intro t ht
        have hnf := List.find?_eq_none.mp hf t ht
        by_cases h : s ≤ t
        · cases hat : acc t with
          | false => simp
          | true =>
            have := hmin t (hv t ht) h hat
            rw [← lexLe_iff] at this
            simp [this] at hnf
        · simp [h]
      | some term =>
        obtain ⟨hmem, hle, hbefore⟩ := find_spec _ lex term hs hf
        rw [lexLe_iff] at hle
        simp only
        by_cases hmt : m = term
        · -- the match is a term: yield it, continue behind it
          subst hmt
          rw [if_pos rfl]
          have hp := potential_yield lex s m hmem hsm
          have hvm : Valid (m ++ [0]) := valid_snoc_zero (hv m hmem)
          obtain ⟨r2, hr2⟩ : ∃ r2, nv (m ++ [0]) = .ok r2 := by
            rcases hnv (m ++ [0]) hvm with ⟨h, _⟩ | ⟨m2, h, _⟩
            · exact ⟨_, h⟩
            · exact ⟨_, h⟩
          rw [hr2]
          simp only
          rw [ih (m ++ [0]) r2 hvm hr2 (by omega), filter_yield acc s m hacc hsm hmin lex hv hs hmem]
          rfl
        · -- the cursor landed behind the match: ask for the next match from there
          rw [if_neg hmt]
          have hp := potential_skip lex s m term hmem hsm hle hmt
          obtain ⟨r2, hr2⟩ : ∃ r2, nv term = .ok r2 := by
            rcases hnv term (hv term hmem) with ⟨h, _⟩ | ⟨m2, h, _⟩
            · exact ⟨_, h⟩
            · exact ⟨_, h⟩
          rw [hr2]
          simp only
          rw [ih term r2 (hv term hmem) hr2 (by omega)]
          congr 1
          refine (filter_skip acc s m term lex hv hsm hle hmin ?_).symm
          intro t ht hlt hmle
          have := hbefore t ht hlt
          rw [← lexLe_iff] at hmle
          simp [hmle] at this

/-- **The walk is exact**: with a correct `next_valid_string`, `find_matches` over a sorted
    lexicon yields exactly the accepted terms, in lexicon order, and terminates within its fuel. -/
theorem findMatches_spec (acc : List Nat → Bool) (nv : List Nat → Except Err (Option (List Nat)))
    (hnv : NextValidSpec acc nv) (lex : List (List Nat)) (hv : ∀ t, t ∈ lex → Valid t)
    (hs : SortedLex lex) :
    findMatches nv lex = .ok (lex.filter acc) := by
  unfold findMatches
  cases lex with
  | nil => rfl
  | cons t0 l =>
    simp only [List.head?_cons]
    have hv0 : Valid t0 := hv t0 (by simp)
    obtain ⟨r, hr⟩ : ∃ r, nv t0 = .ok r := by
      rcases hnv t0 hv0 with ⟨h, _⟩ | ⟨m2, h, _⟩
      · exact ⟨_, h⟩
      · exact ⟨_, h⟩
    rw [hr]
    simp only
    rw [findLoop_spec acc nv hnv (t0 :: l) hv hs _ t0 r hv0 hr]
    · congr 1
      apply List.filter_congr
      intro t ht
      have : t0 ≤ t := by
        rcases List.mem_cons.mp ht with rfl | h
        · exact List.le_refl _
        · rw [SortedLex, List.pairwise_cons] at hs
          exact List.le_of_lt (hs.1 t h)
      simp [this]
    · unfold potential
      have : ((t0 :: l).filter fun t => decide (t0 ≤ t)).length ≤ (t0 :: l).length :=
        List.length_filter_le _ _
      simp only [List.mem_cons, true_or, if_true]
      simp only [List.length_cons] at this ⊢
      omega

end WM.Lev
