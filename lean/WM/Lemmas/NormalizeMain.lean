import WM.Lemmas.NormalizeCompSat
/-! Shape of `normalize`'s results and the main induction for `sat (normalize q) = sat q`. -/
namespace WM.Normalize
open WM.Sat WM.Clean

/-! ### Results of `normalize` are in the shape `NF` -/

theorem mergeLoop_NF (i : Bool) (ef : List (Option Field)) (l : List Q) (h : NFList l = true) :
    NFList (mergeLoop i ef l).1 = true := by
  fun_induction mergeLoop i ef l with
  | case1 ef => rfl
  | case2 ef q rest hc ih =>
    simp only [NFList, Bool.and_eq_true] at h
    exact ih h.2
  | case3 ef q rest hc r hr p q' ef' res ih =>
    simp only [NFList, Bool.and_eq_true] at h
    have hp2 : NFList p.2 = true := by
      rw [NFList_iff]
      intro x hx
      exact (NFList_iff rest).mp h.2 x (absorb_mem i r rest x hx)
    simp only [NFList, Bool.and_eq_true]
    exact ⟨NF_rngNormalize _, ih hp2⟩
  | case4 ef q rest hc hr ef' res ih =>
    simp only [NFList, Bool.and_eq_true] at h ⊢
    exact ⟨h.1, ih h.2⟩

theorem finish_NF (k : CK) (l : List Q) (b : Rat) (h : NFList l = true) : NF (finish k l b) = true := by
  unfold finish
  match l with
  | [] => rfl
  | [sub] =>
    simp only [NFList, Bool.and_true] at h
    simp only
    split
    · exact h
    · exact NF_withBoost _ _ h
  | x :: y :: rest =>
    simp only [NF, Bool.and_eq_true, decide_eq_true_eq]
    exact ⟨by simp, h⟩

theorem compTail_NF (k : CK) (l : List Q) (b : Rat) (h : NFList l = true) : NF (compTail k l b) = true := by
  unfold compTail
  apply finish_NF
  apply NFList_filter
  rw [NFList_iff]
  intro x hx
  exact (NFList_iff _).mp (mergeLoop_NF _ _ l h) x (dedupe_mem _ _ _ x hx)

theorem compNormalize_NF (k : CK) (subs : List Q) (b : Rat) (h : NFList subs = true) :
    NF (compNormalize k subs b) = true := by
  unfold compNormalize
  have hf := flatten_NF k subs h
  generalize flatten k subs = l at hf
  simp only
  by_cases h1 : l.all Q.isNull = true
  · rw [if_pos h1]; rfl
  rw [if_neg h1]
  by_cases h2 : (l.any Q.isEveryAll && !k.intersect) = true
  · rw [if_pos h2]; rfl
  rw [if_neg h2]
  have hl2 : NFList (if l.any Q.isEveryAll = true then l.filter (fun q => !q.isEveryAll) else l) = true := by
    split
    · exact NFList_filter _ _ hf
    · exact hf
  generalize (if l.any Q.isEveryAll = true then l.filter (fun q => !q.isEveryAll) else l) = l2 at hl2
  by_cases h3 : (l.any Q.isEveryAll && l2.all Q.isNull) = true
  · rw [if_pos h3]; rfl
  rw [if_neg h3]
  exact compTail_NF k l2 b hl2

theorem binNormalize_NF (k : BK) (a b : Q) (ha : NF a = true) (hb : NF b = true) :
    NF (binNormalize k a b) = true := by
  unfold binNormalize
  cases k <;> simp only <;> repeat' split
  all_goals first | rfl | exact ha | exact hb

theorem wildNormalize_NF (f : Field) (t : Text) (b : Rat) (c : Bool) : NF (wildNormalize f t b c) = true := by
  unfold wildNormalize
  repeat' split
  all_goals rfl

theorem phraseNormalize_NF (f : Field) (ws : List Text) (s : Nat) (b : Rat) :
    NF (phraseNormalize f ws s b) = true := by
  unfold phraseNormalize
  split <;> rfl

mutual
theorem normalize_NF : ∀ (q : Q), NF (normalize q) = true
  | .null => rfl
  | .every _ _ => rfl
  | .term _ _ _ => rfl
  | .pre _ _ _ _ => rfl
  | .wild f t b c => by simp only [normalize]; exact wildNormalize_NF f t b c
  | .multi _ _ _ _ _ => rfl
  | .range f lo hi lx hx b c => by simp only [normalize]; exact NF_rngNormalize _
  | .phrase f ws s b => by simp only [normalize]; exact phraseNormalize_NF f ws s b
  | .comp k qs b => by simp only [normalize]; exact compNormalize_NF k _ b (normalizeList_NF qs)
  | .seq _ _ _ _ _ => by simp only [normalize]; rfl
  | .not q b => by
    simp only [normalize]
    split <;> rfl
  | .bin k a b => by
    simp only [normalize]
    exact binNormalize_NF k _ _ (normalize_NF a) (normalize_NF b)
  | .const _ _ => rfl
  | .opq _ _ => rfl
theorem normalizeList_NF : ∀ (qs : List Q), NFList (normalizeList qs) = true
  | [] => rfl
  | q :: qs => by
    simp only [normalizeList, NFList, Bool.and_eq_true]
    exact ⟨normalize_NF q, normalizeList_NF qs⟩
end

/-! ### The main induction -/

theorem normalizeList_isEmpty (qs : List Q) : (normalizeList qs).isEmpty = qs.isEmpty := by
  cases qs <;> rfl

/-- Hypothesis about the empty term: the tree has no exclusive open start where it matters
    (`WM.Clean.emptyOk`), or no document of the index holds the empty term. -/
def EOk (env : Env) (q : Q) : Prop := emptyOk q = true ∨ ∀ d ∈ env.index, d.NoEmpty
def EOkList (env : Env) (qs : List Q) : Prop := emptyOkList qs = true ∨ ∀ d ∈ env.index, d.NoEmpty

theorem LOk_of_all_rangeOk {d : Doc} {l : List Q} (h : l.all rangeOk = true) : LOk d l := by
  intro s hs r hr
  have := List.all_eq_true.mp h s hs
  unfold rangeOk at this
  rw [hr] at this
  simp only at this
  left
  unfold Rng.openExcl
  cases h : (r.lox && (r.lo == none || r.lo == some []))
  · rfl
  · rw [h] at this; exact absurd this (by simp)

mutual
theorem normalize_sat_aux (env : Env) (hidx : ∀ d ∈ env.index, d.BelowMax) :
    ∀ (q : Q), clean q = true → EOk env q → ∀ d ∈ env.index, sat env (normalize q) d = sat env q d
  | .null, _, _, _, _ => rfl
  | .every _ _, _, _, _, _ => rfl
  | .term _ _ _, _, _, _, _ => rfl
  | .pre _ _ _ _, _, _, _, _ => rfl
  | .wild f t b c, _, _, d, hd => by
    simp only [normalize]; exact wildNormalize_sat env f t b c d
  | .multi _ _ _ _ _, _, _, _, _ => rfl
  | .range f lo hi lx hx b c, _, he, d, hd => by
    simp only [normalize]
    refine rngNormalize_sat env _ d (hidx d hd) ?_
    rcases he with he | he
    · left
      simp only [emptyOk] at he
      unfold Rng.openExcl
      simp only
      cases h : (lx && (lo == none || lo == some []))
      · rfl
      · rw [h] at he; exact absurd he (by simp)
    · exact Or.inr (he d hd)
  | .phrase f ws s b, _, _, d, _ => by
    simp only [normalize]; exact phraseNormalize_sat env f ws s b d
  | .comp k qs b, hc, he, d, hd => by
    simp only [clean, Bool.and_eq_true, Bool.or_eq_true, bne_iff_ne, ne_eq] at hc
    obtain ⟨hcl, hk⟩ := hc
    have hel : EOkList env qs := by
      rcases he with he | he
      · simp only [emptyOk, Bool.and_eq_true] at he; exact Or.inl he.1
      · exact Or.inr he
    have hlok : LOk d (flatten k (normalizeList qs)) := by
      rcases he with he | he
      · simp only [emptyOk, Bool.and_eq_true] at he; exact LOk_of_all_rangeOk he.2
      · exact LOk.of_noEmpty (he d hd) _
    simp only [normalize]
    rw [compNormalize_sat env k _ b d (hidx d hd) hlok (normalizeList_NF qs), sat_comp]
    · have h1 := normalizeList_sat_aux env hidx qs hcl hel d hd
      cases k <;> simp only [den, normalizeList_isEmpty, h1.1, h1.2]
    · intro hkand
      rcases hk with hk | hk
      · exact absurd hkand hk
      · exact ⟨hk.1.1, hk.1.2, hk.2⟩
  | .seq c qs s o b, hc, _, d, _ => by
    simp only [clean, beq_iff_eq] at hc
    simp only [normalize, hc]
  | .not q b, hc, he, d, hd => by
    simp only [clean, Bool.and_eq_true, Bool.not_eq_true'] at hc
    have heq : EOk env q := by
      rcases he with he | he
      · simp only [emptyOk] at he; exact Or.inl he
      · exact Or.inr he
    simp only [normalize, hc.2, Bool.false_eq_true, ↓reduceIte, sat]
    rw [normalize_sat_aux env hidx q hc.1 heq d hd]
  | .bin k a b, hc, he, d, hd => by
    simp only [clean, Bool.and_eq_true] at hc
    have hea : EOk env a ∧ EOk env b := by
      rcases he with he | he
      · simp only [emptyOk, Bool.and_eq_true] at he; exact ⟨Or.inl he.1, Or.inl he.2⟩
      · exact ⟨Or.inr he, Or.inr he⟩
    have iha := normalize_sat_aux env hidx a hc.1 hea.1
    have ihb := normalize_sat_aux env hidx b hc.2 hea.2
    have hnull : ∀ x : Q, x.isNull = true → ∀ d', sat env x d' = false := by
      intro x hx d'
      cases x <;> simp [Q.isNull] at hx
      rfl
    have hany : env.index.any (sat env (normalize a)) = env.index.any (sat env a) := by
      rw [Bool.eq_iff_iff]
      simp only [List.any_eq_true]
      constructor
      · rintro ⟨x, hx, hs⟩; exact ⟨x, hx, by rw [← iha x hx]; exact hs⟩
      · rintro ⟨x, hx, hs⟩; exact ⟨x, hx, by rw [iha x hx]; exact hs⟩
    simp only [normalize]
    unfold binNormalize
    cases k <;> simp only
    · -- andnot
      split
      · rename_i hn
        have := hnull _ hn d
        rw [iha d hd] at this
        simp [sat, this]
      · split
        · rename_i hn
          have := hnull _ hn d
          rw [ihb d hd] at this
          simp [sat, this, iha d hd]
        · simp [sat, iha d hd, ihb d hd]
    · -- andmaybe
      split
      · rename_i hn
        have := hnull _ hn d
        rw [iha d hd] at this
        simp [sat, this]
      · split
        · simp [sat, iha d hd]
        · simp [sat, iha d hd]
    · -- require
      split
      · rename_i hn
        simp only [Bool.or_eq_true] at hn
        rcases hn with hn | hn
        · have := hnull _ hn d
          rw [iha d hd] at this
          simp [sat, this]
        · have := hnull _ hn d
          rw [ihb d hd] at this
          simp [sat, this]
      · simp [sat, iha d hd, ihb d hd]
    · -- otherwise
      split
      · rename_i hn
        simp only [Bool.and_eq_true] at hn
        have h1 := hnull _ hn.1
        have h2 := hnull _ hn.2 d
        rw [ihb d hd] at h2
        have hno : env.index.any (sat env a) = false := by
          rw [← hany, Bool.eq_false_iff]
          intro hc'
          obtain ⟨x, _, hx⟩ := List.any_eq_true.mp hc'
          rw [h1 x] at hx
          exact absurd hx (by simp)
        simp [sat, hno, h2]
      · split
        · rename_i hn
          have h1 := hnull _ hn
          have hno : env.index.any (sat env a) = false := by
            rw [← hany, Bool.eq_false_iff]
            intro hc'
            obtain ⟨x, _, hx⟩ := List.any_eq_true.mp hc'
            rw [h1 x] at hx
            exact absurd hx (by simp)
          simp [sat, hno, ihb d hd]
        · split
          · rename_i hn
            have h2 := hnull _ hn d
            rw [ihb d hd] at h2
            simp only [sat, h2, iha d hd]
            split
            · rfl
            · rename_i hno
              have hno' : env.index.any (sat env a) = false := by simpa using hno
              have := List.any_eq_false.mp hno' d hd
              simpa using this
          · simp only [sat, hany, iha d hd, ihb d hd]
  | .const _ _, _, _, _, _ => rfl
  | .opq _ _, _, _, _, _ => rfl
theorem normalizeList_sat_aux (env : Env) (hidx : ∀ d ∈ env.index, d.BelowMax) :
    ∀ (qs : List Q), cleanList qs = true → EOkList env qs → ∀ d ∈ env.index,
      satAll env (normalizeList qs) d = satAll env qs d ∧ satAny env (normalizeList qs) d = satAny env qs d
  | [], _, _, _, _ => ⟨rfl, rfl⟩
  | q :: qs, hc, he, d, hd => by
    simp only [cleanList, Bool.and_eq_true] at hc
    have heq : EOk env q ∧ EOkList env qs := by
      rcases he with he | he
      · simp only [emptyOkList, Bool.and_eq_true] at he; exact ⟨Or.inl he.1, Or.inl he.2⟩
      · exact ⟨Or.inr he, Or.inr he⟩
    have h1 := normalize_sat_aux env hidx q hc.1 heq.1 d hd
    have h2 := normalizeList_sat_aux env hidx qs hc.2 heq.2 d hd
    simp only [normalizeList, satAll, satAny, h1, h2.1, h2.2, and_self]
end

end WM.Normalize
