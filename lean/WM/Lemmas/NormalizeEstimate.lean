import WM.Lemmas.NormalizeSimplify
/-! `estimate_size(ixreader)` is never below the number of matching documents. -/
namespace WM.Normalize
open WM.Sat WM.Clean

/-- Number of documents of the index that satisfy a predicate. -/
def cnt (docs : List Doc) (p : Doc → Bool) : Nat := (docs.filter p).length

theorem cnt_le_length (docs : List Doc) (p : Doc → Bool) : cnt docs p ≤ docs.length :=
  List.length_filter_le _ _

theorem cnt_mono (docs : List Doc) (p q : Doc → Bool) (h : ∀ d ∈ docs, p d = true → q d = true) :
    cnt docs p ≤ cnt docs q := by
  induction docs with
  | nil => simp [cnt]
  | cons d ds ih =>
    have ih := ih (fun x hx => h x (List.mem_cons_of_mem _ hx))
    simp only [cnt, List.filter_cons] at ih ⊢
    cases hp : p d
    · simp only [Bool.false_eq_true, ↓reduceIte]
      split
      · simp only [List.length_cons]; omega
      · exact ih
    · have := h d (List.mem_cons_self ..) hp
      simp only [this, ↓reduceIte, List.length_cons]
      omega

theorem cnt_or (docs : List Doc) (p q : Doc → Bool) :
    cnt docs (fun d => p d || q d) ≤ cnt docs p + cnt docs q := by
  induction docs with
  | nil => simp [cnt]
  | cons d ds ih =>
    simp only [cnt, List.filter_cons] at ih ⊢
    cases p d <;> cases q d <;> simp <;> omega

theorem cnt_false (docs : List Doc) : cnt docs (fun _ => false) = 0 := by
  simp [cnt]

/-- Union bound: documents holding some term of `ts` (in field `f`) are at most the sum of the
    document frequencies. -/
theorem cnt_le_append (docs dead : List Doc) (p : Doc → Bool) : cnt docs p ≤ cnt (docs ++ dead) p := by
  simp only [cnt, List.filter_append, List.length_append]
  omega

/-- The live documents holding `t` are at most `doc_frequency(f, t)` (which also counts deleted ones). -/
theorem cnt_le_df (rd : Reader) (f : Field) (t : Text) :
    cnt rd.docs (fun d => (d.toks f).contains t) ≤ rd.df f t :=
  cnt_le_append rd.docs rd.dead _

theorem cnt_any_le_sum (rd : Reader) (f : Field) (ts : List Text) :
    cnt rd.docs (fun d => ts.any fun t => (d.toks f).contains t) ≤ (ts.map (rd.df f)).sum := by
  induction ts with
  | nil => simp [cnt]
  | cons t ts ih =>
    simp only [List.any_cons, List.map_cons, List.sum_cons]
    have := cnt_or rd.docs (fun d => (d.toks f).contains t) (fun d => ts.any fun t => (d.toks f).contains t)
    have hdf := cnt_le_df rd f t
    omega

theorem le_minList {c : Nat} : ∀ {l : List Nat} {m : Nat}, (∀ x ∈ l, c ≤ x) → minList l = some m → c ≤ m
  | [], _, _, h => by simp [minList] at h
  | x :: xs, m, hall, h => by
    simp only [minList, Option.some.injEq] at h
    subst h
    have hx : c ≤ x := hall x (List.mem_cons_self ..)
    have hxs : ∀ y ∈ xs, c ≤ y := fun y hy => hall y (List.mem_cons_of_mem _ hy)
    clear hall
    induction xs generalizing x with
    | nil => simpa using hx
    | cons y ys ih =>
      simp only [List.foldl_cons]
      apply ih
      · exact Nat.le_min.mpr ⟨hx, hxs y (List.mem_cons_self ..)⟩
      · exact fun z hz => hxs z (List.mem_cons_of_mem _ hz)

theorem chainFrom_mem (toks : List Text) (slop : Nat) : ∀ (ws : List Text) (p : Nat),
    chainFrom toks slop p ws = true → ∀ w ∈ ws, w ∈ toks
  | [], _, _, w, hw => by simp at hw
  | v :: vs, p, h, w, hw => by
    simp only [chainFrom, List.any_eq_true, List.mem_range, Bool.and_eq_true, beq_iff_eq] at h
    obtain ⟨k, _, hk, hrest⟩ := h
    rcases List.mem_cons.mp hw with rfl | hw
    · exact List.mem_of_getElem? hk
    · exact chainFrom_mem toks slop vs _ hrest w hw

theorem phraseMatch_mem (toks : List Text) (slop : Nat) (ws : List Text)
    (h : phraseMatch toks slop ws = true) : ∀ w ∈ ws, w ∈ toks := by
  cases ws with
  | nil => simp [phraseMatch] at h
  | cons v vs =>
    simp only [phraseMatch, List.any_eq_true, List.mem_range, Bool.and_eq_true, beq_iff_eq] at h
    obtain ⟨p, _, hp, hrest⟩ := h
    intro w hw
    rcases List.mem_cons.mp hw with rfl | hw
    · exact List.mem_of_getElem? hp
    · exact chainFrom_mem toks slop vs p hrest w hw

/-- Leaves that expand to lexicon terms: every matching document holds a lexicon term with `P'`. -/
theorem leaf_estimate (env : Env) (rd : Reader) (hdocs : rd.docs = env.index) (hrd : ReaderOk env rd)
    (q : Q) (f : Field) (P' : Text → Bool)
    (hbt : btexts env.multi env.bracket rd q = (rd.lexicon f).filter P')
    (hsat : ∀ d, sat env q d = true → ∃ x ∈ d.toks f, P' x = true) :
    cnt env.index (sat env q) ≤ ((btexts env.multi env.bracket rd q).map (rd.df f)).sum := by
  refine Nat.le_trans ?_ (hdocs ▸ cnt_any_le_sum rd f _)
  apply cnt_mono
  intro d hd hs
  obtain ⟨x, hx, hP⟩ := hsat d hs
  rw [hbt, List.any_eq_true]
  exact ⟨x, List.mem_filter.mpr ⟨(hrd d hd f x hx).1, hP⟩, by simpa using hx⟩

theorem hasField_exists {d : Doc} {f : Field} (h : hasField d f = true) : ∃ x, x ∈ d.toks f := by
  unfold hasField at h
  cases hd : d.toks f with
  | nil => simp [hd] at h
  | cons x xs => exact ⟨x, List.mem_cons_self ..⟩

mutual
theorem estimate_ge_aux (env : Env) (rd : Reader) (hdocs : rd.docs = env.index) (hrd : ReaderOk env rd) :
    ∀ (q : Q) (n : Nat), estimate env.multi env.bracket rd q = some n → cnt env.index (sat env q) ≤ n
  | .null, n, h => by
    simp only [estimate, Option.some.injEq] at h
    subst h
    simp [cnt, sat]
  | .every _ _, n, h => by
    simp only [estimate, Option.some.injEq, Reader.docCount, hdocs] at h
    subst h
    exact cnt_le_length _ _
  | .term f t bo, n, h => by
    simp only [estimate, Option.some.injEq] at h
    subst h
    split
    · have := cnt_le_df rd f t
      rw [hdocs] at this
      simpa only [sat] using this
    · rename_i hf
      have : cnt env.index (sat env (.term f t bo)) = 0 := by
        simp only [cnt, List.length_eq_zero_iff, List.filter_eq_nil_iff, sat]
        intro d hd hc
        have hm : t ∈ d.toks f := by simpa using hc
        exact hf (hrd d hd f t hm).2
      omega
  | .pre f t b c, n, h => by
    simp only [estimate, Option.some.injEq] at h
    subst h
    apply leaf_estimate env rd hdocs hrd _ f (fun x => t.isPrefixOf x) rfl
    intro d hs
    simp only [sat] at hs
    split at hs
    · rename_i ht
      subst ht
      obtain ⟨x, hx⟩ := hasField_exists hs
      exact ⟨x, hx, by simp⟩
    · simp only [List.any_eq_true] at hs
      obtain ⟨x, hx, hP⟩ := hs
      exact ⟨x, hx, hP⟩
  | .wild f t b c, n, h => by
    simp only [estimate, Option.some.injEq] at h
    subst h
    apply leaf_estimate env rd hdocs hrd _ f (fun x => gmatch (parseGlob env.bracket t) x) rfl
    intro d hs
    simp only [sat] at hs
    split at hs
    · rename_i ht
      subst ht
      obtain ⟨x, hx⟩ := hasField_exists hs
      exact ⟨x, hx, by rw [parseGlob_star]; exact gmatch_star x⟩
    · simp only [List.any_eq_true] at hs
      obtain ⟨x, hx, hP⟩ := hs
      exact ⟨x, hx, hP⟩
  | .multi k f t key b, n, h => by
    simp only [estimate, Option.some.injEq] at h
    subst h
    apply leaf_estimate env rd hdocs hrd _ f (fun x => env.multi k f t key x) rfl
    intro d hs
    simp only [sat, List.any_eq_true] at hs
    obtain ⟨x, hx, hP⟩ := hs
    exact ⟨x, hx, hP⟩
  | .range f lo hi lx hx b c, n, h => by
    simp only [estimate, Option.some.injEq] at h
    subst h
    apply leaf_estimate env rd hdocs hrd _ f (fun x => inRangeQ lo hi lx hx x) rfl
    intro d hs
    simp only [sat, List.any_eq_true] at hs
    exact hs
  | .phrase f ws slop bo, n, h => by
    simp only [estimate] at h
    by_cases hw0 : ws.isEmpty = true
    · simp only [hw0, if_true, Option.some.injEq] at h
      subst h
      have hnil : ws = [] := by simpa using hw0
      have : cnt env.index (sat env (.phrase f ws slop bo)) = 0 := by
        simp only [cnt, List.length_eq_zero_iff, List.filter_eq_nil_iff, sat, hnil, phraseMatch]
        intro d _ hc
        simp at hc
      omega
    simp only [hw0, Bool.false_eq_true, if_false] at h
    apply le_minList _ h
    intro v hv
    obtain ⟨w, hw, rfl⟩ := List.mem_map.mp hv
    split
    · have : cnt env.index (sat env (.phrase f ws slop bo)) ≤ cnt env.index (fun d => (d.toks f).contains w) := by
        apply cnt_mono
        intro d _ hs
        simp only [sat] at hs
        simpa using phraseMatch_mem _ _ _ hs w hw
      exact Nat.le_trans this (hdocs ▸ cnt_le_df rd f w)
    · rename_i hf
      have : cnt env.index (sat env (.phrase f ws slop bo)) = 0 := by
        simp only [cnt, List.length_eq_zero_iff, List.filter_eq_nil_iff, sat]
        intro d hd hc
        have hm := phraseMatch_mem _ _ _ hc w hw
        exact hf (hrd d hd f w hm).2
      omega
  | .comp .and qs bst, n, h => by
    simp only [estimate] at h
    by_cases hq0 : qs.isEmpty = true
    · simp only [hq0, if_true, Option.some.injEq] at h
      subst h
      have : cnt env.index (sat env (.comp .and qs bst)) = 0 := by
        simp only [cnt, List.length_eq_zero_iff, List.filter_eq_nil_iff, sat, hq0]
        intro d _ hc
        simp at hc
      omega
    simp only [hq0, Bool.false_eq_true, if_false] at h
    cases hes : estimateList env.multi env.bracket rd qs with
    | none => simp [hes] at h
    | some es =>
      simp only [hes, Option.bind_some] at h
      apply le_minList _ h
      intro e he
      obtain ⟨q, hq, hle⟩ := estimateList_ge_aux env rd hdocs hrd qs es hes e he
      refine Nat.le_trans (cnt_mono _ _ _ ?_) hle
      intro d _ hs
      simp only [sat, Bool.and_eq_true] at hs
      exact sat_of_satAll env d hq hs.2
  | .comp .or qs _, n, h => by
    simp only [estimate] at h
    cases hes : estimateList env.multi env.bracket rd qs with
    | none => simp [hes] at h
    | some es =>
      simp only [hes, Option.map_some, Option.some.injEq] at h
      subst h
      apply Nat.le_min.mpr
      refine ⟨?_, by rw [Reader.docCount, hdocs]; exact cnt_le_length _ _⟩
      simp only [sat]
      exact estimateList_sum_aux env rd hdocs hrd qs es hes
  | .comp .dismax qs _, n, h => by
    simp only [estimate] at h
    cases hes : estimateList env.multi env.bracket rd qs with
    | none => simp [hes] at h
    | some es =>
      simp only [hes, Option.map_some, Option.some.injEq] at h
      subst h
      apply Nat.le_min.mpr
      refine ⟨?_, by rw [Reader.docCount, hdocs]; exact cnt_le_length _ _⟩
      simp only [sat]
      exact estimateList_sum_aux env rd hdocs hrd qs es hes
  | .seq sc qs ssl so sb, n, h => by
    simp only [estimate] at h
    by_cases hq0 : qs.isEmpty = true
    · simp only [hq0, if_true, Option.some.injEq] at h
      subst h
      have : cnt env.index (sat env (.seq sc qs ssl so sb)) = 0 := by
        simp only [cnt, List.length_eq_zero_iff, List.filter_eq_nil_iff, sat, hq0]
        intro d _ hc
        simp at hc
      omega
    simp only [hq0, Bool.false_eq_true, if_false] at h
    cases hes : estimateList env.multi env.bracket rd qs with
    | none => simp [hes] at h
    | some es =>
      simp only [hes, Option.bind_some] at h
      apply le_minList _ h
      intro e he
      obtain ⟨q, hq, hle⟩ := estimateList_ge_aux env rd hdocs hrd qs es hes e he
      refine Nat.le_trans (cnt_mono _ _ _ ?_) hle
      intro d _ hs
      simp only [sat, Bool.and_eq_true] at hs
      exact sat_of_satAll env d hq hs.1.2
  | .not _ _, n, h => by
    simp only [estimate, Option.some.injEq, Reader.docCount, hdocs] at h
    subst h
    exact cnt_le_length _ _
  | .bin .require a b, n, h => by
    simp only [estimate] at h
    refine Nat.le_trans (cnt_mono _ _ _ ?_) (estimate_ge_aux env rd hdocs hrd b n h)
    intro d _ hs
    simp only [sat, Bool.and_eq_true] at hs
    exact hs.2
  | .bin .andnot a b, n, h => by
    simp only [estimate] at h
    cases ha : estimate env.multi env.bracket rd a <;> cases hb : estimate env.multi env.bracket rd b <;>
      simp only [ha, hb, Option.some.injEq] at h <;> try exact absurd h (by simp)
    subst h
    apply Nat.le_min.mpr
    refine ⟨?_, by rw [Reader.docCount, hdocs]; exact cnt_le_length _ _⟩
    refine Nat.le_trans (cnt_mono _ _ (sat env a) ?_) (Nat.le_trans (estimate_ge_aux env rd hdocs hrd a _ ha)
      (Nat.le_add_right _ _))
    intro d _ hs
    simp only [sat, Bool.and_eq_true] at hs
    exact hs.1
  | .bin .andmaybe a b, n, h => by
    simp only [estimate] at h
    cases ha : estimate env.multi env.bracket rd a <;> cases hb : estimate env.multi env.bracket rd b <;>
      simp only [ha, hb, Option.some.injEq] at h <;> try exact absurd h (by simp)
    subst h
    apply Nat.le_min.mpr
    refine ⟨?_, by rw [Reader.docCount, hdocs]; exact cnt_le_length _ _⟩
    refine Nat.le_trans (cnt_mono _ _ (sat env a) ?_) (Nat.le_trans (estimate_ge_aux env rd hdocs hrd a _ ha)
      (Nat.le_add_right _ _))
    intro d _ hs
    simpa only [sat] using hs
  | .bin .otherwise a b, n, h => by
    simp only [estimate] at h
    cases ha : estimate env.multi env.bracket rd a <;> cases hb : estimate env.multi env.bracket rd b <;>
      simp only [ha, hb, Option.some.injEq] at h <;> try exact absurd h (by simp)
    subst h
    apply Nat.le_min.mpr
    refine ⟨?_, by rw [Reader.docCount, hdocs]; exact cnt_le_length _ _⟩
    have h1 := estimate_ge_aux env rd hdocs hrd a _ ha
    have h2 := estimate_ge_aux env rd hdocs hrd b _ hb
    have h3 := cnt_or env.index (sat env a) (sat env b)
    have h4 : cnt env.index (sat env (.bin .otherwise a b)) ≤ cnt env.index (fun d => sat env a d || sat env b d) := by
      apply cnt_mono
      intro d _ hs
      simp only [sat] at hs
      split at hs <;> simp [hs]
    omega
  | .const q _, n, h => by
    simp only [estimate] at h
    have := estimate_ge_aux env rd hdocs hrd q n h
    simpa only [sat] using this
theorem estimateList_ge_aux (env : Env) (rd : Reader) (hdocs : rd.docs = env.index) (hrd : ReaderOk env rd) :
    ∀ (qs : List Q) (es : List Nat), estimateList env.multi env.bracket rd qs = some es →
      ∀ e ∈ es, ∃ q ∈ qs, cnt env.index (sat env q) ≤ e
  | [], es, h, e, he => by
    simp only [estimateList, Option.some.injEq] at h
    subst h
    simp at he
  | q :: qs, es, h, e, he => by
    simp only [estimateList] at h
    cases hq : estimate env.multi env.bracket rd q <;> cases hqs : estimateList env.multi env.bracket rd qs <;>
      simp only [hq, hqs, Option.some.injEq] at h <;> try exact absurd h (by simp)
    subst h
    rcases List.mem_cons.mp he with rfl | he
    · exact ⟨q, List.mem_cons_self .., estimate_ge_aux env rd hdocs hrd q _ hq⟩
    · obtain ⟨x, hx, hle⟩ := estimateList_ge_aux env rd hdocs hrd qs _ hqs e he
      exact ⟨x, List.mem_cons_of_mem _ hx, hle⟩
theorem estimateList_sum_aux (env : Env) (rd : Reader) (hdocs : rd.docs = env.index) (hrd : ReaderOk env rd) :
    ∀ (qs : List Q) (es : List Nat), estimateList env.multi env.bracket rd qs = some es →
      cnt env.index (satAny env qs) ≤ es.sum
  | [], es, h => by
    simp only [estimateList, Option.some.injEq] at h
    subst h
    simp [cnt, satAny]
  | q :: qs, es, h => by
    simp only [estimateList] at h
    cases hq : estimate env.multi env.bracket rd q <;> cases hqs : estimateList env.multi env.bracket rd qs <;>
      simp only [hq, hqs, Option.some.injEq] at h <;> try exact absurd h (by simp)
    subst h
    have h1 := estimate_ge_aux env rd hdocs hrd q _ hq
    have h2 := estimateList_sum_aux env rd hdocs hrd qs _ hqs
    have h3 := cnt_or env.index (sat env q) (satAny env qs)
    simp only [List.sum_cons]
    have : cnt env.index (satAny env (q :: qs)) = cnt env.index (fun d => sat env q d || satAny env qs d) := by
      simp only [satAny]
    omega
end

end WM.Normalize

/-! ### `estimate_size` never raises

The only partial operation of `estimate_size` is Python's `min()` of an empty sequence
(`And.estimate_size`, and through it `Phrase`/`Sequence.estimate_size`); the model returns `none`
there (and for span queries, whose estimate is not modelled). -/
namespace WM.Normalize
open WM.Sat

mutual
/-- No span query (opaque leaf) anywhere in the tree. -/
def Q.spanFree : Q → Bool
  | .opq _ _ => false
  | .comp _ qs _ => Q.spanFreeList qs
  | .seq _ qs _ _ _ => Q.spanFreeList qs
  | .not q _ => Q.spanFree q
  | .bin _ a b => Q.spanFree a && Q.spanFree b
  | .const q _ => Q.spanFree q
  | _ => true
def Q.spanFreeList : List Q → Bool
  | [] => true
  | q :: qs => Q.spanFree q && Q.spanFreeList qs
end

theorem minList_isSome {l : List Nat} (h : l ≠ []) : ∃ m, minList l = some m := by
  cases l with
  | nil => exact absurd rfl h
  | cons x xs => exact ⟨_, rfl⟩

theorem estimateList_length (m : Nat → Field → Text → Nat → Text → Bool)
    (br : Text → Option ((Nat → Bool) × Nat)) (rd : Reader) :
    ∀ (qs : List Q) (es : List Nat), estimateList m br rd qs = some es → es.length = qs.length
  | [], es, h => by
    simp only [estimateList, Option.some.injEq] at h
    subst h; rfl
  | q :: qs, es, h => by
    simp only [estimateList] at h
    cases hq : estimate m br rd q <;> cases hqs : estimateList m br rd qs <;>
      simp only [hq, hqs, Option.some.injEq] at h <;> try exact absurd h (by simp)
    subst h
    simp [estimateList_length m br rd qs _ hqs]

mutual
theorem estimate_total_aux (m : Nat → Field → Text → Nat → Text → Bool)
    (br : Text → Option ((Nat → Bool) × Nat)) (rd : Reader) :
    ∀ (q : Q), q.spanFree = true → ∃ n, estimate m br rd q = some n
  | .null, _ => by simp only [estimate]; exact ⟨_, rfl⟩
  | .every _ _, _ => by simp only [estimate]; exact ⟨_, rfl⟩
  | .term _ _ _, _ => by simp only [estimate]; exact ⟨_, rfl⟩
  | .pre _ _ _ _, _ => by simp only [estimate]; exact ⟨_, rfl⟩
  | .wild _ _ _ _, _ => by simp only [estimate]; exact ⟨_, rfl⟩
  | .multi _ _ _ _ _, _ => by simp only [estimate]; exact ⟨_, rfl⟩
  | .range _ _ _ _ _ _ _, _ => by simp only [estimate]; exact ⟨_, rfl⟩
  | .phrase f ws _ _, _ => by
    simp only [estimate]
    by_cases hw : ws.isEmpty = true
    · exact ⟨0, by simp [hw]⟩
    · simp only [hw, Bool.false_eq_true, if_false]
      apply minList_isSome
      intro e
      have : ws = [] := by simpa using e
      simp [this] at hw
  | .comp .and qs _, h => by
    simp only [Q.spanFree] at h
    obtain ⟨es, hes⟩ := estimateList_total_aux m br rd qs h
    simp only [estimate]
    by_cases hq : qs.isEmpty = true
    · exact ⟨0, by simp [hq]⟩
    · simp only [hq, Bool.false_eq_true, if_false, hes, Option.bind_some]
      apply minList_isSome
      intro e
      have hl := estimateList_length m br rd qs es hes
      subst e
      have : qs = [] := by simpa using hl.symm
      simp [this] at hq
  | .comp .or qs _, h => by
    simp only [Q.spanFree] at h
    obtain ⟨es, hes⟩ := estimateList_total_aux m br rd qs h
    exact ⟨Nat.min es.sum rd.docCount, by simp only [estimate, hes, Option.map_some]⟩
  | .comp .dismax qs _, h => by
    simp only [Q.spanFree] at h
    obtain ⟨es, hes⟩ := estimateList_total_aux m br rd qs h
    exact ⟨Nat.min es.sum rd.docCount, by simp only [estimate, hes, Option.map_some]⟩
  | .seq _ qs _ _ _, h => by
    simp only [Q.spanFree] at h
    obtain ⟨es, hes⟩ := estimateList_total_aux m br rd qs h
    simp only [estimate]
    by_cases hq : qs.isEmpty = true
    · exact ⟨0, by simp [hq]⟩
    · simp only [hq, Bool.false_eq_true, if_false, hes, Option.bind_some]
      apply minList_isSome
      intro e
      have hl := estimateList_length m br rd qs es hes
      subst e
      have : qs = [] := by simpa using hl.symm
      simp [this] at hq
  | .not _ _, _ => by simp only [estimate]; exact ⟨_, rfl⟩
  | .bin .require a b, h => by
    simp only [Q.spanFree, Bool.and_eq_true] at h
    simpa only [estimate] using estimate_total_aux m br rd b h.2
  | .bin .andnot a b, h => by
    simp only [Q.spanFree, Bool.and_eq_true] at h
    obtain ⟨x, hx⟩ := estimate_total_aux m br rd a h.1
    obtain ⟨y, hy⟩ := estimate_total_aux m br rd b h.2
    exact ⟨(x + y).min rd.docCount, by simp only [estimate, hx, hy]⟩
  | .bin .andmaybe a b, h => by
    simp only [Q.spanFree, Bool.and_eq_true] at h
    obtain ⟨x, hx⟩ := estimate_total_aux m br rd a h.1
    obtain ⟨y, hy⟩ := estimate_total_aux m br rd b h.2
    exact ⟨(x + y).min rd.docCount, by simp only [estimate, hx, hy]⟩
  | .bin .otherwise a b, h => by
    simp only [Q.spanFree, Bool.and_eq_true] at h
    obtain ⟨x, hx⟩ := estimate_total_aux m br rd a h.1
    obtain ⟨y, hy⟩ := estimate_total_aux m br rd b h.2
    exact ⟨(x + y).min rd.docCount, by simp only [estimate, hx, hy]⟩
  | .const q _, h => by
    simp only [Q.spanFree] at h
    simpa only [estimate] using estimate_total_aux m br rd q h
  | .opq _ _, h => by simp [Q.spanFree] at h
theorem estimateList_total_aux (m : Nat → Field → Text → Nat → Text → Bool)
    (br : Text → Option ((Nat → Bool) × Nat)) (rd : Reader) :
    ∀ (qs : List Q), Q.spanFreeList qs = true → ∃ es, estimateList m br rd qs = some es
  | [], _ => ⟨[], rfl⟩
  | q :: qs, h => by
    simp only [Q.spanFreeList, Bool.and_eq_true] at h
    obtain ⟨e, he⟩ := estimate_total_aux m br rd q h.1
    obtain ⟨es, hes⟩ := estimateList_total_aux m br rd qs h.2
    exact ⟨e :: es, by simp only [estimateList, he, hes]⟩
end

end WM.Normalize
