import WM.Spec.CodecIndex
import WM.Lemmas.CodecBasic
/-! Round trips of the delta loops in `formats.py`. -/
namespace WM.Codec

theorem decodeCharsAux_encode (pb cb : Int) (l : List (Int × Int × Int)) :
    decodeCharsAux pb cb (encodeCharsAux pb cb l) = l := by
  induction l generalizing pb cb with
  | nil => rfl
  | cons x l ih =>
    obtain ⟨p, s, e⟩ := x
    simp only [encodeCharsAux, decodeCharsAux]
    have h1 : p - pb + pb = p := by omega
    have h2 : s - cb + cb = s := by omega
    have h3 : e - s + s = e := by omega
    rw [h1, h2, h3, ih]

theorem encodeCharsAux_fst (pb cb : Int) (l : List (Int × Int × Int)) :
    (encodeCharsAux pb cb l).map (·.1) = deltaEncodeAux pb (l.map (·.1)) := by
  induction l generalizing pb cb with
  | nil => rfl
  | cons x l ih =>
    obtain ⟨p, s, e⟩ := x
    simp only [encodeCharsAux, List.map_cons, deltaEncodeAux, ih]

theorem decodePosBoostsAux_encode (b : Int) (l : List (Int × Rat)) :
    decodePosBoostsAux b (encodePosBoostsAux b l) = l := by
  induction l generalizing b with
  | nil => rfl
  | cons x l ih =>
    obtain ⟨p, w⟩ := x
    simp only [encodePosBoostsAux, decodePosBoostsAux]
    have h1 : p - b + b = p := by omega
    rw [h1, ih]

theorem encodePosBoostsAux_fst (b : Int) (l : List (Int × Rat)) :
    (encodePosBoostsAux b l).map (·.1) = deltaEncodeAux b (l.map (·.1)) := by
  induction l generalizing b with
  | nil => rfl
  | cons x l ih =>
    obtain ⟨p, w⟩ := x
    simp only [encodePosBoostsAux, List.map_cons, deltaEncodeAux, ih]

theorem decodeCharBoostsAux_encode (pb cb : Int) (l : List (Int × Int × Int × Rat)) :
    decodeCharBoostsAux pb cb (encodeCharBoostsAux pb cb l) = l := by
  induction l generalizing pb cb with
  | nil => rfl
  | cons x l ih =>
    obtain ⟨p, s, e, w⟩ := x
    simp only [encodeCharBoostsAux, decodeCharBoostsAux]
    have h1 : pb + (p - pb) = p := by omega
    have h2 : cb + (s - cb) = s := by omega
    have h3 : s + (e - s) = e := by omega
    rw [h1, h2, h3, ih]

theorem encodeCharBoostsAux_fst (pb cb : Int) (l : List (Int × Int × Int × Rat)) :
    (encodeCharBoostsAux pb cb l).map (·.1) = deltaEncodeAux pb (l.map (·.1)) := by
  induction l generalizing pb cb with
  | nil => rfl
  | cons x l ih =>
    obtain ⟨p, s, e, w⟩ := x
    simp only [encodeCharBoostsAux, List.map_cons, deltaEncodeAux, ih]

/-- `decode_positions ∘ Positions.encode = id` for every position list (gaps, repeats, even
    descending positions). -/
theorem positions_roundtrip (ps : List Int) : decodePositions (encodePositions ps) = some ps := by
  simp [decodePositions, encodePositions, deltaDecode_encode]

theorem characters_roundtrip (l : List (Int × Int × Int)) :
    decodeCharacters (encodeChars l) = some l ∧
    decodePositions (encodeChars l) = some (l.map (·.1)) := by
  constructor
  · simp [decodeCharacters, encodeChars, decodeCharsAux_encode]
  · simp only [decodePositions, encodeChars, encodeCharsAux_fst]
    exact congrArg some (deltaDecodeAux_encodeAux 0 _)

theorem positionBoosts_roundtrip (f32 : Rat → Rat) (l : List (Int × Rat)) :
    decodePositionBoosts (encodePosBoosts f32 l) = some l ∧
    decodePositions (encodePosBoosts f32 l) = some (l.map (·.1)) := by
  constructor
  · simp [decodePositionBoosts, encodePosBoosts, decodePosBoostsAux_encode]
  · simp only [decodePositions, encodePosBoosts, encodePosBoostsAux_fst]
    exact congrArg some (deltaDecodeAux_encodeAux 0 _)

theorem characterBoosts_roundtrip (f32 : Rat → Rat) (fb : Rat) (l : List (Int × Int × Int × Rat)) :
    decodeCharacterBoosts (encodeCharBoosts f32 fb l).1 = some l ∧
    decodePositions (encodeCharBoosts f32 fb l).1 = some (l.map (·.1)) ∧
    decodeCharacters (encodeCharBoosts f32 fb l).1 = some (l.map fun (p, s, e, _) => (p, s, e)) ∧
    decodePositionBoosts (encodeCharBoosts f32 fb l).1 = some (l.map fun (p, _, _, b) => (p, b)) := by
  refine ⟨?_, ?_, ?_, ?_⟩
  · simp [decodeCharacterBoosts, encodeCharBoosts, decodeCharBoostsAux_encode]
  · simp only [decodePositions, encodeCharBoosts, encodeCharBoostsAux_fst]
    exact congrArg some (deltaDecodeAux_encodeAux 0 _)
  · simp [decodeCharacters, encodeCharBoosts, decodeCharBoostsAux_encode]
  · simp [decodePositionBoosts, encodeCharBoosts, decodeCharBoostsAux_encode]

end WM.Codec
