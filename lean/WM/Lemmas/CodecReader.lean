import WM.Lemmas.CodecDecode
/-! The block cursor `W3LeafMatcher` refines the list cursor over `den`. -/
namespace WM.Codec

variable {ι μ : Type}

/-- A block whose three decoded lists have the length the header announces (and is not empty). -/
structure BlockWF (k : IdKind ι μ) (fs : Option Nat) (b : DiskBlock ι μ) : Prop where
  vals : ∃ vs, readValues fs b = .ok vs ∧ vs.length = b.info.count
  ids : (readIds k b).length = b.info.count
  ws : (readWeights b).length = b.info.count
  pos : 0 < b.info.count

/-- Well-formed cursor: on a block of a well-formed block list in which exactly the final block is
    flagged; inside the block unless at the end. -/
structure Leaf.WF (k : IdKind ι μ) (fs : Option Nat) (m : Leaf ι μ) : Prop where
  cur_eq : m.blocks[m.pos]? = some m.cur
  blocks_wf : ∀ b ∈ m.blocks, BlockWF k fs b
  flags : ∀ j b, m.blocks[j]? = some b → (b.last = true ↔ j + 1 = m.blocks.length)
  lastblock_eq : m.lastblock = true ↔ m.pos + 1 = m.blocks.length
  inside : m.atend = false → m.i < m.cur.info.count

theorem zip3_length (is : List ι) (ws : List Rat) (vs : List (Option Bytes)) (n : Nat)
    (h1 : is.length = n) (h2 : ws.length = n) (h3 : vs.length = n) : (zip3 is ws vs).length = n := by
  induction is generalizing ws vs n with
  | nil => simp at h1; subst h1; simp [zip3]
  | cons i is ih =>
    cases ws with
    | nil => simp at h1 h2; omega
    | cons w ws =>
      cases vs with
      | nil => simp at h1 h3; omega
      | cons v vs =>
        simp only [zip3, List.length_cons] at *
        rw [ih ws vs (n - 1) (by omega) (by omega) (by omega)]; omega

theorem zip3_getElem? (is : List ι) (ws : List Rat) (vs : List (Option Bytes)) (j : Nat)
    (i : ι) (w : Rat) (v : Option Bytes)
    (h1 : is[j]? = some i) (h2 : ws[j]? = some w) (h3 : vs[j]? = some v) :
    (zip3 is ws vs)[j]? = some ⟨i, w, v⟩ := by
  induction is generalizing ws vs j with
  | nil => simp at h1
  | cons i' is ih =>
    cases ws with
    | nil => simp at h2
    | cons w' ws =>
      cases vs with
      | nil => simp at h3
      | cons v' vs =>
        cases j with
        | zero => simp at h1 h2 h3; simp [zip3, h1, h2, h3]
        | succ j =>
          simp only [List.getElem?_cons_succ] at h1 h2 h3
          simp only [zip3, List.getElem?_cons_succ]
          exact ih ws vs j h1 h2 h3

/-- The entries of a well-formed block, and that reads at position `j` agree with them. -/
theorem BlockWF.entries {k : IdKind ι μ} {fs : Option Nat} {b : DiskBlock ι μ} (h : BlockWF k fs b) :
    ∃ es, blockEntries k fs b = .ok es ∧ es.length = b.info.count ∧
      ∀ j, j < b.info.count → ∃ e, es[j]? = some e ∧ (readIds k b)[j]? = some e.id ∧
        (readWeights b)[j]? = some e.weight ∧
        ∃ vs, readValues fs b = .ok vs ∧ vs[j]? = some e.value := by
  obtain ⟨vs, hvs, hvl⟩ := h.vals
  refine ⟨zip3 (readIds k b) (readWeights b) vs, ?_, zip3_length _ _ _ _ h.ids h.ws hvl, ?_⟩
  · simp [blockEntries, hvs]
  · intro j hj
    have h1 : j < (readIds k b).length := by rw [h.ids]; exact hj
    have h2 : j < (readWeights b).length := by rw [h.ws]; exact hj
    have h3 : j < vs.length := by rw [hvl]; exact hj
    refine ⟨⟨(readIds k b)[j], (readWeights b)[j], vs[j]⟩, ?_, ?_, ?_, vs, hvs, ?_⟩
    · exact zip3_getElem? _ _ _ j _ _ _ (List.getElem?_eq_getElem h1) (List.getElem?_eq_getElem h2)
        (List.getElem?_eq_getElem h3)
    · exact List.getElem?_eq_getElem h1
    · exact List.getElem?_eq_getElem h2
    · exact List.getElem?_eq_getElem h3

theorem decodeBlocks_ok {k : IdKind ι μ} {fs : Option Nat} (bs : List (DiskBlock ι μ))
    (h : ∀ b ∈ bs, BlockWF k fs b) : ∃ es, decodeBlocks k fs bs = .ok es := by
  induction bs with
  | nil => exact ⟨[], rfl⟩
  | cons b bs ih =>
    obtain ⟨es, hes, _⟩ := (h b (by simp)).entries
    obtain ⟨rest, hrest⟩ := ih (fun x hx => h x (by simp [hx]))
    exact ⟨es ++ rest, by simp [decodeBlocks, hes, hrest]⟩

/-- `den` of a well-formed cursor is defined. -/
theorem Leaf.WF.den_ok {k : IdKind ι μ} {fs : Option Nat} {m : Leaf ι μ} (h : m.WF k fs) :
    ∃ es, den k fs m = .ok es := by
  unfold den
  by_cases ha : m.atend = true
  · simp [ha]
  · have hcur : m.cur ∈ m.blocks := List.mem_of_getElem? h.cur_eq
    obtain ⟨es, hes, _⟩ := (h.blocks_wf _ hcur).entries
    obtain ⟨rest, hrest⟩ := decodeBlocks_ok (k := k) (fs := fs) (m.blocks.drop (m.pos + 1))
      (fun b hb => h.blocks_wf b (List.mem_of_mem_drop hb))
    exact ⟨es.drop m.i ++ rest, by simp [ha, hes, hrest]⟩

theorem Leaf.WF.pos_lt {k : IdKind ι μ} {fs : Option Nat} {m : Leaf ι μ} (h : m.WF k fs) :
    m.pos < m.blocks.length := (List.getElem?_eq_some_iff.mp h.cur_eq).1

theorem Leaf.WF.cur_wf {k : IdKind ι μ} {fs : Option Nat} {m : Leaf ι μ} (h : m.WF k fs) :
    BlockWF k fs m.cur := h.blocks_wf _ (List.mem_of_getElem? h.cur_eq)

theorem Leaf.WF.atend_of_inactive {k : IdKind ι μ} {fs : Option Nat} {m : Leaf ι μ} (h : m.WF k fs)
    (ha : m.isActive = false) : m.atend = true := by
  cases hat : m.atend with
  | true => rfl
  | false =>
    have := h.inside hat
    simp [Leaf.isActive, hat, this] at ha

/-- An exhausted cursor denotes the empty list. -/
theorem Leaf.WF.den_inactive {k : IdKind ι μ} {fs : Option Nat} {m : Leaf ι μ} (h : m.WF k fs)
    (ha : m.isActive = false) : den k fs m = .ok [] := by
  simp [den, h.atend_of_inactive ha]

/-- An active cursor shows the head of what it denotes. -/
theorem Leaf.WF.den_active {k : IdKind ι μ} {fs : Option Nat} {m : Leaf ι μ} (h : m.WF k fs)
    (ha : m.isActive = true) :
    ∃ e rest, den k fs m = .ok (e :: rest) ∧ m.id k = .ok e.id ∧ m.weight = .ok e.weight ∧
      m.value fs = .ok e.value := by
  simp only [Leaf.isActive, Bool.and_eq_true, Bool.not_eq_true', decide_eq_true_eq] at ha
  obtain ⟨hat, hi⟩ := ha
  obtain ⟨es, hes, hlen, hget⟩ := h.cur_wf.entries
  obtain ⟨e, he, hid, hw, vs, hvs, hv⟩ := hget m.i hi
  obtain ⟨rest, hrest⟩ := decodeBlocks_ok (k := k) (fs := fs) (m.blocks.drop (m.pos + 1))
    (fun b hb => h.blocks_wf b (List.mem_of_mem_drop hb))
  have hi' : m.i < es.length := by rw [hlen]; exact hi
  have hee : es[m.i] = e := by
    have := List.getElem?_eq_getElem hi'
    rw [this] at he; exact Option.some.inj he
  refine ⟨e, es.drop (m.i + 1) ++ rest, ?_, ?_, ?_, ?_⟩
  · simp only [den, hat, Bool.false_eq_true, if_false, hes, hrest]
    rw [List.drop_eq_getElem_cons hi', hee]; rfl
  · simp [Leaf.id, hid]
  · simp [Leaf.weight, hw]
  · simp [Leaf.value, hvs, hv]

theorem decodeBlocks_cons_ok {k : IdKind ι μ} {fs : Option Nat} (b : DiskBlock ι μ)
    (bs : List (DiskBlock ι μ)) (es rest : List (Entry ι)) (h1 : blockEntries k fs b = .ok es)
    (h2 : decodeBlocks k fs bs = .ok rest) : decodeBlocks k fs (b :: bs) = .ok (es ++ rest) := by
  simp [decodeBlocks, h1, h2]

/-- `next()` on an active cursor: succeeds, stays well-formed, denotes the tail. -/
theorem Leaf.WF.next {k : IdKind ι μ} {fs : Option Nat} {m : Leaf ι μ} (h : m.WF k fs)
    (ha : m.isActive = true) :
    ∃ m' b, m.next = .ok (m', b) ∧ m'.WF k fs ∧
      ∃ e rest, den k fs m = .ok (e :: rest) ∧ den k fs m' = .ok rest := by
  have ha0 := ha
  simp only [Leaf.isActive, Bool.and_eq_true, Bool.not_eq_true', decide_eq_true_eq] at ha
  obtain ⟨hat, hi⟩ := ha
  obtain ⟨es, hes, hlen, _⟩ := h.cur_wf.entries
  obtain ⟨rest, hrest⟩ := decodeBlocks_ok (k := k) (fs := fs) (m.blocks.drop (m.pos + 1))
    (fun b hb => h.blocks_wf b (List.mem_of_mem_drop hb))
  have hi' : m.i < es.length := by rw [hlen]; exact hi
  have hden : den k fs m = .ok (es[m.i] :: (es.drop (m.i + 1) ++ rest)) := by
    simp only [den, hat, Bool.false_eq_true, if_false, hes, hrest]
    rw [List.drop_eq_getElem_cons hi']; rfl
  unfold Leaf.next
  simp only
  by_cases hend : m.i + 1 = m.cur.info.count
  · -- the block is used up
    simp only [hend, if_true]
    unfold Leaf.nextBlock
    simp only [hat, Bool.false_eq_true, if_false]
    have hdrop : es.drop (m.i + 1) = [] := by
      apply List.drop_eq_nil_of_le; omega
    by_cases hlast : m.lastblock = true
    · -- last block: at the end
      simp only [hlast, if_true]
      have hpos := h.lastblock_eq.mp hlast
      have hrest0 : rest = [] := by
        rw [List.drop_eq_nil_of_le (by omega)] at hrest
        simp only [decodeBlocks] at hrest; cases hrest; rfl
      refine ⟨_, true, rfl, ?_, es[m.i], es.drop (m.i + 1) ++ rest, hden, ?_⟩
      · exact { cur_eq := h.cur_eq, blocks_wf := h.blocks_wf, flags := h.flags,
                lastblock_eq := ⟨fun _ => hpos, fun _ => rfl⟩, inside := fun hh => by simp at hh }
      · simp [den, hdrop, hrest0]
    · -- go to the next block
      simp only [hlast, Bool.false_eq_true, if_false]
      have hpos : m.pos + 1 < m.blocks.length := by
        have := h.pos_lt
        have hne : ¬ m.pos + 1 = m.blocks.length := fun e => hlast (h.lastblock_eq.mpr e)
        omega
      have hb : m.blocks[m.pos + 1]? = some m.blocks[m.pos + 1] := List.getElem?_eq_getElem hpos
      rw [hb]
      simp only
      have hbwf : BlockWF k fs m.blocks[m.pos + 1] := h.blocks_wf _ (List.getElem_mem hpos)
      obtain ⟨es2, hes2, hlen2, _⟩ := hbwf.entries
      obtain ⟨rest2, hrest2⟩ := decodeBlocks_ok (k := k) (fs := fs) (m.blocks.drop (m.pos + 1 + 1))
        (fun b hb => h.blocks_wf b (List.mem_of_mem_drop hb))
      have hrest' : rest = es2 ++ rest2 := by
        rw [List.drop_eq_getElem_cons hpos, decodeBlocks_cons_ok _ _ _ _ hes2 hrest2] at hrest
        cases hrest; rfl
      refine ⟨_, true, rfl, ?_, es[m.i], es.drop (m.i + 1) ++ rest, hden, ?_⟩
      · refine { cur_eq := ?_, blocks_wf := h.blocks_wf, flags := h.flags, lastblock_eq := ?_,
                 inside := fun _ => hbwf.pos }
        · simp [Leaf.enter]
        · simp only [Leaf.enter, Bool.false_or]
          exact h.flags _ _ hb
      · simp only [den, Leaf.enter, Bool.false_eq_true, if_false, hes2, hrest2, List.drop_zero,
          hdrop, List.nil_append, hrest']
  · -- stay inside the block
    simp only [hend, if_false]
    refine ⟨_, false, rfl, ?_, es[m.i], es.drop (m.i + 1) ++ rest, hden, ?_⟩
    · exact { cur_eq := h.cur_eq, blocks_wf := h.blocks_wf, flags := h.flags,
              lastblock_eq := h.lastblock_eq, inside := fun _ => by simp only; omega }
    · simp [den, hat, hes, hrest]

/-- A block list the writer could have produced: well-formed blocks, exactly the final one flagged. -/
def WFBlocks (k : IdKind ι μ) (fs : Option Nat) (blocks : List (DiskBlock ι μ)) : Prop :=
  (∀ b ∈ blocks, BlockWF k fs b) ∧
  (∀ j b, blocks[j]? = some b → (b.last = true ↔ j + 1 = blocks.length))

/-- Opening a cursor on a well-formed, non-empty block list: it denotes the whole list. -/
theorem Leaf.open_wf {k : IdKind ι μ} {fs : Option Nat} (blocks : List (DiskBlock ι μ))
    (h : WFBlocks k fs blocks) (hne : blocks ≠ []) :
    ∃ m, Leaf.open blocks = .ok m ∧ m.WF k fs ∧ den k fs m = decodeBlocks k fs blocks := by
  cases blocks with
  | nil => exact absurd rfl hne
  | cons b bs =>
    refine ⟨_, rfl, ?_, ?_⟩
    · exact { cur_eq := rfl, blocks_wf := h.1, flags := h.2
              lastblock_eq := by simpa using h.2 0 b rfl
              inside := fun _ => (h.1 b (by simp)).pos }
    · obtain ⟨es, hes, _⟩ := (h.1 b (by simp)).entries
      obtain ⟨rest, hrest⟩ := decodeBlocks_ok (k := k) (fs := fs) bs (fun x hx => h.1 x (by simp [hx]))
      simp [den, decodeBlocks, hes, hrest]

/-- The scanning loop of `skip_to` is `dropWhile (id < target)`. -/
theorem Leaf.WF.scanTo {k : IdKind ι μ} {fs : Option Nat} (t : ι) :
    ∀ (L : List (Entry ι)) (m : Leaf ι μ), m.WF k fs → den k fs m = .ok L →
      ∃ m', Leaf.scanTo k t m = .ok m' ∧ m'.WF k fs ∧
        den k fs m' = .ok (L.dropWhile (fun e => k.lt e.id t)) := by
  intro L
  induction L with
  | nil =>
    intro m h hden
    rw [Leaf.scanTo]
    by_cases hact : m.isActive = true
    · obtain ⟨e, rest, hd, _⟩ := h.den_active hact
      rw [hden] at hd; cases hd
    · simp only [hact]
      exact ⟨m, rfl, h, by simpa using hden⟩
  | cons e0 rest0 ih =>
    intro m h hden
    rw [Leaf.scanTo]
    by_cases hact : m.isActive = true
    · obtain ⟨e, rest, hd, hid, _, _⟩ := h.den_active hact
      rw [hden] at hd
      simp only [Except.ok.injEq, List.cons.injEq] at hd
      obtain ⟨rfl, rfl⟩ := hd
      simp only [hact, dite_true, hid]
      by_cases hlt : k.lt e0.id t = true
      · simp only [hlt, if_true, List.dropWhile_cons]
        obtain ⟨m', b, hn, hwf', e', rest', hd1, hd2⟩ := h.next hact
        rw [hden] at hd1
        simp only [Except.ok.injEq, List.cons.injEq] at hd1
        obtain ⟨_, rfl⟩ := hd1
        split
        · next heq => rw [hn] at heq; cases heq
        · next m2 b2 heq =>
          rw [hn] at heq
          simp only [Except.ok.injEq, Prod.mk.injEq] at heq
          obtain ⟨rfl, rfl⟩ := heq
          by_cases hat : m'.atend = true
          · simp only [hat, dite_true]
            have : den k fs m' = .ok [] := by simp [den, hat]
            rw [this] at hd2; cases hd2
            exact ⟨m', rfl, hwf', by simp [this]⟩
          · simp only [hat, Bool.false_eq_true, dite_false]
            exact ih m' hwf' hd2
      · simp only [hlt, Bool.false_eq_true, if_false, List.dropWhile_cons]
        exact ⟨m, rfl, h, hden⟩
    · have := h.den_inactive (by simpa using hact)
      rw [hden] at this; cases this

/-- `_next_block` from inside a block: drops the rest of the current block. -/
theorem Leaf.WF.nextBlock {k : IdKind ι μ} {fs : Option Nat} {m : Leaf ι μ} (h : m.WF k fs)
    (hat : m.atend = false) :
    ∃ m' es L', m.nextBlock = .ok m' ∧ m'.WF k fs ∧ m'.blocks = m.blocks ∧
      blockEntries k fs m.cur = .ok es ∧ den k fs m = .ok (es.drop m.i ++ L') ∧ den k fs m' = .ok L' ∧
      (m'.atend = false → m'.pos = m.pos + 1) := by
  obtain ⟨es, hes, hlen, _⟩ := h.cur_wf.entries
  obtain ⟨rest, hrest⟩ := decodeBlocks_ok (k := k) (fs := fs) (m.blocks.drop (m.pos + 1))
    (fun b hb => h.blocks_wf b (List.mem_of_mem_drop hb))
  have hden : den k fs m = .ok (es.drop m.i ++ rest) := by
    simp only [den, hat, Bool.false_eq_true, if_false, hes, hrest]
  unfold Leaf.nextBlock
  simp only [hat, Bool.false_eq_true, if_false]
  by_cases hlast : m.lastblock = true
  · simp only [hlast, if_true]
    have hpos := h.lastblock_eq.mp hlast
    have hrest0 : rest = [] := by
      rw [List.drop_eq_nil_of_le (by omega)] at hrest
      simp only [decodeBlocks] at hrest; cases hrest; rfl
    refine ⟨_, es, [], rfl, ?_, rfl, hes, by rw [hden, hrest0], by simp [den], by simp⟩
    exact { cur_eq := h.cur_eq, blocks_wf := h.blocks_wf, flags := h.flags,
            lastblock_eq := ⟨fun _ => hpos, fun _ => rfl⟩, inside := fun hh => by simp at hh }
  · simp only [hlast, Bool.false_eq_true, if_false]
    have hpos : m.pos + 1 < m.blocks.length := by
      have := h.pos_lt
      have hne : ¬ m.pos + 1 = m.blocks.length := fun e => hlast (h.lastblock_eq.mpr e)
      omega
    have hb : m.blocks[m.pos + 1]? = some m.blocks[m.pos + 1] := List.getElem?_eq_getElem hpos
    rw [hb]
    simp only
    have hbwf : BlockWF k fs m.blocks[m.pos + 1] := h.blocks_wf _ (List.getElem_mem hpos)
    obtain ⟨es2, hes2, hlen2, _⟩ := hbwf.entries
    obtain ⟨rest2, hrest2⟩ := decodeBlocks_ok (k := k) (fs := fs) (m.blocks.drop (m.pos + 1 + 1))
      (fun b hb => h.blocks_wf b (List.mem_of_mem_drop hb))
    have hrest' : rest = es2 ++ rest2 := by
      rw [List.drop_eq_getElem_cons hpos, decodeBlocks_cons_ok _ _ _ _ hes2 hrest2] at hrest
      cases hrest; rfl
    refine ⟨_, es, es2 ++ rest2, rfl, ?_, rfl, hes, by rw [hden, hrest'], ?_, fun _ => rfl⟩
    · refine { cur_eq := ?_, blocks_wf := h.blocks_wf, flags := h.flags, lastblock_eq := ?_,
               inside := fun _ => hbwf.pos }
      · simp [Leaf.enter]
      · have hl : m.lastblock = false := by simpa using hlast
        simp only [Leaf.enter, hl, Bool.false_or]
        exact h.flags _ _ hb
    · simp only [den, Leaf.enter, hat, Bool.false_eq_true, if_false, hes2, hrest2, List.drop_zero]

/-- `_skip_to_block` with a condition on the current block: everything it passes over belongs to
    blocks satisfying the condition; it stops on a block that does not (or at the end). -/
theorem Leaf.WF.skipToBlock {k : IdKind ι μ} {fs : Option Nat} (P : DiskBlock ι μ → Bool) :
    ∀ (n : Nat) (m : Leaf ι μ) (L : List (Entry ι)), m.blocks.length - m.pos = n → m.WF k fs →
      den k fs m = .ok L →
      ∃ m' cnt pre L', Leaf.skipToBlock (fun m => P m.cur) m = .ok (m', cnt) ∧ m'.WF k fs ∧
        m'.blocks = m.blocks ∧ den k fs m' = .ok L' ∧ L = pre ++ L' ∧
        (∀ e ∈ pre, ∃ b es, b ∈ m.blocks ∧ P b = true ∧ blockEntries k fs b = .ok es ∧ e ∈ es) ∧
        (m'.isActive = true → P m'.cur = false) := by
  intro n
  induction n using Nat.strongRecOn with
  | _ n ih =>
    intro m L hn h hden
    rw [Leaf.skipToBlock]
    by_cases hc : (m.isActive && P m.cur) = true
    · simp only [hc, if_true]
      simp only [Bool.and_eq_true] at hc
      obtain ⟨hact, hP⟩ := hc
      have hat : m.atend = false := by
        simp only [Leaf.isActive, Bool.and_eq_true, Bool.not_eq_true'] at hact; exact hact.1
      obtain ⟨m1, es, L1, hnb, hwf1, hbl1, hes, hd, hd1, hpos1⟩ := h.nextBlock hat
      rw [hden] at hd
      simp only [Except.ok.injEq] at hd
      have hpre : ∀ e ∈ es.drop m.i, ∃ b es', b ∈ m.blocks ∧ P b = true ∧
          blockEntries k fs b = .ok es' ∧ e ∈ es' :=
        fun e he => ⟨m.cur, es, List.mem_of_getElem? h.cur_eq, hP, hes, List.mem_of_mem_drop he⟩
      split
      · next e heq => rw [hnb] at heq; cases heq
      · next m1' heq =>
        rw [hnb] at heq; cases heq
        by_cases hat1 : m1.atend = true
        · simp only [hat1, dite_true]
          have : den k fs m1 = .ok [] := by simp [den, hat1]
          rw [this] at hd1; cases hd1
          refine ⟨m1, 1, es.drop m.i, [], rfl, hwf1, hbl1, this, by simpa using hd, hpre, ?_⟩
          intro ha; simp [Leaf.isActive, hat1] at ha
        · simp only [hat1, Bool.false_eq_true, dite_false]
          have hat1' : m1.atend = false := by simpa using hat1
          have hp1 := hpos1 hat1'
          have hlt : m1.blocks.length - m1.pos < n := by
            have := h.pos_lt; rw [hbl1, hp1]; omega
          obtain ⟨m2, cnt, pre, L2, hs, hwf2, hbl2, hd2, hL, hpre2, hstop⟩ :=
            ih _ hlt m1 L1 rfl hwf1 hd1
          rw [hs]
          refine ⟨m2, cnt + 1, es.drop m.i ++ pre, L2, rfl, hwf2, by rw [hbl2, hbl1], hd2,
            by rw [hd, hL, List.append_assoc], ?_, hstop⟩
          intro e he
          simp only [List.mem_append] at he
          rcases he with he | he
          · exact hpre e he
          · obtain ⟨b, es', hb, hPb, hes', hee⟩ := hpre2 e he
            exact ⟨b, es', by rw [← hbl1]; exact hb, hPb, hes', hee⟩
    · simp only [hc, Bool.false_eq_true, if_false]
      refine ⟨m, 0, [], L, rfl, h, rfl, hden, rfl, by simp, ?_⟩
      intro ha
      simp only [ha, Bool.true_and] at hc
      simpa using hc

theorem dropWhile_append_all {α : Type} (p : α → Bool) (pre L : List α) (h : ∀ e ∈ pre, p e = true) :
    (pre ++ L).dropWhile p = L.dropWhile p := by
  induction pre with
  | nil => rfl
  | cons a pre ih =>
    simp only [List.cons_append, List.dropWhile_cons, h a (by simp), if_true]
    exact ih (fun e he => h e (by simp [he]))

/-- No entry of a block has an id above the `last id` recorded in the block header. -/
def BoundedByLastId (k : IdKind ι μ) (fs : Option Nat) (blocks : List (DiskBlock ι μ)) : Prop :=
  ∀ b ∈ blocks, ∀ es, blockEntries k fs b = .ok es → ∀ e ∈ es, k.lt b.info.lastId e.id = false

/-- `a ≤ b < c → a < c` for the id order. -/
def IdKind.LeLtTrans (k : IdKind ι μ) : Prop :=
  ∀ a b c, k.lt b a = false → k.lt b c = true → k.lt a c = true

theorem docIds_leLtTrans : docIds.LeLtTrans := by
  intro a b c h1 h2
  simp only [docIds, decide_eq_false_iff_not, decide_eq_true_eq] at *
  omega

/-- `skip_to(target)` on an active cursor is `dropWhile (id < target)`. -/
theorem Leaf.WF.skipTo {k : IdKind ι μ} {fs : Option Nat} {m : Leaf ι μ} (h : m.WF k fs)
    (hact : m.isActive = true) (hb : BoundedByLastId k fs m.blocks) (htr : k.LeLtTrans) (t : ι)
    (L : List (Entry ι)) (hden : den k fs m = .ok L) :
    ∃ m', m.skipTo k t = .ok m' ∧ m'.WF k fs ∧
      den k fs m' = .ok (L.dropWhile (fun e => k.lt e.id t)) := by
  obtain ⟨e, rest, hd, hid, _, _⟩ := h.den_active hact
  rw [hden] at hd
  simp only [Except.ok.injEq] at hd
  subst hd
  unfold Leaf.skipTo
  simp only [hact, Bool.not_true, Bool.false_eq_true, if_false, hid]
  by_cases hlt : k.lt e.id t = true
  · simp only [hlt, Bool.not_true, Bool.false_eq_true, if_false]
    by_cases hmax : k.lt m.blockMaxId t = true
    · simp only [hmax, if_true]
      obtain ⟨m1, cnt, pre, L1, hs, hwf1, _, hd1, hL, hpre, _⟩ :=
        Leaf.WF.skipToBlock (k := k) (fs := fs) (fun b => k.lt b.info.lastId t) _ m _ rfl h hden
      have hs' : Leaf.skipToBlock (fun m => k.lt m.blockMaxId t) m = .ok (m1, cnt) := hs
      rw [hs']
      simp only [Except.map]
      obtain ⟨m2, hsc, hwf2, hd2⟩ := Leaf.WF.scanTo (k := k) (fs := fs) t L1 m1 hwf1 hd1
      refine ⟨m2, hsc, hwf2, ?_⟩
      rw [hd2, hL, dropWhile_append_all]
      intro x hx
      obtain ⟨b, es, hbm, hPb, hes, hxe⟩ := hpre x hx
      exact htr _ _ _ (hb b hbm es hes x hxe) hPb
    · simp only [hmax, Bool.false_eq_true, if_false]
      exact Leaf.WF.scanTo (k := k) (fs := fs) t _ m h hden
  · simp only [hlt, Bool.not_false, if_true]
    refine ⟨m, rfl, h, ?_⟩
    simp [hlt, hden]

/-- `skip_to_quality(minquality)`: passes only over entries of blocks whose quality is
    `≤ minquality`, stops on a block of higher quality (or at the end). -/
theorem Leaf.WF.skipToQuality {k : IdKind ι μ} {fs : Option Nat} {m : Leaf ι μ} (h : m.WF k fs)
    (quality : BlockInfo ι → Rat) (minq : Rat) (L : List (Entry ι)) (hden : den k fs m = .ok L) :
    ∃ m' cnt pre L', m.skipToQuality quality minq = .ok (m', cnt) ∧ m'.WF k fs ∧
      den k fs m' = .ok L' ∧ L = pre ++ L' ∧
      (∀ e ∈ pre, ∃ b es, b ∈ m.blocks ∧ quality b.info ≤ minq ∧ blockEntries k fs b = .ok es ∧ e ∈ es) ∧
      (m'.isActive = true → minq < quality m'.cur.info) := by
  unfold Leaf.skipToQuality
  by_cases hq : quality m.cur.info > minq
  · simp only [hq, if_true]
    exact ⟨m, 0, [], L, rfl, h, hden, rfl, by simp, fun _ => hq⟩
  · simp only [hq, if_false]
    obtain ⟨m1, cnt, pre, L1, hs, hwf1, _, hd1, hL, hpre, hstop⟩ :=
      Leaf.WF.skipToBlock (k := k) (fs := fs) (fun b => decide (quality b.info ≤ minq)) _ m _ rfl h hden
    refine ⟨m1, cnt, pre, L1, hs, hwf1, hd1, hL, ?_, ?_⟩
    · intro e he
      obtain ⟨b, es, hbm, hPb, hes, hee⟩ := hpre e he
      exact ⟨b, es, hbm, by simpa using hPb, hes, hee⟩
    · intro ha
      have := hstop ha
      simp only [decide_eq_false_iff_not] at this
      exact Rat.not_le.mp this
