import WM.Lemmas.CollectViews
import Mathlib.Tactic.Set
/-! Helper lemmas for C14.collapse: the best-N-per-key invariant of `CollapseCollector.collect`. -/
namespace WM.Collect
open WM.Rank

/-- Generic "top k of a bag split into winners and losers". -/
theorem take_sort_of_split {α : Type} (le : α → α → Bool)
    (htrans : ∀ a b c, le a b = true → le b c = true → le a c = true)
    (htotal : ∀ a b, (le a b || le b a) = true)
    (hanti : ∀ a b, le a b = true → le b a = true → a = b)
    (k : Nat) (L R losers : List α)
    (hperm : L.Perm (R ++ losers))
    (hsorted : R.Pairwise (fun a b => le a b = true))
    (hlen : R.length ≤ k)
    (hlos : ∀ l ∈ losers, R.length = k ∧ ∀ r ∈ R, le r l = true) :
    (L.mergeSort le).take k = R := by
  have hs1 : (L.mergeSort le).Pairwise (fun a b => le a b = true) := List.pairwise_mergeSort htrans htotal L
  have hs2 : (losers.mergeSort le).Pairwise (fun a b => le a b = true) := List.pairwise_mergeSort htrans htotal losers
  have hp2 : (losers.mergeSort le).Perm losers := List.mergeSort_perm losers le
  have hs3 : (R ++ losers.mergeSort le).Pairwise (fun a b => le a b = true) := by
    rw [List.pairwise_append]
    refine ⟨hsorted, hs2, ?_⟩
    intro a ha b hb
    exact (hlos b (hp2.subset hb)).2 a ha
  have hp : (L.mergeSort le).Perm (R ++ losers.mergeSort le) :=
    (List.mergeSort_perm L le).trans (hperm.trans (List.Perm.append_left R hp2.symm))
  have heq : L.mergeSort le = R ++ losers.mergeSort le :=
    List.Perm.eq_of_pairwise (fun a b _ _ h1 h2 => hanti a b h1 h2) hs1 hs3 hp
  rw [heq]
  cases hl : losers with
  | nil =>
    simp only [List.mergeSort_nil, List.append_nil]
    exact List.take_of_length_le hlen
  | cons l ls =>
    have := (hlos l (by simp [hl])).1
    rw [← this]
    simp

theorem insortKD_perm (x : Key × Nat) (l : List (Key × Nat)) : (insortKD x l).Perm (x :: l) := by
  induction l with
  | nil => simp [insortKD]
  | cons y ys ih =>
    simp only [insortKD]
    split
    · exact (List.Perm.cons y ih).trans (List.Perm.swap x y ys)
    · exact List.Perm.refl _

theorem mem_insortKD {x y : Key × Nat} {l : List (Key × Nat)} : y ∈ insortKD x l ↔ y = x ∨ y ∈ l := by
  rw [(insortKD_perm x l).mem_iff]; simp

theorem kdLe_total' (a b : Key × Nat) : kdLe a b = true ∨ kdLe b a = true := by
  have := kdLe_total a b
  simpa [Bool.or_eq_true] using this

theorem insortKD_sorted (x : Key × Nat) (l : List (Key × Nat))
    (hl : l.Pairwise (fun a b => kdLe a b = true)) :
    (insortKD x l).Pairwise (fun a b => kdLe a b = true) := by
  induction l with
  | nil => simp [insortKD]
  | cons y ys ih =>
    simp only [insortKD]
    split
    · next hy =>
      rw [List.pairwise_cons] at hl ⊢
      refine ⟨?_, ih hl.2⟩
      intro z hz
      rcases mem_insortKD.mp hz with rfl | hz
      · exact hy
      · exact hl.1 z hz
    · next hy =>
      rw [List.pairwise_cons]
      refine ⟨?_, hl⟩
      have hxy : kdLe x y = true := by
        rcases kdLe_total' x y with h | h
        · exact h
        · exact absurd h hy
      intro z hz
      rcases List.mem_cons.mp hz with rfl | hz
      · exact hxy
      · exact kdLe_trans x y z hxy (List.rel_of_pairwise_cons hl hz)

end WM.Collect

namespace WM.Collect
open WM.Rank

def keyDocs (ckey : Nat → Option Int) (c : Int) (docs : List Nat) : List Nat :=
  docs.filter fun d => ckey d == some c

def pairsOf (skey : Nat → Key) (l : List Nat) : List (Key × Nat) := l.map fun d => (skey d, d)

/-- The best `n` documents of collapse key `c` among `docs`, in `(sortkey, docnum)` order. -/
def bestOf (ckey : Nat → Option Int) (skey : Nat → Key) (n : Nat) (docs : List Nat) (c : Int) : List (Key × Nat) :=
  ((pairsOf skey (keyDocs ckey c docs)).mergeSort kdLe).take n

theorem keyDocs_snoc_same (ckey : Nat → Option Int) (c : Int) (pre : List Nat) (d : Nat) (h : ckey d = some c) :
    keyDocs ckey c (pre ++ [d]) = keyDocs ckey c pre ++ [d] := by
  simp [keyDocs, List.filter_append, h]

theorem keyDocs_snoc_other (ckey : Nat → Option Int) (c : Int) (pre : List Nat) (d : Nat) (h : ckey d ≠ some c) :
    keyDocs ckey c (pre ++ [d]) = keyDocs ckey c pre := by
  simp [keyDocs, List.filter_append, h]

theorem bestOf_snoc_other (ckey : Nat → Option Int) (skey : Nat → Key) (n : Nat) (pre : List Nat) (d : Nat) (c : Int)
    (h : ckey d ≠ some c) : bestOf ckey skey n (pre ++ [d]) c = bestOf ckey skey n pre c := by
  simp [bestOf, keyDocs_snoc_other ckey c pre d h]

/-- How the best-`n` list of the key of a new (larger) document changes. -/
theorem bestOf_snoc_same (ckey : Nat → Option Int) (skey : Nat → Key) (n : Nat) (hn : 1 ≤ n) (pre : List Nat) (d : Nat)
    (c : Int) (hc : ckey d = some c) (hlt : ∀ p ∈ pre, p < d) :
    let B := bestOf ckey skey n pre c
    bestOf ckey skey n (pre ++ [d]) c =
      if B.length < n then insortKD (skey d, d) B
      else match B.getLast? with
        | none => B
        | some worst =>
          if keyLe (skey d) worst.1 && !keyLe worst.1 (skey d) then insortKD (skey d, d) B.dropLast else B := by
  intro B
  set x : Key × Nat := (skey d, d) with hx
  set P := pairsOf skey (keyDocs ckey c pre) with hP
  set S := P.mergeSort kdLe with hS
  have hSsorted : S.Pairwise (fun a b => kdLe a b = true) := List.pairwise_mergeSort kdLe_trans kdLe_total P
  have hSperm : S.Perm P := List.mergeSort_perm P kdLe
  have hB : B = S.take n := rfl
  have hL : pairsOf skey (keyDocs ckey c (pre ++ [d])) = P ++ [x] := by
    rw [keyDocs_snoc_same ckey c pre d hc]; simp [pairsOf, hP, hx]
  obtain ⟨D, hD⟩ : ∃ D, D = S.drop n := ⟨_, rfl⟩
  have hSsplit : S = B ++ D := by rw [hB, hD]; exact (List.take_append_drop n S).symm
  have hdoc : ∀ y ∈ S, y.2 < d := by
    intro y hy
    have := hSperm.subset hy
    obtain ⟨p, hp, rfl⟩ := List.mem_map.mp this
    exact hlt p (List.mem_filter.mp hp).1
  unfold bestOf
  rw [hL]
  by_cases hlen : B.length < n
  · rw [if_pos hlen]
    have hSlen : S.length < n := by
      have h := hlen
      rw [hB, List.length_take] at h; omega
    have hBS : B = S := by rw [hB]; exact List.take_of_length_le (by omega)
    apply take_sort_of_split kdLe kdLe_trans kdLe_total kdLe_antisymm n _ _ []
    · rw [List.append_nil, hBS]
      exact (List.perm_append_comm.trans (List.Perm.cons x hSperm.symm)).trans (insortKD_perm x S).symm
    · rw [hBS]; exact insortKD_sorted x S hSsorted
    · rw [hBS, (insortKD_perm x S).length_eq]; simp; omega
    · intro l hl; simp at hl
  · rw [if_neg hlen]
    have hBlen : B.length = n := by
      have : B.length ≤ n := by rw [hB]; exact List.length_take_le n S
      omega
    have hBne : B ≠ [] := by intro h; rw [h] at hBlen; simp at hBlen; omega
    obtain ⟨worst, hw⟩ : ∃ w, B.getLast? = some w := by
      cases hgl : B.getLast? with
      | none => exact absurd (List.getLast?_eq_none_iff.mp hgl) hBne
      | some w => exact ⟨w, rfl⟩
    rw [hw]
    dsimp only
    have hBsplit : B = B.dropLast ++ [worst] := by
      have h1 := List.dropLast_concat_getLast hBne
      have h2 : B.getLast hBne = worst := by
        have := List.getLast?_eq_some_getLast hBne
        rw [hw] at this
        exact (Option.some.inj this).symm
      rw [h2] at h1
      exact h1.symm
    have hBsorted : B.Pairwise (fun a b => kdLe a b = true) := by
      rw [hB]; exact hSsorted.sublist (List.take_sublist n S)
    have hcross : ∀ a ∈ B, ∀ b ∈ D, kdLe a b = true := by
      have := hSsorted
      rw [hSsplit, List.pairwise_append] at this
      exact this.2.2
    have hdl : ∀ r ∈ B.dropLast, kdLe r worst = true := by
      have := hBsorted
      rw [hBsplit, List.pairwise_append] at this
      intro r hr
      exact this.2.2 r hr worst (by simp)
    have hwB : worst ∈ B := by rw [hBsplit]; simp
    have hwS : worst ∈ S := by rw [hSsplit]; exact List.mem_append_left _ hwB
    have hwd : worst.2 < d := hdoc worst hwS
    by_cases hstrict : (keyLe (skey d) worst.1 && !keyLe worst.1 (skey d)) = true
    · rw [if_pos hstrict]
      have hxw : kdLe x worst = true := by
        simp only [Bool.and_eq_true, Bool.not_eq_true'] at hstrict
        simp [kdLe, hx, hstrict.1, hstrict.2]
      apply take_sort_of_split kdLe kdLe_trans kdLe_total kdLe_antisymm n _ _ (worst :: D)
      · have h1 : (P ++ [x]).Perm (x :: S) := List.perm_append_comm.trans (List.Perm.cons x hSperm.symm)
        refine h1.trans ?_
        have h2 : (x :: S).Perm (x :: (B.dropLast ++ (worst :: D))) := by
          apply List.Perm.cons
          have : S = B.dropLast ++ (worst :: D) := by
            conv => lhs; rw [hSsplit, hBsplit]
            simp
          rw [this]
        refine h2.trans ?_
        have h3 : (x :: (B.dropLast ++ (worst :: D))).Perm ((x :: B.dropLast) ++ (worst :: D)) := by simp
        exact h3.trans ((insortKD_perm x B.dropLast).symm.append_right _)
      · exact insortKD_sorted x _ (hBsorted.sublist (List.dropLast_sublist B))
      · rw [(insortKD_perm x _).length_eq]; simp; omega
      · intro l hl
        refine ⟨by rw [(insortKD_perm x _).length_eq]; simp; omega, ?_⟩
        have hwl : kdLe worst l = true := by
          rcases List.mem_cons.mp hl with rfl | hl
          · exact kdLe_trans _ _ _ (by rcases kdLe_total' l l with h | h <;> exact h) (by rcases kdLe_total' l l with h | h <;> exact h)
          · exact hcross worst hwB l hl
        intro r hr
        rcases mem_insortKD.mp hr with rfl | hr
        · exact kdLe_trans _ _ _ hxw hwl
        · exact kdLe_trans _ _ _ (hdl r hr) hwl
    · rw [if_neg hstrict]
      have hwx : kdLe worst x = true := by
        have hk : keyLe worst.1 (skey d) = true := by
          rcases keyLe_total worst.1 (skey d) with h | h
          · exact h
          · simp only [Bool.and_eq_true, Bool.not_eq_true', not_and, Bool.not_eq_false] at hstrict
            exact hstrict h
        simp only [kdLe, hx, hk, Bool.true_and, Bool.or_eq_true, Bool.and_eq_true, Bool.not_eq_true',
          decide_eq_true_eq]
        cases h2 : keyLe (skey d) worst.1
        · left; rfl
        · right; exact ⟨rfl, Nat.le_of_lt hwd⟩
      apply take_sort_of_split kdLe kdLe_trans kdLe_total kdLe_antisymm n _ _ (x :: D)
      · have h1 : (P ++ [x]).Perm (x :: S) := List.perm_append_comm.trans (List.Perm.cons x hSperm.symm)
        refine h1.trans ?_
        rw [hSsplit]
        exact List.perm_middle.symm
      · exact hBsorted
      · omega
      · intro l hl
        refine ⟨hBlen, ?_⟩
        have hwl : kdLe worst l = true := by
          rcases List.mem_cons.mp hl with rfl | hl
          · exact hwx
          · exact hcross worst hwB l hl
        intro r hr
        rw [hBsplit] at hr
        rcases List.mem_append.mp hr with hr | hr
        · exact kdLe_trans _ _ _ (hdl r hr) hwl
        · simp at hr; subst hr; exact hwl

end WM.Collect

namespace WM.Collect
open WM.Rank

/-- Invariant of `CollapseCollector.collect` after the documents `pre`. -/
structure CInv (ckey : Nat → Option Int) (skey : Nat → Key) (n : Nat) (pre : List Nat) (st : CollapseSt) : Prop where
  lists : ∀ c, dictGet c [] st.lists = bestOf ckey skey n pre c
  kept : ∀ d, d ∈ st.kept ↔
    d ∈ pre ∧ (ckey d = none ∨ ∃ c, ckey d = some c ∧ (skey d, d) ∈ bestOf ckey skey n pre c)
  counts : ∀ c, dictGet c 0 st.counts + (bestOf ckey skey n pre c).length = (keyDocs ckey c pre).length

theorem mem_bestOf {ckey : Nat → Option Int} {skey : Nat → Key} {n : Nat} {docs : List Nat} {c : Int}
    {y : Key × Nat} (hy : y ∈ bestOf ckey skey n docs c) :
    y.2 ∈ docs ∧ ckey y.2 = some c ∧ y.1 = skey y.2 := by
  have h1 := List.mem_of_mem_take hy
  have h2 := (List.mergeSort_perm _ kdLe).subset h1
  obtain ⟨p, hp, rfl⟩ := List.mem_map.mp h2
  have := List.mem_filter.mp hp
  exact ⟨this.1, by simpa using this.2, rfl⟩

theorem bestOf_nodup {ckey : Nat → Option Int} {skey : Nat → Key} {n : Nat} {docs : List Nat} {c : Int}
    (hd : docs.Nodup) : (bestOf ckey skey n docs c).Nodup := by
  unfold bestOf
  apply List.Nodup.sublist (List.take_sublist _ _)
  apply (List.mergeSort_perm _ kdLe).nodup_iff.mpr
  unfold pairsOf keyDocs
  rw [List.Nodup, List.pairwise_map]
  have h := hd.sublist (List.filter_sublist (p := fun d => ckey d == some c))
  exact h.imp (fun hne heq => hne (Prod.mk.inj heq).2)

theorem collapse_step (ckey : Nat → Option Int) (skey : Nat → Key) (n : Nat) (hn : 1 ≤ n)
    (pre : List Nat) (d : Nat) (st : CollapseSt)
    (hinv : CInv ckey skey n pre st) (hlt : ∀ p ∈ pre, p < d) (hnd : pre.Nodup) :
    ∃ st', collapseCollect ckey skey n st d = .ok st' ∧ CInv ckey skey n (pre ++ [d]) st' := by
  unfold collapseCollect
  have hdpre : d ∉ pre := fun h => Nat.lt_irrefl _ (hlt d h)
  cases hk : ckey d with
  | none =>
    refine ⟨_, rfl, ⟨?_, ?_, ?_⟩⟩
    · intro c
      rw [bestOf_snoc_other ckey skey n pre d c (by rw [hk]; simp)]
      exact hinv.lists c
    rotate_left
    · intro c
      rw [bestOf_snoc_other ckey skey n pre d c (by rw [hk]; simp),
        keyDocs_snoc_other ckey c pre d (by rw [hk]; simp)]
      exact hinv.counts c
    · intro d'
      simp only [List.mem_append, List.mem_singleton]
      rw [hinv.kept d']
      constructor
      · rintro (⟨h1, h2⟩ | rfl)
        · refine ⟨Or.inl h1, ?_⟩
          rcases h2 with h2 | ⟨c, hc, hm⟩
          · exact Or.inl h2
          · exact Or.inr ⟨c, hc, by rw [bestOf_snoc_other ckey skey n pre d c (by rw [hk]; simp)]; exact hm⟩
        · exact ⟨Or.inr rfl, Or.inl hk⟩
      · rintro ⟨h1 | rfl, h2⟩
        · left
          refine ⟨h1, ?_⟩
          rcases h2 with h2 | ⟨c, hc, hm⟩
          · exact Or.inl h2
          · exact Or.inr ⟨c, hc, by rw [bestOf_snoc_other ckey skey n pre d c (by rw [hk]; simp)] at hm; exact hm⟩
        · exact Or.inr rfl
  | some c =>
    dsimp only
    have hB := hinv.lists c
    have hsnoc := bestOf_snoc_same ckey skey n hn pre d c hk hlt
    dsimp only at hsnoc
    rw [hB]
    -- the lists of the other keys do not change
    have hother : ∀ c', c' ≠ c → bestOf ckey skey n (pre ++ [d]) c' = bestOf ckey skey n pre c' := by
      intro c' hc'
      exact bestOf_snoc_other ckey skey n pre d c' (by rw [hk]; intro h; exact hc' (Option.some.inj h).symm)
    -- membership of an old document in the new best list of its key
    have hkept_old : ∀ (newB : List (Key × Nat)), bestOf ckey skey n (pre ++ [d]) c = newB →
        ∀ d', d' ∈ pre →
        ((ckey d' = none ∨ ∃ c', ckey d' = some c' ∧ (skey d', d') ∈ bestOf ckey skey n (pre ++ [d]) c') ↔
         (ckey d' = none ∨ (∃ c', c' ≠ c ∧ ckey d' = some c' ∧ (skey d', d') ∈ bestOf ckey skey n pre c') ∨
            (ckey d' = some c ∧ (skey d', d') ∈ newB))) := by
      intro newB hnew d' _
      constructor
      · rintro (h | ⟨c', hc', hm⟩)
        · exact Or.inl h
        · by_cases hcc : c' = c
          · subst hcc; rw [hnew] at hm; exact Or.inr (Or.inr ⟨hc', hm⟩)
          · rw [hother c' hcc] at hm; exact Or.inr (Or.inl ⟨c', hcc, hc', hm⟩)
      · rintro (h | ⟨c', hcc, hc', hm⟩ | ⟨hc', hm⟩)
        · exact Or.inl h
        · exact Or.inr ⟨c', hc', by rw [hother c' hcc]; exact hm⟩
        · exact Or.inr ⟨c, hc', by rw [hnew]; exact hm⟩
    have hkd_other : ∀ c', c' ≠ c → keyDocs ckey c' (pre ++ [d]) = keyDocs ckey c' pre := by
      intro c' hc'
      exact keyDocs_snoc_other ckey c' pre d (by rw [hk]; intro h; exact hc' (Option.some.inj h).symm)
    have hkd_same : (keyDocs ckey c (pre ++ [d])).length = (keyDocs ckey c pre).length + 1 := by
      rw [keyDocs_snoc_same ckey c pre d hk]; simp
    have hBlen_le : (bestOf ckey skey n pre c).length ≤ n := by
      unfold bestOf; exact List.length_take_le _ _
    by_cases hlen : (bestOf ckey skey n pre c).length < n
    · rw [if_pos hlen] at hsnoc
      rw [if_pos hlen]
      refine ⟨_, rfl, ⟨?_, ?_, ?_⟩⟩
      rotate_right
      · intro c'
        by_cases hcc : c' = c
        · subst hcc
          rw [hsnoc, (insortKD_perm _ _).length_eq, hkd_same]
          have := hinv.counts c'
          simp only [List.length_cons]; omega
        · rw [hother c' hcc, hkd_other c' hcc]; exact hinv.counts c'
      · intro c'
        by_cases hcc : c' = c
        · subst hcc; rw [dictGet_update_same, hsnoc]
        · rw [dictGet_update_other _ _ _ _ _ _ hcc, hother c' hcc]; exact hinv.lists c'
      · intro d'
        simp only [List.mem_append, List.mem_singleton]
        constructor
        · rintro (h | rfl)
          · have ⟨h1, h2⟩ := (hinv.kept d').mp h
            refine ⟨Or.inl h1, ((hkept_old _ hsnoc d' h1).mpr ?_)⟩
            rcases h2 with h2 | ⟨c', hc', hm⟩
            · exact Or.inl h2
            · by_cases hcc : c' = c
              · subst hcc; exact Or.inr (Or.inr ⟨hc', mem_insortKD.mpr (Or.inr hm)⟩)
              · exact Or.inr (Or.inl ⟨c', hcc, hc', hm⟩)
          · exact ⟨Or.inr rfl, Or.inr ⟨c, hk, by rw [hsnoc]; exact mem_insortKD.mpr (Or.inl rfl)⟩⟩
        · rintro ⟨h1 | rfl, h2⟩
          · left
            apply (hinv.kept d').mpr
            refine ⟨h1, ?_⟩
            rcases (hkept_old _ hsnoc d' h1).mp h2 with h | ⟨c', _, hc', hm⟩ | ⟨hc', hm⟩
            · exact Or.inl h
            · exact Or.inr ⟨c', hc', hm⟩
            · rcases mem_insortKD.mp hm with h | h
              · exact absurd (by rw [← (Prod.mk.inj h).2]; exact h1) hdpre
              · exact Or.inr ⟨c, hc', h⟩
          · exact Or.inr rfl
    · rw [if_neg hlen] at hsnoc
      rw [if_neg hlen]
      cases hgl : (bestOf ckey skey n pre c).getLast? with
      | none =>
        -- impossible: the list has `n ≥ 1` elements
        have : bestOf ckey skey n pre c = [] := List.getLast?_eq_none_iff.mp hgl
        rw [this] at hlen; simp at hlen; omega
      | some worst =>
        rw [hgl] at hsnoc
        dsimp only at hsnoc ⊢
        have hwB : worst ∈ bestOf ckey skey n pre c := List.mem_of_getLast? hgl
        obtain ⟨hw1, hw2, hw3⟩ := mem_bestOf hwB
        have hBnd := bestOf_nodup (ckey := ckey) (skey := skey) (n := n) (c := c) hnd
        have hBsplit : bestOf ckey skey n pre c = (bestOf ckey skey n pre c).dropLast ++ [worst] := by
          have hne : bestOf ckey skey n pre c ≠ [] := List.ne_nil_of_mem hwB
          have h1 := List.dropLast_concat_getLast hne
          have h2 : (bestOf ckey skey n pre c).getLast hne = worst := by
            have := List.getLast?_eq_some_getLast hne
            rw [hgl] at this
            exact (Option.some.inj this).symm
          rw [h2] at h1
          exact h1.symm
        have hwdl : worst ∉ (bestOf ckey skey n pre c).dropLast := by
          intro h
          have := hBnd
          rw [hBsplit, List.nodup_append] at this
          exact this.2.2 worst h worst (by simp) rfl
        by_cases hstrict : (keyLe (skey d) worst.1 && !keyLe worst.1 (skey d)) = true
        · rw [if_pos hstrict] at hsnoc
          rw [if_pos hstrict]
          refine ⟨_, rfl, ⟨?_, ?_, ?_⟩⟩
          rotate_right
          · intro c'
            by_cases hcc : c' = c
            · subst hcc
              simp only []
              rw [dictGet_update_same, hsnoc, (insortKD_perm _ _).length_eq, hkd_same]
              have := hinv.counts c'
              have hdl : (bestOf ckey skey n pre c').dropLast.length = (bestOf ckey skey n pre c').length - 1 :=
                List.length_dropLast
              simp only [List.length_cons]; omega
            · simp only []
              rw [dictGet_update_other _ _ _ _ _ _ hcc, hother c' hcc, hkd_other c' hcc]; exact hinv.counts c'
          · intro c'
            by_cases hcc : c' = c
            · subst hcc; simp only []; rw [dictGet_update_same, hsnoc]
            · simp only []; rw [dictGet_update_other _ _ _ _ _ _ hcc, hother c' hcc]; exact hinv.lists c'
          · intro d'
            simp only [List.mem_append, List.mem_singleton, List.mem_filter, bne_iff_ne, ne_eq]
            constructor
            · rintro (⟨h, hne⟩ | rfl)
              · have ⟨h1, h2⟩ := (hinv.kept d').mp h
                refine ⟨Or.inl h1, ((hkept_old _ hsnoc d' h1).mpr ?_)⟩
                rcases h2 with h2 | ⟨c', hc', hm⟩
                · exact Or.inl h2
                · by_cases hcc : c' = c
                  · subst hcc
                    refine Or.inr (Or.inr ⟨hc', mem_insortKD.mpr (Or.inr ?_)⟩)
                    rw [hBsplit] at hm
                    rcases List.mem_append.mp hm with hm | hm
                    · exact hm
                    · simp at hm; exact absurd (by rw [← hm]) hne
                  · exact Or.inr (Or.inl ⟨c', hcc, hc', hm⟩)
              · exact ⟨Or.inr rfl, Or.inr ⟨c, hk, by rw [hsnoc]; exact mem_insortKD.mpr (Or.inl rfl)⟩⟩
            · rintro ⟨h1 | rfl, h2⟩
              · left
                rcases (hkept_old _ hsnoc d' h1).mp h2 with h | ⟨c', hcc, hc', hm⟩ | ⟨hc', hm⟩
                · refine ⟨(hinv.kept d').mpr ⟨h1, Or.inl h⟩, ?_⟩
                  intro he; rw [he, hw2] at h; cases h
                · refine ⟨(hinv.kept d').mpr ⟨h1, Or.inr ⟨c', hc', hm⟩⟩, ?_⟩
                  intro he; rw [he, hw2] at hc'; exact hcc (Option.some.inj hc').symm
                · rcases mem_insortKD.mp hm with h | h
                  · exact absurd (by rw [← (Prod.mk.inj h).2]; exact h1) hdpre
                  · refine ⟨(hinv.kept d').mpr ⟨h1, Or.inr ⟨c, hc', (List.dropLast_sublist _).subset h⟩⟩, ?_⟩
                    intro he
                    apply hwdl
                    have : worst = (skey d', d') := by
                      rw [he]; exact Prod.ext hw3 rfl
                    rw [this]; exact h
              · exact Or.inr rfl
        · rw [if_neg hstrict] at hsnoc
          rw [if_neg hstrict]
          refine ⟨_, rfl, ⟨?_, ?_, ?_⟩⟩
          rotate_right
          · intro c'
            by_cases hcc : c' = c
            · subst hcc
              simp only []
              rw [dictGet_update_same, hsnoc, hkd_same]
              have := hinv.counts c'
              omega
            · simp only []
              rw [dictGet_update_other _ _ _ _ _ _ hcc, hother c' hcc, hkd_other c' hcc]; exact hinv.counts c'
          · intro c'
            by_cases hcc : c' = c
            · subst hcc; simp only []; rw [hsnoc]; exact hinv.lists c'
            · simp only []; rw [hother c' hcc]; exact hinv.lists c'
          · intro d'
            simp only [List.mem_append, List.mem_singleton]
            rw [hinv.kept d']
            constructor
            · rintro ⟨h1, h2⟩
              refine ⟨Or.inl h1, (hkept_old _ hsnoc d' h1).mpr ?_⟩
              rcases h2 with h2 | ⟨c', hc', hm⟩
              · exact Or.inl h2
              · by_cases hcc : c' = c
                · subst hcc; exact Or.inr (Or.inr ⟨hc', hm⟩)
                · exact Or.inr (Or.inl ⟨c', hcc, hc', hm⟩)
            · rintro ⟨h1 | rfl, h2⟩
              · refine ⟨h1, ?_⟩
                rcases (hkept_old _ hsnoc d' h1).mp h2 with h | ⟨c', _, hc', hm⟩ | ⟨hc', hm⟩
                · exact Or.inl h
                · exact Or.inr ⟨c', hc', hm⟩
                · exact Or.inr ⟨c, hc', hm⟩
              · -- the new document itself was refused: it is not in the (unchanged) best list
                exfalso
                rcases h2 with h | ⟨c', hc', hm⟩
                · rw [hk] at h; cases h
                · have hcc : c' = c := by rw [hk] at hc'; exact (Option.some.inj hc').symm
                  subst hcc
                  rw [hsnoc] at hm
                  exact hdpre (mem_bestOf hm).1

/-- `collapseRun` keeps the invariant over any ascending run of documents. -/
theorem collapseRun_inv (ckey : Nat → Option Int) (skey : Nat → Key) (n : Nat) (hn : 1 ≤ n) :
    ∀ (docs pre : List Nat) (st : CollapseSt), CInv ckey skey n pre st → (pre ++ docs).Pairwise (· < ·) →
      ∃ st', collapseRun ckey skey n docs st = .ok st' ∧ CInv ckey skey n (pre ++ docs) st' := by
  intro docs
  induction docs with
  | nil => intro pre st hinv _; exact ⟨st, rfl, by simpa using hinv⟩
  | cons d ds ih =>
    intro pre st hinv hasc
    have hlt : ∀ p ∈ pre, p < d := by
      intro p hp
      rw [List.pairwise_append] at hasc
      exact hasc.2.2 p hp d (by simp)
    have hnd : pre.Nodup := by
      have := (List.pairwise_append.mp hasc).1
      exact this.imp (fun h => Nat.ne_of_lt h)
    obtain ⟨st1, h1, hinv1⟩ := collapse_step ckey skey n hn pre d st hinv hlt hnd
    have hasc' : (pre ++ [d] ++ ds).Pairwise (· < ·) := by simpa using hasc
    obtain ⟨st2, h2, hinv2⟩ := ih (pre ++ [d]) st1 hinv1 hasc'
    refine ⟨st2, ?_, by simpa using hinv2⟩
    simp only [collapseRun, h1, h2]

end WM.Collect
