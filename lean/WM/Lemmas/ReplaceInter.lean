import WM.Lemmas.ReplaceSpec
/-! `IntersectionMatcher.replace` and `RequireMatcher.replace`. -/
namespace WM.Matcher

theorem slack_ok {q v : Rat} {mq : R Rat} (h : mq = .ok v) : slack q mq = .ok (if q = 0 then 0 else q - v) := by
  unfold slack
  by_cases hq : q = 0
  · subst hq; simp; rfl
  · have : (q != 0) = true := by simp [hq]
    simp [this, hq, h, bind, Except.bind, pure, Except.pure]

theorem slack_zero (mq : R Rat) : slack 0 mq = .ok 0 := by
  unfold slack; simp; rfl

theorem bool_and_false {a b : Bool} (h : ¬ (a && b) = true) : a = false ∨ b = false := by
  cases a <;> cases b <;> simp_all

theorem any_den_nil_of_inactive (r : Any) (h : W0 Unit01 r.1 r.2) (hi : r.isActive = false) : r.den = [] :=
  ((QT r.1).cur0.inactive h).1 hi

theorem any_isActive (m : Any) : m.isActive = (ops m.1).isActive m.2 := rfl
theorem any_den (m : Any) : m.den = den m.1 m.2 := rfl

section
variable {sa sb : Shape} {ra : St sa → Rat → Repl} {rb : St sb → Rat → Repl}

/-- tail of `IntersectionMatcher.replace` -/
theorem interMain_spec (hra : ReplSpec sa ra) (hrb : ReplSpec sb rb) (m : Bin (St sa) (St sb)) (q amin bmin : Rat)
    (h : W0 Unit01 (.inter sa sb) m) (hq0 : q = 0 → amin = 0 ∧ bmin = 0)
    (hqn : q ≠ 0 → (∀ e ∈ den sb m.b, amin ≤ q - e.2) ∧ (∀ e ∈ den sa m.a, bmin ≤ q - e.2)) :
    ∃ out, interMain sa sb ra rb m amin bmin = .ok out ∧ ReplOK (.inter sa sb) m q out := by
  obtain ⟨wa, wb, hal⟩ := h
  obtain ⟨⟨ca, a'⟩, e1, oa⟩ := hra m.a amin wa
  obtain ⟨⟨cb, b'⟩, e2, ob⟩ := hrb m.b bmin wb
  have ascA := (QT sa).cur0.asc _ wa
  have ascB := (QT sb).cur0.asc _ wb
  have ascA' := (QT a'.1).cur0.asc _ oa.w0
  have ascB' := (QT b'.1).cur0.asc _ ob.w0
  have E0 : q = 0 → interWith (· + ·) a'.den b'.den = interWith (· + ·) (den sa m.a) (den sb m.b) := by
    intro hq
    obtain ⟨ha0, hb0⟩ := hq0 hq
    rw [oa.eq0 ha0, ob.eq0 hb0]
  have K : Keeps q (interWith (· + ·) a'.den b'.den) (interWith (· + ·) (den sa m.a) (den sb m.b)) := by
    by_cases hq : q = 0
    · exact Keeps.of_eq (E0 hq)
    · obtain ⟨H1, H2⟩ := hqn hq
      refine (keeps_interAdd_right ascA' ascB ascB' ob.keeps ?_).trans (keeps_interAdd_left ascA ascA' oa.keeps H1)
      intro e he
      obtain ⟨r, hr, hle⟩ := oa.keeps.dom e he
      have := H2 (e.1, r) hr
      simp only at this
      grind
  unfold interMain
  simp only [e1, e2, bind, Except.bind]
  by_cases hact : (a'.isActive && b'.isActive) = true
  · simp only [hact, Bool.not_true, Bool.false_eq_true, ↓reduceIte]
    by_cases hc : (ca || cb) = true
    · simp only [hc, ↓reduceIte]
      obtain ⟨i, g1, g2, g3, -⟩ := Inter.init_spec (· + ·) (QT a'.1).cur0 (QT b'.1).cur0 a'.2 b'.2 oa.w0 ob.w0
      refine ⟨(true, ⟨.inter a'.1 b'.1, i⟩), by simp [mkInter, g1, bind, Except.bind]; rfl,
        ⟨g2, ?_, ?_, fun hh => by cases hh⟩⟩
      · show Keeps q (interWith (· + ·) (den a'.1 i.a) (den b'.1 i.b)) _
        rw [g3]; exact K
      · intro hq
        show interWith (· + ·) (den a'.1 i.a) (den b'.1 i.b) = _
        rw [g3]; exact E0 hq
    · simp only [hc, Bool.false_eq_true, ↓reduceIte]
      exact ⟨_, rfl, ReplOK.self (.inter sa sb) m q ⟨wa, wb, hal⟩⟩
  · simp only [hact, Bool.not_false, ↓reduceIte]
    have hnil : interWith (· + ·) a'.den b'.den = [] := by
      rcases bool_and_false hact with h1 | h1
      · rw [any_den_nil_of_inactive a' oa.w0 h1]; exact interWith_nil_left _ _
      · rw [any_den_nil_of_inactive b' ob.w0 h1]; exact interWith_nil_right _ _
    refine ⟨_, rfl, ReplOK.null ?_ ?_⟩
    · rw [← hnil]; exact K
    · intro hq
      show interWith (· + ·) (den sa m.a) (den sb m.b) = []
      rw [← E0 hq]; exact hnil

/-- `IntersectionMatcher.replace` -/
theorem interReplace_spec (hra : ReplSpec sa ra) (hrb : ReplSpec sb rb) :
    ∀ m q, W0 Unit01 (.inter sa sb) m → ∃ out, interReplace sa sb ra rb m q = .ok out ∧ ReplOK (.inter sa sb) m q out := by
  intro m q h
  have wa := h.1
  have wb := h.2.1
  unfold interReplace
  by_cases hact : ((ops sa).isActive m.a && (ops sb).isActive m.b) = true
  · simp only [hact, Bool.not_true, Bool.false_eq_true, ↓reduceIte]
    by_cases hq : q = 0
    · subst hq
      simp only [bne_self_eq_false, Bool.false_eq_true, ↓reduceIte]
      exact interMain_spec hra hrb m 0 0 0 h (fun _ => ⟨rfl, rfl⟩) (fun hh => absurd rfl hh)
    · have hne : (q != 0) = true := by simp [hq]
      obtain ⟨amax, ha1, ha2⟩ := (QT sa).max m.a wa
      obtain ⟨bmax, hb1, hb2⟩ := (QT sb).max m.b wb
      simp only [hne, ↓reduceIte, ha1, hb1, bind, Except.bind]
      by_cases hlow : amax + bmax < q
      · simp only [hlow, ↓reduceIte]
        refine ⟨_, rfl, ReplOK.null (keeps_nil_of_lt (bounded_interAdd ((QT sa).cur0.asc _ wa) ha2 hb2) hlow)
          (fun hh => absurd hh hq)⟩
      · simp only [hlow, ↓reduceIte]
        apply interMain_spec hra hrb m q (q - bmax) (q - amax) h (fun hh => absurd hh hq)
        intro _
        exact ⟨fun e he => by have := hb2 e he; grind, fun e he => by have := ha2 e he; grind⟩
  · simp only [hact, Bool.not_false, ↓reduceIte]
    refine ⟨_, rfl, ReplOK.null_of_empty ?_⟩
    show interWith (· + ·) (den sa m.a) (den sb m.b) = []
    rcases bool_and_false hact with h1 | h1
    · rw [((QT sa).cur0.inactive wa).1 h1]; exact interWith_nil_left _ _
    · rw [((QT sb).cur0.inactive wb).1 h1]; exact interWith_nil_right _ _

/-- `RequireMatcher.replace` -/
theorem requireReplace_spec (hra : ReplSpec sa ra) (hrb : ReplSpec sb rb) :
    ∀ m q, W0 Unit01 (.require sa sb) m → ∃ out, requireReplace sa sb ra rb m q = .ok out ∧ ReplOK (.require sa sb) m q out := by
  intro m q h
  obtain ⟨wa, wb, hal⟩ := h
  have ascA := (QT sa).cur0.asc _ wa
  -- the tail
  have main : ∃ out, requireMain sa sb ra rb m q = .ok out ∧ ReplOK (.require sa sb) m q out := by
    obtain ⟨⟨ca, a'⟩, e1, oa⟩ := hra m.a q wa
    obtain ⟨⟨cb, b'⟩, e2, ob⟩ := hrb m.b 0 wb
    have ascA' := (QT a'.1).cur0.asc _ oa.w0
    have K : Keeps q (interWith (fun s _ => s) a'.den (den sb m.b)) (interWith (fun s _ => s) (den sa m.a) (den sb m.b)) :=
      keeps_interFst_left ascA ascA' oa.keeps
    have E0 : q = 0 → interWith (fun s _ => s) a'.den (den sb m.b) = interWith (fun s _ => s) (den sa m.a) (den sb m.b) := by
      intro hq; rw [oa.eq0 hq]
    unfold requireMain
    simp only [e1, e2, bind, Except.bind]
    by_cases hact : a'.isActive = true
    · simp only [hact, Bool.not_true, Bool.false_eq_true, ↓reduceIte]
      by_cases hc : (ca || cb) = true
      · simp only [hc, ↓reduceIte]
        obtain ⟨i, g1, g2, g3, -⟩ := Inter.init_spec (fun s _ => s) (QT a'.1).cur0 (QT sb).cur0 a'.2 m.b oa.w0 wb
        refine ⟨(true, ⟨.require a'.1 sb, i⟩), by simp [mkRequire, g1, bind, Except.bind]; rfl,
          ⟨g2, ?_, ?_, fun hh => by cases hh⟩⟩
        · show Keeps q (interWith (fun s _ => s) (den a'.1 i.a) (den sb i.b)) _
          rw [g3]; exact K
        · intro hq
          show interWith (fun s _ => s) (den a'.1 i.a) (den sb i.b) = _
          rw [g3]; exact E0 hq
      · simp only [hc, Bool.false_eq_true, ↓reduceIte]
        exact ⟨_, rfl, ReplOK.self (.require sa sb) m q ⟨wa, wb, hal⟩⟩
    · simp only [hact, Bool.not_false, ↓reduceIte]
      have hnil : interWith (fun s _ => s) a'.den (den sb m.b) = [] := by
        have h1 : a'.isActive = false := by cases hx : a'.isActive with | false => rfl | true => exact absurd hx hact
        rw [any_den_nil_of_inactive a' oa.w0 h1]; exact interWith_nil_left _ _
      refine ⟨_, rfl, ReplOK.null ?_ ?_⟩
      · rw [← hnil]; exact K
      · intro hq
        show interWith (fun s _ => s) (den sa m.a) (den sb m.b) = []
        rw [← E0 hq]; exact hnil
  unfold requireReplace
  by_cases hact : ((ops sa).isActive m.a && (ops sb).isActive m.b) = true
  · simp only [hact, Bool.not_true, Bool.false_eq_true, ↓reduceIte]
    by_cases hq : q = 0
    · subst hq
      simp only [bne_self_eq_false, Bool.false_eq_true, ↓reduceIte]
      exact main
    · have hne : (q != 0) = true := by simp [hq]
      obtain ⟨amax, ha1, ha2⟩ := (QT sa).max m.a wa
      simp only [hne, ↓reduceIte, ha1, bind, Except.bind]
      by_cases hlow : amax < q
      · simp only [hlow, ↓reduceIte]
        exact ⟨_, rfl, ReplOK.null (keeps_nil_of_lt (bounded_interFst ascA ha2) hlow) (fun hh => absurd hh hq)⟩
      · simp only [hlow, ↓reduceIte]
        exact main
  · simp only [hact, Bool.not_false, ↓reduceIte]
    refine ⟨_, rfl, ReplOK.null_of_empty ?_⟩
    show interWith (fun s _ => s) (den sa m.a) (den sb m.b) = []
    rcases bool_and_false hact with h1 | h1
    · rw [((QT sa).cur0.inactive wa).1 h1]; exact interWith_nil_left _ _
    · rw [((QT sb).cur0.inactive wb).1 h1]; exact interWith_nil_right _ _

end
end WM.Matcher
