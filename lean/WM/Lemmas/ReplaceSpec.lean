import WM.Lemmas.QualityTree
import WM.Lemmas.KeepsRepl
/-! `replace(minquality)` keeps every entry scoring above `minquality` (C12 `replace_keeps`, C11 `replace0`). -/
namespace WM.Matcher

/-- boosts for which `WrappingMatcher.replace` (threshold handed to the child unscaled) is sound -/
abbrev Unit01 : Rat → Prop := fun b => 0 < b ∧ b ≤ 1

theorem unit01_pos : ∀ b, Unit01 b → 0 < b := fun _ h => h.1

/-- the quality contract of every tree, with boosts in `(0, 1]` -/
theorem QT (s : Shape) : QFaithful (ops s) (den s) (full s) (WQ Unit01 s) (W0 Unit01 s) :=
  tree_qfaithful Unit01 unit01_pos s

/-- what `replace s m q` must deliver: a well-formed tree that keeps everything above `q` (and everything
    when `q = 0`); the flag `false` only together with the unchanged matcher -/
structure ReplOK (s : Shape) (m : St s) (q : Rat) (out : Bool × Any) : Prop where
  w0 : W0 Unit01 out.2.1 out.2.2
  keeps : Keeps q out.2.den (den s m)
  eq0 : q = 0 → out.2.den = den s m
  same : out.1 = false → out.2 = ⟨s, m⟩

def ReplSpec (s : Shape) (r : St s → Rat → Repl) : Prop :=
  ∀ m q, W0 Unit01 s m → ∃ out, r m q = .ok out ∧ ReplOK s m q out

theorem ReplOK.self (s : Shape) (m : St s) (q : Rat) (h : W0 Unit01 s m) : ReplOK s m q (false, ⟨s, m⟩) :=
  ⟨h, Keeps.refl _ _, fun _ => rfl, fun _ => rfl⟩

theorem ReplOK.null {s : Shape} {m : St s} {q : Rat} (hk : Keeps q [] (den s m)) (h0 : q = 0 → den s m = []) :
    ReplOK s m q (true, Any.null) :=
  ⟨trivial, hk, fun hq => (h0 hq).symm, fun h => by cases h⟩

theorem ReplOK.null_of_empty {s : Shape} {m : St s} {q : Rat} (h : den s m = []) : ReplOK s m q (true, Any.null) :=
  ReplOK.null (by rw [h]; exact Keeps.refl _ _) (fun _ => h)

/-- a replacement computed for one tree serves as replacement of another one meaning (almost) the same -/
theorem ReplOK.transfer {s s' : Shape} {m : St s} {m' : St s'} {q : Rat} {out : Bool × Any}
    (h : ReplOK s' m' q out) (hk : Keeps q (den s' m') (den s m)) (h0 : q = 0 → den s' m' = den s m) :
    ReplOK s m q (true, out.2) :=
  ⟨h.w0, h.keeps.trans hk, fun hq => (h.eq0 hq).trans (h0 hq), fun h => by cases h⟩

theorem changed_ok {r : Repl} {out : Bool × Any} (h : r = .ok out) : changed r = .ok (true, out.2) := by
  subst h; rfl

/-! ### leaves -/

theorem replace_null_spec : ReplSpec .null (replace .null) :=
  fun m q h => ⟨(false, Any.null), rfl, ReplOK.self .null m q h⟩

theorem replace_leaf_spec : ReplSpec .leaf (replace .leaf) :=
  fun m q h => ⟨(false, ⟨.leaf, m⟩), rfl, ReplOK.self .leaf m q h⟩

theorem replace_list_spec : ReplSpec .list (replace .list) := by
  intro m q h
  show ∃ out, (if !ListM.isActive m then nullRepl
    else if q != 0 && decide (m.blockMaxWeight < q) then nullRepl else pure (false, ⟨.list, m⟩)) = _ ∧ _
  by_cases ha : ListM.isActive m = true
  · simp only [ha, Bool.not_true, Bool.false_eq_true, ↓reduceIte]
    by_cases hc : (q != 0 && decide (m.blockMaxWeight < q)) = true
    · simp only [hc, ↓reduceIte]
      simp only [Bool.and_eq_true, bne_iff_ne, ne_eq, decide_eq_true_eq] at hc
      exact ⟨_, rfl, ReplOK.null (keeps_nil_of_lt (ListM.den_bounded m) hc.2) (fun hq => absurd hq hc.1)⟩
    · simp only [hc, Bool.false_eq_true, ↓reduceIte]
      exact ⟨_, rfl, ReplOK.self .list m q h⟩
  · simp only [ha, Bool.not_false, ↓reduceIte]
    refine ⟨_, rfl, ReplOK.null_of_empty ?_⟩
    have hf : ListM.ops.isActive m = false := by
      show ListM.isActive m = false
      cases hx : ListM.isActive m with
      | false => rfl
      | true => exact absurd hx ha
    exact (ListM.faithful.inactive h.1).1 hf

/-! ### single-child wrappers -/

theorem replace_boost_spec (sc : Shape) (ih : ReplSpec sc (replace sc)) : ReplSpec (.boost sc) (replace (.boost sc)) := by
  intro m q h
  obtain ⟨out, h1, h2⟩ := ih m.child q h.1
  obtain ⟨c, r⟩ := out
  show ∃ out, (do let (c, r) ← replace sc m.child q
                  if c then pure (true, mkBoost r m.boost) else pure (false, (⟨.boost sc, m⟩ : Any))) = _ ∧ _
  rw [h1]
  cases c with
  | false =>
    have := h2.same rfl
    simp only at this
    exact ⟨(false, ⟨.boost sc, m⟩), rfl, ReplOK.self _ m q h⟩
  | true =>
    refine ⟨(true, mkBoost r m.boost), rfl, ⟨⟨h2.w0, h.2⟩, ?_, ?_, fun hh => by cases hh⟩⟩
    · exact keeps_scale_unscaled h.2.1 h.2.2 ((QT sc).cur0.asc _ h.1) ((QT r.1).cur0.asc _ h2.w0) ((QT sc).nn _ h.1) h2.keeps
    · intro hq
      show scale m.boost r.den = scale m.boost (den sc m.child)
      rw [h2.eq0 hq]

theorem replace_const_spec (sc : Shape) (ih : ReplSpec sc (replace sc)) : ReplSpec (.const sc) (replace (.const sc)) := by
  intro m q h
  obtain ⟨out, h1, h2⟩ := ih m.child 0 h.1
  obtain ⟨c, r⟩ := out
  show ∃ out, (if q != 0 && decide (m.score < q) then nullRepl
    else do let (c, r) ← replace sc m.child 0
            if c then pure (true, mkConst r m.score) else pure (false, (⟨.const sc, m⟩ : Any))) = _ ∧ _
  by_cases hc : (q != 0 && decide (m.score < q)) = true
  · simp only [hc, ↓reduceIte]
    simp only [Bool.and_eq_true, bne_iff_ne, ne_eq, decide_eq_true_eq] at hc
    exact ⟨_, rfl, ReplOK.null (keeps_nil_of_lt (bounded_constScore _ _) hc.2) (fun hq => absurd hq hc.1)⟩
  · simp only [hc, Bool.false_eq_true, ↓reduceIte, h1]
    cases c with
    | false => exact ⟨(false, ⟨.const sc, m⟩), rfl, ReplOK.self _ m q h⟩
    | true =>
      have he : r.den = den sc m.child := h2.eq0 rfl
      refine ⟨(true, mkConst r m.score), rfl, ⟨⟨h2.w0, h.2⟩, ?_, ?_, fun hh => by cases hh⟩⟩
      · apply Keeps.of_eq
        show constScore m.score r.den = constScore m.score (den sc m.child)
        rw [he]
      · intro _
        show constScore m.score r.den = constScore m.score (den sc m.child)
        rw [he]

theorem replace_filter_spec (sc : Shape) (ih : ReplSpec sc (replace sc)) : ReplSpec (.filter sc) (replace (.filter sc)) := by
  intro m q h
  obtain ⟨out, h1, h2⟩ := ih m.child q h.1.1
  obtain ⟨c, r⟩ := out
  show ∃ out, (do let (c, r) ← replace sc m.child q
                  if c then (do let f ← mkFilter r m.ids m.exclude m.boost; pure (true, f))
                  else pure (false, (⟨.filter sc, m⟩ : Any))) = _ ∧ _
  rw [h1]
  cases c with
  | false => exact ⟨(false, ⟨.filter sc, m⟩), rfl, ReplOK.self _ m q h⟩
  | true =>
    obtain ⟨m', g1, g2, g3, -⟩ := Filter.init_spec (QT r.1).cur0 r.2 m.ids m.exclude m.boost h2.w0
    have hb : m'.boost = m.boost := Filter.findNext_boost (m := ⟨r.2, m.ids, m.exclude, m.boost⟩) g1
    refine ⟨(true, ⟨.filter r.1, m'⟩), by simp [mkFilter, g1, bind, Except.bind]; rfl,
      ⟨⟨g2, by rw [hb]; exact h.2⟩, ?_, ?_, fun hh => by cases hh⟩⟩
    · show Keeps q (scale m'.boost (keepIds m'.ids m'.exclude (den r.1 m'.child))) _
      rw [g3]
      exact keeps_scale_unscaled h.2.1 h.2.2 (asc_keepIds _ _ ((QT sc).cur0.asc _ h.1.1))
        (asc_keepIds _ _ ((QT r.1).cur0.asc _ h2.w0))
        (nonNeg_sublist (Filter.keepIds_subset _ _ _) ((QT sc).nn _ h.1.1))
        (keeps_keepIds _ _ ((QT sc).cur0.asc _ h.1.1) ((QT r.1).cur0.asc _ h2.w0) h2.keeps)
    · intro hq
      show scale m'.boost (keepIds m'.ids m'.exclude (den r.1 m'.child)) = _
      rw [g3]
      show scale m.boost (keepIds m.ids m.exclude r.den) = _
      rw [h2.eq0 hq]; rfl

theorem replace_inverse_spec (sc : Shape) (ih : ReplSpec sc (replace sc)) :
    ReplSpec (.inverse sc) (replace (.inverse sc)) := by
  intro m q h
  obtain ⟨out, h1, h2⟩ := ih m.child 0 h.1.1
  obtain ⟨c, r⟩ := out
  show ∃ out, (do let (c, r) ← replace sc m.child 0
                  if c then (do let f ← mkInverse r m.limit m.missing m.weight m.id; pure (true, f))
                  else pure (false, (⟨.inverse sc, m⟩ : Any))) = _ ∧ _
  rw [h1]
  cases c with
  | false => exact ⟨(false, ⟨.inverse sc, m⟩), rfl, ReplOK.self _ m q h⟩
  | true =>
    obtain ⟨m', g1, g2, g3, -⟩ := Inverse.init_spec (QT r.1).cur0 r.2 m.limit m.missing m.weight m.id h2.w0
    have hw : m'.weight = m.weight := Inverse.findNext_weight (m := ⟨r.2, m.limit, m.missing, m.weight, m.id⟩) g1
    have he : r.den = den sc m.child := h2.eq0 rfl
    have hden : complement m'.id m'.limit m'.missing (den r.1 m'.child) m'.weight =
        complement m.id m.limit m.missing (den sc m.child) m.weight := by
      rw [g3]; show complement m.id m.limit m.missing r.den m.weight = _; rw [he]
    refine ⟨(true, ⟨.inverse r.1, m'⟩), by simp [mkInverse, g1, bind, Except.bind]; rfl,
      ⟨⟨g2, by rw [hw]; exact h.2⟩, Keeps.of_eq hden, fun _ => hden, fun hh => by cases hh⟩⟩

end WM.Matcher
