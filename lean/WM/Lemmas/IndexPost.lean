import WM.Lemmas.IndexCommit
/-! The term index: postings of a segment versus its per-document data. -/
namespace WM.Index
open WM.Dict

/-! ### `Posting.le` is a total order (Python tuple order) -/

theorem Posting.le_iff (a b : Posting) : Posting.le a b = true ↔
    (a.fld < b.fld ∨ (a.fld = b.fld ∧ (a.term < b.term ∨ (a.term = b.term ∧
      (a.doc < b.doc ∨ (a.doc = b.doc ∧ (a.w < b.w ∨ (a.w = b.w ∧ a.v ≤ b.v)))))))) := by
  simp [Posting.le]

theorem Posting.le_trans (a b c : Posting) (h1 : Posting.le a b = true) (h2 : Posting.le b c = true) :
    Posting.le a c = true := by
  rw [Posting.le_iff] at *
  omega

theorem Posting.le_total (a b : Posting) : (Posting.le a b || Posting.le b a) = true := by
  rw [Bool.or_eq_true, Posting.le_iff, Posting.le_iff]
  omega

theorem Posting.le_antisymm (a b : Posting) (h1 : Posting.le a b = true) (h2 : Posting.le b a = true) : a = b := by
  rw [Posting.le_iff] at *
  cases a; cases b
  simp only [Posting.mk.injEq] at *
  omega

/-- Two sorted lists with the same elements are the same list. -/
theorem sorted_perm_eq {l1 l2 : List Posting} (h1 : l1.Pairwise (fun a b => Posting.le a b = true))
    (h2 : l2.Pairwise (fun a b => Posting.le a b = true)) (hp : l1.Perm l2) : l1 = l2 :=
  List.Perm.eq_of_pairwise (fun a b _ _ hab hba => Posting.le_antisymm a b hab hba) h1 h2 hp

theorem mergeSort_sorted (l : List Posting) : (l.mergeSort Posting.le).Pairwise (fun a b => Posting.le a b = true) :=
  List.pairwise_mergeSort Posting.le_trans Posting.le_total l

theorem mergeSort_congr {l1 l2 : List Posting} (hp : l1.Perm l2) : l1.mergeSort Posting.le = l2.mergeSort Posting.le :=
  sorted_perm_eq (mergeSort_sorted l1) (mergeSort_sorted l2)
    ((List.mergeSort_perm l1 _).trans (hp.trans (List.mergeSort_perm l2 _).symm))

/-! ### all postings of a list of documents -/

/-- The postings a document list contributes when its first document gets number `k`. -/
def allPostings (docs : List DocRec) (k : Nat := 0) : List Posting :=
  (docs.zipIdx k).flatMap (fun p => docPostings p.1 p.2)

theorem allPostings_append (a b : List DocRec) (k : Nat) :
    allPostings (a ++ b) k = allPostings a k ++ allPostings b (k + a.length) := by
  simp [allPostings, List.zipIdx_append, List.flatMap_append]

theorem allPostings_singleton (d : DocRec) (k : Nat) : allPostings [d] k = docPostings d k := by
  simp [allPostings, List.zipIdx_cons]

theorem docPostings_doc (d : DocRec) (i : Nat) : ∀ p ∈ docPostings d i, p.doc = i := by
  intro p hp
  simp only [docPostings, List.mem_flatMap, List.mem_map] at hp
  obtain ⟨fd, _, k, _, rfl⟩ := hp
  rfl

theorem docPostings_restrict (sc : Schema) (d : DocRec) (i : Nat) :
    docPostings (restrict sc d) i = (docPostings d i).filter (fun p => sc.has p.fld) := by
  simp only [docPostings, restrict]
  induction d.fields with
  | nil => simp
  | cons fd r ih =>
    simp only [List.filter_cons, List.flatMap_cons, List.filter_append]
    by_cases h : sc.has fd.fld = true
    · simp only [h, if_true, List.flatMap_cons, ih]
      congr 1
      symm
      rw [List.filter_eq_self]
      intro p hp
      simp only [List.mem_map] at hp
      obtain ⟨k, _, rfl⟩ := hp
      exact h
    · have h' : sc.has fd.fld = false := by simpa using h
      simp only [h', Bool.false_eq_true, if_false, ih]
      have : (fd.toks.map (fun k => (⟨fd.fld, k.term, i, k.w, k.v⟩ : Posting))).filter (fun p => sc.has p.fld) = [] := by
        rw [List.filter_eq_nil_iff]
        intro p hp
        simp only [List.mem_map] at hp
        obtain ⟨k, _, rfl⟩ := hp
        exact h
      rw [this, List.nil_append]

theorem docPostings_renumber (d : DocRec) (i j : Nat) :
    (docPostings d i).map (fun p => { p with doc := j }) = docPostings d j := by
  simp [docPostings, List.map_flatMap, List.map_map, Function.comp_def]

end WM.Index
