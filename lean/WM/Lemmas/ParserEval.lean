import WM.Model.Parser
import WM.Spec.Parser
import WM.Lemmas.ParserPrec
/-! The expected tree selects the documents the expression's reading selects. -/
namespace WM.Parser

theorem eval_group_and (v : Node → Bool) (ns : List Node) (b : Rat) :
    Node.eval v (.group .and ns b) = (ns.map (Node.eval v)).all id := by rw [Node.eval]
theorem eval_group_or (v : Node → Bool) (ns : List Node) (b : Rat) :
    Node.eval v (.group .or ns b) = (ns.map (Node.eval v)).any id := by rw [Node.eval]
theorem eval_group_not (v : Node → Bool) (n : Node) (b : Rat) :
    Node.eval v (.group .not [n] b) = !Node.eval v n := by rw [Node.eval]
theorem eval_group_andnot (v : Node → Bool) (a c : Node) (b : Rat) :
    Node.eval v (.group .andnot [a, c] b) = (Node.eval v a && !Node.eval v c) := by rw [Node.eval]
theorem eval_group_andmaybe (v : Node → Bool) (a c : Node) (b : Rat) :
    Node.eval v (.group .andmaybe [a, c] b) = Node.eval v a := by rw [Node.eval]
theorem eval_group_require (v : Node → Bool) (a c : Node) (b : Rat) :
    Node.eval v (.group .require [a, c] b) = (Node.eval v a && Node.eval v c) := by rw [Node.eval]

theorem eval_leaf (v : Node → Bool) {n : Node} (h : n.isLeaf = true) : Node.eval v n = v n := by
  cases n <;> simp [Node.isLeaf] at h <;> rw [Node.eval] <;> intros <;> simp_all

theorem eval_combineL (v : Node → Bool) {g : GK} (hg : 2 ≤ g.lvl) (a m : Node) :
    Node.eval v (combineL g a m) = binEval g (Node.eval v a) (Node.eval v m) := by
  unfold combineL
  split
  · next ns b h =>
    split at h
    · next hm =>
      have ha := groupOf?_some h
      subst ha
      cases g <;> simp [GK.merging, GK.lvl] at hm hg
      · rw [eval_group_and, eval_group_and]; simp [binEval, List.all_append]
      · rw [eval_group_or, eval_group_or]; simp [binEval, List.any_append]
    · cases h
  · cases g <;> simp [GK.lvl] at hg
    · rw [eval_group_and]; simp [binEval]
    · rw [eval_group_or]; simp [binEval]
    · rw [eval_group_andnot]; simp [binEval]
    · rw [eval_group_andmaybe]; simp [binEval]
    · rw [eval_group_require]; simp [binEval]

theorem eval_foldl_combineL (v : Node → Bool) {g : GK} (hg : 2 ≤ g.lvl) (a : Node) (ms : List Node) :
    Node.eval v (ms.foldl (combineL g) a) = (ms.map (Node.eval v)).foldl (binEval g) (Node.eval v a) := by
  induction ms generalizing a with
  | nil => rfl
  | cons m ms ih => simp only [List.foldl_cons, List.map_cons, ih, eval_combineL v hg]

theorem Expr.eval_atom (gk : GK) (v : Node → Bool) (n : Node) : (Expr.atom n).eval gk v = v n := by rw [Expr.eval]
theorem Expr.eval_paren (gk : GK) (v : Node → Bool) (items : List Expr) :
    (Expr.paren items).eval gk v = if gk = .or then (items.map (fun e => e.eval gk v)).any id
      else (items.map (fun e => e.eval gk v)).all id := by rw [Expr.eval]
theorem Expr.eval_not (gk : GK) (v : Node → Bool) (e : Expr) : (Expr.not e).eval gk v = !e.eval gk v := by
  rw [Expr.eval]
theorem Expr.eval_op_cons (gk : GK) (v : Node → Bool) (g : GK) (e : Expr) (es : List Expr) :
    (Expr.op g (e :: es)).eval gk v = (es.map (fun e => e.eval gk v)).foldl (binEval g) (e.eval gk v) := by
  rw [Expr.eval]; simp

/-- The tree the parser builds selects exactly what the expression means. -/
theorem out_eval (gk : GK) (hgk : gk = .and ∨ gk = .or) (v : Node → Bool) (e : Expr) :
    e.wf = true → Node.eval v (e.out gk) = e.eval gk v := by
  induction e using Expr.ind with
  | atom n =>
    intro h
    rw [out_atom, Expr.eval_atom]
    rw [wf_atom] at h
    exact eval_leaf v h
  | paren items ih =>
    intro h
    rw [wf_paren] at h
    rw [out_paren, Expr.eval_paren]
    have hm : (items.map (Expr.out gk)).map (Node.eval v) = items.map (fun e => e.eval gk v) := by
      rw [List.map_map]
      exact List.map_congr_left (fun c hc => ih c hc (h.2 c hc))
    rcases hgk with h1 | h1 <;> subst h1
    · rw [eval_group_and, hm]; simp
    · rw [eval_group_or, hm]; simp
  | not e0 ih =>
    intro h
    rw [wf_not] at h
    rw [out_not, Expr.eval_not, eval_group_not, ih h.2]
  | op g es ih =>
    intro h
    rw [wf_op] at h
    cases es with
    | nil => simp at h
    | cons e1 es =>
      rw [out_op_cons, Expr.eval_op_cons, eval_foldl_combineL v h.1, ih e1 (by simp) (h.2.2 e1 (by simp)).2]
      congr 1
      rw [List.map_map]
      exact List.map_congr_left (fun c hc => ih c (by simp [hc]) (h.2.2 c (by simp [hc])).2)

/-! ## The query objects built by the group nodes select what the tree reads -/

theorem full_group {k : GK} {ns : List Node} {b : Rat} :
    Node.full (.group k ns b) = ((match k with
     | .not => decide (ns.length = 1)
     | .andnot | .andmaybe | .require => decide (ns.length = 2)
     | _ => !ns.isEmpty) && (ns.map Node.full).all id) := by
  cases k <;> rw [Node.full] <;> intro h <;> cases h

theorem full_mem {k : GK} {ns : List Node} {b : Rat} (h : Node.full (.group k ns b) = true) :
    ∀ x ∈ ns, x.full = true := by
  rw [full_group] at h
  simp only [Bool.and_eq_true, List.all_eq_true, List.mem_map, id] at h
  exact fun x hx => h.2 _ ⟨x, hx, rfl⟩

/-- what `query` returns for a tree all of whose leaves yield a (truthy) query -/
def Good (o : Node → LeafRes) (v : Node → Bool) (w : Nat → Bool) (t : Node) : Prop :=
  ∃ q, query o t = .ok (some q) ∧ q.truthy = true ∧ Q.eval w q = Node.eval v t

theorem mapM_good {o : Node → LeafRes} {v : Node → Bool} {w : Nat → Bool} {l : List Node}
    (h : ∀ x ∈ l, Good o v w x) :
    ∃ qs : List Q, l.mapM (query o) = .ok (qs.map some) ∧ qs.length = l.length ∧
      qs.map (Q.eval w) = l.map (Node.eval v) := by
  induction l with
  | nil => exact ⟨[], rfl, rfl, rfl⟩
  | cons a t ih =>
    obtain ⟨q, hq, _, he⟩ := h a (by simp)
    obtain ⟨qs, hqs, hl, hes⟩ := ih (fun x hx => h x (by simp [hx]))
    exact ⟨q :: qs, by simp [List.mapM_cons, hq, hqs, bind, Except.bind, pure, Except.pure],
      by simp [hl], by simp [he, hes]⟩

theorem filterMap_map_some {α} (l : List α) : (l.map some).filterMap id = l := by
  induction l with
  | nil => rfl
  | cons a t ih => simp [ih]

/-- `C16.precedence`, query stage: on a tree whose groups have the operands their class needs and
    whose leaves all yield a query, the `query()` methods of the group nodes return a (truthy)
    query object that selects exactly the documents the tree's reading selects. -/
theorem query_meaning (o : Node → LeafRes) (v : Node → Bool) (w : Nat → Bool)
    (ho : ∀ n, n.isLeaf = true → ∃ id, o n = .q id true ∧ w id = v n) (t : Node) :
    t.full = true → Good o v w t := by
  induction hsz : t.size using Nat.strongRecOn generalizing t with
  | _ sz ih =>
    intro hf
    have leaf : ∀ n, n.isLeaf = true → (query o n = match o n with
        | .none => .ok none | .q id tr => .ok (some (.leaf id tr)) | .err e => .error e) → Good o v w n := by
      intro n hl hn
      obtain ⟨id, hid, hw⟩ := ho n hl
      refine ⟨.leaf id true, ?_, rfl, ?_⟩
      · rw [hn, hid]
      · rw [eval_leaf v hl]; simpa [Q.eval] using hw
    cases t with
    | text k t f b => exact leaf _ rfl (by rw [query]; cases o (.text k t f b) <;> rfl)
    | range s e sx ex f => exact leaf _ rfl (by rw [query]; cases o (.range s e sx ex f) <;> rfl)
    | every => exact leaf _ rfl (by rw [query]; cases o .every <;> rfl)
    | group k ns b =>
      have hch : ∀ x ∈ ns, Good o v w x := by
        intro x hx
        have := size_mem hx
        exact ih x.size (by subst hsz; simp only [Node.size]; omega) x rfl (full_mem hf x hx)
      have hshape := hf
      rw [full_group] at hshape
      simp only [Bool.and_eq_true] at hshape
      have comp : (query o (.group k ns b) = (ns.mapM (query o)).bind fun qs => pure (some (.compound k (qs.filterMap id) b)))
          → ns ≠ [] → ∃ qs : List Q, query o (.group k ns b) = .ok (some (.compound k qs b)) ∧ qs ≠ [] ∧
              qs.map (Q.eval w) = ns.map (Node.eval v) := by
        intro he hne
        obtain ⟨qs, hqs, hl, hes⟩ := mapM_good hch
        refine ⟨qs, ?_, ?_, hes⟩
        · rw [he, hqs]; simp [Except.bind, pure, Except.pure]
        · intro h0; subst h0; simp at hl; exact hne (List.eq_nil_of_length_eq_zero hl.symm)
      cases k with
      | not =>
        match ns, hshape.1, hch with
        | [n0], _, hch =>
          obtain ⟨q, hq, ht, he⟩ := hch n0 (by simp)
          refine ⟨.not q, ?_, rfl, ?_⟩
          · rw [query]; simp [hq, ht, bind, Except.bind, pure, Except.pure]
          · rw [eval_group_not]; simp [Q.eval, he]
      | andnot =>
        match ns, hshape.1, hch with
        | [a, c], _, hch =>
          obtain ⟨q1, hq1, _, he1⟩ := hch a (by simp)
          obtain ⟨q2, hq2, _, he2⟩ := hch c (by simp)
          refine ⟨.binary .andnot q1 q2, ?_, rfl, ?_⟩
          · rw [query]; simp [hq1, hq2, bind, Except.bind, pure, Except.pure]
          · rw [eval_group_andnot]; simp [Q.eval, he1, he2]
      | andmaybe =>
        match ns, hshape.1, hch with
        | [a, c], _, hch =>
          obtain ⟨q1, hq1, _, he1⟩ := hch a (by simp)
          obtain ⟨q2, hq2, _, he2⟩ := hch c (by simp)
          refine ⟨.binary .andmaybe q1 q2, ?_, rfl, ?_⟩
          · rw [query]; simp [hq1, hq2, bind, Except.bind, pure, Except.pure]
          · rw [eval_group_andmaybe]; simp [Q.eval, he1]
      | require =>
        match ns, hshape.1, hch with
        | [a, c], _, hch =>
          obtain ⟨q1, hq1, _, he1⟩ := hch a (by simp)
          obtain ⟨q2, hq2, _, he2⟩ := hch c (by simp)
          refine ⟨.binary .require q1 q2, ?_, rfl, ?_⟩
          · rw [query]; simp [hq1, hq2, bind, Except.bind, pure, Except.pure]
          · rw [eval_group_require]; simp [Q.eval, he1, he2]
      | and =>
        have hne : ns ≠ [] := by simpa using hshape.1
        obtain ⟨qs, hq, hqne, hes⟩ := comp (by rw [query] <;> first | rfl | (intro h; cases h)) hne
        refine ⟨_, hq, by simpa [Q.truthy] using hqne, ?_⟩
        rw [eval_group_and, ← hes]; simp [Q.eval, hqne]
      | or =>
        have hne : ns ≠ [] := by simpa using hshape.1
        obtain ⟨qs, hq, hqne, hes⟩ := comp (by rw [query] <;> first | rfl | (intro h; cases h)) hne
        refine ⟨_, hq, by simpa [Q.truthy] using hqne, ?_⟩
        rw [eval_group_or, ← hes]; simp [Q.eval]
      | dismax =>
        have hne : ns ≠ [] := by simpa using hshape.1
        obtain ⟨qs, hq, hqne, hes⟩ := comp (by rw [query] <;> first | rfl | (intro h; cases h)) hne
        refine ⟨_, hq, by simpa [Q.truthy] using hqne, ?_⟩
        rw [Node.eval, ← hes]; simp [Q.eval]
      | ordered =>
        have hne : ns ≠ [] := by simpa using hshape.1
        obtain ⟨qs, hq, hqne, hes⟩ := comp (by rw [query] <;> first | rfl | (intro h; cases h)) hne
        refine ⟨_, hq, by simpa [Q.truthy] using hqne, ?_⟩
        rw [Node.eval, ← hes]; simp [Q.eval, hqne]
      | seq =>
        have hne : ns ≠ [] := by simpa using hshape.1
        obtain ⟨qs, hq, hqne, hes⟩ := comp (by rw [query] <;> first | rfl | (intro h; cases h)) hne
        refine ⟨_, hq, by simpa [Q.truthy] using hqne, ?_⟩
        rw [Node.eval, ← hes]; simp [Q.eval, hqne]
    | _ => rw [Node.full] at hf <;> first | cases hf | (intros; simp_all)

theorem full_leaf {n : Node} (h : n.isLeaf = true) : n.full = true := by
  cases n <;> simp [Node.isLeaf] at h <;> rw [Node.full] <;> intros <;> simp_all

theorem full_of_all {k : GK} {ns : List Node} {b : Rat} (hk : (match k with
     | .not => decide (ns.length = 1)
     | .andnot | .andmaybe | .require => decide (ns.length = 2)
     | _ => !ns.isEmpty) = true) (h : ∀ x ∈ ns, x.full = true) : Node.full (.group k ns b) = true := by
  rw [full_group, hk]
  simp only [Bool.true_and, List.all_eq_true, List.mem_map, id]
  rintro _ ⟨x, hx, rfl⟩
  exact h x hx

theorem full_combineL {g : GK} (hg : 2 ≤ g.lvl) {a m : Node} (ha : a.full = true) (hm : m.full = true) :
    (combineL g a m).full = true := by
  unfold combineL
  split
  · next ns b h =>
    split at h
    · next hmg =>
      have hs := groupOf?_some h
      subst hs
      have hne : ns ≠ [] := by
        have := ha
        rw [full_group] at this
        simp only [Bool.and_eq_true] at this
        cases g <;> simp [GK.merging] at hmg <;> simpa using this.1
      apply full_of_all
      · cases g <;> simp [GK.merging] at hmg <;> simp
      · intro x hx
        rcases List.mem_append.1 hx with h1 | h1
        · exact full_mem ha x h1
        · simp at h1; subst h1; exact hm
    · cases h
  · apply full_of_all
    · cases g <;> simp [GK.lvl] at hg <;> simp
    · intro x hx; simp at hx; rcases hx with rfl | rfl <;> assumption

theorem full_foldl_combineL {g : GK} (hg : 2 ≤ g.lvl) (a : Node) (ms : List Node)
    (ha : a.full = true) (hm : ∀ m ∈ ms, m.full = true) : (ms.foldl (combineL g) a).full = true := by
  induction ms generalizing a with
  | nil => exact ha
  | cons m ms ih =>
    simp only [List.foldl_cons]
    exact ih _ (full_combineL hg ha (hm m (by simp))) (fun x hx => hm x (by simp [hx]))

/-- the tree of a well-formed expression has all the operands its groups need -/
theorem out_full (gk : GK) (hgk : gk = .and ∨ gk = .or) (e : Expr) : e.wf = true → (e.out gk).full = true := by
  induction e using Expr.ind with
  | atom n => intro h; rw [out_atom]; rw [wf_atom] at h; exact full_leaf h
  | paren items ih =>
    intro h
    rw [wf_paren] at h
    rw [out_paren]
    apply full_of_all
    · rcases hgk with h1 | h1 <;> subst h1 <;> simpa using h.1
    · intro x hx
      obtain ⟨e, he, rfl⟩ := List.mem_map.1 hx
      exact ih e he (h.2 e he)
  | not e0 ih =>
    intro h
    rw [wf_not] at h
    rw [out_not]
    exact full_of_all (by simp) (by intro x hx; simp at hx; subst hx; exact ih h.2)
  | op g es ih =>
    intro h
    rw [wf_op] at h
    cases es with
    | nil => simp at h
    | cons e1 es =>
      rw [out_op_cons]
      apply full_foldl_combineL h.1 _ _ (ih e1 (by simp) (h.2.2 e1 (by simp)).2)
      intro m hm
      obtain ⟨e, he, rfl⟩ := List.mem_map.1 hm
      exact ih e (by simp [he]) (h.2.2 e (by simp [he])).2

end WM.Parser
