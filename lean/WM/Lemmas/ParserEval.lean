import WM.Model.Parser
import WM.Spec.Parser
import WM.Lemmas.ParserPrec
/-! The expected tree selects the documents the expression's reading selects. -/
namespace WM.Parser

theorem eval_group_and (v : Node → Bool) (ns : List Node) (b : Rat) :
    Node.eval v (.group .and ns b) = (ns.map (Node.eval v)).all id := by rw [Node.eval]
theorem eval_group_or (v : Node → Bool) (ns : List Node) (b : Rat) :
    Node.eval v (.group .or ns b) = (ns.map (Node.eval v)).any id := by rw [Node.eval]
theorem eval_group_not (v : Node → Bool) (n : Node) (b : Rat) :
    Node.eval v (.group .not [n] b) = !Node.eval v n := by rw [Node.eval]
theorem eval_group_andnot (v : Node → Bool) (a c : Node) (b : Rat) :
    Node.eval v (.group .andnot [a, c] b) = (Node.eval v a && !Node.eval v c) := by rw [Node.eval]
theorem eval_group_andmaybe (v : Node → Bool) (a c : Node) (b : Rat) :
    Node.eval v (.group .andmaybe [a, c] b) = Node.eval v a := by rw [Node.eval]
theorem eval_group_require (v : Node → Bool) (a c : Node) (b : Rat) :
    Node.eval v (.group .require [a, c] b) = (Node.eval v a && Node.eval v c) := by rw [Node.eval]

theorem eval_leaf (v : Node → Bool) {n : Node} (h : n.isLeaf = true) : Node.eval v n = v n := by
  cases n <;> simp [Node.isLeaf] at h <;> rw [Node.eval] <;> intros <;> simp_all

theorem eval_combineL (v : Node → Bool) {g : GK} (hg : 2 ≤ g.lvl) (a m : Node) :
    Node.eval v (combineL g a m) = binEval g (Node.eval v a) (Node.eval v m) := by
  unfold combineL
  split
  · next ns b h =>
    split at h
    · next hm =>
      have ha := groupOf?_some h
      subst ha
      cases g <;> simp [GK.merging, GK.lvl] at hm hg
      · rw [eval_group_and, eval_group_and]; simp [binEval, List.all_append]
      · rw [eval_group_or, eval_group_or]; simp [binEval, List.any_append]
    · cases h
  · cases g <;> simp [GK.lvl] at hg
    · rw [eval_group_and]; simp [binEval]
    · rw [eval_group_or]; simp [binEval]
    · rw [eval_group_andnot]; simp [binEval]
    · rw [eval_group_andmaybe]; simp [binEval]
    · rw [eval_group_require]; simp [binEval]

theorem eval_foldl_combineL (v : Node → Bool) {g : GK} (hg : 2 ≤ g.lvl) (a : Node) (ms : List Node) :
    Node.eval v (ms.foldl (combineL g) a) = (ms.map (Node.eval v)).foldl (binEval g) (Node.eval v a) := by
  induction ms generalizing a with
  | nil => rfl
  | cons m ms ih => simp only [List.foldl_cons, List.map_cons, ih, eval_combineL v hg]

theorem Expr.eval_atom (gk : GK) (v : Node → Bool) (n : Node) : (Expr.atom n).eval gk v = v n := by rw [Expr.eval]
theorem Expr.eval_paren (gk : GK) (v : Node → Bool) (items : List Expr) :
    (Expr.paren items).eval gk v = if gk = .or then (items.map (fun e => e.eval gk v)).any id
      else (items.map (fun e => e.eval gk v)).all id := by rw [Expr.eval]
theorem Expr.eval_not (gk : GK) (v : Node → Bool) (e : Expr) : (Expr.not e).eval gk v = !e.eval gk v := by
  rw [Expr.eval]
theorem Expr.eval_op_cons (gk : GK) (v : Node → Bool) (g : GK) (e : Expr) (es : List Expr) :
    (Expr.op g (e :: es)).eval gk v = (es.map (fun e => e.eval gk v)).foldl (binEval g) (e.eval gk v) := by
  rw [Expr.eval]; simp

/-- The tree the parser builds selects exactly what the expression means. -/
theorem out_eval (gk : GK) (hgk : gk = .and ∨ gk = .or) (v : Node → Bool) (e : Expr) :
    e.wf = true → Node.eval v (e.out gk) = e.eval gk v := by
  induction e using Expr.ind with
  | atom n =>
    intro h
    rw [out_atom, Expr.eval_atom]
    rw [wf_atom] at h
    exact eval_leaf v h
  | paren items ih =>
    intro h
    rw [wf_paren] at h
    rw [out_paren, Expr.eval_paren]
    have hm : (items.map (Expr.out gk)).map (Node.eval v) = items.map (fun e => e.eval gk v) := by
      rw [List.map_map]
      exact List.map_congr_left (fun c hc => ih c hc (h.2 c hc))
    rcases hgk with h1 | h1 <;> subst h1
    · rw [eval_group_and, hm]; simp
    · rw [eval_group_or, hm]; simp
  | not e0 ih =>
    intro h
    rw [wf_not] at h
    rw [out_not, Expr.eval_not, eval_group_not, ih h.2]
  | op g es ih =>
    intro h
    rw [wf_op] at h
    cases es with
    | nil => simp at h
    | cons e1 es =>
      rw [out_op_cons, Expr.eval_op_cons, eval_foldl_combineL v h.1, ih e1 (by simp) (h.2.2 e1 (by simp)).2]
      congr 1
      rw [List.map_map]
      exact List.map_congr_left (fun c hc => ih c (by simp [hc]) (h.2.2 c (by simp [hc])).2)

end WM.Parser
