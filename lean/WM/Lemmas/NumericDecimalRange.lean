import WM.Model.Numeric
import WM.Spec.Numeric
import WM.Lemmas.NumericField
import WM.Lemmas.NumericMembership
/-! C13 — helpers for the range query on Decimal fields. -/
namespace WM.Numeric
open WM.NumericSpec

/-- On a Decimal field `_compile_query` is the integer compilation of the prepared
    (scaled, truncated) bounds. -/
theorem compileDecimal_eq (w : Nat) (signed : Bool) (step dc : Nat) (start end_ : Option Rat)
    (sx ex : Bool) :
    compileDecimal w signed step dc start end_ sx ex
      = compileInt w signed step (start.map (decimalToInt dc)) (end_.map (decimalToInt dc)) sx ex := by
  unfold compileDecimal compileInt prepareDecimal
  cases start <;> cases end_ <;> rfl

/-- Membership of decoded Decimals in an interval of decoded bounds is membership of the stored
    integers, for any strictly monotone decoding. -/
theorem inInterval_rat_of_int (f : Int → Rat) (hf : ∀ a b, f a < f b ↔ a < b)
    (start end_ : Option Int) (sx ex : Bool) (x : Int) :
    inInterval ratLt (start.map f) (end_.map f) sx ex (f x) = inInterval intLt start end_ sx ex x := by
  unfold inInterval ratLt intLt
  cases start <;> cases end_ <;> simp [hf]

end WM.Numeric
