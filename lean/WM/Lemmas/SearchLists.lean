import WM.Model.Compile
/-!
List algebra behind C01/C09: strictly ascending posting lists are determined by their `lookup`
function; every list operator of `WM.Compile` is characterised by what it does to `lookup`.
-/
namespace WM.Compile
open WM.Search

/-- strictly ascending doc ids -/
def Sorted (l : PL) : Prop := l.Pairwise (fun a b => a.id < b.id)

theorem sorted_nil : Sorted [] := List.Pairwise.nil

theorem sorted_cons {a : Hit} {l : PL} : Sorted (a :: l) ↔ (∀ b ∈ l, a.id < b.id) ∧ Sorted l :=
  List.pairwise_cons

@[simp] theorem lookup_nil (i : Nat) : lookup [] i = none := rfl

theorem lookup_cons (a : Hit) (l : PL) (i : Nat) :
    lookup (a :: l) i = if a.id = i then some a.score else lookup l i := by
  unfold lookup
  by_cases h : a.id = i
  · simp [h]
  · have : (a.id == i) = false := by simp [h]
    simp [this, h]

theorem lookup_eq_none_of_lt {l : PL} {i : Nat} (h : ∀ b ∈ l, i < b.id) : lookup l i = none := by
  induction l with
  | nil => rfl
  | cons a l ih =>
    rw [lookup_cons]
    have ha := h a (List.mem_cons_self)
    have : ¬ a.id = i := by omega
    simp only [this, if_false]
    exact ih (fun b hb => h b (List.mem_cons_of_mem _ hb))

theorem lookup_isSome_iff {l : PL} {i : Nat} : (lookup l i).isSome ↔ ∃ e ∈ l, e.id = i := by
  induction l with
  | nil => simp
  | cons a l ih =>
    rw [lookup_cons]
    by_cases h : a.id = i
    · simp [h]
    · simp only [h, if_false, ih, List.mem_cons]
      constructor
      · rintro ⟨e, he, rfl⟩; exact ⟨e, Or.inr he, rfl⟩
      · rintro ⟨e, he | he, hi⟩
        · subst he; exact absurd hi h
        · exact ⟨e, he, hi⟩

theorem lookup_eq_none_iff {l : PL} {i : Nat} : lookup l i = none ↔ ∀ e ∈ l, e.id ≠ i := by
  have := @lookup_isSome_iff l i
  cases h : lookup l i with
  | none =>
    simp only [true_iff]
    intro e he hi
    have : (lookup l i).isSome := this.mpr ⟨e, he, hi⟩
    simp [h] at this
  | some x =>
    simp only [reduceCtorEq, false_iff]
    intro hall
    have hs : (lookup l i).isSome := by simp [h]
    obtain ⟨e, he, hi⟩ := this.mp hs
    exact hall e he hi

theorem lookup_of_mem {l : PL} (hs : Sorted l) {e : Hit} (he : e ∈ l) : lookup l e.id = some e.score := by
  induction l with
  | nil => cases he
  | cons a l ih =>
    rw [lookup_cons]
    rcases sorted_cons.mp hs with ⟨hlt, hs'⟩
    rcases List.mem_cons.mp he with rfl | he'
    · simp
    · have := hlt e he'
      have hne : ¬ a.id = e.id := by omega
      simp only [hne, if_false]
      exact ih hs' he'

/-- strictly ascending lists with the same `lookup` are equal -/
theorem sorted_ext {a b : PL} (ha : Sorted a) (hb : Sorted b)
    (h : ∀ i, lookup a i = lookup b i) : a = b := by
  induction a generalizing b with
  | nil =>
    cases b with
    | nil => rfl
    | cons y ys =>
      have := h y.id
      rw [lookup_cons] at this
      simp at this
  | cons x xs ih =>
    cases b with
    | nil =>
      have := h x.id
      rw [lookup_cons] at this
      simp at this
    | cons y ys =>
      rcases sorted_cons.mp ha with ⟨hxlt, hxs⟩
      rcases sorted_cons.mp hb with ⟨hylt, hys⟩
      have hxy : x.id = y.id := by
        rcases Nat.lt_trichotomy x.id y.id with hlt | heq | hgt
        · exfalso
          have h1 := h x.id
          rw [lookup_cons, lookup_cons] at h1
          have hne : ¬ y.id = x.id := by omega
          simp only [if_true, hne, if_false] at h1
          have : lookup ys x.id = none :=
            lookup_eq_none_of_lt (fun b hb => by have := hylt b hb; omega)
          rw [this] at h1
          cases h1
        · exact heq
        · exfalso
          have h1 := h y.id
          rw [lookup_cons, lookup_cons] at h1
          have hne : ¬ x.id = y.id := by omega
          simp only [if_true, hne, if_false] at h1
          have : lookup xs y.id = none :=
            lookup_eq_none_of_lt (fun b hb => by have := hxlt b hb; omega)
          rw [this] at h1
          cases h1
      have hsc : x.score = y.score := by
        have h1 := h x.id
        rw [lookup_cons, lookup_cons] at h1
        simp [hxy] at h1
        exact h1
      have hxy' : x = y := by
        cases x; cases y; simp_all
      subst hxy'
      congr 1
      apply ih hxs hys
      intro i
      have h1 := h i
      rw [lookup_cons, lookup_cons] at h1
      by_cases hi : x.id = i
      · subst hi
        rw [lookup_eq_none_of_lt (fun b hb => hxlt b hb), lookup_eq_none_of_lt (fun b hb => hylt b hb)]
      · simpa [hi] using h1

/-! ### merge -/

/-- pointwise meaning of a merge with combiner `g` -/
def optMerge (g : Rat → Rat → Rat) : Option Rat → Option Rat → Option Rat
  | some x, some y => some (g x y)
  | some x, none => some x
  | none, y => y

theorem mergeWith_ids_ge (g : Rat → Rat → Rat) (a b : PL) (k : Nat)
    (ha : ∀ e ∈ a, k < e.id) (hb : ∀ e ∈ b, k < e.id) : ∀ e ∈ mergeWith g a b, k < e.id := by
  fun_induction mergeWith g a b with
  | case1 b => exact hb
  | case2 a as => exact ha
  | case3 a as b bs hlt ih =>
    intro e he
    rcases List.mem_cons.mp he with rfl | he
    · exact ha _ List.mem_cons_self
    · exact ih (fun e he => ha e (List.mem_cons_of_mem _ he)) hb e he
  | case4 a as b bs hlt hgt ih =>
    intro e he
    rcases List.mem_cons.mp he with rfl | he
    · exact hb _ List.mem_cons_self
    · exact ih ha (fun e he => hb e (List.mem_cons_of_mem _ he)) e he
  | case5 a as b bs hlt hgt ih =>
    intro e he
    rcases List.mem_cons.mp he with rfl | he
    · exact ha a List.mem_cons_self
    · exact ih (fun e he => ha e (List.mem_cons_of_mem _ he)) (fun e he => hb e (List.mem_cons_of_mem _ he)) e he

theorem mergeWith_sorted (g : Rat → Rat → Rat) (a b : PL) (ha : Sorted a) (hb : Sorted b) :
    Sorted (mergeWith g a b) := by
  fun_induction mergeWith g a b with
  | case1 b => exact hb
  | case2 a as => exact ha
  | case3 a as b bs hlt ih =>
    rcases sorted_cons.mp ha with ⟨h1, h2⟩
    rcases sorted_cons.mp hb with ⟨h3, _⟩
    refine sorted_cons.mpr ⟨?_, ih h2 hb⟩
    apply mergeWith_ids_ge g as (b :: bs) a.id h1
    intro e he
    rcases List.mem_cons.mp he with rfl | he
    · exact hlt
    · have := h3 e he; omega
  | case4 a as b bs hlt hgt ih =>
    rcases sorted_cons.mp ha with ⟨h1, _⟩
    rcases sorted_cons.mp hb with ⟨h3, h4⟩
    refine sorted_cons.mpr ⟨?_, ih ha h4⟩
    apply mergeWith_ids_ge g (a :: as) bs b.id _ h3
    intro e he
    rcases List.mem_cons.mp he with rfl | he
    · exact hgt
    · have := h1 e he; omega
  | case5 a as b bs hlt hgt ih =>
    rcases sorted_cons.mp ha with ⟨h1, h2⟩
    rcases sorted_cons.mp hb with ⟨h3, h4⟩
    have heq : a.id = b.id := by omega
    refine sorted_cons.mpr ⟨?_, ih h2 h4⟩
    apply mergeWith_ids_ge g as bs a.id h1
    intro e he
    have := h3 e he; omega

theorem lookup_mergeWith (g : Rat → Rat → Rat) (a b : PL) (ha : Sorted a) (hb : Sorted b) (i : Nat) :
    lookup (mergeWith g a b) i = optMerge g (lookup a i) (lookup b i) := by
  fun_induction mergeWith g a b with
  | case1 b => simp [optMerge]
  | case2 a as =>
    cases h : lookup (a :: as) i <;> simp [optMerge]
  | case3 a as b bs hlt ih =>
    rcases sorted_cons.mp ha with ⟨h1, h2⟩
    rcases sorted_cons.mp hb with ⟨h3, _⟩
    rw [lookup_cons, lookup_cons a as]
    by_cases hi : a.id = i
    · subst hi
      have : lookup (b :: bs) a.id = none := by
        apply lookup_eq_none_of_lt
        intro e he
        rcases List.mem_cons.mp he with rfl | he
        · exact hlt
        · have := h3 e he; omega
      simp [this, optMerge]
    · simp only [hi, if_false]
      exact ih h2 hb
  | case4 a as b bs hlt hgt ih =>
    rcases sorted_cons.mp ha with ⟨h1, _⟩
    rcases sorted_cons.mp hb with ⟨h3, h4⟩
    rw [lookup_cons, lookup_cons b bs]
    by_cases hi : b.id = i
    · subst hi
      have : lookup (a :: as) b.id = none := by
        apply lookup_eq_none_of_lt
        intro e he
        rcases List.mem_cons.mp he with rfl | he
        · exact hgt
        · have := h1 e he; omega
      simp [this, optMerge]
    · simp only [hi, if_false]
      exact ih ha h4
  | case5 a as b bs hlt hgt ih =>
    rcases sorted_cons.mp ha with ⟨h1, h2⟩
    rcases sorted_cons.mp hb with ⟨h3, h4⟩
    have heq : a.id = b.id := by omega
    rw [lookup_cons, lookup_cons a as, lookup_cons b bs]
    by_cases hi : a.id = i
    · have hi' : b.id = i := by omega
      simp [hi, hi', optMerge]
    · have hi' : ¬ b.id = i := by omega
      simp only [hi, hi', if_false]
      exact ih h2 h4

/-! ### operators given by `filterMap` with an id-preserving function -/

/-- the entry with id `i` -/
def findE (l : PL) (i : Nat) : Option Hit := l.find? (fun e => e.id == i)

theorem lookup_eq_findE (l : PL) (i : Nat) : lookup l i = (findE l i).map (·.score) := rfl

theorem findE_cons (a : Hit) (l : PL) (i : Nat) :
    findE (a :: l) i = if a.id = i then some a else findE l i := by
  unfold findE
  by_cases h : a.id = i
  · simp [h]
  · have : (a.id == i) = false := by simp [h]
    simp [this, h]

theorem findE_id {l : PL} {i : Nat} {e : Hit} (h : findE l i = some e) : e.id = i := by
  unfold findE at h
  have := List.find?_some h
  simpa using this

theorem findE_eq_none_of_lt {l : PL} {i : Nat} (h : ∀ b ∈ l, i < b.id) : findE l i = none := by
  induction l with
  | nil => rfl
  | cons a l ih =>
    rw [findE_cons]
    have ha := h a (List.mem_cons_self)
    have : ¬ a.id = i := by omega
    simp only [this, if_false]
    exact ih (fun b hb => h b (List.mem_cons_of_mem _ hb))

def IdPres (f : Hit → Option Hit) : Prop := ∀ e e', f e = some e' → e'.id = e.id

theorem filterMap_sorted {f : Hit → Option Hit} (hf : IdPres f) {a : PL} (ha : Sorted a) :
    Sorted (a.filterMap f) := by
  unfold Sorted at *
  apply List.Pairwise.filterMap f _ ha
  intro x y hxy b hb b' hb'
  rw [hf x b hb, hf y b' hb']
  exact hxy

theorem findE_filterMap {f : Hit → Option Hit} (hf : IdPres f) {a : PL} (ha : Sorted a) (i : Nat) :
    findE (a.filterMap f) i = (findE a i).bind f := by
  induction a with
  | nil => rfl
  | cons x xs ih =>
    rcases sorted_cons.mp ha with ⟨hlt, hs⟩
    rw [findE_cons]
    by_cases hi : x.id = i
    · simp only [hi, if_true, Option.bind_some]
      rw [List.filterMap_cons]
      cases hfx : f x with
      | none =>
        simp only
        apply findE_eq_none_of_lt
        intro b hb
        obtain ⟨c, hc, hcb⟩ := List.mem_filterMap.mp hb
        rw [hf c b hcb]
        have := hlt c hc
        omega
      | some x' =>
        simp only
        rw [findE_cons]
        have := hf x x' hfx
        simp [this, hi]
    · simp only [hi, if_false]
      rw [List.filterMap_cons]
      cases hfx : f x with
      | none => exact ih hs
      | some x' =>
        simp only
        rw [findE_cons]
        have := hf x x' hfx
        have hne : ¬ x'.id = i := by omega
        simp only [hne, if_false]
        exact ih hs

theorem lookup_filterMap {f : Hit → Option Hit} (hf : IdPres f) {a : PL} (ha : Sorted a) (i : Nat) :
    lookup (a.filterMap f) i = ((findE a i).bind f).map (·.score) := by
  rw [lookup_eq_findE, findE_filterMap hf ha]

theorem findE_some_of_lookup {a : PL} {i : Nat} {x : Rat} (h : lookup a i = some x) :
    findE a i = some ⟨i, x⟩ := by
  rw [lookup_eq_findE] at h
  cases hf : findE a i with
  | none => simp [hf] at h
  | some e =>
    have hid := findE_id hf
    simp [hf] at h
    cases e
    simp_all

theorem findE_none_of_lookup {a : PL} {i : Nat} (h : lookup a i = none) : findE a i = none := by
  rw [lookup_eq_findE] at h
  cases hf : findE a i with
  | none => rfl
  | some e => simp [hf] at h

/-- intersection -/
theorem interL_eq (a b : PL) : interL a b =
    a.filterMap (fun e => (lookup b e.id).map (fun s => (⟨e.id, e.score + s⟩ : Hit))) := rfl

theorem interL_idpres (b : PL) :
    IdPres (fun e => (lookup b e.id).map (fun s => (⟨e.id, e.score + s⟩ : Hit))) := by
  intro e e' h
  cases hb : lookup b e.id with
  | none => simp [hb] at h
  | some s => simp [hb] at h; rw [← h]

theorem interL_sorted {a : PL} (b : PL) (ha : Sorted a) : Sorted (interL a b) :=
  filterMap_sorted (interL_idpres b) ha

def optBoth : Option Rat → Option Rat → Option Rat
  | some x, some y => some (x + y)
  | _, _ => none

theorem lookup_interL {a : PL} (b : PL) (ha : Sorted a) (i : Nat) :
    lookup (interL a b) i = optBoth (lookup a i) (lookup b i) := by
  rw [interL_eq, lookup_filterMap (interL_idpres b) ha]
  cases h : lookup a i with
  | none => simp [findE_none_of_lookup h, optBoth]
  | some x =>
    rw [findE_some_of_lookup h]
    cases hb : lookup b i <;> simp [hb, optBoth]

/-- and-not -/
theorem andNotL_eq (a b : PL) : andNotL a b =
    a.filterMap (fun e => if (lookup b e.id).isNone then some e else none) := by
  unfold andNotL
  induction a with
  | nil => rfl
  | cons x xs ih =>
    rw [List.filter_cons, List.filterMap_cons]
    by_cases h : (lookup b x.id).isNone <;> simp [h, ih]

theorem ite_idpres (P : Hit → Bool) : IdPres (fun e => if P e then some e else none) := by
  intro e e' h
  by_cases hp : P e <;> simp [hp] at h
  rw [h]

theorem andNotL_sorted {a : PL} (b : PL) (ha : Sorted a) : Sorted (andNotL a b) := by
  rw [andNotL_eq]; exact filterMap_sorted (ite_idpres _) ha

theorem lookup_andNotL {a : PL} (b : PL) (ha : Sorted a) (i : Nat) :
    lookup (andNotL a b) i = if (lookup b i).isNone then lookup a i else none := by
  rw [andNotL_eq, lookup_filterMap (ite_idpres (fun e => (lookup b e.id).isNone)) ha]
  cases h : lookup a i with
  | none => simp [findE_none_of_lookup h]
  | some x =>
    rw [findE_some_of_lookup h]
    cases hb : lookup b i <;> simp [hb]

/-- require -/
theorem requireL_eq (a b : PL) : requireL a b =
    a.filterMap (fun e => if (lookup b e.id).isSome then some e else none) := by
  unfold requireL
  induction a with
  | nil => rfl
  | cons x xs ih =>
    rw [List.filter_cons, List.filterMap_cons]
    by_cases h : (lookup b x.id).isSome <;> simp [h, ih]

theorem requireL_sorted {a : PL} (b : PL) (ha : Sorted a) : Sorted (requireL a b) := by
  rw [requireL_eq]; exact filterMap_sorted (ite_idpres _) ha

theorem lookup_requireL {a : PL} (b : PL) (ha : Sorted a) (i : Nat) :
    lookup (requireL a b) i = if (lookup b i).isSome then lookup a i else none := by
  rw [requireL_eq, lookup_filterMap (ite_idpres (fun e => (lookup b e.id).isSome)) ha]
  cases h : lookup a i with
  | none => simp [findE_none_of_lookup h]
  | some x =>
    rw [findE_some_of_lookup h]
    cases hb : lookup b i <;> simp [hb]

/-- maps that keep the id -/
theorem map_eq_filterMap (g : Hit → Hit) (a : PL) : a.map g = a.filterMap (fun e => some (g e)) := by
  induction a with
  | nil => rfl
  | cons x xs ih => rw [List.map_cons, List.filterMap_cons, ih]

theorem map_idpres {g : Hit → Hit} (hg : ∀ e, (g e).id = e.id) : IdPres (fun e => some (g e)) := by
  intro e e' h
  simp at h
  rw [← h]; exact hg e

theorem map_sorted {g : Hit → Hit} (hg : ∀ e, (g e).id = e.id) {a : PL} (ha : Sorted a) :
    Sorted (a.map g) := by
  rw [map_eq_filterMap]; exact filterMap_sorted (map_idpres hg) ha

theorem lookup_map {g : Hit → Hit} (hg : ∀ e, (g e).id = e.id) {a : PL} (ha : Sorted a) (i : Nat) :
    lookup (a.map g) i = (findE a i).map (fun e => (g e).score) := by
  rw [map_eq_filterMap, lookup_filterMap (map_idpres hg) ha]
  cases findE a i <;> simp

theorem boostL_sorted (w : Rat) {a : PL} (ha : Sorted a) : Sorted (boostL w a) :=
  map_sorted (g := fun e => ⟨e.id, e.score * w⟩) (fun _ => rfl) ha

theorem lookup_boostL (w : Rat) {a : PL} (ha : Sorted a) (i : Nat) :
    lookup (boostL w a) i = (lookup a i).map (· * w) := by
  unfold boostL
  rw [lookup_map (g := fun e => ⟨e.id, e.score * w⟩) (fun _ => rfl) ha, lookup_eq_findE]
  cases findE a i <;> simp

theorem constL_sorted (c : Rat) {a : PL} (ha : Sorted a) : Sorted (constL c a) :=
  map_sorted (g := fun e => ⟨e.id, c⟩) (fun _ => rfl) ha

theorem lookup_constL (c : Rat) {a : PL} (ha : Sorted a) (i : Nat) :
    lookup (constL c a) i = (lookup a i).map (fun _ => c) := by
  unfold constL
  rw [lookup_map (g := fun e => ⟨e.id, c⟩) (fun _ => rfl) ha, lookup_eq_findE]
  cases findE a i <;> simp

theorem andMaybeL_sorted {a : PL} (b : PL) (ha : Sorted a) : Sorted (andMaybeL a b) := by
  unfold andMaybeL
  apply map_sorted _ ha
  intro e
  cases lookup b e.id <;> rfl

theorem lookup_andMaybeL {a : PL} (b : PL) (ha : Sorted a) (i : Nat) :
    lookup (andMaybeL a b) i =
      (lookup a i).map (fun x => match lookup b i with | some y => x + y | none => x) := by
  unfold andMaybeL
  rw [lookup_map _ ha]
  · cases h : lookup a i with
    | none => simp [findE_none_of_lookup h]
    | some x =>
      rw [findE_some_of_lookup h]
      cases hb : lookup b i <;> simp [hb]
  · intro e
    cases lookup b e.id <;> rfl

/-! ### canonical lists: a filter of an ascending id list with a score function -/

def Asc (l : List Nat) : Prop := l.Pairwise (· < ·)

def canon (live : List Nat) (p : Nat → Bool) (sc : Nat → Rat) : PL :=
  (live.filter p).map (fun i => ⟨i, sc i⟩)

theorem canon_sorted {live : List Nat} (h : Asc live) (p : Nat → Bool) (sc : Nat → Rat) :
    Sorted (canon live p sc) := by
  unfold canon Sorted
  rw [List.pairwise_map]
  exact List.Pairwise.sublist List.filter_sublist h

theorem lookup_canon {live : List Nat} (h : Asc live) (p : Nat → Bool) (sc : Nat → Rat) (i : Nat) :
    lookup (canon live p sc) i = if i ∈ live ∧ p i = true then some (sc i) else none := by
  induction live with
  | nil => simp [canon]
  | cons x xs ih =>
    have hx : ∀ y ∈ xs, x < y := (List.pairwise_cons.mp h).1
    have hxs : Asc xs := (List.pairwise_cons.mp h).2
    have ih' := ih hxs
    unfold canon at ih' ⊢
    rw [List.filter_cons]
    cases hp : p x with
    | true =>
      simp only [if_true, List.map_cons, lookup_cons]
      by_cases hi : x = i
      · subst hi; simp [hp]
      · have : ¬ i = x := fun h => hi h.symm
        simp only [hi, if_false, ih', List.mem_cons, this, false_or]
    | false =>
      simp only [Bool.false_eq_true, if_false]
      rw [ih']
      by_cases hi : x = i
      · subst hi
        have : x ∉ xs := fun hm => Nat.lt_irrefl _ (hx x hm)
        simp [hp, this]
      · have : ¬ i = x := fun h => hi h.symm
        simp [List.mem_cons, this]

/-! ### folds of a commutative, associative pointwise operation; tree shapes -/

structure Monoidal (F : Option Rat → Option Rat → Option Rat) (e : Option Rat) : Prop where
  assoc : ∀ x y z, F (F x y) z = F x (F y z)
  comm : ∀ x y, F x y = F y x
  idl : ∀ x, F e x = x

theorem Monoidal.idr {F e} (h : Monoidal F e) (x : Option Rat) : F x e = x := by
  rw [h.comm, h.idl]

theorem foldr_F_init {F e} (h : Monoidal F e) (l : List (Option Rat)) (z : Option Rat) :
    l.foldr F z = F (l.foldr F e) z := by
  induction l with
  | nil => simp [h.idl]
  | cons x xs ih => simp only [List.foldr_cons]; rw [ih, h.assoc]

theorem foldr_F_append {F e} (h : Monoidal F e) (l r : List (Option Rat)) :
    (l ++ r).foldr F e = F (l.foldr F e) (r.foldr F e) := by
  rw [List.foldr_append, foldr_F_init h]

theorem foldr_F_perm {F e} (h : Monoidal F e) {l r : List (Option Rat)} (hp : l.Perm r) :
    l.foldr F e = r.foldr F e := by
  induction hp with
  | nil => rfl
  | cons x _ ih => simp only [List.foldr_cons, ih]
  | swap x y l =>
    simp only [List.foldr_cons]
    rw [← h.assoc, ← h.assoc, h.comm y x]
  | trans _ _ ih1 ih2 => rw [ih1, ih2]

/-- what a binary list operator has to satisfy -/
structure OpSpec (op : PL → PL → PL) (F : Option Rat → Option Rat → Option Rat) : Prop where
  sorted : ∀ a b, Sorted a → Sorted b → Sorted (op a b)
  lookup : ∀ a b, Sorted a → Sorted b → ∀ i, lookup (op a b) i = F (lookup a i) (lookup b i)

theorem getD_sorted {ms : List PL} (hms : ∀ m ∈ ms, Sorted m) (j : Nat) : Sorted (ms.getD j []) := by
  rw [List.getD_eq_getElem?_getD]
  cases h : ms[j]? with
  | none => exact sorted_nil
  | some m => exact hms m (List.mem_of_getElem? h)

theorem foldShape_spec {op F e} (hop : OpSpec op F) (hF : Monoidal F e) {ms : List PL}
    (hms : ∀ m ∈ ms, Sorted m) (sh : Shape) :
    Sorted (foldShape op ms sh) ∧
    ∀ i, lookup (foldShape op ms sh) i =
      (sh.leaves.map (fun j => lookup (ms.getD j []) i)).foldr F e := by
  induction sh with
  | leaf j =>
    refine ⟨getD_sorted hms j, fun i => ?_⟩
    simp [foldShape, Shape.leaves, hF.idr]
  | node l r ihl ihr =>
    refine ⟨hop.sorted _ _ ihl.1 ihr.1, fun i => ?_⟩
    simp only [foldShape, Shape.leaves, List.map_append]
    rw [hop.lookup _ _ ihl.1 ihr.1, ihl.2, ihr.2, foldr_F_append hF]

theorem map_range_getD {α β} (ms : List α) (d : α) (f : α → β) :
    (List.range ms.length).map (fun j => f (ms.getD j d)) = ms.map f := by
  apply List.ext_getElem
  · simp
  · intro n h1 h2
    simp at h1
    simp [h1]

/-- a shape is valid for `n` clauses when its leaves are exactly `0 … n-1` in some order -/
def Shape.Valid (sh : Shape) (n : Nat) : Prop := sh.leaves.Perm (List.range n)

theorem foldShape_valid {op F e} (hop : OpSpec op F) (hF : Monoidal F e) {ms : List PL}
    (hms : ∀ m ∈ ms, Sorted m) {sh : Shape} (hv : sh.Valid ms.length) :
    Sorted (foldShape op ms sh) ∧
    ∀ i, lookup (foldShape op ms sh) i = (ms.map (fun m => lookup m i)).foldr F e := by
  have h := foldShape_spec hop hF hms sh
  refine ⟨h.1, fun i => ?_⟩
  rw [h.2 i, foldr_F_perm hF (List.Perm.map _ hv), map_range_getD ms [] (fun m => lookup m i)]

/-! the three instances -/

theorem optMerge_monoidal {g : Rat → Rat → Rat} (hassoc : ∀ x y z, g (g x y) z = g x (g y z))
    (hcomm : ∀ x y, g x y = g y x) : Monoidal (optMerge g) none := by
  refine ⟨?_, ?_, ?_⟩
  · intro x y z
    cases x <;> cases y <;> cases z <;> simp [optMerge, hassoc]
  · intro x y
    cases x <;> cases y <;> simp [optMerge, hcomm]
  · intro x; cases x <;> rfl

theorem add_monoidal : Monoidal (optMerge (· + ·)) none :=
  optMerge_monoidal (fun x y z => Rat.add_assoc x y z) (fun x y => Rat.add_comm x y)

theorem ratMax_comm (x y : Rat) : ratMax x y = ratMax y x := by
  unfold ratMax; split <;> split <;> grind

theorem ratMax_assoc (x y z : Rat) : ratMax (ratMax x y) z = ratMax x (ratMax y z) := by
  unfold ratMax
  by_cases h1 : x < y <;> by_cases h2 : y < z <;> by_cases h3 : x < z <;> simp only [h1, h2, h3, if_true, if_false] <;>
    (try split) <;> grind

theorem max_monoidal : Monoidal (optMerge ratMax) none :=
  optMerge_monoidal ratMax_assoc ratMax_comm

theorem both_monoidal : Monoidal optBoth (some 0) := by
  refine ⟨?_, ?_, ?_⟩
  · intro x y z
    cases x <;> cases y <;> cases z <;> simp [optBoth, Rat.add_assoc]
  · intro x y
    cases x <;> cases y <;> simp [optBoth, Rat.add_comm]
  · intro x; cases x <;> simp [optBoth, Rat.zero_add]

theorem mergeWith_opSpec (g : Rat → Rat → Rat) : OpSpec (mergeWith g) (optMerge g) :=
  ⟨fun a b ha hb => mergeWith_sorted g a b ha hb, fun a b ha hb i => lookup_mergeWith g a b ha hb i⟩

theorem interL_opSpec : OpSpec interL optBoth :=
  ⟨fun _ b ha _ => interL_sorted b ha, fun _ b ha _ i => lookup_interL b ha i⟩

theorem unionAll_spec {ms : List PL} (hms : ∀ m ∈ ms, Sorted m) :
    Sorted (unionAll ms) ∧
    ∀ i, lookup (unionAll ms) i = (ms.map (fun m => lookup m i)).foldr (optMerge (· + ·)) none := by
  induction ms with
  | nil => exact ⟨sorted_nil, fun i => rfl⟩
  | cons m ms ih =>
    have ih' := ih (fun x hx => hms x (List.mem_cons_of_mem _ hx))
    have hm := hms m List.mem_cons_self
    refine ⟨mergeWith_sorted _ _ _ hm ih'.1, fun i => ?_⟩
    simp only [unionAll, List.foldr_cons, List.map_cons] at *
    show lookup (mergeWith (· + ·) m (List.foldr unionL [] ms)) i = _
    rw [lookup_mergeWith _ _ _ hm ih'.1, ih'.2]

/-! ### the array union under positive scores -/

theorem arrayParts_pos (psz : Nat) (l : PL) (h : ∀ e ∈ l, 0 < e.score) : arrayParts psz l = l := by
  fun_induction arrayParts psz l with
  | case1 => rfl
  | case2 e rest ih =>
    have hrest : ∀ x ∈ rest, 0 < x.score := fun x hx => h x (List.mem_cons_of_mem _ hx)
    have hdrop : ∀ x ∈ rest.dropWhile (fun x => decide (x.id < e.id + psz)), 0 < x.score :=
      fun x hx => hrest x ((List.dropWhile_sublist _).subset hx)
    rw [ih hdrop]
    have hfil : (rest.takeWhile (fun x => decide (x.id < e.id + psz))).filter (fun x => decide (0 < x.score))
        = rest.takeWhile (fun x => decide (x.id < e.id + psz)) := by
      apply List.filter_eq_self.mpr
      intro x hx
      have := hrest x ((List.takeWhile_sublist _).subset hx)
      simpa using this
    rw [hfil, List.takeWhile_append_dropWhile]

end WM.Compile
