import WM.Lemmas.IndexWF
/-! Term lookups (`postings`, `first_id`, `delete_by_term`, `update_document`) versus the
per-document data. -/
namespace WM.Index
open WM.Dict

/-- how many postings document `d` (as visible under `sc`) has for term `t` of field `f` -/
def termCount (sc : Schema) (f t : Nat) (d : DocRec) : Nat :=
  ((docPostings (restrict sc d) 0).filter (fun p => p.fld == f && p.term == t)).length

theorem hasTerm_iff (d : DocRec) (i f t : Nat) :
    d.hasTerm f t = true ↔ ∃ p ∈ docPostings d i, p.fld = f ∧ p.term = t := by
  simp only [DocRec.hasTerm, List.any_eq_true, Bool.and_eq_true, beq_iff_eq, docPostings, List.mem_flatMap,
    List.mem_map]
  constructor
  · rintro ⟨fd, hfd, rfl, k, hk, rfl⟩
    exact ⟨_, ⟨fd, hfd, k, hk, rfl⟩, rfl, rfl⟩
  · rintro ⟨p, ⟨fd, hfd, k, hk, rfl⟩, rfl, rfl⟩
    exact ⟨fd, hfd, rfl, k, hk, rfl⟩

theorem termHits_eq (sc : Schema) (f t : Nat) (d : DocRec) (i : Nat) :
    ((docPostings (restrict sc d) i).filter (fun p => p.fld == f && p.term == t)).map (·.doc)
      = List.replicate (termCount sc f t d) i := by
  rw [List.eq_replicate_iff]
  constructor
  · rw [List.length_map, termCount, ← docPostings_renumber (restrict sc d) 0 i, List.filter_map, List.length_map]
    rfl
  · intro b hb
    simp only [List.mem_map, List.mem_filter] at hb
    obtain ⟨p, ⟨hp, _⟩, rfl⟩ := hb
    exact docPostings_doc _ _ p hp

theorem termCount_pos (sc : Schema) (f t : Nat) (d : DocRec) :
    0 < termCount sc f t d ↔ (restrict sc d).hasTerm f t = true := by
  rw [hasTerm_iff (restrict sc d) 0, termCount, List.length_pos_iff_exists_mem]
  simp only [List.mem_filter, Bool.and_eq_true, beq_iff_eq]

theorem restrict_hasTerm_of_not_has (sc : Schema) (f t : Nat) (d : DocRec) (h : sc.has f = false) :
    (restrict sc d).hasTerm f t = false := by
  simp only [DocRec.hasTerm, restrict, List.any_eq_false, List.mem_filter]
  intro fd ⟨_, hfd⟩
  by_cases he : fd.fld = f
  · subst he; rw [h] at hfd; cases hfd
  · simp [he]

/-- `SegmentReader.postings(f, t)` ids: every live document, once per posting it has for the term. -/
theorem Seg.postingDocs_perm (sc : Schema) (s : Seg) (f t : Nat) (hwf : s.posts.Perm (allPostings s.docs)) :
    (s.postingDocs sc f t).Perm (s.liveIdx.flatMap (fun q => List.replicate (termCount sc f t q.1) q.2)) := by
  have hrhs : s.liveIdx.flatMap (fun q => List.replicate (termCount sc f t q.1) q.2)
      = ((s.liveIdx.flatMap (fun q => docPostings (restrict sc q.1) q.2)).filter
          (fun p => p.fld == f && p.term == t)).map (·.doc) := by
    rw [List.filter_flatMap, List.map_flatMap]
    apply flatMap_congr_mem
    intro q _
    exact (termHits_eq sc f t q.1 q.2).symm
  rw [hrhs, ← allPostings_filter_live]
  unfold Seg.postingDocs
  cases hf : sc.has f with
  | true =>
    simp only [Seg.termPosts, ↓reduceIte]
    refine ((hwf.filter _).filter _).map _ |>.trans ?_
    rw [List.filter_filter, List.filter_filter]
    apply List.Perm.of_eq
    congr 1
    apply List.filter_congr
    intro p _
    by_cases h1 : p.fld = f
    · subst h1; simp [hf, Bool.and_comm]
    · have : (p.fld == f) = false := by simpa using h1
      simp [this]
  | false =>
    simp only [Bool.false_eq_true, if_false]
    apply List.Perm.of_eq
    symm
    rw [List.map_eq_nil_iff, List.filter_filter, List.filter_eq_nil_iff]
    intro p _
    by_cases h1 : p.fld = f
    · subst h1; simp [hf]
    · simp [h1]

theorem docsForQuery_term_perm (sc : Schema) (f t : Nat) (segs : List Seg) (base : Nat)
    (hwf : ∀ s ∈ segs, s.posts.Perm (allPostings s.docs)) :
    (docsForQuery sc (.term f t) segs base).Perm
      ((liveGlobal segs base).flatMap (fun q => List.replicate (termCount sc f t q.1) q.2)) := by
  induction segs generalizing base with
  | nil => simp [docsForQuery, liveGlobal]
  | cons s r ih =>
    simp only [docsForQuery, liveGlobal, List.flatMap_append, Seg.docsFor]
    refine List.Perm.append ?_ (ih _ (fun x hx => hwf x (by simp [hx])))
    refine ((Seg.postingDocs_perm sc s f t (hwf s (by simp))).map _).trans ?_
    rw [List.map_flatMap, List.flatMap_map]
    apply List.Perm.of_eq
    apply flatMap_congr_mem
    intro q _
    simp

/-- membership form: the ids `Term(f, t)` yields are the live documents that have the term. -/
theorem docsForQuery_term_contains (sc : Schema) (f t : Nat) (segs : List Seg)
    (hwf : ∀ s ∈ segs, s.posts.Perm (allPostings s.docs)) (q : DocRec × Nat) (hq : q ∈ liveGlobal segs 0) :
    (docsForQuery sc (.term f t) segs 0).contains q.2 = (restrict sc q.1).hasTerm f t := by
  have hp := docsForQuery_term_perm sc f t segs 0 hwf
  rw [Bool.eq_iff_iff, List.contains_iff_mem, hp.mem_iff, ← termCount_pos]
  simp only [List.mem_flatMap, List.mem_replicate]
  constructor
  · rintro ⟨q', hq', hne, heq⟩
    have := liveGlobal_inj segs 0 q' q hq' hq heq.symm
    subst this
    omega
  · intro h
    exact ⟨q, hq, by omega, rfl⟩

theorem docsForQuery_term_lt (sc : Schema) (f t : Nat) (segs : List Seg)
    (hwf : ∀ s ∈ segs, s.posts.Perm (allPostings s.docs)) :
    ∀ n ∈ docsForQuery sc (.term f t) segs 0, n < docCountAllSegs segs := by
  intro n hn
  rw [(docsForQuery_term_perm sc f t segs 0 hwf).mem_iff] at hn
  simp only [List.mem_flatMap, List.mem_replicate] at hn
  obtain ⟨q, hq, _, rfl⟩ := hn
  have := liveGlobal_lt segs 0 q hq
  omega

end WM.Index
