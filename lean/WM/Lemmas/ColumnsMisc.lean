import WM.Lemmas.ColumnsBit
import WM.Lemmas.ColumnsRef
/-! List encodings, `MultiColumnReader` location, per-document adds, merged adds. -/
namespace WM.Columns

/-! `VarBytesListColumn` -/

theorem decodeVarListAux_encode (ls : List Bytes) (rest : Bytes) :
    decodeVarListAux ls.length ((ls.flatMap fun v => WM.Varint.encode v.length ++ v) ++ rest) = some ls := by
  induction ls with
  | nil => rfl
  | cons v ls ih =>
    simp only [List.length_cons, decodeVarListAux, List.flatMap_cons, List.append_assoc]
    rw [WM.C20.varint_roundtrip]
    simp only
    rw [List.take_left, List.drop_left, ih]
    rfl

theorem encode_ne_nil (n : Nat) : WM.Varint.encode n ≠ [] := by
  unfold WM.Varint.encode; split <;> simp

theorem decodeVarList_encode (ls : List Bytes) : decodeVarList (encodeVarList ls) = some ls := by
  unfold decodeVarList encodeVarList
  have hne : (WM.Varint.encode ls.length ++ ls.flatMap fun v => WM.Varint.encode v.length ++ v).isEmpty = false := by
    cases h : WM.Varint.encode ls.length with
    | nil => exact absurd h (encode_ne_nil _)
    | cons a l => rfl
  rw [hne]
  simp only [Bool.false_eq_true, if_false]
  rw [WM.C20.varint_roundtrip]
  simp only
  have := decodeVarListAux_encode ls []
  simpa using this

theorem encodeVarList_ne_nil (ls : List Bytes) : encodeVarList ls ≠ [] := by
  unfold encodeVarList
  intro h
  have := List.append_eq_nil_iff.mp h
  exact encode_ne_nil _ this.1

/-! `FixedBytesListColumn` -/

theorem chunksOf_flatten (k : Nat) (vs : List Bytes) (hk : 0 < k) (h : ∀ v ∈ vs, v.length = k) :
    chunksOf k vs.flatten = vs := by
  induction vs with
  | nil => rw [chunksOf]; simp
  | cons v vs ih =>
    have hv : v.length = k := h v (by simp)
    have hne : v ≠ [] := by intro e; subst e; simp at hv; omega
    rw [chunksOf]
    have : ¬ (k = 0 ∨ (v :: vs).flatten = []) := by
      intro hh
      rcases hh with hh | hh
      · omega
      · simp at hh; exact hne hh.1
    rw [dif_neg this]
    simp only [List.flatten_cons]
    rw [List.take_left' hv, List.drop_left' hv, ih (fun x hx => h x (by simp [hx]))]

theorem decodeFixList_encode (k : Nat) (hk : 0 < k) (ls : List Bytes) (h : ∀ v ∈ ls, v.length = k) :
    encodeFixList k ls = .ok ls.flatten ∧ decodeFixList k ls.flatten = ls := by
  constructor
  · unfold encodeFixList
    have : ls.all (fun v => v.length == k) = true := by
      simp only [List.all_eq_true, beq_iff_eq]; exact h
    simp [this]
  · unfold decodeFixList
    cases ls with
    | nil => rfl
    | cons v vs =>
      have hv : v.length = k := h v (by simp)
      have : ((v :: vs).flatten).isEmpty = false := by
        cases v with
        | nil => simp at hv; omega
        | cons a l => rfl
      rw [this]
      simp only [Bool.false_eq_true, if_false]
      exact chunksOf_flatten k (v :: vs) hk h

/-! `MultiColumnReader` -/

theorem countP_le_of_all_gt (os : List Nat) (d : Nat) (h : ∀ o ∈ os, d < o) : os.countP (· ≤ d) = 0 := by
  rw [List.countP_eq_zero]
  intro o ho
  have := h o ho
  simp; omega

theorem deriveOffsets_ge (base : Nat) (cs : List Nat) : ∀ o ∈ deriveOffsets base cs, base ≤ o := by
  induction cs generalizing base with
  | nil => intro o ho; simp [deriveOffsets] at ho
  | cons c cs ih =>
    intro o ho
    simp only [deriveOffsets, List.mem_cons] at ho
    rcases ho with rfl | ho
    · omega
    · have := ih (base + c) o ho; omega

/-- The segment that holds global document `d`, found by `bisect_right` over the offsets. -/
theorem multiLocate_spec (counts : List Nat) (base d : Nat) (hb : base ≤ d)
    (hd : d < base + counts.sum) :
    ∃ i c o, bisectRight (deriveOffsets base counts) d = i + 1 ∧ counts[i]? = some c ∧
      (deriveOffsets base counts)[i]? = some o ∧ o ≤ d ∧ d < o + c := by
  induction counts generalizing base with
  | nil => simp at hd; omega
  | cons c cs ih =>
    simp only [deriveOffsets, bisectRight, List.countP_cons, List.sum_cons] at *
    have hbd : decide (base ≤ d) = true := by simpa using hb
    by_cases hin : d < base + c
    · have := countP_le_of_all_gt (deriveOffsets (base + c) cs) d
        (fun o ho => by have := deriveOffsets_ge (base + c) cs o ho; omega)
      refine ⟨0, c, base, ?_, rfl, rfl, hb, hin⟩
      rw [this]; simp [hbd]
    · obtain ⟨i, c', o, h1, h2, h3, h4, h5⟩ := ih (base + c) (by omega) (by omega)
      refine ⟨i + 1, c', o, ?_, by simpa using h2, by simpa using h3, h4, h5⟩
      rw [h1]; simp [hbd]

/-! per-document adds and merged adds -/

theorem perDocAdds_spec {α : Type} (vals : List (Option α)) (k : Nat) :
    Increasing ((vals.zipIdx k).filterMap fun p => p.1.map fun v => (p.2, v)) ∧
    (∀ q ∈ (vals.zipIdx k).filterMap (fun p => p.1.map fun v => (p.2, v)), k ≤ q.1 ∧ q.1 < k + vals.length) ∧
    ∀ d, lookup ((vals.zipIdx k).filterMap fun p => p.1.map fun v => (p.2, v)) (k + d) = (vals[d]?).join := by
  induction vals generalizing k with
  | nil => exact ⟨List.Pairwise.nil, by simp, by simp [lookup]⟩
  | cons x xs ih =>
    obtain ⟨h1, h2, h3⟩ := ih (k + 1)
    simp only [List.zipIdx_cons, List.filterMap_cons]
    cases x with
    | none =>
      simp only [Option.map_none]
      refine ⟨h1, ?_, ?_⟩
      · intro q hq; have := h2 q hq; simp only [List.length_cons]; omega
      · intro d
        cases d with
        | zero =>
          simp only [Nat.add_zero, List.getElem?_cons_zero, Option.join_some]
          exact lookup_none_of_lt _ k (fun q hq => by have := h2 q hq; omega)
        | succ d =>
          have := h3 d
          rw [show k + (d + 1) = k + 1 + d by omega, this]; simp
    | some v =>
      simp only [Option.map_some]
      refine ⟨?_, ?_, ?_⟩
      · exact List.pairwise_cons.mpr ⟨fun q hq => by have := h2 q hq; simp only; omega, h1⟩
      · intro q hq
        simp only [List.mem_cons, List.length_cons] at hq ⊢
        rcases hq with rfl | hq
        · simp only; omega
        · have := h2 q hq; omega
      · intro d
        cases d with
        | zero => simp [lookup]
        | succ d =>
          rw [lookup_cons_ne k (k + (d + 1)) v _ (by omega)]
          have := h3 d
          rw [show k + (d + 1) = k + 1 + d by omega, this]; simp

theorem mergedAdds_spec {α : Type} (default : α) (adds : List (Nat × α)) (live : List Nat) (k : Nat) :
    Increasing ((live.zipIdx k).map fun p => (p.2, cell default adds p.1)) ∧
    (∀ q ∈ (live.zipIdx k).map (fun p => (p.2, cell default adds p.1)), k ≤ q.1 ∧ q.1 < k + live.length) ∧
    ∀ j, (h : j < live.length) →
      lookup ((live.zipIdx k).map fun p => (p.2, cell default adds p.1)) (k + j)
        = some (cell default adds live[j]) := by
  induction live generalizing k with
  | nil => exact ⟨List.Pairwise.nil, by simp, fun j h => by simp at h⟩
  | cons x xs ih =>
    obtain ⟨h1, h2, h3⟩ := ih (k + 1)
    simp only [List.zipIdx_cons, List.map_cons]
    refine ⟨?_, ?_, ?_⟩
    · exact List.pairwise_cons.mpr ⟨fun q hq => by have := h2 q hq; simp only; omega, h1⟩
    · intro q hq
      simp only [List.mem_cons, List.length_cons] at hq ⊢
      rcases hq with rfl | hq
      · simp only; omega
      · have := h2 q hq; omega
    · intro j hj
      cases j with
      | zero => simp [lookup]
      | succ j =>
        rw [lookup_cons_ne k (k + (j + 1)) _ _ (by omega)]
        have := h3 j (by simpa using hj)
        rw [show k + (j + 1) = k + 1 + j by omega, this]; simp

end WM.Columns
