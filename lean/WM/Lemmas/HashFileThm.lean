import WM.Lemmas.HashTable
/-! From the table invariant to the file-level statements about `HashReader`. -/
set_option linter.unusedSimpArgs false
namespace WM.HashFile

theorem insertAll_spec : ∀ (es : List Slot) {T placed : List Slot}, Inv T placed →
    (∀ e ∈ es, nz e = true) → (placed ++ es).Nodup → placed.length + es.length ≤ T.length →
    ∃ T', insertAll T es = some T' ∧ T'.length = T.length ∧ Inv T' (placed ++ es)
  | [], T, placed, hinv, _, _, _ => ⟨T, rfl, rfl, by simpa using hinv⟩
  | e :: es, T, placed, hinv, hnz, hnd, hroom => by
    have he := hnz e (by simp)
    have hnew : e ∉ placed := by
      intro hmem
      rw [List.nodup_append] at hnd
      exact hnd.2.2 e hmem e (by simp) rfl
    rcases inv_insert hinv e (by simp at hroom; omega) he hnew with ⟨T1, h1, hl1, hinv1⟩
    have hnd' : ((placed ++ [e]) ++ es).Nodup := by simpa using hnd
    rcases insertAll_spec es hinv1 (fun x hx => hnz x (List.mem_cons_of_mem _ hx)) hnd'
        (by simp at hroom ⊢; omega) with ⟨T2, h2, hl2, hinv2⟩
    refine ⟨T2, ?_, by omega, by simpa using hinv2⟩
    simp only [insertAll, h1, h2]

/-- `_write_hashes` for one bucket terminates and establishes the invariant. -/
theorem buildTable_spec (entries : List Slot) (hnz : ∀ e ∈ entries, nz e = true)
    (hnd : entries.Nodup) :
    ∃ T, buildTable entries = some T ∧ T.length = 2 * entries.length ∧ Inv T entries := by
  unfold buildTable
  rcases insertAll_spec entries (inv_init (2 * entries.length)) hnz (by simpa using hnd)
      (by simp; omega) with ⟨T, h1, h2, h3⟩
  exact ⟨T, h1, by simpa using h2, by simpa using h3⟩

/-- The reader's loop returns what the visible run of slots contains. -/
theorem scan_eq {β} (T : List Slot) (kh : Nat) (check : Nat → Option β) (H : Nat) (hn : 0 < T.length) :
    ∀ (fuel d : Nat), d + fuel = T.length →
      scan T kh check (P T.length H d) fuel
        = (((List.range' d fuel).map fun d => T.getD (P T.length H d) null).takeWhile nz).filterMap
            (fun s => if s.1 = kh then check s.2 else none) := by
  intro fuel
  induction fuel with
  | zero => intro d _; simp [scan]
  | succ f ih =>
    intro d hd
    have hP := P_lt hn H d
    unfold scan
    rw [List.getElem?_eq_getElem hP, List.range'_succ, List.map_cons, List.takeWhile_cons]
    have hg : T.getD (P T.length H d) null = T[P T.length H d] := by
      rw [List.getD_eq_getElem?_getD, List.getElem?_eq_getElem hP]; rfl
    rw [hg]
    rcases hs : T[P T.length H d] with ⟨sh, ip⟩
    simp only
    by_cases hip : ip = 0
    · subst hip; simp [nz]
    · have hnz : nz (sh, ip) = true := by simp [nz, hip]
      rw [if_neg hip, hnz]
      simp only [↓reduceIte, List.filterMap_cons]
      rw [← succ_mod_eq hP, P_succ, ih (d + 1) (by omega)]
      by_cases hk : sh = kh
      · simp only [hk, ↓reduceIte]
        cases check ip <;> rfl
      · simp only [hk, ↓reduceIte]

theorem scan_visited {β} (T : List Slot) (kh : Nat) (check : Nat → Option β) (hn : 0 < T.length) :
    scan T kh check ((kh / 256) % T.length) T.length
      = (visited T (home T.length kh)).filterMap (fun s => if s.1 = kh then check s.2 else none) := by
  have h0 : (kh / 256) % T.length = P T.length (home T.length kh) 0 := by
    unfold P home; simp [Nat.mod_mod]
  rw [h0, scan_eq T kh check (home T.length kh) hn T.length 0 (by omega)]
  unfold visited probeList
  rw [List.range_eq_range']

/-- With the invariant, a look-up of hash `kh` sees exactly the entries with that hash, in
    insertion order. -/
theorem scan_inv {β} {T entries : List Slot} (hinv : Inv T entries) (kh : Nat) (check : Nat → Option β)
    (hn : 0 < T.length) :
    scan T kh check ((kh / 256) % T.length) T.length
      = (entries.filter (fun s => s.1 == kh)).filterMap (fun s => check s.2) := by
  rw [scan_visited T kh check hn, ← hinv.q kh]
  generalize visited T (home T.length kh) = V
  induction V with
  | nil => rfl
  | cons a t ih =>
    by_cases h : a.1 = kh
    · have hb : (a.1 == kh) = true := by simp [h]
      rw [List.filter_cons, if_pos hb, List.filterMap_cons, List.filterMap_cons, if_pos h, ih]
    · have hb : ¬ (a.1 == kh) = true := by simp [h]
      rw [List.filter_cons, if_neg hb, List.filterMap_cons, if_neg h, ih]

/-! ### the record area -/

/-- the records `add` writes for `kvs` starting at position `p` -/
def layout {α} (vlen : α → Nat) : Nat → List (Key × α) → List (Rec α)
  | _, [] => []
  | p, kv :: t => ⟨p, kv.1, kv.2⟩ :: layout vlen (p + lengthsSize + kv.1.length + vlen kv.2) t

def endPos {α} (vlen : α → Nat) : Nat → List (Key × α) → Nat
  | p, [] => p
  | p, kv :: t => endPos vlen (p + lengthsSize + kv.1.length + vlen kv.2) t

theorem foldl_addRec {α} (vlen : α → Nat) : ∀ (kvs : List (Key × α)) (p : Nat) (acc : List (Rec α)),
    kvs.foldl (addRec vlen) (p, acc) = (endPos vlen p kvs, acc ++ layout vlen p kvs)
  | [], p, acc => by simp [layout, endPos]
  | kv :: t, p, acc => by
    simp only [List.foldl_cons, addRec, layout, endPos]
    rw [foldl_addRec vlen t]
    simp

theorem layout_kvs {α} (vlen : α → Nat) : ∀ (kvs : List (Key × α)) (p : Nat),
    (layout vlen p kvs).map (fun r => (r.key, r.val)) = kvs
  | [], _ => rfl
  | kv :: t, p => by simp [layout, layout_kvs vlen t]

theorem layout_pos_ge {α} (vlen : α → Nat) : ∀ (kvs : List (Key × α)) (p : Nat),
    ∀ r ∈ layout vlen p kvs, p ≤ r.pos
  | [], _ => by simp [layout]
  | kv :: t, p => by
    intro r hr
    simp only [layout, List.mem_cons] at hr
    rcases hr with rfl | hr
    · exact Nat.le_refl _
    · have := layout_pos_ge vlen t _ r hr
      simp only [lengthsSize] at this; omega

theorem layout_pos_lt_end {α} (vlen : α → Nat) : ∀ (kvs : List (Key × α)) (p : Nat),
    ∀ r ∈ layout vlen p kvs, r.pos < endPos vlen p kvs
  | [], _ => by simp [layout]
  | kv :: t, p => by
    intro r hr
    simp only [layout, List.mem_cons] at hr
    simp only [endPos]
    rcases hr with rfl | hr
    · simp only
      have : ∀ (l : List (Key × α)) (q : Nat), q ≤ endPos vlen q l := by
        intro l
        induction l with
        | nil => intro q; exact Nat.le_refl _
        | cons a l ih => intro q; simp only [endPos]; have := ih (q + lengthsSize + a.1.length + vlen a.2); omega
      have := this t (p + lengthsSize + kv.1.length + vlen kv.2)
      simp only [lengthsSize] at this ⊢; omega
    · exact layout_pos_lt_end vlen t _ r hr

theorem layout_pos_sorted {α} (vlen : α → Nat) : ∀ (kvs : List (Key × α)) (p : Nat),
    (layout vlen p kvs).Pairwise (fun a b => a.pos < b.pos)
  | [], _ => List.Pairwise.nil
  | kv :: t, p => by
    simp only [layout]
    apply List.pairwise_cons.mpr
    refine ⟨?_, layout_pos_sorted vlen t _⟩
    intro r hr
    have := layout_pos_ge vlen t _ r hr
    simp only [lengthsSize] at this ⊢; omega

/-- a record is found at its own position when positions are distinct -/
theorem find_at_pos {α} {recs : List (Rec α)} (hs : recs.Pairwise (fun a b => a.pos < b.pos))
    {r : Rec α} (hr : r ∈ recs) : recs.find? (·.pos == r.pos) = some r := by
  induction recs with
  | nil => simp at hr
  | cons a t ih =>
    have hs' := List.pairwise_cons.mp hs
    rw [List.find?_cons]
    simp only [List.mem_cons] at hr
    rcases hr with rfl | hr
    · simp
    · have hlt := hs'.1 r hr
      have : (a.pos == r.pos) = false := by simp; omega
      rw [this]
      exact ih hs'.2 hr

theorem mapM_option_some {α β} (f : α → Option β) : ∀ (l : List α), (∀ x ∈ l, ∃ y, f x = some y) →
    ∃ ys, l.mapM f = some ys ∧ ys.length = l.length ∧
      ∀ (i : Nat) (hi : i < l.length) (hi' : i < ys.length), f l[i] = some ys[i]
  | [], _ => ⟨[], by simp, rfl, by intro i hi; simp at hi⟩
  | x :: t, h => by
    rcases h x (by simp) with ⟨y, hy⟩
    rcases mapM_option_some f t (fun z hz => h z (List.mem_cons_of_mem _ hz)) with ⟨ys, h1, h2, h3⟩
    refine ⟨y :: ys, by simp [List.mapM_cons, hy, h1], by simp [h2], ?_⟩
    intro i hi hi'
    cases i with
    | zero => simpa using hy
    | succ k => simpa using h3 k (by simpa using hi) (by simpa using hi')

/-! ### what `build` produces -/

theorem bucket_nz {α} (hash : Key → Nat) (recs : List (Rec α)) (b : Nat) (hpos : ∀ r ∈ recs, 0 < r.pos) :
    ∀ e ∈ bucketEntries hash recs b, nz e = true := by
  intro e he
  unfold bucketEntries at he
  rcases List.mem_map.mp he with ⟨r, hr, rfl⟩
  have := hpos r (List.mem_filter.mp hr).1
  simp [nz]; omega

theorem bucket_nodup {α} (hash : Key → Nat) (recs : List (Rec α)) (b : Nat)
    (hs : recs.Pairwise (fun a b => a.pos < b.pos)) : (bucketEntries hash recs b).Nodup := by
  unfold bucketEntries List.Nodup
  rw [List.pairwise_map]
  apply List.Pairwise.imp _ (List.Pairwise.filter _ hs)
  intro a c hac heq
  have : a.pos = c.pos := congrArg Prod.snd heq
  omega

structure Built {α} (hash : Key → Nat) (vlen : α → Nat) (so : Nat) (kvs : List (Key × α)) (f : File α) : Prop where
  recs : f.recs = layout vlen (so + headerSize) kvs
  eod : f.endofdata = endPos vlen (so + headerSize) kvs
  start : f.startoffset = so
  index : f.indexTC = (indexArray (f.recs.map (·.pos))).1.tc ∧
    f.indexLen = (indexArray (f.recs.map (·.pos))).1.items.length ∧
    f.indexBytes = (indexArray (f.recs.map (·.pos))).1.toBytes
  tables : ∀ b, b < 256 → ∃ T, f.tables[b]? = some T ∧ T.length = 2 * (bucketEntries hash f.recs b).length ∧
    Inv T (bucketEntries hash f.recs b)

theorem recs_pos {α} (vlen : α → Nat) (so : Nat) (kvs : List (Key × α)) :
    ∀ r ∈ layout vlen (so + headerSize) kvs, 0 < r.pos := by
  intro r hr
  have := layout_pos_ge vlen kvs _ r hr
  simp only [headerSize] at this; omega

/-- `HashWriter` always completes, and the file has the parts the reader relies on. -/
theorem build_spec {α} (hash : Key → Nat) (vlen : α → Nat) (so : Nat) (kvs : List (Key × α)) :
    ∃ f, build hash vlen so kvs = some f ∧ Built hash vlen so kvs f := by
  unfold build
  simp only
  rw [foldl_addRec]
  simp only [List.nil_append]
  have hsorted := layout_pos_sorted vlen kvs (so + headerSize)
  have hpos := recs_pos vlen so kvs
  rcases mapM_option_some (fun b => buildTable (bucketEntries hash (layout vlen (so + headerSize) kvs) b))
      (List.range 256) (fun b _ => by
        rcases buildTable_spec _ (bucket_nz hash _ b hpos) (bucket_nodup hash _ b hsorted) with ⟨T, hT, _⟩
        exact ⟨T, hT⟩) with ⟨tables, h1, h2, h3⟩
  rw [h1]
  refine ⟨_, rfl, ⟨rfl, rfl, rfl, ⟨rfl, rfl, rfl⟩, ?_⟩⟩
  intro b hb
  simp only
  have hb' : b < (List.range 256).length := by simpa using hb
  have hb'' : b < tables.length := by rw [h2]; exact hb'
  have := h3 b hb' hb''
  simp only [List.getElem_range] at this
  rcases buildTable_spec _ (bucket_nz hash _ b hpos) (bucket_nodup hash _ b hsorted) with ⟨T, hT, hl, hinv⟩
  rw [hT] at this
  refine ⟨T, ?_, hl, hinv⟩
  rw [List.getElem?_eq_getElem hb'', ← Option.some.inj this]

/-- `_ranges(pos)` from the position of a record walks exactly the records from there on. -/
theorem walk_layout {α} (vlen : α → Nat) (f : File α)
    (hs : f.recs.Pairwise (fun a b => a.pos < b.pos)) :
    ∀ (kvs' : List (Key × α)) (p : Nat) (pre : List (Rec α)), f.recs = pre ++ layout vlen p kvs' →
      f.endofdata = endPos vlen p kvs' → walk vlen f p = layout vlen p kvs'
  | [], p, pre, _, hend => by
    rw [walk]
    simp only [endPos] at hend
    simp [hend, layout]
  | kv :: t, p, pre, hrecs, hend => by
    rw [walk]
    have hmem : (⟨p, kv.1, kv.2⟩ : Rec α) ∈ f.recs := by rw [hrecs]; simp [layout]
    have hlt : p < f.endofdata := by
      rw [hend]
      exact layout_pos_lt_end vlen (kv :: t) p ⟨p, kv.1, kv.2⟩ (by simp [layout])
    have hat : recAt f p = some ⟨p, kv.1, kv.2⟩ := by
      unfold recAt
      exact find_at_pos hs hmem
    rw [if_pos hlt, hat]
    simp only [layout]
    congr 1
    have harith : p + (lengthsSize + kv.1.length + vlen kv.2) = p + lengthsSize + kv.1.length + vlen kv.2 := by
      omega
    rw [harith]
    apply walk_layout vlen f hs t _ (pre ++ [⟨p, kv.1, kv.2⟩])
    · rw [hrecs]; simp [layout]
    · rw [hend]; simp [endPos]

theorem dropWhile_eq_drop {α} (p : α → Bool) : ∀ (l : List α) (lo : Nat),
    (∀ k (hk : k < l.length), k < lo → p l[k] = true) →
    (∀ (hlo : lo < l.length), p l[lo] = false) → lo ≤ l.length → l.dropWhile p = l.drop lo
  | [], lo, _, _, _ => by simp
  | a :: t, 0, _, h2, _ => by
    have := h2 (by simp)
    simp only [List.getElem_cons_zero] at this
    simp [List.dropWhile_cons, this]
  | a :: t, lo + 1, h1, h2, hle => by
    have ha := h1 0 (by simp) (by omega)
    simp only [List.getElem_cons_zero] at ha
    rw [List.dropWhile_cons, if_pos ha, List.drop_succ_cons]
    apply dropWhile_eq_drop p t lo
    · intro k hk hklo
      have := h1 (k + 1) (by simpa using hk) (by omega)
      simpa using this
    · intro hlo
      have := h2 (by simpa using hlo)
      simpa using this
    · simpa using hle

theorem find?_eq_getElem {α} (q : α → Bool) : ∀ (l : List α) (lo : Nat),
    (∀ k (hk : k < l.length), k < lo → q l[k] = false) →
    (∀ (hlo : lo < l.length), q l[lo] = true) → lo ≤ l.length → l.find? q = l[lo]?
  | [], lo, _, _, _ => by simp
  | a :: t, 0, _, h2, _ => by
    have := h2 (by simp)
    simp only [List.getElem_cons_zero] at this
    simp [List.find?_cons, this]
  | a :: t, lo + 1, h1, h2, hle => by
    have ha := h1 0 (by simp) (by omega)
    simp only [List.getElem_cons_zero] at ha
    rw [List.find?_cons, ha, List.getElem?_cons_succ]
    apply find?_eq_getElem q t lo
    · intro k hk hklo
      have := h1 (k + 1) (by simpa using hk) (by omega)
      simpa using this
    · intro hlo
      have := h2 (by simpa using hlo)
      simpa using this
    · simpa using hle

end WM.HashFile
