import WM.Model.ColumnsField
import WM.Spec.Columns
/-! Lemmas for the field-level conversions of C08: strict UTF-8 decoding inverts encoding; the
    conversion of a list of adds succeeds when every value converts. -/
namespace WM.Columns

theorem utf8Decode_encodeChar (c : Nat) (bs rest : Bytes) (h : utf8EncodeChar c = .ok bs) :
    utf8Decode (bs ++ rest) = consOk c (utf8Decode rest) := by
  unfold utf8EncodeChar at h
  split at h
  · injection h with h; subst h
    rename_i h1
    simp only [List.cons_append, List.nil_append]
    conv => lhs; unfold utf8Decode
    simp only [h1, if_true]
  · rename_i h1
    split at h
    · injection h with h; subst h
      rename_i h2
      simp only [List.cons_append, List.nil_append]
      conv => lhs; unfold utf8Decode
      have a1 : ¬ (0xC0 + c / 64 < 0x80) := by omega
      have a2 : ¬ (0xC0 + c / 64 < 0xC2) := by omega
      have a3 : (0xC0 + c / 64 < 0xE0) := by omega
      have a4 : isCont (0x80 + c % 64) = true := by simp [isCont]; omega
      have a5 : (0xC0 + c / 64 - 0xC0) * 64 + (0x80 + c % 64 - 0x80) = c := by omega
      simp only [a1, a2, a3, a4, a5, if_true, if_false]
    · rename_i h2
      split at h
      · cases h
      · rename_i h3
        split at h
        · injection h with h; subst h
          rename_i h4
          simp only [List.cons_append, List.nil_append]
          conv => lhs; unfold utf8Decode
          have a1 : ¬ (0xE0 + c / 4096 < 0x80) := by omega
          have a2 : ¬ (0xE0 + c / 4096 < 0xC2) := by omega
          have a3 : ¬ (0xE0 + c / 4096 < 0xE0) := by omega
          have a3' : (0xE0 + c / 4096 < 0xF0) := by omega
          have a4 : isCont (0x80 + c / 64 % 64) = true := by simp [isCont]; omega
          have a4' : isCont (0x80 + c % 64) = true := by simp [isCont]; omega
          have a5 : (0xE0 + c / 4096 - 0xE0) * 4096 + (0x80 + c / 64 % 64 - 0x80) * 64 + (0x80 + c % 64 - 0x80) = c := by omega
          have a6 : decide (0x800 ≤ c) = true := by simp; omega
          have a7 : (decide (0xD800 ≤ c) && decide (c ≤ 0xDFFF)) = false := by
            simp only [Bool.and_eq_false_iff, decide_eq_false_iff_not]; omega
          simp only [a1, a2, a3, a3', a4, a4', a5, a6, a7, if_true, if_false, Bool.and_self, Bool.not_false]
        · rename_i h4
          split at h
          · injection h with h; subst h
            rename_i h5
            simp only [List.cons_append, List.nil_append]
            conv => lhs; unfold utf8Decode
            have a1 : ¬ (0xF0 + c / 262144 < 0x80) := by omega
            have a2 : ¬ (0xF0 + c / 262144 < 0xC2) := by omega
            have a3 : ¬ (0xF0 + c / 262144 < 0xE0) := by omega
            have a3' : ¬ (0xF0 + c / 262144 < 0xF0) := by omega
            have a3'' : (0xF0 + c / 262144 < 0xF5) := by omega
            have a4 : isCont (0x80 + c / 4096 % 64) = true := by simp [isCont]; omega
            have a4' : isCont (0x80 + c / 64 % 64) = true := by simp [isCont]; omega
            have a4'' : isCont (0x80 + c % 64) = true := by simp [isCont]; omega
            have a5 : (0xF0 + c / 262144 - 0xF0) * 262144 + (0x80 + c / 4096 % 64 - 0x80) * 4096 + (0x80 + c / 64 % 64 - 0x80) * 64 + (0x80 + c % 64 - 0x80) = c := by omega
            have a6 : decide (0x10000 ≤ c) = true := by simp; omega
            have a7 : decide (c < 0x110000) = true := by simp; omega
            simp only [a1, a2, a3, a3', a3'', a4, a4', a4'', a5, a6, a7, if_true, if_false, Bool.and_self]
          · cases h

theorem utf8_roundtrip (s : List Nat) (hs : ∀ c ∈ s, isScalar c = true) :
    ∃ bs, utf8Encode s = .ok bs ∧ utf8Decode bs = .ok s := by
  induction s with
  | nil => exact ⟨[], rfl, by unfold utf8Decode; rfl⟩
  | cons c rest ih =>
    obtain ⟨bs, h1, h2⟩ := ih (fun x hx => hs x (List.mem_cons_of_mem _ hx))
    have hc := hs c (List.mem_cons_self)
    obtain ⟨a, ha⟩ : ∃ a, utf8EncodeChar c = .ok a := by
      unfold isScalar at hc
      simp only [Bool.and_eq_true, decide_eq_true_eq, Bool.not_eq_true', Bool.and_eq_false_iff, decide_eq_false_iff_not] at hc
      unfold utf8EncodeChar
      split
      · exact ⟨_, rfl⟩
      · split
        · exact ⟨_, rfl⟩
        · split
          · omega
          · split
            · exact ⟨_, rfl⟩
            · split
              · exact ⟨_, rfl⟩
              · omega
    refine ⟨a ++ bs, ?_, ?_⟩
    · simp only [utf8Encode, ha, h1]
    · rw [utf8Decode_encodeChar c a bs ha, h2]; rfl

/-- When every value converts, the column receives the converted adds, document numbers unchanged. -/
theorem convAdds_ok {α β : Type} (f : α → Except FErr β) (g : α → β) (adds : List (Nat × α))
    (h : ∀ p ∈ adds, f p.2 = .ok (g p.2)) :
    convAdds f adds = .ok (adds.map fun p => (p.1, g p.2)) := by
  induction adds with
  | nil => rfl
  | cons p rest ih =>
    obtain ⟨d, v⟩ := p
    have h1 := h (d, v) List.mem_cons_self
    have h2 := ih (fun q hq => h q (List.mem_cons_of_mem _ hq))
    simp only at h1
    simp only [convAdds, h1, h2, List.map_cons]

theorem utf8EncodeChar_length (c : Nat) (a : Bytes) (h : utf8EncodeChar c = .ok a) : a.length ≤ 4 := by
  unfold utf8EncodeChar at h
  repeat' split at h
  all_goals first | (injection h with h; subst h; simp) | cases h

/-- A code point takes at most four bytes. -/
theorem utf8Encode_length (s : List Nat) (bs : Bytes) (h : utf8Encode s = .ok bs) :
    bs.length ≤ 4 * s.length := by
  induction s generalizing bs with
  | nil => simp only [utf8Encode] at h; injection h with h; subst h; simp
  | cons c rest ih =>
    simp only [utf8Encode] at h
    cases h1 : utf8EncodeChar c with
    | error e => rw [h1] at h; simp at h
    | ok a =>
      cases h2 : utf8Encode rest with
      | error e => rw [h1, h2] at h; simp at h
      | ok b =>
        rw [h1, h2] at h
        simp only at h
        injection h with h; subst h
        have := utf8EncodeChar_length c a h1
        have := ih b h2
        simp only [List.length_append, List.length_cons]
        omega

end WM.Columns
