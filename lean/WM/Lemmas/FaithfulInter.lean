import WM.Lemmas.Faithful
/-! `IntersectionMatcher` and `RequireMatcher` are faithful cursors over `interWith f`. -/
namespace WM.Matcher

/-! ### list facts -/

theorem lookup_none_of_ge {L : Den} {y d : Nat} (h : ∀ p ∈ L, y ≤ p.1) (hd : d < y) :
    lookup L d = none :=
  lookup_none_of_lt fun q hq => Nat.lt_of_lt_of_le hd (h q hq)

theorem interWith_nil_left (f) (B : Den) : interWith f [] B = [] := rfl

theorem interWith_nil_right (f) (A : Den) : interWith f A [] = [] := by
  induction A with
  | nil => rfl
  | cons p A ih => simp only [interWith, List.filterMap_cons, lookup_nil, Option.map_none] at ih ⊢; exact ih

theorem interWith_dropBelow_left (f) {A B : Den} {y : Nat} (hA : Asc A) (hB : ∀ p ∈ B, y ≤ p.1) :
    interWith f (dropBelow y A) B = interWith f A B := by
  apply den_ext (asc_interWith f B (asc_dropBelow y hA)) (asc_interWith f B hA)
  intro d
  rw [lookup_interWith f B (asc_dropBelow y hA), lookup_interWith f B hA, lookup_dropBelow hA]
  by_cases h : d < y
  · rw [if_pos h, lookup_none_of_ge hB h]
    cases lookup A d <;> rfl
  · rw [if_neg h]

theorem interWith_dropBelow_right (f) {A B : Den} {x : Nat} (hA : Asc A) (hB : Asc B)
    (hA' : ∀ p ∈ A, x ≤ p.1) : interWith f A (dropBelow x B) = interWith f A B := by
  apply den_ext (asc_interWith f _ hA) (asc_interWith f B hA)
  intro d
  rw [lookup_interWith f _ hA, lookup_interWith f B hA, lookup_dropBelow hB]
  by_cases h : d < x
  · rw [if_pos h, lookup_none_of_ge hA' h]
  · rw [if_neg h]

theorem dropBelow_interWith (f) {A B : Den} (hA : Asc A) (hB : Asc B) (t : Nat) :
    interWith f (dropBelow t A) (dropBelow t B) = dropBelow t (interWith f A B) := by
  apply den_ext (asc_interWith f _ (asc_dropBelow t hA)) (asc_dropBelow t (asc_interWith f B hA))
  intro d
  rw [lookup_interWith f _ (asc_dropBelow t hA), lookup_dropBelow hA, lookup_dropBelow hB,
    lookup_dropBelow (asc_interWith f B hA), lookup_interWith f B hA]
  by_cases h : d < t <;> simp [h]

/-- both lists start at the same id -/
theorem interWith_cons_cons (f) {x : Nat} {r s : Rat} {La Lb : Den} (hA : Asc ((x, r) :: La))
    (hB : Asc ((x, s) :: Lb)) :
    interWith f ((x, r) :: La) ((x, s) :: Lb) = (x, f r s) :: interWith f La Lb := by
  apply den_ext (asc_interWith f _ hA)
  · refine asc_cons.2 ⟨?_, asc_interWith f _ hA.tail⟩
    intro q hq
    obtain ⟨p, hp, hq'⟩ := List.mem_filterMap.1 hq
    cases hl : lookup Lb p.1 with
    | none => simp [hl] at hq'
    | some t =>
      simp only [hl, Option.map_some, Option.some.injEq] at hq'
      rw [← hq']
      exact hA.head_lt p hp
  · intro d
    rw [lookup_interWith f _ hA, lookup_cons, lookup_cons, lookup_cons]
    by_cases hd : x = d
    · simp [hd]
    · simp only [hd, ↓reduceIte]
      rw [lookup_interWith f _ hA.tail]

theorem dropBelow_ne_of_head_lt {x y : Nat} {r : Rat} {L : Den} (h : x < y) :
    dropBelow y ((x, r) :: L) ≠ (x, r) :: L := by
  intro he
  have h1 := congrArg List.length he
  rw [dropBelow_cons, if_pos h] at h1
  have := dropBelow_length_le y L
  simp at h1
  omega

theorem dropBelow_nil_of_lt {L : Den} (t : Nat) : dropBelow t L = [] → ∀ p ∈ L, p.1 < t := by
  induction L with
  | nil => intro _ p hp; cases hp
  | cons q L ih =>
    obtain ⟨x, s⟩ := q
    rw [dropBelow_cons]
    by_cases hx : x < t
    · rw [if_pos hx]
      intro h p hp
      rcases List.mem_cons.1 hp with rfl | hp
      · exact hx
      · exact ih h p hp
    · rw [if_neg hx]; intro h; cases h

/-! ### the alignment loop -/

namespace Inter
variable {α β : Type} {A : Ops α} {B : Ops β} {dA fA : α → Den} {dB fB : β → Den}
  {WA : α → Prop} {WB : β → Prop}

/-- both active ⇒ on the same document -/
def Aligned (dA : α → Den) (dB : β → Den) (m : Bin α β) : Prop :=
  ∀ x r La y s Lb, dA m.a = (x, r) :: La → dB m.b = (y, s) :: Lb → x = y

/-- What `_find_next`/`_find_first` guarantee about their result `m'` when started from `m`. -/
structure Synced (A : Ops α) (B : Ops β) (dA fA : α → Den) (dB fB : β → Den) (WA : α → Prop) (WB : β → Prop)
    (f : Rat → Rat → Rat) (m m' : Bin α β) : Prop where
  wa : WA m'.a
  wb : WB m'.b
  aligned : Aligned dA dB m'
  den_eq : interWith f (dA m'.a) (dB m'.b) = interWith f (dA m.a) (dB m.b)
  rem_a : A.rem m'.a ≤ A.rem m.a
  rem_b : B.rem m'.b ≤ B.rem m.b
  same_a : A.rem m'.a = A.rem m.a → dA m'.a = dA m.a
  same_b : B.rem m'.b = B.rem m.b → dB m'.b = dB m.b
  full_a : fA m'.a = fA m.a
  full_b : fB m'.b = fB m.b

theorem findLoop_spec (f : Rat → Rat → Rat) (FA : Faithful A dA fA WA) (FB : Faithful B dB fB WB) :
    ∀ (fuel : Nat) (a : α) (b : β) (x y : Nat) (ra rb : Rat) (La Lb : Den),
      WA a → WB b → dA a = (x, ra) :: La → dB b = (y, rb) :: Lb → A.rem a + B.rem b < fuel →
      ∃ m', findLoop A B fuel a b x y = .ok m' ∧ Synced A B dA fA dB fB WA WB f ⟨a, b⟩ m' := by
  intro fuel
  induction fuel with
  | zero => intro a b x y ra rb La Lb _ _ _ _ h; omega
  | succ n ih =>
    intro a b x y ra rb La Lb wa wb ha hb hfuel
    have hAa : A.isActive a = true := (FA.active _ wa).2 (by simp [ha])
    have hBa : B.isActive b = true := (FB.active _ wb).2 (by simp [hb])
    have ascA := FA.asc _ wa
    have ascB := FB.asc _ wb
    unfold findLoop
    by_cases hxy : x = y
    · -- already aligned
      subst hxy
      refine ⟨⟨a, b⟩, by simp [hAa, hBa]; rfl, wa, wb, ?_, rfl, Nat.le_refl _, Nat.le_refl _,
        fun _ => rfl, fun _ => rfl, rfl, rfl⟩
      intro x' r' La' y' s' Lb' h1 h2
      simp only at h1 h2
      rw [ha] at h1; rw [hb] at h2
      cases h1; cases h2; rfl
    · have hne : (x != y) = true := by simp [hxy]
      simp only [hAa, hBa, hne, Bool.and_self, ↓reduceIte]
      by_cases hlt : x < y
      · simp only [hlt, ↓reduceIte]
        obtain ⟨a', h1, h2, h3, h4, h5, h6⟩ := FA.skipTo a y wa (by simp [ha])
        have hchg : dA a' ≠ dA a := by
          rw [h3, ha]; exact dropBelow_ne_of_head_lt hlt
        have hremlt := h5 hchg
        have hkeysB : ∀ p ∈ dB b, y ≤ p.1 := Faithful.head_le ascB hb
        have hden : interWith f (dA a') (dB b) = interWith f (dA a) (dB b) := by
          rw [h3]; exact interWith_dropBelow_left f ascA hkeysB
        cases hda' : dA a' with
        | nil =>
          have hina : A.isActive a' = false := (FA.inactive h2).2 hda'
          refine ⟨⟨a', b⟩, by simp [h1, hina, bind, Except.bind, pure, Except.pure], h2, wb, ?_, hden,
            Nat.le_of_lt hremlt, Nat.le_refl _, fun he => by simp only at he; omega, fun _ => rfl, h6, rfl⟩
          intro x' r' La' y' s' Lb' h1' _
          simp only at h1'
          rw [hda'] at h1'; cases h1'
        | cons p La' =>
          obtain ⟨x', r'⟩ := p
          have hact' : A.isActive a' = true := (FA.active _ h2).2 (by simp [hda'])
          have hid' := FA.id _ _ _ _ h2 hda'
          obtain ⟨m', hm1, hm2⟩ := ih a' b x' y r' rb La' Lb h2 wb hda' hb (by omega)
          refine ⟨m', by simp [h1, hact', hid', hm1, bind, Except.bind, pure, Except.pure], hm2.wa, hm2.wb,
            hm2.aligned, by rw [hm2.den_eq]; exact hden, by have := hm2.rem_a; simp only at this ⊢; omega,
            hm2.rem_b, ?_, hm2.same_b, by rw [hm2.full_a]; exact h6, hm2.full_b⟩
          intro he
          have := hm2.rem_a
          simp only at this he
          omega
      · have hgt : y < x := by omega
        simp only [hlt, ↓reduceIte]
        obtain ⟨b', h1, h2, h3, h4, h5, h6⟩ := FB.skipTo b x wb (by simp [hb])
        have hchg : dB b' ≠ dB b := by
          rw [h3, hb]; exact dropBelow_ne_of_head_lt hgt
        have hremlt := h5 hchg
        have hkeysA : ∀ p ∈ dA a, x ≤ p.1 := Faithful.head_le ascA ha
        have hden : interWith f (dA a) (dB b') = interWith f (dA a) (dB b) := by
          rw [h3]; exact interWith_dropBelow_right f ascA ascB hkeysA
        cases hdb' : dB b' with
        | nil =>
          have hinb : B.isActive b' = false := (FB.inactive h2).2 hdb'
          refine ⟨⟨a, b'⟩, by simp [h1, hinb, bind, Except.bind, pure, Except.pure], wa, h2, ?_, hden,
            Nat.le_refl _, Nat.le_of_lt hremlt, fun _ => rfl, fun he => by simp only at he; omega, rfl, h6⟩
          intro x' r' La' y' s' Lb' _ h2'
          simp only at h2'
          rw [hdb'] at h2'; cases h2'
        | cons p Lb' =>
          obtain ⟨y', s'⟩ := p
          have hact' : B.isActive b' = true := (FB.active _ h2).2 (by simp [hdb'])
          have hid' := FB.id _ _ _ _ h2 hdb'
          obtain ⟨m', hm1, hm2⟩ := ih a b' x y' ra s' La Lb' wa h2 ha hdb' (by omega)
          refine ⟨m', by simp [h1, hact', hid', hm1, bind, Except.bind, pure, Except.pure], hm2.wa, hm2.wb,
            hm2.aligned, by rw [hm2.den_eq]; exact hden, hm2.rem_a,
            by have := hm2.rem_b; simp only at this ⊢; omega,
            hm2.same_a, ?_, hm2.full_a, by rw [hm2.full_b]; exact h6⟩
          intro he
          have := hm2.rem_b
          simp only at this he
          omega


theorem Synced.refl_of_aligned (f : Rat → Rat → Rat) {m : Bin α β} (wa : WA m.a) (wb : WB m.b)
    (hal : Aligned dA dB m) : Synced A B dA fA dB fB WA WB f m m :=
  ⟨wa, wb, hal, rfl, Nat.le_refl _, Nat.le_refl _, fun _ => rfl, fun _ => rfl, rfl, rfl⟩

theorem aligned_of_nil_left {m : Bin α β} (h : dA m.a = []) : Aligned dA dB m := by
  intro x r La y s Lb h1 _; rw [h] at h1; cases h1

theorem aligned_of_nil_right {m : Bin α β} (h : dB m.b = []) : Aligned dA dB m := by
  intro x r La y s Lb _ h2; rw [h] at h2; cases h2

/-- `_find_next` from two active, differently positioned sub-matchers -/
theorem findNext_spec (f : Rat → Rat → Rat) (FA : Faithful A dA fA WA) (FB : Faithful B dB fB WB)
    (m : Bin α β) (x y : Nat) (ra rb : Rat) (La Lb : Den) (wa : WA m.a) (wb : WB m.b)
    (ha : dA m.a = (x, ra) :: La) (hb : dB m.b = (y, rb) :: Lb) (hxy : x ≠ y) :
    ∃ m', findNext A B m = .ok m' ∧ Synced A B dA fA dB fB WA WB f m m' := by
  obtain ⟨m', h1, h2⟩ := findLoop_spec f FA FB (A.rem m.a + B.rem m.b + 1) m.a m.b x y ra rb La Lb
    wa wb ha hb (by omega)
  refine ⟨m', ?_, h2⟩
  simp [findNext, FA.id _ _ _ _ wa ha, FB.id _ _ _ _ wb hb, hxy, h1, bind, Except.bind]

/-- `_find_first` (also the constructor): from any two well-formed sub-matchers -/
theorem findFirst_spec (f : Rat → Rat → Rat) (FA : Faithful A dA fA WA) (FB : Faithful B dB fB WB)
    (m : Bin α β) (wa : WA m.a) (wb : WB m.b) :
    ∃ m', findFirst A B m = .ok m' ∧ Synced A B dA fA dB fB WA WB f m m' := by
  unfold findFirst
  cases ha : dA m.a with
  | nil =>
    have := (FA.inactive wa).2 ha
    exact ⟨m, by simp [this]; rfl, Synced.refl_of_aligned f wa wb (aligned_of_nil_left ha)⟩
  | cons p La =>
    obtain ⟨x, ra⟩ := p
    have hAa : A.isActive m.a = true := (FA.active _ wa).2 (by simp [ha])
    cases hb : dB m.b with
    | nil =>
      have := (FB.inactive wb).2 hb
      exact ⟨m, by simp [this]; rfl, Synced.refl_of_aligned f wa wb (aligned_of_nil_right hb)⟩
    | cons q Lb =>
      obtain ⟨y, rb⟩ := q
      have hBa : B.isActive m.b = true := (FB.active _ wb).2 (by simp [hb])
      by_cases hxy : x = y
      · subst hxy
        refine ⟨m, by simp [hAa, hBa, FA.id _ _ _ _ wa ha, FB.id _ _ _ _ wb hb, bind, Except.bind]; rfl,
          Synced.refl_of_aligned f wa wb ?_⟩
        intro x' r' La' y' s' Lb' h1 h2
        rw [ha] at h1; rw [hb] at h2; cases h1; cases h2; rfl
      · obtain ⟨m', h1, h2⟩ := findNext_spec f FA FB m x y ra rb La Lb wa wb ha hb hxy
        exact ⟨m', by simp [hAa, hBa, FA.id _ _ _ _ wa ha, FB.id _ _ _ _ wb hb, hxy, h1, bind, Except.bind], h2⟩

/-- `realign` = `_find_first` when both sides are active -/
theorem realign_eq_findFirst (m : Bin α β) (ha : A.isActive m.a = true) (hb : B.isActive m.b = true) :
    realign A B m = findFirst A B m := by
  simp [realign, findFirst, ha, hb]

/-- shape of the remaining list of a well-formed intersection -/
theorem den_cases (f : Rat → Rat → Rat) (FA : Faithful A dA fA WA) (FB : Faithful B dB fB WB)
    (m : Bin α β) (wa : WA m.a) (wb : WB m.b) (hal : Aligned dA dB m) :
    (interWith f (dA m.a) (dB m.b) = [] ∧ (dA m.a = [] ∨ dB m.b = [])) ∨
    ∃ x ra rb La Lb, dA m.a = (x, ra) :: La ∧ dB m.b = (x, rb) :: Lb ∧
      interWith f (dA m.a) (dB m.b) = (x, f ra rb) :: interWith f La Lb := by
  cases ha : dA m.a with
  | nil => left; exact ⟨interWith_nil_left f _, Or.inl rfl⟩
  | cons p La =>
    obtain ⟨x, ra⟩ := p
    cases hb : dB m.b with
    | nil => left; exact ⟨interWith_nil_right f _, Or.inr rfl⟩
    | cons q Lb =>
      obtain ⟨y, rb⟩ := q
      have := hal x ra La y rb Lb ha hb
      subst this
      right
      refine ⟨x, ra, rb, La, Lb, rfl, rfl, ?_⟩
      exact interWith_cons_cons f (ha ▸ FA.asc _ wa) (hb ▸ FB.asc _ wb)

/-- Any operation table whose cursor operations are those of `IntersectionMatcher` (with `f`
    combining the two scores) is a faithful cursor over `interWith f`. -/
theorem faithful_of (f : Rat → Rat → Rat) (FA : Faithful A dA fA WA) (FB : Faithful B dB fB WB)
    (O : Ops (Bin α β))
    (hact : O.isActive = Inter.isActive A B) (hid : O.id = fun m => A.id m.a)
    (hscore : ∀ m ra rb, A.score m.a = .ok ra → B.score m.b = .ok rb → O.score m = .ok (f ra rb))
    (hnext : O.next = Inter.next A B) (hskip : O.skipTo = Inter.skipTo A B)
    (hreset : O.reset = Inter.reset A B) (hrem : O.rem = fun m => A.rem m.a + B.rem m.b) :
    Faithful O (fun m => interWith f (dA m.a) (dB m.b)) (fun m => interWith f (fA m.a) (fB m.b))
      (fun m => WA m.a ∧ WB m.b ∧ Aligned dA dB m) where
  asc m h := asc_interWith f _ (FA.asc _ h.1)
  active m h := by
    rw [hact]; unfold Inter.isActive
    rcases den_cases f FA FB m h.1 h.2.1 h.2.2 with ⟨h1, h2⟩ | ⟨x, ra, rb, La, Lb, h1, h2, h3⟩
    · rw [h1]
      rcases h2 with h2 | h2
      · simp [(FA.inactive h.1).2 h2]
      · simp [(FB.inactive h.2.1).2 h2]
    · rw [h3]
      simp [(FA.active _ h.1).2 (by simp [h1]), (FB.active _ h.2.1).2 (by simp [h2])]
  id m x r L h hd := by
    rw [hid]
    rcases den_cases f FA FB m h.1 h.2.1 h.2.2 with ⟨h1, _⟩ | ⟨x', ra, rb, La, Lb, h1, h2, h3⟩
    · rw [h1] at hd; cases hd
    · rw [h3] at hd
      obtain ⟨h4, -⟩ := List.cons.inj hd
      cases h4
      exact FA.id _ _ _ _ h.1 h1
  score m x r L h hd := by
    rcases den_cases f FA FB m h.1 h.2.1 h.2.2 with ⟨h1, _⟩ | ⟨x', ra, rb, La, Lb, h1, h2, h3⟩
    · rw [h1] at hd; cases hd
    · rw [h3] at hd
      obtain ⟨h4, -⟩ := List.cons.inj hd
      cases h4
      exact hscore m ra rb (FA.score _ _ _ _ h.1 h1) (FB.score _ _ _ _ h.2.1 h2)
  next m x r L h hd := by
    rw [hnext, hrem]; unfold Inter.next Inter.isActive
    rcases den_cases f FA FB m h.1 h.2.1 h.2.2 with ⟨h1, _⟩ | ⟨x', ra, rb, La, Lb, h1, h2, h3⟩
    · rw [h1] at hd; cases hd
    · rw [h3] at hd
      obtain ⟨-, hL⟩ := List.cons.inj hd
      subst hL
      have hAa : A.isActive m.a = true := (FA.active _ h.1).2 (by simp [h1])
      have hBa : B.isActive m.b = true := (FB.active _ h.2.1).2 (by simp [h2])
      obtain ⟨a', ha1, ha2, ha3, ha4, ha5⟩ := FA.next _ _ _ _ h.1 h1
      have ascA := FA.asc _ h.1
      have ascB := FB.asc _ h.2.1
      rw [h1] at ascA; rw [h2] at ascB
      -- the rest of a lies strictly beyond x', so b's head is irrelevant
      have hrest : interWith f La ((x', rb) :: Lb) = interWith f La Lb := by
        have := interWith_dropBelow_right f (A := La) (B := (x', rb) :: Lb) (x := x' + 1) ascA.tail ascB
          (fun p hp => ascA.head_lt p hp)
        rw [tail_eq_dropBelow ascB] at this
        exact this.symm
      simp only [hAa, hBa, Bool.and_self, Bool.not_true, Bool.false_eq_true, ↓reduceIte, ha1, bind,
        Except.bind]
      cases hLa : La with
      | nil =>
        have hina : A.isActive a' = false := (FA.inactive ha2).2 (by rw [ha3, hLa])
        refine ⟨⟨a', m.b⟩, by simp [hina]; rfl, ⟨ha2, h.2.1, aligned_of_nil_left (by rw [ha3, hLa])⟩, ?_, ?_, ?_⟩
        · simp only [ha3, hLa, interWith_nil_left]
        · simp only; omega
        · simp only [ha5]
      | cons p La' =>
        obtain ⟨x2, r2⟩ := p
        have hact' : A.isActive a' = true := (FA.active _ ha2).2 (by rw [ha3, hLa]; simp)
        have hx2 : x' < x2 := by
          have := ascA.head_lt (x2, r2) (by rw [hLa]; exact List.mem_cons_self)
          exact this
        obtain ⟨m', hm1, hm2⟩ := findNext_spec f FA FB ⟨a', m.b⟩ x2 x' r2 rb La' Lb ha2 h.2.1
          (by rw [ha3, hLa]) h2 (by omega)
        refine ⟨m', by simp [hact', hBa, hm1], ⟨hm2.wa, hm2.wb, hm2.aligned⟩, ?_, ?_, ?_⟩
        · rw [hm2.den_eq]; simp only [ha3, h2]; rw [← hLa]; exact hrest
        · have := hm2.rem_a; have := hm2.rem_b; simp only at *; omega
        · simp only [hm2.full_a, hm2.full_b, ha5]
  skipTo m t h hne := by
    rw [hskip, hrem]; unfold Inter.skipTo Inter.isActive
    rcases den_cases f FA FB m h.1 h.2.1 h.2.2 with ⟨h1, _⟩ | ⟨x', ra, rb, La, Lb, h1, h2, h3⟩
    · exact absurd h1 hne
    · have hAa : A.isActive m.a = true := (FA.active _ h.1).2 (by simp [h1])
      have hBa : B.isActive m.b = true := (FB.active _ h.2.1).2 (by simp [h2])
      obtain ⟨a', ha1, ha2, ha3, ha4, ha5, ha6⟩ := FA.skipTo m.a t h.1 (by simp [h1])
      obtain ⟨b', hb1, hb2, hb3, hb4, hb5, hb6⟩ := FB.skipTo m.b t h.2.1 (by simp [h2])
      have ascA := FA.asc _ h.1
      have ascB := FB.asc _ h.2.1
      obtain ⟨m', hm1, hm2⟩ := findFirst_spec f FA FB ⟨a', b'⟩ ha2 hb2
      have hstep : (if (A.isActive a' && B.isActive b') = true then
            (do let x ← A.id a'; let y ← B.id b'
                if (x != y) = true then findNext A B ⟨a', b'⟩ else pure ⟨a', b'⟩)
          else pure ⟨a', b'⟩) = Except.ok m' := by
        rw [← hm1]; unfold findFirst
        by_cases hc : (A.isActive a' && B.isActive b') = true
        · simp only [hc, ↓reduceIte]
        · simp only [hc, Bool.false_eq_true, ↓reduceIte]
      refine ⟨m', ?_, ⟨hm2.wa, hm2.wb, hm2.aligned⟩, ?_, ?_, ?_, ?_⟩
      · simp only [hAa, hBa, Bool.and_self, Bool.not_true, Bool.false_eq_true, ↓reduceIte, ha1, hb1,
          bind, Except.bind]
        exact hstep
      · rw [hm2.den_eq]; simp only [ha3, hb3]; exact dropBelow_interWith f ascA ascB t
      · have := hm2.rem_a; have := hm2.rem_b; simp only at *; omega
      · intro hne2
        have r1 := hm2.rem_a; have r2 := hm2.rem_b
        simp only at r1 r2 hne2 ⊢
        by_cases e : A.rem m'.a + B.rem m'.b < A.rem m.a + B.rem m.b
        · exact e
        · exfalso
          have e1 : A.rem m'.a = A.rem a' := by omega
          have e2 : B.rem m'.b = B.rem b' := by omega
          have e3 : A.rem a' = A.rem m.a := by omega
          have e4 : B.rem b' = B.rem m.b := by omega
          have d1 : dA a' = dA m.a := Classical.byContradiction fun hh => by have := ha5 hh; omega
          have d2 : dB b' = dB m.b := Classical.byContradiction fun hh => by have := hb5 hh; omega
          apply hne2
          rw [hm2.same_a e1, hm2.same_b e2]
          simp only [d1, d2]
      · simp only [hm2.full_a, hm2.full_b, ha6, hb6]
  reset m h := by
    rw [hreset]; unfold Inter.reset
    obtain ⟨a', ha1, ha2, ha3, ha4⟩ := FA.reset _ h.1
    obtain ⟨b', hb1, hb2, hb3, hb4⟩ := FB.reset _ h.2.1
    obtain ⟨m', hm1, hm2⟩ := findFirst_spec f FA FB ⟨a', b'⟩ ha2 hb2
    refine ⟨m', by simp [ha1, hb1, hm1, bind, Except.bind], ⟨hm2.wa, hm2.wb, hm2.aligned⟩, ?_, ?_⟩
    · rw [hm2.den_eq]; simp only [ha3, hb3]
    · simp only [hm2.full_a, hm2.full_b, ha4, hb4]

/-- `IntersectionMatcher` -/
theorem faithful (FA : Faithful A dA fA WA) (FB : Faithful B dB fB WB) :
    Faithful (Inter.ops A B) (fun m => interWith (· + ·) (dA m.a) (dB m.b))
      (fun m => interWith (· + ·) (fA m.a) (fB m.b)) (fun m => WA m.a ∧ WB m.b ∧ Aligned dA dB m) :=
  faithful_of (· + ·) FA FB _ rfl rfl
    (fun m ra rb h1 h2 => by show Inter.score A B m = _; simp [Inter.score, h1, h2, bind, Except.bind]; rfl)
    rfl rfl rfl rfl

/-- the constructor establishes the invariant (C11 `constructors_wf`) -/
theorem init_spec (f : Rat → Rat → Rat) (FA : Faithful A dA fA WA) (FB : Faithful B dB fB WB)
    (a : α) (b : β) (wa : WA a) (wb : WB b) :
    ∃ m', Inter.init A B a b = .ok m' ∧ (WA m'.a ∧ WB m'.b ∧ Aligned dA dB m') ∧
      interWith f (dA m'.a) (dB m'.b) = interWith f (dA a) (dB b) ∧
      interWith f (fA m'.a) (fB m'.b) = interWith f (fA a) (fB b) := by
  obtain ⟨m', h1, h2⟩ := findFirst_spec f FA FB ⟨a, b⟩ wa wb
  exact ⟨m', h1, ⟨h2.wa, h2.wb, h2.aligned⟩, h2.den_eq, by rw [h2.full_a, h2.full_b]⟩

end Inter

/-- `RequireMatcher` -/
theorem Require.faithful {α β : Type} {A : Ops α} {B : Ops β} {dA fA : α → Den} {dB fB : β → Den}
    {WA : α → Prop} {WB : β → Prop} (FA : Faithful A dA fA WA) (FB : Faithful B dB fB WB) :
    Faithful (Require.ops A B) (fun m => interWith (fun s _ => s) (dA m.a) (dB m.b))
      (fun m => interWith (fun s _ => s) (fA m.a) (fB m.b))
      (fun m => WA m.a ∧ WB m.b ∧ Inter.Aligned dA dB m) :=
  Inter.faithful_of (fun s _ => s) FA FB _ rfl rfl (fun m ra rb h1 _ => h1) rfl rfl rfl rfl

end WM.Matcher
