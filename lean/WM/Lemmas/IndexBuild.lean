import WM.Lemmas.IndexHistory
/-! A writer that only adds documents of the schema, and what the dictionary holds. -/
namespace WM.Index
open WM.Dict

theorem specOps_adds (w : Writer) (docs : List DocRec) (h : ∀ d ∈ docs, d.fits w.schema = true) :
    w.specOps (docs.map .add) = docs.map .add ∧ RunOK w ss (docs.map .add) := by
  induction docs generalizing w ss with
  | nil => exact ⟨rfl, trivial⟩
  | cons d r ih =>
    have hd := h d (by simp)
    have hs : (w.step (.add d)).1.schema = w.schema := by
      simp [Writer.step, Writer.addDocument, hd]
    have := ih (w := (w.step (.add d)).1) (ss := ss.step (w.specOp (.add d)))
      (by rw [hs]; exact fun x hx => h x (by simp [hx]))
    simp only [List.map_cons, Writer.specOps, RunOK, OpOK, true_and]
    refine ⟨?_, this.2⟩
    rw [this.1]
    simp [Writer.specOp, hd]

theorem run_adds_spec (sc : Schema) (docs : List DocRec) :
    ({ schema := sc, docs := [] } : State).session (docs.map .add) .commit = { schema := sc, docs := docs } := by
  simp only [State.session, State.open_, Sess.commit]
  have : ∀ (s : Sess), (s.run (docs.map SOp.add)) = { s with fresh := s.fresh ++ docs } := by
    induction docs with
    | nil => intro s; simp [Sess.run]
    | cons d r ih =>
      intro s
      simp only [List.map_cons, Sess.run, List.foldl_cons, Sess.step, Sess.add]
      have := ih { s with fresh := s.fresh ++ [d] }
      simp only [Sess.run] at this
      rw [this]; simp
  rw [this]; simp

theorem spec_docs_fit (t : Toc) (sp : State) (h : Rel t sp) : ∀ d ∈ sp.docs, d.fits sp.schema = true := by
  intro d hd
  have hd' := h.docs.mem_iff.mpr hd
  simp only [Toc.content, contentOf, List.mem_flatMap, List.mem_map] at hd'
  obtain ⟨s, _, x, _, rfl⟩ := hd'
  rw [h.schema]
  exact restrict_fits _ _

end WM.Index
