import WM.Lemmas.CodecWriter
/-! Aggregates of appended posting lists; the statistics accumulated block by block are the
statistics of the whole list. -/
namespace WM.Codec

variable {ι μ : Type}

theorem foldl_add (x : Rat) (l : List Rat) : l.foldl (· + ·) x = x + l.foldl (· + ·) 0 := by
  induction l generalizing x with
  | nil => simp only [List.foldl_nil]; grind
  | cons a l ih => simp only [List.foldl_cons]; rw [ih, ih (0 + a)]; grind

theorem sumW_append (f32 : Rat → Rat) (a b : List (Posting ι)) :
    sumW f32 (a ++ b) = sumW f32 a + sumW f32 b := by
  unfold sumW
  rw [List.map_append, List.foldl_append, foldl_add]

/-- `min` on optional lengths with `none` as the neutral element. -/
def optMin : Option Nat → Option Nat → Option Nat
  | some m, some l => some (min m l)
  | some m, none => some m
  | none, x => x

theorem minStep_optMin (a x l : Option Nat) : minStep (optMin a x) l = optMin a (minStep x l) := by
  cases l with
  | none => rfl
  | some n =>
    cases n with
    | zero => rfl
    | succ n =>
      cases a with
      | none => rfl
      | some a =>
        cases x with
        | none =>
          show (if n + 1 < a then some (n + 1) else some a) = some (min a (n + 1))
          split <;> (congr 1; omega)
        | some x =>
          show (if n + 1 < min a x then some (n + 1) else some (min a x))
            = optMin (some a) (if n + 1 < x then some (n + 1) else some x)
          by_cases h1 : n + 1 < x
          · rw [if_pos h1]
            show _ = some (min a (n + 1))
            split <;> (congr 1; omega)
          · rw [if_neg h1]
            show _ = some (min a x)
            split
            · congr 1; omega
            · rfl

theorem foldl_minStep_optMin (a x : Option Nat) (b : List (Posting ι)) :
    b.foldl (fun acc p => minStep acc p.length) (optMin a x)
      = optMin a (b.foldl (fun acc p => minStep acc p.length) x) := by
  induction b generalizing x with
  | nil => rfl
  | cons p b ih => simp only [List.foldl_cons, minStep_optMin, ih]

theorem minLen_append (a b : List (Posting ι)) : minLen (a ++ b) = optMin (minLen a) (minLen b) := by
  unfold minLen
  rw [List.foldl_append]
  have := foldl_minStep_optMin (List.foldl (fun acc p => minStep acc p.length) none a) none b
  have h0 : ∀ o : Option Nat, optMin o none = o := by intro o; cases o <;> rfl
  rw [h0] at this
  exact this

theorem maxStep_max (a x : Nat) (l : Option Nat) : maxStep (max a x) l = max a (maxStep x l) := by
  cases l with
  | none => simp [maxStep]
  | some n =>
    cases n with
    | zero => simp [maxStep]
    | succ n => simp only [maxStep]; split <;> split <;> omega

theorem foldl_maxStep_max (a x : Nat) (b : List (Posting ι)) :
    b.foldl (fun acc p => maxStep acc p.length) (max a x)
      = max a (b.foldl (fun acc p => maxStep acc p.length) x) := by
  induction b generalizing x with
  | nil => rfl
  | cons p b ih => simp only [List.foldl_cons, maxStep_max, ih]

theorem maxLen_append (a b : List (Posting ι)) : maxLen (a ++ b) = max (maxLen a) (maxLen b) := by
  unfold maxLen
  rw [List.foldl_append]
  have := foldl_maxStep_max (List.foldl (fun acc p => maxStep acc p.length) 0 a) 0 b
  simpa using this

theorem wStep_assoc (a x w : Rat) : wStep (wStep a x) w = wStep a (wStep x w) := by
  unfold wStep; grind

theorem foldl_wStep (f32 : Rat → Rat) (a x : Rat) (b : List (Posting ι)) :
    b.foldl (fun acc p => wStep acc (f32 p.weight)) (wStep a x)
      = wStep a (b.foldl (fun acc p => wStep acc (f32 p.weight)) x) := by
  induction b generalizing x with
  | nil => rfl
  | cons p b ih => simp only [List.foldl_cons, wStep_assoc, ih]

theorem foldl_wStep_ge (f32 : Rat → Rat) (x : Rat) (b : List (Posting ι)) :
    x ≤ b.foldl (fun acc p => wStep acc (f32 p.weight)) x := by
  induction b generalizing x with
  | nil => exact Rat.le_refl
  | cons p b ih =>
    simp only [List.foldl_cons]
    have h1 := ih (wStep x (f32 p.weight))
    have h2 : x ≤ wStep x (f32 p.weight) := by unfold wStep; grind
    grind

theorem maxW_nonneg (f32 : Rat → Rat) (a : List (Posting ι)) : 0 ≤ maxW f32 a := foldl_wStep_ge f32 0 a

theorem wStep_zero (x : Rat) (h : 0 ≤ x) : wStep x 0 = x := by unfold wStep; grind

theorem maxW_append (f32 : Rat → Rat) (a b : List (Posting ι)) :
    maxW f32 (a ++ b) = wStep (maxW f32 a) (maxW f32 b) := by
  unfold maxW
  rw [List.foldl_append]
  have h := foldl_wStep f32 (List.foldl (fun acc p => wStep acc (f32 p.weight)) 0 a) 0 b
  have h0 : wStep (List.foldl (fun acc p => wStep acc (f32 p.weight)) 0 a) 0
      = List.foldl (fun acc p => wStep acc (f32 p.weight)) 0 a := by
    have := maxW_nonneg f32 a
    unfold maxW at this
    exact wStep_zero _ this
  rw [h0] at h
  exact h

/-- Adding the statistics of a further chunk to the statistics of a list gives the statistics of
    the longer list (when `add_block` does not fail on `min(int, None)`). -/
theorem tiAddCh_tiOf (c : Cfg ι μ) (a b : List (Posting ι)) (hb : b ≠ [])
    (hok : minLen a = none ∨ minLen b ≠ none) :
    tiAddCh c (tiOf c a) b = tiOf c (a ++ b) := by
  unfold tiAddCh tiOf
  simp only [sumW_append, List.length_append, minLen_append, maxLen_append, maxW_append,
    List.head?_append, List.getLast?_append]
  have hlast : (b.getLast?.or a.getLast?) = b.getLast? := by
    cases h : b.getLast? with
    | none => exact absurd (List.getLast?_eq_none_iff.mp h) hb
    | some x => rfl
  rw [hlast]
  congr 1
  · rcases hok with h | h
    · rw [h]; cases minLen b <;> rfl
    · cases hm : minLen b with
      | none => exact absurd hm h
      | some x => cases minLen a <;> rfl
  · cases a <;> rfl

theorem tiOf_nil (c : Cfg ι μ) : tiOf c ([] : List (Posting ι)) = {} := rfl

/-- Statistics accumulated chunk by chunk = statistics of the concatenation. -/
theorem foldl_tiAddCh (c : Cfg ι μ) (chs : List (List (Posting ι))) (a : List (Posting ι))
    (hne : ∀ ch ∈ chs, ch ≠ [])
    (hu : (∀ p ∈ a ++ chs.flatten, truthy p.length = true) ∨
          (∀ p ∈ a ++ chs.flatten, truthy p.length = false)) :
    chs.foldl (tiAddCh c) (tiOf c a) = tiOf c (a ++ chs.flatten) := by
  induction chs generalizing a with
  | nil => simp
  | cons ch chs ih =>
    simp only [List.foldl_cons, List.flatten_cons]
    have hch : ch ≠ [] := hne ch (by simp)
    have hok : minLen a = none ∨ minLen ch ≠ none := by
      rcases hu with h | h
      · exact Or.inr (minLen_ne_none ch hch (fun p hp => h p (by simp [hp])))
      · exact Or.inl (minLen_eq_none a (fun p hp => h p (by simp [hp])))
    rw [tiAddCh_tiOf c a ch hch hok, ih (a ++ ch) (fun x hx => hne x (by simp [hx]))
      (by simpa [List.append_assoc] using hu)]
    simp [List.append_assoc]
