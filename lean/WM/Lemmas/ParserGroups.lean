import WM.Model.Parser
import WM.Spec.Parser
import WM.Lemmas.ParserPrec
/-! `do_groups` and `remove_whitespace` on the token list of a well-formed expression. -/
namespace WM.Parser

/-- the expression after `do_groups`: brackets have become groups, whitespace is still there -/
def Expr.nest (gk : GK) : Expr → List Node
  | .atom n => [n]
  | .paren items => [.group gk (joinWith [.ws] (items.map (fun e => e.nest gk))) 1]
  | .not e => [opNot, .ws] ++ e.nest gk
  | .op g es => joinWith [.ws, opNode g, .ws] (es.map (fun e => e.nest gk))
termination_by e => e.size
decreasing_by
  all_goals simp_wf
  all_goals simp only [Expr.size]
  all_goals first
    | omega
    | (rename_i h; have := Expr.size_mem h; omega)

def nestSeq (gk : GK) (items : List Expr) : List Node := joinWith [.ws] (items.map (Expr.nest gk))

theorem nest_atom (gk : GK) (n : Node) : (Expr.atom n).nest gk = [n] := by rw [Expr.nest]
theorem nest_paren (gk : GK) (items : List Expr) :
    (Expr.paren items).nest gk = [.group gk (nestSeq gk items) 1] := by rw [Expr.nest]; rfl
theorem nest_not (gk : GK) (e : Expr) : (Expr.not e).nest gk = [opNot, .ws] ++ e.nest gk := by rw [Expr.nest]
theorem nest_op (gk : GK) (g : GK) (es : List Expr) :
    (Expr.op g es).nest gk = joinWith [.ws, opNode g, .ws] (es.map (fun e => e.nest gk)) := by rw [Expr.nest]

theorem toks_atom (n : Node) : (Expr.atom n).toks = [n] := by rw [Expr.toks]
theorem toks_paren (items : List Expr) :
    (Expr.paren items).toks = [.opn] ++ toksSeq items ++ [.cls] := by rw [Expr.toks]; rfl
theorem toks_not (e : Expr) : (Expr.not e).toks = [opNot, .ws] ++ e.toks := by rw [Expr.toks]
theorem toks_op (g : GK) (es : List Expr) :
    (Expr.op g es).toks = joinWith [.ws, opNode g, .ws] (es.map (fun e => e.toks)) := by rw [Expr.toks]

/-! ### the bracket loop -/

def Node.isBracket : Node → Bool
  | .opn | .cls => true
  | _ => false

theorem doGroupsLoop_other (gk : GK) (n : Node) (hn : n.isBracket = false) (rest cur : List Node)
    (below : List (List Node)) :
    doGroupsLoop gk (n :: rest) cur below = doGroupsLoop gk rest (cur ++ [n]) below := by
  cases n <;> simp [Node.isBracket] at hn <;> rw [doGroupsLoop] <;> (intro h; cases h)

theorem doGroupsLoop_others (gk : GK) (xs : List Node) (h : ∀ x ∈ xs, x.isBracket = false)
    (rest cur : List Node) (below : List (List Node)) :
    doGroupsLoop gk (xs ++ rest) cur below = doGroupsLoop gk rest (cur ++ xs) below := by
  induction xs generalizing cur with
  | nil => simp
  | cons x xs ih =>
    rw [List.cons_append, doGroupsLoop_other gk x (h x (by simp)), ih (fun y hy => h y (by simp [hy]))]
    simp

theorem doGroupsLoop_opn (gk : GK) (rest cur : List Node) (below : List (List Node)) :
    doGroupsLoop gk (.opn :: rest) cur below = doGroupsLoop gk rest [] (cur :: below) := by
  rw [doGroupsLoop]

theorem doGroupsLoop_cls (gk : GK) (rest cur b : List Node) (bs : List (List Node)) :
    doGroupsLoop gk (.cls :: rest) cur (b :: bs) = doGroupsLoop gk rest (b ++ [.group gk cur 1]) bs := by
  rw [doGroupsLoop]

/-- generic: if the loop turns `f₁ c` into `f₂ c` for every segment and the separator has no
    brackets, it turns the separated concatenations into each other -/
theorem doGroupsLoop_join {α} (gk : GK) (sep : List Node) (hsep : ∀ x ∈ sep, x.isBracket = false)
    (f1 f2 : α → List Node) (cs : List α)
    (h : ∀ c ∈ cs, ∀ rest cur below, doGroupsLoop gk (f1 c ++ rest) cur below = doGroupsLoop gk rest (cur ++ f2 c) below)
    (rest cur : List Node) (below : List (List Node)) :
    doGroupsLoop gk (joinWith sep (cs.map f1) ++ rest) cur below
      = doGroupsLoop gk rest (cur ++ joinWith sep (cs.map f2)) below := by
  induction cs generalizing cur with
  | nil => simp [joinWith]
  | cons c cs ih =>
    cases cs with
    | nil =>
      simp only [List.map_cons, List.map_nil, joinWith_single]
      exact h c (by simp) rest cur below
    | cons c2 cs =>
      simp only [List.map_cons, joinWith_cons2, List.append_assoc]
      rw [h c (by simp), doGroupsLoop_others gk sep hsep]
      have := ih (fun x hx => h x (by simp [hx])) (cur ++ f2 c ++ sep)
      simp only [List.map_cons] at this
      rw [this]
      simp

theorem isLeaf_isBracket {n : Node} (h : n.isLeaf = true) : n.isBracket = false := by
  cases n <;> simp_all [Node.isLeaf, Node.isBracket]

/-- the loop over the tokens of one well-formed expression appends its nested form -/
theorem doGroupsLoop_expr (gk : GK) (e : Expr) :
    e.wf = true → ∀ rest cur below,
      doGroupsLoop gk (e.toks ++ rest) cur below = doGroupsLoop gk rest (cur ++ e.nest gk) below := by
  induction e using Expr.ind with
  | atom n =>
    intro h rest cur below
    rw [wf_atom] at h
    rw [toks_atom, nest_atom]
    exact doGroupsLoop_others gk [n] (by intro x hx; simp at hx; subst hx; exact isLeaf_isBracket h) _ _ _
  | paren items ih =>
    intro h rest cur below
    rw [wf_paren] at h
    rw [toks_paren, nest_paren]
    simp only [List.append_assoc, List.cons_append, List.nil_append]
    rw [doGroupsLoop_opn]
    have := doGroupsLoop_join gk [.ws] (by intro x hx; simp at hx; subst hx; rfl) Expr.toks (Expr.nest gk) items
      (fun c hc => ih c hc (h.2 c hc)) (.cls :: rest) [] (cur :: below)
    simp only [toksSeq, List.nil_append] at this ⊢
    rw [this, doGroupsLoop_cls]
    simp [nestSeq]
  | not e0 ih =>
    intro h rest cur below
    rw [wf_not] at h
    rw [toks_not, nest_not]
    simp only [List.append_assoc]
    rw [doGroupsLoop_others gk [opNot, .ws] (by intro x hx; simp at hx; rcases hx with h | h <;> subst h <;> rfl),
        ih h.2]
    simp
  | op g es ih =>
    intro h rest cur below
    rw [wf_op] at h
    rw [toks_op, nest_op]
    exact doGroupsLoop_join gk [.ws, opNode g, .ws]
      (by intro x hx; simp at hx; rcases hx with h | h | h <;> subst h <;> rfl) Expr.toks (Expr.nest gk) es
      (fun c hc => ih c hc (h.2.2 c hc).2) rest cur below

theorem doGroupsLoop_nil (gk : GK) (cur : List Node) (below : List (List Node)) :
    doGroupsLoop gk [] cur below = (cur, below) := by rw [doGroupsLoop]

theorem doGroupsLoop_seq (gk : GK) (items : List Expr) (h : ∀ e ∈ items, e.wf = true) :
    doGroupsLoop gk (toksSeq items) [] [] = (nestSeq gk items, []) := by
  have := doGroupsLoop_join gk [.ws] (by intro x hx; simp at hx; subst hx; rfl) Expr.toks (Expr.nest gk) items
    (fun c hc => doGroupsLoop_expr gk c (h c hc)) [] [] []
  simp only [List.append_nil, List.nil_append] at this
  rw [toksSeq, this, doGroupsLoop_nil]
  rfl

/-! ### remove_whitespace -/

theorem rmWs_group (k : GK) (ns : List Node) (b : Rat) :
    rmWs (.group k ns b) = .group k ((ns.filter (fun n => !n.isWs)).map rmWs) b := by rw [rmWs]

theorem rmWs_nongroup {n : Node} (h : n.isGroup = false) : rmWs n = n := by
  cases n
  case group => simp [Node.isGroup] at h
  all_goals
    rw [rmWs]
    intro k ns b h; cases h

/-- `remove_whitespace` applied to a node list -/
def rmWsL (ns : List Node) : List Node := (ns.filter (fun n => !n.isWs)).map rmWs

theorem rmWsL_append (a b : List Node) : rmWsL (a ++ b) = rmWsL a ++ rmWsL b := by
  simp [rmWsL]

theorem rmWsL_joinWith (sep : List Node) (ls : List (List Node)) :
    rmWsL (joinWith sep ls) = joinWith (rmWsL sep) (ls.map rmWsL) := by
  induction ls with
  | nil => simp [joinWith, rmWsL]
  | cons a t ih =>
    cases t with
    | nil => simp [joinWith_single]
    | cons b t =>
      rw [joinWith_cons2, rmWsL_append, rmWsL_append, ih]
      simp only [List.map_cons]
      rw [joinWith_cons2]

theorem joinWith_nil (ls : List (List Node)) : joinWith [] ls = ls.flatten := by
  induction ls with
  | nil => simp [joinWith]
  | cons a t ih =>
    cases t with
    | nil => simp [joinWith_single]
    | cons b t => rw [joinWith_cons2, ih]; simp

theorem isLeaf_props {n : Node} (h : n.isLeaf = true) : n.isWs = false ∧ n.isGroup = false := by
  cases n <;> simp_all [Node.isLeaf, Node.isWs, Node.isGroup]

theorem rmWsL_nest (gk : GK) (e : Expr) : e.wf = true → rmWsL (e.nest gk) = e.flat gk := by
  induction e using Expr.ind with
  | atom n =>
    intro h
    rw [wf_atom] at h
    rw [nest_atom, flat_atom]
    have := isLeaf_props h
    simp [rmWsL, this.1, rmWs_nongroup this.2]
  | paren items ih =>
    intro h
    rw [wf_paren] at h
    rw [nest_paren, flat_paren]
    have h1 : rmWsL [Node.group gk (nestSeq gk items) 1] = [.group gk (rmWsL (nestSeq gk items)) 1] := by
      simp [rmWsL, Node.isWs, rmWs_group]
    rw [h1]
    congr 2
    rw [nestSeq, rmWsL_joinWith]
    have hws : rmWsL [Node.ws] = [] := by simp [rmWsL, Node.isWs]
    rw [hws, joinWith_nil, flatSeq, List.map_map]
    congr 1
    exact List.map_congr_left (fun c hc => ih c hc (h.2 c hc))
  | not e0 ih =>
    intro h
    rw [wf_not] at h
    rw [nest_not, flat_not, rmWsL_append, ih h.2]
    have : rmWs opNot = opNot := rmWs_nongroup rfl
    simp only [rmWsL, List.cons_append, List.nil_append]
    simp [Node.isWs, opNot]
    exact this
  | op g es ih =>
    intro h
    rw [wf_op] at h
    rw [nest_op, flat_op, rmWsL_joinWith, List.map_map]
    have hsep : rmWsL [.ws, opNode g, .ws] = [opNode g] := by
      have : rmWs (opNode g) = opNode g := rmWs_nongroup rfl
      simp [rmWsL, Node.isWs, opNode]
      exact this
    rw [hsep]
    congr 1
    exact List.map_congr_left (fun c hc => ih c hc (h.2.2 c hc).2)

theorem rmWsL_nestSeq (gk : GK) (items : List Expr) (h : ∀ e ∈ items, e.wf = true) :
    rmWsL (nestSeq gk items) = flatSeq gk items := by
  rw [nestSeq, rmWsL_joinWith, List.map_map]
  have hws : rmWsL [Node.ws] = [] := by simp [rmWsL, Node.isWs]
  rw [hws, joinWith_nil, flatSeq]
  congr 1
  exact List.map_congr_left (fun c hc => rmWsL_nest gk c (h c hc))

/-! ### do_groups on a whole query -/

/-- the end of `do_groups`: a top level consisting of one group is replaced by that group -/
def unwrapTop (gk : GK) (cur : List Node) : Node :=
  match cur with
  | [.group k ns' _] => .group k ns' 1
  | _ => .group gk cur 1

theorem doGroups_eq (gk : GK) (ns cur : List Node) (h : doGroupsLoop gk ns [] [] = (cur, [])) :
    doGroups gk ns = unwrapTop gk cur := by
  unfold doGroups unwrapTop
  rw [h]
  simp only [List.reverse_cons, List.reverse_nil, List.nil_append, List.flatten_cons, List.flatten_nil,
    List.append_nil]
  split
  · rfl
  · next hne =>
    split
    · next k ns' b => exact absurd rfl (hne k ns' b)
    · rfl

/-- only a parenthesised group nests to a single group node -/
theorem nest_single_group (gk : GK) (e : Expr) (hwf : e.wf = true) (k : GK) (ns : List Node) (b : Rat)
    (h : e.nest gk = [.group k ns b]) : ∃ inner, e = .paren inner := by
  cases e with
  | atom n =>
    rw [nest_atom] at h
    rw [wf_atom] at hwf
    injection h with h _
    subst h
    simp [Node.isLeaf] at hwf
  | paren inner => exact ⟨inner, rfl⟩
  | not e0 =>
    rw [nest_not] at h
    simp at h
  | op g es =>
    rw [wf_op] at hwf
    rw [nest_op] at h
    cases es with
    | nil => simp at hwf
    | cons e1 es =>
      cases es with
      | nil => simp at hwf
      | cons e2 es =>
        simp only [List.map_cons, joinWith_cons2] at h
        have := congrArg List.length h
        simp at this
        omega

theorem unwrapTop_nongroup (gk : GK) (cur : List Node) (h : ∀ k ns b, cur ≠ [.group k ns b]) :
    unwrapTop gk cur = .group gk cur 1 := by
  unfold unwrapTop
  split
  · next k ns' b => exact absurd rfl (h k ns' b)
  · rfl

theorem doGroups_seq (gk : GK) (items : List Expr) (h : ∀ e ∈ items, e.wf = true) :
    doGroups gk (toksSeq items) = .group gk (nestSeq gk (stripParen items)) 1 := by
  rw [doGroups_eq gk _ _ (doGroupsLoop_seq gk items h)]
  cases items with
  | nil => rfl
  | cons e1 items =>
    cases items with
    | nil =>
      by_cases hp : ∃ inner, e1 = .paren inner
      · obtain ⟨inner, rfl⟩ := hp
        simp only [nestSeq, List.map_cons, List.map_nil, joinWith_single, nest_paren, stripParen]
        rfl
      · have hs : stripParen [e1] = [e1] := by
          cases e1 with
          | paren inner => exact absurd ⟨inner, rfl⟩ hp
          | _ => rfl
        rw [hs]
        apply unwrapTop_nongroup
        intro k ns b heq
        simp only [nestSeq, List.map_cons, List.map_nil, joinWith_single] at heq
        exact hp (nest_single_group gk e1 (h e1 (by simp)) k ns b heq)
    | cons e2 items =>
      have hs : stripParen (e1 :: e2 :: items) = e1 :: e2 :: items := by
        unfold stripParen; split
        · next heq => simp at heq
        · rfl
      rw [hs]
      apply unwrapTop_nongroup
      intro k ns b heq
      simp only [nestSeq, List.map_cons, joinWith_cons2] at heq
      -- x ++ [ws] ++ t = [group ..] is impossible
      cases hx : Expr.nest gk e1 with
      | nil => rw [hx] at heq; simp at heq
      | cons a t =>
        rw [hx] at heq
        have := congrArg List.length heq
        simp at this

end WM.Parser
