import WM.Lemmas.IdSetsBits
/-! `invert_update`, `__len__`, and the byte-skipping loops of `BaseBitSet.after/before`. -/
set_option linter.unusedSimpArgs false
namespace WM.IdSets
open WM.Spec.IdSet (Sorted)

theorem contains_append (a b : Bits) (j : Nat) :
    contains (a ++ b) j = if j < 8 * a.length then contains a j else contains b (j - 8 * a.length) := by
  induction a generalizing j with
  | nil => simp [contains_nil]
  | cons x xs ih =>
    rw [List.cons_append, contains_cons, contains_cons, ih]
    simp only [List.length_cons]
    by_cases h8 : j < 8
    · have : j < 8 * (xs.length + 1) := by omega
      simp [h8, this]
    · simp only [h8, ↓reduceIte]
      by_cases h : j - 8 < 8 * xs.length
      · have : j < 8 * (xs.length + 1) := by omega
        simp [h, this]
      · have : ¬ j < 8 * (xs.length + 1) := by omega
        have h2 : j - 8 - 8 * xs.length = j - 8 * (xs.length + 1) := by omega
        simp [h, this, h2]

theorem contains_singleton (x j : Nat) : contains [x] j = (decide (j < 8) && x.testBit j) := by
  rw [contains_cons]
  by_cases h : j < 8
  · simp [h]
  · simp [h, contains_nil]

theorem testBit_inv (b k : Nat) (hk : k < 8) : ((255 ^^^ b) &&& 255).testBit k = !b.testBit k := by
  rw [testBit_and_255 _ _ hk, Nat.testBit_xor, testBit_255 k hk]; simp

theorem contains_map_inv (bits : Bits) (j : Nat) :
    contains (bits.map fun b => (255 ^^^ b) &&& 255) j
      = (decide (j / 8 < bits.length) && !contains bits j) := by
  rw [contains_eq, contains_eq, List.getElem?_map]
  by_cases h : j / 8 < bits.length
  · rw [List.getElem?_eq_getElem h]
    simp [h, testBit_inv _ _ (Nat.mod_lt j (by omega : 8 > 0))]
  · rw [List.getElem?_eq_none (by omega)]; simp [h]

/-- `BitSet.invert_update(size)` never fails and yields the complement inside `[0, size)`. -/
theorem invertUpdate_spec (bits : Bits) (n : Nat) :
    ∃ r, invertUpdate bits n = .ok r ∧
      ∀ j, contains r j = (decide (j < n) && !contains bits j) := by
  unfold invertUpdate
  simp only
  generalize hB : (resize bits n).map (fun b => (255 ^^^ b) &&& 255) = B
  have hlenB : B.length = n / 8 + 1 := by
    rw [← hB, List.length_map, length_resize]; unfold bytesForBits; omega
  have hcB : ∀ j, contains B j = (decide (j / 8 < n / 8 + 1) && !contains bits j) := by
    intro j
    rw [← hB, contains_map_inv, contains_resize, length_resize]
    have : bytesForBits n = n / 8 + 1 := by unfold bytesForBits; omega
    rw [this]
    cases decide (j / 8 < n / 8 + 1) <;> simp
  rcases List.eq_nil_or_concat B with hnil | ⟨init, lastb, hconcat⟩
  · rw [hnil] at hlenB; simp at hlenB
  · rw [List.concat_eq_append] at hconcat
    have hinit : init.length = n / 8 := by
      rw [hconcat] at hlenB; simp at hlenB; omega
    refine ⟨init ++ [lastb &&& (2 ^ (n % 8) - 1)], ?_, ?_⟩
    · unfold zeroExtraBits
      rw [hconcat]
      have h1 : ¬ n < init.length * 8 := by omega
      have h2 : n - init.length * 8 = n % 8 := by omega
      simp [h1, h2]
    · intro j
      rw [contains_append, hinit]
      have hB' := hcB j
      rw [hconcat, contains_append, hinit] at hB'
      by_cases hj : j < 8 * (n / 8)
      · simp only [hj, ↓reduceIte] at hB' ⊢
        rw [hB']
        have h1 : j / 8 < n / 8 + 1 := by omega
        have h2 : j < n := by omega
        simp [h1, h2]
      · simp only [hj, ↓reduceIte] at hB' ⊢
        rw [contains_singleton] at hB' ⊢
        rw [Nat.testBit_and, Nat.testBit_two_pow_sub_one]
        by_cases h8 : j - 8 * (n / 8) < 8
        · have h1 : j / 8 < n / 8 + 1 := by omega
          simp only [h8, decide_true, Bool.true_and, h1] at hB' ⊢
          rw [hB']
          have : (j - 8 * (n / 8) < n % 8) ↔ j < n := by omega
          by_cases hjn : j < n
          · simp [hjn, this.mpr hjn]
          · have : ¬ (j - 8 * (n / 8) < n % 8) := fun h => hjn (this.mp h)
            simp [hjn, this]
        · have : ¬ j < n := by omega
          simp [h8, this]

/-! ### `__len__` -/

theorem length_filterMap_ite {α β} (p : α → Bool) (f : α → β) (l : List α) :
    (l.filterMap fun k => if p k then some (f k) else none).length = (l.filter p).length := by
  induction l with
  | nil => rfl
  | cons a t ih =>
    rw [List.filterMap_cons, List.filter_cons]
    cases hp : p a <;> simp [ih]

theorem popTable_spec : ∀ b, b < 256 →
    popTable[b]? = some ((List.range 8).filter (fun k => hasBit b k)).length := by
  decide +kernel

theorem length_iterByte (base b : Nat) (hb : b < 256) :
    popTable[b]? = some (iterByte base b).length := by
  unfold iterByte
  rw [length_filterMap_ite (fun k => hasBit b k) (fun k => base + k)]
  exact popTable_spec b hb

theorem len_iterFrom : ∀ (base : Nat) (bs : Bits), (∀ b ∈ bs, b < 256) →
    len bs = .ok (iterFrom base bs).length
  | _, [], _ => rfl
  | base, b :: bs, h => by
    unfold len
    rw [length_iterByte base b (h b (by simp))]
    simp only
    rw [len_iterFrom (base + 8) bs (fun x hx => h x (List.mem_cons_of_mem _ hx))]
    simp [iterFrom, Except.map]

/-- `len(bitset)` is the number of members (bytes come from an `array('B')`). -/
theorem len_spec (bits : Bits) (h : ∀ b ∈ bits, b < 256) : len bits = .ok (iter bits).length :=
  len_iterFrom 0 bits h

theorem exists_testBit_of_byte {b : Nat} (hb : b < 256) (h0 : b ≠ 0) : ∃ k, k < 8 ∧ b.testBit k = true := by
  apply Classical.byContradiction
  intro hne
  apply h0
  apply Nat.eq_of_testBit_eq
  intro k
  rw [Nat.zero_testBit]
  by_cases hk : k < 8
  · cases h : b.testBit k
    · rfl
    · exact absurd ⟨k, hk, h⟩ hne
  · apply Nat.testBit_lt_two_pow
    calc b < 2 ^ 8 := hb
      _ ≤ 2 ^ k := Nat.pow_le_pow_right (by omega) (by omega)

/-- `bool(bitset)` is "has a member". -/
theorem nonzero_spec (bits : Bits) (h : ∀ b ∈ bits, b < 256) :
    nonzero bits = true ↔ iter bits ≠ [] := by
  unfold nonzero
  rw [List.any_eq_true]
  constructor
  · rintro ⟨b, hb, hne⟩
    have hne' : b ≠ 0 := by simpa using hne
    rcases List.getElem_of_mem hb with ⟨m, hm, hget⟩
    rcases exists_testBit_of_byte (h b hb) hne' with ⟨k, hk, hbit⟩
    have : contains bits (8 * m + k) = true := by
      rw [contains_eq]
      have h1 : (8 * m + k) / 8 = m := by omega
      have h2 : (8 * m + k) % 8 = k := by omega
      rw [h1, h2, List.getElem?_eq_getElem hm, hget]; exact hbit
    intro hnil
    have := mem_iter.mpr this
    rw [hnil] at this; simp at this
  · intro hne
    rcases List.exists_mem_of_ne_nil _ hne with ⟨x, hx⟩
    have hc := mem_iter.mp hx
    rw [contains_eq] at hc
    cases hb : bits[x / 8]? with
    | none => rw [hb] at hc; simp at hc
    | some b =>
      rw [hb] at hc
      simp only at hc
      refine ⟨b, List.mem_of_getElem? hb, ?_⟩
      have : b ≠ 0 := by
        intro h0; rw [h0, Nat.zero_testBit] at hc; cases hc
      simpa using this

/-! ### `after` / `before` -/

/-- `r` is the least member at or above `i` (or there is none). -/
def LeastFrom (bits : Bits) (i : Nat) : Option Nat → Prop
  | some j => i ≤ j ∧ contains bits j = true ∧ ∀ k, i ≤ k → k < j → contains bits k = false
  | none => ∀ k, i ≤ k → contains bits k = false

theorem contains_of_byte_zero {bits : Bits} {m : Nat} (h : bits[m]? = some 0) (k : Nat) (hk : k / 8 = m) :
    contains bits k = false := by
  rw [contains_eq, hk, h]; simp

theorem afterLoop_spec (bits : Bits) : ∀ (m i : Nat), bits.length * 8 - i = m →
    ∃ r, afterLoop bits (bits.length * 8) i (i / 8) = .ok r ∧ LeastFrom bits i r := by
  intro m
  induction m using Nat.strongRecOn with
  | _ m ih =>
    intro i hm
    unfold afterLoop
    by_cases hlt : i < bits.length * 8
    · simp only [hlt, ↓reduceIte]
      split
      · next hnone =>
        rw [List.getElem?_eq_none_iff] at hnone; omega
      · next byte hb =>
        by_cases h0 : byte = 0
        · simp only [h0, ↓reduceIte]
          subst h0
          have hdiv : ((i / 8 + 1) * 8) / 8 = i / 8 + 1 := by omega
          rcases ih (bits.length * 8 - (i / 8 + 1) * 8) (by omega) ((i / 8 + 1) * 8) rfl with ⟨r, hr, hs⟩
          rw [hdiv] at hr
          refine ⟨r, hr, ?_⟩
          cases r with
          | none =>
            intro k hk
            by_cases hk2 : (i / 8 + 1) * 8 ≤ k
            · exact hs k hk2
            · exact contains_of_byte_zero hb k (by omega)
          | some j =>
            rcases hs with ⟨h1, h2, h3⟩
            refine ⟨by omega, h2, ?_⟩
            intro k hk hkj
            by_cases hk2 : (i / 8 + 1) * 8 ≤ k
            · exact h3 k hk2 hkj
            · exact contains_of_byte_zero hb k (by omega)
        · simp only [h0, ↓reduceIte]
          have hci : contains bits i = hasBit byte (i % 8) := by
            rw [contains_eq, hb, hasBit_eq_testBit]
          by_cases hbit : hasBit byte (i % 8) = true
          · simp only [hbit, ↓reduceIte]
            refine ⟨some i, rfl, Nat.le_refl _, by rw [hci, hbit], ?_⟩
            intro k h1 h2; omega
          · simp only [hbit, ↓reduceIte]
            have hdiv : (if (i + 1) % 8 = 0 then i / 8 + 1 else i / 8) = (i + 1) / 8 := by
              split <;> omega
            rw [hdiv]
            rcases ih (bits.length * 8 - (i + 1)) (by omega) (i + 1) rfl with ⟨r, hr, hs⟩
            refine ⟨r, hr, ?_⟩
            have hfalse : contains bits i = false := by
              rw [hci]; simpa using hbit
            cases r with
            | none =>
              intro k hk
              by_cases hki : k = i
              · subst hki; exact hfalse
              · exact hs k (by omega)
            | some j =>
              rcases hs with ⟨h1, h2, h3⟩
              refine ⟨by omega, h2, ?_⟩
              intro k hk hkj
              by_cases hki : k = i
              · subst hki; exact hfalse
              · exact h3 k (by omega) hkj
    · simp only [hlt, ↓reduceIte]
      refine ⟨none, rfl, ?_⟩
      intro k hk
      cases hc : contains bits k
      · rfl
      · have := contains_lt hc; omega

/-- `r` is the greatest member at or below `i` (or there is none). -/
def GreatestUpto (bits : Bits) (i : Nat) : Option Nat → Prop
  | some j => j ≤ i ∧ contains bits j = true ∧ ∀ k, j < k → k ≤ i → contains bits k = false
  | none => ∀ k, k ≤ i → contains bits k = false

theorem beforeLoop_spec (bits : Bits) : ∀ (i : Nat), i < bits.length * 8 →
    ∃ r, beforeLoop bits i (i / 8) = .ok r ∧ GreatestUpto bits i r := by
  intro i
  induction i using Nat.strongRecOn with
  | _ i ih =>
    intro hlt
    unfold beforeLoop
    split
    · next hnone =>
      rw [List.getElem?_eq_none_iff] at hnone; omega
    · next byte hb =>
      by_cases h0 : byte = 0
      · simp only [h0, ↓reduceIte]
        subst h0
        by_cases hbk : i / 8 = 0
        · simp only [hbk, ↓reduceIte]
          refine ⟨none, rfl, ?_⟩
          intro k hk
          exact contains_of_byte_zero hb k (by omega)
        · simp only [hbk, ↓reduceIte]
          have hdiv : ((i / 8 - 1) * 8 + 7) / 8 = i / 8 - 1 := by omega
          rcases ih ((i / 8 - 1) * 8 + 7) (by omega) (by omega) with ⟨r, hr, hs⟩
          rw [hdiv] at hr
          refine ⟨r, hr, ?_⟩
          cases r with
          | none =>
            intro k hk
            by_cases hk2 : k ≤ (i / 8 - 1) * 8 + 7
            · exact hs k hk2
            · exact contains_of_byte_zero hb k (by omega)
          | some j =>
            rcases hs with ⟨h1, h2, h3⟩
            refine ⟨by omega, h2, ?_⟩
            intro k hjk hk
            by_cases hk2 : k ≤ (i / 8 - 1) * 8 + 7
            · exact h3 k hjk hk2
            · exact contains_of_byte_zero hb k (by omega)
      · simp only [h0, ↓reduceIte]
        have hci : contains bits i = hasBit byte (i % 8) := by
          rw [contains_eq, hb, hasBit_eq_testBit]
        by_cases hbit : hasBit byte (i % 8) = true
        · simp only [hbit, ↓reduceIte]
          refine ⟨some i, rfl, Nat.le_refl _, by rw [hci, hbit], ?_⟩
          intro k h1 h2; omega
        · simp only [hbit, ↓reduceIte]
          have hfalse : contains bits i = false := by
            rw [hci]; simpa using hbit
          by_cases hi0 : i = 0
          · simp only [hi0, ↓reduceIte]
            refine ⟨none, rfl, ?_⟩
            intro k hk
            have : k = i := by omega
            subst this; exact hfalse
          · simp only [hi0, ↓reduceIte]
            have key : ∃ r, beforeLoop bits (i - 1) ((i - 1) / 8) = .ok r ∧ GreatestUpto bits i r := by
              rcases ih (i - 1) (by omega) (by omega) with ⟨r, hr, hs⟩
              refine ⟨r, hr, ?_⟩
              cases r with
              | none =>
                intro k hk
                by_cases hki : k = i
                · subst hki; exact hfalse
                · exact hs k (by omega)
              | some j =>
                rcases hs with ⟨h1, h2, h3⟩
                refine ⟨by omega, h2, ?_⟩
                intro k hjk hk
                by_cases hki : k = i
                · subst hki; exact hfalse
                · exact h3 k hjk (by omega)
            by_cases hm : i % 8 = 0
            · simp only [hm, ↓reduceIte]
              have hbk : ¬ i / 8 = 0 := by omega
              simp only [hbk, ↓reduceIte]
              have : i / 8 - 1 = (i - 1) / 8 := by omega
              rw [this]; exact key
            · simp only [hm, ↓reduceIte]
              have : i / 8 = (i - 1) / 8 := by omega
              rw [this]; exact key

theorem after_spec (bits : Bits) (i : Int) :
    after bits i = .ok (WM.Spec.IdSet.after (iter bits) i) := by
  unfold after WM.Spec.IdSet.after
  simp only
  by_cases hge : i ≥ ((bits.length * 8 : Nat) : Int)
  · rw [if_pos hge]
    congr 1
    symm
    rw [List.find?_eq_none]
    intro x hx
    have := contains_lt (mem_iter.mp hx)
    simp only [gt_iff_lt, decide_eq_true_eq]; omega
  · rw [if_neg hge]
    generalize hi' : (if i < 0 then 0 else (i + 1).toNat) = i'
    rcases afterLoop_spec bits _ i' rfl with ⟨r, hr, hs⟩
    rw [hr]
    congr 1
    symm
    cases r with
    | none =>
      rw [List.find?_eq_none]
      intro x hx
      have hc := mem_iter.mp hx
      have : ¬ i' ≤ x := by
        intro hle; rw [hs x hle] at hc; cases hc
      simp only [gt_iff_lt, decide_eq_true_eq]
      split at hi' <;> omega
    | some j =>
      rcases hs with ⟨h1, h2, h3⟩
      rw [WM.Spec.IdSet.find?_sorted (sorted_iter bits)]
      refine ⟨mem_iter.mpr h2, ?_, ?_⟩
      · simp only [gt_iff_lt, decide_eq_true_eq]
        split at hi' <;> omega
      · intro x hx hxj
        have hc := mem_iter.mp hx
        have : ¬ i' ≤ x := by
          intro hle; rw [h3 x hle hxj] at hc; cases hc
        simp only [gt_iff_lt, decide_eq_false_iff_not]
        split at hi' <;> omega

theorem first_spec (bits : Bits) : first bits = .ok (WM.Spec.IdSet.first (iter bits)) := by
  unfold first
  rw [after_spec]
  congr 1
  unfold WM.Spec.IdSet.after WM.Spec.IdSet.first
  cases iter bits with
  | nil => rfl
  | cons a t =>
    rw [List.find?_cons]
    have : decide ((a : Int) > -1) = true := by simp only [gt_iff_lt, decide_eq_true_eq]; omega
    rw [this]; rfl

theorem before_spec (bits : Bits) (i : Int) :
    before bits i = .ok (WM.Spec.IdSet.before (iter bits) i) := by
  unfold before WM.Spec.IdSet.before
  simp only
  by_cases hle : i ≤ 0
  · rw [if_pos hle]
    congr 1
    symm
    rw [WM.Spec.IdSet.getLast?_filter_sorted_none]
    intro x _
    simp only [decide_eq_false_iff_not]; omega
  · rw [if_neg hle]
    -- the common shape of the two remaining branches: search down from `t`
    have key : ∀ t : Nat, t < bits.length * 8 → (t : Int) < i →
        (∀ x, contains bits x = true → t < x → ¬ ((x : Int) < i)) →
        beforeLoop bits t (t / 8)
          = .ok ((iter bits).filter (fun (x : Nat) => decide ((x : Int) < i))).getLast? := by
      intro t ht hti hbig
      rcases beforeLoop_spec bits t ht with ⟨r, hr, hs⟩
      rw [hr]
      congr 1
      symm
      cases r with
      | none =>
        rw [WM.Spec.IdSet.getLast?_filter_sorted_none]
        intro x hx
        have hc := mem_iter.mp hx
        have : ¬ x ≤ t := by
          intro h; rw [hs x h] at hc; cases hc
        simp only [decide_eq_false_iff_not]
        exact hbig x hc (by omega)
      | some j =>
        rcases hs with ⟨h1, h2, h3⟩
        rw [WM.Spec.IdSet.getLast?_filter_sorted (sorted_iter bits)]
        refine ⟨mem_iter.mpr h2, ?_, ?_⟩
        · simp only [decide_eq_true_eq]; omega
        · intro x hx hjx
          have hc := mem_iter.mp hx
          have : ¬ x ≤ t := by
            intro h; rw [h3 x hjx h] at hc; cases hc
          simp only [decide_eq_false_iff_not]
          exact hbig x hc (by omega)
    by_cases hge : i ≥ ((bits.length * 8 : Nat) : Int)
    · rw [if_pos hge]
      by_cases hz : bits.length * 8 = 0
      · rw [if_pos hz]
        have : bits = [] := by
          cases bits with
          | nil => rfl
          | cons a t => simp at hz
        subst this
        rfl
      · rw [if_neg hz]
        apply key
        · omega
        · omega
        · intro x hc hx
          have := contains_lt hc; omega
    · rw [if_neg hge]
      apply key
      · omega
      · omega
      · intro x hc hx; omega

theorem last_spec (bits : Bits) : last bits = .ok (WM.Spec.IdSet.last (iter bits)) := by
  unfold last
  rw [before_spec]
  congr 1
  unfold WM.Spec.IdSet.before WM.Spec.IdSet.last
  congr 1
  rw [List.filter_eq_self]
  intro x hx
  have := contains_lt (mem_iter.mp hx)
  simp only [decide_eq_true_eq]; omega

end WM.IdSets
