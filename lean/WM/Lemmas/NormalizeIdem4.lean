import WM.Lemmas.NormalizeIdem3
/-! Idempotence of `normalize`, part 4: normal forms are fixed points and `normalize` produces
    normal forms. -/
namespace WM.Normalize
open WM.Sat WM.Clean

/-- `isinstance(q, self.__class__)` for a compound of class `k`. -/
def sameClass (k : CK) : Q → Bool
  | .comp k' _ _ => k' == k
  | _ => false

mutual
/-- Normal forms: exactly the shape `normalize` produces (and leaves alone). -/
def Normal : Q → Bool
  | .wild f t b c => wildNormalize f t b c == .wild f t b c
  | .range f lo hi lx hx b c => (Rng.mk f lo hi lx hx b c).proper
  | .phrase _ ws _ _ => decide (2 ≤ ws.length)
  | .comp k l _ =>
    NormalList l && decide (2 ≤ l.length)
      && l.all (fun x => !x.isNull && !x.isEveryAll && !sameClass k x)
      && stable [] l && dstable (efFinal [] l) [] l
  | .seq _ l _ _ _ => NormalList l
  | .not q _ => Normal q && !q.isNull
  | .bin _ a b => Normal a && Normal b && !a.isNull && !b.isNull
  | _ => true
def NormalList : List Q → Bool
  | [] => true
  | q :: qs => Normal q && NormalList qs
end

theorem NormalList_iff (l : List Q) : NormalList l = true ↔ ∀ q ∈ l, Normal q = true := by
  induction l with
  | nil => simp [NormalList]
  | cons q qs ih => simp [NormalList, ih]

theorem flatten_id (k : CK) : ∀ (l : List Q), (∀ x ∈ l, sameClass k x = false) → flatten k l = l
  | [], _ => rfl
  | s :: rest, h => by
    have ih := flatten_id k rest (fun x hx => h x (List.mem_cons_of_mem _ hx))
    have hs := h s (List.mem_cons_self ..)
    cases s <;> simp only [flatten, ih]
    rename_i k' ss b
    simp only [sameClass, beq_eq_false_iff_ne, ne_eq] at hs
    simp [hs]

/-! ### Normal forms are fixed points -/

mutual
theorem normalize_of_Normal : ∀ (q : Q), Normal q = true → normalize q = q
  | .null, _ => rfl
  | .every _ _, _ => rfl
  | .term _ _ _, _ => rfl
  | .pre _ _ _ _, _ => rfl
  | .wild f t b c, h => by simpa [Normal, normalize] using h
  | .multi _ _ _ _ _, _ => rfl
  | .range f lo hi lx hx b c, h => by
    simp only [Normal] at h
    simp only [normalize, Rng.normalize_of_proper h, Rng.toQ]
  | .phrase f ws s b, h => by
    simp only [Normal, decide_eq_true_eq] at h
    simp only [normalize, phraseNormalize]
    match ws, h with
    | x :: y :: rest, _ => rfl
  | .comp k l b, h => by
    simp only [Normal, Bool.and_eq_true, decide_eq_true_eq, List.all_eq_true, Bool.not_eq_true'] at h
    obtain ⟨⟨⟨⟨hN, hlen⟩, hall⟩, hst⟩, hdst⟩ := h
    have hnull : ∀ x ∈ l, x.isNull = false := fun x hx => (hall x hx).1.1
    have heall : ∀ x ∈ l, x.isEveryAll = false := fun x hx => (hall x hx).1.2
    have hsame : ∀ x ∈ l, sameClass k x = false := fun x hx => (hall x hx).2
    simp only [normalize, normalizeList_of_Normal l hN]
    unfold compNormalize
    simp only [flatten_id k l hsame]
    have h1 : l.all Q.isNull = false := by
      match l, hlen, hnull with
      | x :: y :: rest, _, hnull => simp [hnull x (List.mem_cons_self ..)]
    have h2 : l.any Q.isEveryAll = false := by
      rw [Bool.eq_false_iff]
      intro hc
      obtain ⟨x, hx, hxe⟩ := List.any_eq_true.mp hc
      rw [heall x hx] at hxe
      exact absurd hxe (by simp)
    simp only [h1, h2, Bool.false_eq_true, ↓reduceIte, Bool.false_and]
    unfold compTail
    simp only [mergeLoop_of_stable _ l [] hst, dedupe_of_dstable _ l [] hdst, filter_notNull_of_none hnull]
    unfold finish
    match l, hlen with
    | x :: y :: rest, _ => rfl
  | .seq c l s o b, h => by
    simp only [Normal] at h
    simp only [normalize, normalizeList_of_Normal l h]
  | .not q b, h => by
    simp only [Normal, Bool.and_eq_true, Bool.not_eq_true'] at h
    simp only [normalize, normalize_of_Normal q h.1, h.2, Bool.false_eq_true, ↓reduceIte]
  | .bin k a b, h => by
    simp only [Normal, Bool.and_eq_true, Bool.not_eq_true'] at h
    obtain ⟨⟨⟨ha, hb⟩, hna⟩, hnb⟩ := h
    simp only [normalize, normalize_of_Normal a ha, normalize_of_Normal b hb]
    unfold binNormalize
    cases k <;> simp [hna, hnb]
  | .const _ _, _ => rfl
  | .opq _ _, _ => rfl
theorem normalizeList_of_Normal : ∀ (l : List Q), NormalList l = true → normalizeList l = l
  | [], _ => rfl
  | q :: qs, h => by
    simp only [NormalList, Bool.and_eq_true] at h
    simp only [normalizeList, normalize_of_Normal q h.1, normalizeList_of_Normal qs h.2]
end

end WM.Normalize
