import WM.Lemmas.SearchMain
/-! Segment results → index results (offsets), ranking. -/
namespace WM.Compile
open WM.Search

/-- ids are determined by strict ascent and definedness -/
theorem ids_eq_of_isSome {a b : PL} (ha : Sorted a) (hb : Sorted b)
    (h : ∀ i, (lookup a i).isSome = (lookup b i).isSome) : a.map (·.id) = b.map (·.id) := by
  have h0 : constL 0 a = constL 0 b := by
    apply sorted_ext (constL_sorted 0 ha) (constL_sorted 0 hb)
    intro i
    rw [lookup_constL 0 ha, lookup_constL 0 hb]
    have := h i
    cases hx : lookup a i <;> cases hy : lookup b i <;> simp_all
  have := congrArg (List.map (·.id)) h0
  simpa [constL, List.map_map, Function.comp_def] using this

theorem segHits_ids (ls : LeafScore) (q : Query) (s : Segment) :
    (segHits ls q s).map (·.id) = s.live.filter (fun i => sat q (s.doc i)) := by
  simp [segHits, List.map_map, Function.comp_def]

theorem shift_ids (off : Nat) (l : PL) : (shift off l).map (·.id) = (l.map (·.id)).map (· + off) := by
  simp [shift, List.map_map, Function.comp_def]

/-- rank order is a permutation of the hits -/
theorem insertRanked_perm (h : Hit) (l : List Hit) : (insertRanked h l).Perm (h :: l) := by
  induction l with
  | nil => exact List.Perm.refl _
  | cons x xs ih =>
    unfold insertRanked
    split
    · exact List.Perm.refl _
    · exact (List.Perm.cons x ih).trans (List.Perm.swap h x xs)

theorem rankAll_perm (ls : LeafScore) (q : Query) (idx : Index) : (rankAll ls q idx).Perm (hits ls q idx) := by
  unfold rankAll
  induction hits ls q idx with
  | nil => exact List.Perm.refl _
  | cons h t ih =>
    simp only [List.foldr_cons]
    exact (insertRanked_perm h _).trans (List.Perm.cons h ih)

/-! ### from the pointwise refinement to lists -/

theorem compile_ids (ls : LeafScore) (so : ShapeOracle) (s : Segment) (hso : ValidOracle so)
    (hleaf : PosLeaf ls s) (q : Query) (hq : PosQ q) (ctx : Ctx) :
    (compile ls so s ctx q).map (·.id) = s.live.filter (fun i => sat q (s.doc i)) := by
  have h := compile_agree ls so s hso hleaf q ctx hq
  rw [← segHits_ids ls q s]
  apply ids_eq_of_isSome h.1 (segHits_sorted ls q s)
  intro i
  rw [lookup_segHits]
  exact (h.2 i).1

theorem compile_eq_segHits (ls : LeafScore) (so : ShapeOracle) (s : Segment) (hso : ValidOracle so)
    (hleaf : PosLeaf ls s) (q : Query) (hq : PosQ q) (ctx : Ctx)
    (hsc : ctx.scored = true) :
    compile ls so s ctx q = segHits ls q s := by
  have h := compile_agree ls so s hso hleaf q ctx hq
  apply sorted_ext h.1 (segHits_sorted ls q s)
  intro i
  rw [lookup_segHits]
  exact (h.2 i).2 hsc

/-- hypotheses of the theorems for every segment of an index -/
def IndexOK (ls : LeafScore) (idx : Index) : Prop := ∀ s ∈ idx, PosLeaf ls s

theorem runFrom_ids (ls ls' : LeafScore) (so : ShapeOracle) (hso : ValidOracle so) (q : Query) (hq : PosQ q)
    (ctx : Ctx) : ∀ (idx : Index) (off : Nat), IndexOK ls idx →
      (runFrom ls so ctx q off idx).map (·.id) = (hitsFrom ls' q off idx).map (·.id)
  | [], _, _ => rfl
  | s :: rest, off, hok => by
    have hs := hok s List.mem_cons_self
    simp only [runFrom, hitsFrom, List.map_append, shift_ids]
    rw [compile_ids ls so s hso hs q hq ctx, segHits_ids,
      runFrom_ids ls ls' so hso q hq ctx rest (off + s.size) (fun x hx => hok x (List.mem_cons_of_mem _ hx))]

theorem runFrom_eq (ls : LeafScore) (so : ShapeOracle) (hso : ValidOracle so) (q : Query) (hq : PosQ q)
    (ctx : Ctx) (hsc : ctx.scored = true) : ∀ (idx : Index) (off : Nat), IndexOK ls idx →
      runFrom ls so ctx q off idx = hitsFrom ls q off idx
  | [], _, _ => rfl
  | s :: rest, off, hok => by
    have hs := hok s List.mem_cons_self
    simp only [runFrom, hitsFrom]
    rw [compile_eq_segHits ls so s hso hs q hq ctx hsc,
      runFrom_eq ls so hso q hq ctx hsc rest (off + s.size) (fun x hx => hok x (List.mem_cons_of_mem _ hx))]

end WM.Compile
