import WM.Spec.Columns
/-! Fixed-width big-endian numbers and arrays: `unbe ∘ be = id` below `256^w`, array round trip,
slicing a concatenation of rows. -/
namespace WM.Columns

theorem be_length (w n : Nat) : (be w n).length = w := by
  induction w with
  | zero => rfl
  | succ w ih => simp [be, ih]

def unbeAux (acc : Nat) (bs : Bytes) : Nat := bs.foldl (fun acc b => acc * 256 + b) acc

theorem unbe_eq (bs : Bytes) : unbe bs = unbeAux 0 bs := rfl

theorem unbeAux_be (w n acc : Nat) : unbeAux acc (be w n) = acc * 256 ^ w + n % 256 ^ w := by
  induction w generalizing acc with
  | zero => simp [be, unbeAux, Nat.mod_one]
  | succ w ih =>
    simp only [be, unbeAux, List.foldl_cons]
    have := ih (acc * 256 + n / 256 ^ w % 256)
    simp only [unbeAux] at this
    rw [this, Nat.mod_pow_succ, Nat.pow_succ]
    rw [Nat.add_mul, Nat.mul_assoc, Nat.mul_comm 256 (256 ^ w), Nat.mul_comm (256 ^ w) (n / 256 ^ w % 256)]
    omega

theorem unbe_be (w n : Nat) (h : n < 256 ^ w) : unbe (be w n) = n := by
  rw [unbe_eq, unbeAux_be, Nat.mod_eq_of_lt h]; simp

theorem packArr_nil (sz : Nat) : packArr sz [] = [] := rfl

theorem packArr_cons (sz x : Nat) (xs : List Nat) : packArr sz (x :: xs) = be sz x ++ packArr sz xs := by
  simp [packArr]

theorem packArr_append (sz : Nat) (xs ys : List Nat) :
    packArr sz (xs ++ ys) = packArr sz xs ++ packArr sz ys := by
  simp [packArr]

theorem packArr_length (sz : Nat) (xs : List Nat) : (packArr sz xs).length = sz * xs.length := by
  induction xs with
  | nil => simp [packArr]
  | cons x xs ih =>
    rw [packArr_cons, List.length_append, be_length, ih, List.length_cons]
    rw [Nat.mul_add, Nat.mul_one, Nat.add_comm]

/-- Reading back an array that was written with `write_array`. -/
theorem unpackArr_packArr (sz : Nat) (xs : List Nat) (rest : Bytes) (h : ∀ x ∈ xs, x < 256 ^ sz) :
    unpackArr sz xs.length (packArr sz xs ++ rest) = xs := by
  induction xs with
  | nil => rfl
  | cons x xs ih =>
    simp only [List.length_cons, unpackArr, packArr_cons, List.append_assoc]
    have hl : (be sz x).length = sz := be_length sz x
    rw [List.take_left' hl, List.drop_left' hl, unbe_be sz x (h x (by simp)),
      ih (fun y hy => h y (by simp [hy]))]

/-- Exclusive prefix sums, closed form for one more element. -/
theorem deriveOffsets_append (base : Nat) (ls : List Nat) (l : Nat) :
    deriveOffsets base (ls ++ [l]) = deriveOffsets base ls ++ [base + ls.sum] := by
  induction ls generalizing base with
  | nil => simp [deriveOffsets]
  | cons a ls ih => simp [deriveOffsets, ih, Nat.add_assoc]

theorem deriveOffsets_length (base : Nat) (ls : List Nat) : (deriveOffsets base ls).length = ls.length := by
  induction ls generalizing base with
  | nil => rfl
  | cons a ls ih => simp [deriveOffsets, ih]

theorem deriveOffsets_getElem? (base : Nat) (ls : List Nat) (d : Nat) (h : d < ls.length) :
    (deriveOffsets base ls)[d]? = some (base + (ls.take d).sum) := by
  induction ls generalizing base d with
  | nil => simp at h
  | cons a ls ih =>
    cases d with
    | zero => simp [deriveOffsets]
    | succ d =>
      simp only [deriveOffsets, List.getElem?_cons_succ, List.take_succ_cons, List.sum_cons]
      rw [ih (base + a) d (by simpa using h)]
      simp [Nat.add_assoc]

theorem flatten_length_eq_sum (rows : List Bytes) : rows.flatten.length = (rows.map List.length).sum := by
  induction rows with
  | nil => rfl
  | cons r rows ih => simp [ih]

/-- Cutting row `d` out of the concatenation of all rows. -/
theorem slice_flatten (rows : List Bytes) (tail : Bytes) (d : Nat) (row : Bytes)
    (h : rows[d]? = some row) :
    slice (rows.flatten ++ tail) ((rows.take d).map List.length).sum row.length = row := by
  induction rows generalizing d with
  | nil => simp at h
  | cons r rows ih =>
    cases d with
    | zero =>
      simp only [List.getElem?_cons_zero, Option.some.injEq] at h
      subst h
      simp [slice]
    | succ d =>
      simp only [List.getElem?_cons_succ] at h
      simp only [List.take_succ_cons, List.map_cons, List.sum_cons, List.flatten_cons, List.append_assoc]
      have := ih d h
      unfold slice at this ⊢
      rw [← List.drop_drop, List.drop_left]
      exact this

end WM.Columns
