import WM.Model.Analysis
/-! Helper lemmas for C17: scanners, stop filter, n-grams, format_fragment. -/
namespace WM.Analysis

/-! ### the scanners -/

theorem runLen_le (p : CChar → Bool) (cs : List CChar) : runLen p cs ≤ cs.length := by
  induction cs with
  | nil => simp [runLen]
  | cons c rest ih => simp only [runLen]; split <;> simp <;> omega

theorem dotRuns_le (cs : List CChar) : dotRuns cs ≤ cs.length := by
  induction hn : cs.length using Nat.strongRecOn generalizing cs with
  | _ n ih =>
    cases cs with
    | nil => simp [dotRuns]
    | cons c rest =>
      rw [dotRuns]
      split
      · simp only
        split
        · have h1 := runLen_le (·.word) rest
          have h2 := ih (rest.drop (runLen (·.word) rest)).length
            (by subst hn; simp [List.length_drop]; omega) _ rfl
          simp only [List.length_drop] at h2
          have : (c :: rest).length = rest.length + 1 := rfl
          omega
        · omega
      · omega

theorem matchLen_le (p : Pat) (cs : List CChar) : matchLen p cs ≤ cs.length := by
  unfold matchLen
  cases p with
  | default =>
    simp only
    split
    · have h1 := runLen_le (·.word) cs
      have h2 := dotRuns_le (cs.drop (runLen (·.word) cs))
      simp [List.length_drop] at h2
      omega
    · omega
  | space => exact runLen_le _ cs
  | comma => exact runLen_le _ cs
  | nonspace => exact runLen_le _ cs

/-- every span lies inside the scanned part, is non-empty, and the spans follow each other -/
theorem scan_spans (p : Pat) (cs : List CChar) (off : Nat) :
    (∀ s ∈ scan p cs off, off ≤ s.1 ∧ s.1 < s.2 ∧ s.2 ≤ off + cs.length) ∧
    List.Pairwise (fun x y => x.2 ≤ y.1) (scan p cs off) := by
  induction hn : cs.length using Nat.strongRecOn generalizing cs off with
  | _ n ih =>
    cases cs with
    | nil => simp [scan]
    | cons c rest =>
      rw [scan]
      have hm := matchLen_le p (c :: rest)
      split
      · next hpos =>
        have := ih ((c :: rest).drop (matchLen p (c :: rest))).length
          (by subst hn; simp only [List.length_drop]; omega) _ (off + matchLen p (c :: rest)) rfl
        obtain ⟨h1, h2⟩ := this
        simp only [List.length_drop] at h1
        constructor
        · intro s hs
          simp only [List.mem_cons] at hs
          rcases hs with rfl | hs
          · simp only; omega
          · have := h1 s hs; omega
        · refine List.Pairwise.cons ?_ h2
          intro y hy
          have := h1 y hy
          simp only; omega
      · have := ih rest.length (by subst hn; simp) rest (off + 1) rfl
        obtain ⟨h1, h2⟩ := this
        refine ⟨?_, h2⟩
        intro s hs
        have := h1 s hs
        have hl : (c :: rest).length = rest.length + 1 := rfl
        omega

theorem mem_spansToTokens {text : List CChar} {spans : List (Nat × Nat)} {p : Nat} {t : Token}
    (h : t ∈ spansToTokens text spans p) :
    ∃ s ∈ spans, t.startchar = s.1 ∧ t.endchar = s.2 ∧ t.text = (slice text s.1 s.2).map (·.code) ∧ p ≤ t.pos := by
  induction spans generalizing p with
  | nil => simp [spansToTokens] at h
  | cons s rest ih =>
    obtain ⟨a, b⟩ := s
    simp only [spansToTokens, List.mem_cons] at h
    rcases h with rfl | h
    · exact ⟨(a, b), by simp, rfl, rfl, rfl, Nat.le_refl _⟩
    · obtain ⟨s, hs, h1, h2, h3, h4⟩ := ih h
      exact ⟨s, by simp [hs], h1, h2, h3, by omega⟩

theorem spansToTokens_pos (text : List CChar) (spans : List (Nat × Nat)) (p : Nat) :
    List.Pairwise (fun a b : Token => a.pos < b.pos) (spansToTokens text spans p) := by
  induction spans generalizing p with
  | nil => simp [spansToTokens]
  | cons s rest ih =>
    obtain ⟨a, b⟩ := s
    simp only [spansToTokens]
    refine List.Pairwise.cons ?_ (ih (p + 1))
    intro y hy
    obtain ⟨_, _, _, _, _, h⟩ := mem_spansToTokens hy
    simp only; omega

theorem spansToTokens_spans (text : List CChar) (spans : List (Nat × Nat)) (p : Nat)
    (h : List.Pairwise (fun x y => x.2 ≤ y.1) spans) :
    List.Pairwise (fun a b : Token => a.endchar ≤ b.startchar) (spansToTokens text spans p) := by
  induction spans generalizing p with
  | nil => simp [spansToTokens]
  | cons s rest ih =>
    obtain ⟨a, b⟩ := s
    simp only [spansToTokens]
    cases h with
    | cons h1 h2 =>
      refine List.Pairwise.cons ?_ (ih (p + 1) h2)
      intro y hy
      obtain ⟨s, hs, e1, _, _, _⟩ := mem_spansToTokens hy
      have := h1 s hs
      simp only at this ⊢
      omega

/-! ### slices -/

theorem slice_append_slice {α} (l : List α) {a b c : Nat} (hab : a ≤ b) (hbc : b ≤ c) :
    slice l a b ++ slice l b c = slice l a c := by
  unfold slice
  have h1 : l.drop b = (l.drop a).drop (b - a) := by rw [List.drop_drop]; congr 1; omega
  rw [h1]
  have h2 : c - a = (b - a) + (c - b) := by omega
  rw [h2, List.take_add]

theorem slice_empty {α} (l : List α) {a b : Nat} (h : b ≤ a) : slice l a b = [] := by
  unfold slice
  have : b - a = 0 := by omega
  simp [this]

/-! ### format_fragment -/

/-- the loop emits the text between the running index and the end of the last emitted match -/
theorem formatLoop_strip (text : Str) (ms : List (Nat × Nat)) (index : Nat)
    (h : ∀ m ∈ ms, m.1 ≤ m.2) :
    index ≤ (formatLoop text ms index).2 ∧
    stripMarkup (formatLoop text ms index).1 = slice text index (formatLoop text ms index).2 := by
  induction ms generalizing index with
  | nil => simp [formatLoop, stripMarkup, slice_empty]
  | cons m rest ih =>
    obtain ⟨s, e⟩ := m
    have hse : s ≤ e := h (s, e) (by simp)
    have hrest : ∀ m ∈ rest, m.1 ≤ m.2 := fun m hm => h m (by simp [hm])
    simp only [formatLoop]
    split
    · exact ih index hrest
    · next hs =>
      have := ih e hrest
      obtain ⟨hle, hst⟩ := this
      refine ⟨by omega, ?_⟩
      have hidx : index ≤ s := by omega
      by_cases hlt : index < s
      · simp only [hlt, if_true, List.singleton_append, stripMarkup, hst]
        rw [← List.append_assoc, slice_append_slice text hidx hse, slice_append_slice text (by omega) hle]
      · have : index = s := by omega
        subst this
        simp only [Nat.lt_irrefl, if_false, List.nil_append, stripMarkup, hst]
        rw [slice_append_slice text hse hle]

theorem stripMarkup_append (a b : List Piece) : stripMarkup (a ++ b) = stripMarkup a ++ stripMarkup b := by
  induction a with
  | nil => rfl
  | cons p t ih => cases p <;> simp [stripMarkup, ih]

/-- every marked piece is the source text of one of the matches -/
theorem formatLoop_marked (text : Str) (ms : List (Nat × Nat)) (index : Nat) (s : Str)
    (h : Piece.marked s ∈ (formatLoop text ms index).1) : ∃ m ∈ ms, s = slice text m.1 m.2 := by
  induction ms generalizing index with
  | nil => simp [formatLoop] at h
  | cons m rest ih =>
    obtain ⟨a, b⟩ := m
    simp only [formatLoop] at h
    split at h
    · obtain ⟨m, hm, hs⟩ := ih index h
      exact ⟨m, by simp [hm], hs⟩
    · simp only [List.mem_append, List.mem_cons] at h
      rcases h with h | h | h
      · split at h <;> simp at h
      · injection h with h; exact ⟨(a, b), by simp, h⟩
      · obtain ⟨m, hm, hs⟩ := ih b h
        exact ⟨m, by simp [hm], hs⟩

theorem mem_pyRange {a b x : Nat} : x ∈ pyRange a b ↔ a ≤ x ∧ x < b := by
  unfold pyRange
  simp only [List.mem_map, List.mem_range]
  constructor
  · rintro ⟨y, hy, rfl⟩; omega
  · rintro ⟨h1, h2⟩; exact ⟨x - a, by omega, by omega⟩

/-- `NgramFilter`: every gram text produced at query time is produced at index time -/
theorem ngramsOf_query_subset (min max : Nat) (at_ : At) (hmin : 1 ≤ min) (hmm : min ≤ max) (t : Token)
    (g : Token) (hg : g ∈ ngramsOf min max at_ .query t) :
    ∃ g' ∈ ngramsOf min max at_ .index t, g'.text = g.text := by
  unfold ngramsOf at hg ⊢
  by_cases hlen : t.text.length < min
  · simp [hlen] at hg
  · simp only [hlen, if_false] at hg ⊢
    have hl : min ≤ t.text.length := by omega
    cases at_ with
    | start =>
      simp only [List.mem_singleton] at hg
      subst hg
      simp only [List.mem_map, mem_pyRange]
      exact ⟨_, ⟨Nat.min max t.text.length, ⟨by simp [Nat.min_def]; split <;> omega, by omega⟩, rfl⟩, rfl⟩
    | «end» =>
      simp only [List.mem_singleton] at hg
      subst hg
      simp only [List.mem_map, mem_pyRange]
      refine ⟨_, ⟨t.text.length - Nat.min max t.text.length, ⟨?_, ?_⟩, rfl⟩, rfl⟩
      · simp [Nat.min_def]; split <;> omega
      · simp [Nat.min_def]; split <;> omega
    | all =>
      simp only [List.mem_map, mem_pyRange] at hg
      obtain ⟨start, ⟨_, hs⟩, rfl⟩ := hg
      simp only [List.mem_flatMap, List.mem_filterMap, mem_pyRange]
      have hsz : min ≤ Nat.min max t.text.length ∧ Nat.min max t.text.length ≤ max ∧
          Nat.min max t.text.length ≤ t.text.length := by
        simp [Nat.min_def]; split <;> omega
      refine ⟨{ t with text := slice t.text start (start + Nat.min max t.text.length),
                        startchar := t.startchar + start,
                        endchar := t.startchar + start + Nat.min max t.text.length },
              ⟨start, ⟨by omega, by omega⟩, Nat.min max t.text.length, ⟨hsz.1, by omega⟩, ?_⟩, rfl⟩
      have : ¬ (start + Nat.min max t.text.length > t.text.length) := by omega
      simp [this]

/-- `NgramTokenizer` (query branch repaired): query-time grams are index-time grams -/
theorem ngramTokenizer_query_subset (min max : Nat) (hmin : 1 ≤ min) (hmm : min ≤ max) (text : List CChar)
    (g : Token) (hg : g ∈ ngramTokenizer min max .query text) : g ∈ ngramTokenizer min max .index text := by
  unfold ngramTokenizer at hg ⊢
  simp only at hg ⊢
  split at hg
  · cases hg
  · next hsz =>
    simp only [List.mem_map, mem_pyRange] at hg
    obtain ⟨start, ⟨_, hs⟩, rfl⟩ := hg
    simp only [List.mem_flatMap, List.mem_filterMap, mem_pyRange]
    have hlen : (text.map (·.code)).length = text.length := by simp
    have hsz' : min ≤ Nat.min max (text.map (·.code)).length ∧ Nat.min max (text.map (·.code)).length ≤ max ∧
        Nat.min max (text.map (·.code)).length ≤ (text.map (·.code)).length := by
      refine ⟨by omega, ?_, ?_⟩ <;> (simp [Nat.min_def]; split <;> omega)
    refine ⟨start, ⟨by omega, by omega⟩, Nat.min max (text.map (·.code)).length, ⟨hsz'.1, by omega⟩, ?_⟩
    have : ¬ (start + Nat.min max (text.map (·.code)).length > (text.map (·.code)).length) := by omega
    simp only [this, if_false]

/-! ### the stop filter -/

theorem mem_stopFilter {c : StopCfg} {ts : List Token} {pos : Option Nat} {x : Token}
    (h : x ∈ stopFilter c ts pos) :
    ∃ y ∈ ts, y.startchar = x.startchar ∧ y.endchar = x.endchar ∧ y.text = x.text ∧
      (c.renumber = false → y.pos = x.pos) := by
  induction ts generalizing pos with
  | nil => simp [stopFilter] at h
  | cons t rest ih =>
    simp only [stopFilter] at h
    split at h
    · split at h
      · split at h
        · simp only [List.mem_cons] at h
          rcases h with rfl | h
          · exact ⟨t, by simp, rfl, rfl, rfl, by intro hr; simp_all⟩
          · obtain ⟨y, hy, r⟩ := ih h; exact ⟨y, by simp [hy], r⟩
        · simp only [List.mem_cons] at h
          rcases h with rfl | h
          · exact ⟨t, by simp, rfl, rfl, rfl, by intro hr; simp_all⟩
          · obtain ⟨y, hy, r⟩ := ih h; exact ⟨y, by simp [hy], r⟩
      · simp only [List.mem_cons] at h
        rcases h with rfl | h
        · exact ⟨t, by simp, rfl, rfl, rfl, fun _ => rfl⟩
        · obtain ⟨y, hy, r⟩ := ih h; exact ⟨y, by simp [hy], r⟩
    · split at h
      · simp only [List.mem_cons] at h
        rcases h with rfl | h
        · exact ⟨t, by simp, rfl, rfl, rfl, fun _ => rfl⟩
        · obtain ⟨y, hy, r⟩ := ih h; exact ⟨y, by simp [hy], r⟩
      · obtain ⟨y, hy, r⟩ := ih h; exact ⟨y, by simp [hy], r⟩

/-- a relation between the (unchanged) character spans of the tokens survives the stop filter -/
theorem stopFilter_pairwise_span (R : Nat → Nat → Nat → Nat → Prop) (c : StopCfg) (ts : List Token)
    (pos : Option Nat)
    (h : List.Pairwise (fun a b : Token => R a.startchar a.endchar b.startchar b.endchar) ts) :
    List.Pairwise (fun a b : Token => R a.startchar a.endchar b.startchar b.endchar) (stopFilter c ts pos) := by
  induction ts generalizing pos with
  | nil => simp [stopFilter]
  | cons t rest ih =>
    cases h with
    | cons h1 h2 =>
      have key : ∀ pos' (t' : Token), t'.startchar = t.startchar → t'.endchar = t.endchar →
          List.Pairwise (fun a b : Token => R a.startchar a.endchar b.startchar b.endchar)
            (t' :: stopFilter c rest pos') := by
        intro pos' t' e1 e2
        refine List.Pairwise.cons ?_ (ih pos' h2)
        intro x hx
        obtain ⟨y, hy, s1, s2, _, _⟩ := mem_stopFilter hx
        have := h1 y hy
        rw [e1, e2, ← s1, ← s2]; exact this
      simp only [stopFilter]
      split
      · split
        · split
          · exact key _ _ rfl rfl
          · exact key _ _ rfl rfl
        · exact key _ _ rfl rfl
      · split
        · exact key _ _ rfl rfl
        · exact ih pos h2

/-- with `removestops` on, the positions after the stop filter strictly increase (renumbered or
    not) -/
theorem stopFilter_pos (c : StopCfg) (hrs : c.removestops = true) (ts : List Token) (pos : Option Nat)
    (h : List.Pairwise (fun a b : Token => a.pos < b.pos) ts) :
    List.Pairwise (fun a b : Token => a.pos < b.pos) (stopFilter c ts pos) ∧
    (c.renumber = true → ∀ p, pos = some p → ∀ x ∈ stopFilter c ts pos, p < x.pos) := by
  induction ts generalizing pos with
  | nil => simp [stopFilter]
  | cons t rest ih =>
    cases h with
    | cons h1 h2 =>
      simp only [stopFilter]
      by_cases hk : c.keeps t.text = true
      · simp only [hk, if_true]
        by_cases hr : c.renumber = true
        · simp only [hr, if_true]
          cases pos with
          | none =>
            have := ih (some t.pos) h2
            refine ⟨List.Pairwise.cons ?_ this.1, by intro _ p hp; cases hp⟩
            intro x hx
            exact this.2 hr t.pos rfl x hx
          | some p =>
            have := ih (some (p + 1)) h2
            refine ⟨List.Pairwise.cons ?_ this.1, ?_⟩
            · intro x hx
              exact this.2 hr (p + 1) rfl x hx
            · intro _ q hq x hx
              injection hq with hq; subst hq
              simp only [List.mem_cons] at hx
              rcases hx with rfl | hx
              · simp
              · have := this.2 hr (p + 1) rfl x hx; omega
        · have hr' : c.renumber = false := by simpa using hr
          simp only [hr', Bool.false_eq_true, if_false]
          have := ih pos h2
          refine ⟨List.Pairwise.cons ?_ this.1, by intro h'; simp [hr'] at h'⟩
          intro x hx
          obtain ⟨y, hy, _, _, _, hp⟩ := mem_stopFilter hx
          have := h1 y hy
          rw [← hp hr']; exact this
      · simp only [hk, Bool.false_eq_true, if_false, hrs, Bool.not_true]
        exact ih pos h2

/-- which texts come out of the stop filter: those of the tokens it keeps, and of the others too
    when `removestops` is off -/
theorem stopFilter_text_iff (c : StopCfg) (ts : List Token) (pos : Option Nat) (w : Str) :
    (∃ x ∈ stopFilter c ts pos, x.text = w) ↔
    (∃ y ∈ ts, y.text = w ∧ (c.keeps w = true ∨ c.removestops = false)) := by
  induction ts generalizing pos with
  | nil => simp [stopFilter]
  | cons t rest ih =>
    have step : ∀ (t' : Token) (pos' : Option Nat), t'.text = t.text →
        (c.keeps t.text = true ∨ c.removestops = false) →
        ((∃ x ∈ t' :: stopFilter c rest pos', x.text = w) ↔
         (∃ y ∈ t :: rest, y.text = w ∧ (c.keeps w = true ∨ c.removestops = false))) := by
      intro t' pos' ht hk
      constructor
      · rintro ⟨x, hx, hw⟩
        simp only [List.mem_cons] at hx
        rcases hx with rfl | hx
        · exact ⟨t, by simp, by rw [← ht]; exact hw, by rw [← hw, ht]; exact hk⟩
        · obtain ⟨y, hy, r⟩ := (ih pos').1 ⟨x, hx, hw⟩
          exact ⟨y, by simp [hy], r⟩
      · rintro ⟨y, hy, hw, hk'⟩
        simp only [List.mem_cons] at hy
        rcases hy with rfl | hy
        · exact ⟨t', by simp, by rw [ht]; exact hw⟩
        · obtain ⟨x, hx, r⟩ := (ih pos').2 ⟨y, hy, hw, hk'⟩
          exact ⟨x, by simp [hx], r⟩
    simp only [stopFilter]
    split
    · next hk =>
      split
      · split
        · exact step _ _ rfl (Or.inl hk)
        · exact step _ _ rfl (Or.inl hk)
      · exact step _ _ rfl (Or.inl hk)
    · next hk =>
      split
      · next hr => exact step _ _ rfl (Or.inr (by simpa using hr))
      · next hr =>
        rw [ih pos]
        constructor
        · rintro ⟨y, hy, r⟩; exact ⟨y, by simp [hy], r⟩
        · rintro ⟨y, hy, hw, hk'⟩
          simp only [List.mem_cons] at hy
          rcases hy with rfl | hy
          · exfalso
            rw [← hw] at hk'
            rcases hk' with h1 | h1
            · exact hk h1
            · simp [h1] at hr
          · exact ⟨y, hy, hw, hk'⟩

/-! ## `str.find` and `DelimitedAttributeFilter` -/

theorem findSub_le (sub s : Str) (p : Nat) (h : findSub sub s = some p) : p ≤ s.length := by
  induction s generalizing p with
  | nil =>
    simp only [findSub] at h
    split at h <;> simp_all
  | cons c rest ih =>
    simp only [findSub] at h
    split at h
    · simp at h; omega
    · cases hr : findSub sub rest with
      | none => simp [hr] at h
      | some q =>
        simp [hr] at h
        have := ih q hr
        simp only [List.length_cons]; omega

/-- what `find` returns is an occurrence: the delimiter is a prefix of the text from there on -/
theorem findSub_occurs (sub s : Str) (p : Nat) (h : findSub sub s = some p) : sub.isPrefixOf (s.drop p) = true := by
  induction s generalizing p with
  | nil =>
    simp only [findSub] at h
    split at h <;> simp_all
  | cons c rest ih =>
    simp only [findSub] at h
    split at h
    · rename_i hpre
      simp at h; subst h; simpa using hpre
    · cases hr : findSub sub rest with
      | none => simp [hr] at h
      | some q =>
        simp [hr] at h
        subst h
        simpa using ih q hr

end WM.Analysis
