import WM.Lemmas.NormalizeOps
import WM.Spec.CleanS
/-! `simplify(ixreader)` keeps the meaning on the reader it was given. -/
namespace WM.Normalize
open WM.Sat WM.Clean

/-- The reader describes the index of `env`: every term of every document is in the lexicon of its
    field, and that field is in the schema. -/
def ReaderOk (env : Env) (rd : Reader) : Prop :=
  ∀ d ∈ env.index, ∀ f, ∀ x ∈ d.toks f, x ∈ rd.lexicon f ∧ rd.fields.contains f = true

theorem simplifyList_eq_map (m : Nat → Field → Text → Nat → Text → Bool)
    (br : Text → Option ((Nat → Bool) × Nat)) (rd : Reader) (qs : List Q) :
    simplifyList m br rd qs = qs.map (simplify m br rd) := by
  induction qs with
  | nil => rfl
  | cons q qs ih => simp [simplifyList, ih]

/-- Meaning of the result of `MultiTerm.simplify` for a list of expansion terms. -/
theorem multiSimplify_sat (env : Env) (rd : Reader) (f : Field) (b : Rat) (bts : List Text) (d : Doc)
    (hf : rd.fields.contains f = true) :
    sat env (multiSimplify rd f b bts) d = bts.any fun t => (d.toks f).contains t := by
  unfold multiSimplify
  simp only [hf, Bool.not_true, Bool.false_eq_true, ↓reduceIte]
  match bts with
  | [] => rfl
  | [t] => simp [sat]
  | t :: u :: rest =>
    simp only [sat, satAny_eq_any, List.any_map]
    rfl

/-- The union bound behind `MultiTerm.simplify`: for a term predicate `P`, the documents that hold a
    term satisfying `P` are those that hold one of the lexicon terms satisfying `P`. -/
theorem expansion_any (env : Env) (rd : Reader) (hrd : ReaderOk env rd) (d : Doc) (hd : d ∈ env.index)
    (f : Field) (P : Text → Bool) :
    (((rd.lexicon f).filter P).any fun t => (d.toks f).contains t) = (d.toks f).any fun x => P x := by
  rw [Bool.eq_iff_iff]
  simp only [List.any_eq_true, List.mem_filter, List.contains_eq_mem, decide_eq_true_eq]
  constructor
  · rintro ⟨t, ⟨_, hP⟩, hm⟩
    exact ⟨t, hm, hP⟩
  · rintro ⟨x, hx, hP⟩
    exact ⟨x, ⟨(hrd d hd f x hx).1, hP⟩, hx⟩

theorem hasField_any (d : Doc) (f : Field) : hasField d f = (d.toks f).any fun _ => true := by
  unfold hasField
  cases d.toks f <;> simp

theorem parseGlob_star (br : Text → Option ((Nat → Bool) × Nat)) : parseGlob br [starC] = [.star] := by
  rw [parseGlob]
  simp only [↓reduceIte]
  rw [parseGlob]

/-- `MultiTerm.simplify` of a multi-term leaf. -/
theorem leafSimplify_sat (env : Env) (rd : Reader) (hrd : ReaderOk env rd) (d : Doc) (hd : d ∈ env.index)
    (q : Q) (f : Field) (b : Rat) (P : Text → Bool)
    (hbt : btexts env.multi env.bracket rd q = (rd.lexicon f).filter P)
    (hsat : sat env q d = (d.toks f).any fun x => P x) :
    sat env (multiSimplify rd f b (btexts env.multi env.bracket rd q)) d = sat env q d := by
  by_cases hf : rd.fields.contains f = true
  · rw [multiSimplify_sat env rd f b _ d hf, hbt, hsat]
    exact expansion_any env rd hrd d hd f P
  · -- the field is not in the schema: no document has a term in it
    have hnil : d.toks f = [] := by
      cases h : d.toks f with
      | nil => rfl
      | cons x xs =>
        have := (hrd d hd f x (by rw [h]; exact List.mem_cons_self ..)).2
        exact absurd this hf
    unfold multiSimplify
    simp only [hf, Bool.not_false, ↓reduceIte]
    rw [hsat, hnil]
    rfl

theorem sat_bin_congr (env : Env) (k : BK) (a a' b b' : Q)
    (ha : ∀ d ∈ env.index, sat env a' d = sat env a d) (hb : ∀ d ∈ env.index, sat env b' d = sat env b d)
    (d : Doc) (hd : d ∈ env.index) : sat env (.bin k a' b') d = sat env (.bin k a b) d := by
  have hany : env.index.any (sat env a') = env.index.any (sat env a) := by
    rw [Bool.eq_iff_iff]
    simp only [List.any_eq_true]
    constructor
    · rintro ⟨x, hx, hs⟩; exact ⟨x, hx, by rw [← ha x hx]; exact hs⟩
    · rintro ⟨x, hx, hs⟩; exact ⟨x, hx, by rw [ha x hx]; exact hs⟩
  cases k <;> simp only [sat, ha d hd, hb d hd, hany]

/-- Hypothesis about the empty term for `simplify` (cf. `EOk`). -/
def EOkS (env : Env) (rd : Reader) (q : Q) : Prop :=
  emptyOkS env.multi env.bracket rd q = true ∨ ∀ d ∈ env.index, d.NoEmpty
def EOkSList (env : Env) (rd : Reader) (qs : List Q) : Prop :=
  emptyOkSList env.multi env.bracket rd qs = true ∨ ∀ d ∈ env.index, d.NoEmpty

mutual
theorem simplify_sat_aux (env : Env) (rd : Reader) (hrd : ReaderOk env rd)
    (hidx : ∀ d ∈ env.index, d.BelowMax) :
    ∀ (q : Q), cleanS env.multi env.bracket rd q = true → EOkS env rd q → ∀ d ∈ env.index,
      sat env (simplify env.multi env.bracket rd q) d = sat env q d
  | .null, _, _, _, _ => rfl
  | .every _ _, _, _, _, _ => rfl
  | .term _ _ _, _, _, _, _ => rfl
  | .pre f t b c, _, _, d, hd => by
    simp only [simplify]
    apply leafSimplify_sat env rd hrd d hd _ f b (fun x => t.isPrefixOf x) rfl
    simp only [sat]
    split
    · rename_i ht
      subst ht
      rw [hasField_any d f]
      simp
    · rfl
  | .wild f t b c, _, _, d, hd => by
    simp only [simplify]
    apply leafSimplify_sat env rd hrd d hd _ f b (fun x => gmatch (parseGlob env.bracket t) x) rfl
    simp only [sat]
    split
    · rename_i ht
      subst ht
      rw [hasField_any d f, parseGlob_star]
      simp [gmatch_star]
    · rfl
  | .multi k f t key b, _, _, d, hd => by
    simp only [simplify]
    split
    · rfl
    · exact leafSimplify_sat env rd hrd d hd _ f b (fun x => env.multi k f t key x) rfl rfl
  | .range f lo hi lx hx b c, _, _, d, hd => by
    simp only [simplify]
    exact leafSimplify_sat env rd hrd d hd _ f b (fun x => inRangeQ lo hi lx hx x) rfl rfl
  | .phrase _ _ _ _, _, _, _, _ => rfl
  | .comp k qs b, hc, he, d, hd => by
    simp only [cleanS, Bool.and_eq_true, Bool.or_eq_true] at hc
    have hel : EOkSList env rd qs := by
      rcases he with he | he
      · simp only [emptyOkS, Bool.and_eq_true] at he; exact Or.inl he.1
      · exact Or.inr he
    have hen : ¬ qs.isEmpty = true → EOk env (.comp k (simplifyList env.multi env.bracket rd qs) b) := by
      intro hne
      rcases he with he' | he'
      · simp only [emptyOkS, Bool.and_eq_true, Bool.or_eq_true] at he'
        rcases he'.2 with h0 | h0
        · exact absurd h0 hne
        · exact Or.inl h0
      · exact Or.inr he'
    simp only [simplify]
    split
    · rename_i he
      have : qs = [] := by simpa using he
      subst this
      cases k <;> rfl
    · rename_i he
      rcases hc.2 with h | h
      · exact absurd h he
      · rw [normalize_sat_aux env hidx _ h (hen he) d hd, sat_comp, sat_comp]
        have h1 := simplifyList_sat_aux env rd hrd hidx qs hc.1 hel d hd
        cases k <;> simp only [den, h1.1, h1.2.1, h1.2.2]
  | .seq c qs s o b, hc, _, d, hd => by
    simp only [cleanS, Bool.or_eq_true, Bool.and_eq_true, beq_iff_eq] at hc
    simp only [simplify]
    split
    · rename_i he
      have : qs = [] := by simpa using he
      subst this
      rfl
    · rename_i he
      rcases hc with h | h
      · exact absurd h he
      · simp only [h.1, normalize, h.2]
  | .not _ _, _, _, _, _ => rfl
  | .bin k a b, hc, he, d, hd => by
    simp only [cleanS, Bool.and_eq_true] at hc
    have hes : EOkS env rd a ∧ EOkS env rd b
        ∧ EOk env (.bin k (simplify env.multi env.bracket rd a) (simplify env.multi env.bracket rd b)) := by
      rcases he with he | he
      · simp only [emptyOkS, Bool.and_eq_true] at he; exact ⟨Or.inl he.1.1, Or.inl he.1.2, Or.inl he.2⟩
      · exact ⟨Or.inr he, Or.inr he, Or.inr he⟩
    simp only [simplify]
    rw [normalize_sat_aux env hidx _ hc.2 hes.2.2 d hd]
    exact sat_bin_congr env k a _ b _ (simplify_sat_aux env rd hrd hidx a hc.1.1 hes.1)
      (simplify_sat_aux env rd hrd hidx b hc.1.2 hes.2.1) d hd
  | .const _ _, _, _, _, _ => rfl
  | .opq _ _, _, _, _, _ => rfl
theorem simplifyList_sat_aux (env : Env) (rd : Reader) (hrd : ReaderOk env rd)
    (hidx : ∀ d ∈ env.index, d.BelowMax) :
    ∀ (qs : List Q), cleanSList env.multi env.bracket rd qs = true → EOkSList env rd qs → ∀ d ∈ env.index,
      (simplifyList env.multi env.bracket rd qs).isEmpty = qs.isEmpty
      ∧ satAll env (simplifyList env.multi env.bracket rd qs) d = satAll env qs d
      ∧ satAny env (simplifyList env.multi env.bracket rd qs) d = satAny env qs d
  | [], _, _, _, _ => ⟨rfl, rfl, rfl⟩
  | q :: qs, hc, he, d, hd => by
    simp only [cleanSList, Bool.and_eq_true] at hc
    have heq : EOkS env rd q ∧ EOkSList env rd qs := by
      rcases he with he | he
      · simp only [emptyOkSList, Bool.and_eq_true] at he; exact ⟨Or.inl he.1, Or.inl he.2⟩
      · exact ⟨Or.inr he, Or.inr he⟩
    have h1 := simplify_sat_aux env rd hrd hidx q hc.1 heq.1 d hd
    have h2 := simplifyList_sat_aux env rd hrd hidx qs hc.2 heq.2 d hd
    refine ⟨rfl, ?_, ?_⟩
    · simp only [simplifyList, satAll, h1, h2.2.1]
    · simp only [simplifyList, satAny, h1, h2.2.2]
end

end WM.Normalize
