import WM.Model.IdSets
import WM.Lemmas.SpecIdSet
/-! Bit-array lemmas: membership of every `BitSet` operation in terms of `contains`. -/
namespace WM.IdSets
open WM.Spec.IdSet (Sorted)

theorem hasBit_eq_testBit (b k : Nat) : hasBit b k = b.testBit k := by
  unfold hasBit
  rw [Nat.one_shiftLeft]
  cases h : b.testBit k
  · have : b &&& 2 ^ k = 0 := by
      apply Nat.eq_of_testBit_eq
      intro j
      rw [Nat.testBit_and, Nat.testBit_two_pow, Nat.zero_testBit]
      by_cases hj : k = j
      · subst hj; simp [h]
      · simp [hj]
    simp [this]
  · have : (b &&& 2 ^ k).testBit k = true := by
      rw [Nat.testBit_and, Nat.testBit_two_pow_self, h]; rfl
    have hne : b &&& 2 ^ k ≠ 0 := by
      intro h0; rw [h0, Nat.zero_testBit] at this; cases this
    simp [hne]

/-- `contains` through `getElem?`. -/
theorem contains_eq (bits : Bits) (i : Nat) :
    contains bits i = match bits[i / 8]? with
      | some b => b.testBit (i % 8)
      | none => false := by
  unfold contains
  by_cases h : i / 8 ≥ bits.length
  · simp [h, List.getElem?_eq_none h]
  · have h' : i / 8 < bits.length := by omega
    simp [h, List.getElem?_eq_getElem h', hasBit_eq_testBit]

theorem contains_nil (i : Nat) : contains [] i = false := by simp [contains]

theorem contains_cons (b : Nat) (bs : Bits) (i : Nat) :
    contains (b :: bs) i = if i < 8 then b.testBit i else contains bs (i - 8) := by
  rw [contains_eq, contains_eq]
  by_cases h : i < 8
  · have h0 : i / 8 = 0 := by omega
    have h1 : i % 8 = i := by omega
    simp [h, h0, h1]
  · have h0 : i / 8 = (i - 8) / 8 + 1 := by omega
    have h1 : i % 8 = (i - 8) % 8 := by omega
    simp [h, h0, h1]

theorem contains_lt {bits : Bits} {i : Nat} (h : contains bits i = true) : i < 8 * bits.length := by
  unfold contains at h
  by_cases hb : i / 8 ≥ bits.length
  · simp [hb] at h
  · omega

theorem mem_iterByte {base b x : Nat} :
    x ∈ iterByte base b ↔ ∃ k, k < 8 ∧ b.testBit k = true ∧ x = base + k := by
  unfold iterByte
  simp only [List.mem_filterMap, List.mem_range, hasBit_eq_testBit]
  constructor
  · rintro ⟨k, hk, h⟩
    split at h
    · next hb => simp only [Option.some.injEq] at h; exact ⟨k, hk, hb, h.symm⟩
    · cases h
  · rintro ⟨k, hk, hb, rfl⟩
    exact ⟨k, hk, by simp [hb]⟩

theorem sorted_iterByte (base b : Nat) : Sorted (iterByte base b) := by
  unfold iterByte Sorted
  apply List.Pairwise.filterMap (R := (· < ·)) _ _ List.pairwise_lt_range
  intro a a' hlt c hc c' hc'
  split at hc <;> simp only [Option.some.injEq, reduceCtorEq] at hc
  split at hc' <;> simp only [Option.some.injEq, reduceCtorEq] at hc'
  omega

theorem mem_iterFrom {x : Nat} : ∀ {base : Nat} {bs : Bits},
    x ∈ iterFrom base bs ↔ base ≤ x ∧ contains bs (x - base) = true
  | base, [] => by simp [iterFrom, contains_nil]
  | base, b :: bs => by
    simp only [iterFrom, List.mem_append, mem_iterByte, mem_iterFrom (base := base + 8) (bs := bs),
      contains_cons]
    constructor
    · rintro (⟨k, hk, hb, rfl⟩ | ⟨h1, h2⟩)
      · have : base + k - base = k := by omega
        simp [this, hk, hb]
      · have : ¬ (x - base < 8) := by omega
        have h3 : x - base - 8 = x - (base + 8) := by omega
        simp [this, h3, h2]; omega
    · rintro ⟨h1, h2⟩
      by_cases hlt : x - base < 8
      · simp only [hlt, ↓reduceIte] at h2
        exact Or.inl ⟨x - base, hlt, h2, by omega⟩
      · simp only [hlt, ↓reduceIte] at h2
        have h3 : x - base - 8 = x - (base + 8) := by omega
        exact Or.inr ⟨by omega, by rw [← h3]; exact h2⟩

theorem sorted_iterFrom : ∀ (base : Nat) (bs : Bits), Sorted (iterFrom base bs)
  | _, [] => List.Pairwise.nil
  | base, b :: bs => by
    simp only [iterFrom, Sorted]
    apply List.pairwise_append.mpr
    refine ⟨sorted_iterByte base b, sorted_iterFrom (base + 8) bs, ?_⟩
    intro x hx y hy
    rcases mem_iterByte.mp hx with ⟨k, hk, _, rfl⟩
    have := (mem_iterFrom.mp hy).1
    omega

theorem sorted_iter (bits : Bits) : Sorted (iter bits) := sorted_iterFrom 0 bits

theorem mem_iter {bits : Bits} {x : Nat} : x ∈ iter bits ↔ contains bits x = true := by
  simp [iter, mem_iterFrom]

/-- A set given by its membership test: `iter` is the unique strictly ascending list with these
    members. -/
theorem iter_eq_of_mem {bits : Bits} {s : List Nat} (hs : Sorted s)
    (h : ∀ x, x ∈ s ↔ contains bits x = true) : iter bits = s :=
  WM.Spec.IdSet.sorted_ext (sorted_iter bits) hs (fun x => by rw [mem_iter, h])

/-! ### `_resize`, `add`, `discard` -/

theorem length_resize (bits : Bits) (n : Nat) :
    (resize bits n).length = bytesForBits n := by
  unfold resize
  simp only
  split
  · simp; omega
  · split
    · simp; omega
    · omega

theorem resize_grow {bits : Bits} {n : Nat} (h : bytesForBits n > bits.length) :
    resize bits n = bits ++ List.replicate (bytesForBits n - bits.length) 0 := by
  unfold resize; simp only [h, ↓reduceIte]

theorem resize_shrink {bits : Bits} {n : Nat} (h : bytesForBits n < bits.length) :
    resize bits n = bits.take (bytesForBits n) := by
  have : ¬ bytesForBits n > bits.length := by omega
  unfold resize; simp only [this, h, ↓reduceIte]

theorem resize_same {bits : Bits} {n : Nat} (h : bytesForBits n = bits.length) :
    resize bits n = bits := by
  have h1 : ¬ bytesForBits n > bits.length := by omega
  have h2 : ¬ bytesForBits n < bits.length := by omega
  unfold resize; simp only [h1, h2, ↓reduceIte]

theorem contains_resize (bits : Bits) (n j : Nat) :
    contains (resize bits n) j = (contains bits j && decide (j / 8 < bytesForBits n)) := by
  rw [contains_eq, contains_eq]
  rcases Nat.lt_trichotomy (bytesForBits n) bits.length with h | h | h
  · rw [resize_shrink h, List.getElem?_take]
    by_cases hj : j / 8 < bytesForBits n
    · simp [hj]
    · simp [hj]
  · rw [resize_same h]
    by_cases hj : j / 8 < bytesForBits n
    · simp [hj]
    · rw [List.getElem?_eq_none (by omega)]; simp
  · rw [resize_grow h, List.getElem?_append]
    by_cases hj : j / 8 < bits.length
    · have : j / 8 < bytesForBits n := by omega
      simp [hj, this]
    · simp only [hj, ↓reduceIte, List.getElem?_replicate]
      rw [List.getElem?_eq_none (l := bits) (by omega)]
      by_cases hr : j / 8 - bits.length < bytesForBits n - bits.length
      · simp [hr]
      · simp [hr]

theorem testBit_or_bit (b k j : Nat) :
    (b ||| 1 <<< k).testBit j = (b.testBit j || decide (k = j)) := by
  rw [Nat.testBit_or, Nat.one_shiftLeft, Nat.testBit_two_pow]

theorem testBit_andNot_bit (b k j : Nat) (hj : j < 8) :
    (andNot b (1 <<< k)).testBit j = (b.testBit j && !decide (k = j)) := by
  unfold andNot
  rw [Nat.testBit_and, Nat.testBit_xor, Nat.one_shiftLeft, Nat.testBit_two_pow]
  have : Nat.testBit 255 j = true := by
    have : j = 0 ∨ j = 1 ∨ j = 2 ∨ j = 3 ∨ j = 4 ∨ j = 5 ∨ j = 6 ∨ j = 7 := by omega
    rcases this with h | h | h | h | h | h | h | h <;> subst h <;> decide
  rw [this]
  cases decide (k = j) <;> simp

theorem div_mod_eq_iff (i j : Nat) : (i / 8 = j / 8 ∧ i % 8 = j % 8) ↔ i = j := by omega

theorem contains_modify (bits : Bits) (f : Nat → Nat) (bucket j : Nat) :
    contains (bits.modify bucket f) j = match bits[j / 8]? with
      | some b => (if bucket = j / 8 then f b else b).testBit (j % 8)
      | none => false := by
  rw [contains_eq, List.getElem?_modify]
  cases bits[j / 8]? <;> simp

theorem contains_modify_or (bits : Bits) (i j : Nat) (hlen : i / 8 < bits.length) :
    contains (bits.modify (i / 8) (· ||| (1 <<< (i % 8)))) j = (decide (j = i) || contains bits j) := by
  rw [contains_modify, contains_eq]
  cases hb : bits[j / 8]? with
  | none =>
    have : ¬ j = i := by
      intro h; subst h
      rw [List.getElem?_eq_none_iff] at hb; omega
    simp [this]
  | some b =>
    simp only
    by_cases hij : i / 8 = j / 8
    · simp only [hij, ↓reduceIte, testBit_or_bit]
      by_cases h8 : i % 8 = j % 8
      · have : j = i := ((div_mod_eq_iff i j).mp ⟨hij, h8⟩).symm
        simp [h8, this]
      · have : ¬ j = i := fun h => h8 (by rw [h])
        simp [h8, this]
    · have : ¬ j = i := fun h => hij (by rw [h])
      simp [hij, this]

theorem contains_add (bits : Bits) (i j : Nat) :
    contains (add bits i) j = (decide (j = i) || contains bits j) := by
  unfold add
  simp only
  by_cases hge : i / 8 ≥ bits.length
  · rw [if_pos hge]
    have hlen := length_resize bits (i + 1)
    have hb : i / 8 < (resize bits (i + 1)).length := by rw [hlen]; unfold bytesForBits; omega
    rw [contains_modify_or _ _ _ hb, contains_resize]
    by_cases hc : contains bits j = true
    · have := contains_lt hc
      have : j / 8 < bytesForBits (i + 1) := by unfold bytesForBits; omega
      simp [hc, this]
    · simp [hc]
  · rw [if_neg hge]
    exact contains_modify_or _ _ _ (by omega)

theorem length_add_ge (bits : Bits) (i : Nat) : bits.length ≤ (add bits i).length := by
  unfold add
  simp only [List.length_modify]
  split
  · rw [length_resize]; unfold bytesForBits; omega
  · omega

theorem contains_discard (bits : Bits) (i j : Nat) :
    contains (discard bits i) j = (contains bits j && !decide (j = i)) := by
  unfold discard
  simp only
  split
  · next hlt =>
    rw [contains_modify, contains_eq]
    cases hb : bits[j / 8]? with
    | none => simp
    | some b =>
      simp only
      by_cases hij : i / 8 = j / 8
      · simp only [hij, ↓reduceIte]
        rw [testBit_andNot_bit _ _ _ (by omega)]
        by_cases h8 : i % 8 = j % 8
        · have : j = i := ((div_mod_eq_iff i j).mp ⟨hij, h8⟩).symm
          simp [h8, this]
        · have : ¬ j = i := fun h => h8 (by rw [h])
          simp [h8, this]
      · have : ¬ j = i := fun h => hij (by rw [h])
        simp [hij, this]
  · next hge =>
    by_cases hji : j = i
    · subst hji
      have : contains bits j = false := by
        rw [contains_eq, List.getElem?_eq_none (by omega)]
      simp [this]
    · simp [hji]

theorem length_discard (bits : Bits) (i : Nat) : (discard bits i).length = bits.length := by
  unfold discard; simp only; split <;> simp

/-! ### folds of `add` / `discard` -/

theorem contains_foldl_add (l : List Nat) : ∀ (bits : Bits) (j : Nat),
    contains (l.foldl add bits) j = (contains bits j || l.contains j) := by
  induction l with
  | nil => intro bits j; simp
  | cons a t ih =>
    intro bits j
    rw [List.foldl_cons, ih, contains_add]
    by_cases h : j = a
    · subst h; simp
    · have : (j == a) = false := by simp [h]
      simp [h, List.contains_cons, this]

theorem contains_foldl_discard (l : List Nat) : ∀ (bits : Bits) (j : Nat),
    contains (l.foldl discard bits) j = (contains bits j && !l.contains j) := by
  induction l with
  | nil => intro bits j; simp
  | cons a t ih =>
    intro bits j
    rw [List.foldl_cons, ih, contains_discard]
    by_cases h : j = a
    · subst h; simp
    · have : (j == a) = false := by simp [h]
      simp [h, List.contains_cons, this]

theorem contains_foldl_discard_if (p : Nat → Bool) (l : List Nat) : ∀ (bits : Bits) (j : Nat),
    contains (l.foldl (fun acc n => if p n then acc else discard acc n) bits) j
      = (contains bits j && !(l.contains j && !p j)) := by
  induction l with
  | nil => intro bits j; simp
  | cons a t ih =>
    intro bits j
    rw [List.foldl_cons, ih, List.contains_cons]
    by_cases hp : p a = true
    · rw [if_pos hp]
      by_cases h : j = a
      · subst h; rw [hp]; simp
      · have : (j == a) = false := by simp [h]
        rw [this]; simp
    · rw [if_neg hp, contains_discard]
      simp only [Bool.not_eq_true] at hp
      by_cases h : j = a
      · subst h; rw [hp]; simp
      · have : (j == a) = false := by simp [h]
        rw [this]; simp [h]

/-! ### `_trim`, `_logic` -/

theorem contains_trim : ∀ (bits : Bits) (j : Nat), contains (trim bits) j = contains bits j
  | [], j => by simp [trim]
  | b :: bs, j => by
    unfold trim
    have ih := contains_trim bs
    split
    · next h =>
      split
      · next hb =>
        subst hb
        rw [contains_nil, contains_cons]
        split
        · simp
        · rw [← ih, h, contains_nil]
      · rw [contains_cons, contains_cons]
        split
        · rfl
        · rw [contains_nil, ← ih, h, contains_nil]
    · rw [contains_cons, contains_cons, ih]

theorem testBit_and_255 (x k : Nat) (hk : k < 8) : (x &&& 255).testBit k = x.testBit k := by
  rw [Nat.testBit_and]
  have : Nat.testBit 255 k = true := by
    have : k = 0 ∨ k = 1 ∨ k = 2 ∨ k = 3 ∨ k = 4 ∨ k = 5 ∨ k = 6 ∨ k = 7 := by omega
    rcases this with h | h | h | h | h | h | h | h <;> subst h <;> decide
  simp [this]

/-- `zipLongest` acts bit-wise when `op` does (on the low eight bits). -/
theorem contains_zipLongest (op : Nat → Nat → Nat) (f : Bool → Bool → Bool)
    (hff : f false false = false)
    (hop : ∀ x y k, k < 8 → (op x y).testBit k = f (x.testBit k) (y.testBit k)) :
    ∀ (a b : Bits) (j : Nat), contains (zipLongest op a b) j = f (contains a j) (contains b j)
  | [], [], j => by simp [zipLongest, contains_nil, hff]
  | x :: xs, [], j => by
    rw [zipLongest, contains_cons, contains_cons, contains_nil]
    split
    · next h => rw [testBit_and_255 _ _ h, hop _ _ _ h]; simp
    · rw [contains_zipLongest op f hff hop xs [] (j - 8), contains_nil]
  | [], y :: ys, j => by
    rw [zipLongest, contains_cons, contains_cons, contains_nil]
    split
    · next h => rw [testBit_and_255 _ _ h, hop _ _ _ h]; simp
    · rw [contains_zipLongest op f hff hop [] ys (j - 8), contains_nil]
  | x :: xs, y :: ys, j => by
    rw [zipLongest, contains_cons, contains_cons, contains_cons]
    split
    · next h => rw [testBit_and_255 _ _ h, hop _ _ _ h]
    · rw [contains_zipLongest op f hff hop xs ys (j - 8)]

theorem testBit_255 (k : Nat) (hk : k < 8) : Nat.testBit 255 k = true := by
  have : k = 0 ∨ k = 1 ∨ k = 2 ∨ k = 3 ∨ k = 4 ∨ k = 5 ∨ k = 6 ∨ k = 7 := by omega
  rcases this with h | h | h | h | h | h | h | h <;> subst h <;> decide

theorem contains_logic_or (a b : Bits) (j : Nat) :
    contains (logic (· ||| ·) a b) j = (contains a j || contains b j) := by
  unfold logic
  rw [contains_trim]
  exact contains_zipLongest _ (· || ·) rfl (fun x y k _ => Nat.testBit_or x y k) a b j

theorem contains_logic_and (a b : Bits) (j : Nat) :
    contains (logic (· &&& ·) a b) j = (contains a j && contains b j) := by
  unfold logic
  rw [contains_trim]
  exact contains_zipLongest _ (· && ·) rfl (fun x y k _ => Nat.testBit_and x y k) a b j

theorem contains_logic_andNot (a b : Bits) (j : Nat) :
    contains (logic andNot a b) j = (contains a j && !contains b j) := by
  unfold logic
  rw [contains_trim]
  refine contains_zipLongest _ (fun p q => p && !q) rfl ?_ a b j
  intro x y k hk
  unfold andNot
  rw [Nat.testBit_and, Nat.testBit_xor, testBit_255 k hk]
  simp

/-! ### constructors and the generic paths -/

theorem contains_replicate_zero (n j : Nat) : contains (List.replicate n 0) j = false := by
  rw [contains_eq, List.getElem?_replicate]
  by_cases h : j / 8 < n
  · simp [h]
  · simp [h]

theorem contains_emptyOfSize (n j : Nat) : contains (emptyOfSize n) j = false :=
  contains_replicate_zero _ _

theorem contains_ofSource (source : List Nat) (sized : Bool) (size j : Nat) :
    contains (ofSource source sized size) j = source.contains j := by
  unfold ofSource
  simp only
  rw [contains_foldl_add, contains_emptyOfSize]; simp

theorem contains_resizeToOther (bits : Bits) (o : Other) (j : Nat) :
    contains (resizeToOther bits o) j = contains bits j := by
  unfold resizeToOther
  split
  · split
    · rfl
    · simp only
      split
      · next h =>
        rw [contains_resize]
        by_cases hc : contains bits j = true
        · have := contains_lt hc
          have : j / 8 < bytesForBits (listMax ‹List Nat›) := by unfold bytesForBits; omega
          simp [hc, this]
        · simp [hc]
      · rfl
  · rfl

theorem other_items_contains (o : Other) (j : Nat) : o.items.contains j = o.contains j := by
  cases o with
  | bits b =>
    simp only [Other.items, Other.contains]
    by_cases h : contains b j = true
    · rw [h]; exact List.contains_iff_mem.mpr (mem_iter.mpr h)
    · have : j ∉ iter b := fun hm => h (mem_iter.mp hm)
      simp only [Bool.not_eq_true] at h
      rw [h]
      simpa using this
  | list l s => rfl

theorem contains_update (bits : Bits) (o : Other) (j : Nat) :
    contains (update bits o) j = (contains bits j || o.contains j) := by
  unfold update
  rw [contains_foldl_add, contains_resizeToOther, other_items_contains]

theorem iter_contains (bits : Bits) (j : Nat) : (iter bits).contains j = contains bits j := by
  by_cases h : contains bits j = true
  · rw [h]; exact List.contains_iff_mem.mpr (mem_iter.mpr h)
  · have : j ∉ iter bits := fun hm => h (mem_iter.mp hm)
    simp only [Bool.not_eq_true] at h
    rw [h]
    simpa using this

theorem contains_intersectionUpdate (bits : Bits) (o : Other) (j : Nat) :
    contains (intersectionUpdate bits o) j = (contains bits j && o.contains j) := by
  cases o with
  | bits b => simp only [intersectionUpdate, Other.contains]; exact contains_logic_and _ _ _
  | list l s =>
    simp only [intersectionUpdate]
    rw [contains_foldl_discard_if, iter_contains]
    cases contains bits j <;> cases (Other.list l s).contains j <;> rfl

theorem contains_differenceUpdate (bits : Bits) (o : Other) (j : Nat) :
    contains (differenceUpdate bits o) j = (contains bits j && !o.contains j) := by
  cases o with
  | bits b => simp only [differenceUpdate, Other.contains]; exact contains_logic_andNot _ _ _
  | list l s =>
    simp only [differenceUpdate]
    rw [contains_foldl_discard]; rfl

theorem contains_union (bits : Bits) (o : Other) (j : Nat) :
    contains (union bits o) j = (contains bits j || o.contains j) := by
  cases o with
  | bits b => simp only [union, Other.contains]; exact contains_logic_or _ _ _
  | list l s => simp only [union]; exact contains_update _ _ _

theorem contains_intersection (bits : Bits) (o : Other) (j : Nat) :
    contains (intersection bits o) j = (contains bits j && o.contains j) := by
  cases o with
  | bits b => simp only [intersection, Other.contains]; exact contains_logic_and _ _ _
  | list l s =>
    simp only [intersection]
    rw [contains_ofSource]
    by_cases h : contains bits j = true
    · by_cases h2 : (Other.list l s).contains j = true
      · rw [h, h2]
        exact List.contains_iff_mem.mpr (List.mem_filter.mpr ⟨mem_iter.mpr h, h2⟩)
      · have : j ∉ (iter bits).filter (Other.list l s).contains := by
          intro hm; exact h2 (List.mem_filter.mp hm).2
        simp only [Bool.not_eq_true] at h2
        rw [h, h2]; simpa using this
    · have : j ∉ (iter bits).filter (Other.list l s).contains := by
        intro hm; exact h (mem_iter.mp (List.mem_filter.mp hm).1)
      simp only [Bool.not_eq_true] at h
      rw [h]; simpa using this

theorem contains_difference (bits : Bits) (o : Other) (j : Nat) :
    contains (difference bits o) j = (contains bits j && !o.contains j) := by
  cases o with
  | bits b => simp only [difference, Other.contains]; exact contains_logic_andNot _ _ _
  | list l s =>
    simp only [difference]
    rw [contains_ofSource]
    by_cases h : contains bits j = true
    · by_cases h2 : (Other.list l s).contains j = true
      · have : j ∉ (iter bits).filter (fun n => !(Other.list l s).contains n) := by
          intro hm; have := (List.mem_filter.mp hm).2; simp [h2] at this
        rw [h, h2]; simpa using this
      · simp only [Bool.not_eq_true] at h2
        rw [h, h2]
        exact List.contains_iff_mem.mpr (List.mem_filter.mpr ⟨mem_iter.mpr h, by simp [h2]⟩)
    · have : j ∉ (iter bits).filter (fun n => !(Other.list l s).contains n) := by
        intro hm; exact h (mem_iter.mp (List.mem_filter.mp hm).1)
      simp only [Bool.not_eq_true] at h
      rw [h]; simpa using this

theorem contains_clear (bits : Bits) (j : Nat) : contains (clear bits) j = false := by
  rw [contains_eq]
  unfold clear
  rw [List.getElem?_map]
  cases bits[j / 8]? <;> simp

end WM.IdSets
