import WM.Lemmas.CodecAgg
/-! The folds `maxW / minLen / maxLen` are the maximum / minimum they are meant to be, and
`length_to_byte` is monotone (so the length bytes of a block are the min / max of the length bytes). -/
namespace WM.Codec

variable {ι : Type}

theorem foldl_wStep_spec (f32 : Rat → Rat) (ps : List (Posting ι)) (acc : Rat) :
    let r := ps.foldl (fun a p => wStep a (f32 p.weight)) acc
    acc ≤ r ∧ (∀ p ∈ ps, f32 p.weight ≤ r) ∧ (r = acc ∨ ∃ p ∈ ps, f32 p.weight = r) := by
  induction ps generalizing acc with
  | nil => exact ⟨Rat.le_refl, by simp, Or.inl rfl⟩
  | cons q ps ih =>
    simp only [List.foldl_cons]
    obtain ⟨h1, h2, h3⟩ := ih (wStep acc (f32 q.weight))
    have ha : acc ≤ wStep acc (f32 q.weight) := by unfold wStep; grind
    have hq : f32 q.weight ≤ wStep acc (f32 q.weight) := by unfold wStep; grind
    have hc : wStep acc (f32 q.weight) = acc ∨ wStep acc (f32 q.weight) = f32 q.weight := by unfold wStep; grind
    refine ⟨by grind, ?_, ?_⟩
    · intro p hp
      simp only [List.mem_cons] at hp
      rcases hp with rfl | hp
      · grind
      · exact h2 p hp
    · rcases h3 with h3 | ⟨p, hp, hpe⟩
      · rcases hc with hc | hc
        · left; rw [h3, hc]
        · right; exact ⟨q, by simp, by rw [h3, hc]⟩
      · right; exact ⟨p, by simp [hp], hpe⟩

/-- `maxW` bounds every stored weight, and is 0 or the stored weight of some posting. -/
theorem maxW_spec (f32 : Rat → Rat) (ps : List (Posting ι)) :
    (∀ p ∈ ps, f32 p.weight ≤ maxW f32 ps) ∧ (maxW f32 ps = 0 ∨ ∃ p ∈ ps, f32 p.weight = maxW f32 ps) :=
  ⟨(foldl_wStep_spec f32 ps 0).2.1, (foldl_wStep_spec f32 ps 0).2.2⟩

theorem foldl_maxStep_spec (ps : List (Posting ι)) (acc : Nat) :
    let r := ps.foldl (fun a p => maxStep a p.length) acc
    acc ≤ r ∧ (∀ p ∈ ps, ∀ l, p.length = some l → l ≤ r) ∧ (r = acc ∨ ∃ p ∈ ps, p.length = some r) := by
  induction ps generalizing acc with
  | nil => exact ⟨Nat.le_refl _, by simp, Or.inl rfl⟩
  | cons q ps ih =>
    simp only [List.foldl_cons]
    obtain ⟨h1, h2, h3⟩ := ih (maxStep acc q.length)
    have ha : acc ≤ maxStep acc q.length := by
      unfold maxStep; split
      · split <;> omega
      · omega
    have hq : ∀ l, q.length = some l → l ≤ maxStep acc q.length := by
      intro l hl; rw [hl]; unfold maxStep
      cases l with
      | zero => simp
      | succ l => simp only; split <;> omega
    have hc : maxStep acc q.length = acc ∨ q.length = some (maxStep acc q.length) := by
      unfold maxStep
      rcases hql : q.length with _ | l
      · left; rfl
      · cases l with
        | zero => left; rfl
        | succ l => simp only; split
                    · right; rfl
                    · left; rfl
    refine ⟨by omega, ?_, ?_⟩
    · intro p hp l hl
      simp only [List.mem_cons] at hp
      rcases hp with rfl | hp
      · have := hq l hl; omega
      · exact h2 p hp l hl
    · rcases h3 with h3 | ⟨p, hp, hpe⟩
      · rcases hc with hc | hc
        · left; rw [h3, hc]
        · right; exact ⟨q, by simp, by rw [h3]; exact hc⟩
      · right; exact ⟨p, by simp [hp], hpe⟩

/-- `maxLen` bounds every length, and is 0 or the length of some posting. -/
theorem maxLen_spec (ps : List (Posting ι)) :
    (∀ p ∈ ps, ∀ l, p.length = some l → l ≤ maxLen ps) ∧
      (maxLen ps = 0 ∨ ∃ p ∈ ps, p.length = some (maxLen ps)) :=
  ⟨(foldl_maxStep_spec ps 0).2.1, (foldl_maxStep_spec ps 0).2.2⟩

/-- `minLen`: `none` iff no posting has a truthy length; otherwise the least truthy length. -/
theorem minLen_spec (ps : List (Posting ι)) :
    match minLen ps with
    | none => ∀ p ∈ ps, truthy p.length = false
    | some m => 0 < m ∧ (∃ p ∈ ps, p.length = some m) ∧
        ∀ p ∈ ps, ∀ l, p.length = some l → 0 < l → m ≤ l := by
  induction ps using snoc_induction with
  | nil => simp [minLen]
  | snoc ps q ih =>
    have happ := minLen_append ps [q]
    have hq : minLen [q] = minStep none q.length := rfl
    rw [happ, hq]
    rcases hl : q.length with _ | l
    · -- q has no length
      have : optMin (minLen ps) (minStep none none) = minLen ps := by
        cases minLen ps <;> rfl
      rw [this]
      cases hm : minLen ps with
      | none =>
        rw [hm] at ih
        intro p hp
        simp only [List.mem_append, List.mem_singleton] at hp
        rcases hp with hp | rfl
        · exact ih p hp
        · rw [hl]; rfl
      | some m =>
        rw [hm] at ih
        obtain ⟨h0, ⟨p, hp, hpe⟩, hmin⟩ := ih
        refine ⟨h0, ⟨p, by simp [hp], hpe⟩, ?_⟩
        intro p' hp' l' hl' hpos
        simp only [List.mem_append, List.mem_singleton] at hp'
        rcases hp' with hp' | rfl
        · exact hmin p' hp' l' hl' hpos
        · rw [hl] at hl'; cases hl'
    · cases l with
      | zero =>
        have : optMin (minLen ps) (minStep none (some 0)) = minLen ps := by
          cases minLen ps <;> rfl
        rw [this]
        cases hm : minLen ps with
        | none =>
          rw [hm] at ih
          intro p hp
          simp only [List.mem_append, List.mem_singleton] at hp
          rcases hp with hp | rfl
          · exact ih p hp
          · rw [hl]; rfl
        | some m =>
          rw [hm] at ih
          obtain ⟨h0, ⟨p, hp, hpe⟩, hmin⟩ := ih
          refine ⟨h0, ⟨p, by simp [hp], hpe⟩, ?_⟩
          intro p' hp' l' hl' hpos
          simp only [List.mem_append, List.mem_singleton] at hp'
          rcases hp' with hp' | rfl
          · exact hmin p' hp' l' hl' hpos
          · rw [hl] at hl'; cases hl'; omega
      | succ l =>
        have hstep : minStep none (some (l + 1)) = some (l + 1) := rfl
        rw [hstep]
        cases hm : minLen ps with
        | none =>
          rw [hm] at ih
          show 0 < l + 1 ∧ _
          refine ⟨by omega, ⟨q, by simp, hl⟩, ?_⟩
          intro p' hp' l' hl' hpos
          simp only [List.mem_append, List.mem_singleton] at hp'
          rcases hp' with hp' | rfl
          · have := ih p' hp'
            rw [hl'] at this
            cases l' with
            | zero => omega
            | succ n => simp [truthy] at this
          · rw [hl] at hl'; cases hl'; omega
        | some m =>
          rw [hm] at ih
          obtain ⟨h0, ⟨p, hp, hpe⟩, hmin⟩ := ih
          show 0 < min m (l + 1) ∧ _
          refine ⟨by omega, ?_, ?_⟩
          · by_cases hle : m ≤ l + 1
            · exact ⟨p, by simp [hp], by rw [hpe, Nat.min_eq_left hle]⟩
            · exact ⟨q, by simp, by rw [hl, Nat.min_eq_right (by omega)]⟩
          · intro p' hp' l' hl' hpos
            simp only [List.mem_append, List.mem_singleton] at hp'
            rcases hp' with hp' | rfl
            · have := hmin p' hp' l' hl' hpos; omega
            · rw [hl] at hl'; cases hl'; omega

set_option maxRecDepth 20000 in
theorem lengthToByte_le_255 (l : Nat) : lengthToByte (some l) ≤ 255 := by
  unfold lengthToByte
  simp only
  split
  · omega
  · next h =>
    have hsplit : lengthByteCache = lengthByteCache.take 255 ++ [106374] := by decide +kernel
    rw [hsplit, List.countP_append]
    have h1 : (lengthByteCache.take 255).countP (· < l) ≤ (lengthByteCache.take 255).length :=
      List.countP_le_length
    have h2 : (lengthByteCache.take 255).length = 255 := by decide +kernel
    have h3 : List.countP (· < l) [106374] = 0 := by
      simp only [List.countP_cons, List.countP_nil]; simp; omega
    omega

/-- `length_to_byte` is monotone. -/
theorem lengthToByte_mono (a b : Nat) (h : a ≤ b) : lengthToByte (some a) ≤ lengthToByte (some b) := by
  by_cases hb : b ≥ 106374
  · have : lengthToByte (some b) = 255 := by simp [lengthToByte, hb]
    rw [this]; exact lengthToByte_le_255 a
  · have ha : ¬ a ≥ 106374 := by omega
    simp only [lengthToByte, ha, hb, if_false]
    apply List.countP_mono_left
    intro x _ hx
    simp only [decide_eq_true_eq] at hx ⊢
    omega

end WM.Codec
