import WM.Model.ParserTag
/-!
Facts about the model of `QueryParser.tag()`: it returns (no exception) when every tagger moves the
cursor forward, the character ranges of the nodes it returns tile the query string, and every
node is either an interstitial `WordNode` or the answer of the first matching tagger at the place
where it stands.
-/
namespace WM.Parser

/-- consecutive non-empty character ranges from `a` to `b` -/
def Tiles : Nat → List Tagged → Nat → Prop
  | a, [], b => a = b
  | a, x :: rest, b => x.startchar = a ∧ x.startchar < x.endchar ∧ Tiles x.endchar rest b

theorem Tiles_append {a m b : Nat} {l r : List Tagged} (hl : Tiles a l m) (hr : Tiles m r b) :
    Tiles a (l ++ r) b := by
  induction l generalizing a with
  | nil => simp only [Tiles] at hl; subst hl; exact hr
  | cons x t ih => exact ⟨hl.1, hl.2.1, ih hl.2.2⟩

theorem Tiles_single (x : Tagged) (h : x.startchar < x.endchar) : Tiles x.startchar [x] x.endchar :=
  ⟨rfl, h, rfl⟩

/-- where a node of the tagged list comes from -/
def FromTag (tgs : List Tagger) (text : List QChar) (x : Tagged) : Prop :=
  x = inter text x.startchar x.endchar ∨
  ∃ h, firstHit tgs text x.startchar = some h ∧ x = ⟨h.node, x.startchar, h.endchar⟩

/-- the tagger's matches end inside the string (true of every regular-expression match; a
    hypothesis only for the taggers that are not modelled) -/
def Tagger.Bounded (text : List QChar) : Tagger → Prop
  | .ext f => ∀ p h, f p = some h → h.endchar ≤ text.length
  | _ => True

/-- the tagger's matches are not empty -/
def Tagger.Forward : Tagger → Prop
  | .ext f => ∀ p h, f p = some h → p < h.endchar
  | .op lit .. => lit ≠ []
  | _ => True

theorem spaceRun_le (l : List QChar) : spaceRun l ≤ l.length := by
  induction l with
  | nil => simp [spaceRun]
  | cons c t ih => simp only [spaceRun]; split <;> simp <;> omega

theorem codeAt_lt {text : List QChar} {i c : Nat} (h : codeAt text i = some c) : i < text.length := by
  unfold codeAt at h
  rcases Nat.lt_or_ge i text.length with h' | h'
  · exact h'
  · rw [List.getElem?_eq_none h'] at h; cases h

theorem spaceAt_lt {text : List QChar} {i : Nat} (h : spaceAt text i = true) : i < text.length := by
  unfold spaceAt at h
  rcases Nat.lt_or_ge i text.length with h' | h'
  · exact h'
  · rw [List.getElem?_eq_none h'] at h; cases h

theorem matchAt_le {text : List QChar} {pos : Nat} {t : Tagger} {h : TagHit} (hb : t.Bounded text)
    (hm : t.matchAt text pos = some h) : h.endchar ≤ text.length := by
  cases t with
  | opn =>
    simp only [Tagger.matchAt] at hm
    split at hm
    · next hc => injection hm with hm; subst hm; have := codeAt_lt (by simpa using hc); simp only; omega
    · cases hm
  | cls =>
    simp only [Tagger.matchAt] at hm
    split at hm
    · next hc => injection hm with hm; subst hm; have := codeAt_lt (by simpa using hc); simp only; omega
    · cases hm
  | ws =>
    simp only [Tagger.matchAt] at hm
    split at hm
    · injection hm with hm; subst hm
      have := spaceRun_le (text.drop pos)
      simp only [List.length_drop] at this
      simp only; omega
    · cases hm
  | op lit a p t g la =>
    simp only [Tagger.matchAt] at hm
    split at hm
    · next hc =>
      injection hm with hm; subst hm
      simp only [Bool.and_eq_true] at hc
      have := spaceAt_lt hc.2
      simp only; omega
    · cases hm
  | ext f => exact hb pos h hm

theorem matchAt_forward {text : List QChar} {pos : Nat} {t : Tagger} {h : TagHit} (hf : t.Forward)
    (hm : t.matchAt text pos = some h) : pos < h.endchar := by
  cases t with
  | opn =>
    simp only [Tagger.matchAt] at hm
    split at hm
    · injection hm with hm; subst hm; simp
    · cases hm
  | cls =>
    simp only [Tagger.matchAt] at hm
    split at hm
    · injection hm with hm; subst hm; simp
    · cases hm
  | ws =>
    simp only [Tagger.matchAt] at hm
    split at hm
    · injection hm with hm; subst hm; simp only; omega
    · cases hm
  | op lit a p t g la =>
    simp only [Tagger.matchAt] at hm
    split at hm
    · injection hm with hm; subst hm
      have : 0 < lit.length := by
        cases lit with
        | nil => exact absurd rfl hf
        | cons _ _ => simp
      simp only; omega
    · cases hm
  | ext f => exact hf pos h hm

theorem firstHit_mem {tgs : List Tagger} {text : List QChar} {pos : Nat} {h : TagHit}
    (hm : firstHit tgs text pos = some h) : ∃ t ∈ tgs, t.matchAt text pos = some h := by
  induction tgs with
  | nil => cases hm
  | cons t rest ih =>
    simp only [firstHit] at hm
    split at hm
    · next h' he => injection hm with hm; subst hm; exact ⟨t, by simp, he⟩
    · obtain ⟨t', ht', he⟩ := ih hm
      exact ⟨t', by simp [ht'], he⟩

theorem inter_span (text : List QChar) (a b : Nat) : (inter text a b).startchar = a ∧ (inter text a b).endchar = b :=
  ⟨rfl, rfl⟩

/-- the loop invariant: what has been emitted tiles `[p0, prev)`, and whatever the loop returns
    tiles `[p0, len(text))` -/
theorem tagLoop_spec (tgs : List Tagger) (text : List QChar) (hb : ∀ t ∈ tgs, t.Bounded text)
    (pos prev : Nat) (stack out : List Tagged) (p0 : Nat)
    (hinv : Tiles p0 stack prev) (hpp : prev ≤ pos) (hpl : prev ≤ text.length)
    (hs : ∀ x ∈ stack, FromTag tgs text x)
    (h : tagLoop tgs text pos prev stack = .ok out) :
    Tiles p0 out text.length ∧ ∀ x ∈ out, FromTag tgs text x := by
  fun_induction tagLoop tgs text pos prev stack with
  | case1 pos prev stack hlt hit hfh hle => cases h
  | case2 pos prev stack hlt hit hfh hgt stack1 ih =>
    obtain ⟨t, ht, hm⟩ := firstHit_mem hfh
    have hend := matchAt_le (hb t ht) hm
    have h1 : Tiles p0 stack1 pos ∧ ∀ x ∈ stack1, FromTag tgs text x := by
      show Tiles p0 (if prev < pos then stack ++ [inter text prev pos] else stack) pos ∧
        ∀ x ∈ (if prev < pos then stack ++ [inter text prev pos] else stack), FromTag tgs text x
      split
      · next hlt' =>
        refine ⟨Tiles_append hinv ⟨rfl, hlt', rfl⟩, ?_⟩
        intro x hx
        simp only [List.mem_append, List.mem_singleton] at hx
        rcases hx with hx | hx
        · exact hs x hx
        · subst hx; exact Or.inl rfl
      · next hge =>
        have : prev = pos := by omega
        subst this
        exact ⟨hinv, hs⟩
    apply ih _ _ _ _ h
    · exact Tiles_append h1.1 ⟨rfl, by simp only; omega, rfl⟩
    · split <;> omega
    · exact hend
    · intro x hx
      simp only [List.mem_append, List.mem_singleton] at hx
      rcases hx with hx | hx
      · exact h1.2 x hx
      · subst hx; exact Or.inr ⟨hit, hfh, rfl⟩
  | case3 pos prev stack hlt hfh ih =>
    exact ih hinv (by omega) hpl hs h
  | case4 pos prev stack hge =>
    injection h with h
    subst h
    split
    · next hlt' =>
      refine ⟨Tiles_append hinv ⟨rfl, hlt', rfl⟩, ?_⟩
      intro x hx
      simp only [List.mem_append, List.mem_singleton] at hx
      rcases hx with hx | hx
      · exact hs x hx
      · subst hx; exact Or.inl rfl
    · next hge' =>
      have : prev = text.length := by omega
      subst this
      exact ⟨hinv, hs⟩

/-- the only exception the loop can raise is the "did not move cursor forward" one, and it cannot
    when every tagger's matches are non-empty -/
theorem tagLoop_total (tgs : List Tagger) (text : List QChar) (hf : ∀ t ∈ tgs, t.Forward)
    (pos prev : Nat) (stack : List Tagged) : ∃ out, tagLoop tgs text pos prev stack = .ok out := by
  fun_induction tagLoop tgs text pos prev stack with
  | case1 pos prev stack hlt hit hfh hle =>
    obtain ⟨t, ht, hm⟩ := firstHit_mem hfh
    have := matchAt_forward (hf t ht) hm
    omega
  | case2 pos prev stack hlt hit hfh hgt stack1 ih => exact ih
  | case3 pos prev stack hlt hfh ih => exact ih
  | case4 pos prev stack hge => exact ⟨_, rfl⟩

theorem tagLoop_err (tgs : List Tagger) (text : List QChar) (pos prev : Nat) (stack : List Tagged) (e : Err)
    (h : tagLoop tgs text pos prev stack = .error e) : e = .other := by
  fun_induction tagLoop tgs text pos prev stack with
  | case1 pos prev stack hlt hit hfh hle => injection h with h; exact h.symm
  | case2 pos prev stack hlt hit hfh hgt stack1 ih => exact ih h
  | case3 pos prev stack hlt hfh ih => exact ih h
  | case4 pos prev stack hge => cases h

/-- concatenation of the source ranges -/
def sourceOf (text : List QChar) : List Tagged → List QChar
  | [] => []
  | x :: rest => (text.drop x.startchar).take (x.endchar - x.startchar) ++ sourceOf text rest

theorem Tiles_source (text : List QChar) (a b : Nat) (l : List Tagged) (h : Tiles a l b) (hb : b ≤ text.length) :
    a ≤ b ∧ sourceOf text l = (text.drop a).take (b - a) := by
  induction l generalizing a with
  | nil => simp only [Tiles] at h; subst h; simp [sourceOf]
  | cons x t ih =>
    obtain ⟨h1, h2, h3⟩ := h
    obtain ⟨hle, hsrc⟩ := ih _ h3
    subst h1
    refine ⟨by omega, ?_⟩
    simp only [sourceOf, hsrc]
    have e1 : b - x.startchar = (x.endchar - x.startchar) + (b - x.endchar) := by omega
    rw [e1, List.take_add, List.drop_drop]
    congr 3
    omega

end WM.Parser
