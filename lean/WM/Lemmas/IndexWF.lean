import WM.Lemmas.IndexRenumber
/-! Well-formedness of segments / writers / TOCs and its preservation by every call. -/
namespace WM.Index
open WM.Dict

/-- What every segment written by the model satisfies: the deleted set is a set of valid numbers,
    the term index holds exactly the postings of the per-document data, sorted. -/
structure Seg.WF (s : Seg) : Prop where
  delNodup : s.deleted.Nodup
  delRange : ∀ n ∈ s.deleted, n < s.docCountAll
  posts : s.posts.Perm (allPostings s.docs)
  sorted : s.posts.Pairwise (fun a b => Posting.le a b = true)

structure Writer.WF (w : Writer) : Prop where
  segs : ∀ s ∈ w.segs, s.WF
  pool : w.pool.Perm (allPostings w.ndocs)

def Toc.WF (t : Toc) : Prop := ∀ s ∈ t.segs, s.WF

theorem Toc.writer_wf (t : Toc) (h : t.WF) : t.writer.WF :=
  ⟨h, by simp [Toc.writer, allPostings]⟩

theorem Seg.deleteDocument_wf (s : Seg) (l : Nat) (b : Bool) (h : s.WF) (hl : l < s.docCountAll) :
    (s.deleteDocument l b).WF := by
  refine ⟨?_, ?_, by rw [Seg.deleteDocument_posts, Seg.deleteDocument_docs]; exact h.posts,
          by rw [Seg.deleteDocument_posts]; exact h.sorted⟩
  · unfold Seg.deleteDocument
    split
    · split
      · exact h.delNodup
      · next hc =>
        simp only [List.nodup_append]
        refine ⟨h.delNodup, by simp, ?_⟩
        intro a ha b hb
        simp only [List.mem_singleton] at hb
        subst hb
        intro he; subst he
        exact hc (by simpa using ha)
    · exact h.delNodup.erase _
  · intro n hn
    rw [Seg.deleteDocument_count]
    unfold Seg.deleteDocument at hn
    split at hn
    · split at hn
      · exact h.delRange n hn
      · simp only [List.mem_append, List.mem_singleton] at hn
        rcases hn with hn | rfl
        · exact h.delRange n hn
        · exact hl
    · exact h.delRange n (List.mem_of_mem_erase hn)

theorem mem_modify {α} (l : List α) (i : Nat) (f : α → α) (x : α) (h : x ∈ l.modify i f) :
    x ∈ l ∨ ∃ a, l[i]? = some a ∧ x = f a := by
  induction l generalizing i with
  | nil => simp at h
  | cons a r ih =>
    cases i with
    | zero =>
      simp only [List.modify_cons, if_true, List.mem_cons] at h
      rcases h with rfl | h
      · right; exact ⟨a, by simp, rfl⟩
      · left; simp [h]
    | succ i =>
      simp only [List.modify_succ_cons, List.mem_cons] at h
      rcases h with rfl | h
      · left; simp
      · rcases ih i h with h' | ⟨b, hb, rfl⟩
        · left; simp [h']
        · right; exact ⟨b, by simpa using hb, rfl⟩

/-- `delete_document(n, delete)` for a valid number, in closed form. -/
theorem Writer.deleteDocument_segs (w : Writer) (n : Nat) (b : Bool) (h : n < docCountAllSegs w.segs) :
    w.deleteDocument n b = .ok { w with segs := w.segs.modify (locate w.segs n).1
                                          (fun s => s.deleteDocument (locate w.segs n).2 b) } := by
  obtain ⟨hi, hoff, hle⟩ := documentSegment_eq w.segs n h
  obtain ⟨_, s, hs, _⟩ := locate_fst_lt w.segs n h
  unfold Writer.deleteDocument
  have hn : ¬ n ≥ docCountAllSegs w.segs := by omega
  have e : n - (n - (locate w.segs n).2) = (locate w.segs n).2 := by omega
  simp only [hn, if_false, hi, hoff, hs, e]

theorem Writer.deleteDocument_wf (w : Writer) (n : Nat) (b : Bool) (w' : Writer) (hwf : w.WF)
    (h : w.deleteDocument n b = .ok w') : w'.WF := by
  by_cases hn : n < docCountAllSegs w.segs
  · rw [Writer.deleteDocument_segs w n b hn] at h
    simp only [Except.ok.injEq] at h
    subst h
    refine ⟨?_, hwf.pool⟩
    intro s hs
    rcases mem_modify _ _ _ _ hs with hs | ⟨a, ha, rfl⟩
    · exact hwf.segs s hs
    · obtain ⟨_, s', hs', hlt⟩ := locate_fst_lt w.segs n hn
      rw [hs'] at ha
      simp only [Option.some.injEq] at ha
      subst ha
      exact Seg.deleteDocument_wf _ _ _ (hwf.segs _ (List.mem_of_getElem? hs')) hlt
  · rw [Writer.deleteDocument_err w n b hn] at h
    cases h

theorem Writer.deleteMany_wf (w : Writer) (ns : List Nat) (w' : Writer) (hwf : w.WF)
    (h : w.deleteMany ns = .ok w') : w'.WF := by
  induction ns generalizing w with
  | nil =>
    simp only [Writer.deleteMany, List.foldlM_nil, pure, Except.pure, Except.ok.injEq] at h
    subst h; exact hwf
  | cons n r ih =>
    simp only [Writer.deleteMany, List.foldlM_cons, bind, Except.bind] at h
    cases h1 : w.deleteDocument n with
    | error e => rw [h1] at h; cases h
    | ok w1 =>
      rw [h1] at h
      exact ih w1 (Writer.deleteDocument_wf w n true w1 hwf h1) h

theorem Writer.addDocument_wf (w : Writer) (d : DocRec) (w' : Writer) (hwf : w.WF)
    (h : w.addDocument d = .ok w') : w'.WF := by
  unfold Writer.addDocument at h
  split at h
  · cases h
  · simp only [Except.ok.injEq] at h
    subst h
    refine ⟨hwf.segs, ?_⟩
    simp only
    rw [allPostings_append, allPostings_singleton, Nat.zero_add]
    exact hwf.pool.append_right _

theorem Writer.addReader_ok (w : Writer) (s : Seg) (hwf : w.WF) (hs : s.WF) :
    ∃ w', w.addReader s = .ok w' ∧ w'.WF := by
  obtain ⟨ps, h1, h2⟩ := livePosts_renumber w.schema s w.ndocs.length hs.posts
  refine ⟨{ w with ndocs := w.ndocs ++ s.liveDocs.map (restrict w.schema), pool := w.pool ++ ps, added := true },
    by unfold Writer.addReader; simp only [h1], hwf.segs, ?_⟩
  show (w.pool ++ ps).Perm (allPostings (w.ndocs ++ s.liveDocs.map (restrict w.schema)))
  rw [allPostings_append, Nat.zero_add]
  exact hwf.pool.append h2

theorem Writer.addReaders_ok (w : Writer) (ss : List Seg) (hwf : w.WF) (hs : ∀ s ∈ ss, s.WF) :
    ∃ w', w.addReaders ss = .ok w' ∧ w'.WF := by
  induction ss generalizing w with
  | nil => exact ⟨w, rfl, hwf⟩
  | cons s r ih =>
    obtain ⟨w1, h1, wf1⟩ := Writer.addReader_ok w s hwf (hs s (by simp))
    obtain ⟨w2, h2, wf2⟩ := ih w1 wf1 (fun x hx => hs x (by simp [hx]))
    refine ⟨w2, ?_, wf2⟩
    simp only [Writer.addReaders, List.foldlM_cons, h1, bind, Except.bind] at h2 ⊢
    exact h2

theorem Writer.finalizeSegment_wf (w : Writer) (hwf : w.WF) : w.finalizeSegment.WF where
  delNodup := by simp [Writer.finalizeSegment]
  delRange := by simp [Writer.finalizeSegment]
  posts := (List.mergeSort_perm _ _).trans hwf.pool
  sorted := mergeSort_sorted _

/-- `commit` never raises on a well-formed writer (for a policy that picks among the existing
    segments) and writes a well-formed TOC. -/
theorem Writer.commitPlan_ok (w : Writer) (plan : Plan) (hwf : w.WF)
    (hsub : ∀ s, s ∈ (plan w.segs).1 ∨ s ∈ (plan w.segs).2 → s ∈ w.segs) :
    ∃ t', w.commitPlan plan = .ok t' ∧ t'.WF := by
  obtain ⟨w1, h1, wf1⟩ := Writer.addReaders_ok w (plan w.segs).1 hwf
    (fun s hs => hwf.segs s (hsub s (Or.inl hs)))
  obtain ⟨_, b2, _, _, _⟩ := Writer.addReaders_fields w _ w1 h1
  refine ⟨_, by unfold Writer.commitPlan; simp only [h1, Except.map]; rfl, ?_⟩
  intro s hs
  simp only at hs
  split at hs
  · simp only [List.mem_append, List.mem_singleton] at hs
    rcases hs with hs | rfl
    · exact hwf.segs s (hsub s (Or.inr hs))
    · exact Writer.finalizeSegment_wf w1 wf1
  · exact hwf.segs s (hsub s (Or.inr hs))

theorem PlanOK.sub {plan : Plan} (h : PlanOK plan) (segs : List Seg) :
    ∀ s, s ∈ (plan segs).1 ∨ s ∈ (plan segs).2 → s ∈ segs := by
  intro s hs
  exact (h segs).mem_iff.mp (by simpa using hs)

theorem planClear_sub (segs : List Seg) : ∀ s, s ∈ (planClear segs).1 ∨ s ∈ (planClear segs).2 → s ∈ segs := by
  intro s hs; simp [planClear] at hs

end WM.Index
