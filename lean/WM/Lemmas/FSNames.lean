import WM.Model.FS
/-! String-level facts about the TOC / segment name patterns (`index.py`). -/
namespace WM.FS

theorem stripPrefix_append (p s : Name) : stripPrefix p (p ++ s) = some s := by
  induction p with
  | nil => cases s <;> rfl
  | cons a p ih => simp [stripPrefix, ih]

theorem stripPrefix_mismatch (p s t : Name) (a b : Char) (h : a ≠ b) :
    stripPrefix (p ++ a :: t) (p ++ b :: s) = none := by
  induction p with
  | nil => simp [stripPrefix, h]
  | cons c p ih => simp [stripPrefix, ih]

/-! ### decimal digits -/

theorem isDigit_digitChar (d : Nat) (h : d < 10) : isDigit (Nat.digitChar d) = true := by
  have : d = 0 ∨ d = 1 ∨ d = 2 ∨ d = 3 ∨ d = 4 ∨ d = 5 ∨ d = 6 ∨ d = 7 ∨ d = 8 ∨ d = 9 := by omega
  rcases this with h | h | h | h | h | h | h | h | h | h <;> subst h <;> decide

theorem toNat_digitChar (d : Nat) (h : d < 10) : (Nat.digitChar d).toNat - 48 = d := by
  have : d = 0 ∨ d = 1 ∨ d = 2 ∨ d = 3 ∨ d = 4 ∨ d = 5 ∨ d = 6 ∨ d = 7 ∨ d = 8 ∨ d = 9 := by omega
  rcases this with h | h | h | h | h | h | h | h | h | h <;> subst h <;> decide

theorem digitsVal_snoc (l : List Char) (x : Nat) (c : Char) :
    digitsVal x (l ++ [c]) = digitsVal x l * 10 + (c.toNat - 48) := by
  induction l generalizing x with
  | nil => rfl
  | cons y l ihl => exact ihl (x * 10 + (y.toNat - 48))

theorem toDigitsCore_spec (fuel n : Nat) (hf : n < fuel) (acc : List Char) :
    ∃ ds, Nat.toDigitsCore 10 fuel n acc = ds ++ acc ∧ ds ≠ [] ∧ (∀ c ∈ ds, isDigit c = true) ∧
      ∀ a, digitsVal a ds = a * 10 ^ ds.length + n := by
  induction fuel generalizing n acc with
  | zero => omega
  | succ fuel ih =>
    have e1 := isDigit_digitChar (n % 10) (by omega)
    have e2 := toNat_digitChar (n % 10) (by omega)
    simp only [Nat.toDigitsCore]
    generalize Nat.digitChar (n % 10) = c at e1 e2
    split
    · next h =>
      refine ⟨[c], rfl, by simp, ?_, ?_⟩
      · intro x hx; simp at hx; subst hx; exact e1
      · intro a
        show a * 10 + (c.toNat - 48) = a * 10 ^ 1 + n
        rw [e2]; omega
    · next h =>
      obtain ⟨ds, h1, h2, h3, h4⟩ := ih (n / 10) (by omega) (c :: acc)
      refine ⟨ds ++ [c], ?_, by simp, ?_, ?_⟩
      · rw [h1]; simp
      · intro x hx
        simp at hx
        rcases hx with hx | hx
        · exact h3 x hx
        · subst hx; exact e1
      · intro a
        rw [digitsVal_snoc, h4, e2]
        have := Nat.div_add_mod n 10
        simp only [List.length_append, List.length_cons, List.length_nil, Nat.pow_succ]
        rw [Nat.add_mul, Nat.mul_assoc]
        omega

theorem natDigitsAux_spec (n : Nat) (acc : List Char) :
    ∃ ds, Nat.toDigitsCore 10 (n + 1) n acc = ds ++ acc ∧ ds ≠ [] ∧ (∀ c ∈ ds, isDigit c = true) ∧
      ∀ a, digitsVal a ds = a * 10 ^ ds.length + n :=
  toDigitsCore_spec (n + 1) n (by omega) acc

theorem natDigits_ne_nil (n : Nat) : natDigits n ≠ [] := by
  obtain ⟨ds, h1, h2, _, _⟩ := natDigitsAux_spec n []
  simp [natDigits, Nat.toDigits, h1, h2]

theorem natDigits_digits (n : Nat) : ∀ c ∈ natDigits n, isDigit c = true := by
  obtain ⟨ds, h1, _, h3, _⟩ := natDigitsAux_spec n []
  simpa [natDigits, Nat.toDigits, h1] using h3

theorem digitsVal_natDigits (n : Nat) : digitsVal 0 (natDigits n) = n := by
  obtain ⟨ds, h1, _, _, h4⟩ := natDigitsAux_spec n []
  simp [natDigits, Nat.toDigits, h1, h4]

theorem takeWhile_digits (ds rest : List Char) (c : Char) (hd : ∀ x ∈ ds, isDigit x = true)
    (hc : isDigit c = false) :
    (ds ++ c :: rest).takeWhile isDigit = ds ∧ (ds ++ c :: rest).dropWhile isDigit = c :: rest := by
  induction ds with
  | nil => simp [hc]
  | cons d ds ih =>
    have hd' := hd d (by simp)
    have := ih (fun x hx => hd x (by simp [hx]))
    simp [hd', this]

/-- `TOC._pattern(ix).match(TOC._filename(ix, g))` succeeds with `int(group(1)) = g`. -/
theorem tocGen_tocName (ix : Name) (g : Nat) : tocGen ix (tocName ix g) = some g := by
  unfold tocGen tocName
  have h0 : ('_' :: (ix ++ '_' :: (natDigits g ++ ['.', 't', 'o', 'c'])))
      = ('_' :: (ix ++ ['_'])) ++ (natDigits g ++ ['.', 't', 'o', 'c']) := by simp
  rw [h0, stripPrefix_append]
  obtain ⟨h1, h2⟩ := takeWhile_digits (natDigits g) ['t', 'o', 'c'] '.' (natDigits_digits g) (by decide)
  simp only [h1, h2]
  have hne := natDigits_ne_nil g
  cases hrev : (natDigits g).reverse with
  | nil => simp at hrev; exact absurd hrev hne
  | cons d ds =>
    have : (d :: ds).reverse = natDigits g := by rw [← hrev]; simp
    simp [tocBacktrack, tocTail, this, digitsVal_natDigits]

/-- `tocTail` fails on anything that continues after `.toc` with a dot. -/
theorem tocTail_digits_dot (ds t : List Char) (hd : ∀ x ∈ ds, isDigit x = true) :
    tocTail (ds ++ '.' :: 't' :: 'o' :: 'c' :: '.' :: t) = false := by
  match ds, hd with
  | [], _ => cases t <;> simp [tocTail]
  | [d], _ => simp [tocTail]
  | d :: e :: ds, hd =>
    have he : isDigit e = true := hd e (by simp)
    have : e ≠ 't' := by intro h; subst h; exact absurd he (by decide)
    cases ds with
    | nil => simp [tocTail, this]
    | cons f ds =>
      simp only [List.cons_append]
      unfold tocTail
      split <;> simp_all

theorem tocBacktrack_none (rds ds t : List Char) (h1 : ∀ x ∈ rds, isDigit x = true)
    (h2 : ∀ x ∈ ds, isDigit x = true) :
    tocBacktrack rds (ds ++ '.' :: 't' :: 'o' :: 'c' :: '.' :: t) = none := by
  induction rds generalizing ds with
  | nil => rfl
  | cons d rds ih =>
    unfold tocBacktrack
    rw [tocTail_digits_dot ds t h2]
    simp only [Bool.false_eq_true, if_false]
    have := ih (d :: ds) (fun x hx => h1 x (by simp [hx]))
      (fun x hx => by simp at hx; rcases hx with rfl | hx; exact h1 _ (by simp); exact h2 x hx)
    simpa using this

/-- The temp name `"%s.%s" % (tocfilename, time())` used by `TOC.write` is never matched by the
    TOC pattern, whatever follows the dot. -/
theorem tocGen_tmp (ix : Name) (g : Nat) (t : List Char) :
    tocGen ix (tocName ix g ++ '.' :: t) = none := by
  unfold tocGen tocName
  have h0 : ('_' :: (ix ++ '_' :: (natDigits g ++ ['.', 't', 'o', 'c']))) ++ '.' :: t
      = ('_' :: (ix ++ ['_'])) ++ (natDigits g ++ '.' :: 't' :: 'o' :: 'c' :: '.' :: t) := by simp
  rw [h0, stripPrefix_append]
  obtain ⟨h1, h2⟩ := takeWhile_digits (natDigits g) ('t' :: 'o' :: 'c' :: '.' :: t) '.'
    (natDigits_digits g) (by decide)
  simp only [h1, h2]
  have := tocBacktrack_none (natDigits g).reverse [] t
    (fun x hx => natDigits_digits g x (by simpa using hx)) (by simp)
  simp only [List.nil_append] at this
  rw [this]

end WM.FS
