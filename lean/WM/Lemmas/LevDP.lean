import WM.Lemmas.Edit
import WM.Model.Lev
/-! The row-wise DP of `support/levenshtein.py` computes the specification distance. -/
namespace WM.Lev
open WM.Edit

/-- Entry `(i, j)` of the DP table: distance between the prefixes of length `i` and `j`. -/
def D (tr : Bool) (s1 s2 : List Nat) (i j : Nat) : Nat := ed tr (s1.take i) (s2.take j)

theorem D_zero_right (tr : Bool) (s1 s2 : List Nat) (i : Nat) (hi : i ≤ s1.length) :
    D tr s1 s2 i 0 = i := by
  simp [D, Nat.min_eq_left hi]

theorem D_zero_left (tr : Bool) (s1 s2 : List Nat) (j : Nat) (hj : j ≤ s2.length) :
    D tr s1 s2 0 j = j := by
  simp [D, Nat.min_eq_left hj]

theorem D_full (tr : Bool) (s1 s2 : List Nat) : D tr s1 s2 s1.length s2.length = ed tr s1 s2 := by
  simp [D]

/-- The three classical alternatives in table form. -/
def Dbase (tr : Bool) (s1 s2 : List Nat) (x y c1 c2 : Nat) : Nat :=
  min (D tr s1 s2 x (y + 1) + 1) (min (D tr s1 s2 (x + 1) y + 1) (D tr s1 s2 x y + neq c1 c2))

theorem snocBase_eq_Dbase (tr : Bool) (s1 s2 : List Nat) (x y : Nat) (hx : x < s1.length)
    (hy : y < s2.length) :
    snocBase tr s1[x] s2[y] (s1.take x) (s2.take y) = Dbase tr s1 s2 x y s1[x] s2[y] := by
  unfold snocBase Dbase D
  rw [List.take_succ_eq_append_getElem hx, List.take_succ_eq_append_getElem hy]

/-- The table recurrence, exactly in the form the Python code evaluates it (including the
    redundant test `seq1[x] != seq2[y]` of the transposition block). -/
theorem D_succ_succ (tr : Bool) (s1 s2 : List Nat) (x y : Nat) (hx : x < s1.length)
    (hy : y < s2.length) :
    D tr s1 s2 (x + 1) (y + 1) =
      if tr = true ∧ 0 < x ∧ 0 < y ∧ s1[x] = s2[y - 1]! ∧ s1[x - 1]! = s2[y] ∧ s1[x] ≠ s2[y] then
        min (Dbase tr s1 s2 x y s1[x] s2[y]) (D tr s1 s2 (x - 1) (y - 1) + 1)
      else Dbase tr s1 s2 x y s1[x] s2[y] := by
  have e1 : D tr s1 s2 (x + 1) (y + 1) = ed tr (s1.take x ++ [s1[x]]) (s2.take y ++ [s2[y]]) := by
    unfold D; rw [List.take_succ_eq_append_getElem hx, List.take_succ_eq_append_getElem hy]
  by_cases hsw : tr = true ∧ 0 < x ∧ 0 < y ∧ s1[x] = s2[y - 1]! ∧ s1[x - 1]! = s2[y]
  · obtain ⟨ht, hx0, hy0, h1, h2⟩ := hsw
    obtain ⟨x', rfl⟩ : ∃ x', x = x' + 1 := ⟨x - 1, by omega⟩
    obtain ⟨y', rfl⟩ : ∃ y', y = y' + 1 := ⟨y - 1, by omega⟩
    have hx' : x' < s1.length := by omega
    have hy' : y' < s2.length := by omega
    simp only [Nat.add_sub_cancel] at h1 h2 ⊢
    rw [getElem!_pos s2 y' hy'] at h1
    rw [getElem!_pos s1 x' hx'] at h2
    have e2 : ed tr (s1.take (x' + 1) ++ [s1[x' + 1]]) (s2.take (y' + 1) ++ [s2[y' + 1]]) =
        min (Dbase tr s1 s2 (x' + 1) (y' + 1) s1[x' + 1] s2[y' + 1]) (D tr s1 s2 x' y' + 1) := by
      have := ed_snoc_snoc_swap tr s1[x' + 1] s2[y' + 1] (s1.take x') (s2.take y') ht
      rw [List.take_succ_eq_append_getElem hx', List.take_succ_eq_append_getElem hy', h2, ← h1]
      simp only [List.append_assoc, List.cons_append, List.nil_append]
      rw [this]
      congr 1
      have := snocBase_eq_Dbase tr s1 s2 (x' + 1) (y' + 1) hx hy
      rw [List.take_succ_eq_append_getElem hx', List.take_succ_eq_append_getElem hy', h2, ← h1] at this
      exact this
    rw [e1, e2]
    by_cases hne : s1[x' + 1] ≠ s2[y' + 1]
    · have hc : tr = true ∧ 0 < x' + 1 ∧ 0 < y' + 1 ∧ s1[x' + 1] = s2[y']! ∧ s1[x']! = s2[y' + 1] ∧
          s1[x' + 1] ≠ s2[y' + 1] := by
        refine ⟨ht, hx0, hy0, ?_, ?_, hne⟩
        · rw [getElem!_pos s2 y' hy']; exact h1
        · rw [getElem!_pos s1 x' hx']; exact h2
      rw [if_pos hc]
    · have heq : s1[x' + 1] = s2[y' + 1] := by simpa using hne
      have : ¬ (tr = true ∧ 0 < x' + 1 ∧ 0 < y' + 1 ∧ s1[x' + 1] = s2[y']! ∧ s1[x']! = s2[y' + 1] ∧
          s1[x' + 1] ≠ s2[y' + 1]) := by
        intro h; exact h.2.2.2.2.2 heq
      rw [if_neg this]
      -- all four characters are equal: the diagonal step costs nothing
      apply Nat.min_eq_left
      have hle : D tr s1 s2 (x' + 1) (y' + 1) ≤ D tr s1 s2 x' y' + neq s1[x'] s2[y'] := by
        unfold D
        rw [List.take_succ_eq_append_getElem hx', List.take_succ_eq_append_getElem hy']
        exact ed_snoc_snoc_le tr _ _ _ _
      have hz : neq s1[x'] s2[y'] = 0 := by
        have : s1[x'] = s2[y'] := by rw [h2, ← heq, h1]
        simp [this]
      unfold Dbase
      have h3 : neq s1[x' + 1] s2[y' + 1] = 0 := by simp [heq]
      rw [h3]
      omega
  · have hnot : ¬ (tr = true ∧ 0 < x ∧ 0 < y ∧ s1[x] = s2[y - 1]! ∧ s1[x - 1]! = s2[y] ∧ s1[x] ≠ s2[y]) := by
      intro h; exact hsw ⟨h.1, h.2.1, h.2.2.1, h.2.2.2.1, h.2.2.2.2.1⟩
    rw [if_neg hnot, e1, ed_snoc_snoc_noswap, snocBase_eq_Dbase tr s1 s2 x y hx hy]
    rintro ⟨ht, a', b', ha, hb⟩
    apply hsw
    have hx0 : 0 < x := by
      rcases Nat.eq_zero_or_pos x with h | h
      · subst h; simp at ha
      · exact h
    have hy0 : 0 < y := by
      rcases Nat.eq_zero_or_pos y with h | h
      · subst h; simp at hb
      · exact h
    obtain ⟨x', rfl⟩ : ∃ x', x = x' + 1 := ⟨x - 1, by omega⟩
    obtain ⟨y', rfl⟩ : ∃ y', y = y' + 1 := ⟨y - 1, by omega⟩
    have hx' : x' < s1.length := by omega
    have hy' : y' < s2.length := by omega
    rw [List.take_succ_eq_append_getElem hx'] at ha
    rw [List.take_succ_eq_append_getElem hy'] at hb
    have ha' := List.append_inj_right' ha (by simp)
    have hb' := List.append_inj_right' hb (by simp)
    simp only [List.cons.injEq, and_true] at ha' hb'
    refine ⟨ht, hx0, hy0, ?_, ?_⟩
    · simp only [Nat.add_sub_cancel]; rw [getElem!_pos s2 y' hy']; exact hb'.symm
    · simp only [Nat.add_sub_cancel]; rw [getElem!_pos s1 x' hx']; exact ha'

/-! ### Python list indexing -/

theorem pyGet_pred_zero (r : List Nat) (n : Nat) (h : r.length = n + 1) :
    pyGet? r (((0 : Nat) : Int) - 1) = r[n]? := by
  unfold pyGet?
  have : (((0 : Nat) : Int) - 1) < 0 := by omega
  rw [if_pos this]
  have h2 : (((0 : Nat) : Int) - 1).natAbs = 1 := by omega
  rw [h2, if_pos (by omega)]
  congr 1; omega

theorem pyGet_pred_succ (r : List Nat) (j : Nat) :
    pyGet? r (((j + 1 : Nat) : Int) - 1) = r[j]? := by
  unfold pyGet?
  have : ¬ ((((j + 1 : Nat) : Int) - 1) < 0) := by omega
  rw [if_neg this]
  congr 1; omega

theorem pyGet_nat (r : List Nat) (j : Nat) : pyGet? r (j : Int) = r[j]? := by
  have := pyGet_pred_succ r j
  have e : (((j + 1 : Nat) : Int) - 1) = (j : Int) := by omega
  rwa [e] at this

/-- `r` is the Python list of row `i` up to column `y`: cell `j - 1` (index `-1` wraps around to
    the last cell) holds `D i j` for every `j ≤ y`. -/
def RowUpTo (tr : Bool) (s1 s2 : List Nat) (r : List Nat) (i y : Nat) : Prop :=
  r.length = s2.length + 1 ∧ ∀ j, j ≤ y → pyGet? r ((j : Int) - 1) = some (D tr s1 s2 i j)

/-- A complete row. -/
def IsRow (tr : Bool) (s1 s2 : List Nat) (r : List Nat) (i : Nat) : Prop :=
  RowUpTo tr s1 s2 r i s2.length

theorem rowUpTo_init (tr : Bool) (s1 s2 : List Nat) (x : Nat) (hx : x < s1.length) :
    RowUpTo tr s1 s2 (List.replicate s2.length 0 ++ [x + 1]) (x + 1) 0 := by
  refine ⟨by simp, ?_⟩
  intro j hj
  have : j = 0 := by omega
  subst this
  rw [pyGet_pred_zero _ s2.length (by simp), D_zero_right _ _ _ _ (by omega)]
  simp

theorem isRow_first (tr : Bool) (s1 s2 : List Nat) :
    IsRow tr s1 s2 ((List.range s2.length).map (· + 1) ++ [0]) 0 := by
  refine ⟨by simp, ?_⟩
  intro j hj
  rw [D_zero_left _ _ _ _ hj]
  cases j with
  | zero => rw [pyGet_pred_zero _ s2.length (by simp)]; simp
  | succ j =>
    rw [pyGet_pred_succ]
    have hj' : j < s2.length := by omega
    simp [List.getElem?_append, hj']

theorem rowUpTo_set (tr : Bool) (s1 s2 : List Nat) (r : List Nat) (i y v : Nat) (hy : y < s2.length)
    (h : RowUpTo tr s1 s2 r i y) (hv : v = D tr s1 s2 i (y + 1)) :
    RowUpTo tr s1 s2 (r.set y v) i (y + 1) := by
  obtain ⟨hl, hc⟩ := h
  refine ⟨by simp [hl], ?_⟩
  intro j hj
  cases j with
  | zero =>
    have := hc 0 (by omega)
    rw [pyGet_pred_zero _ s2.length (by simp [hl])]
    rw [pyGet_pred_zero _ s2.length hl] at this
    rw [List.getElem?_set]
    have : ¬ y = s2.length := by omega
    simp only [this, if_false]; assumption
  | succ j =>
    rw [pyGet_pred_succ, List.getElem?_set]
    by_cases hj2 : y = j
    · subst hj2
      simp [hl, hv]; omega
    · simp only [hj2, if_false]
      have := hc (j + 1) (by omega)
      rwa [pyGet_pred_succ] at this

theorem neq_as_ite (c1 c2 : Nat) : (if c1 ≠ c2 then 1 else 0) = neq c1 c2 := by
  unfold neq; by_cases h : c1 = c2 <;> simp [h]

/-- One cell of the inner loop: no IndexError, and the cell receives the table entry. -/
theorem dpCell_spec (tr : Bool) (s1 s2 : List Nat) (x y : Nat) (twoago oneago thisrow : List Nat)
    (hx : x < s1.length) (hy : y < s2.length)
    (h1 : IsRow tr s1 s2 oneago x)
    (h2 : tr = true → 0 < x → IsRow tr s1 s2 twoago (x - 1))
    (hp : RowUpTo tr s1 s2 thisrow (x + 1) y) :
    ∃ r, dpCell tr s1 s2 x twoago oneago thisrow y = some r ∧ RowUpTo tr s1 s2 r (x + 1) (y + 1) := by
  have r1 : pyGet? oneago (y : Int) = some (D tr s1 s2 x (y + 1)) := by
    have := h1.2 (y + 1) (by omega)
    rwa [pyGet_pred_succ, ← pyGet_nat] at this
  have r2 : pyGet? thisrow ((y : Int) - 1) = some (D tr s1 s2 (x + 1) y) := hp.2 y (Nat.le_refl _)
  have r3 : pyGet? oneago ((y : Int) - 1) = some (D tr s1 s2 x y) := h1.2 y (by omega)
  have c1 : s1[x]? = some s1[x] := List.getElem?_eq_getElem hx
  have c2 : s2[y]? = some s2[y] := List.getElem?_eq_getElem hy
  have hset : ∀ v, pySet? thisrow y v = some (thisrow.set y v) := by
    intro v; unfold pySet?; rw [if_pos (by rw [hp.1]; omega)]
  have hrec := D_succ_succ tr s1 s2 x y hx hy
  unfold dpCell
  simp only [r1, r2, r3, c1, c2, Option.bind_eq_bind, Option.bind_some, neq_as_ite, hset]
  by_cases hg : tr = true ∧ x > 0 ∧ y > 0
  · obtain ⟨ht, hx0, hy0⟩ := hg
    subst ht
    have c2p : s2[y - 1]? = some s2[y - 1]! := by
      rw [getElem!_pos s2 (y - 1) (by omega)]; exact List.getElem?_eq_getElem (by omega)
    have c1p : s1[x - 1]? = some s1[x - 1]! := by
      rw [getElem!_pos s1 (x - 1) (by omega)]; exact List.getElem?_eq_getElem (by omega)
    have r4 : pyGet? twoago ((y : Int) - 2) = some (D true s1 s2 (x - 1) (y - 1)) := by
      have := (h2 rfl hx0).2 (y - 1) (by omega)
      have e : (((y - 1 : Nat) : Int) - 1) = (y : Int) - 2 := by omega
      rwa [e] at this
    simp only [hx0, hy0, and_self, if_true, c2p, c1p, Option.bind_some]
    by_cases hc : s1[x] = s2[y - 1]! ∧ s1[x - 1]! = s2[y] ∧ s1[x] ≠ s2[y]
    · rw [if_pos hc]
      simp only [r4, Option.bind_some]
      refine ⟨_, rfl, rowUpTo_set true s1 s2 thisrow (x + 1) y _ hy hp ?_⟩
      rw [hrec, if_pos ⟨rfl, hx0, hy0, hc⟩]
      rfl
    · rw [if_neg hc]
      refine ⟨_, rfl, rowUpTo_set true s1 s2 thisrow (x + 1) y _ hy hp ?_⟩
      rw [hrec, if_neg (fun h => hc h.2.2.2)]
      rfl
  · have hg' : ¬ ((tr = true) ∧ x > 0 ∧ y > 0) := hg
    simp only [hg', if_false]
    refine ⟨_, rfl, rowUpTo_set tr s1 s2 thisrow (x + 1) y _ hy hp ?_⟩
    rw [hrec, if_neg (fun h => hg ⟨h.1, h.2.1, h.2.2.1⟩)]
    rfl

theorem dpInner_spec (tr : Bool) (s1 s2 : List Nat) (x : Nat) (twoago oneago : List Nat)
    (hx : x < s1.length) (h1 : IsRow tr s1 s2 oneago x)
    (h2 : tr = true → 0 < x → IsRow tr s1 s2 twoago (x - 1)) :
    ∀ (n y : Nat) (thisrow : List Nat), y + n = s2.length → RowUpTo tr s1 s2 thisrow (x + 1) y →
      ∃ r, dpInner tr s1 s2 x twoago oneago n y thisrow = some r ∧ IsRow tr s1 s2 r (x + 1) := by
  intro n
  induction n with
  | zero =>
    intro y thisrow hn hp
    have : y = s2.length := by omega
    subst this
    exact ⟨thisrow, rfl, hp⟩
  | succ n ih =>
    intro y thisrow hn hp
    obtain ⟨r, hr, hp'⟩ := dpCell_spec tr s1 s2 x y twoago oneago thisrow hx (by omega) h1 h2 hp
    obtain ⟨r', hr', hrow⟩ := ih (y + 1) r (by omega) hp'
    refine ⟨r', ?_, hrow⟩
    simp only [dpInner, hr, Option.bind_eq_bind, Option.bind_some]
    exact hr'

/-! ### The early exit is sound: row minima never decrease -/

/-- Every entry of row `i` exceeds `l`. -/
def RowAbove (tr : Bool) (s1 s2 : List Nat) (l i : Nat) : Prop :=
  ∀ j, j ≤ s2.length → l < D tr s1 s2 i j

theorem D_succ_le (tr : Bool) (s1 s2 : List Nat) (i j : Nat) (hi : i < s1.length) :
    D tr s1 s2 (i + 1) j ≤ D tr s1 s2 i j + 1 := by
  unfold D
  rw [List.take_succ_eq_append_getElem hi]
  exact ed_snoc_left_le tr _ _ _

theorem rowAbove_succ (tr : Bool) (s1 s2 : List Nat) (l i : Nat) (hi : i < s1.length)
    (h : RowAbove tr s1 s2 l i) : RowAbove tr s1 s2 l (i + 1) := by
  have hi0 : 0 < i := by
    have := h 0 (Nat.zero_le _)
    rw [D_zero_right _ _ _ _ (by omega)] at this
    omega
  have hprev : ∀ j, j ≤ s2.length → l ≤ D tr s1 s2 (i - 1) j := by
    intro j hj
    have h1 := h j hj
    have h2 := D_succ_le tr s1 s2 (i - 1) j (by omega)
    have e : i - 1 + 1 = i := by omega
    rw [e] at h2
    omega
  intro j
  induction j with
  | zero =>
    intro _
    rw [D_zero_right _ _ _ _ (by omega)]
    have := h 0 (Nat.zero_le _)
    rw [D_zero_right _ _ _ _ (by omega)] at this
    omega
  | succ j ih =>
    intro hj
    have hj' : j < s2.length := by omega
    have a1 := h (j + 1) hj
    have a2 := ih (by omega)
    have a3 := h j (by omega)
    have hb : l < Dbase tr s1 s2 i j s1[i] s2[j] := by
      unfold Dbase
      have := neq_le_one s1[i] s2[j]
      omega
    rw [D_succ_succ tr s1 s2 i j hi hj']
    split
    · have a4 := hprev (j - 1) (by omega)
      omega
    · exact hb

theorem rowAbove_final (tr : Bool) (s1 s2 : List Nat) (l : Nat) :
    ∀ (n i : Nat), i + n = s1.length → RowAbove tr s1 s2 l i → l < ed tr s1 s2 := by
  intro n
  induction n with
  | zero =>
    intro i hn h
    have : i = s1.length := by omega
    subst this
    have := h s2.length (Nat.le_refl _)
    rwa [D_full] at this
  | succ n ih =>
    intro i hn h
    exact ih (i + 1) (by omega) (rowAbove_succ tr s1 s2 l i (by omega) h)

theorem foldl_min_le (vs : List Nat) (a : Nat) :
    vs.foldl min a ≤ a ∧ ∀ v ∈ vs, vs.foldl min a ≤ v := by
  induction vs generalizing a with
  | nil => simp
  | cons b vs ih =>
    simp only [List.foldl_cons, List.mem_cons]
    have h := ih (min a b)
    refine ⟨Nat.le_trans h.1 (Nat.min_le_left _ _), ?_⟩
    rintro v (rfl | hv)
    · exact Nat.le_trans h.1 (Nat.min_le_right _ _)
    · exact h.2 v hv

theorem pyMin_le (r : List Nat) (m : Nat) (h : pyMin? r = some m) : ∀ v ∈ r, m ≤ v := by
  cases r with
  | nil => cases h
  | cons a vs =>
    simp only [pyMin?, Option.some.injEq] at h
    subst h
    intro v hv
    rcases List.mem_cons.mp hv with rfl | hv
    · exact (foldl_min_le vs _).1
    · exact (foldl_min_le vs a).2 v hv

theorem isRow_mem (tr : Bool) (s1 s2 : List Nat) (r : List Nat) (i j : Nat) (h : IsRow tr s1 s2 r i)
    (hj : j ≤ s2.length) : D tr s1 s2 i j ∈ r := by
  have := h.2 j hj
  cases j with
  | zero =>
    rw [pyGet_pred_zero _ s2.length h.1] at this
    exact List.mem_of_getElem? this
  | succ j =>
    rw [pyGet_pred_succ] at this
    exact List.mem_of_getElem? this

/-- What `dp` may return: the distance, or `limit + 1` when the distance exceeds the limit. -/
def DpResult (tr : Bool) (s1 s2 : List Nat) (limit : Option Nat) (r : Nat) : Prop :=
  r = ed tr s1 s2 ∨ ∃ l, limit = some l ∧ r = l + 1 ∧ l < ed tr s1 s2

theorem dpOuter_spec (tr : Bool) (s1 s2 : List Nat) (limit : Option Nat) :
    ∀ (n x : Nat) (oneago thisrow : List Nat), x + n = s1.length → IsRow tr s1 s2 thisrow x →
      (tr = true → 0 < x → IsRow tr s1 s2 oneago (x - 1)) →
      ∃ r, dpOuter tr s1 s2 limit n x oneago thisrow = some r ∧ DpResult tr s1 s2 limit r := by
  intro n
  induction n with
  | zero =>
    intro x oneago thisrow hn h1 _
    have : x = s1.length := by omega
    subst this
    refine ⟨ed tr s1 s2, ?_, Or.inl rfl⟩
    have := h1.2 s2.length (Nat.le_refl _)
    rw [D_full] at this
    simpa [dpOuter] using this
  | succ n ih =>
    intro x oneago thisrow hn h1 h2
    have hx : x < s1.length := by omega
    obtain ⟨row, hrow, hisrow⟩ := dpInner_spec tr s1 s2 x oneago thisrow hx h1 h2 s2.length 0
      (List.replicate s2.length 0 ++ [x + 1]) (by omega) (rowUpTo_init tr s1 s2 x hx)
    have hrec := ih (x + 1) thisrow row (by omega) hisrow (fun _ _ => by simpa using h1)
    simp only [dpOuter, hrow, Option.bind_eq_bind, Option.bind_some]
    cases limit with
    | none => simpa [earlyExit] using hrec
    | some l =>
      by_cases hc : l ≠ 0 ∧ x > l
      · have hne : row ≠ [] := by
          intro h; have := hisrow.1; rw [h] at this; simp at this
        obtain ⟨m, hm⟩ : ∃ m, pyMin? row = some m := by
          cases row with
          | nil => exact absurd rfl hne
          | cons a vs => exact ⟨_, rfl⟩
        simp only [earlyExit]
        rw [if_pos hc]
        simp only [hm, Option.map_some, Option.bind_some]
        by_cases hml : m > l
        · simp only [hml, decide_true, if_true, Option.getD_some]
          refine ⟨l + 1, rfl, Or.inr ⟨l, rfl, rfl, ?_⟩⟩
          apply rowAbove_final tr s1 s2 l n (x + 1) (by omega)
          intro j hj
          exact Nat.lt_of_lt_of_le hml (pyMin_le row m hm _ (isRow_mem tr s1 s2 row (x + 1) j hisrow hj))
        · simp only [hml, decide_false]
          simpa using hrec
      · simp only [earlyExit]
        rw [if_neg hc]
        simpa using hrec

/-- **The DP routines return the specification distance (or `limit + 1` above the limit), and
    never raise.** -/
theorem dp_spec (tr : Bool) (s1 s2 : List Nat) (limit : Option Nat) :
    ∃ r, dp tr s1 s2 limit = some r ∧ DpResult tr s1 s2 limit r :=
  dpOuter_spec tr s1 s2 limit s1.length 0 [] _ (by omega) (isRow_first tr s1 s2)
    (fun _ h => absurd h (Nat.lt_irrefl 0))

/-- Consequences of `dp_spec` for a given limit. -/
theorem dp_limit_aux (tr : Bool) (s1 s2 : List Nat) (l : Nat) :
    ∃ r, dp tr s1 s2 (some l) = some r ∧ min r (l + 1) = min (ed tr s1 s2) (l + 1) ∧
      (r ≤ l ↔ ed tr s1 s2 ≤ l) ∧ (r ≤ l → r = ed tr s1 s2) := by
  obtain ⟨r, hr, h⟩ := dp_spec tr s1 s2 (some l)
  refine ⟨r, hr, ?_⟩
  rcases h with rfl | ⟨l', hl, rfl, hlt⟩
  · exact ⟨rfl, Iff.rfl, fun _ => rfl⟩
  · simp only [Option.some.injEq] at hl
    subst hl
    refine ⟨?_, ?_, ?_⟩
    · rw [Nat.min_self, Nat.min_eq_right (by omega)]
    · constructor <;> intro h <;> omega
    · intro h; omega


/-- The filtering loop of `IndexReader.terms_within` keeps exactly the terms within the
    optimal-string-alignment distance. -/
theorem baseLoop_eq (w : List Nat) (d : Nat) (l : List (List Nat)) :
    baseLoop w d l = .ok (l.filter fun t => decide (osa t w ≤ d)) := by
  induction l with
  | nil => rfl
  | cons t l ih =>
    obtain ⟨r, hr, _, hiff, _⟩ := dp_limit_aux true t w d
    have hr' : distance t w (some d) = some r := hr
    change r ≤ d ↔ osa t w ≤ d at hiff
    rw [baseLoop, hr', ih]
    simp only [Except.map, List.filter_cons]
    by_cases h : r ≤ d
    · simp [h, hiff.mp h]
    · have : ¬ osa t w ≤ d := fun hc => h (hiff.mpr hc)
      simp [h, this]


end WM.Lev
