import WM.Lemmas.IndexLocate
/-! Live documents by global number, and what `delete_document` does to them. -/
namespace WM.Index
open WM.Dict

/-- `(per-doc data, global doc number)` of every undeleted document, ascending. -/
def liveGlobal : List Seg → Nat → List (DocRec × Nat)
  | [], _ => []
  | s :: r, base => s.liveIdx.map (fun p => (p.1, p.2 + base)) ++ liveGlobal r (base + s.docCountAll)

theorem liveIdx_lt (s : Seg) : ∀ p ∈ s.liveIdx, p.2 < s.docCountAll := by
  intro p hp
  simp only [Seg.liveIdx, List.mem_filter] at hp
  have := List.mem_zipIdx (x := p.1) (i := p.2) (xs := s.docs) (k := 0) hp.1
  simp [Seg.docCountAll]; omega

theorem liveIdx_live (s : Seg) : ∀ p ∈ s.liveIdx, s.isDeleted p.2 = false := by
  intro p hp
  simp only [Seg.liveIdx, List.mem_filter] at hp
  simpa using hp.2

theorem liveGlobal_ge (segs : List Seg) (base : Nat) : ∀ p ∈ liveGlobal segs base, base ≤ p.2 := by
  induction segs generalizing base with
  | nil => simp [liveGlobal]
  | cons s r ih =>
    intro p hp
    simp only [liveGlobal, List.mem_append, List.mem_map] at hp
    rcases hp with ⟨q, _, rfl⟩ | hp
    · simp
    · have := ih _ p hp; omega

theorem liveGlobal_lt (segs : List Seg) (base : Nat) :
    ∀ p ∈ liveGlobal segs base, p.2 < base + docCountAllSegs segs := by
  induction segs generalizing base with
  | nil => simp [liveGlobal]
  | cons s r ih =>
    intro p hp
    rw [docCountAllSegs_cons]
    simp only [liveGlobal, List.mem_append, List.mem_map] at hp
    rcases hp with ⟨q, hq, rfl⟩ | hp
    · have := liveIdx_lt s q hq; simp; omega
    · have := ih _ p hp; omega

theorem contentOf_eq_liveGlobal (sc : Schema) (segs : List Seg) (base : Nat) :
    contentOf sc segs = (liveGlobal segs base).map (fun p => restrict sc p.1) := by
  induction segs generalizing base with
  | nil => simp [contentOf, liveGlobal]
  | cons s r ih =>
    have := ih (base + s.docCountAll)
    simp only [contentOf, Seg.liveDocs, List.map_map, Function.comp_def] at this ⊢
    simp [liveGlobal, List.flatMap_cons, this, List.map_map, Function.comp_def]

/-! ### W3Segment.delete_document -/

theorem Seg.deleteDocument_docs (s : Seg) (l : Nat) (b : Bool) : (s.deleteDocument l b).docs = s.docs := by
  unfold Seg.deleteDocument
  split
  · split <;> rfl
  · rfl

theorem Seg.deleteDocument_posts (s : Seg) (l : Nat) (b : Bool) : (s.deleteDocument l b).posts = s.posts := by
  unfold Seg.deleteDocument
  split
  · split <;> rfl
  · rfl

theorem Seg.deleteDocument_count (s : Seg) (l : Nat) (b : Bool) :
    (s.deleteDocument l b).docCountAll = s.docCountAll := by
  simp [Seg.docCountAll, Seg.deleteDocument_docs]

theorem Seg.isDeleted_delete (s : Seg) (l i : Nat) :
    (s.deleteDocument l true).isDeleted i = (s.isDeleted i || i == l) := by
  by_cases h : s.deleted.contains l = true
  · simp only [Seg.deleteDocument, Seg.isDeleted, h, if_true]
    by_cases hi : i = l
    · subst hi; simp; simpa using h
    · simp [hi]
  · simp only [Seg.deleteDocument, Seg.isDeleted, h, if_true, if_false, List.contains_append]
    by_cases hi : i = l <;> simp [hi]

/-- Deleting local number `l` removes exactly that entry from the live list. -/
theorem Seg.liveIdx_delete (s : Seg) (l : Nat) :
    (s.deleteDocument l true).liveIdx = s.liveIdx.filter (fun p => p.2 != l) := by
  simp only [Seg.liveIdx, Seg.deleteDocument_docs, List.filter_filter]
  apply List.filter_congr
  intro p _
  rw [Seg.isDeleted_delete]
  by_cases hp : p.2 = l <;> cases s.isDeleted p.2 <;> simp [hp, bne]

/-! ### SegmentWriter.delete_document -/

theorem bne_add_right (a b c : Nat) : (a + c != b + c) = (a != b) := by
  by_cases h : a = b
  · subst h; simp
  · have : a + c ≠ b + c := by omega
    have h1 : (a != b) = true := by simpa using h
    have h2 : (a + c != b + c) = true := by simpa using this
    rw [h1, h2]

theorem modify_map_of_eq {β} (g : Seg → β) (segs : List Seg) (i : Nat) (f : Seg → Seg) (hf : ∀ s, g (f s) = g s) :
    (segs.modify i f).map g = segs.map g := by
  induction segs generalizing i with
  | nil => simp
  | cons s r ih =>
    cases i with
    | zero => simp [List.modify_cons, hf]
    | succ i => simp [List.modify_succ_cons, ih]

theorem liveGlobal_modify_delete (segs : List Seg) (base m : Nat) (h : m < docCountAllSegs segs) :
    liveGlobal (segs.modify (locate segs m).1 (fun s => s.deleteDocument (locate segs m).2 true)) base
      = (liveGlobal segs base).filter (fun p => p.2 != m + base) := by
  induction segs generalizing base m with
  | nil => simp [docCountAllSegs] at h
  | cons s r ih =>
    rw [docCountAllSegs_cons] at h
    simp only [locate]
    by_cases hlt : m < s.docCountAll
    · simp only [hlt, if_true, List.modify_cons, liveGlobal, Seg.deleteDocument_count, List.filter_append]
      congr 1
      · rw [Seg.liveIdx_delete, List.filter_map]
        congr 1
        apply List.filter_congr
        intro p _
        simp [bne_add_right]
      · symm
        rw [List.filter_eq_self]
        intro p hp
        have := liveGlobal_ge r _ p hp
        simp; omega
    · simp only [hlt, if_false, List.modify_succ_cons, liveGlobal, List.filter_append]
      congr 1
      · symm
        rw [List.filter_eq_self]
        intro p hp
        simp only [List.mem_map] at hp
        obtain ⟨q, hq, rfl⟩ := hp
        have := liveIdx_lt s q hq
        simp; omega
      · rw [ih (base + s.docCountAll) (m - s.docCountAll) (by omega)]
        apply List.filter_congr
        intro p _
        have : m - s.docCountAll + (base + s.docCountAll) = m + base := by omega
        rw [this]

/-- `delete_document(n)` for a valid number: succeeds, touches only the deleted sets, and removes
    exactly document `n` from the live documents. -/
theorem Writer.deleteDocument_spec (w : Writer) (n : Nat) (h : n < docCountAllSegs w.segs) :
    ∃ w', w.deleteDocument n true = .ok w' ∧
      w'.schema = w.schema ∧ w'.gen = w.gen ∧ w'.ndocs = w.ndocs ∧ w'.pool = w.pool ∧ w'.added = w.added ∧
      w'.segs.map Seg.docCountAll = w.segs.map Seg.docCountAll ∧
      w'.segs.map Seg.docs = w.segs.map Seg.docs ∧ w'.segs.map Seg.posts = w.segs.map Seg.posts ∧
      liveGlobal w'.segs 0 = (liveGlobal w.segs 0).filter (fun p => p.2 != n) := by
  obtain ⟨hi, hoff, hle⟩ := documentSegment_eq w.segs n h
  obtain ⟨_, s, hs, _⟩ := locate_fst_lt w.segs n h
  unfold Writer.deleteDocument
  have hn : ¬ n ≥ docCountAllSegs w.segs := by omega
  simp only [hn, if_false, hi, hoff, hs]
  refine ⟨_, rfl, rfl, rfl, rfl, rfl, rfl, ?_, ?_, ?_, ?_⟩
  · exact modify_map_of_eq _ _ _ _ (fun s => Seg.deleteDocument_count s _ _)
  · exact modify_map_of_eq _ _ _ _ (fun s => Seg.deleteDocument_docs s _ _)
  · exact modify_map_of_eq _ _ _ _ (fun s => Seg.deleteDocument_posts s _ _)
  · have e : n - (n - (locate w.segs n).2) = (locate w.segs n).2 := by omega
    simp only [e]
    have := liveGlobal_modify_delete w.segs 0 n h
    simpa using this

theorem Writer.deleteDocument_err (w : Writer) (n : Nat) (b : Bool) (h : ¬ n < docCountAllSegs w.segs) :
    w.deleteDocument n b = .error .noSuchDoc := by
  unfold Writer.deleteDocument
  have : n ≥ docCountAllSegs w.segs := by omega
  simp [this]

end WM.Index
