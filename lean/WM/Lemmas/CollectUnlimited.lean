import WM.Lemmas.CollectCount
/-! Helper lemmas for C05: `UnlimitedCollector` collects every posting. -/
namespace WM.Collect
open WM.Rank

/-- With `self.minscore` constantly 0 and block quality off nothing is ever dropped: the loop hands
    every posting of the segment, in order, to the consumer. -/
theorem matchesLoop_unl (cfg : Cfg) (final : Nat → Rat → Rat) (hq : cfg.usequality = false) (off : Nat) :
    ∀ (n : Nat) (m : List Posting), m.length = n →
    ∀ (sched : List Step) (lv : Locals) (items : List Hit) (tr : Trace),
      lv.minscore = 0 → lv.usequality = false →
      ∃ sched' tr', matchesLoop cfg (unlConsume cfg final) (fun _ => 0) off sched m lv items tr
        = .ok (items ++ m.map (toHit cfg final off), sched', tr') := by
  intro n
  induction n using Nat.strongRecOn with
  | _ n ih =>
    intro m hmn sched lv items tr hmin huse
    rw [matchesLoop]
    by_cases hem : m.isEmpty = true
    · rw [if_pos hem]
      have : m = [] := by simpa using hem
      subst this
      exact ⟨sched, tr, by simp⟩
    · rw [if_neg hem]
      dsimp only
      have hthr : replaceThreshold cfg lv = 0 := by
        unfold replaceThreshold; split
        · rfl
        · exact hmin
      -- the replace phase changes nothing but counters
      have hrep : (replacePhase cfg 0 (sched.headD Step.none) m lv tr).1 = m ∧
          (replacePhase cfg 0 (sched.headD Step.none) m lv tr).2.2.2 = false ∧
          (replacePhase cfg 0 (sched.headD Step.none) m lv tr).2.1.minscore = 0 ∧
          (replacePhase cfg 0 (sched.headD Step.none) m lv tr).2.1.usequality = false := by
        unfold replacePhase
        by_cases h1 : (cfg.replace != 0) = true
        · rw [if_pos h1]
          by_cases h2 : (lv.replacecounter == 0 || (0 : Rat) != lv.minscore) = true
          · rw [if_pos h2]
            dsimp only
            rw [hthr, dropMasked_zero, if_neg hem]
            have hne : ((0 : Rat) != lv.minscore) = false := by rw [hmin]; simp
            simp only [hne, Bool.false_eq_true, if_false]
            refine ⟨trivial, trivial, hmin, ?_⟩
            simp [useBlockQuality, hq]
          · rw [if_neg h2]; exact ⟨rfl, rfl, hmin, huse⟩
        · rw [if_neg h1]; exact ⟨rfl, rfl, hmin, huse⟩
      obtain ⟨hr1, hr2, hr3, hr4⟩ := hrep
      generalize replacePhase cfg 0 (sched.headD Step.none) m lv tr = r at *
      rw [if_neg (by rw [hr2]; simp)]
      have hsk : (skipPhase (sched.headD Step.none) r.1 r.2.1 r.2.2.1).1 = r.1 := by
        unfold skipPhase; rw [hr4]; simp
      generalize skipPhase (sched.headD Step.none) r.1 r.2.1 r.2.2.1 = s at *
      split
      · next hs1 => rw [hsk, hr1] at hs1; rw [hs1] at hem; simp at hem
      · next p rest hs1 =>
        have hm : m = p :: rest := by rw [← hr1, ← hsk, hs1]
        simp only [unlConsume]
        have hrl : rest.length < n := by rw [← hmn, hm]; simp
        obtain ⟨sched', tr', hrun⟩ := ih rest.length hrl rest rfl sched.tail
          { r.2.1 with checkquality := nextFlag rest } (items ++ [toHit cfg final off p]) s.2 hr3 hr4
        refine ⟨sched', tr', ?_⟩
        rw [hrun, hm]
        simp

theorem runSegs_unl (cfg : Cfg) (final : Nat → Rat → Rat) (hq : cfg.usequality = false) :
    ∀ (segs : List Seg) (sched : List Step) (items : List Hit) (tr : Trace),
      ∃ sched' tr', runSegs cfg (unlConsume cfg final) (fun _ => 0) segs sched items tr
        = .ok (items ++ allHits cfg final segs, sched', tr') := by
  intro segs
  induction segs with
  | nil => intro sched items tr; exact ⟨sched, tr, by simp [runSegs, allHits]⟩
  | cons s segs ih =>
    intro sched items tr
    obtain ⟨sched1, tr1, h1⟩ := matchesLoop_unl cfg final hq s.off s.postings.length s.postings rfl sched
      { supports := s.supports, minscore := 0, usequality := useBlockQuality cfg s.supports,
        replacecounter := 0, checkquality := true } items { tr with supports := s.supports } rfl
      (by simp [useBlockQuality, hq])
    obtain ⟨sched2, tr2, h2⟩ := ih sched1 (items ++ s.postings.map (toHit cfg final s.off)) tr1
    refine ⟨sched2, tr2, ?_⟩
    simp only [runSegs, h1, h2, allHits_cons, List.append_assoc]

end WM.Collect
