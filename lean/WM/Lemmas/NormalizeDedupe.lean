import WM.Model.NormalizeDedupe
import WM.Model.Normalize

/-! Lemmas about `WM.NormalizeDedupe.dedupeBy` (property C15). -/
namespace WM.NormalizeDedupe

variable {α : Type}

theorem seenBy_p (eqv : α → α → Bool) (p : α → Bool) (h : ∀ a b, eqv a b = true → p a = p b)
    (seen : List α) (s : α) (hs : seenBy eqv seen s = true) : ∃ t ∈ seen, p t = p s := by
  simp only [seenBy, List.any_eq_true] at hs
  obtain ⟨t, ht, e⟩ := hs
  exact ⟨t, ht, (h s t e).symm⟩

theorem dedupeBy_any (eqv : α → α → Bool) (p : α → Bool) (h : ∀ a b, eqv a b = true → p a = p b) :
    ∀ (l seen : List α), (seen.any p || (dedupeBy eqv seen l).any p) = (seen.any p || l.any p) := by
  intro l
  induction l with
  | nil => intro seen; simp [dedupeBy]
  | cons s rest ih =>
    intro seen
    by_cases hs : seenBy eqv seen s = true
    · simp only [dedupeBy, hs, if_true, List.any_cons]
      obtain ⟨t, ht, e⟩ := seenBy_p eqv p h seen s hs
      rw [ih seen]
      by_cases hp : p s = true
      · have : seen.any p = true := List.any_eq_true.mpr ⟨t, ht, by rw [e, hp]⟩
        simp [this]
      · simp [hp]
    · simp only [dedupeBy, hs, List.any_cons]
      have := ih (s :: seen)
      simp only [List.any_cons] at this
      cases h1 : p s <;> cases h2 : seen.any p <;> simp_all

theorem dedupeBy_all (eqv : α → α → Bool) (p : α → Bool) (h : ∀ a b, eqv a b = true → p a = p b) :
    ∀ (l seen : List α), (seen.all p && (dedupeBy eqv seen l).all p) = (seen.all p && l.all p) := by
  intro l
  induction l with
  | nil => intro seen; simp [dedupeBy]
  | cons s rest ih =>
    intro seen
    by_cases hs : seenBy eqv seen s = true
    · simp only [dedupeBy, hs, if_true, List.all_cons]
      obtain ⟨t, ht, e⟩ := seenBy_p eqv p h seen s hs
      rw [ih seen]
      by_cases hp : p s = true
      · simp [hp]
      · have hp' : p s = false := by simpa using hp
        have : seen.all p = false := by
          apply Bool.eq_false_iff.mpr
          intro hall
          have := List.all_eq_true.mp hall t ht
          rw [e, hp'] at this
          exact Bool.false_ne_true this
        simp [this]
    · simp only [dedupeBy, hs, List.all_cons]
      have := ih (s :: seen)
      simp only [List.all_cons] at this
      cases h1 : p s <;> cases h2 : seen.all p <;> simp_all

/-- The loop of the modelled classes is the generic loop with structural equality. -/
theorem dedupe_eq_dedupeBy (l : List WM.Normalize.Q) :
    ∀ seen, WM.Normalize.dedupe [] seen l = dedupeBy (fun a b => a == b) seen l := by
  induction l with
  | nil => intro seen; simp [WM.Normalize.dedupe, dedupeBy]
  | cons s rest ih =>
    intro seen
    have hc : seen.contains s = seenBy (fun a b => a == b) seen s := by
      simp only [seenBy]
      induction seen with
      | nil => simp
      | cons t ts iht => simp only [List.contains_cons, List.any_cons, iht]
    simp only [WM.Normalize.dedupe, dedupeBy, List.contains_nil, Bool.and_false, hc]
    by_cases hs : seenBy (fun a b => a == b) seen s = true
    · simp [hs, ih]
    · simp [hs, ih]

end WM.NormalizeDedupe
