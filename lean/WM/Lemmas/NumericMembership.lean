import WM.Lemmas.NumericFloat
/-! Round 2: numeric (IEEE comparison) membership vs the total order; truncation of Decimal bounds;
    datetimes as triples. -/
namespace WM.Numeric
open WM.NumericSpec

/-! ### IEEE comparison vs totalOrder -/

theorem totalLt_irrefl (a : Nat) : totalLt a a = false := by
  unfold totalLt
  by_cases h : a / 2 ^ 63 % 2 = 1 <;> simp [h]

/-- Two zeros of opposite sign: the only non-NaN pair on which `<`/`<=` and the total order differ. -/
def zeroClash (a b : Nat) : Bool := isZero a && isZero b && a != b

theorem ieee_eq_total (a b : Nat) (ha : isNaN a = false) (hb : isNaN b = false)
    (hz : zeroClash a b = false) :
    ieeeLt a b = totalLt a b ∧ ieeeLe a b = !totalLt b a := by
  unfold ieeeLt ieeeLe
  unfold zeroClash at hz
  by_cases h1 : isZero a = true <;> by_cases h2 : isZero b = true
  · have hab : a = b := by
      simp only [h1, h2, Bool.and_self, Bool.true_and, bne_eq_false_iff_eq] at hz; exact hz
    subst hab
    simp [ha, h1, totalLt_irrefl]
  · simp [ha, hb, h1, h2]
  · simp [ha, hb, h1, h2]
  · simp [ha, hb, h1, h2]

/-- On non-NaN values without a clash of signed zeros, membership under the total order *is*
    numeric membership. -/
theorem inInterval_total_eq_num (start end_ : Option Nat) (sx ex : Bool) (v : Nat)
    (hv : isNaN v = false)
    (hs : ∀ a, start = some a → isNaN a = false ∧ zeroClash a v = false)
    (he : ∀ b, end_ = some b → isNaN b = false ∧ zeroClash b v = false) :
    inInterval totalLt start end_ sx ex v = inIntervalNum start end_ sx ex v := by
  have clash_symm : ∀ a, zeroClash a v = false → zeroClash v a = false := by
    intro a h
    unfold zeroClash at *
    rw [Bool.and_comm (isZero v) (isZero a), bne_comm]; exact h
  unfold inInterval inIntervalNum
  cases start with
  | none =>
    cases end_ with
    | none => rfl
    | some e =>
      obtain ⟨h1, h2⟩ := he e rfl
      have A := ieee_eq_total v e hv h1 (clash_symm e h2)
      cases ex <;> simp [A.1, A.2]
  | some s =>
    obtain ⟨g1, g2⟩ := hs s rfl
    have B := ieee_eq_total s v g1 hv g2
    cases end_ with
    | none => cases sx <;> simp [B.1, B.2]
    | some e =>
      obtain ⟨h1, h2⟩ := he e rfl
      have A := ieee_eq_total v e hv h1 (clash_symm e h2)
      cases sx <;> cases ex <;> simp [A.1, A.2, B.1, B.2]

/-! ### Decimal bounds: truncation towards zero -/

theorem tdiv_num_den (y : Rat) :
    Int.tdiv y.num y.den = if 0 ≤ y then y.floor else y.ceil := by
  by_cases h : 0 ≤ y
  · have hn : 0 ≤ y.num := Rat.num_nonneg.mpr h
    rw [if_pos h, Rat.floor_def, Int.tdiv_eq_ediv_of_nonneg hn]
  · have hn : y.num < 0 := by
      have : ¬ (0 ≤ y.num) := fun h0 => h (Rat.num_nonneg.mp h0)
      omega
    rw [if_neg h, Rat.ceil_eq_neg_floor_neg, Rat.floor_def, Rat.neg_num, Rat.neg_den]
    have e : y.num = -(-y.num) := by omega
    conv => lhs; rw [e, Int.neg_tdiv, Int.tdiv_eq_ediv_of_nonneg (by omega)]

theorem trunc_mono (y z : Rat) (h : y ≤ z) :
    Int.tdiv y.num y.den ≤ Int.tdiv z.num z.den := by
  rw [tdiv_num_den, tdiv_num_den]
  by_cases hy : 0 ≤ y
  · have hz : 0 ≤ z := Rat.le_trans hy h
    rw [if_pos hy, if_pos hz]; exact Rat.floor_monotone h
  · by_cases hz : 0 ≤ z
    · rw [if_neg hy, if_pos hz]
      have h1 : y.ceil ≤ 0 := Rat.ceil_le_iff.mpr (by
        have := Rat.not_le.mp hy
        exact Rat.le_of_lt this)
      have h2 : (0 : Int) ≤ z.floor := Rat.le_floor_iff.mpr hz
      omega
    · rw [if_neg hy, if_neg hz, Rat.ceil_eq_neg_floor_neg, Rat.ceil_eq_neg_floor_neg]
      have := Rat.floor_monotone (Rat.neg_le_neg h)
      omega

theorem trunc_of_nonneg (y : Rat) (h : 0 ≤ y) : Int.tdiv y.num y.den = y.floor := by
  rw [tdiv_num_den, if_pos h]

theorem trunc_of_nonpos (y : Rat) (h : y ≤ 0) : Int.tdiv y.num y.den = y.ceil := by
  rw [tdiv_num_den]
  by_cases h0 : 0 ≤ y
  · have : y = 0 := Rat.le_antisymm h h0
    subst this; rfl
  · rw [if_neg h0]

/-- The scale factor `10^dc` as a rational. -/
def decScale (dc : Nat) : Rat := (((10 : Int) ^ dc : Int) : Rat)

theorem decScale_pos (dc : Nat) : 0 < decScale dc :=
  Rat.intCast_pos.mpr (Int.pow_pos (by decide))

theorem decScale_ne (dc : Nat) : decScale dc ≠ 0 := fun h => by
  have := decScale_pos dc; rw [h] at this; exact absurd this (by decide)

theorem unprep_le_iff (dc : Nat) (x : Int) (q : Rat) :
    unprepareDecimal dc x ≤ q ↔ (x : Rat) ≤ q * decScale dc := by
  show (x : Rat) / decScale dc ≤ q ↔ _
  rw [← Rat.not_lt, ← Rat.not_lt, ← Rat.mul_lt_mul_right (decScale_pos dc),
    Rat.div_mul_cancel (decScale_ne dc)]

theorem le_unprep_iff (dc : Nat) (x : Int) (q : Rat) :
    q ≤ unprepareDecimal dc x ↔ q * decScale dc ≤ (x : Rat) := by
  show q ≤ (x : Rat) / decScale dc ↔ _
  rw [← Rat.not_lt, ← Rat.not_lt, ← Rat.mul_lt_mul_right (decScale_pos dc),
    Rat.div_mul_cancel (decScale_ne dc)]

theorem decimalToInt_eq (dc : Nat) (q : Rat) :
    decimalToInt dc q = Int.tdiv (q * decScale dc).num (q * decScale dc).den := rfl

/-! ### datetimes as triples -/

def TD.triple (t : TD) : Int × Int × Int := (t.days, t.seconds, t.micros)

/-- Order of datetimes = lexicographic order of their normalised triples. -/
def tdLt (a b : TD) : Bool := tripleLt a.triple b.triple

theorem tdLt_iff (t u : TD) (ht : t.normal) (hu : u.normal) :
    tdLt t u = true ↔ tdToUsecs t < tdToUsecs u := by
  obtain ⟨d, s, m⟩ := t
  obtain ⟨d', s', m'⟩ := u
  simp only [TD.normal] at ht hu
  obtain ⟨h1, h2, h3, h4⟩ := ht
  obtain ⟨g1, g2, g3, g4⟩ := hu
  unfold tdLt tripleLt
  rw [decide_eq_true_iff]
  simp only [TD.triple, tdToUsecs]
  omega

end WM.Numeric
