import WM.Model.NumLists
import WM.Props.C20Varint
/-! Helper lemmas for the number codecs of C20. -/
set_option linter.unusedSimpArgs false
namespace WM.NumLists

theorem deltaDecodeFrom_encodeFrom : ∀ (base : Int) (l : List Int),
    deltaDecodeFrom base (deltaEncodeFrom base l) = l
  | _, [] => rfl
  | base, n :: ns => by
    simp only [deltaEncodeFrom, deltaDecodeFrom]
    have : base + (n - base) = n := by omega
    rw [this, deltaDecodeFrom_encodeFrom n ns]

theorem deltaEncodeFrom_decodeFrom : ∀ (base : Int) (l : List Int),
    deltaEncodeFrom base (deltaDecodeFrom base l) = l
  | _, [] => rfl
  | base, n :: ns => by
    simp only [deltaEncodeFrom, deltaDecodeFrom]
    have : base + n - base = n := by omega
    rw [this, deltaEncodeFrom_decodeFrom (base + n) ns]

theorem length_encodeLE : ∀ (size x : Nat), (encodeLE size x).length = size
  | 0, _ => rfl
  | s + 1, x => by simp [encodeLE, length_encodeLE s]

theorem encodeLE_bytes : ∀ (size x : Nat), ∀ b ∈ encodeLE size x, b < 256
  | 0, _ => by simp [encodeLE]
  | s + 1, x => by
    intro b hb
    simp only [encodeLE, List.mem_cons] at hb
    rcases hb with rfl | hb
    · omega
    · exact encodeLE_bytes s _ b hb

theorem decodeLE_encodeLE_mod : ∀ (size x : Nat), decodeLE (encodeLE size x) = x % 256 ^ size
  | 0, x => by simp [encodeLE, decodeLE, Nat.mod_one]
  | s + 1, x => by
    simp only [encodeLE, decodeLE, decodeLE_encodeLE_mod s]
    rw [Nat.pow_succ, Nat.mul_comm (256 ^ s) 256, Nat.mod_mul]

theorem decodeLE_encodeLE (size x : Nat) (h : x < 256 ^ size) : decodeLE (encodeLE size x) = x := by
  rw [decodeLE_encodeLE_mod, Nat.mod_eq_of_lt h]

theorem decodeBE_encodeBE (size x : Nat) (h : x < 256 ^ size) : decodeBE (encodeBE size x) = x := by
  unfold decodeBE encodeBE
  rw [List.reverse_reverse, decodeLE_encodeLE size x h]

theorem length_encodeBE (size x : Nat) : (encodeBE size x).length = size := by
  unfold encodeBE; rw [List.length_reverse, length_encodeLE]

theorem pow_size (tc : TC) : 256 ^ tc.size = 2 ^ (8 * tc.size) := by
  cases tc <;> decide

theorem toUnsigned_lt (tc : TC) (x : Int) : toUnsigned tc.size x < 256 ^ tc.size := by
  unfold toUnsigned
  cases tc <;> simp only [TC.size] <;> omega

/-- two's complement round-trip on the range of the typecode -/
theorem value_roundtrip (tc : TC) (x : Int) (h : tc.fits x = true) :
    (if tc.signed then fromUnsigned tc.size (toUnsigned tc.size x) else ((toUnsigned tc.size x : Nat) : Int)) = x := by
  unfold TC.fits at h
  unfold fromUnsigned toUnsigned
  cases tc <;> simp only [TC.signed, TC.size, ↓reduceIte, Bool.and_eq_true, Bool.false_eq_true] at h ⊢ <;>
    obtain ⟨h1, h2⟩ := h <;> have h1 := of_decide_eq_true h1 <;> have h2 := of_decide_eq_true h2 <;>
    simp at h1 h2 ⊢ <;> (try split) <;> omega

/-- capacity (exclusive upper bound) of a typecode -/
def cap (tc : TC) : Int := if tc.signed then 2 ^ (8 * tc.size - 1) else 2 ^ (8 * tc.size)

theorem fits_iff (tc : TC) (x : Int) :
    tc.fits x = true ↔ (if tc.signed then -(cap tc) ≤ x else 0 ≤ x) ∧ x < cap tc := by
  unfold TC.fits cap
  cases tc <;> simp only [TC.signed, TC.size, ↓reduceIte, Bool.and_eq_true, Bool.false_eq_true] <;>
    constructor <;> intro ⟨h1, h2⟩
  all_goals first
    | (have h1 := of_decide_eq_true h1; have h2 := of_decide_eq_true h2; simp at h1 h2 ⊢; omega)
    | (simp at h1 h2; exact ⟨decide_eq_true (by simp; omega), decide_eq_true (by simp; omega)⟩)
    | (simp at h1 h2; exact ⟨decide_eq_true (by omega), decide_eq_true (by simp; omega)⟩)

theorem cap_pos (tc : TC) : 0 < cap tc := by
  unfold cap; cases tc <;> simp [TC.signed, TC.size]

/-- a natural below the capacity fits (signed or not) -/
theorem fits_of_nat (tc : TC) (x : Int) (h0 : 0 ≤ x) (h : x < cap tc) : tc.fits x = true := by
  rw [fits_iff]
  refine ⟨?_, h⟩
  have := cap_pos tc
  split <;> omega

theorem lt_cap_of_fits (tc : TC) (x : Int) (h : tc.fits x = true) : x < cap tc :=
  ((fits_iff tc x).mp h).2

theorem cap_le_of_not_fits (tc : TC) (x : Int) (h0 : 0 ≤ x) (h : ¬ tc.fits x = true) : cap tc ≤ x := by
  apply Classical.byContradiction
  intro hlt
  exact h (fits_of_nat tc x h0 (by omega))

theorem cap_H : cap .H = 65536 := by decide
theorem cap_i : cap .i = 2147483648 := by decide
theorem cap_I : cap .I = 4294967296 := by decide
theorem cap_q : cap .q = 9223372036854775808 := by decide

theorem drop_take_flatMap {α} (f : α → List Nat) (size : Nat) (hf : ∀ a, (f a).length = size) :
    ∀ (l : List α) (k : Nat), ((l.flatMap f).drop (k * size)).take size
      = match l[k]? with
        | some a => f a
        | none => []
  | [], k => by simp
  | a :: t, 0 => by
    simp only [List.flatMap_cons, Nat.zero_mul, List.drop_zero, List.getElem?_cons_zero]
    rw [List.take_append_of_le_length (by rw [hf]; exact Nat.le_refl _)]
    rw [List.take_of_length_le (by rw [hf]; exact Nat.le_refl _)]
  | a :: t, k + 1 => by
    simp only [List.flatMap_cons, List.getElem?_cons_succ]
    have : (k + 1) * size = (f a).length + k * size := by rw [hf]; rw [Nat.add_mul]; omega
    rw [this, ← List.drop_drop, List.drop_left]
    exact drop_take_flatMap f size hf t k

theorem readFixed_write (size : Nat) : ∀ (xs rest : List Nat), (∀ x ∈ xs, x < 256 ^ size) →
    ∃ bs, writeFixed size xs = some bs ∧ bs.length = size * xs.length ∧
      readFixed size xs.length (bs ++ rest) = some (xs, rest)
  | [], rest, _ => ⟨[], rfl, by simp, by simp [readFixed]⟩
  | x :: xs, rest, h => by
    rcases readFixed_write size xs rest (fun y hy => h y (List.mem_cons_of_mem _ hy)) with ⟨bs, hw, hl, hr⟩
    have hx := h x (by simp)
    refine ⟨encodeLE size x ++ bs, ?_, ?_, ?_⟩
    · simp [writeFixed, hx, hw]
    · simp [length_encodeLE, hl, Nat.mul_add]; omega
    · simp only [List.length_cons, readFixed, List.append_assoc]
      rw [List.take_append_of_le_length (by rw [length_encodeLE]; exact Nat.le_refl _),
        List.take_of_length_le (by rw [length_encodeLE]; exact Nat.le_refl _)]
      have hd : (encodeLE size x ++ (bs ++ rest)).drop size = bs ++ rest := by
        have := List.drop_left (l₁ := encodeLE size x) (l₂ := bs ++ rest)
        rw [length_encodeLE] at this; exact this
      simp [length_encodeLE, hd, hr, decodeLE_encodeLE size x hx]

theorem writeFixed_eq_flatMap (size : Nat) : ∀ (xs : List Nat), (∀ x ∈ xs, x < 256 ^ size) →
    writeFixed size xs = some (xs.flatMap (encodeLE size))
  | [], _ => rfl
  | x :: xs, h => by
    simp [writeFixed, h x (by simp),
      writeFixed_eq_flatMap size xs (fun y hy => h y (List.mem_cons_of_mem _ hy))]

theorem readVarints_write : ∀ (xs rest : List Nat),
    readVarints xs.length (writeVarints xs ++ rest) = some (xs, rest)
  | [], rest => by simp [readVarints, writeVarints]
  | x :: xs, rest => by
    have ih := readVarints_write xs rest
    simp only [writeVarints] at ih
    simp only [writeVarints, List.flatMap_cons, List.length_cons, readVarints, List.append_assoc,
      WM.C20.varint_roundtrip, ih, Option.map]

end WM.NumLists
