import WM.Spec.Codec
/-! Helper lemmas for C10: delta coding, chunking, aggregates of appended lists. -/
namespace WM.Codec

variable {ι μ : Type}

theorem deltaDecodeAux_encodeAux (base : Int) (ns : List Int) :
    deltaDecodeAux base (deltaEncodeAux base ns) = ns := by
  induction ns generalizing base with
  | nil => rfl
  | cons n ns ih =>
    simp only [deltaEncodeAux, deltaDecodeAux]
    have : base + (n - base) = n := by omega
    rw [this, ih]

theorem deltaDecode_encode (ns : List Int) : deltaDecode (deltaEncode ns) = ns :=
  deltaDecodeAux_encodeAux 0 ns

/-- An id kind whose `_read_ids` undoes `_mini_ids`. -/
def IdKind.Lawful (k : IdKind ι μ) : Prop := ∀ l, k.unmini (k.mini l) = l

theorem docIds_lawful : docIds.Lawful := deltaDecode_encode
theorem termIds_lawful : termIds.Lawful := fun _ => rfl

/-! chunks -/

theorem chunks_flatten (k : Nat) (vs : List Bytes) (hk : 0 < k) (h : ∀ v ∈ vs, v.length = k) :
    chunks k vs.flatten = vs := by
  induction vs with
  | nil => rw [chunks]; simp
  | cons v vs ih =>
    have hv : v.length = k := h v (by simp)
    have hne : v ≠ [] := by intro e; subst e; simp at hv; omega
    rw [chunks]
    have : ¬ (k = 0 ∨ (v :: vs).flatten = []) := by
      intro hh
      rcases hh with hh | hh
      · omega
      · simp at hh; exact hne hh.1
    rw [dif_neg this]
    simp only [List.flatten_cons]
    rw [List.take_left' hv, List.drop_left' hv, ih (fun x hx => h x (by simp [hx]))]

end WM.Codec

namespace WM.Codec
/-! `splitAux`: the chunks concatenate to the input, closed chunks are full, the rest is not empty. -/

theorem splitAux_flatten {α : Type} (bl : Nat) (qs r : List α) :
    (splitAux bl r qs).1.flatten ++ (splitAux bl r qs).2 = r ++ qs := by
  induction qs generalizing r with
  | nil => simp [splitAux]
  | cons q qs ih =>
    by_cases hge : r.length ≥ bl
    · have := ih [q]
      rcases hs : splitAux bl [q] qs with ⟨cs, rem⟩
      rw [hs] at this
      simp only [splitAux, hge, if_true, hs, List.flatten_cons, List.append_assoc]
      simp only at this
      rw [this]; simp
    · have := ih (r ++ [q])
      simp only [splitAux, hge, if_false]
      rw [this]; simp

theorem splitAux_shape {α : Type} (bl : Nat) (hbl : 1 ≤ bl) (qs r : List α) (hr : r.length ≤ bl) :
    (∀ ch ∈ (splitAux bl r qs).1, ch.length = bl) ∧ (splitAux bl r qs).2.length ≤ bl ∧
      ((r ≠ [] ∨ qs ≠ []) → (splitAux bl r qs).2 ≠ []) := by
  induction qs generalizing r with
  | nil => simp [splitAux, hr]
  | cons q qs ih =>
    by_cases hge : r.length ≥ bl
    · have := ih [q] (by simpa using hbl)
      rcases hs : splitAux bl [q] qs with ⟨cs, rem⟩
      rw [hs] at this
      simp only [splitAux, hge, if_true, hs]
      refine ⟨?_, this.2.1, fun _ => this.2.2 (Or.inl (by simp))⟩
      intro ch hch
      simp only [List.mem_cons] at hch
      rcases hch with rfl | hch
      · omega
      · exact this.1 ch hch
    · have := ih (r ++ [q]) (by simp only [List.length_append, List.length_singleton]; omega)
      simp only [splitAux, hge, if_false]
      exact ⟨this.1, this.2.1, fun _ => this.2.2 (Or.inl (by simp))⟩

theorem snoc_induction {α : Type} {P : List α → Prop} (nil : P [])
    (snoc : ∀ l a, P l → P (l ++ [a])) : ∀ l, P l := by
  intro l
  generalize hn : l.length = n
  induction n generalizing l with
  | zero => rw [List.eq_nil_of_length_eq_zero hn]; exact nil
  | succ n ih =>
    have hne : l ≠ [] := by intro e; rw [e] at hn; simp at hn
    rw [← List.dropLast_concat_getLast hne]
    exact snoc _ _ (ih _ (by simp [hn]))

end WM.Codec
