import WM.Lemmas.QualityBinary
/-! Quality contract of `IntersectionMatcher` (the `skip_to_quality` loop). -/
namespace WM.Matcher

theorem interWith_tail_right (f) {x : Nat} {r s : Rat} {La Lb : Den} (hA : Asc ((x, r) :: La))
    (hB : Asc ((x, s) :: Lb)) : interWith f La ((x, s) :: Lb) = interWith f La Lb := by
  have := interWith_dropBelow_right f (A := La) (B := (x, s) :: Lb) (x := x + 1) hA.tail hB
    (fun p hp => hA.head_lt p hp)
  rw [tail_eq_dropBelow hB] at this
  exact this.symm

theorem interWith_tail_left (f) {x : Nat} {r s : Rat} {La Lb : Den} (hA : Asc ((x, r) :: La))
    (hB : Asc ((x, s) :: Lb)) : interWith f ((x, r) :: La) Lb = interWith f La Lb := by
  have := interWith_dropBelow_left f (A := (x, r) :: La) (B := Lb) (y := x + 1) hA
    (fun p hp => hB.head_lt p hp)
  rw [tail_eq_dropBelow hA] at this
  exact this.symm

theorem keeps_cons {q : Rat} {x : Nat} {s : Rat} {L : Den} (h : s ≤ q) : Keeps q L ((x, s) :: L) :=
  keeps_append_left (P := [(x, s)]) (S := L) (by intro p hp; simp at hp; rw [hp]; exact h)

namespace Inter
variable {α β : Type} {A : Ops α} {B : Ops β} {dA fA : α → Den} {dB fB : β → Den}
  {WQA W0A : α → Prop} {WQB W0B : β → Prop}

/-- left branch of the loop body: `a` is asked to skip below `q - b.max_quality()` and, if it is still on
    the current document, advanced by one -/
theorem skipSide_left (QA : QFaithful A dA fA WQA W0A) (QB : QFaithful B dB fB WQB W0B) (a : α) (b : β)
    (wa : WQA a) (wb : WQB b) (q aq bq bmax : Rat) (y : Nat) (ra rb : Rat) (La Lb : Den)
    (ha : dA a = (y, ra) :: La) (hb : dB b = (y, rb) :: Lb) (haq : ra ≤ aq) (hbq : rb ≤ bq) (hlt : aq + bq < q)
    (hbmax : BoundedBy bmax (dB b)) :
    ∃ a'' sk, skipSide A a (q - bmax) y = .ok (a'', sk) ∧ WQA a'' ∧
      Keeps q (interWith (· + ·) (dA a'') (dB b)) (interWith (· + ·) (dA a) (dB b)) ∧
      A.rem a'' < A.rem a ∧ fA a'' = fA a := by
  have ascA := QA.curQ.asc _ wa
  have ascB := QB.curQ.asc _ wb
  obtain ⟨a', sk, g1, g2, g3, g4, g5, g6⟩ := QA.skipQ a (q - bmax) wa (by rw [ha]; simp)
  have ascA' := QA.curQ.asc _ g2
  have K1 : Keeps q (interWith (· + ·) (dA a') (dB b)) (interWith (· + ·) (dA a) (dB b)) :=
    keeps_interAdd_left ascA ascA' g3 (by intro e he; have := hbmax e he; grind)
  unfold skipSide
  simp only [g1, bind, Except.bind]
  by_cases ha'0 : dA a' = []
  · have hina' := (QA.curQ.inactive g2).2 ha'0
    refine ⟨a', sk, by simp [hina']; rfl, g2, K1, g5 (by rw [ha'0, ha]; simp), g6⟩
  · obtain ⟨x', r', L', ha'⟩ := exists_cons_of_ne_nil ha'0
    have hacta' := (QA.curQ.active _ g2).2 ha'0
    simp only [hacta', ↓reduceIte, QA.curQ.id _ _ _ _ g2 ha']
    by_cases hxy : x' = y
    · subst hxy
      obtain ⟨a'', n1, n2, n3, n4, n5⟩ := QA.curQ.next _ _ _ _ g2 ha'
      refine ⟨a'', sk, by simp [Ops.nextIf, n1]; rfl, n2, ?_, by omega, by rw [n5, g6]⟩
      -- the current document scores at most aq + bq < q
      have hr' : r' ≤ ra := by
        obtain ⟨r0, h0, hle⟩ := g3.domp ascA' ascA (d := x') (by rw [ha']; exact lookup_head _ _ _)
        rw [ha, lookup_head] at h0; cases h0; exact hle
      have e1 : interWith (· + ·) (dA a') (dB b) = (x', r' + rb) :: interWith (· + ·) L' (dB b) := by
        rw [ha', hb, interWith_cons_cons _ (ha' ▸ ascA') (hb ▸ ascB),
          interWith_tail_right _ (ha' ▸ ascA') (hb ▸ ascB)]
      refine Keeps.trans ?_ K1
      rw [e1, n3]
      exact keeps_cons (by grind)
    · have hne : (x' == y) = false := by simp [hxy]
      refine ⟨a', sk, by simp [Ops.nextIf, hne]; rfl, g2, K1, g5 ?_, g6⟩
      rw [ha', ha]; intro e; cases e; exact hxy rfl

/-- right branch (symmetric) -/
theorem skipSide_right (QA : QFaithful A dA fA WQA W0A) (QB : QFaithful B dB fB WQB W0B) (a : α) (b : β)
    (wa : WQA a) (wb : WQB b) (q aq bq amax : Rat) (y : Nat) (ra rb : Rat) (La Lb : Den)
    (ha : dA a = (y, ra) :: La) (hb : dB b = (y, rb) :: Lb) (haq : ra ≤ aq) (hbq : rb ≤ bq) (hlt : aq + bq < q)
    (hamax : BoundedBy amax (dA a)) :
    ∃ b'' sk, skipSide B b (q - amax) y = .ok (b'', sk) ∧ WQB b'' ∧
      Keeps q (interWith (· + ·) (dA a) (dB b'')) (interWith (· + ·) (dA a) (dB b)) ∧
      B.rem b'' < B.rem b ∧ fB b'' = fB b := by
  have ascA := QA.curQ.asc _ wa
  have ascB := QB.curQ.asc _ wb
  obtain ⟨b', sk, g1, g2, g3, g4, g5, g6⟩ := QB.skipQ b (q - amax) wb (by rw [hb]; simp)
  have ascB' := QB.curQ.asc _ g2
  have K1 : Keeps q (interWith (· + ·) (dA a) (dB b')) (interWith (· + ·) (dA a) (dB b)) :=
    keeps_interAdd_right ascA ascB ascB' g3 (by intro e he; have := hamax e he; grind)
  unfold skipSide
  simp only [g1, bind, Except.bind]
  by_cases hb'0 : dB b' = []
  · have hinb' := (QB.curQ.inactive g2).2 hb'0
    refine ⟨b', sk, by simp [hinb']; rfl, g2, K1, g5 (by rw [hb'0, hb]; simp), g6⟩
  · obtain ⟨x', r', L', hb'⟩ := exists_cons_of_ne_nil hb'0
    have hactb' := (QB.curQ.active _ g2).2 hb'0
    simp only [hactb', ↓reduceIte, QB.curQ.id _ _ _ _ g2 hb']
    by_cases hxy : x' = y
    · subst hxy
      obtain ⟨b'', n1, n2, n3, n4, n5⟩ := QB.curQ.next _ _ _ _ g2 hb'
      refine ⟨b'', sk, by simp [Ops.nextIf, n1]; rfl, n2, ?_, by omega, by rw [n5, g6]⟩
      have hr' : r' ≤ rb := by
        obtain ⟨r0, h0, hle⟩ := g3.domp ascB' ascB (d := x') (by rw [hb']; exact lookup_head _ _ _)
        rw [hb, lookup_head] at h0; cases h0; exact hle
      have e1 : interWith (· + ·) (dA a) (dB b') = (x', ra + r') :: interWith (· + ·) (dA a) L' := by
        rw [ha, hb', interWith_cons_cons _ (ha ▸ ascA) (hb' ▸ ascB')]
        congr 1
        exact (interWith_tail_left _ (ha ▸ ascA) (hb' ▸ ascB')).symm
      refine Keeps.trans ?_ K1
      rw [e1, n3]
      exact keeps_cons (by grind)
    · have hne : (x' == y) = false := by simp [hxy]
      refine ⟨b', sk, by simp [Ops.nextIf, hne]; rfl, g2, K1, g5 ?_, g6⟩
      rw [hb', hb]; intro e; cases e; exact hxy rfl

/-- invariant of a quality-capable intersection -/
def WQ (dA : α → Den) (dB : β → Den) (WQA : α → Prop) (WQB : β → Prop) (m : Bin α β) : Prop :=
  WQA m.a ∧ WQB m.b ∧ Aligned dA dB m

theorem skipQLoop_spec (QA : QFaithful A dA fA WQA W0A) (QB : QFaithful B dB fB WQB W0B) (q : Rat) :
    ∀ (fuel : Nat) (m : Bin α β) (aq bq : Rat) (skipped : Nat), WQ dA dB WQA WQB m →
      (∀ x r L, dA m.a = (x, r) :: L → r ≤ aq) → (∀ x r L, dB m.b = (x, r) :: L → r ≤ bq) →
      A.rem m.a + B.rem m.b < fuel →
      ∃ m' k, skipQLoop A B q fuel m aq bq skipped = .ok (m', k) ∧ WQ dA dB WQA WQB m' ∧
        Keeps q (interWith (· + ·) (dA m'.a) (dB m'.b)) (interWith (· + ·) (dA m.a) (dB m.b)) ∧
        A.rem m'.a + B.rem m'.b ≤ A.rem m.a + B.rem m.b ∧
        (m' = m ∨ A.rem m'.a + B.rem m'.b < A.rem m.a + B.rem m.b) ∧
        fA m'.a = fA m.a ∧ fB m'.b = fB m.b := by
  intro fuel
  induction fuel with
  | zero => intro m aq bq sk _ _ _ h; omega
  | succ n ih =>
    intro m aq bq skipped hw haq hbq hfuel
    obtain ⟨wa, wb, hal⟩ := hw
    unfold skipQLoop
    by_cases hc : (A.isActive m.a && B.isActive m.b && decide (aq + bq < q)) = true
    · simp only [hc, ↓reduceIte]
      simp only [Bool.and_eq_true, decide_eq_true_eq] at hc
      obtain ⟨⟨hacta, hactb⟩, hlt⟩ := hc
      have ha0 := (QA.curQ.active _ wa).1 hacta
      have hb0 := (QB.curQ.active _ wb).1 hactb
      obtain ⟨y, ra, La, ha⟩ := exists_cons_of_ne_nil ha0
      obtain ⟨y', rb, Lb, hb⟩ := exists_cons_of_ne_nil hb0
      have hyy := hal y ra La y' rb Lb ha hb
      subst hyy
      -- one step of the body
      have step : ∃ m1 sk, skipStep A B q m aq bq = .ok (m1, sk) ∧ WQA m1.a ∧ WQB m1.b ∧
          Keeps q (interWith (· + ·) (dA m1.a) (dB m1.b)) (interWith (· + ·) (dA m.a) (dB m.b)) ∧
          A.rem m1.a + B.rem m1.b < A.rem m.a + B.rem m.b ∧ fA m1.a = fA m.a ∧ fB m1.b = fB m.b := by
        unfold skipStep
        by_cases hab : aq < bq
        · simp only [hab, ↓reduceIte]
          obtain ⟨bmax, hb1, hb2⟩ := QB.max m.b (QB.toW0 _ wb)
          obtain ⟨a'', sk, g1, g2, g3, g4, g5⟩ := skipSide_left QA QB m.a m.b wa wb q aq bq bmax y ra rb La Lb ha hb
            (haq _ _ _ ha) (hbq _ _ _ hb) hlt hb2
          exact ⟨{ m with a := a'' }, sk, by simp [hb1, QB.curQ.id _ _ _ _ wb hb, g1, bind, Except.bind]; rfl,
            g2, wb, g3, by show A.rem a'' + B.rem m.b < _; omega, g5, rfl⟩
        · simp only [hab, ↓reduceIte]
          obtain ⟨amax, ha1, ha2⟩ := QA.max m.a (QA.toW0 _ wa)
          obtain ⟨b'', sk, g1, g2, g3, g4, g5⟩ := skipSide_right QA QB m.a m.b wa wb q aq bq amax y ra rb La Lb ha hb
            (haq _ _ _ ha) (hbq _ _ _ hb) hlt ha2
          exact ⟨{ m with b := b'' }, sk, by simp [ha1, QA.curQ.id _ _ _ _ wa ha, g1, bind, Except.bind]; rfl,
            wa, g2, g3, by show A.rem m.a + B.rem b'' < _; omega, rfl, g5⟩
      obtain ⟨m1, sk, s1, s2, s3, s4, s5, s6, s7⟩ := step
      simp only [s1, bind, Except.bind]
      by_cases hin : (!A.isActive m1.a || !B.isActive m1.b) = true
      · simp only [hin, ↓reduceIte]
        refine ⟨m1, skipped + sk, rfl, ⟨s2, s3, ?_⟩, s4, by omega, Or.inr s5, s6, s7⟩
        simp only [Bool.or_eq_true, Bool.not_eq_true'] at hin
        rcases hin with h1 | h1
        · exact aligned_of_nil_left ((QA.curQ.inactive s2).1 h1)
        · exact aligned_of_nil_right ((QB.curQ.inactive s3).1 h1)
      · simp only [hin, Bool.false_eq_true, ↓reduceIte]
        simp only [Bool.or_eq_true, Bool.not_eq_true', not_or, Bool.not_eq_false] at hin
        rw [realign_eq_findFirst m1 hin.1 hin.2]
        obtain ⟨m2, f1, f2⟩ := findFirst_spec (· + ·) QA.curQ QB.curQ m1 s2 s3
        obtain ⟨aq', ba1, ba2⟩ := QA.block m2.a f2.wa
        obtain ⟨bq', bb1, bb2⟩ := QB.block m2.b f2.wb
        have r1 := f2.rem_a
        have r2 := f2.rem_b
        obtain ⟨m', k, i1, i2, i3, i4, i5, i6, i7⟩ := ih m2 aq' bq' (skipped + sk) ⟨f2.wa, f2.wb, f2.aligned⟩ ba2 bb2
          (by omega)
        refine ⟨m', k, by simp [f1, ba1, bb1, i1], i2, ?_, by omega, Or.inr (by omega), by rw [i6, f2.full_a, s6],
          by rw [i7, f2.full_b, s7]⟩
        refine i3.trans ?_
        rw [f2.den_eq]; exact s4
    · simp only [hc, Bool.false_eq_true, ↓reduceIte]
      exact ⟨m, skipped, rfl, ⟨wa, wb, hal⟩, Keeps.refl _ _, Nat.le_refl _, Or.inl rfl, rfl, rfl⟩

theorem qfaithful (QA : QFaithful A dA fA WQA W0A) (QB : QFaithful B dB fB WQB W0B) :
    QFaithful (Inter.ops A B) (fun m => interWith (· + ·) (dA m.a) (dB m.b))
      (fun m => interWith (· + ·) (fA m.a) (fB m.b))
      (fun m => WQA m.a ∧ WQB m.b ∧ Aligned dA dB m) (fun m => W0A m.a ∧ W0B m.b ∧ Aligned dA dB m) where
  toW0 m h := ⟨QA.toW0 _ h.1, QB.toW0 _ h.2.1, h.2.2⟩
  cur0 := Inter.faithful QA.cur0 QB.cur0
  curQ := Inter.faithful QA.curQ QB.curQ
  nn m h := nonNeg_interWith _ (QA.cur0.asc _ h.1) (QA.nn _ h.1) (QB.nn _ h.2.1) (fun a b ha hb => by grind)
  sup m h := by show (A.supportsBQ m.a && B.supportsBQ m.b) = true; rw [QA.sup _ h.1, QB.sup _ h.2.1]; rfl
  max m h := by
    obtain ⟨qa, ha1, ha2, ha3⟩ := QA.maxA m.a h.1
    obtain ⟨qb, hb1, hb2, hb3⟩ := QB.maxA m.b h.2.1
    refine ⟨qa + qb, by show Union.maxQuality A B m = _; simp [Union.maxQuality, ha1, hb1, bind, Except.bind]; rfl, ?_⟩
    exact bounded_interAdd (QA.cur0.asc _ h.1) ha2 hb2
  maxNonneg m q h hq := by
    obtain ⟨qa, ha1, ha2, ha3⟩ := QA.maxA m.a h.1
    obtain ⟨qb, hb1, hb2, hb3⟩ := QB.maxA m.b h.2.1
    have : Union.maxQuality A B m = .ok (qa + qb) := by simp [Union.maxQuality, ha1, hb1, bind, Except.bind]; rfl
    change Union.maxQuality A B m = .ok q at hq
    rw [this] at hq; cases hq
    exact Rat.add_nonneg ha3 hb3
  block m h := by
    obtain ⟨qa, ha1, ha2, ha3⟩ := QA.blockA m.a h.1
    obtain ⟨qb, hb1, hb2, hb3⟩ := QB.blockA m.b h.2.1
    refine ⟨qa + qb, by show Union.blockQuality A B m = _; simp [Union.blockQuality, ha1, hb1, bind, Except.bind]; rfl, ?_⟩
    intro x r L hd
    rcases den_cases (· + ·) QA.curQ QB.curQ m h.1 h.2.1 h.2.2 with ⟨e1, -⟩ | ⟨x', ra, rb, La, Lb, e1, e2, e3⟩
    · rw [e1] at hd; cases hd
    · rw [e3] at hd
      obtain ⟨h4, -⟩ := List.cons.inj hd; cases h4
      have := ha2 _ _ _ e1
      have := hb2 _ _ _ e2
      show ra + rb ≤ qa + qb
      grind
  skipQ m q h hne := by
    show ∃ s' k, Inter.skipToQuality A B m q = _ ∧ _
    unfold Inter.skipToQuality
    obtain ⟨aq, ba1, ba2⟩ := QA.block m.a h.1
    obtain ⟨bq, bb1, bb2⟩ := QB.block m.b h.2.1
    obtain ⟨m', k, i1, i2, i3, i4, i5, i6, i7⟩ := skipQLoop_spec QA QB q (A.rem m.a + B.rem m.b + 1) m aq bq 0 h ba2 bb2
      (by omega)
    refine ⟨m', k, by simp [ba1, bb1, i1, bind, Except.bind], i2, i3, i4, ?_, by simp only [i6, i7]⟩
    intro hd
    rcases i5 with e | e
    · exact absurd (by rw [e]) hd
    · exact e

end Inter
end WM.Matcher
