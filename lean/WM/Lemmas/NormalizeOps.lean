import WM.Lemmas.NormalizeMain
/-! Operators, `accept(identity)`, `replace` of an absent term. -/
namespace WM.Normalize
open WM.Sat WM.Clean

mutual
theorem acceptId_of_notFree : ∀ (q : Q), notFree q = true → acceptId q = q
  | .null, _ => rfl
  | .every _ _, _ => rfl
  | .term _ _ _, _ => rfl
  | .pre _ _ _ _, _ => rfl
  | .wild _ _ _ _, _ => rfl
  | .multi _ _ _ _ _, _ => rfl
  | .range _ _ _ _ _ _ _, _ => rfl
  | .phrase _ _ _ _, _ => rfl
  | .comp _ qs _, h => by simp only [notFree] at h; simp only [acceptId, acceptIdList_of_notFree qs h]
  | .seq _ qs _ _ _, h => by simp only [notFree] at h; simp only [acceptId, acceptIdList_of_notFree qs h]
  | .not _ _, h => by simp [notFree] at h
  | .bin _ a b, h => by
    simp only [notFree, Bool.and_eq_true] at h
    simp only [acceptId, acceptId_of_notFree a h.1, acceptId_of_notFree b h.2]
  | .const q _, h => by simp only [notFree] at h; simp only [acceptId, acceptId_of_notFree q h]
  | .opq _ _, _ => rfl
theorem acceptIdList_of_notFree : ∀ (qs : List Q), notFreeList qs = true → acceptIdList qs = qs
  | [], _ => rfl
  | q :: qs, h => by
    simp only [notFreeList, Bool.and_eq_true] at h
    simp only [acceptIdList, acceptId_of_notFree q h.1, acceptIdList_of_notFree qs h.2]
end

mutual
theorem acceptId_sat (env : Env) : ∀ (q : Q), seqNotFree q = true → sat env (acceptId q) = sat env q
  | .null, _ => rfl
  | .every _ _, _ => rfl
  | .term _ _ _, _ => rfl
  | .pre _ _ _ _, _ => rfl
  | .wild _ _ _ _, _ => rfl
  | .multi _ _ _ _ _, _ => rfl
  | .range _ _ _ _ _ _ _, _ => rfl
  | .phrase _ _ _ _, _ => rfl
  | .comp k qs _, h => by
    simp only [seqNotFree] at h
    have := acceptIdList_sat env qs h
    funext d
    cases k <;> simp only [acceptId, sat, this.1, this.2, this.2.2]
  | .seq _ qs _ _ _, h => by
    simp only [seqNotFree] at h
    simp only [acceptId, acceptIdList_of_notFree qs h]
  | .not q _, h => by
    simp only [seqNotFree] at h
    funext d
    simp only [acceptId, sat, acceptId_sat env q h]
  | .bin k a b, h => by
    simp only [seqNotFree, Bool.and_eq_true] at h
    funext d
    cases k <;> simp only [acceptId, sat, acceptId_sat env a h.1, acceptId_sat env b h.2]
  | .const q _, h => by
    simp only [seqNotFree] at h
    funext d
    simp only [acceptId, sat, acceptId_sat env q h]
  | .opq _ _, _ => rfl
theorem acceptIdList_sat (env : Env) : ∀ (qs : List Q), seqNotFreeList qs = true →
    (acceptIdList qs).isEmpty = qs.isEmpty ∧ satAll env (acceptIdList qs) = satAll env qs
      ∧ satAny env (acceptIdList qs) = satAny env qs
  | [], _ => ⟨rfl, rfl, rfl⟩
  | q :: qs, h => by
    simp only [seqNotFreeList, Bool.and_eq_true] at h
    have h1 := acceptId_sat env q h.1
    have h2 := acceptIdList_sat env qs h.2
    refine ⟨rfl, ?_, ?_⟩
    · funext d; simp only [acceptIdList, satAll, h1, h2.2.1]
    · funext d; simp only [acceptIdList, satAny, h1, h2.2.2]
end

mutual
theorem replace_absent_eq (fld : Field) (old new : Text) :
    ∀ (q : Q), absent fld old q = true → replace fld old new q = acceptId q
  | .null, _ => rfl
  | .every _ _, _ => rfl
  | .term f t b, h => by
    simp only [absent, Bool.not_eq_true', Bool.and_eq_false_iff, beq_eq_false_iff_ne, ne_eq] at h
    simp only [replace, acceptId]
    rw [if_neg]
    rintro ⟨h1, h2⟩
    rcases h with h | h
    · exact h h1
    · exact h h2
  | .pre _ _ _ _, _ => rfl
  | .wild _ _ _ _, _ => rfl
  | .multi k f t key b, h => by
    simp only [absent, Bool.not_eq_true', Bool.and_eq_false_iff, beq_eq_false_iff_ne, ne_eq,
      Bool.or_eq_false_iff] at h
    simp only [replace, acceptId]
    rw [if_neg]
    rintro ⟨h1, h2, h3⟩
    rcases h with (h | h) | h
    · rcases h1 with h1 | h1
      · exact h.1 h1
      · exact h.2 h1
    · exact h h2
    · exact h h3
  | .range _ _ _ _ _ _ _, _ => rfl
  | .phrase f ws s b, h => by
    simp only [absent, Bool.not_eq_true', Bool.and_eq_false_iff, beq_eq_false_iff_ne, ne_eq] at h
    simp only [replace, acceptId]
    split
    · rename_i hf
      rcases h with h | h
      · exact absurd hf h
      · have hm : old ∉ ws := by
          intro hc
          have : ws.contains old = true := by simpa using hc
          rw [h] at this
          exact absurd this (by simp)
        have : ws.map (fun w => if w = old then new else w) = ws := by
          conv => rhs; rw [← List.map_id ws]
          apply List.map_congr_left
          intro w hw
          rw [if_neg]
          · rfl
          · rintro rfl; exact hm hw
        rw [this]
    · rfl
  | .comp _ qs _, h => by
    simp only [absent] at h
    simp only [replace, acceptId, replaceList_absent_eq fld old new qs h]
  | .seq _ qs _ _ _, h => by
    simp only [absent] at h
    simp only [replace, acceptId, replaceList_absent_eq fld old new qs h]
  | .not q _, h => by
    simp only [absent] at h
    simp only [replace, acceptId, replace_absent_eq fld old new q h]
  | .bin _ a b, h => by
    simp only [absent, Bool.and_eq_true] at h
    simp only [replace, acceptId, replace_absent_eq fld old new a h.1, replace_absent_eq fld old new b h.2]
  | .const q _, h => by
    simp only [absent] at h
    simp only [replace, acceptId, replace_absent_eq fld old new q h]
  | .opq _ _, _ => rfl
theorem replaceList_absent_eq (fld : Field) (old new : Text) :
    ∀ (qs : List Q), absentList fld old qs = true → replaceList fld old new qs = acceptIdList qs
  | [], _ => rfl
  | q :: qs, h => by
    simp only [absentList, Bool.and_eq_true] at h
    simp only [replaceList, acceptIdList, replace_absent_eq fld old new q h.1,
      replaceList_absent_eq fld old new qs h.2]
end

end WM.Normalize
