import WM.Lemmas.IndexUndelete
/-! Assembling the per-call lemmas: runs, sessions, histories. -/
namespace WM.Index
open WM.Dict

/-- Side conditions of the refinement, per call (evaluated in the state the call is made in):
    `update_document` must be unambiguous (at most one live committed document per unique term of
    the new document — `first_id` deletes only one); a field that is added must not occur in live
    documents (field names are not reused after `remove_field`). -/
def OpOK (w : Writer) (ss : Sess) : Op → Prop
  | .update d => Unambiguous ss d
  | .addField f _ => ∀ q ∈ liveGlobal w.segs 0, q.1.hasField f = false
  | _ => True

theorem Writer.addField_wf (w : Writer) (f : Nat) (u : Bool) (w' : Writer) (hwf : w.WF)
    (h : w.addField f u = .ok w') : w'.WF := by
  unfold Writer.addField at h
  split at h
  · cases h
  · split at h
    · cases h
    · simp only [Except.ok.injEq] at h; subst h; exact ⟨hwf.segs, hwf.pool⟩

theorem Writer.removeField_wf (w : Writer) (f : Nat) (w' : Writer) (hwf : w.WF)
    (h : w.removeField f = .ok w') : w'.WF := by
  unfold Writer.removeField at h
  split at h
  · cases h
  · split at h
    · cases h
    · simp only [Except.ok.injEq] at h; subst h; exact ⟨hwf.segs, hwf.pool⟩

theorem step_sim (w : Writer) (ss : Sess) (h : SRel w ss) (hwf : w.WF) (op : Op) (hok : OpOK w ss op) :
    SRel (w.step op).1 (ss.step (w.specOp op)) ∧ (w.step op).1.WF := by
  cases op with
  | add d =>
    refine ⟨step_add w ss h d, ?_⟩
    cases h1 : w.addDocument d with
    | ok w' => simp only [Writer.step, h1]; exact Writer.addDocument_wf w d w' hwf h1
    | error e => simp only [Writer.step, h1]; exact hwf
  | update d => exact step_update w ss h hwf d hok
  | delDoc n =>
    refine ⟨step_delDoc w ss h n, ?_⟩
    cases h1 : w.deleteDocument n true with
    | ok w' => simp only [Writer.step, h1]; exact Writer.deleteDocument_wf w n true w' hwf h1
    | error e => simp only [Writer.step, h1]; exact hwf
  | undelDoc n =>
    refine ⟨step_undelDoc w ss h hwf n, ?_⟩
    cases h1 : w.deleteDocument n false with
    | ok w' => simp only [Writer.step, h1]; exact Writer.deleteDocument_wf w n false w' hwf h1
    | error e => simp only [Writer.step, h1]; exact hwf
  | delBy q =>
    cases q with
    | term f t =>
      refine ⟨(step_delBy_term w ss h hwf f t).1, ?_⟩
      cases h1 : w.deleteMany (docsForQuery w.schema (.term f t) w.segs 0) with
      | ok w' =>
        simp only [Writer.step, Writer.deleteByQuery, h1, Except.map]
        exact Writer.deleteMany_wf w _ w' hwf h1
      | error e => simp only [Writer.step, Writer.deleteByQuery, h1, Except.map]; exact hwf
    | pred p =>
      refine ⟨(step_delBy_pred w ss h p).1, ?_⟩
      cases h1 : w.deleteMany (docsForQuery w.schema (.pred p) w.segs 0) with
      | ok w' =>
        simp only [Writer.step, Writer.deleteByQuery, h1, Except.map]
        exact Writer.deleteMany_wf w _ w' hwf h1
      | error e => simp only [Writer.step, Writer.deleteByQuery, h1, Except.map]; exact hwf
  | addField f u =>
    refine ⟨step_addField w ss h f u hok, ?_⟩
    cases h1 : w.addField f u with
    | ok w' => simp only [Writer.step, h1]; exact Writer.addField_wf w f u w' hwf h1
    | error e => simp only [Writer.step, h1]; exact hwf
  | removeField f =>
    refine ⟨step_removeField w ss h f, ?_⟩
    cases h1 : w.removeField f with
    | ok w' => simp only [Writer.step, h1]; exact Writer.removeField_wf w f w' hwf h1
    | error e => simp only [Writer.step, h1]; exact hwf

/-- the side conditions along a whole run -/
def RunOK : Writer → Sess → List Op → Prop
  | _, _, [] => True
  | w, ss, o :: r => OpOK w ss o ∧ RunOK (w.step o).1 (ss.step (w.specOp o)) r

theorem run_sim (w : Writer) (ss : Sess) (ops : List Op) (h : SRel w ss) (hwf : w.WF) (hok : RunOK w ss ops) :
    SRel (w.run ops) (ss.run (w.specOps ops)) ∧ (w.run ops).WF := by
  induction ops generalizing w ss with
  | nil => exact ⟨h, hwf⟩
  | cons o r ih =>
    obtain ⟨h1, h2⟩ := step_sim w ss h hwf o hok.1
    exact ih _ _ h1 h2 hok.2

/-- committed states: same schema, same documents up to order -/
structure Rel (t : Toc) (sp : State) : Prop where
  schema : sp.schema = t.schema
  docs : t.content.Perm sp.docs

theorem open_srel (t : Toc) (sp : State) (h : Rel t sp) : SRel t.writer sp.open_ where
  schema := h.schema
  committed := h.docs
  fresh := rfl
  fits := by simp [Toc.writer]
  notAdded := fun _ => rfl

/-- how the model's ending and the specification's correspond -/
inductive EndRel : Ending → SEnd → Prop
  | commit (plan : Plan) (h : PlanOK plan) : EndRel (.commit plan) .commit
  | clear : EndRel (.commit planClear) .commitClear
  | cancel : EndRel .cancel .cancel

/-- One session: the model commits (never raises) a well-formed TOC that holds what the
    specification session holds. -/
theorem session_sim (t : Toc) (sp : State) (hwf : t.WF) (h : Rel t sp) (ops : List Op) (e : Ending) (se : SEnd)
    (he : EndRel e se) (hok : RunOK t.writer sp.open_ ops) :
    ∃ t', t.session ops e = .ok t' ∧ t'.WF ∧ Rel t' (sp.session (t.writer.specOps ops) se) := by
  obtain ⟨hr, hw⟩ := run_sim t.writer sp.open_ ops (open_srel t sp h) (Toc.writer_wf t hwf) hok
  cases he with
  | cancel => exact ⟨t, rfl, hwf, h⟩
  | commit plan hplan =>
    obtain ⟨t', h1, wf'⟩ := Writer.commitPlan_ok _ plan hw (hplan.sub _)
    obtain ⟨c1, _, c3⟩ := Writer.commitPlan_content _ plan t' h1 hr.fits hr.notAdded
    refine ⟨t', h1, wf', ⟨by simp [State.session, Sess.commit, hr.schema, c1], ?_⟩⟩
    rw [c3]
    simp only [State.session, Sess.commit, hr.fresh]
    have h2 := contentOf_perm (t.writer.run ops).schema (hplan (t.writer.run ops).segs)
    rw [contentOf_append] at h2
    -- u ++ (n ++ m) ~ (m ++ u) ++ n ~ committed ++ n
    refine List.Perm.trans ?_ ((h2.trans hr.committed).append_right _)
    refine (List.Perm.append_left _ List.perm_append_comm).trans ?_
    rw [← List.append_assoc]
    exact List.Perm.append_right _ List.perm_append_comm
  | clear =>
    obtain ⟨t', h1, wf'⟩ := Writer.commitPlan_ok _ planClear hw (planClear_sub _)
    obtain ⟨c1, _, c3⟩ := Writer.commitPlan_content _ planClear t' h1 hr.fits hr.notAdded
    refine ⟨t', h1, wf', ⟨by simp [State.session, Sess.commitClear, hr.schema, c1], ?_⟩⟩
    rw [c3]
    simp [State.session, Sess.commitClear, hr.fresh, planClear, contentOf]

/-- Model and specification through any number of successive writers. -/
def lockstep : Toc → State → List (List Op × Ending × SEnd) → Except Err (Toc × State)
  | t, sp, [] => .ok (t, sp)
  | t, sp, (ops, e, se) :: r =>
    (t.session ops e).bind fun t' => lockstep t' (sp.session (t.writer.specOps ops) se) r

def HistOK : Toc → State → List (List Op × Ending × SEnd) → Prop
  | _, _, [] => True
  | t, sp, (ops, e, se) :: r =>
    EndRel e se ∧ RunOK t.writer sp.open_ ops ∧
      ∀ t', t.session ops e = .ok t' → HistOK t' (sp.session (t.writer.specOps ops) se) r

theorem lockstep_fst (t : Toc) (sp : State) (h : List (List Op × Ending × SEnd)) :
    (lockstep t sp h).map (·.1) = t.history (h.map (fun x => (x.1, x.2.1))) := by
  induction h generalizing t sp with
  | nil => rfl
  | cons x r ih =>
    obtain ⟨ops, e, se⟩ := x
    simp only [lockstep, Toc.history, List.map_cons]
    cases t.session ops e with
    | error er => rfl
    | ok t' => exact ih t' _

theorem history_sim (t : Toc) (sp : State) (hwf : t.WF) (h : Rel t sp) (hist : List (List Op × Ending × SEnd))
    (hok : HistOK t sp hist) :
    ∃ t' sp', lockstep t sp hist = .ok (t', sp') ∧ t'.WF ∧ Rel t' sp' := by
  induction hist generalizing t sp with
  | nil => exact ⟨t, sp, rfl, hwf, h⟩
  | cons x r ih =>
    obtain ⟨ops, e, se⟩ := x
    obtain ⟨he, hrun, hrest⟩ := hok
    obtain ⟨t1, h1, wf1, rel1⟩ := session_sim t sp hwf h ops e se he hrun
    obtain ⟨t', sp', h2, wf', rel'⟩ := ih t1 _ wf1 rel1 (hrest t1 h1)
    exact ⟨t', sp', by simp only [lockstep, h1, Except.bind]; exact h2, wf', rel'⟩

end WM.Index
