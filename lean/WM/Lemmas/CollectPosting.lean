import WM.Model.Collect
/-! Helper lemmas for C14.rank_iso: the order array of `sorting.py: PostingCategorizer`. -/
namespace WM.Collect

/-- The largest index of a posting list that contains `d`. -/
def lastIdx (d : Nat) : List (List Nat) → Option Nat
  | [] => none
  | ps :: rest =>
    match lastIdx d rest with
    | some j => some (j + 1)
    | none => if d ∈ ps then some 0 else none

theorem setAll_length (i : Nat) (ps : List Nat) (arr : List Nat) :
    (ps.foldl (fun arr d => arr.set d i) arr).length = arr.length := by
  induction ps generalizing arr with
  | nil => rfl
  | cons p ps ih => simp only [List.foldl_cons]; rw [ih]; simp

theorem setAll_get (i : Nat) (ps : List Nat) (arr : List Nat) (d : Nat) :
    (ps.foldl (fun arr d => arr.set d i) arr)[d]? = if d ∈ ps ∧ d < arr.length then some i else arr[d]? := by
  induction ps generalizing arr with
  | nil => simp
  | cons p ps ih =>
    simp only [List.foldl_cons]
    rw [ih]
    simp only [List.length_set, List.mem_cons]
    by_cases hd : d ∈ ps
    · by_cases hl : d < arr.length
      · simp [hd, hl]
      · simp only [hd, hl, and_false, if_false, or_true]
        rw [List.getElem?_set]
        split
        · next h => subst h; simp [hl]
        · rfl
    · simp only [hd, false_and, if_false, or_false]
      rw [List.getElem?_set]
      by_cases hp : p = d
      · subst hp
        by_cases hl : p < arr.length
        · simp [hl]
        · simp [hl]
      · have : ¬ d = p := fun h => hp h.symm
        simp [hp, this]

theorem postingFold_get (d : Nat) :
    ∀ (ts : List (List Nat)) (k : Nat) (arr : List Nat),
      ((ts.zipIdx k).foldl (fun arr (x : List Nat × Nat) => x.1.foldl (fun arr d => arr.set d x.2) arr) arr)[d]? =
        match lastIdx d ts with
        | some j => if d < arr.length then some (k + j) else none
        | none => arr[d]? := by
  intro ts
  induction ts with
  | nil => intro k arr; simp [lastIdx]
  | cons ps rest ih =>
    intro k arr
    simp only [List.zipIdx_cons, List.foldl_cons]
    rw [ih]
    simp only [lastIdx, setAll_length]
    cases h : lastIdx d rest with
    | some j =>
      simp only []
      split
      · congr 1; omega
      · rfl
    | none =>
      simp only []
      rw [setAll_get]
      by_cases hd : d ∈ ps
      · simp only [hd, true_and, if_true]
        split
        · simp
        · next hl => simp [List.getElem?_eq_none (Nat.le_of_not_lt hl)]
      · simp [hd]

end WM.Collect

namespace WM.Collect

theorem lastIdx_none (d : Nat) (ts : List (List Nat)) : lastIdx d ts = none ↔ ∀ ps ∈ ts, d ∉ ps := by
  induction ts with
  | nil => simp [lastIdx]
  | cons ps rest ih =>
    simp only [lastIdx, List.mem_cons, forall_eq_or_imp]
    cases h : lastIdx d rest with
    | some j =>
      simp only []
      constructor
      · intro h'; cases h'
      · intro ⟨_, h2⟩; rw [ih.mpr h2] at h; cases h
    | none =>
      simp only []
      have := ih.mp h
      by_cases hd : d ∈ ps
      · simp [hd]
      · simp only [hd, if_false, not_false_eq_true, true_and]
        exact ⟨fun _ => this, fun _ => trivial⟩

theorem lastIdx_some (d : Nat) (ts : List (List Nat)) (j : Nat) (h : lastIdx d ts = some j) :
    (∃ ps, ts[j]? = some ps ∧ d ∈ ps) ∧ ∀ j' ps, ts[j']? = some ps → d ∈ ps → j' ≤ j := by
  induction ts generalizing j with
  | nil => simp [lastIdx] at h
  | cons ps rest ih =>
    simp only [lastIdx] at h
    cases hr : lastIdx d rest with
    | some i =>
      rw [hr] at h
      simp only [Option.some.injEq] at h
      subst h
      obtain ⟨⟨qs, hq1, hq2⟩, hmax⟩ := ih i hr
      refine ⟨⟨qs, by simpa using hq1, hq2⟩, ?_⟩
      intro j' ps' hj' hd
      cases j' with
      | zero => omega
      | succ j'' =>
        have := hmax j'' ps' (by simpa using hj') hd
        omega
    | none =>
      rw [hr] at h
      simp only [] at h
      by_cases hd : d ∈ ps
      · simp only [hd, if_true, Option.some.injEq] at h
        subst h
        refine ⟨⟨ps, rfl, hd⟩, ?_⟩
        intro j' ps' hj' hd'
        cases j' with
        | zero => omega
        | succ j'' =>
          have hnone := (lastIdx_none d rest).mp hr
          have hmem : ps' ∈ rest := List.mem_of_getElem? (by simpa using hj')
          exact absurd hd' (hnone ps' hmem)
      · simp [hd] at h

/-- The order array of `PostingCategorizer`: a document below `dc` holds the index of the last
    sortable term it has (for a single-valued field: of its value), `dc + 1` if it has none. -/
theorem postingArray_get (dc : Nat) (terms : List (List Nat)) (d : Nat) (hd : d < dc) :
    (postingArray dc terms)[d]? = some (match lastIdx d terms with | some j => j | none => dc + 1) := by
  unfold postingArray
  have := postingFold_get d terms 0 (List.replicate dc (dc + 1))
  simp only [List.length_replicate, Nat.zero_add] at this
  rw [this]
  cases lastIdx d terms with
  | some j => simp [hd]
  | none => simp [hd]

end WM.Collect
