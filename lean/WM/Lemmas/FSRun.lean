import WM.Model.FS
import WM.Lemmas.FSCommit
/-! Trace-level consequences of the step lemmas: prefixes, phases, clean-up. -/
namespace WM.FS

theorem run_append (fs : FS) (a b : List Event) : run fs (a ++ b) = run (run fs a) b := by
  simp [run, List.foldl_append]

theorem run_cons (fs : FS) (e : Event) (es : List Event) : run fs (e :: es) = run (step fs e) es := rfl

/-- A trace accepted by the checker: every prefix is accepted, the checker's file system is the
    one obtained by running the prefix, and the invariant holds there. -/
theorem chkRun_take {ix : Name} {old new : Toc} {tmp : Option Name} {c c' : Chk} {tr : List Event}
    (hinv : Inv ix old new tmp c) (h : chkRun ix old new tmp c tr = some c') (k : Nat) :
    ∃ ck, chkRun ix old new tmp c (tr.take k) = some ck ∧ ck.fs = run c.fs (tr.take k) ∧
      Inv ix old new tmp ck := by
  induction tr generalizing c k with
  | nil => exact ⟨c, by simp [chkRun], by simp [run], hinv⟩
  | cons e es ih =>
    cases k with
    | zero => exact ⟨c, by simp [chkRun], by simp [run], hinv⟩
    | succ k =>
      simp only [chkRun] at h
      cases hs : chkStep ix old new tmp c e with
      | none => rw [hs] at h; cases h
      | some c1 =>
        rw [hs] at h
        obtain ⟨ck, h1, h2, h3⟩ := ih (inv_step hinv hs) h k
        refine ⟨ck, by simp [chkRun, hs, h1], ?_, h3⟩
        have : c1.fs = step c.fs e := by
          unfold chkStep at hs
          cases ho : okEvent ix old new tmp c e with
          | none => rw [ho] at hs; cases hs
          | some ph => rw [ho] at hs; cases hs; rfl
        rw [h2, this]; rfl

theorem okEvent_post {ix : Name} {old new : Toc} {tmp : Option Name} {c : Chk} {e : Event} {ph : Phase}
    (h : okEvent ix old new tmp c e = some ph) :
    (ph = .post ↔ c.phase = .post ∨ ∃ a b, e = .rename a b) := by
  cases e with
  | create n =>
    simp only [okEvent] at h
    split at h
    · cases h
    · split at h
      · split at h
        · cases h; next hp => simp only [Bool.and_eq_true, decide_eq_true_eq] at hp; simp [hp.1]
        · cases h
      · cases h; simp
  | write n k => simp only [okEvent] at h; split at h <;> cases h; simp
  | setToc n t => simp only [okEvent] at h; split at h <;> cases h; simp
  | close n =>
    simp only [okEvent] at h
    split at h
    · split at h
      · split at h
        · cases h; next hp => simp [hp]
        · cases h
      · cases h; simp
    · cases h
  | rename a b =>
    simp only [okEvent] at h
    split at h
    · cases h; simp
    · cases h
  | delete n =>
    simp only [okEvent] at h
    cases hp : c.phase <;> rw [hp] at h <;> simp only at h <;> split at h <;> cases h <;> simp
  | other => simp only [okEvent] at h; cases h; simp

theorem chkStep_phase {ix : Name} {old new : Toc} {tmp : Option Name} {c c' : Chk} {e : Event}
    (h : chkStep ix old new tmp c e = some c') :
    (c'.phase = .post ↔ c.phase = .post ∨ ∃ a b, e = .rename a b) := by
  unfold chkStep at h
  cases ho : okEvent ix old new tmp c e with
  | none => rw [ho] at h; cases h
  | some ph => rw [ho] at h; cases h; exact okEvent_post ho

theorem renamed_cons_rename (a b : Name) (es : List Event) : renamed (.rename a b :: es) = true := rfl

theorem chkRun_phase {ix : Name} {old new : Toc} {tmp : Option Name} {c c' : Chk} {tr : List Event}
    (h : chkRun ix old new tmp c tr = some c') :
    (c'.phase = .post ↔ c.phase = .post ∨ renamed tr = true) := by
  induction tr generalizing c with
  | nil => simp only [chkRun] at h; cases h; simp [renamed]
  | cons e es ih =>
    simp only [chkRun] at h
    cases hs : chkStep ix old new tmp c e with
    | none => rw [hs] at h; cases h
    | some c1 =>
      rw [hs] at h
      rw [ih h, chkStep_phase hs]
      cases e <;> simp [renamed]

/-- Without a temp name (cancel) the checker never leaves the first phase. -/
theorem chkRun_cancel_phase {ix : Name} {old new : Toc} {c c' : Chk} {tr : List Event}
    (h : chkRun ix old new none c tr = some c') (hp : c.phase = .pre) : c'.phase = .pre := by
  induction tr generalizing c with
  | nil => simp only [chkRun] at h; cases h; exact hp
  | cons e es ih =>
    simp only [chkRun] at h
    cases hs : chkStep ix old new none c e with
    | none => rw [hs] at h; cases h
    | some c1 =>
      rw [hs] at h
      apply ih h
      unfold chkStep at hs
      cases ho : okEvent ix old new none c e with
      | none => rw [ho] at hs; cases hs
      | some ph =>
        rw [ho] at hs; cases hs
        show ph = .pre
        cases e with
        | create n =>
          simp only [okEvent] at ho
          split at ho
          · cases ho
          · simp at ho; rw [← ho, hp]
        | write n k => simp only [okEvent] at ho; split at ho <;> cases ho; exact hp
        | setToc n t => simp only [okEvent] at ho; split at ho <;> cases ho; exact hp
        | close n =>
          simp only [okEvent] at ho
          split at ho
          · simp at ho; rw [← ho, hp]
          · cases ho
        | rename a b => simp [okEvent] at ho
        | delete n =>
          simp only [okEvent] at ho
          rw [hp] at ho
          simp only at ho
          split at ho <;> cases ho
          rfl
        | other => simp only [okEvent] at ho; cases ho; exact hp

/-! ### clean-up after the rename -/

theorem split_at_rename (tr : List Event) (h : renamed tr = true) :
    tr = uptoRename tr ++ afterRename tr := by
  induction tr with
  | nil => cases h
  | cons e es ih =>
    cases e with
    | rename a b => simp [uptoRename, afterRename]
    | create n => simp only [uptoRename, afterRename, List.cons_append]; rw [← ih (by simpa [renamed] using h)]
    | write n k => simp only [uptoRename, afterRename, List.cons_append]; rw [← ih (by simpa [renamed] using h)]
    | setToc n t => simp only [uptoRename, afterRename, List.cons_append]; rw [← ih (by simpa [renamed] using h)]
    | close n => simp only [uptoRename, afterRename, List.cons_append]; rw [← ih (by simpa [renamed] using h)]
    | delete n => simp only [uptoRename, afterRename, List.cons_append]; rw [← ih (by simpa [renamed] using h)]
    | other => simp only [uptoRename, afterRename, List.cons_append]; rw [← ih (by simpa [renamed] using h)]

/-- After events that neither create nor rename, a name that is still listed was listed before
    and no `delete` of it occurred. -/
theorem listed_after_quiet (fs : FS) (es : List Event)
    (hq : ∀ e ∈ es, isCreate e = false ∧ isRename e = false) (n : Name)
    (h : n ∈ (run fs es).listing) : n ∈ fs.listing ∧ Event.delete n ∉ es := by
  induction es generalizing fs with
  | nil => exact ⟨h, by simp⟩
  | cons e es ih =>
    rw [run_cons] at h
    obtain ⟨h1, h2⟩ := ih (step fs e) (fun x hx => hq x (by simp [hx])) h
    have hqe := hq e (by simp)
    rw [mem_listing] at h1 ⊢
    cases e with
    | create m => simp [isCreate] at hqe
    | rename a b => simp [isRename] at hqe
    | write m k => simp only [step, modData_dir, modData_names] at h1; exact ⟨h1, by simp [h2]⟩
    | setToc m t => simp only [step, modData_dir, modData_names] at h1; exact ⟨h1, by simp [h2]⟩
    | close m => simp only [step, modData_dir, modData_names] at h1; exact ⟨h1, by simp [h2]⟩
    | other => exact ⟨h1, by simp [h2]⟩
    | delete m =>
      simp only [step] at h1
      by_cases hnm : n = m
      · simp [hnm] at h1
      · simp only [hnm, if_false] at h1
        refine ⟨h1, ?_⟩
        simp only [List.mem_cons, not_or]
        exact ⟨by intro hh; cases hh; exact hnm rfl, h2⟩

end WM.FS
