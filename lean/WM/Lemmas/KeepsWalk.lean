import WM.Lemmas.QualityTree
import WM.Model.MatcherWalk
/-! The quality walk keeps (visits or still holds) every entry above the largest threshold used. -/
namespace WM.Matcher

theorem runWith_keeps {σ : Type} {O : Ops σ} {den full : σ → Den} {WQ W0 : σ → Prop}
    (F : QFaithful O den full WQ W0) (Q : Rat) :
    ∀ (prog : List QOp) (m : σ), WQ m → (∀ q, QOp.skipq q ∈ prog → q ≤ Q) →
      ∃ m' v, runWith O m prog = .ok (m', v) ∧ WQ m' ∧
        (∀ e ∈ den m, Q < e.2 → e ∈ v ∨ e ∈ den m') ∧
        (∀ e ∈ v, Q < e.2 → e ∈ den m) ∧ (∀ e ∈ den m', Q < e.2 → e ∈ den m) ∧ full m' = full m := by
  intro prog
  induction prog with
  | nil =>
    intro m h _
    exact ⟨m, [], rfl, h, fun e he _ => Or.inr he, (fun e he => nomatch he), fun e he _ => he, rfl⟩
  | cons op rest ih =>
    intro m h hQ
    cases ha : O.isActive m with
    | false =>
      refine ⟨m, [], by simp [runWith, ha]; rfl, h, fun e he _ => Or.inr he, (fun e he => nomatch he),
        fun e he _ => he, rfl⟩
    | true =>
      have hne : den m ≠ [] := (F.curQ.active m h).1 ha
      cases op with
      | next =>
        obtain ⟨⟨x, r⟩, L, hd⟩ := List.exists_cons_of_ne_nil hne
        have hid := F.curQ.id m x r L h hd
        have hsc := F.curQ.score m x r L h hd
        obtain ⟨m1, hn, hw1, hd1, -, hf1⟩ := F.curQ.next m x r L h hd
        obtain ⟨m', v, hr, hw', hk, hs1, hs2, hf'⟩ := ih m1 hw1 (fun q hq => hQ q (List.mem_cons_of_mem _ hq))
        refine ⟨m', (x, r) :: v, ?_, hw', ?_, ?_, ?_, hf'.trans hf1⟩
        · simp [runWith, ha, hid, hsc, hn, hr, bind, Except.bind, pure, Except.pure]
        · intro e he hq
          rw [hd] at he
          rcases List.mem_cons.1 he with rfl | he
          · exact Or.inl (List.mem_cons_self ..)
          · rcases hk e (by rw [hd1]; exact he) hq with h1 | h1
            · exact Or.inl (List.mem_cons_of_mem _ h1)
            · exact Or.inr h1
        · intro e he hq
          rw [hd]
          rcases List.mem_cons.1 he with rfl | he
          · exact List.mem_cons_self ..
          · have := hs1 e he hq
            rw [hd1] at this
            exact List.mem_cons_of_mem _ this
        · intro e he hq
          have := hs2 e he hq
          rw [hd1] at this
          rw [hd]
          exact List.mem_cons_of_mem _ this
      | skipq q =>
        have hqQ : q ≤ Q := hQ q (List.mem_cons_self ..)
        obtain ⟨m1, k, hs, hw1, hkeep, -, -, hf1⟩ := F.skipQ m q h hne
        have hhi := hkeep.hi_eq
        obtain ⟨m', v, hr, hw', hk, hs1, hs2, hf'⟩ := ih m1 hw1 (fun q hq => hQ q (List.mem_cons_of_mem _ hq))
        have fwd : ∀ e ∈ den m, Q < e.2 → e ∈ den m1 := by
          intro e he hq
          have : e ∈ hi q (den m) := mem_hi.2 ⟨he, (by grind)⟩
          rw [← hhi] at this
          exact (mem_hi.1 this).1
        have bwd : ∀ e ∈ den m1, Q < e.2 → e ∈ den m := by
          intro e he hq
          have : e ∈ hi q (den m1) := mem_hi.2 ⟨he, (by grind)⟩
          rw [hhi] at this
          exact (mem_hi.1 this).1
        refine ⟨m', v, ?_, hw', ?_, ?_, ?_, hf'.trans hf1⟩
        · simp [runWith, ha, hs, hr, bind, Except.bind]
        · intro e he hq
          exact hk e (fwd e he hq) hq
        · intro e he hq
          exact bwd e (hs1 e he hq) hq
        · intro e he hq
          exact bwd e (hs2 e he hq) hq

end WM.Matcher
