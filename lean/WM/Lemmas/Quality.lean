import WM.Lemmas.FaithfulTree
/-!
`QFaithful`: the quality contract (C12) of an operation table.  `WQ` is the invariant of states that
support block quality, `W0` the weaker invariant of all states of the node (what `replace()` may meet);
both are preserved by the cursor operations.
-/
namespace WM.Matcher

/-- `Keeps` from its two pointwise halves: nothing above `q` is lost, and everything present is
    dominated by the original (so nothing above `q` is invented or rescored either). -/
theorem keeps_of_pointwise {q : Rat} {L' L : Den} (h' : Asc L') (h : Asc L)
    (fwd : ∀ d r, q < r → lookup L d = some r → lookup L' d = some r)
    (dom : ∀ d r', lookup L' d = some r' → ∃ r, lookup L d = some r ∧ r' ≤ r) : Keeps q L' L := by
  rw [keeps_iff h' h]
  refine ⟨fun d r hq => ⟨fun hl => ?_, fwd d r hq⟩, dom⟩
  obtain ⟨r0, h0, hle⟩ := dom d r hl
  have hq0 : q < r0 := by grind
  have := fwd d r0 hq0 h0
  rw [hl] at this
  cases this
  exact h0

theorem Keeps.of_eq {q : Rat} {L' L : Den} (h : L' = L) : Keeps q L' L := h ▸ Keeps.refl q L

/-- dropping a prefix whose scores are all at most `q` -/
theorem keeps_append_left {q : Rat} {P S : Den} (hP : ∀ p ∈ P, p.2 ≤ q) : Keeps q S (P ++ S) := by
  refine ⟨?_, fun p hp => ⟨p.2, List.mem_append_right _ hp, Rat.le_refl⟩⟩
  simp only [hi, List.filter_append]
  have : P.filter (fun p => decide (q < p.2)) = [] := by
    rw [List.filter_eq_nil_iff]
    intro p hp
    have := hP p hp
    simp only [decide_eq_true_eq]
    grind
  rw [this, List.nil_append]

theorem keeps_nil_of_bounded {q : Rat} {L : Den} (h : BoundedBy q L) : Keeps q [] L := by
  have := keeps_append_left (q := q) (P := L) (S := []) h
  simpa using this

/-- The quality contract (C12). -/
structure QFaithful {σ : Type} (O : Ops σ) (den full : σ → Den) (WQ W0 : σ → Prop) : Prop where
  toW0 : ∀ s, WQ s → W0 s
  cur0 : Faithful O den full W0
  curQ : Faithful O den full WQ
  nn : ∀ s, W0 s → NonNegDen (den s)
  sup : ∀ s, WQ s → O.supportsBQ s = true
  /-- `max_quality()` never raises and bounds every remaining score -/
  max : ∀ s, W0 s → ∃ q, O.maxQuality s = .ok q ∧ BoundedBy q (den s)
  /-- … and is never negative (so that `minquality - other.max_quality()` never exceeds `minquality`) -/
  maxNonneg : ∀ s q, W0 s → O.maxQuality s = .ok q → 0 ≤ q
  /-- `block_quality()` never raises and bounds the score of the current entry -/
  block : ∀ s, WQ s → ∃ q, O.blockQuality s = .ok q ∧ ∀ x r L, den s = (x, r) :: L → r ≤ q
  /-- `skip_to_quality(q)` keeps every entry scoring above `q` -/
  skipQ : ∀ s q, WQ s → den s ≠ [] →
    ∃ s' k, O.skipToQuality s q = .ok (s', k) ∧ WQ s' ∧ Keeps q (den s') (den s) ∧
      O.rem s' ≤ O.rem s ∧ (den s' ≠ den s → O.rem s' < O.rem s) ∧ full s' = full s

/-- a Faithful table keeps a static side condition `P` -/
theorem Faithful.strengthen {σ : Type} {O : Ops σ} {den full : σ → Den} {WF : σ → Prop} (F : Faithful O den full WF)
    (P : σ → Prop)
    (hnext : ∀ s s', WF s → P s → O.next s = .ok s' → P s')
    (hskip : ∀ s t s', WF s → P s → O.skipTo s t = .ok s' → P s')
    (hreset : ∀ s s', WF s → P s → O.reset s = .ok s' → P s') :
    Faithful O den full (fun s => WF s ∧ P s) where
  asc s h := F.asc s h.1
  active s h := F.active s h.1
  id s x r L h hd := F.id s x r L h.1 hd
  score s x r L h hd := F.score s x r L h.1 hd
  next s x r L h hd := by
    obtain ⟨s', h1, h2, h3⟩ := F.next s x r L h.1 hd
    exact ⟨s', h1, ⟨h2, hnext s s' h.1 h.2 h1⟩, h3⟩
  skipTo s t h hne := by
    obtain ⟨s', h1, h2, h3⟩ := F.skipTo s t h.1 hne
    exact ⟨s', h1, ⟨h2, hskip s t s' h.1 h.2 h1⟩, h3⟩
  reset s h := by
    obtain ⟨s', h1, h2, h3⟩ := F.reset s h.1
    exact ⟨s', h1, ⟨h2, hreset s s' h.1 h.2 h1⟩, h3⟩

/-! ## NullMatcher -/

theorem null_qfaithful : QFaithful nullOps (fun _ => []) (fun _ => []) (fun _ => True) (fun _ => True) where
  toW0 _ h := h
  cur0 := null_faithful
  curQ := null_faithful
  nn _ _ := by intro p hp; cases hp
  sup _ _ := rfl
  max _ _ := ⟨0, rfl, by intro p hp; cases hp⟩
  maxNonneg _ q _ h := by cases h; exact Rat.le_refl
  block _ _ := ⟨0, rfl, by intro x r L h; cases h⟩
  skipQ _ _ _ h := absurd rfl h

/-! ## ListMatcher -/

namespace ListM

/-- non-negative weights -/
def NN (m : ListM) : Prop := ∀ w ∈ m.weights, 0 ≤ w

theorem foldl_max_ge (w : Rat) (ws : List Rat) : w ≤ ws.foldl max w ∧ ∀ v ∈ ws, v ≤ ws.foldl max w := by
  induction ws generalizing w with
  | nil => exact ⟨Rat.le_refl, by intro v hv; cases hv⟩
  | cons u us ih =>
    obtain ⟨h1, h2⟩ := ih (max w u)
    simp only [List.foldl_cons]
    refine ⟨Rat.le_trans (by grind) h1, ?_⟩
    intro v hv
    rcases List.mem_cons.1 hv with rfl | hv
    · exact Rat.le_trans (by grind) h1
    · exact h2 v hv

theorem le_blockMaxWeight (m : ListM) {w : Rat} (hw : w ∈ m.weights) : w ≤ m.blockMaxWeight := by
  unfold blockMaxWeight
  cases h : m.weights with
  | nil => rw [h] at hw; cases hw
  | cons u us =>
    rw [h] at hw
    obtain ⟨h1, h2⟩ := foldl_max_ge u us
    rcases List.mem_cons.1 hw with rfl | hw
    · exact h1
    · exact h2 w hw

theorem den_bounded (m : ListM) : BoundedBy m.blockMaxWeight m.den := by
  intro p hp
  have : p ∈ m.ids.zip m.weights := List.mem_of_mem_drop hp
  exact le_blockMaxWeight m (List.of_mem_zip (a := p.1) (b := p.2) this).2

theorem faithful0 : Faithful ops den full (fun m => WF m ∧ NN m) :=
  faithful.strengthen NN
    (fun s s' _ hp h => by cases h; exact hp)
    (fun s t s' _ hp h => by
      show NN s'
      have : s'.weights = s.weights := by
        change s.skipTo t = .ok s' at h
        unfold skipTo at h
        split at h
        · cases h
        · cases h; rfl
      intro w hw; rw [this] at hw; exact hp w hw)
    (fun s s' _ hp h => by cases h; exact hp)

theorem faithfulQ : Faithful ops den full (fun m => (WF m ∧ NN m) ∧ m.scorer = true) :=
  faithful0.strengthen (fun m => m.scorer = true)
    (fun s s' _ hp h => by cases h; exact hp)
    (fun s t s' _ hp h => by
      change s.skipTo t = .ok s' at h
      unfold skipTo at h
      split at h
      · cases h
      · cases h; exact hp)
    (fun s s' _ hp h => by cases h; exact hp)

theorem qfaithful : QFaithful ops den full (fun m => (WF m ∧ NN m) ∧ m.scorer = true) (fun m => WF m ∧ NN m) where
  toW0 _ h := h.1
  cur0 := faithful0
  curQ := faithfulQ
  nn m h := by
    intro p hp
    have : p ∈ m.ids.zip m.weights := List.mem_of_mem_drop hp
    exact h.2 p.2 (List.of_mem_zip (a := p.1) (b := p.2) this).2
  sup m h := h.2
  max m _ := ⟨m.blockMaxWeight, rfl, den_bounded m⟩
  maxNonneg m q h hq := by
    cases hq
    show 0 ≤ m.blockMaxWeight
    unfold blockMaxWeight
    cases hw : m.weights with
    | nil => simp only; decide
    | cons u us =>
      simp only
      have h0 : 0 ≤ u := h.2 u (by rw [hw]; exact List.mem_cons_self)
      exact Rat.le_trans h0 (foldl_max_ge u us).1
  block m h := by
    refine ⟨m.blockMaxWeight, by show m.blockQuality = _; simp [blockQuality, h.2], ?_⟩
    intro x r L hd
    exact den_bounded m (x, r) (by rw [hd]; exact List.mem_cons_self)
  skipQ m q h hne := by
    have hlt : m.i < m.ids.length := by
      have := (not_congr (den_eq_nil_iff h.1.1)).1 hne; omega
    show ∃ s' k, m.skipToQuality q = _ ∧ _
    unfold skipToQuality
    have hbq : m.blockQuality = .ok m.blockMaxWeight := by simp [blockQuality, h.2]
    simp only [hlt, ↓reduceIte, hbq]
    by_cases hq : m.blockMaxWeight ≤ q
    · simp only [hq, ↓reduceIte]
      refine ⟨{ m with i := m.ids.length }, 0, rfl, h, ?_, ?_, ?_, rfl⟩
      · have hnil : ({ m with i := m.ids.length } : ListM).den = [] := by
          rw [den_eq_nil_iff (m := { m with i := m.ids.length }) h.1.1]; exact Nat.le_refl _
        rw [hnil]
        exact keeps_nil_of_bounded fun p hp => Rat.le_trans (den_bounded m p hp) hq
      · show m.ids.length - m.ids.length ≤ m.ids.length - m.i
        omega
      · intro _
        show m.ids.length - m.ids.length < m.ids.length - m.i
        omega
    · simp only [hq, ↓reduceIte]
      exact ⟨m, 0, rfl, h, Keeps.refl _ _, Nat.le_refl _, fun h0 => absurd rfl h0, rfl⟩

end ListM

end WM.Matcher
