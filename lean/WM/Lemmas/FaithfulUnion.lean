import WM.Lemmas.Faithful
/-! `UnionMatcher` / `DisjunctionMaxMatcher` are faithful cursors over `unionWith f`. -/
namespace WM.Matcher

theorem unionWith_eq_nil (f) (A B : Den) : unionWith f A B = [] ↔ A = [] ∧ B = [] := by
  cases A with
  | nil => simp [unionWith_nil_left]
  | cons p A =>
    cases B with
    | nil => simp [unionWith_nil_right]
    | cons q B =>
      obtain ⟨x, s⟩ := p
      obtain ⟨y, t⟩ := q
      rw [unionWith_cons]
      split
      · simp
      · split <;> simp

theorem dropBelow_unionWith (f) {A B : Den} (hA : Asc A) (hB : Asc B) (t : Nat) :
    unionWith f (dropBelow t A) (dropBelow t B) = dropBelow t (unionWith f A B) := by
  apply den_ext (asc_unionWith f (asc_dropBelow t hA) (asc_dropBelow t hB))
    (asc_dropBelow t (asc_unionWith f hA hB))
  intro d
  rw [lookup_unionWith f (asc_dropBelow t hA) (asc_dropBelow t hB), lookup_dropBelow hA,
    lookup_dropBelow hB, lookup_dropBelow (asc_unionWith f hA hB), lookup_unionWith f hA hB]
  by_cases h : d < t <;> simp [h, optUnion]

namespace Union
variable {α β : Type} {A : Ops α} {B : Ops β} {dA fA : α → Den} {dB fB : β → Den}
  {WA : α → Prop} {WB : β → Prop}

/-- Any operation table whose cursor operations are those of `UnionMatcher` (with `f` combining the
    scores of a document both sides are on) is a faithful cursor over `unionWith f`. -/
theorem faithful_of (f : Rat → Rat → Rat) (FA : Faithful A dA fA WA) (FB : Faithful B dB fB WB)
    (O : Ops (Bin α β))
    (hact : O.isActive = fun m => A.isActive m.a || B.isActive m.b)
    (hid : O.id = Union.id A B) (hscore : O.score = Union.scoreWith A B f)
    (hnext : O.next = Union.next A B) (hskip : O.skipTo = Union.skipTo A B)
    (hreset : O.reset = Union.reset A B) (hrem : O.rem = fun m => A.rem m.a + B.rem m.b) :
    Faithful O (fun m => unionWith f (dA m.a) (dB m.b)) (fun m => unionWith f (fA m.a) (fB m.b))
      (fun m => WA m.a ∧ WB m.b) where
  asc m h := asc_unionWith f (FA.asc _ h.1) (FB.asc _ h.2)
  active m h := by
    rw [hact]
    simp only [Bool.or_eq_true, FA.active _ h.1, FB.active _ h.2, Ne, unionWith_eq_nil]
    constructor
    · rintro (h1 | h1) ⟨h2, h3⟩
      · exact h1 h2
      · exact h1 h3
    · intro h1
      by_cases h2 : dA m.a = []
      · right; intro h3; exact h1 ⟨h2, h3⟩
      · left; exact h2
  id m x r L h hd := by
    rw [hid]; unfold Union.id
    cases ha : dA m.a with
    | nil =>
      rw [(FA.inactive h.1).2 ha]
      simp only [Bool.not_false, ↓reduceIte]
      rw [ha, unionWith_nil_left] at hd
      exact FB.id _ _ _ _ h.2 hd
    | cons p La =>
      obtain ⟨xa, ra⟩ := p
      have hAa : A.isActive m.a = true := (FA.active _ h.1).2 (by simp [ha])
      cases hb : dB m.b with
      | nil =>
        rw [(FB.inactive h.2).2 hb, hAa]
        simp only [Bool.not_true, Bool.false_eq_true, ↓reduceIte, Bool.not_false]
        rw [ha, hb, unionWith_nil_right] at hd
        cases hd
        exact FA.id _ _ _ _ h.1 ha
      | cons q Lb =>
        obtain ⟨xb, rb⟩ := q
        have hBa : B.isActive m.b = true := (FB.active _ h.2).2 (by simp [hb])
        rw [hAa, hBa, FA.id _ _ _ _ h.1 ha, FB.id _ _ _ _ h.2 hb]
        simp only [Bool.not_true, Bool.false_eq_true, ↓reduceIte]
        rw [ha, hb, unionWith_cons] at hd
        show Except.ok (min xa xb) = Except.ok x
        congr 1
        split at hd
        · cases hd; omega
        · split at hd
          · cases hd; omega
          · cases hd; omega
  score m x r L h hd := by
    rw [hscore]; unfold Union.scoreWith
    cases ha : dA m.a with
    | nil =>
      rw [(FA.inactive h.1).2 ha]
      simp only [Bool.not_false, ↓reduceIte]
      rw [ha, unionWith_nil_left] at hd
      exact FB.score _ _ _ _ h.2 hd
    | cons p La =>
      obtain ⟨xa, ra⟩ := p
      have hAa : A.isActive m.a = true := (FA.active _ h.1).2 (by simp [ha])
      cases hb : dB m.b with
      | nil =>
        rw [(FB.inactive h.2).2 hb, hAa]
        simp only [Bool.not_true, Bool.false_eq_true, ↓reduceIte, Bool.not_false]
        rw [ha, hb, unionWith_nil_right] at hd
        cases hd
        exact FA.score _ _ _ _ h.1 ha
      | cons q Lb =>
        obtain ⟨xb, rb⟩ := q
        have hBa : B.isActive m.b = true := (FB.active _ h.2).2 (by simp [hb])
        rw [hAa, hBa, FA.id _ _ _ _ h.1 ha, FB.id _ _ _ _ h.2 hb,
          FA.score _ _ _ _ h.1 ha, FB.score _ _ _ _ h.2 hb]
        simp only [Bool.not_true, Bool.false_eq_true, ↓reduceIte]
        rw [ha, hb, unionWith_cons] at hd
        show (if xa < xb then Except.ok ra else if xb < xa then Except.ok rb else Except.ok (f ra rb))
          = Except.ok r
        split at hd
        · next h1 => cases hd; simp [h1]
        · next h1 =>
          split at hd
          · next h2 => cases hd; simp [h1, h2]
          · next h2 => cases hd; simp [h1, h2]
  next m x r L h hd := by
    rw [hnext, hrem]; unfold Union.next
    cases ha : dA m.a with
    | nil =>
      rw [ha, unionWith_nil_left] at hd
      have hBa : B.isActive m.b = true := (FB.active _ h.2).2 (by simp [hd])
      obtain ⟨b', hb1, hb2, hb3, hb4, hb5⟩ := FB.next _ _ _ _ h.2 hd
      refine ⟨{ m with b := b' }, ?_, ⟨h.1, hb2⟩, ?_, ?_, ?_⟩
      · simp only [(FA.inactive h.1).2 ha, hBa, Bool.or_true, Bool.not_true, Bool.false_eq_true,
          ↓reduceIte, Bool.not_false, hb1]; rfl
      · simp only [ha, unionWith_nil_left, hb3]
      · simp only; omega
      · simp only [hb5]
    | cons p La =>
      obtain ⟨xa, ra⟩ := p
      have hAa : A.isActive m.a = true := (FA.active _ h.1).2 (by simp [ha])
      obtain ⟨a', ha1, ha2, ha3, ha4, ha5⟩ := FA.next _ _ _ _ h.1 ha
      cases hb : dB m.b with
      | nil =>
        rw [ha, hb, unionWith_nil_right] at hd
        cases hd
        refine ⟨{ m with a := a' }, ?_, ⟨ha2, h.2⟩, ?_, ?_, ?_⟩
        · simp only [(FB.inactive h.2).2 hb, hAa, Bool.or_false, Bool.not_true, Bool.false_eq_true,
            ↓reduceIte, Bool.not_false, ha1]; rfl
        · simp only [hb, unionWith_nil_right, ha3]
        · simp only; omega
        · simp only [ha5]
      | cons q Lb =>
        obtain ⟨xb, rb⟩ := q
        have hBa : B.isActive m.b = true := (FB.active _ h.2).2 (by simp [hb])
        obtain ⟨b', hb1, hb2, hb3, hb4, hb5⟩ := FB.next _ _ _ _ h.2 hb
        rw [ha, hb, unionWith_cons] at hd
        simp only [hAa, hBa, Bool.or_self, Bool.not_true, Bool.false_eq_true, ↓reduceIte,
          FA.id _ _ _ _ h.1 ha, FB.id _ _ _ _ h.2 hb]
        by_cases h1 : xa < xb
        · rw [if_pos h1] at hd
          obtain ⟨-, rfl⟩ := List.cons.inj hd
          refine ⟨⟨a', m.b⟩, ?_, ⟨ha2, h.2⟩, ?_, ?_, ?_⟩
          · have h2 : xa ≤ xb := by omega
            have h3 : ¬ xb ≤ xa := by omega
            simp only [Ops.nextIf, h2, h3, decide_true, decide_false, ↓reduceIte, ha1, bind, Except.bind, pure, Except.pure, Bool.false_eq_true]
          · simp only [ha3, hb]
          · simp only; omega
          · simp only [ha5]
        · rw [if_neg h1] at hd
          by_cases h2 : xb < xa
          · rw [if_pos h2] at hd
            obtain ⟨-, rfl⟩ := List.cons.inj hd
            refine ⟨⟨m.a, b'⟩, ?_, ⟨h.1, hb2⟩, ?_, ?_, ?_⟩
            · have h3 : ¬ xa ≤ xb := by omega
              have h4 : xb ≤ xa := by omega
              simp only [Ops.nextIf, h3, h4, decide_true, decide_false, ↓reduceIte, hb1, bind, Except.bind, pure, Except.pure, Bool.false_eq_true]
            · simp only [hb3, ha]
            · simp only; omega
            · simp only [hb5]
          · rw [if_neg h2] at hd
            obtain ⟨-, rfl⟩ := List.cons.inj hd
            refine ⟨⟨a', b'⟩, ?_, ⟨ha2, hb2⟩, ?_, ?_, ?_⟩
            · have h3 : xa ≤ xb := by omega
              have h4 : xb ≤ xa := by omega
              simp only [Ops.nextIf, h3, h4, decide_true, ↓reduceIte, ha1, hb1, bind, Except.bind, pure, Except.pure]
            · simp only [ha3, hb3]
            · simp only; omega
            · simp only [ha5, hb5]
  skipTo m t h hne := by
    rw [hskip, hrem]; unfold Union.skipTo
    have hA := FA.asc _ h.1
    have hB := FB.asc _ h.2
    -- each side: either inactive (unchanged, and `dropBelow` of `[]` is `[]`) or skipped
    have sideA : ∃ a', A.skipToA m.a t = .ok a' ∧ WA a' ∧
        dA a' = dropBelow t (dA m.a) ∧ A.rem a' ≤ A.rem m.a ∧
        (dA a' ≠ dA m.a → A.rem a' < A.rem m.a) ∧ fA a' = fA m.a := by
      cases hact : A.isActive m.a with
      | false =>
        have := (FA.inactive h.1).1 hact
        exact ⟨m.a, by simp [Ops.skipToA, hact], h.1, by simp [this], Nat.le_refl _, fun hh => absurd rfl hh, rfl⟩
      | true =>
        obtain ⟨a', h1, h2, h3, h4, h5, h6⟩ := FA.skipTo m.a t h.1 ((FA.active _ h.1).1 hact)
        exact ⟨a', by simp [Ops.skipToA, hact, h1], h2, h3, h4, h5, h6⟩
    have sideB : ∃ b', B.skipToA m.b t = .ok b' ∧ WB b' ∧
        dB b' = dropBelow t (dB m.b) ∧ B.rem b' ≤ B.rem m.b ∧
        (dB b' ≠ dB m.b → B.rem b' < B.rem m.b) ∧ fB b' = fB m.b := by
      cases hact : B.isActive m.b with
      | false =>
        have := (FB.inactive h.2).1 hact
        exact ⟨m.b, by simp [Ops.skipToA, hact], h.2, by simp [this], Nat.le_refl _, fun hh => absurd rfl hh, rfl⟩
      | true =>
        obtain ⟨b', h1, h2, h3, h4, h5, h6⟩ := FB.skipTo m.b t h.2 ((FB.active _ h.2).1 hact)
        exact ⟨b', by simp [Ops.skipToA, hact, h1], h2, h3, h4, h5, h6⟩
    obtain ⟨a', ha1, ha2, ha3, ha4, ha5, ha6⟩ := sideA
    obtain ⟨b', hb1, hb2, hb3, hb4, hb5, hb6⟩ := sideB
    refine ⟨⟨a', b'⟩, ?_, ⟨ha2, hb2⟩, ?_, ?_, ?_, ?_⟩
    · rw [ha1, hb1]; rfl
    · simp only [ha3, hb3, dropBelow_unionWith f hA hB]
    · simp only; omega
    · intro hne2
      simp only
      by_cases e1 : dA a' = dA m.a
      · by_cases e2 : dB b' = dB m.b
        · exfalso; apply hne2; simp only [e1, e2]
        · have := hb5 e2; omega
      · have := ha5 e1; omega
    · simp only [ha6, hb6]
  reset m h := by
    rw [hreset]; unfold Union.reset
    obtain ⟨a', ha1, ha2, ha3, ha4⟩ := FA.reset _ h.1
    obtain ⟨b', hb1, hb2, hb3, hb4⟩ := FB.reset _ h.2
    refine ⟨⟨a', b'⟩, ?_, ⟨ha2, hb2⟩, ?_, ?_⟩
    · rw [ha1, hb1]; rfl
    · simp only [ha3, hb3]
    · simp only [ha4, hb4]

/-- `UnionMatcher` -/
theorem faithful (FA : Faithful A dA fA WA) (FB : Faithful B dB fB WB) :
    Faithful (Union.ops A B) (fun m => unionWith (· + ·) (dA m.a) (dB m.b))
      (fun m => unionWith (· + ·) (fA m.a) (fB m.b)) (fun m => WA m.a ∧ WB m.b) :=
  faithful_of (· + ·) FA FB _ rfl rfl rfl rfl rfl rfl rfl

end Union

/-- `DisjunctionMaxMatcher` -/
theorem DisMax.faithful {α β : Type} {A : Ops α} {B : Ops β} {dA fA : α → Den} {dB fB : β → Den}
    {WA : α → Prop} {WB : β → Prop} (FA : Faithful A dA fA WA) (FB : Faithful B dB fB WB) :
    Faithful (DisMax.ops A B) (fun m => unionWith max (dA m.a) (dB m.b))
      (fun m => unionWith max (fA m.a) (fB m.b)) (fun m => WA m.a ∧ WB m.b) :=
  Union.faithful_of max FA FB _ rfl rfl rfl rfl rfl rfl rfl

end WM.Matcher
