import WM.Lemmas.NumericBits
/-! Big-endian term bytes: length, round trip, lexicographic order = numeric order. -/
namespace WM.Numeric

theorem beBytes_length (w x : Nat) : (beBytes w x).length = w := by
  induction w with
  | zero => rfl
  | succ w ih => simp [beBytes, ih]

theorem beBytes_lt (w x : Nat) : ∀ b ∈ beBytes w x, b < 256 := by
  induction w with
  | zero => simp [beBytes]
  | succ w ih =>
    intro b hb
    simp only [beBytes, List.mem_cons] at hb
    rcases hb with rfl | hb
    · exact Nat.mod_lt _ (by decide)
    · exact ih b hb

theorem beValue_beBytes (w x : Nat) : beValue (beBytes w x) = x % 256 ^ w := by
  induction w with
  | zero => simp [beBytes, beValue, Nat.mod_one]
  | succ w ih =>
    simp only [beBytes, beValue, beBytes_length, ih]
    rw [Nat.mod_pow_succ]
    rw [Nat.mul_comm, Nat.add_comm]

theorem lex_step (a b ra rb P : Nat) (ha : ra < P) (hb : rb < P) :
    (a * P + ra ≤ b * P + rb) ↔ (a < b ∨ (a = b ∧ ra ≤ rb)) := by
  have ⟨f1, f2, f3⟩ := mul_facts a b P
  omega

/-- Lexicographic `≤` on equally long big-endian strings is `≤` on the numbers. -/
theorem bytesLe_beBytes (w x y : Nat) :
    bytesLe (beBytes w x) (beBytes w y) = decide (x % 256 ^ w ≤ y % 256 ^ w) := by
  induction w with
  | zero => simp [beBytes, bytesLe, Nat.mod_one]
  | succ w ih =>
    simp only [beBytes, bytesLe, ih]
    have hP : 0 < 256 ^ w := Nat.pow_pos (by decide)
    rw [Nat.mod_pow_succ (b := 256) (x := x), Nat.mod_pow_succ (b := 256) (x := y)]
    have := lex_step (x / 256 ^ w % 256) (y / 256 ^ w % 256) (x % 256 ^ w) (y % 256 ^ w) (256 ^ w)
      (Nat.mod_lt _ hP) (Nat.mod_lt _ hP)
    rw [Nat.mul_comm (256 ^ w), Nat.mul_comm (256 ^ w), Nat.add_comm (x % 256 ^ w),
      Nat.add_comm (y % 256 ^ w)]
    generalize x / 256 ^ w % 256 = a at *
    generalize y / 256 ^ w % 256 = b at *
    generalize x % 256 ^ w = ra at *
    generalize y % 256 ^ w = rb at *
    by_cases h1 : a < b
    · simp [h1, this.2 (Or.inl h1)]
    · by_cases h2 : a = b
      · subst h2
        by_cases h3 : ra ≤ rb
        · simp [h3, this.2 (Or.inr ⟨rfl, h3⟩)]
        · have : ¬ (a * 256 ^ w + ra ≤ a * 256 ^ w + rb) := by omega
          simp [h3, this]
      · have h4 : ¬ (a * 256 ^ w + ra ≤ b * 256 ^ w + rb) := fun hh => by
          rcases this.1 hh with h | h
          · exact h1 h
          · exact h2 h.1
        simp [h1, h2, h4]

theorem beBytes_inj (w x y : Nat) (hx : x < 256 ^ w) (hy : y < 256 ^ w)
    (h : beBytes w x = beBytes w y) : x = y := by
  have := congrArg beValue h
  rwa [beValue_beBytes, beValue_beBytes, Nat.mod_eq_of_lt hx, Nat.mod_eq_of_lt hy] at this

/-- Term bytes `[shift] ++ bigEndian(x)` compare like the pair `(shift, x)`. -/
theorem bytesLe_term (w s t x y : Nat) (hx : x < 256 ^ w) (hy : y < 256 ^ w) :
    bytesLe (s :: beBytes w x) (t :: beBytes w y) = true ↔ (s < t ∨ (s = t ∧ x ≤ y)) := by
  simp [bytesLe, bytesLe_beBytes, Nat.mod_eq_of_lt hx, Nat.mod_eq_of_lt hy]

theorem term_eq_iff (w s t x y : Nat) (hx : x < 256 ^ w) (hy : y < 256 ^ w) :
    (s :: beBytes w x) = (t :: beBytes w y) ↔ (s = t ∧ x = y) := by
  constructor
  · intro h
    injection h with h1 h2
    exact ⟨h1, beBytes_inj w x y hx hy h2⟩
  · rintro ⟨rfl, rfl⟩; rfl

end WM.Numeric
