import WM.Lemmas.CodecAgg
import WM.Lemmas.CodecDecode
/-! `writeTerm` in closed form (block path and inline path). -/
namespace WM.Codec

variable {ι μ : Type}

theorem split_flatten {α : Type} (bl : Nat) (ps : List α) :
    (split bl ps).1.flatten ++ (split bl ps).2 = ps := by
  simpa [split] using splitAux_flatten bl ps []

theorem split_shape {α : Type} (bl : Nat) (hbl : 1 ≤ bl) (ps : List α) :
    (∀ ch ∈ (split bl ps).1, ch.length = bl) ∧ (split bl ps).2.length ≤ bl ∧
      (ps ≠ [] → (split bl ps).2 ≠ []) := by
  have := splitAux_shape bl hbl ps [] (by simp)
  exact ⟨this.1, this.2.1, fun h => this.2.2 (Or.inr h)⟩

theorem LengthsUniform.uinv {ps : List (Posting ι)} (h : LengthsUniform ps) :
    UInv ({} : TermInfo ι) ([] ++ ps) := by
  rcases h with h | h
  · exact Or.inl (by simpa using h)
  · exact Or.inr ⟨by simpa using h, rfl⟩

/-- The block path of `finish_postings`: the chunks of `split`, the last one flagged, and the
    true statistics of the whole list. -/
theorem writeTerm_spec (c : Cfg ι μ) (hbl : 1 ≤ c.blocklimit) (ps : List (Posting ι)) (hne : ps ≠ [])
    (hni : c.inlinelimit ≤ ps.length ∨ c.blocklimit < ps.length)
    (hvalid : ∀ p ∈ ps, c.ids.valid p.id = true) (hu : LengthsUniform ps) :
    ∃ bs b, writeTerm c ps = .ok (bs ++ [b], { tiOf c ps with extent := some (bs.length + 1) }) ∧
      BlocksOf c (split c.blocklimit ps).1 bs ∧ BlockOf c true (split c.blocklimit ps).2 b := by
  obtain ⟨st', bs, h1, h2, h3, h4, h5, h6, h7⟩ :=
    addAll_split c hbl ps [] {} rfl (by simp) hvalid hu.uinv
  have hflat := split_flatten c.blocklimit ps
  obtain ⟨hfull, hremle, hremne⟩ := split_shape c.blocklimit hbl ps
  have hrem : (split c.blocklimit ps).2 ≠ [] := hremne hne
  change st'.buf = bufOf c (split c.blocklimit ps).2 at h2
  change st'.terminfo = (split c.blocklimit ps).1.foldl (tiAddCh c) {} at h4
  change BlocksOf c (split c.blocklimit ps).1 bs at h6
  change UInv st'.terminfo (split c.blocklimit ps).2 at h7
  -- not the inline branch
  have hcond : (st'.blockcount == 0 && decide (st'.buf.ids.length < c.inlinelimit)) = false := by
    rw [h3, h2, bufOf_ids_length]
    by_cases hcs : (split c.blocklimit ps).1 = []
    · have hps : (split c.blocklimit ps).2 = ps := by rw [hcs] at hflat; simpa using hflat
      rw [hps] at hremle ⊢
      rcases hni with h | h
      · simp only [Bool.and_eq_false_imp]; intro _; simp; omega
      · omega
    · have : bs.length ≠ 0 := by
        rw [← h6.length_eq]; intro e; exact hcs (List.eq_nil_of_length_eq_zero e)
      simp [this]
  obtain ⟨b, hb, hw⟩ := writeBlock_bufOf c st' _ true h2 hrem (h7.ok (fun p hp => hp) hrem)
  refine ⟨bs, b, ?_, h6, hb⟩
  unfold writeTerm
  rw [h1]
  simp only
  unfold finishPostings
  rw [hcond]
  have hnonempty : (!st'.buf.ids.isEmpty) = true := by
    rw [h2]; simp only [bufOf]
    cases hh : (split c.blocklimit ps).2 with
    | nil => exact absurd hh hrem
    | cons x l => rfl
  simp only [Bool.false_eq_true, if_false, hnonempty, if_true, hw]
  -- statistics
  have hti : tiAddCh c st'.terminfo (split c.blocklimit ps).2 = tiOf c ps := by
    have huni : (∀ p ∈ [] ++ (split c.blocklimit ps).1.flatten ++ (split c.blocklimit ps).2,
          truthy p.length = true) ∨
        (∀ p ∈ [] ++ (split c.blocklimit ps).1.flatten ++ (split c.blocklimit ps).2,
          truthy p.length = false) := by
      simp only [List.nil_append, hflat]; exact hu
    have hchne : ∀ ch ∈ (split c.blocklimit ps).1, ch ≠ [] := by
      intro ch hch e; have := hfull ch hch; rw [e] at this; simp at this; omega
    rw [h4, ← tiOf_nil c, foldl_tiAddCh c _ [] hchne
      (by rcases huni with h | h
          · exact Or.inl (fun p hp => h p (by simp at hp ⊢; exact Or.inl hp))
          · exact Or.inr (fun p hp => h p (by simp at hp ⊢; exact Or.inl hp)))]
    have hok : minLen ([] ++ (split c.blocklimit ps).1.flatten) = none ∨
        minLen (split c.blocklimit ps).2 ≠ none := by
      rcases huni with h | h
      · exact Or.inr (minLen_ne_none _ hrem (fun p hp => h p (by simp [hp])))
      · exact Or.inl (minLen_eq_none _ (fun p hp => h p (by simp at hp ⊢; exact Or.inl hp)))
    rw [tiAddCh_tiOf c _ _ hrem hok]
    simp only [List.nil_append, hflat]
  rw [hti, h5]
  simp

theorem addAll_noflush (c : Cfg ι μ) (qs r : List (Posting ι)) (st : WState ι μ)
    (hbuf : st.buf = bufOf c r) (hlen : r.length + qs.length ≤ c.blocklimit)
    (hvalid : ∀ p ∈ qs, c.ids.valid p.id = true) :
    addAll c st qs = .ok { st with buf := bufOf c (r ++ qs) } := by
  induction qs generalizing r st with
  | nil => simp [addAll, ← hbuf]
  | cons q qs ih =>
    have hlen' : st.buf.ids.length = r.length := by rw [hbuf, bufOf_ids_length]
    have hge : ¬ r.length ≥ c.blocklimit := by simp only [List.length_cons] at hlen; omega
    have hadd : addPosting c st q = .ok { st with buf := bufOf c (r ++ [q]) } := by
      unfold addPosting
      rw [hlen', if_neg hge]
      simp only
      rw [hbuf, Buf.add_bufOf c r q (hvalid q (by simp))]
    simp only [addAll, hadd]
    rw [ih (r ++ [q]) _ rfl (by simp only [List.length_append, List.length_cons, List.length_nil] at hlen ⊢; omega)
      (fun p hp => hvalid p (by simp [hp]))]
    simp [List.append_assoc]

/-- The inline path of `finish_postings` (with `set_inlined`): nothing is written to the posting
    file; ids, stored weights and non-empty values go into the term info. -/
theorem writeTerm_inline (c : Cfg ι μ) (ps : List (Posting ι)) (hne : ps ≠ [])
    (hin : ps.length < c.inlinelimit) (hle : ps.length ≤ c.blocklimit)
    (hvalid : ∀ p ∈ ps, c.ids.valid p.id = true) :
    writeTerm c ps = .ok ([], { tiOf c ps with
      inlined := some (ps.map (·.id), ps.map (fun p => c.f32 p.weight), storedValues ps) }) := by
  unfold writeTerm
  rw [addAll_noflush c ps [] {} rfl (by simpa using hle) hvalid]
  simp only [List.nil_append]
  unfold finishPostings
  have hcond : ((0 : Nat) == 0 && decide ((bufOf c ps).ids.length < c.inlinelimit)) = true := by
    rw [bufOf_ids_length]; simp [hin]
  simp only [hcond, if_true]
  rw [addBlock_bufOf c {} ps hne (Or.inl rfl)]
  have := tiAddCh_tiOf c [] ps hne (Or.inl rfl)
  rw [tiOf_nil] at this
  simp only [this, List.nil_append]
  rfl
