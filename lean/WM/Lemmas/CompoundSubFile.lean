import WM.Model.Compound
/-! `SubFile.read(n)` chunking: a `SubFile` over `parent[offset : offset+length]` reads like an
in-memory file over the member bytes. -/
namespace WM.Compound

/-- the member a `SubFile` is a view of -/
def SubFile.member (parent : Bytes) (s : SubFile) : Bytes := (parent.drop s.offset).take s.length

theorem SubFile.length_member (parent : Bytes) (s : SubFile) (hfit : s.offset + s.length ≤ parent.length) :
    (s.member parent).length = s.length := by
  unfold SubFile.member
  rw [List.length_take, List.length_drop]; omega

theorem slice_slice (parent : Bytes) (off len p n : Nat) :
    (((parent.drop off).take len).drop p).take n = (parent.drop (off + p)).take (min n (len - p)) := by
  rw [List.drop_take, List.take_take, List.drop_drop]

/-- `read(n)` for `n ≥ 0` at a non-negative position: the next at most `n` bytes of the member;
    the position advances by their number. -/
theorem SubFile.read_spec (parent : Bytes) (s : SubFile) (p : Nat) (hp : s.pos = p) (n : Nat) :
    ∃ s', s.read parent (some (n : Int)) = some (((s.member parent).drop p).take n, s') ∧
      s'.offset = s.offset ∧ s'.length = s.length ∧ s'.pos = ((p + min n (s.length - p) : Nat) : Int) := by
  unfold SubFile.read
  simp only [hp]
  by_cases hz : min (n : Int) ((s.length : Int) - (p : Int)) ≤ 0
  · have h1 : ¬ ((if min (n : Int) ((s.length : Int) - (p : Int)) < 0 then (0 : Int)
        else min (n : Int) ((s.length : Int) - (p : Int))) > 0) := by
      split <;> omega
    rw [if_neg h1]
    have hk : min n (s.length - p) = 0 := by omega
    refine ⟨s, ?_, rfl, rfl, by rw [hk, hp]; simp⟩
    unfold SubFile.member
    rw [slice_slice, hk]; simp
  · have hlt : ¬ (min (n : Int) ((s.length : Int) - (p : Int)) < 0) := by omega
    rw [if_neg hlt, if_pos (by omega)]
    have hs : ¬ ((s.offset : Int) + (p : Int) < 0) := by omega
    rw [if_neg hs]
    refine ⟨{ s with pos := (p : Int) + min (n : Int) ((s.length : Int) - (p : Int)) }, ?_, rfl, rfl, ?_⟩
    · unfold SubFile.member
      rw [slice_slice]
      have e1 : ((s.offset : Int) + (p : Int)).toNat = s.offset + p := by omega
      have e2 : (min (n : Int) ((s.length : Int) - (p : Int))).toNat = min n (s.length - p) := by omega
      rw [e1, e2]
    · simp only; omega

/-- `read()` (no size): the rest of the member. -/
theorem SubFile.read_all_spec (parent : Bytes) (s : SubFile) (p : Nat) (hp : s.pos = p) :
    ∃ s', s.read parent none = some ((s.member parent).drop p, s') ∧
      s'.offset = s.offset ∧ s'.length = s.length ∧ s'.pos = ((max p s.length : Nat) : Int) := by
  unfold SubFile.read
  simp only [hp]
  by_cases hz : (s.length : Int) - (p : Int) ≤ 0
  · have h1 : ¬ ((if (s.length : Int) - (p : Int) < 0 then (0 : Int) else (s.length : Int) - (p : Int)) > 0) := by
      split <;> omega
    rw [if_neg h1]
    refine ⟨s, ?_, rfl, rfl, by rw [hp]; omega⟩
    unfold SubFile.member
    rw [List.drop_take]
    have : s.length - p = 0 := by omega
    rw [this]; simp
  · have hlt : ¬ ((s.length : Int) - (p : Int) < 0) := by omega
    rw [if_neg hlt, if_pos (by omega)]
    have hs : ¬ ((s.offset : Int) + (p : Int) < 0) := by omega
    rw [if_neg hs]
    refine ⟨{ s with pos := (p : Int) + ((s.length : Int) - (p : Int)) }, ?_, rfl, rfl, ?_⟩
    · unfold SubFile.member
      rw [List.drop_take, List.drop_drop]
      have e1 : ((s.offset : Int) + (p : Int)).toNat = s.offset + p := by omega
      have e2 : ((s.length : Int) - (p : Int)).toNat = s.length - p := by omega
      rw [e1, e2]
    · simp only; omega

/-- reading in chunks of `n > 0` bytes until an empty chunk comes back yields the rest of the
    member, whatever `n` is. -/
theorem SubFile.readChunks_spec (parent : Bytes) (n : Nat) (hn : 0 < n) : ∀ (fuel : Nat) (s : SubFile) (p : Nat),
    s.pos = p → s.offset + s.length ≤ parent.length → s.length - p < fuel →
    ∃ s', SubFile.readChunks parent (n : Int) s fuel = some ((s.member parent).drop p, s') ∧
      s'.offset = s.offset ∧ s'.length = s.length ∧ s'.pos = ((max p s.length : Nat) : Int)
  | 0, _, _, _, _, hf => by omega
  | fuel + 1, s, p, hp, hfit, hf => by
    rcases SubFile.read_spec parent s p hp n with ⟨s1, h1, ho1, hl1, hp1⟩
    have hml := SubFile.length_member parent s hfit
    unfold SubFile.readChunks
    rw [h1]
    simp only
    by_cases hend : s.length ≤ p
    · -- nothing left: the chunk is empty
      have hd : (s.member parent).drop p = [] := by
        apply List.drop_eq_nil_of_le; omega
      rw [hd]
      simp only [List.take_nil, List.isEmpty_nil, ↓reduceIte]
      refine ⟨s1, rfl, ho1, hl1, ?_⟩
      rw [hp1]; omega
    · have hk : min n (s.length - p) = min n ((s.member parent).drop p).length := by
        rw [List.length_drop, hml]
      have hne : ((s.member parent).drop p).take n ≠ [] := by
        intro h
        have := congrArg List.length h
        rw [List.length_take, List.length_drop, hml] at this
        simp at this; omega
      have hie : (((s.member parent).drop p).take n).isEmpty = false := by
        cases hc : ((s.member parent).drop p).take n with
        | nil => exact absurd hc hne
        | cons _ _ => rfl
      rw [hie]
      simp only [Bool.false_eq_true, ↓reduceIte]
      have hmem1 : s1.member parent = s.member parent := by
        unfold SubFile.member; rw [ho1, hl1]
      rcases SubFile.readChunks_spec parent n hn fuel s1 (p + min n (s.length - p)) hp1
        (by rw [ho1, hl1]; exact hfit) (by rw [hl1]; omega) with ⟨s2, h2, ho2, hl2, hp2⟩
      rw [h2, hmem1]
      simp only
      refine ⟨s2, ?_, by rw [ho2, ho1], by rw [hl2, hl1], ?_⟩
      · congr 1
        have : (s.member parent).drop (p + min n (s.length - p))
            = ((s.member parent).drop p).drop (min n (s.length - p)) := by
          rw [List.drop_drop]
        rw [this, hk, List.take_eq_take_min, List.take_append_drop]
      · rw [hp2, hl1]; omega

end WM.Compound
