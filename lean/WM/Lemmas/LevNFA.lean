import WM.Lemmas.NFA
import WM.Lemmas.Edit
/-! The Levenshtein NFA of `automata/lev.py` accepts exactly the strings that share the required
prefix with the term and are within Levenshtein distance `k` of it. -/
namespace WM.Lev
open WM.Edit WM.Lev.NFA

/-- The arcs of `levenshtein_automaton(term, k, prefix)`, spelled out. -/
theorem mem_levTrans (term : List Nat) (k p0 : Nat) (s t : St) (l : Label) :
    (s, l, t) ∈ (levenshteinAutomaton term k p0).trans ↔
    (∃ i c, term[i]? = some c ∧ i < min p0 term.length ∧ s = (i, 0) ∧ l = .chr c ∧ t = (i + 1, 0)) ∨
    (∃ i c e, term[i]? = some c ∧ min p0 term.length ≤ i ∧ e ≤ k ∧ s = (i, e) ∧
        ((l = .chr c ∧ t = (i + 1, e)) ∨
         (e < k ∧ ((l = .any ∧ t = (i, e + 1)) ∨ (l = .eps ∧ t = (i + 1, e + 1)) ∨
                   (l = .any ∧ t = (i + 1, e + 1)))))) ∨
    (∃ e, e < k ∧ s = (term.length, e) ∧ l = .any ∧ t = (term.length, e + 1)) := by
  simp only [levenshteinAutomaton, List.mem_append, List.mem_flatMap, Prod.exists,
    List.mem_zipIdx_iff_getElem?, List.mem_range, or_assoc]
  apply or_congr
  · constructor
    · rintro ⟨c, i, hc, hm⟩
      split at hm
      · next hlt =>
        simp only [List.mem_singleton, Prod.mk.injEq] at hm
        obtain ⟨rfl, rfl, rfl⟩ := hm
        exact ⟨i, c, hc, hlt, rfl, rfl, rfl⟩
      · cases hm
    · rintro ⟨i, c, hc, hlt, rfl, rfl, rfl⟩
      exact ⟨c, i, hc, by simp [hlt]⟩
  apply or_congr
  · constructor
    · rintro ⟨c, i, hc, hm⟩
      split at hm
      · next hle =>
        simp only [List.mem_flatMap, List.mem_range, List.mem_cons, Prod.mk.injEq] at hm
        obtain ⟨e, he, hm⟩ := hm
        refine ⟨i, c, e, hc, hle, by omega, ?_⟩
        rcases hm with ⟨rfl, rfl, rfl⟩ | hm
        · exact ⟨rfl, Or.inl ⟨rfl, rfl⟩⟩
        · split at hm
          · next hek =>
            simp only [List.mem_cons, Prod.mk.injEq, List.not_mem_nil, or_false] at hm
            rcases hm with ⟨rfl, rfl, rfl⟩ | ⟨rfl, rfl, rfl⟩ | ⟨rfl, rfl, rfl⟩
            · exact ⟨rfl, Or.inr ⟨hek, Or.inl ⟨rfl, rfl⟩⟩⟩
            · exact ⟨rfl, Or.inr ⟨hek, Or.inr (Or.inl ⟨rfl, rfl⟩)⟩⟩
            · exact ⟨rfl, Or.inr ⟨hek, Or.inr (Or.inr ⟨rfl, rfl⟩)⟩⟩
          · cases hm
      · cases hm
    · rintro ⟨i, c, e, hc, hle, hek, rfl, h⟩
      refine ⟨c, i, hc, ?_⟩
      rw [if_pos hle]
      simp only [List.mem_flatMap, List.mem_range, List.mem_cons, Prod.mk.injEq]
      refine ⟨e, by omega, ?_⟩
      rcases h with ⟨rfl, rfl⟩ | ⟨hlt, h⟩
      · simp
      · right
        rw [if_pos hlt]
        rcases h with ⟨rfl, rfl⟩ | ⟨rfl, rfl⟩ | ⟨rfl, rfl⟩ <;> simp
  · constructor
    · rintro ⟨e, he, hm⟩
      split at hm
      · next hek =>
        simp only [List.mem_singleton, Prod.mk.injEq] at hm
        obtain ⟨rfl, rfl, rfl⟩ := hm
        exact ⟨e, hek, rfl, rfl, rfl⟩
      · cases hm
    · rintro ⟨e, hek, rfl, rfl, rfl⟩
      exact ⟨e, by omega, by simp [hek]⟩

/-! ### Soundness: every reachable state `(i, e)` has spent at least the distance -/

/-- What a reachable state means: inside the required prefix the input read so far *is* the
    prefix of the term; behind it the input starts with the required prefix and the errors used
    are at least the Levenshtein distance between the consumed part of the term and the input. -/
def Sound (term : List Nat) (k p : Nat) (u : List Nat) (s : St) : Prop :=
  s.2 ≤ k ∧ s.1 ≤ term.length ∧
  ((s.1 < p ∧ s.2 = 0 ∧ u = term.take s.1) ∨
   (p ≤ s.1 ∧ term.take p <+: u ∧ lev (term.take s.1) u ≤ s.2))

theorem take_succ_of_getElem? {term : List Nat} {i c : Nat} (h : term[i]? = some c) :
    i < term.length ∧ term.take (i + 1) = term.take i ++ [c] := by
  obtain ⟨hi, rfl⟩ := List.getElem?_eq_some_iff.mp h
  exact ⟨hi, List.take_succ_eq_append_getElem hi⟩

theorem lev_snoc_left_le (x : Nat) (a b : List Nat) : lev (a ++ [x]) b ≤ lev a b + 1 :=
  ed_snoc_left_le false x a b
theorem lev_snoc_right_le (y : Nat) (a b : List Nat) : lev a (b ++ [y]) ≤ lev a b + 1 :=
  ed_snoc_right_le false y a b
theorem lev_snoc_snoc_le (x y : Nat) (a b : List Nat) : lev (a ++ [x]) (b ++ [y]) ≤ lev a b + neq x y :=
  ed_snoc_snoc_le false x y a b
theorem lev_self (a : List Nat) : lev a a = 0 := by
  have := ed_append_left_same false a [] []
  simpa [lev] using this

theorem sound_eps (term : List Nat) (k p0 : Nat) (u : List Nat) (s t : St)
    (hs : Sound term k (min p0 term.length) u s)
    (ht : (s, Label.eps, t) ∈ (levenshteinAutomaton term k p0).trans) :
    Sound term k (min p0 term.length) u t := by
  rcases (mem_levTrans term k p0 s t .eps).mp ht with
    ⟨i, c, hc, hlt, rfl, hl, rfl⟩ | ⟨i, c, e, hc, hle, hek, rfl, h⟩ | ⟨e, hek, rfl, hl, rfl⟩
  · cases hl
  · rcases h with ⟨hl, _⟩ | ⟨hlt, ⟨hl, _⟩ | ⟨_, rfl⟩ | ⟨hl, _⟩⟩
    · cases hl
    · cases hl
    · obtain ⟨hi, htake⟩ := take_succ_of_getElem? hc
      obtain ⟨_, _, h3⟩ := hs
      rcases h3 with ⟨h, _⟩ | ⟨_, hpre, hd⟩
      · exact absurd h (by simp only; omega)
      · refine ⟨by simp only; omega, by simp only; omega, Or.inr ⟨by simp only; omega, hpre, ?_⟩⟩
        simp only at hd ⊢
        rw [htake]
        have := lev_snoc_left_le c (term.take i) u
        omega
    · cases hl
  · cases hl

theorem sound_move (term : List Nat) (k p0 : Nat) (u : List Nat) (c : Nat) (s t : St)
    (hs : Sound term k (min p0 term.length) u s)
    (ht : (s, Label.chr c, t) ∈ (levenshteinAutomaton term k p0).trans ∨
          (s, Label.any, t) ∈ (levenshteinAutomaton term k p0).trans) :
    Sound term k (min p0 term.length) (u ++ [c]) t := by
  have key : ∀ l, (l = Label.chr c ∨ l = Label.any) → (s, l, t) ∈ (levenshteinAutomaton term k p0).trans →
      Sound term k (min p0 term.length) (u ++ [c]) t := by
    intro l hl hm
    rcases (mem_levTrans term k p0 s t l).mp hm with
      ⟨i, c', hc, hlt, rfl, hl', rfl⟩ | ⟨i, c', e, hc, hle, hek, rfl, h⟩ | ⟨e, hek, rfl, hl', rfl⟩
    · -- inside the required prefix
      have hcc : c' = c := by
        rcases hl with rfl | rfl
        · simpa using hl'.symm
        · cases hl'
      subst hcc
      obtain ⟨hi, htake⟩ := take_succ_of_getElem? hc
      obtain ⟨_, _, h3⟩ := hs
      rcases h3 with ⟨_, _, hu⟩ | ⟨h, _⟩
      · simp only at hu
        by_cases hlast : i + 1 < min p0 term.length
        · exact ⟨by simp, by simp only; omega, Or.inl ⟨hlast, rfl, by simp only; rw [htake, hu]⟩⟩
        · have hip : i + 1 = min p0 term.length := by omega
          refine ⟨by simp, by simp only; omega, Or.inr ⟨by simp only; omega, ?_, ?_⟩⟩
          · rw [← hip, htake, hu]; exact List.prefix_refl _
          · simp only; rw [htake, hu, lev_self]; exact Nat.le_refl _
      · exact absurd h (by simp only; omega)
    · obtain ⟨hi, htake⟩ := take_succ_of_getElem? hc
      obtain ⟨_, _, h3⟩ := hs
      rcases h3 with ⟨h, _⟩ | ⟨_, hpre, hd⟩
      · exact absurd h (by simp only; omega)
      · simp only at hd
        have hpre' : term.take (min p0 term.length) <+: u ++ [c] :=
          List.IsPrefix.trans hpre (List.prefix_append _ _)
        rcases h with ⟨hl', rfl⟩ | ⟨hlt, ⟨_, rfl⟩ | ⟨hl', _⟩ | ⟨_, rfl⟩⟩
        · -- the correct character
          have hcc : c' = c := by
            rcases hl with rfl | rfl
            · simpa using hl'.symm
            · cases hl'
          subst hcc
          refine ⟨hek, by simp only; omega, Or.inr ⟨by simp only; omega, hpre', ?_⟩⟩
          simp only; rw [htake]
          have := lev_snoc_snoc_le c' c' (term.take i) u
          simp only [neq_self, Nat.add_zero] at this
          omega
        · -- an extra input character
          refine ⟨by simp only; omega, by simp only; omega, Or.inr ⟨hle, hpre', ?_⟩⟩
          simp only
          have := lev_snoc_right_le c (term.take i) u
          omega
        · rcases hl with rfl | rfl <;> cases hl'
        · -- substitution
          refine ⟨by simp only; omega, by simp only; omega, Or.inr ⟨by simp only; omega, hpre', ?_⟩⟩
          simp only; rw [htake]
          have := lev_snoc_snoc_le c' c (term.take i) u
          have := neq_le_one c' c
          omega
    · -- extra input characters behind the whole term
      obtain ⟨_, _, h3⟩ := hs
      rcases h3 with ⟨h, _⟩ | ⟨hp, hpre, hd⟩
      · exact absurd h (by simp only; omega)
      · simp only at hd hp
        refine ⟨by simp only; omega, by simp, Or.inr ⟨hp, List.IsPrefix.trans hpre (List.prefix_append _ _), ?_⟩⟩
        simp only
        have := lev_snoc_right_le c (term.take term.length) u
        omega
  rcases ht with h | h
  · exact key _ (Or.inl rfl) h
  · exact key _ (Or.inr rfl) h

theorem sound_initial (term : List Nat) (k p0 : Nat) : Sound term k (min p0 term.length) [] (0, 0) := by
  refine ⟨Nat.zero_le _, Nat.zero_le _, ?_⟩
  by_cases h : 0 < min p0 term.length
  · exact Or.inl ⟨h, rfl, by simp⟩
  · have : min p0 term.length = 0 := by omega
    exact Or.inr ⟨by omega, by rw [this]; simp, by simp [lev]⟩

/-- Every state reachable on input `u` is sound for `u`. -/
theorem sound_run (term : List Nat) (k p0 : Nat) (u : List Nat) :
    ∀ s, s ∈ (levenshteinAutomaton term k p0).run u → Sound term k (min p0 term.length) u s := by
  suffices h : ∀ (u u0 : List Nat) (S0 : SSet),
      (∀ s, s ∈ S0 → Sound term k (min p0 term.length) u0 s) →
      ∀ s, s ∈ u.foldl (fun S c => (levenshteinAutomaton term k p0).nextState S (.chr c)) S0 →
        Sound term k (min p0 term.length) (u0 ++ u) s by
    intro s hs
    have := h u [] (levenshteinAutomaton term k p0).start ?_ s hs
    · simpa using this
    · apply expand_induction
      · intro s hs
        have : s = (0, 0) := by simpa [levenshteinAutomaton] using hs
        subst this
        exact sound_initial term k p0
      · intro s t hs ht
        exact sound_eps term k p0 [] s t hs ht
  intro u
  induction u with
  | nil => intro u0 S0 h0 s hs; simpa using h0 s hs
  | cons c u ih =>
    intro u0 S0 h0 s hs
    simp only [List.foldl_cons] at hs
    have := ih (u0 ++ [c]) _ ?_ s hs
    · simpa using this
    · unfold NFA.nextState
      apply expand_induction
      · intro t ht
        obtain ⟨s', hs', harc⟩ := mem_move.mp ht
        exact sound_move term k p0 u0 c s' t (h0 s' hs') harc
      · intro s' t hs' ht
        exact sound_eps term k p0 (u0 ++ [c]) s' t hs' ht

/-! ### Completeness: the state `(i, lev (term.take i) u)` is reached -/

/-- What must be reachable on input `u`. -/
def Complete (term : List Nat) (k p : Nat) (u : List Nat) (S : SSet) : Prop :=
  (∀ i, i < p → u = term.take i → (i, 0) ∈ S) ∧
  (∀ i, p ≤ i → i ≤ term.length → term.take p <+: u → lev (term.take i) u ≤ k →
     (i, lev (term.take i) u) ∈ S)

/-- A set closed under the epsilon arcs. -/
def EpsClosed (n : NFA) (S : SSet) : Prop := ∀ s t, s ∈ S → (s, Label.eps, t) ∈ n.trans → t ∈ S

theorem expand_epsClosed (n : NFA) (X : SSet) : EpsClosed n (n.expand X) :=
  fun _ _ hs ht => expand_closed n X hs ht

theorem eps_arc (term : List Nat) (k p0 i e : Nat) (hi : i < term.length) (hp : min p0 term.length ≤ i)
    (he : e < k) : (((i, e) : St), Label.eps, ((i + 1, e + 1) : St)) ∈ (levenshteinAutomaton term k p0).trans := by
  rw [mem_levTrans]
  exact Or.inr (Or.inl ⟨i, term[i], e, List.getElem?_eq_getElem hi, hp, by omega, rfl,
    Or.inr ⟨he, Or.inr (Or.inl ⟨rfl, rfl⟩)⟩⟩)

theorem stay_arc (term : List Nat) (k p0 i e : Nat) (hi : i ≤ term.length) (hp : min p0 term.length ≤ i)
    (he : e < k) : (((i, e) : St), Label.any, ((i, e + 1) : St)) ∈ (levenshteinAutomaton term k p0).trans := by
  rw [mem_levTrans]
  rcases Nat.lt_or_ge i term.length with h | h
  · exact Or.inr (Or.inl ⟨i, term[i], e, List.getElem?_eq_getElem h, hp, by omega, rfl,
      Or.inr ⟨he, Or.inl ⟨rfl, rfl⟩⟩⟩)
  · have : i = term.length := by omega
    subst this
    exact Or.inr (Or.inr ⟨e, he, rfl, rfl, rfl⟩)

theorem closure_chain (term : List Nat) (k p0 : Nat) (S : SSet)
    (hc : EpsClosed (levenshteinAutomaton term k p0) S) (i e : Nat) (h : (i, e) ∈ S)
    (hp : min p0 term.length ≤ i) :
    ∀ j, i + j ≤ term.length → e + j ≤ k → (i + j, e + j) ∈ S := by
  intro j
  induction j with
  | zero => intro _ _; exact h
  | succ j ih =>
    intro h1 h2
    have := ih (by omega) (by omega)
    exact hc _ _ this (eps_arc term k p0 (i + j) (e + j) (by omega) (by omega) (by omega))

theorem lev_take_take (term : List Nat) (p i : Nat) (hpi : p ≤ i) (hi : i ≤ term.length) :
    lev (term.take i) (term.take p) = i - p := by
  have e1 : term.take i = term.take p ++ (term.drop p).take (i - p) := by
    have : i = p + (i - p) := by omega
    rw [this, List.take_add]; simp
  have := ed_append_left_same false (term.take p) ((term.drop p).take (i - p)) []
  rw [List.append_nil] at this
  rw [e1]
  show ed false _ _ = _
  rw [this]
  simp; omega

theorem lev_prefix_snoc (a u : List Nat) (c : Nat) (h : a <+: u) :
    lev a (u ++ [c]) = lev a u + 1 := by
  obtain ⟨r, rfl⟩ := h
  have h1 := ed_append_left_same false a [] (r ++ [c])
  have h2 := ed_append_left_same false a [] r
  simp only [List.append_nil, ed_nil_left] at h1 h2
  show ed false _ _ = ed false _ _ + 1
  rw [List.append_assoc, h1, h2]; simp

theorem prefix_snoc_cases (a u : List Nat) (c : Nat) (h : a <+: u ++ [c]) : a <+: u ∨ a = u ++ [c] := by
  obtain ⟨r, hr⟩ := h
  rcases List.eq_nil_or_concat r with rfl | ⟨r', x, rfl⟩
  · right; simpa using hr
  · left
    rw [List.concat_eq_append, ← List.append_assoc] at hr
    have := List.append_inj_left' hr rfl
    exact ⟨r', this⟩

theorem complete_start (term : List Nat) (k p0 : Nat) :
    Complete term k (min p0 term.length) [] (levenshteinAutomaton term k p0).start := by
  unfold NFA.start
  have h00 : ((0, 0) : St) ∈ (levenshteinAutomaton term k p0).expand
      [(levenshteinAutomaton term k p0).initial] :=
    subset_expand _ _ (by simp [levenshteinAutomaton])
  constructor
  · intro i hi hu
    have : i = 0 := by
      have hl := congrArg List.length hu
      simp at hl; omega
    subst this; exact h00
  · intro i hpi hi hpre hd
    have hp0 : min p0 term.length = 0 := by
      have hl := List.IsPrefix.length_le hpre
      rw [List.length_take, List.length_nil] at hl
      omega
    have hlev : lev (term.take i) [] = i := by simp [lev, Nat.min_eq_left hi]
    rw [hlev] at hd ⊢
    have := closure_chain term k p0 _ (expand_epsClosed _ _) 0 0 h00 (by omega) i (by omega) (by omega)
    simpa using this

theorem complete_step (term : List Nat) (k p0 : Nat) (u : List Nat) (c : Nat) (S : SSet)
    (hS : Complete term k (min p0 term.length) u S) :
    Complete term k (min p0 term.length) (u ++ [c])
      ((levenshteinAutomaton term k p0).nextState S (.chr c)) := by
  have hclosed := expand_epsClosed (levenshteinAutomaton term k p0)
    ((S.flatMap fun s => (levenshteinAutomaton term k p0).dests s (.chr c) ++
      (levenshteinAutomaton term k p0).dests s .any).eraseDups)
  have hmove : ∀ s t, s ∈ S → ((s, Label.chr c, t) ∈ (levenshteinAutomaton term k p0).trans ∨
      (s, Label.any, t) ∈ (levenshteinAutomaton term k p0).trans) →
      t ∈ (levenshteinAutomaton term k p0).nextState S (.chr c) := by
    intro s t hs harc
    exact subset_expand _ _ (mem_move.mpr ⟨s, hs, harc⟩)
  obtain ⟨hC1, hC2⟩ := hS
  -- the arc inside the required prefix
  have hC1' : ∀ i, i < min p0 term.length → u ++ [c] = term.take i →
      (i, 0) ∈ (levenshteinAutomaton term k p0).nextState S (.chr c) := by
    intro i hi hu
    have hlen := congrArg List.length hu
    simp only [List.length_append, List.length_cons, List.length_nil, List.length_take] at hlen
    obtain ⟨i0, rfl⟩ : ∃ i0, i = i0 + 1 := ⟨i - 1, by omega⟩
    have hi0 : i0 < term.length := by omega
    rw [List.take_succ_eq_append_getElem hi0] at hu
    have h1 := List.append_inj_left' hu rfl
    have h2 := List.append_inj_right' hu rfl
    simp only [List.cons.injEq, and_true] at h2
    have hin := hC1 i0 (by omega) h1
    refine hmove _ _ hin (Or.inl ?_)
    rw [mem_levTrans]
    exact Or.inl ⟨i0, term[i0], List.getElem?_eq_getElem hi0, by omega, rfl, by rw [h2], rfl⟩
  refine ⟨hC1', ?_⟩
  intro i hpi hi hpre hd
  rcases prefix_snoc_cases _ _ _ hpre with hpu | hpeq
  · -- the required prefix has already been read
    obtain ⟨j, rfl⟩ : ∃ j, i = min p0 term.length + j := ⟨i - min p0 term.length, by omega⟩
    clear hpi
    induction j with
    | zero =>
      simp only [Nat.add_zero] at hd hi ⊢
      rw [lev_prefix_snoc _ _ _ hpu] at hd ⊢
      have hin := hC2 _ (Nat.le_refl _) hi hpu (by omega)
      exact hmove _ _ hin (Or.inr (stay_arc term k p0 _ _ hi (Nat.le_refl _) (by omega)))
    | succ j ih =>
      have hi0 : min p0 term.length + j < term.length := by omega
      have htake : term.take (min p0 term.length + (j + 1)) =
          term.take (min p0 term.length + j) ++ [term[min p0 term.length + j]] := by
        rw [← Nat.add_assoc]; exact List.take_succ_eq_append_getElem hi0
      have hrec : lev (term.take (min p0 term.length + (j + 1))) (u ++ [c]) =
          snocBase false term[min p0 term.length + j] c (term.take (min p0 term.length + j)) u := by
        rw [htake]; exact ed_snoc_snoc_noswap false _ _ _ _ (by simp)
      unfold snocBase at hrec
      have ih' := ih (by omega)
      rw [← Nat.add_assoc] at hd ⊢ hrec htake
      -- which alternative attains the minimum?
      rcases Nat.le_total (ed false (term.take (min p0 term.length + j)) (u ++ [c]) + 1)
          (min (ed false (term.take (min p0 term.length + j) ++ [term[min p0 term.length + j]]) u + 1)
            (ed false (term.take (min p0 term.length + j)) u +
              neq term[min p0 term.length + j] c)) with h | h
      · -- a term character is skipped (epsilon arc)
        rw [Nat.min_eq_left h] at hrec
        have h0 := ih' (by show ed false _ _ ≤ k; omega)
        rw [hrec]
        exact hclosed _ _ h0 (eps_arc term k p0 _ _ hi0 (by omega) (by show ed false _ _ < k; omega))
      · rw [Nat.min_eq_right h] at hrec
        rcases Nat.le_total (ed false (term.take (min p0 term.length + j) ++ [term[min p0 term.length + j]]) u + 1)
            (ed false (term.take (min p0 term.length + j)) u + neq term[min p0 term.length + j] c) with h' | h'
        · -- an extra input character
          rw [Nat.min_eq_left h', ← htake] at hrec
          have hin := hC2 (min p0 term.length + j + 1) (by omega) hi hpu (by show ed false _ _ ≤ k; omega)
          rw [hrec]
          exact hmove _ _ hin (Or.inr (stay_arc term k p0 _ _ hi (by omega) (by show ed false _ _ < k; omega)))
        · -- match or substitution
          rw [Nat.min_eq_right h'] at hrec
          have hle : lev (term.take (min p0 term.length + j)) u ≤ k := by
            show ed false _ _ ≤ k; omega
          have hin := hC2 (min p0 term.length + j) (by omega) (by omega) hpu hle
          rw [hrec]
          by_cases hx : term[min p0 term.length + j] = c
          · rw [hx, neq_self, Nat.add_zero]
            refine hmove _ _ hin (Or.inl ?_)
            rw [mem_levTrans]
            exact Or.inr (Or.inl ⟨_, _, _, List.getElem?_eq_getElem hi0, by omega, hle, rfl,
              Or.inl ⟨by rw [hx], rfl⟩⟩)
          · have hn : neq term[min p0 term.length + j] c = 1 := by simp [neq, hx]
            rw [hn]
            refine hmove _ _ hin (Or.inr ?_)
            rw [mem_levTrans]
            exact Or.inr (Or.inl ⟨_, _, _, List.getElem?_eq_getElem hi0, by omega, hle, rfl,
              Or.inr ⟨by show ed false _ _ < k; omega, Or.inr (Or.inr ⟨rfl, rfl⟩)⟩⟩)
  · -- this character completes the required prefix
    have hp0 : 0 < min p0 term.length := by
      have := congrArg List.length hpeq
      simp only [List.length_append, List.length_cons, List.length_nil, List.length_take] at this
      omega
    have hpin : (min p0 term.length, 0) ∈ (levenshteinAutomaton term k p0).nextState S (.chr c) := by
      -- (p-1, 0) --c--> (p, 0)
      obtain ⟨q, hq⟩ : ∃ q, min p0 term.length = q + 1 := ⟨min p0 term.length - 1, by omega⟩
      have hq0 : q < term.length := by omega
      rw [hq, List.take_succ_eq_append_getElem hq0] at hpeq
      have h1 := List.append_inj_left' hpeq rfl
      have h2 := List.append_inj_right' hpeq rfl
      simp only [List.cons.injEq, and_true] at h2
      have := hC1 q (by omega) h1.symm
      rw [hq]
      refine hmove _ _ this (Or.inl ?_)
      rw [mem_levTrans]
      exact Or.inl ⟨q, term[q], List.getElem?_eq_getElem hq0, by omega, rfl, by rw [h2], rfl⟩
    have hdist : lev (term.take i) (u ++ [c]) = i - min p0 term.length := by
      rw [← hpeq]; exact lev_take_take term _ i hpi hi
    rw [hdist] at hd ⊢
    have := closure_chain term k p0 _ hclosed _ 0 hpin (Nat.le_refl _) (i - min p0 term.length)
      (by omega) (by omega)
    have e : min p0 term.length + (i - min p0 term.length) = i := by omega
    rw [e, Nat.zero_add] at this
    exact this

/-- On input `u` the state `(i, lev (term.take i) u)` is reached. -/
theorem complete_run (term : List Nat) (k p0 : Nat) (u : List Nat) :
    Complete term k (min p0 term.length) u ((levenshteinAutomaton term k p0).run u) := by
  unfold NFA.run
  suffices h : ∀ (u u0 : List Nat) (S0 : SSet), Complete term k (min p0 term.length) u0 S0 →
      Complete term k (min p0 term.length) (u0 ++ u)
        (u.foldl (fun S c => (levenshteinAutomaton term k p0).nextState S (.chr c)) S0) by
    have := h u [] _ (complete_start term k p0)
    simpa using this
  intro u
  induction u with
  | nil => intro u0 S0 h0; simpa using h0
  | cons c u ih =>
    intro u0 S0 h0
    have := ih (u0 ++ [c]) _ (complete_step term k p0 u0 c S0 h0)
    simpa using this

theorem take_min_length (term : List Nat) (p0 : Nat) :
    term.take (min p0 term.length) = term.take p0 := by
  rcases Nat.le_total p0 term.length with h | h
  · rw [Nat.min_eq_left h]
  · rw [Nat.min_eq_right h, List.take_length, List.take_of_length_le h]

/-- **Acceptance of the Levenshtein NFA**: the input starts with the first `prefix` characters of
    the term (all of it when the term is shorter) and is within Levenshtein distance `k` of it. -/
theorem nfa_accept_iff (term : List Nat) (k p0 : Nat) (u : List Nat) :
    (levenshteinAutomaton term k p0).accept u = true ↔ (term.take p0 <+: u ∧ lev term u ≤ k) := by
  rw [accept_eq]
  unfold NFA.isFinal
  simp only [List.any_eq_true, List.contains_iff_mem]
  constructor
  · rintro ⟨s, hs, hf⟩
    have hsound := sound_run term k p0 u s hs
    simp only [levenshteinAutomaton, List.mem_map, List.mem_range] at hf
    obtain ⟨e, he, rfl⟩ := hf
    obtain ⟨_, _, h3⟩ := hsound
    rcases h3 with ⟨h, _⟩ | ⟨_, hpre, hd⟩
    · exact absurd h (by simp only; omega)
    · simp only [List.take_length] at hd
      rw [take_min_length] at hpre
      exact ⟨hpre, by omega⟩
  · rintro ⟨hpre, hd⟩
    have hc := (complete_run term k p0 u).2 term.length (Nat.min_le_right _ _) (Nat.le_refl _)
      (by rw [take_min_length]; exact hpre) (by rw [List.take_length]; exact hd)
    rw [List.take_length] at hc
    refine ⟨_, hc, ?_⟩
    simp only [levenshteinAutomaton, List.mem_map, List.mem_range]
    exact ⟨lev term u, by omega, rfl⟩

end WM.Lev
