import WM.Lemmas.NumericSplit
import WM.Lemmas.NumericBytes
import WM.Lemmas.NumericSortable
/-! `tiered_ranges`, `NUMERIC.index` and `_compile_query` composed. -/
namespace WM.Numeric
open WM.NumericSpec

/-! ### the indexed precision levels -/

theorem mem_shiftsFrom (n step : Nat) (hstep : 0 < step) (sh : Nat) :
    ∀ (d i : Nat), n - i = d →
      (sh ∈ shiftsFrom n step hstep i ↔ (i ≤ sh ∧ sh < n ∧ (sh - i) % step = 0)) := by
  intro d
  induction d using Nat.strongRecOn with
  | _ d ih =>
    intro i hd
    rw [shiftsFrom]
    split
    · next hi =>
      rw [List.mem_cons, ih (n - (i + step)) (by omega) (i + step) rfl]
      constructor
      · rintro (rfl | ⟨h1, h2, h3⟩)
        · simp [hi]
        · refine ⟨by omega, h2, ?_⟩
          have e : sh - i = (sh - (i + step)) + step := by omega
          rw [e, Nat.add_mod_right]; exact h3
      · rintro ⟨h1, h2, h3⟩
        by_cases he : sh = i
        · exact Or.inl he
        · right
          have hlt : i < sh := by omega
          -- sh - i is a positive multiple of step
          have hge : step ≤ sh - i := by
            apply Decidable.by_contra; intro hc
            have : (sh - i) % step = sh - i := Nat.mod_eq_of_lt (by omega)
            omega
          refine ⟨by omega, h2, ?_⟩
          have e : sh - i = (sh - (i + step)) + step := by omega
          rw [e, Nat.add_mod_right] at h3; exact h3
    · next hi =>
      simp only [List.not_mem_nil, false_iff]
      omega

/-- `xrange(0, bits, step)` (or `[0]` without tiers) as a predicate. -/
theorem mem_indexShifts (n step sh : Nat) :
    sh ∈ indexShifts n step ↔ (if step = 0 then sh = 0 else sh < n ∧ sh % step = 0) := by
  unfold indexShifts
  by_cases h : step = 0
  · simp [h]
  · simp only [h, dite_false, if_false]
    rw [mem_shiftsFrom n step (Nat.pos_of_ne_zero h) sh (n - 0) 0 rfl]
    simp

/-! ### `tiered_ranges` on sortable values -/

/-- The inclusive lower bound `tiered_ranges` computes. -/
def loBound (start : Option Int) (sx : Bool) : Int :=
  match start with
  | none => 0
  | some x => if sx then x + 1 else x

/-- The inclusive upper bound `tiered_ranges` computes. -/
def hiBound (n : Nat) (end_ : Option Int) (ex : Bool) : Int :=
  match end_ with
  | none => (2 : Int) ^ n - 1
  | some x => if ex then x - 1 else x

theorem tieredSortable_eq (n : Nat) (start end_ : Option Int) (step : Nat) (sx ex : Bool) :
    tieredSortable n start end_ step sx ex =
      if loBound start sx > hiBound n end_ ex then []
      else if h : step = 0 then [⟨(loBound start sx).toNat, (hiBound n end_ ex).toNat, 0⟩]
      else splitRanges n step (Nat.pos_of_ne_zero h) (loBound start sx).toNat
        (hiBound n end_ ex).toNat := by
  unfold tieredSortable loBound hiBound
  rfl

/-- The interval predicate of the spec, for a value inside the sortable domain, in terms of the
    two inclusive bounds. -/
theorem inInterval_int (n : Nat) (start end_ : Option Int) (sx ex : Bool) (X : Int)
    (h0 : 0 ≤ X) (h1 : X < 2 ^ n) :
    inInterval intLt start end_ sx ex X = true ↔
      (loBound start sx ≤ X ∧ X ≤ hiBound n end_ ex) := by
  unfold inInterval loBound hiBound intLt
  cases start <;> cases end_ <;> cases sx <;> cases ex <;> simp <;> omega

theorem loBound_nonneg (n : Nat) (start : Option Int) (sx : Bool)
    (hs : ∀ a, start = some a → 0 ≤ a ∧ a < 2 ^ n) : 0 ≤ loBound start sx := by
  cases start with
  | none => simp [loBound]
  | some a => have := hs a rfl; cases sx <;> simp [loBound] <;> omega

theorem hiBound_lt (n : Nat) (end_ : Option Int) (ex : Bool)
    (he : ∀ b, end_ = some b → 0 ≤ b ∧ b < 2 ^ n) : hiBound n end_ ex < 2 ^ n := by
  cases end_ with
  | none => simp only [hiBound]; omega
  | some b => have := he b rfl; cases ex <;> simp [hiBound] <;> omega

theorem two_pow_cast (n : Nat) : ((2 ^ n : Nat) : Int) = (2 : Int) ^ n := by norm_cast

/-- `tiered_ranges` is exact on the sortable domain, for all combinations of open / closed /
    exclusive ends, including empty intervals and ends at the domain limits. -/
theorem tieredSortable_exact (n step : Nat) (start end_ : Option Int) (sx ex : Bool)
    (X : Nat) (hs : ∀ a, start = some a → 0 ≤ a ∧ a < 2 ^ n)
    (he : ∀ b, end_ = some b → 0 ≤ b ∧ b < 2 ^ n) (hX : X < 2 ^ n) :
    (∃ r ∈ tieredSortable n start end_ step sx ex, r.test X = true) ↔
      inInterval intLt start end_ sx ex (X : Int) = true := by
  have hX' : (X : Int) < 2 ^ n := by rw [← two_pow_cast]; exact Int.ofNat_lt.mpr hX
  rw [inInterval_int n start end_ sx ex X (by omega) hX', tieredSortable_eq]
  have hlo := loBound_nonneg n start sx hs
  have hhi := hiBound_lt n end_ ex he
  by_cases hgt : loBound start sx > hiBound n end_ ex
  · simp only [hgt, if_true, List.not_mem_nil, false_and, exists_false, false_iff]
    omega
  · simp only [hgt, if_false]
    have hle : (loBound start sx).toNat ≤ (hiBound n end_ ex).toNat := by omega
    have hlt : (hiBound n end_ ex).toNat < 2 ^ n := by
      have : ((hiBound n end_ ex).toNat : Int) < ((2 ^ n : Nat) : Int) := by
        rw [two_pow_cast]; omega
      exact Int.ofNat_lt.mp this
    by_cases h : step = 0
    · simp only [h, dite_true, List.mem_singleton, exists_eq_left, R_test_iff, Nat.pow_zero,
        Nat.div_one]
      omega
    · simp only [h, dite_false]
      have := splitLoop_exact n step (Nat.pos_of_ne_zero h) X (n - 0) 0 _ _ rfl hle
        (by simpa using hlt)
      simp only [Nat.pow_zero, Nat.mul_one, Nat.div_one] at this
      rw [splitRanges, this]
      omega

/-- Every range `tiered_ranges` emits lies on an indexed level and inside the domain. -/
theorem tieredSortable_shape (n step : Nat) (hn : 0 < n) (start end_ : Option Int) (sx ex : Bool)
    (hs : ∀ a, start = some a → 0 ≤ a ∧ a < 2 ^ n)
    (he : ∀ b, end_ = some b → 0 ≤ b ∧ b < 2 ^ n) :
    ∀ r ∈ tieredSortable n start end_ step sx ex,
      r.shift ∈ indexShifts n step ∧ r.lo ≤ r.hi ∧ r.hi < 2 ^ n := by
  intro r hr
  rw [tieredSortable_eq] at hr
  have hlo := loBound_nonneg n start sx hs
  have hhi := hiBound_lt n end_ ex he
  by_cases hgt : loBound start sx > hiBound n end_ ex
  · simp [hgt] at hr
  · simp only [hgt, if_false] at hr
    have hle : (loBound start sx).toNat ≤ (hiBound n end_ ex).toNat := by omega
    have hlt : (hiBound n end_ ex).toNat < 2 ^ n := by
      have : ((hiBound n end_ ex).toNat : Int) < ((2 ^ n : Nat) : Int) := by
        rw [two_pow_cast]; omega
      exact Int.ofNat_lt.mp this
    rw [mem_indexShifts]
    by_cases h : step = 0
    · simp only [h, dite_true, List.mem_singleton] at hr
      subst hr
      simp [h, hle, hlt]
    · simp only [h, dite_false] at hr
      have := splitLoop_shape n step (Nat.pos_of_ne_zero h) (n - 0) 0 _ _ rfl hn hle
        (by simpa using hlt) r (by simpa [splitRanges] using hr)
      simp only [h, if_false]
      refine ⟨⟨this.2.1, by simpa using this.2.2.1⟩, this.2.2.2⟩

/-! ### `_compile_query` and the indexed terms -/

/-- The sub-query `_compile_query` builds for one range. -/
def subOf (w : Nat) (r : R) : Sub :=
  if r.lo = r.hi then .term (r.shift :: beBytes w (r.lo >>> r.shift))
  else .range (r.shift :: beBytes w (r.lo >>> r.shift)) (r.shift :: beBytes w (r.hi >>> r.shift))

/-- The term `NUMERIC.index` produces for level `sh`. -/
def termOf (w X sh : Nat) : List Nat := sh :: beBytes w (X >>> sh)

theorem sortableToBytes_ok (w x sh : Nat) (hsh : sh < 256) (hx : x < 256 ^ w) :
    sortableToBytes w x sh = .ok (termOf w x sh) := by
  have : x >>> sh < 256 ^ w := Nat.lt_of_le_of_lt (Nat.shiftRight_le x sh) hx
  simp [sortableToBytes, termOf, hsh, this]

theorem compileRanges_ok (w : Nat) (rs : List R)
    (h : ∀ r ∈ rs, r.shift < 256 ∧ r.lo ≤ r.hi ∧ r.hi < 256 ^ w) :
    compileRanges w rs = .ok (rs.map (subOf w)) := by
  induction rs with
  | nil => rfl
  | cons r rs ih =>
    have hr := h r (List.mem_cons_self)
    have ih' := ih (fun r' hr' => h r' (List.mem_cons_of_mem _ hr'))
    have hlo : r.lo < 256 ^ w := by omega
    rw [compileRanges, ih']
    unfold subOf
    by_cases he : r.lo = r.hi
    · simp only [he, if_true, sortableToBytes_ok w r.hi r.shift hr.1 hr.2.2, termOf]
      simp [bind, Except.bind, pure, Except.pure, he]
    · simp only [he, if_false, sortableToBytes_ok w r.hi r.shift hr.1 hr.2.2,
        sortableToBytes_ok w r.lo r.shift hr.1 hlo, termOf]
      simp [bind, Except.bind, pure, Except.pure, he]

theorem mapM_ok {α β} (f : α → Except Err β) (g : α → β) (l : List α)
    (h : ∀ a ∈ l, f a = .ok (g a)) : l.mapM f = .ok (l.map g) := by
  induction l with
  | nil => rfl
  | cons a l ih =>
    rw [List.mapM_cons, h a List.mem_cons_self, ih (fun b hb => h b (List.mem_cons_of_mem _ hb))]
    simp [bind, Except.bind, pure, Except.pure]

theorem indexTerms_ok (w step X : Nat) (hw : 8 * w ≤ 256) (hX : X < 256 ^ w) :
    indexTerms w step X = .ok ((indexShifts (8 * w) step).map (termOf w X)) := by
  unfold indexTerms
  apply mapM_ok
  intro sh hsh
  rw [mem_indexShifts] at hsh
  have : sh < 256 := by
    by_cases h : step = 0
    · simp [h] at hsh; omega
    · simp [h] at hsh; omega
  exact sortableToBytes_ok w X sh this hX

/-- A sub-query selects the level-`sh` term of `X` iff it is the range's own level and `X` passes
    the range's shifted comparison (uses: term bytes compare like `(shift, value)`). -/
theorem subOf_selects (w : Nat) (r : R) (sh X : Nat) (hr : r.lo ≤ r.hi ∧ r.hi < 256 ^ w)
    (hX : X < 256 ^ w) :
    (subOf w r).selects (termOf w X sh) = true ↔ (sh = r.shift ∧ r.test X = true) := by
  have h1 : r.lo >>> r.shift < 256 ^ w := Nat.lt_of_le_of_lt (Nat.shiftRight_le _ _) (by omega)
  have h2 : r.hi >>> r.shift < 256 ^ w := Nat.lt_of_le_of_lt (Nat.shiftRight_le _ _) hr.2
  have h3 : X >>> sh < 256 ^ w := Nat.lt_of_le_of_lt (Nat.shiftRight_le _ _) hX
  unfold subOf termOf
  by_cases he : r.lo = r.hi
  · simp only [he, if_true, Sub.selects, beq_iff_eq, term_eq_iff w _ _ _ _ h2 h3, R.test,
      Bool.and_eq_true, decide_eq_true_eq]
    constructor
    · rintro ⟨rfl, h⟩; rw [h]; simp
    · rintro ⟨rfl, h⟩; exact ⟨rfl, by omega⟩
  · simp only [he, if_false, Sub.selects, Bool.and_eq_true, bytesLe_term w _ _ _ _ h1 h3,
      bytesLe_term w _ _ _ _ h3 h2, R.test, decide_eq_true_eq]
    constructor
    · rintro ⟨a | ⟨a1, a2⟩, b | ⟨b1, b2⟩⟩
      · omega
      · omega
      · omega
      · subst b1; exact ⟨rfl, a2, b2⟩
    · rintro ⟨rfl, a, b⟩; exact ⟨Or.inr ⟨rfl, a⟩, Or.inr ⟨rfl, b⟩⟩

theorem matchesDoc_iff (w : Nat) (rs : List R) (shifts : List Nat) (X : Nat)
    (h : ∀ r ∈ rs, r.lo ≤ r.hi ∧ r.hi < 256 ^ w) (hX : X < 256 ^ w) :
    matchesDoc (rs.map (subOf w)) (shifts.map (termOf w X)) = true ↔
      ∃ r ∈ rs, r.shift ∈ shifts ∧ r.test X = true := by
  simp only [matchesDoc, List.any_eq_true, List.mem_map]
  constructor
  · rintro ⟨_, ⟨r, hr, rfl⟩, _, ⟨sh, hsh, rfl⟩, hsel⟩
    have := (subOf_selects w r sh X (h r hr) hX).1 hsel
    exact ⟨r, hr, this.1 ▸ hsh, this.2⟩
  · rintro ⟨r, hr, hsh, ht⟩
    exact ⟨_, ⟨r, hr, rfl⟩, _, ⟨r.shift, hsh, rfl⟩, (subOf_selects w r r.shift X (h r hr) hX).2 ⟨rfl, ht⟩⟩

end WM.Numeric
