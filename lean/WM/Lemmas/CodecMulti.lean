import WM.Model.CodecMulti
import WM.Lemmas.CodecAgg
/-! `combine_terminfos` over per-segment aggregates = aggregates of the concatenated list. -/
namespace WM.Codec

variable {α β : Type}

theorem foldl_assoc (op : α → α → α) (h : ∀ a b c, op (op a b) c = op a (op b c)) (x y : α) (l : List α) :
    l.foldl op (op x y) = op x (l.foldl op y) := by
  induction l generalizing y with
  | nil => rfl
  | cons z zs ih => simp only [List.foldl_cons]; rw [h, ih]

theorem fold1_append (op : α → α → α) (h : ∀ a b c, op (op a b) c = op a (op b c)) (d : α)
    (a b : List α) (ha : a ≠ []) (hb : b ≠ []) :
    fold1 op d (a ++ b) = op (fold1 op d a) (fold1 op d b) := by
  cases a with
  | nil => exact absurd rfl ha
  | cons x xs =>
    cases b with
    | nil => exact absurd rfl hb
    | cons y ys =>
      simp only [fold1, List.cons_append, List.foldl_append, List.foldl_cons]
      exact foldl_assoc op h _ _ _

theorem fold1_cons (op : α → α → α) (h : ∀ a b c, op (op a b) c = op a (op b c)) (d x : α)
    (l : List α) (hl : l ≠ []) : fold1 op d (x :: l) = op x (fold1 op d l) := by
  have := fold1_append op h d [x] l (by simp) hl
  simpa [fold1] using this

/-- Folding the per-segment folds = folding the concatenation. -/
theorem fold1_flatMap (op : α → α → α) (h : ∀ a b c, op (op a b) c = op a (op b c)) (d : α)
    (g : β → List α) (segs : List β) (hne : segs ≠ []) (hg : ∀ s ∈ segs, g s ≠ []) :
    fold1 op d (segs.map fun s => fold1 op d (g s)) = fold1 op d (segs.flatMap g) := by
  induction segs with
  | nil => exact absurd rfl hne
  | cons s rest ih =>
    cases rest with
    | nil => simp [fold1]
    | cons s' rest' =>
      have hrest : (s' :: rest') ≠ [] := by simp
      have hg' : ∀ t ∈ s' :: rest', g t ≠ [] := fun t ht => hg t (List.mem_cons_of_mem _ ht)
      have hfm : (s' :: rest').flatMap g ≠ [] := by
        simp only [List.flatMap_cons]
        intro hnil
        exact hg s' (by simp) (List.append_eq_nil_iff.mp hnil).1
      have e : (s :: s' :: rest').flatMap g = g s ++ (s' :: rest').flatMap g := List.flatMap_cons
      rw [e, fold1_append op h d _ _ (hg s (by simp)) hfm, ← ih hrest hg', List.map_cons,
        fold1_cons op h d _ _ (by simp)]

theorem foldl_min_shift (off x : Int) (l : List Int) :
    (l.map (· + off)).foldl min (x + off) = l.foldl min x + off := by
  induction l generalizing x with
  | nil => rfl
  | cons y ys ih =>
    simp only [List.map_cons, List.foldl_cons]
    have : min (x + off) (y + off) = min x y + off := by omega
    rw [this, ih]

theorem foldl_max_shift (off x : Int) (l : List Int) :
    (l.map (· + off)).foldl max (x + off) = l.foldl max x + off := by
  induction l generalizing x with
  | nil => rfl
  | cons y ys ih =>
    simp only [List.map_cons, List.foldl_cons]
    have : max (x + off) (y + off) = max x y + off := by omega
    rw [this, ih]

theorem fold1_min_shift (off : Int) (l : List Int) (hl : l ≠ []) :
    fold1 min 0 (l.map (· + off)) = fold1 min 0 l + off := by
  cases l with
  | nil => exact absurd rfl hl
  | cons x xs => simp only [List.map_cons, fold1]; exact foldl_min_shift off x xs

theorem fold1_max_shift (off : Int) (l : List Int) (hl : l ≠ []) :
    fold1 max 0 (l.map (· + off)) = fold1 max 0 l + off := by
  cases l with
  | nil => exact absurd rfl hl
  | cons x xs => simp only [List.map_cons, fold1]; exact foldl_max_shift off x xs

/-- Sum of the per-segment sums = sum over the concatenation (Python `sum` is a left fold from 0). -/
theorem foldl_add_flatMap (g : β → List Rat) (segs : List β) :
    (segs.map fun s => (g s).foldl (· + ·) 0).foldl (· + ·) 0 = (segs.flatMap g).foldl (· + ·) 0 := by
  induction segs with
  | nil => rfl
  | cons s rest ih =>
    simp only [List.map_cons, List.foldl_cons, List.flatMap_cons, List.foldl_append]
    rw [foldl_add, ih, foldl_add ((g s).foldl (· + ·) 0)]
    grind

theorem foldl_addNat (x : Nat) (l : List Nat) : l.foldl (· + ·) x = x + l.foldl (· + ·) 0 := by
  induction l generalizing x with
  | nil => simp
  | cons a l ih => simp only [List.foldl_cons]; rw [ih, ih (0 + a)]; omega

theorem foldl_len_flatMap (g : β → List α) (segs : List β) :
    (segs.map fun s => (g s).length).foldl (· + ·) 0 = (segs.flatMap g).length := by
  induction segs with
  | nil => rfl
  | cons s rest ih =>
    simp only [List.map_cons, List.foldl_cons, List.flatMap_cons, List.length_append]
    rw [foldl_addNat, ih]; omega

/-- The one-element branch of `combine_terminfos` computes the same numbers as the general one. -/
theorem combineTerminfos_eq (tis : List (TiStats × Int)) (hne : tis ≠ []) :
    combineTerminfos tis = some (combineGen tis) := by
  match tis, hne with
  | [(ti, off)], _ =>
    simp only [combineTerminfos, combineGen, List.map_cons, List.map_nil, List.foldl_cons, List.foldl_nil, fold1]
    congr 1
    cases ti
    simp only [TiStats.mk.injEq, and_true]
    refine ⟨by grind, by omega⟩
  | _ :: _ :: _, _ => rfl

end WM.Codec
