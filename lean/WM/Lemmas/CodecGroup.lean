import WM.Lemmas.CodecFormats
/-! `groupTokens` (the `defaultdict(list)` accumulation of `word_values`) lists, for every distinct
token text in order of first occurrence, the images of its occurrences in stream order. -/
namespace WM.Codec

theorem groupTokens_snoc {β : Type} (f : Token → β) (toks : List Token) (t : Token) :
    groupTokens f (toks ++ [t]) = dictAppend (groupTokens f toks) t.text (f t) := by
  simp [groupTokens, List.foldl_append]

theorem distinctTexts_snoc (toks : List Token) (t : Token) :
    distinctTexts (toks ++ [t]) = insertNew (distinctTexts toks) t.text := by
  simp [distinctTexts, List.foldl_append]

theorem occ_snoc (toks : List Token) (t : Token) (w : String) :
    occ (toks ++ [t]) w = occ toks w ++ (if t.text == w then [t] else []) := by
  simp only [occ, List.filter_append, List.filter_cons, List.filter_nil]

theorem mem_distinctTexts (toks : List Token) (k : String) :
    k ∈ distinctTexts toks ↔ ∃ t ∈ toks, t.text = k := by
  induction toks using snoc_induction with
  | nil => simp [distinctTexts]
  | snoc toks t ih =>
    rw [distinctTexts_snoc]
    unfold insertNew
    split
    · next hin =>
      rw [ih]
      constructor
      · rintro ⟨x, hx, rfl⟩; exact ⟨x, by simp [hx], rfl⟩
      · rintro ⟨x, hx, rfl⟩
        simp only [List.mem_append, List.mem_singleton] at hx
        rcases hx with hx | rfl
        · exact ⟨x, hx, rfl⟩
        · exact ih.mp hin
    · simp only [List.mem_append, List.mem_singleton, ih]
      constructor
      · rintro (⟨x, hx, rfl⟩ | rfl)
        · exact ⟨x, Or.inl hx, rfl⟩
        · exact ⟨t, Or.inr rfl, rfl⟩
      · rintro ⟨x, hx | rfl, rfl⟩
        · exact Or.inl ⟨x, hx, rfl⟩
        · exact Or.inr rfl

theorem nodup_distinctTexts (toks : List Token) : (distinctTexts toks).Nodup := by
  induction toks using snoc_induction with
  | nil => simp [distinctTexts]
  | snoc toks t ih =>
    rw [distinctTexts_snoc]
    unfold insertNew
    split
    · exact ih
    · next hin =>
      rw [List.nodup_append]
      refine ⟨ih, by simp, ?_⟩
      intro a ha b hb
      simp only [List.mem_singleton] at hb
      subst hb
      intro e; subst e; exact hin ha

theorem occ_eq_nil_of_not_mem (toks : List Token) (k : String) (h : k ∉ distinctTexts toks) :
    occ toks k = [] := by
  unfold occ
  rw [List.filter_eq_nil_iff]
  intro t ht
  simp only [beq_iff_eq]
  intro e
  exact h ((mem_distinctTexts toks k).mpr ⟨t, ht, e⟩)

theorem dictAppend_map {β : Type} (keys : List String) (g : String → List β) (k : String) (v : β)
    (hnd : keys.Nodup) :
    dictAppend (keys.map fun w => (w, g w)) k v =
      if k ∈ keys then keys.map (fun w => (w, if w = k then g w ++ [v] else g w))
      else keys.map (fun w => (w, g w)) ++ [(k, [v])] := by
  induction keys with
  | nil => simp [dictAppend]
  | cons a keys ih =>
    simp only [List.map_cons, dictAppend]
    have hnd' : keys.Nodup := (List.nodup_cons.mp hnd).2
    have ha : a ∉ keys := (List.nodup_cons.mp hnd).1
    by_cases hak : a = k
    · subst hak
      simp only [if_true, List.mem_cons, true_or]
      congr 1
      apply List.map_congr_left
      intro w hw
      have : w ≠ a := fun e => ha (e ▸ hw)
      simp [this]
    · simp only [hak, if_false, ih hnd', List.mem_cons]
      have hka : ¬ k = a := fun e => hak e.symm
      simp only [hka, false_or]
      split <;> simp

/-- The accumulation loop, in closed form. -/
theorem groupTokens_eq {β : Type} (f : Token → β) (toks : List Token) :
    groupTokens f toks = (distinctTexts toks).map fun w => (w, (occ toks w).map f) := by
  induction toks using snoc_induction with
  | nil => simp [groupTokens, distinctTexts]
  | snoc toks t ih =>
    rw [groupTokens_snoc, ih, dictAppend_map _ _ _ _ (nodup_distinctTexts toks), distinctTexts_snoc]
    unfold insertNew
    by_cases hin : t.text ∈ distinctTexts toks
    · simp only [hin, if_true]
      apply List.map_congr_left
      intro w _
      rw [occ_snoc]
      by_cases hw : w = t.text
      · subst hw; simp
      · have : (t.text == w) = false := by simp; exact fun e => hw e.symm
        simp [hw, this]
    · simp only [hin, if_false, List.map_append, List.map_cons, List.map_nil]
      congr 1
      · apply List.map_congr_left
        intro w hw
        rw [occ_snoc]
        have : (t.text == w) = false := by
          simp only [beq_eq_false_iff_ne, ne_eq]; intro e; exact hin (e ▸ hw)
        simp [this]
      · rw [occ_snoc, occ_eq_nil_of_not_mem toks _ hin]
        simp

end WM.Codec
