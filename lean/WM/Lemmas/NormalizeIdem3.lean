import WM.Lemmas.NormalizeIdem2
/-! Idempotence of `normalize`, part 3: the output of the merge loop is stable; normal forms. -/
namespace WM.Normalize
open WM.Sat WM.Clean

theorem rngNormalize_field (r : Rng) : r.normalize.field = some r.f ∨ r.normalize = .null := by
  unfold Rng.normalize
  split
  · exact Or.inl rfl
  · split
    · split
      · exact Or.inr rfl
      · split
        · exact Or.inl rfl
        · exact Or.inr rfl
    · exact Or.inl rfl

theorem rngNormalize_not_everyAll (r : Rng) : r.normalize.isEveryAll = false := by
  unfold Rng.normalize
  split
  · rfl
  · split
    · split
      · rfl
      · split <;> rfl
    · rfl

theorem efNext_none_notin {q : Q} {ef : List (Option Field)} (h : none ∉ ef) (hq : q.isEveryAll = false) :
    none ∉ efNext q ef := by
  cases q <;> simp only [efNext] <;> try exact h
  rename_i f b
  cases f with
  | none => simp [Q.isEveryAll] at hq
  | some f =>
    intro hm
    rcases List.mem_cons.mp hm with e | hm
    · cases e
    · exact h hm

theorem mergeLoop_stable (i : Bool) (ef : List (Option Field)) (l : List Q) (hnone : none ∉ ef)
    (hall : ∀ s ∈ l, s.isEveryAll = false) :
    stable ef (mergeLoop i ef l).1 = true ∧ efFinal ef (mergeLoop i ef l).1 = (mergeLoop i ef l).2
      ∧ ∀ s ∈ (mergeLoop i ef l).1, s.isEveryAll = false := by
  fun_induction mergeLoop i ef l with
  | case1 ef => exact ⟨rfl, rfl, fun s hs => by simp at hs⟩
  | case2 ef q rest hc ih => exact ih hnone (fun s hs => hall s (List.mem_cons_of_mem _ hs))
  | case3 ef q rest hc r hr p q' ef' res ih =>
    have hq : q = r.toQ := asRange_some hr
    have hq'all : q'.isEveryAll = false := rngNormalize_not_everyAll p.1
    have hp2 : ∀ s ∈ p.2, s.isEveryAll = false :=
      fun s hs => hall s (List.mem_cons_of_mem _ (absorb_mem i r rest s hs))
    obtain ⟨ih1, ih2, ih3⟩ := ih (efNext_none_notin hnone hq'all) hp2
    refine ⟨?_, ?_, ?_⟩
    · show stable ef (q' :: res.1) = true
      simp only [stable, Bool.and_eq_true, Bool.not_eq_true']
      refine ⟨⟨?_, ?_⟩, ih1⟩
      · rcases rngNormalize_field p.1 with hf | hf
        · have : q'.field = q.field := by
            show p.1.normalize.field = _
            rw [hf, hq]
            show some (absorb i r rest).1.f = some r.f
            rw [absorb_f]
          rw [this]
          simpa using hc
        · have : q'.field = none := by
            show p.1.normalize.field = _
            rw [hf]; rfl
          rw [this, Bool.eq_false_iff]
          intro hm
          exact hnone (by simpa using hm)
      · cases hqr : q'.asRange with
        | none => rfl
        | some r'' =>
          simp only [Bool.and_eq_true, Option.isNone_iff_eq_none]
          constructor
          · have hnf : NF q' = true := NF_rngNormalize p.1
            rw [asRange_some hqr] at hnf
            simpa [Rng.toQ, NF] using hnf
          · have hb : p.1.sameBounds r'' := asRange_rngNormalize hqr
            have h0 : NoOv p.1 p.2 := popOverlap_none_iff.mp (absorb_post i r rest)
            exact popOverlap_none_iff.mpr (mergeLoop_noOv r'' i ef' p.2 (h0.congr hb))
    · exact ih2
    · intro s hs
      rcases List.mem_cons.mp hs with rfl | hs
      · exact hq'all
      · exact ih3 s hs
  | case4 ef q rest hc hr ef' res ih =>
    have hqall : q.isEveryAll = false := hall q (List.mem_cons_self ..)
    obtain ⟨ih1, ih2, ih3⟩ := ih (efNext_none_notin hnone hqall)
      (fun s hs => hall s (List.mem_cons_of_mem _ hs))
    refine ⟨?_, ih2, ?_⟩
    · show stable ef (q :: res.1) = true
      simp only [stable, Bool.and_eq_true, Bool.not_eq_true', hr]
      exact ⟨⟨by simpa using hc, trivial⟩, ih1⟩
    · intro s hs
      rcases List.mem_cons.mp hs with rfl | hs
      · exact hqall
      · exact ih3 s hs

end WM.Normalize
