import WM.Lemmas.SearchLists
/-!
Spec-side lemmas for C01/C09: hypotheses of the theorems (`PosQ`, `PosLeaf`,
`ValidOracle`), the pointwise specification `specLookup`, how the pointwise folds of the list
operators evaluate on specifications, positivity of specified scores, phrases.
-/
namespace WM.Compile
open WM.Search

mutual
/-- every boost / constant score in the query is positive -/
def PosQ : Query → Prop
  | .term _ _ b => 0 < b
  | .multi _ _ b _ => 0 < b
  | .phrase _ _ _ b => 0 < b
  | .numRange _ _ _ _ _ b => 0 < b
  | .every _ b => 0 < b
  | .null => True
  | .and qs b => 0 < b ∧ PosQs qs
  | .or qs b => 0 < b ∧ PosQs qs
  | .dismax qs b => 0 < b ∧ PosQs qs
  | .not q => PosQ q
  | .andNot a b => PosQ a ∧ PosQ b
  | .andMaybe a b => PosQ a ∧ PosQ b
  | .require a b => PosQ a ∧ PosQ b
  | .constScore q sc => 0 < sc ∧ PosQ q
def PosQs : List Query → Prop
  | [] => True
  | q :: qs => PosQ q ∧ PosQs qs
end

/-- leaf scores of terms that occur in a live document are positive -/
def PosLeaf (ls : LeafScore) (s : Segment) : Prop :=
  ∀ i ∈ s.live, ∀ f t, (s.doc i).hasTerm f t = true → 0 < ls (s.doc i) f t

/-- whatever tree the implementation builds over `n ≥ 2` clauses, its leaves are the clauses -/
def ValidOracle (so : ShapeOracle) : Prop := ∀ qs, 2 ≤ qs.length → (so qs).Valid qs.length

/-- the specification, pointwise: score of local doc `i` if it is a live match -/
def specLookup (ls : LeafScore) (s : Segment) (q : Query) (i : Nat) : Option Rat :=
  if i ∈ s.live ∧ sat q (s.doc i) = true then some (scoreOf ls q (s.doc i)) else none

theorem live_asc (s : Segment) : Asc s.live := by
  unfold Asc Segment.live
  exact List.Pairwise.sublist List.filter_sublist List.pairwise_lt_range

theorem segHits_eq_canon (ls : LeafScore) (q : Query) (s : Segment) :
    segHits ls q s = canon s.live (fun i => sat q (s.doc i)) (fun i => scoreOf ls q (s.doc i)) := rfl

theorem lookup_segHits (ls : LeafScore) (q : Query) (s : Segment) (i : Nat) :
    lookup (segHits ls q s) i = specLookup ls s q i := by
  rw [segHits_eq_canon, lookup_canon (live_asc s)]; rfl

theorem segHits_sorted (ls : LeafScore) (q : Query) (s : Segment) : Sorted (segHits ls q s) := by
  rw [segHits_eq_canon]; exact canon_sorted (live_asc s) _ _

theorem live_doc_mem {s : Segment} {i : Nat} (h : i ∈ s.live) : s.doc i ∈ s.docs := by
  unfold Segment.live at h
  have hi : i < s.docs.length := by
    have := (List.mem_filter.mp h).1
    simpa [Segment.size] using this
  unfold Segment.doc
  rw [List.getD_eq_getElem?_getD, List.getElem?_eq_getElem hi]
  simp

/-! ### agreement up to scores: in an unscored context only membership is guaranteed -/

/-- `x` (model) agrees with `y` (spec): same definedness, and the same value when scored -/
def R (scored : Bool) (x y : Option Rat) : Prop := x.isSome = y.isSome ∧ (scored = true → x = y)

theorem R.refl (s : Bool) (x : Option Rat) : R s x x := ⟨rfl, fun _ => rfl⟩

theorem R.weaken {x y : Option Rat} {s : Bool} (h : R s x y) : R false x y := ⟨h.1, fun h => by cases h⟩

theorem R.of_eq {s : Bool} {x y : Option Rat} (h : x = y) : R s x y := h ▸ R.refl s x

theorem R.optMerge {g : Rat → Rat → Rat} {s : Bool} {x y x' y' : Option Rat} (h : R s x y) (h' : R s x' y') :
    R s (optMerge g x x') (optMerge g y y') := by
  obtain ⟨h1, h2⟩ := h
  obtain ⟨h1', h2'⟩ := h'
  constructor
  · cases x <;> cases y <;> cases x' <;> cases y' <;> simp_all [Compile.optMerge]
  · intro hs; rw [h2 hs, h2' hs]

theorem R.optBoth {s : Bool} {x y x' y' : Option Rat} (h : R s x y) (h' : R s x' y') :
    R s (optBoth x x') (optBoth y y') := by
  obtain ⟨h1, h2⟩ := h
  obtain ⟨h1', h2'⟩ := h'
  constructor
  · cases x <;> cases y <;> cases x' <;> cases y' <;> simp_all [Compile.optBoth]
  · intro hs; rw [h2 hs, h2' hs]

theorem R.map {s : Bool} {x y : Option Rat} (f : Rat → Rat) (h : R s x y) : R s (x.map f) (y.map f) := by
  obtain ⟨h1, h2⟩ := h
  constructor
  · cases x <;> cases y <;> simp_all
  · intro hs; rw [h2 hs]

/-- a constant score forgets the values -/
theorem R.const {s s' : Bool} {x y : Option Rat} (c : Rat) (h : R s' x y) :
    R s (x.map (fun _ => c)) (y.map (fun _ => c)) := by
  obtain ⟨h1, _⟩ := h
  constructor
  · cases x <;> cases y <;> simp_all
  · intro _; cases x <;> cases y <;> simp_all

theorem R.foldr {α} {F : Option Rat → Option Rat → Option Rat} {s : Bool}
    (hF : ∀ x y x' y', R s x y → R s x' y' → R s (F x x') (F y y')) (e : Option Rat)
    (zs : List α) (f g : α → Option Rat) (h : ∀ z ∈ zs, R s (f z) (g z)) :
    R s ((zs.map f).foldr F e) ((zs.map g).foldr F e) := by
  induction zs with
  | nil => exact R.refl s e
  | cons z zs ih =>
    simp only [List.map_cons, List.foldr_cons]
    exact hF _ _ _ _ (h z List.mem_cons_self) (ih (fun z hz => h z (List.mem_cons_of_mem _ hz)))

/-! ### pointwise folds evaluated on specifications -/

theorem specLookup_not_live {ls : LeafScore} {s : Segment} {q : Query} {i : Nat} (h : i ∉ s.live) :
    specLookup ls s q i = none := by
  simp [specLookup, h]

theorem specLookup_live {ls : LeafScore} {s : Segment} {q : Query} {i : Nat} (h : i ∈ s.live) :
    specLookup ls s q i = if sat q (s.doc i) = true then some (scoreOf ls q (s.doc i)) else none := by
  simp [specLookup, h]

theorem sumSat_eq_zero (ls : LeafScore) (qs : List Query) (d : Doc) (h : satAny qs d = false) :
    sumSat ls qs d = 0 := by
  induction qs with
  | nil => rfl
  | cons q qs ih =>
    simp only [satAny, Bool.or_eq_false_iff] at h
    simp [sumSat, h.1, ih h.2, Rat.add_zero]

/-- union over clauses: defined iff some clause matches; the sum over the matching clauses -/
theorem foldr_add_spec (ls : LeafScore) (s : Segment) (qs : List Query) (i : Nat) :
    (qs.map (fun q => specLookup ls s q i)).foldr (optMerge (· + ·)) none =
      if i ∈ s.live ∧ satAny qs (s.doc i) = true then some (sumSat ls qs (s.doc i)) else none := by
  by_cases hl : i ∈ s.live
  · induction qs with
    | nil => simp [satAny]
    | cons q qs ih =>
      simp only [List.map_cons, List.foldr_cons]
      rw [ih, specLookup_live hl]
      simp only [hl, true_and, satAny, sumSat]
      by_cases h1 : sat q (s.doc i) = true <;> by_cases h2 : satAny qs (s.doc i) = true <;>
        simp [h1, h2, optMerge, Rat.zero_add]
      rw [sumSat_eq_zero ls qs _ (by simpa using h2), Rat.add_zero]
  · induction qs with
    | nil => simp [hl]
    | cons q qs ih =>
      simp only [List.map_cons, List.foldr_cons]
      rw [ih, specLookup_not_live hl]
      simp [hl, optMerge]

/-- intersection over clauses -/
theorem foldr_both_spec (ls : LeafScore) (s : Segment) (qs : List Query) (i : Nat) (hne : qs ≠ []) :
    (qs.map (fun q => specLookup ls s q i)).foldr optBoth (some 0) =
      if i ∈ s.live ∧ satAll qs (s.doc i) = true then some (sumAll ls qs (s.doc i)) else none := by
  by_cases hl : i ∈ s.live
  · clear hne
    induction qs with
    | nil => simp [satAll, sumAll, hl]
    | cons q qs ih =>
      simp only [List.map_cons, List.foldr_cons]
      rw [ih, specLookup_live hl]
      simp only [hl, true_and, satAll, sumAll]
      by_cases h1 : sat q (s.doc i) = true <;> by_cases h2 : satAll qs (s.doc i) = true <;>
        simp [h1, h2, optBoth]
  · cases qs with
    | nil => exact absurd rfl hne
    | cons q qs =>
      simp only [List.map_cons, List.foldr_cons]
      rw [specLookup_not_live hl]
      simp [hl, optBoth]

/-- dismax over clauses -/
theorem foldr_max_spec (ls : LeafScore) (s : Segment) (qs : List Query) (i : Nat) :
    (qs.map (fun q => specLookup ls s q i)).foldr (optMerge ratMax) none =
      if i ∈ s.live then maxSat ls qs (s.doc i) else none := by
  by_cases hl : i ∈ s.live
  · simp only [hl, if_true]
    induction qs with
    | nil => simp [maxSat]
    | cons q qs ih =>
      simp only [List.map_cons, List.foldr_cons]
      rw [ih, specLookup_live hl]
      simp only [maxSat]
      cases hm : maxSat ls qs (s.doc i) with
      | none => by_cases h1 : sat q (s.doc i) = true <;> simp [h1, optMerge]
      | some m =>
        by_cases h1 : sat q (s.doc i) = true
        · simp only [h1, if_true, optMerge, ratMax]
          congr 1
          split <;> split <;> grind
        · simp [h1, optMerge]
  · simp only [hl, if_false]
    induction qs with
    | nil => simp
    | cons q qs ih =>
      simp only [List.map_cons, List.foldr_cons]
      rw [ih, specLookup_not_live hl]
      rfl

theorem maxSat_isSome (ls : LeafScore) (qs : List Query) (d : Doc) :
    (maxSat ls qs d).isSome = satAny qs d := by
  induction qs with
  | nil => rfl
  | cons q qs ih =>
    simp only [maxSat, satAny]
    cases hm : maxSat ls qs d with
    | none =>
      rw [hm] at ih
      have ih' : satAny qs d = false := by simpa using ih.symm
      cases h1 : sat q d <;> simp [ih']
    | some m =>
      rw [hm] at ih
      have ih' : satAny qs d = true := by simpa using ih.symm
      cases h1 : sat q d <;> simp [ih']

/-! ### dedup, terms, positions -/

theorem mem_dedup {t : Term} {l : List Term} : t ∈ dedup l ↔ t ∈ l := by
  induction l with
  | nil => simp [dedup]
  | cons x xs ih =>
    unfold dedup
    by_cases h : (dedup xs).contains x = true
    · rw [if_pos h, ih, List.mem_cons]
      constructor
      · exact Or.inr
      · rintro (rfl | h')
        · have := List.contains_iff_mem.mp h
          exact ih.mp this
        · exact h'
    · rw [if_neg h, List.mem_cons, List.mem_cons, ih]

theorem nodup_dedup (l : List Term) : (dedup l).Nodup := by
  induction l with
  | nil => simp [dedup]
  | cons x xs ih =>
    unfold dedup
    by_cases h : (dedup xs).contains x = true
    · rw [if_pos h]; exact ih
    · rw [if_neg h]
      refine List.nodup_cons.mpr ⟨?_, ih⟩
      intro hm
      exact h (List.contains_iff_mem.mpr hm)

theorem hasTerm_iff_mem {d : Doc} {f : String} {t : Term} : d.hasTerm f t = true ↔ t ∈ d.terms f := by
  unfold Doc.hasTerm
  exact List.contains_iff_mem

theorem positions_ne_nil_iff {d : Doc} {f : String} {t : Term} :
    d.positions f t ≠ [] ↔ t ∈ d.terms f := by
  unfold Doc.positions Doc.terms
  rw [Ne, List.map_eq_nil_iff, List.filter_eq_nil_iff, List.mem_map]
  constructor
  · intro h
    apply Classical.byContradiction
    intro hcon
    apply h
    intro k hk hkt
    apply hcon
    exact ⟨k, hk, by simpa using hkt⟩
  · rintro ⟨k, hk, rfl⟩ hall
    exact hall k hk (by simp)

theorem sum_pos_of_pos {l : List Rat} (h : ∀ x ∈ l, 0 < x) (hne : l ≠ []) : 0 < l.sum := by
  induction l with
  | nil => exact absurd rfl hne
  | cons x xs ih =>
    rw [List.sum_cons]
    have hx := h x List.mem_cons_self
    cases xs with
    | nil => simpa [Rat.add_zero] using hx
    | cons y ys =>
      have := ih (fun z hz => h z (List.mem_cons_of_mem _ hz)) (by simp)
      grind

/-! ### phrases: the propagation of span ends finds exactly the chains -/

theorem endsStep_mem {slop : Nat} {ends bpos : List Nat} {p : Nat} :
    p ∈ endsStep slop ends bpos ↔ p ∈ bpos ∧ ∃ e ∈ ends, e < p ∧ p - e ≤ slop := by
  unfold endsStep
  simp [List.mem_filter, List.any_eq_true]

theorem foldl_ends_ne_nil (slop : Nat) (more : List (List Nat)) (ends : List Nat) :
    (more.foldl (endsStep slop) ends ≠ []) ↔ ends.any (fun e => chainFrom slop e more) = true := by
  induction more generalizing ends with
  | nil =>
    simp only [List.foldl_nil, chainFrom]
    cases ends <;> simp
  | cons ps more ih =>
    simp only [List.foldl_cons]
    rw [ih]
    simp only [List.any_eq_true, chainFrom, Bool.and_eq_true, decide_eq_true_eq]
    constructor
    · rintro ⟨p, hp, hc⟩
      obtain ⟨hpb, e, he, hlt, hd⟩ := endsStep_mem.mp hp
      exact ⟨e, he, p, hpb, ⟨⟨hlt, hd⟩, hc⟩⟩
    · rintro ⟨e, he, p, hpb, ⟨⟨hlt, hd⟩, hc⟩⟩
      exact ⟨p, endsStep_mem.mpr ⟨hpb, e, he, hlt, hd⟩, hc⟩

theorem phraseEnds_iff (slop : Nat) (pss : List (List Nat)) :
    (!(phraseEnds slop pss).isEmpty) = phraseSat slop pss := by
  cases pss with
  | nil => rfl
  | cons ps more =>
    simp only [phraseEnds, phraseSat]
    have := foldl_ends_ne_nil slop more ps
    cases h : List.foldl (endsStep slop) ps more with
    | nil =>
      rw [h] at this
      simp only [ne_eq, not_true_eq_false, false_iff] at this
      simp only [List.isEmpty_nil, Bool.not_true]
      cases h2 : ps.any (fun p => chainFrom slop p more) with
      | true => exact absurd h2 this
      | false => rfl
    | cons x xs =>
      rw [h] at this
      have h2 := this.mp (by simp)
      simp [h2]

theorem chainFrom_all_ne_nil {slop prev : Nat} {pss : List (List Nat)} (h : chainFrom slop prev pss = true) :
    ∀ ps ∈ pss, ps ≠ [] := by
  induction pss generalizing prev with
  | nil => intro ps hps; cases hps
  | cons ps more ih =>
    simp only [chainFrom, List.any_eq_true, Bool.and_eq_true] at h
    obtain ⟨p, hp, _, hc⟩ := h
    intro qs hqs
    rcases List.mem_cons.mp hqs with rfl | hq
    · intro hnil; rw [hnil] at hp; cases hp
    · exact ih hc qs hq

theorem phraseSat_all_ne_nil {slop : Nat} {pss : List (List Nat)} (h : phraseSat slop pss = true) :
    pss ≠ [] ∧ ∀ ps ∈ pss, ps ≠ [] := by
  cases pss with
  | nil => cases h
  | cons ps more =>
    simp only [phraseSat, List.any_eq_true] at h
    obtain ⟨p, hp, hc⟩ := h
    refine ⟨by simp, ?_⟩
    intro qs hqs
    rcases List.mem_cons.mp hqs with rfl | hq
    · intro hnil; rw [hnil] at hp; cases hp
    · exact chainFrom_all_ne_nil hc qs hq

/-! ### specified scores of matches are positive -/

theorem mul_pos' {a b : Rat} (ha : 0 < a) (hb : 0 < b) : 0 < a * b := Rat.mul_pos ha hb

mutual
theorem scoreOf_pos (ls : LeafScore) (d : Doc) (hleaf : ∀ f t, d.hasTerm f t = true → 0 < ls d f t) :
    ∀ (q : Query), PosQ q → sat q d = true → 0 < scoreOf ls q d
  | .term f t b, hp, hs => by
    simp only [PosQ] at hp
    simp only [sat] at hs
    simp only [scoreOf]
    exact mul_pos' (hleaf f t hs) hp
  | .multi f p b cs, hp, hs => by
    simp only [PosQ] at hp
    simp only [sat, List.any_eq_true] at hs
    simp only [scoreOf]
    by_cases hc : (cs || isAllPred p) = true
    · simpa [hc] using hp
    · simp only [hc]
      apply mul_pos' _ hp
      obtain ⟨t, ht, hpt⟩ := hs
      apply sum_pos_of_pos
      · intro x hx
        obtain ⟨t', ht', rfl⟩ := List.mem_map.mp hx
        have := (List.mem_filter.mp ht').1
        exact hleaf f t' (hasTerm_iff_mem.mpr (mem_dedup.mp this))
      · intro hnil
        have : t ∈ (dedup (d.terms f)).filter p.test := List.mem_filter.mpr ⟨mem_dedup.mpr ht, hpt⟩
        rw [List.map_eq_nil_iff] at hnil
        rw [hnil] at this
        cases this
  | .phrase f ws slop b, hp, hs => by
    simp only [PosQ] at hp
    simp only [sat] at hs
    simp only [scoreOf]
    apply mul_pos' _ hp
    obtain ⟨hne, hall⟩ := phraseSat_all_ne_nil hs
    apply sum_pos_of_pos
    · intro x hx
      obtain ⟨w, hw, rfl⟩ := List.mem_map.mp hx
      apply hleaf f w
      apply hasTerm_iff_mem.mpr
      apply positions_ne_nil_iff.mp
      exact hall _ (List.mem_map.mpr ⟨w, hw, rfl⟩)
    · intro hnil
      apply hne
      rw [List.map_eq_nil_iff] at hnil ⊢
      exact hnil
  | .numRange f lo hi le he b, hp, _ => by simpa [PosQ, scoreOf] using hp
  | .every f b, hp, _ => by simpa [PosQ, scoreOf] using hp
  | .null, _, hs => by simp [sat] at hs
  | .and qs b, hp, hs => by
    simp only [PosQ] at hp
    simp only [sat, Bool.and_eq_true, Bool.not_eq_true', List.isEmpty_eq_false_iff] at hs
    simp only [scoreOf]
    exact mul_pos' ((lists_pos ls d hleaf qs hp.2).1 hs.2 |>.2 hs.1) hp.1
  | .or qs b, hp, hs => by
    simp only [PosQ] at hp
    simp only [sat] at hs
    simp only [scoreOf]
    exact mul_pos' ((lists_pos ls d hleaf qs hp.2).2.1.2 hs) hp.1
  | .dismax qs b, hp, hs => by
    simp only [PosQ] at hp
    simp only [sat] at hs
    simp only [scoreOf]
    apply mul_pos' _ hp.1
    have h1 := maxSat_isSome ls qs d
    rw [hs] at h1
    cases hm : maxSat ls qs d with
    | none => rw [hm] at h1; cases h1
    | some m =>
      simp only [Option.getD_some]
      exact (lists_pos ls d hleaf qs hp.2).2.2 m hm
  | .not q, _, _ => by simp only [scoreOf]; decide
  | .andNot a b, hp, hs => by
    simp only [PosQ] at hp
    simp only [sat, Bool.and_eq_true] at hs
    simp only [scoreOf]
    exact scoreOf_pos ls d hleaf a hp.1 hs.1
  | .andMaybe a b, hp, hs => by
    simp only [PosQ] at hp
    simp only [sat] at hs
    simp only [scoreOf]
    have ha := scoreOf_pos ls d hleaf a hp.1 hs
    by_cases hb : sat b d = true
    · have := scoreOf_pos ls d hleaf b hp.2 hb
      simp only [hb, if_true]
      grind
    · simp only [hb]
      simpa [Rat.add_zero] using ha
  | .require a b, hp, hs => by
    simp only [PosQ] at hp
    simp only [sat, Bool.and_eq_true] at hs
    simp only [scoreOf]
    exact scoreOf_pos ls d hleaf a hp.1 hs.1
  | .constScore q sc, hp, _ => by simpa [PosQ, scoreOf] using hp.1
theorem lists_pos (ls : LeafScore) (d : Doc) (hleaf : ∀ f t, d.hasTerm f t = true → 0 < ls d f t) :
    ∀ (qs : List Query), PosQs qs →
      (satAll qs d = true → 0 ≤ sumAll ls qs d ∧ (qs ≠ [] → 0 < sumAll ls qs d)) ∧
      (0 ≤ sumSat ls qs d ∧ (satAny qs d = true → 0 < sumSat ls qs d)) ∧
      (∀ m, maxSat ls qs d = some m → 0 < m)
  | [], _ => by
    refine ⟨fun _ => ⟨by simp [sumAll], fun h => absurd rfl h⟩, ⟨by simp [sumSat], fun h => by simp [satAny] at h⟩, ?_⟩
    intro m hm
    simp [maxSat] at hm
  | q :: qs, hp => by
    simp only [PosQs] at hp
    have ih := lists_pos ls d hleaf qs hp.2
    refine ⟨?_, ⟨?_, ?_⟩, ?_⟩
    · intro hs
      simp only [satAll, Bool.and_eq_true] at hs
      have hq := scoreOf_pos ls d hleaf q hp.1 hs.1
      have hr := (ih.1 hs.2).1
      simp only [sumAll]
      constructor
      · grind
      · intro _; grind
    · simp only [sumSat]
      have hr := ih.2.1.1
      by_cases hq : sat q d = true
      · have := scoreOf_pos ls d hleaf q hp.1 hq
        simp only [hq, if_true]; grind
      · simp only [hq]; simpa [Rat.zero_add] using hr
    · intro hs
      simp only [sumSat]
      have hr := ih.2.1.1
      by_cases hq : sat q d = true
      · have := scoreOf_pos ls d hleaf q hp.1 hq
        simp only [hq, if_true]; grind
      · simp only [satAny, hq, Bool.false_or] at hs
        have := ih.2.1.2 hs
        simp only [hq]; simpa [Rat.zero_add] using this
    · intro m hm
      simp only [maxSat] at hm
      cases hr : maxSat ls qs d with
      | none =>
        rw [hr] at hm
        by_cases hq : sat q d = true
        · simp only [hq, if_true, Option.some.injEq] at hm
          rw [← hm]; exact scoreOf_pos ls d hleaf q hp.1 hq
        · simp [hq] at hm
      | some m' =>
        rw [hr] at hm
        have hm' := ih.2.2 m' hr
        by_cases hq : sat q d = true
        · have := scoreOf_pos ls d hleaf q hp.1 hq
          simp only [hq, if_true, Option.some.injEq] at hm
          rw [← hm]; split <;> assumption
        · simp only [hq] at hm
          simp at hm
          rw [← hm]; exact hm'
end

end WM.Compile
