import WM.Lemmas.Suggest
import WM.Lemmas.ListCorrector
import Mathlib.Data.List.Nodup
/-! `MultiCorrector`: the merged `(score, suggestion)` items carry every suggested word once, and
`Corrector.suggest` keeps items apart (no word is suggested twice). -/
namespace WM.Lev

/-! ### the `seen` dict -/

theorem seenUpdate_keys (op : Rat → Rat → Rat) (score : Rat) (sug : List Nat) (seen : List (List Nat × Rat)) :
    (seenUpdate op score sug seen).map (·.1) =
      if sug ∈ seen.map (·.1) then seen.map (·.1) else seen.map (·.1) ++ [sug] := by
  induction seen with
  | nil => simp [seenUpdate]
  | cons x rest ih =>
    obtain ⟨s, sc⟩ := x
    simp only [seenUpdate]
    by_cases h : s = sug
    · subst h; simp
    · rw [if_neg h]
      simp only [List.map_cons, ih, List.mem_cons]
      have h' : ¬ sug = s := fun hc => h hc.symm
      by_cases hm : sug ∈ rest.map (·.1)
      · simp [hm]
      · simp [hm, h']

theorem seenUpdate_nodup (op : Rat → Rat → Rat) (score : Rat) (sug : List Nat) (seen : List (List Nat × Rat))
    (h : (seen.map (·.1)).Nodup) : ((seenUpdate op score sug seen).map (·.1)).Nodup := by
  rw [seenUpdate_keys]
  by_cases hm : sug ∈ seen.map (·.1)
  · rw [if_pos hm]; exact h
  · rw [if_neg hm]
    rw [List.nodup_append]
    refine ⟨h, by simp, ?_⟩
    intro a ha b hb
    simp only [List.mem_singleton] at hb
    subst hb
    intro hab; subst hab; exact hm ha

theorem seenFold_spec (op : Rat → Rat → Rat) (items : List (Rat × List Nat)) :
    ∀ (seen : List (List Nat × Rat)), (seen.map (·.1)).Nodup →
      ((items.foldl (fun seen it => seenUpdate op it.1 it.2 seen) seen).map (·.1)).Nodup ∧
      ∀ t, t ∈ (items.foldl (fun seen it => seenUpdate op it.1 it.2 seen) seen).map (·.1) ↔
        t ∈ seen.map (·.1) ∨ ∃ a, a ∈ items ∧ a.2 = t := by
  induction items with
  | nil => intro seen h; simp [h]
  | cons it items ih =>
    intro seen h
    rw [List.foldl_cons]
    obtain ⟨h1, h2⟩ := ih (seenUpdate op it.1 it.2 seen) (seenUpdate_nodup op it.1 it.2 seen h)
    refine ⟨h1, ?_⟩
    intro t
    rw [h2, seenUpdate_keys]
    by_cases hm : it.2 ∈ seen.map (·.1)
    · rw [if_pos hm]
      constructor
      · rintro (h | ⟨a, ha, rfl⟩)
        · exact Or.inl h
        · exact Or.inr ⟨a, List.mem_cons_of_mem _ ha, rfl⟩
      · rintro (h | ⟨a, ha, rfl⟩)
        · exact Or.inl h
        · rcases List.mem_cons.mp ha with rfl | ha'
          · exact Or.inl hm
          · exact Or.inr ⟨a, ha', rfl⟩
    · rw [if_neg hm]
      simp only [List.mem_append, List.mem_singleton]
      constructor
      · rintro ((h | rfl) | ⟨a, ha, rfl⟩)
        · exact Or.inl h
        · exact Or.inr ⟨it, by simp, rfl⟩
        · exact Or.inr ⟨a, List.mem_cons_of_mem _ ha, rfl⟩
      · rintro (h | ⟨a, ha, rfl⟩)
        · exact Or.inl (Or.inl h)
        · rcases List.mem_cons.mp ha with rfl | ha'
          · exact Or.inl (Or.inr rfl)
          · exact Or.inr ⟨a, ha', rfl⟩

/-- **`MultiCorrector._suggestions`**: every word occurs in exactly one item, and the words are
    exactly those some sub-corrector yielded. -/
theorem multiSuggestions_spec (op : Rat → Rat → Rat) (itemss : List (List (Rat × List Nat))) :
    ((multiSuggestions op itemss).map (·.2)).Nodup ∧
      ∀ t, t ∈ (multiSuggestions op itemss).map (·.2) ↔ ∃ items, items ∈ itemss ∧ ∃ a, a ∈ items ∧ a.2 = t := by
  obtain ⟨h1, h2⟩ := seenFold_spec op itemss.flatten [] (by simp)
  have hmap : (multiSuggestions op itemss).map (·.2) =
      (itemss.flatten.foldl (fun seen it => seenUpdate op it.1 it.2 seen) []).map (·.1) := by
    unfold multiSuggestions
    rw [List.map_map]
    rfl
  rw [hmap]
  refine ⟨h1, ?_⟩
  intro t
  rw [h2]
  simp only [List.map_nil, List.not_mem_nil, false_or, List.mem_flatten]
  constructor
  · rintro ⟨a, ⟨items, hi, ha⟩, rfl⟩; exact ⟨items, hi, a, ha, rfl⟩
  · rintro ⟨items, hi, a, ha, rfl⟩; exact ⟨a, ⟨items, hi, ha⟩, rfl⟩

/-! ### `Corrector.suggest` keeps items apart -/

theorem nodup_heapInsert (x : Rat × List Nat) (h : List (Rat × List Nat)) :
    (heapInsert x h).Nodup ↔ x ∉ h ∧ h.Nodup := by
  induction h with
  | nil => simp [heapInsert]
  | cons b t ih =>
    simp only [heapInsert]
    split
    · simp [List.nodup_cons]
    · rw [List.nodup_cons, ih, mem_heapInsert, List.nodup_cons, List.mem_cons]
      constructor
      · rintro ⟨h1, h2, h3⟩
        refine ⟨?_, ?_, h3⟩
        · rintro (rfl | h4)
          · exact h1 (Or.inl rfl)
          · exact h2 h4
        · exact fun hc => h1 (Or.inr hc)
      · rintro ⟨h1, h2, h3⟩
        refine ⟨?_, fun hc => h1 (Or.inr hc), h3⟩
        rintro (rfl | h4)
        · exact h1 (Or.inl rfl)
        · exact h2 h4

theorem nodup_insertBy (le : Rat × List Nat → Rat × List Nat → Bool) (x : Rat × List Nat)
    (l : List (Rat × List Nat)) : (insertBy le x l).Nodup ↔ x ∉ l ∧ l.Nodup := by
  induction l with
  | nil => simp [insertBy]
  | cons b t ih =>
    simp only [insertBy]
    split
    · simp [List.nodup_cons]
    · rw [List.nodup_cons, ih, mem_insertBy, List.nodup_cons, List.mem_cons]
      constructor
      · rintro ⟨h1, h2, h3⟩
        refine ⟨?_, ?_, h3⟩
        · rintro (rfl | h4)
          · exact h1 (Or.inl rfl)
          · exact h2 h4
        · exact fun hc => h1 (Or.inr hc)
      · rintro ⟨h1, h2, h3⟩
        refine ⟨?_, fun hc => h1 (Or.inr hc), h3⟩
        rintro (rfl | h4)
        · exact h1 (Or.inl rfl)
        · exact h2 h4

theorem nodup_sortBy (le : Rat × List Nat → Rat × List Nat → Bool) (l : List (Rat × List Nat))
    (h : l.Nodup) : (sortBy le l).Nodup := by
  induction l with
  | nil => simp [sortBy]
  | cons y ys ih =>
    have hy := List.nodup_cons.mp h
    show (insertBy le y (sortBy le ys)).Nodup
    rw [nodup_insertBy]
    exact ⟨fun hc => hy.1 ((mem_sortBy le y ys).mp hc), ih hy.2⟩

theorem suggestLoop_nodup (limit : Nat) :
    ∀ (items heap r : List (Rat × List Nat)), suggestLoop limit items heap = .ok r →
      (heap ++ items).Nodup → r.Nodup := by
  intro items
  induction items with
  | nil => intro heap r h hn; simp only [suggestLoop] at h; cases h; simpa using hn
  | cons item items ih =>
    intro heap r h hn
    have hn' := List.nodup_append.mp hn
    obtain ⟨hheap, hitems, hdisj⟩ := hn'
    have hitem := List.nodup_cons.mp hitems
    have hnotin : item ∉ heap := fun hc => hdisj item hc item (by simp) rfl
    simp only [suggestLoop] at h
    split at h
    · apply ih _ r h
      rw [List.nodup_append]
      refine ⟨(nodup_heapInsert item heap).mpr ⟨hnotin, hheap⟩, hitem.2, ?_⟩
      intro a ha b hb hab
      subst hab
      rcases (mem_heapInsert item a heap).mp ha with rfl | ha'
      · exact hitem.1 hb
      · exact hdisj a ha' a (List.mem_cons_of_mem _ hb) rfl
    · cases heap with
      | nil => simp at h
      | cons hd tl =>
        simp only at h
        have htl := (List.nodup_cons.mp hheap).2
        split at h
        · apply ih _ r h
          rw [List.nodup_append]
          refine ⟨(nodup_heapInsert item tl).mpr ⟨fun hc => hnotin (List.mem_cons_of_mem _ hc), htl⟩,
            hitem.2, ?_⟩
          intro a ha b hb hab
          subst hab
          rcases (mem_heapInsert item a tl).mp ha with rfl | ha'
          · exact hitem.1 hb
          · exact hdisj a (List.mem_cons_of_mem _ ha') a (List.mem_cons_of_mem _ hb) rfl
        · apply ih _ r h
          rw [List.nodup_append]
          refine ⟨hheap, hitem.2, ?_⟩
          intro a ha b hb hab
          subst hab
          exact hdisj a ha a (List.mem_cons_of_mem _ hb) rfl

/-- If every word occurs in one item only, `Corrector.suggest` returns no word twice. -/
theorem suggestItems_nodup (items : List (Rat × List Nat)) (limit : Nat) (r : List (List Nat))
    (h : suggestItems items limit = .ok r) (hk : (items.map (·.2)).Nodup) : r.Nodup := by
  unfold suggestItems at h
  cases hl : suggestLoop limit items [] with
  | error e => rw [hl] at h; cases h
  | ok heap =>
    rw [hl] at h
    simp only [Except.map, Except.ok.injEq] at h
    subst h
    have hitems : items.Nodup := List.Nodup.of_map _ hk
    have hheap : heap.Nodup := suggestLoop_nodup limit items [] heap hl (by simpa using hitems)
    have hsorted := nodup_sortBy keyLe heap hheap
    refine List.Nodup.map_on ?_ hsorted
    intro a ha b hb hab
    have ha' : a ∈ items := by
      rcases suggestLoop_mem limit items [] heap hl a ((mem_sortBy keyLe a heap).mp ha) with h | h
      · cases h
      · exact h
    have hb' : b ∈ items := by
      rcases suggestLoop_mem limit items [] heap hl b ((mem_sortBy keyLe b heap).mp hb) with h | h
      · cases h
      · exact h
    exact List.inj_on_of_nodup_map hk ha' hb' hab

end WM.Lev
