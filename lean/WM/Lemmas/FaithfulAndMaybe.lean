import WM.Lemmas.FaithfulInter
/-! `AndMaybeMatcher` is a faithful cursor over `leftJoin`. -/
namespace WM.Matcher

theorem dropBelow_map_key (g : Nat × Rat → Rat) (t : Nat) (L : Den) :
    dropBelow t (L.map fun p => (p.1, g p)) = (dropBelow t L).map fun p => (p.1, g p) := by
  induction L with
  | nil => rfl
  | cons p L ih =>
    obtain ⟨x, s⟩ := p
    rw [List.map_cons, dropBelow_cons, dropBelow_cons]
    by_cases h : x < t
    · simp only [h, ↓reduceIte]; exact ih
    · simp only [h, ↓reduceIte, List.map_cons]

theorem leftJoin_nil_left (B : Den) : leftJoin [] B = [] := rfl

theorem leftJoin_eq_nil {A B : Den} : leftJoin A B = [] ↔ A = [] := by
  simp [leftJoin]

theorem dropBelow_leftJoin (A B : Den) (t : Nat) :
    leftJoin (dropBelow t A) B = dropBelow t (leftJoin A B) :=
  (dropBelow_map_key _ t A).symm

theorem leftJoin_dropBelow_right {A B : Den} {x : Nat} (hA : Asc A) (hB : Asc B)
    (hA' : ∀ p ∈ A, x ≤ p.1) : leftJoin A (dropBelow x B) = leftJoin A B := by
  apply den_ext (asc_leftJoin _ hA) (asc_leftJoin _ hA)
  intro d
  rw [lookup_leftJoin, lookup_leftJoin, lookup_dropBelow hB]
  by_cases h : d < x
  · rw [if_pos h, lookup_none_of_ge hA' h]; rfl
  · rw [if_neg h]

namespace AndMaybe
variable {α β : Type} {A : Ops α} {B : Ops β} {dA fA : α → Den} {dB fB : β → Den}
  {WA : α → Prop} {WB : β → Prop}

/-- both active ⇒ the optional matcher is not behind the required one -/
def NotBehind (dA : α → Den) (dB : β → Den) (m : Bin α β) : Prop :=
  ∀ x r La y s Lb, dA m.a = (x, r) :: La → dB m.b = (y, s) :: Lb → x ≤ y

theorem notBehind_of_nil_left {m : Bin α β} (h : dA m.a = []) : NotBehind dA dB m := by
  intro x r La y s Lb h1 _; rw [h] at h1; cases h1

theorem notBehind_of_nil_right {m : Bin α β} (h : dB m.b = []) : NotBehind dA dB m := by
  intro x r La y s Lb _ h2; rw [h] at h2; cases h2

/-- `b.skip_to(a.id())` when both are active: re-establishes the invariant without changing the meaning -/
theorem catchUp (FA : Faithful A dA fA WA) (FB : Faithful B dB fB WB) (a : α) (b : β) (wa : WA a) (wb : WB b)
    {x : Nat} {r : Rat} {La : Den} (ha : dA a = (x, r) :: La) (hb : dB b ≠ []) :
    ∃ b', B.skipTo b x = .ok b' ∧ WB b' ∧ NotBehind dA dB ⟨a, b'⟩ ∧
      leftJoin (dA a) (dB b') = leftJoin (dA a) (dB b) ∧ B.rem b' ≤ B.rem b ∧
      (dB b' ≠ dB b → B.rem b' < B.rem b) ∧ fB b' = fB b := by
  have ascA := FA.asc _ wa
  have ascB := FB.asc _ wb
  obtain ⟨b', hb1, hb2, hb3, hb4, hb5, hb6⟩ := FB.skipTo b x wb hb
  refine ⟨b', hb1, hb2, ?_, ?_, hb4, hb5, hb6⟩
  · intro x' r' La' y s Lb h1 h2
    simp only at h1 h2
    rw [ha] at h1
    obtain ⟨h1', -⟩ := List.cons.inj h1
    have hx : x = x' := congrArg Prod.fst h1'
    subst hx
    rw [hb3] at h2
    rcases dropBelow_eq_nil_or ascB x with h0 | ⟨x2, s2, L2, h0, hle⟩
    · rw [h0] at h2; cases h2
    · rw [h0] at h2; cases h2; exact hle
  · rw [hb3]; exact leftJoin_dropBelow_right ascA ascB (Faithful.head_le ascA ha)

/-- `if a.is_active() and b.is_active(): b.skip_to(a.id())` -/
theorem catchUpIf (FA : Faithful A dA fA WA) (FB : Faithful B dB fB WB) (a : α) (b : β) (wa : WA a) (wb : WB b) :
    ∃ m' : Bin α β,
      (if (A.isActive a && B.isActive b) = true then
          (do let x ← A.id a; let b' ← B.skipTo b x; pure (⟨a, b'⟩ : Bin α β))
        else pure ⟨a, b⟩) = Except.ok m' ∧
      m'.a = a ∧ WB m'.b ∧ NotBehind dA dB m' ∧ leftJoin (dA a) (dB m'.b) = leftJoin (dA a) (dB b) ∧
      B.rem m'.b ≤ B.rem b ∧ (dB m'.b ≠ dB b → B.rem m'.b < B.rem b) ∧ fB m'.b = fB b := by
  by_cases ha0 : dA a = []
  · have := (FA.inactive wa).2 ha0
    exact ⟨⟨a, b⟩, by simp [this]; rfl, rfl, wb, notBehind_of_nil_left ha0, rfl, Nat.le_refl _,
      fun h => absurd rfl h, rfl⟩
  · obtain ⟨x, r, La, ha⟩ := exists_cons_of_ne_nil ha0
    have hAa : A.isActive a = true := (FA.active _ wa).2 ha0
    by_cases hb0 : dB b = []
    · have := (FB.inactive wb).2 hb0
      exact ⟨⟨a, b⟩, by simp [this]; rfl, rfl, wb, notBehind_of_nil_right hb0, rfl, Nat.le_refl _,
        fun h => absurd rfl h, rfl⟩
    · have hBa : B.isActive b = true := (FB.active _ wb).2 hb0
      obtain ⟨b', h1, h2, h3, h4, h5, h6, h7⟩ := catchUp FA FB a b wa wb ha hb0
      exact ⟨⟨a, b'⟩, by simp [hAa, hBa, FA.id _ _ _ _ wa ha, h1, bind, Except.bind]; rfl, rfl, h2, h3, h4, h5,
        h6, h7⟩

theorem firstB_spec (FA : Faithful A dA fA WA) (FB : Faithful B dB fB WB) (m : Bin α β) (wa : WA m.a)
    (wb : WB m.b) :
    ∃ m', firstB A B m = .ok m' ∧ m'.a = m.a ∧ WB m'.b ∧ NotBehind dA dB m' ∧
      leftJoin (dA m.a) (dB m'.b) = leftJoin (dA m.a) (dB m.b) ∧ fB m'.b = fB m.b := by
  unfold firstB
  by_cases ha0 : dA m.a = []
  · have := (FA.inactive wa).2 ha0
    exact ⟨m, by simp [this]; rfl, rfl, wb, notBehind_of_nil_left ha0, rfl, rfl⟩
  · obtain ⟨x, r, La, ha⟩ := exists_cons_of_ne_nil ha0
    have hAa : A.isActive m.a = true := (FA.active _ wa).2 ha0
    by_cases hb0 : dB m.b = []
    · have := (FB.inactive wb).2 hb0
      exact ⟨m, by simp [this]; rfl, rfl, wb, notBehind_of_nil_right hb0, rfl, rfl⟩
    · obtain ⟨y, s, Lb, hb⟩ := exists_cons_of_ne_nil hb0
      have hBa : B.isActive m.b = true := (FB.active _ wb).2 hb0
      simp only [hAa, hBa, Bool.and_self, ↓reduceIte, FA.id _ _ _ _ wa ha, FB.id _ _ _ _ wb hb, bind, Except.bind]
      by_cases hxy : x = y
      · subst hxy
        refine ⟨m, by simp; rfl, rfl, wb, ?_, rfl, rfl⟩
        intro x' r' La' y' s' Lb' h1 h2
        rw [ha] at h1; rw [hb] at h2; cases h1; cases h2; exact Nat.le_refl _
      · obtain ⟨b', h1, h2, h3, h4, -, -, h7⟩ := catchUp FA FB m.a m.b wa wb ha hb0
        exact ⟨{ m with b := b' }, by simp [hxy, h1]; rfl, rfl, h2, h3, h4, h7⟩

/-- head of a well-formed and-maybe -/
theorem den_cons (FB : Faithful B dB fB WB) (m : Bin α β) (wb : WB m.b) (hal : NotBehind dA dB m)
    {x : Nat} {r : Rat} {La : Den} (ha : dA m.a = (x, r) :: La) :
    leftJoin (dA m.a) (dB m.b) =
      (x, match dB m.b with
          | (y, s) :: _ => if x = y then r + s else r
          | [] => r) :: leftJoin La (dB m.b) := by
  rw [ha]
  simp only [leftJoin, List.map_cons]
  congr 2
  cases hb : dB m.b with
  | nil => rfl
  | cons q Lb =>
    obtain ⟨y, s⟩ := q
    have hxy := hal x r La y s Lb ha hb
    by_cases he : x = y
    · subst he; simp [lookup_cons]
    · have : lookup ((y, s) :: Lb) x = none := lookup_lt_head (hb ▸ FB.asc _ wb) (by omega)
      simp [this, he]

theorem faithful (FA : Faithful A dA fA WA) (FB : Faithful B dB fB WB) :
    Faithful (AndMaybe.ops A B) (fun m => leftJoin (dA m.a) (dB m.b)) (fun m => leftJoin (fA m.a) (fB m.b))
      (fun m => WA m.a ∧ WB m.b ∧ NotBehind dA dB m) where
  asc m h := asc_leftJoin _ (FA.asc _ h.1)
  active m h := by
    show A.isActive m.a = true ↔ _
    rw [FA.active _ h.1, Ne, Ne, leftJoin_eq_nil]
  id m x r L h hd := by
    show A.id m.a = _
    have hda : dA m.a ≠ [] := by intro ha; rw [ha, leftJoin_nil_left] at hd; cases hd
    obtain ⟨x', r', La, ha⟩ := exists_cons_of_ne_nil hda
    rw [den_cons FB m h.2.1 h.2.2 ha] at hd
    obtain ⟨h4, -⟩ := List.cons.inj hd; cases h4
    exact FA.id _ _ _ _ h.1 ha
  score m x r L h hd := by
    show AndMaybe.score A B m = _
    unfold AndMaybe.score
    have hda : dA m.a ≠ [] := by intro ha; rw [ha, leftJoin_nil_left] at hd; cases hd
    obtain ⟨x', r', La, ha⟩ := exists_cons_of_ne_nil hda
    rw [den_cons FB m h.2.1 h.2.2 ha] at hd
    obtain ⟨h4, -⟩ := List.cons.inj hd
    by_cases hb0 : dB m.b = []
    · have := (FB.inactive h.2.1).2 hb0
      rw [hb0] at h4; cases h4
      simp [this, FA.score _ _ _ _ h.1 ha]
    · obtain ⟨y, s, Lb, hb⟩ := exists_cons_of_ne_nil hb0
      have hBa : B.isActive m.b = true := (FB.active _ h.2.1).2 hb0
      rw [hb] at h4
      simp only [hBa, ↓reduceIte, FA.id _ _ _ _ h.1 ha, FB.id _ _ _ _ h.2.1 hb, bind, Except.bind,
        FA.score _ _ _ _ h.1 ha, FB.score _ _ _ _ h.2.1 hb]
      by_cases he : x' = y
      · subst he; simp only [↓reduceIte] at h4; cases h4; simp; rfl
      · simp only [he, ↓reduceIte] at h4; cases h4; simp [he]
  next m x r L h hd := by
    show ∃ s' : Bin α β, AndMaybe.next A B m = _ ∧ _ ∧ _ ∧ A.rem s'.a + B.rem s'.b < A.rem m.a + B.rem m.b ∧ _
    unfold AndMaybe.next
    have hda : dA m.a ≠ [] := by intro ha; rw [ha, leftJoin_nil_left] at hd; cases hd
    obtain ⟨x', r', La, ha⟩ := exists_cons_of_ne_nil hda
    rw [den_cons FB m h.2.1 h.2.2 ha] at hd
    obtain ⟨-, hL⟩ := List.cons.inj hd; subst hL
    have hAa : A.isActive m.a = true := (FA.active _ h.1).2 hda
    obtain ⟨a', ha1, ha2, ha3, ha4, ha5⟩ := FA.next _ _ _ _ h.1 ha
    simp only [hAa, Bool.not_true, Bool.false_eq_true, ↓reduceIte, ha1, bind, Except.bind]
    obtain ⟨m', hm1, hm2, hm3, hm4, hm5, hm6, -, hm8⟩ := catchUpIf FA FB a' m.b ha2 h.2.1
    refine ⟨m', hm1, ⟨hm2 ▸ ha2, hm3, hm4⟩, ?_, ?_, ?_⟩
    · rw [hm2, hm5, ha3]
    · rw [hm2]; omega
    · rw [hm2, hm8, ha5]
  skipTo m t h hne := by
    show ∃ s' : Bin α β, AndMaybe.skipTo A B m t = _ ∧ _ ∧ _ ∧ A.rem s'.a + B.rem s'.b ≤ A.rem m.a + B.rem m.b ∧
      (_ → A.rem s'.a + B.rem s'.b < A.rem m.a + B.rem m.b) ∧ _
    unfold AndMaybe.skipTo
    have hda : dA m.a ≠ [] := by intro ha; apply hne; simp only [ha, leftJoin_nil_left]
    have hAa : A.isActive m.a = true := (FA.active _ h.1).2 hda
    obtain ⟨a', ha1, ha2, ha3, ha4, ha5, ha6⟩ := FA.skipTo m.a t h.1 hda
    simp only [hAa, Bool.not_true, Bool.false_eq_true, ↓reduceIte, ha1, bind, Except.bind]
    obtain ⟨m', hm1, hm2, hm3, hm4, hm5, hm6, hm7, hm8⟩ := catchUpIf FA FB a' m.b ha2 h.2.1
    refine ⟨m', hm1, ⟨hm2 ▸ ha2, hm3, hm4⟩, ?_, ?_, ?_, ?_⟩
    · rw [hm2, hm5, ha3]; exact dropBelow_leftJoin _ _ t
    · rw [hm2]; omega
    · intro hne2
      rw [hm2] at hne2 ⊢
      by_cases e : A.rem a' + B.rem m'.b < A.rem m.a + B.rem m.b
      · exact e
      · exfalso
        have d1 : dA a' = dA m.a := Classical.byContradiction fun hh => by have := ha5 hh; omega
        have d2 : dB m'.b = dB m.b := Classical.byContradiction fun hh => by have := hm7 hh; omega
        apply hne2
        simp only [d1, d2]
    · rw [hm2, hm8, ha6]
  reset m h := by
    show ∃ s' : Bin α β, AndMaybe.reset A B m = _ ∧ _
    unfold AndMaybe.reset
    obtain ⟨a', ha1, ha2, ha3, ha4⟩ := FA.reset _ h.1
    obtain ⟨b', hb1, hb2, hb3, hb4⟩ := FB.reset _ h.2.1
    obtain ⟨m', hm1, hm2, hm3, hm4, hm5, hm6⟩ := firstB_spec FA FB ⟨a', b'⟩ ha2 hb2
    refine ⟨m', by simp [ha1, hb1, hm1, bind, Except.bind], ⟨hm2 ▸ ha2, hm3, hm4⟩, ?_, ?_⟩
    · simp only at hm2 hm5 hm6 ⊢; rw [hm2, hm5, ha3, hb3]
    · simp only at hm2 hm6 ⊢; rw [hm2, hm6, ha4, hb4]

/-- the constructor establishes the invariant -/
theorem init_spec (FA : Faithful A dA fA WA) (FB : Faithful B dB fB WB) (a : α) (b : β) (wa : WA a)
    (wb : WB b) :
    ∃ m', AndMaybe.init A B a b = .ok m' ∧ (WA m'.a ∧ WB m'.b ∧ NotBehind dA dB m') ∧
      leftJoin (dA m'.a) (dB m'.b) = leftJoin (dA a) (dB b) ∧
      leftJoin (fA m'.a) (fB m'.b) = leftJoin (fA a) (fB b) := by
  obtain ⟨m', h1, h2, h3, h4, h5, h6⟩ := firstB_spec FA FB ⟨a, b⟩ wa wb
  simp only at h2 h5 h6
  exact ⟨m', h1, ⟨h2 ▸ wa, h3, h4⟩, by rw [h2, h5], by rw [h2, h6]⟩

end AndMaybe
end WM.Matcher
