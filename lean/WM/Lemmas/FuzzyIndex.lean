import WM.Model.Lev
/-! Enumerations shifted by an offset (document numbers of later segments). -/
namespace WM.Lev

theorem zipIdx_shift {α} (l : List α) (k : Nat) :
    l.zipIdx k = (l.zipIdx 0).map (fun x => (x.1, x.2 + k)) := by
  induction l generalizing k with
  | nil => rfl
  | cons a l ih =>
    rw [List.zipIdx_cons, List.zipIdx_cons, List.map_cons, ih (k + 1), ih (0 + 1), List.map_map]
    simp only [Nat.zero_add, List.cons.injEq, true_and]
    apply List.map_congr_left
    intro x _
    simp only [Function.comp]
    congr 1; omega

/-- The hits of one segment, shifted, are the hits in the shifted enumeration. -/
theorem filter_zipIdx_shift {α} (l : List α) (k : Nat) (q : α → Bool) :
    ((l.zipIdx 0).filter fun x => q x.1).map (fun x => x.2 + k) =
      ((l.zipIdx k).filter fun x => q x.1).map (·.2) := by
  rw [zipIdx_shift l k, List.filter_map, List.map_map]
  rfl

end WM.Lev
