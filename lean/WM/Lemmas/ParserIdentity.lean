import WM.Lemmas.ParserClean
import WM.Lemmas.ParserGroups
import WM.Lemmas.ParserFields
/-! Filters of the default pipeline that find nothing to do are the identity. -/
namespace WM.Parser

/-! ### filters that have nothing to do are the identity -/

theorem map_id_of {α} (f : α → α) (l : List α) (h : ∀ x ∈ l, f x = x) : l.map f = l := by
  induction l with
  | nil => rfl
  | cons a t ih => simp [h a (by simp), ih (fun x hx => h x (by simp [hx]))]

theorem cleanBoostL_id (prev : Option Node) (ns : List Node) (h : ∀ n ∈ ns, n.isBst = false) :
    cleanBoostL prev ns = ns := by
  induction ns generalizing prev with
  | nil => rfl
  | cons n rest ih =>
    have hn : n.isBst = false := h n (by simp)
    have hr := fun p => ih p (fun m hm => h m (by simp [hm]))
    cases n <;> simp [Node.isBst] at hn <;> simp [cleanBoostL, hr]

theorem cleanBoost_id (k : GK) (ns : List Node) (b : Rat) (h : ∀ n ∈ ns, n.isBst = false) :
    cleanBoost (.group k ns b) = .group k ns b := by
  simp [cleanBoost, cleanBoostL_id none ns h]

theorem foldl_eq_append {α} (f : List α → α → List α) (ns : List α)
    (h : ∀ acc x, x ∈ ns → f acc x = acc ++ [x]) (acc : List α) : ns.foldl f acc = acc ++ ns := by
  induction ns generalizing acc with
  | nil => simp
  | cons x rest ih =>
    simp only [List.foldl_cons]
    rw [h acc x (by simp), ih (fun acc y hy => h acc y (by simp [hy]))]
    simp

theorem doBoost_id (n : Node) : n.allNodes (fun x => !x.isBst) = true → doBoost n = n := by
  induction n using Node.ind with
  | leaf n h => intro _; exact doBoost_leaf h
  | group k ns b ih =>
    intro hn
    have hc := (allNodesL_iff.1 (allNodes_group_children hn))
    rw [doBoost]
    congr 1
    rw [foldl_eq_append _ ns _ []]
    · rfl
    · intro acc x hx
      cases hg : x.isGroup
      · have hnb : x.isBst = false := by
          have := allNodes_self (hc x hx); simpa using this
        cases x <;> simp_all [Node.isGroup, Node.isBst, doBoostStep]
      · cases x <;> simp [Node.isGroup] at hg
        simp only
        rw [ih _ hx (hc _ hx)]

theorem rmWs_id (n : Node) : n.allNodes (fun x => !x.isWs) = true → rmWs n = n := by
  induction n using Node.ind with
  | leaf n h => intro _; exact rmWs_leaf h
  | group k ns b ih =>
    intro hn
    have hc := (allNodesL_iff.1 (allNodes_group_children hn))
    rw [rmWs_group']
    congr 1
    have hf : ns.filter (fun n => !n.isWs) = ns := by
      rw [List.filter_eq_self]
      intro x hx
      exact allNodes_self (hc x hx)
    rw [hf]
    exact map_id_of _ _ (fun x hx => ih x hx (hc x hx))

end WM.Parser
namespace WM.Parser

def Node.isWild : Node → Bool
  | .text .wild .. => true
  | _ => false

theorem wildStep_notWild (group : List Node) (i : Nat) (hi : i < group.length) (h : group[i].isWild = false) :
    wildStep group i = .ok (group, i + 1) := by
  unfold wildStep
  rw [pyGet_ok_nat hi]
  generalize group[i] = x at h
  cases x <;> simp_all [Node.isWild]
  rename_i k t f b
  cases k <;> simp_all

theorem wildLoop_id (group : List Node) (i : Nat) (h : ∀ x ∈ group, x.isWild = false) :
    wildLoop group i = .ok group := by
  induction hn : group.length - i using Nat.strongRecOn generalizing i with
  | _ n ih =>
    rw [wildLoop]
    by_cases hi : i < group.length
    · simp only [hi, dite_true]
      have hs := wildStep_notWild group i hi (h _ (List.getElem_mem hi))
      split
      · next e he => rw [hs] at he; cases he
      · next g' i' he =>
        rw [hs] at he
        injection he with he
        injection he with h1 h2
        subst h1; subst h2
        exact ih (group.length - (i + 1)) (by omega) (i + 1) rfl
    · simp [hi]

theorem toPrefix_notWild {n : Node} (h : n.isWild = false) : toPrefix n = n := by
  cases n <;> simp_all [toPrefix, Node.isWild]
  rename_i k t f b
  cases k <;> simp_all [toPrefix]

theorem doWildcards_id (n : Node) : n.allNodes (fun x => !x.isWild) = true → doWildcards n = .ok n := by
  induction n using Node.ind with
  | leaf n h => intro _; exact doWildcards_nongroup h
  | group k ns b ih =>
    intro hn
    have hc := (allNodesL_iff.1 (allNodes_group_children hn))
    have hnw : ∀ x ∈ ns, x.isWild = false := fun x hx => by have := allNodes_self (hc x hx); simpa using this
    rw [doWildcards]
    have hm : ns.mapM doWildcards = .ok (ns.map id) := mapM_eq_map' _ _ _ (fun y hy => ih y hy (hc y hy))
    simp only [hm, List.map_id, bind, Except.bind, wildLoop_id ns 0 hnw, pure, Except.pure]
    rw [map_id_of _ _ (fun x hx => toPrefix_notWild (hnw x hx))]

theorem fnRev_id (l : List Node) (h : ∀ x ∈ l, x.isFname = false) : fnRev l = l := by
  induction l with
  | nil => rfl
  | cons a rest ih =>
    rw [fnRev_cons]
    have ha := fnToWord_not_fname (h a (by simp))
    have hr := ih (fun x hx => h x (by simp [hx]))
    cases rest with
    | nil => simp [ha, fnRev]
    | cons p prevs =>
      have hp := h p (by simp)
      cases p <;> simp_all [Node.isFname]

theorem doFieldnames_id (c : Cfg) (n : Node) : n.allNodes (fun x => !x.isFname) = true → doFieldnames c n = .ok n := by
  induction n using Node.ind with
  | leaf n h => intro _; exact doFieldnames_nongroup c h
  | group k ns b ih =>
    intro hn
    have hc := (allNodesL_iff.1 (allNodes_group_children hn))
    have hnf : ∀ x ∈ ns, x.isFname = false := fun x hx => by have := allNodes_self (hc x hx); simpa using this
    rw [doFieldnames_group]
    have hm : ns.map (fieldsOut c) = ns := map_id_of _ _ (fun x hx => fieldsOut_of_eq (ih x hx (hc x hx)))
    rw [hm, stage1_id c ns (by intro x hx name o he; have := hnf x hx; subst he; simp [Node.isFname] at this)]
    unfold fieldsScan
    rw [fnRev_id _ (by intro x hx; exact hnf x (List.mem_reverse.1 hx))]
    simp

end WM.Parser
namespace WM.Parser

/-- every atom of the expression satisfies `p` -/
def Expr.allAtoms (p : Node → Bool) : Expr → Bool
  | .atom n => p n
  | .paren items => (items.map (fun e => e.allAtoms p)).all id
  | .not e => e.allAtoms p
  | .op _ es => (es.map (fun e => e.allAtoms p)).all id
termination_by e => e.size
decreasing_by
  all_goals simp_wf
  all_goals simp only [Expr.size]
  all_goals first
    | omega
    | (rename_i h; have := Expr.size_mem h; omega)

/-- no boost, no field prefix, no wildcard node -/
def quiet (x : Node) : Bool := !x.isBst && !x.isFname && !x.isWild

theorem allNodesL_joinWith {q : Node → Bool} (sep : List Node) (ls : List (List Node))
    (hs : allNodesL q sep = true) (hl : ∀ l ∈ ls, allNodesL q l = true) : allNodesL q (joinWith sep ls) = true := by
  induction ls with
  | nil => simp [joinWith, allNodesL]
  | cons a t ih =>
    cases t with
    | nil => rw [joinWith_single]; exact hl a (by simp)
    | cons b t =>
      rw [joinWith_cons2, allNodesL_append, allNodesL_append, hl a (by simp), hs,
        ih (fun l h => hl l (by simp at h ⊢; rcases h with h | h <;> simp [h]))]
      rfl

theorem nest_quiet (gk : GK) (e : Expr) : e.wf = true → e.allAtoms (fun x => !x.isWild) = true →
    allNodesL quiet (e.nest gk) = true := by
  induction e using Expr.ind with
  | atom n =>
    intro hw hp
    rw [wf_atom] at hw
    rw [Expr.allAtoms] at hp
    rw [nest_atom]
    have hg : n.isGroup = false := (isLeaf_props hw).2
    simp only [allNodesL, Bool.and_true, allNodes_leaf hg]
    cases n <;> simp_all [Node.isLeaf, quiet, Node.isBst, Node.isFname]
  | paren items ih =>
    intro hw hp
    rw [wf_paren] at hw
    rw [Expr.allAtoms, all_map_id] at hp
    rw [nest_paren]
    simp only [allNodesL, Bool.and_true, Node.allNodes, quiet, Node.isBst, Node.isFname, Node.isWild, Bool.not_false,
      Bool.true_and]
    exact allNodesL_joinWith _ _ (by simp [allNodesL, Node.allNodes, quiet, Node.isBst, Node.isFname, Node.isWild])
      (by intro l hl; simp only [List.mem_map] at hl; obtain ⟨c, hc, rfl⟩ := hl; exact ih c hc (hw.2 c hc) (hp c hc))
  | not e0 ih =>
    intro hw hp
    rw [wf_not] at hw
    rw [Expr.allAtoms] at hp
    rw [nest_not, allNodesL_append, ih hw.2 hp]
    simp [allNodesL, Node.allNodes, quiet, opNot, Node.isBst, Node.isFname, Node.isWild]
  | op g es ih =>
    intro hw hp
    rw [wf_op] at hw
    rw [Expr.allAtoms, all_map_id] at hp
    rw [nest_op]
    exact allNodesL_joinWith _ _ (by simp [allNodesL, Node.allNodes, quiet, opNode, Node.isBst, Node.isFname, Node.isWild])
      (by intro l hl; simp only [List.mem_map] at hl; obtain ⟨c, hc, rfl⟩ := hl; exact ih c hc (hw.2.2 c hc).2 (hp c hc))

end WM.Parser

