import WM.Model.NormalizeNested
import WM.Lemmas.NormalizeMain
import WM.Lemmas.NormalizeIdem5

/-! Lemmas about the nested-query nodes (property C15). -/
namespace WM.NormalizeNested
open WM.Normalize WM.Sat WM.Clean

theorem isNull_eq {q : Q} (h : q.isNull = true) : q = .null := by
  cases q <;> simp [Q.isNull] at h ⊢

/-- No document in the parent filter: nothing is returned. -/
theorem walk_no_parents (rs : List Row) (h : ∀ r ∈ rs, r.2.1 = false) (em : Bool) :
    walk none em rs = [] := by
  induction rs generalizing em with
  | nil => simp [walk]
  | cons r rest ih =>
    obtain ⟨id, isP, isC⟩ := r
    have hp : isP = false := h (id, isP, isC) (by simp)
    subst hp
    have ih' := fun em => ih (fun r hr => h r (List.mem_cons_of_mem _ hr)) em
    cases isC <;> simp [walk, ih']

/-- No document matched by the sub-query: nothing is returned. -/
theorem walk_no_children (rs : List Row) (h : ∀ r ∈ rs, r.2.2 = false) (last : Option Nat) (em : Bool) :
    walk last em rs = [] := by
  induction rs generalizing last em with
  | nil => simp [walk]
  | cons r rest ih =>
    obtain ⟨id, isP, isC⟩ := r
    have hc : isC = false := h (id, isP, isC) (by simp)
    subst hc
    have ih' := fun last em => ih (fun r hr => h r (List.mem_cons_of_mem _ hr)) last em
    simp [walk, ih']

/-- The rows only depend on what the two sub-queries match in the segment. -/
theorem rows_congr (env : Env) (p p' c c' : Q) (seg : List Doc)
    (hp : ∀ d ∈ seg, sat env p' d = sat env p d) (hc : ∀ d ∈ seg, sat env c' d = sat env c d) :
    rows env p' c' seg = rows env p c seg := by
  unfold rows
  apply List.map_congr_left
  intro d hd
  rw [hp d hd, hc d hd]

/-- Sub-queries that match the same documents of every segment give the same nested answer. -/
theorem parentAnswer_congr (env : Env) (segs : List (List Doc)) (n n' : NParent)
    (hp : ∀ seg ∈ segs, ∀ d ∈ seg, sat env n'.parents d = sat env n.parents d)
    (hc : ∀ seg ∈ segs, ∀ d ∈ seg, sat env n'.child d = sat env n.child d) :
    parentAnswer env segs n' = parentAnswer env segs n := by
  unfold parentAnswer
  induction segs with
  | nil => rfl
  | cons seg rest ih =>
    simp only [List.flatMap_cons]
    rw [rows_congr env n.parents n'.parents n.child n'.child seg (hp seg (by simp)) (hc seg (by simp)),
      ih (fun s hs => hp s (List.mem_cons_of_mem _ hs)) (fun s hs => hc s (List.mem_cons_of_mem _ hs))]

theorem parentAnswer_no_parents (env : Env) (segs : List (List Doc)) (n : NParent)
    (h : ∀ seg ∈ segs, ∀ d ∈ seg, sat env n.parents d = false) : parentAnswer env segs n = [] := by
  unfold parentAnswer
  rw [List.flatMap_eq_nil_iff]
  intro seg hs
  apply walk_no_parents
  intro r hr
  simp only [rows, List.mem_map] at hr
  obtain ⟨d, hd, rfl⟩ := hr
  exact h seg hs d hd

theorem parentAnswer_no_children (env : Env) (segs : List (List Doc)) (n : NParent)
    (h : ∀ seg ∈ segs, ∀ d ∈ seg, sat env n.child d = false) : parentAnswer env segs n = [] := by
  unfold parentAnswer
  rw [List.flatMap_eq_nil_iff]
  intro seg hs
  apply walk_no_children
  intro r hr
  simp only [rows, List.mem_map] at hr
  obtain ⟨d, hd, rfl⟩ := hr
  exact h seg hs d hd

end WM.NormalizeNested
