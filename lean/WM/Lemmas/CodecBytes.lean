import WM.Model.CodecBytes
import WM.Lemmas.ColumnsBytes
import WM.Lemmas.CodecInline
/-! Lemmas for the byte layout of `W3TermInfo` (C10): packing helpers and the positions of the
    fields in the 23-byte head. -/
namespace WM.Codec
open WM.Columns (be unbe slice be_length unbe_be)

theorem slice_mid (a m b : Bytes) (pos len : Nat) (ha : a.length = pos) (hm : m.length = len) :
    slice (a ++ m ++ b) pos len = m := by
  unfold slice
  rw [List.append_assoc, ← ha, List.drop_left, ← hm, List.take_left]

theorem unbe_single (x : Nat) : unbe [x] = x := by simp [unbe]

theorem packU32_spec (x : Int) (bs : Bytes) (h : packU32 x = some bs) :
    bs.length = 4 ∧ 0 ≤ x ∧ x < 4294967296 ∧ (unbe bs : Int) = x := by
  unfold packU32 at h
  split at h
  · rename_i hx
    injection h with h; subst h
    refine ⟨be_length 4 _, hx.1, hx.2, ?_⟩
    rw [unbe_be 4 _ (by omega)]
    omega
  · cases h

theorem packSigned_spec (w : Nat) (hw : 0 < w) (x : Int) (bs : Bytes) (h : packSigned w x = some bs) :
    bs.length = w ∧ unpackSigned w bs = x := by
  unfold packSigned at h
  split at h
  · rename_i hx
    injection h with h; subst h
    refine ⟨be_length w _, ?_⟩
    have h2 : (2 : Int) ^ (8 * w) = 2 * 2 ^ (8 * w - 1) := by
      have : 8 * w = (8 * w - 1) + 1 := by omega
      conv => lhs; rw [this, Int.pow_succ]
      omega
    have h2n : (2 : Nat) ^ (8 * w) = 2 * 2 ^ (8 * w - 1) := by
      have : 8 * w = (8 * w - 1) + 1 := by omega
      conv => lhs; rw [this, Nat.pow_succ]
      omega
    have h256 : 256 ^ w = 2 ^ (8 * w) := by
      rw [show (256 : Nat) = 2 ^ 8 by rfl, ← Nat.pow_mul]
    have hpos : (0 : Int) < 2 ^ (8 * w - 1) := Int.pow_pos (by decide)
    have hcast : ((2 ^ (8 * w - 1) : Nat) : Int) = (2 : Int) ^ (8 * w - 1) := by simp
    unfold unpackSigned
    by_cases hneg : x < 0
    · simp only [hneg, if_true]
      rw [unbe_be w _ (by rw [h256, h2n]; omega)]
      have : ¬ ((x + 2 ^ (8 * w)).toNat < 2 ^ (8 * w - 1)) := by omega
      simp only [this, if_false]
      omega
    · simp only [hneg, if_false]
      rw [unbe_be w _ (by rw [h256, h2n]; omega)]
      have : (x.toNat < 2 ^ (8 * w - 1)) := by omega
      simp only [this, if_true]
      omega
  · cases h

/-- Layout of the 23-byte head: every field sits where `from_bytes` and the fixed-position readers
    look for it. -/
theorem head_slices (p0 p1 p2 p3 p4 p5 p6 p7 tail : Bytes)
    (l0 : p0.length = 1) (l1 : p1.length = 4) (l2 : p2.length = 4) (l3 : p3.length = 1) (l4 : p4.length = 1)
    (l5 : p5.length = 4) (l6 : p6.length = 4) (l7 : p7.length = 4) :
    let bs := p0 ++ p1 ++ p2 ++ p3 ++ p4 ++ p5 ++ p6 ++ p7 ++ tail
    slice bs 0 1 = p0 ∧ slice bs 1 4 = p1 ∧ slice bs 5 4 = p2 ∧ slice bs 9 1 = p3 ∧ slice bs 10 1 = p4 ∧
    slice bs 11 4 = p5 ∧ slice bs 15 4 = p6 ∧ slice bs 19 4 = p7 ∧ bs.drop 23 = tail ∧ 23 ≤ bs.length := by
  intro bs
  refine ⟨?_, ?_, ?_, ?_, ?_, ?_, ?_, ?_, ?_, ?_⟩
  · have := slice_mid [] p0 (p1 ++ p2 ++ p3 ++ p4 ++ p5 ++ p6 ++ p7 ++ tail) 0 1 rfl l0
    simpa only [bs, List.append_assoc, List.nil_append] using this
  · have := slice_mid p0 p1 (p2 ++ p3 ++ p4 ++ p5 ++ p6 ++ p7 ++ tail) 1 4 l0 l1
    simpa only [bs, List.append_assoc] using this
  · have := slice_mid (p0 ++ p1) p2 (p3 ++ p4 ++ p5 ++ p6 ++ p7 ++ tail) 5 4 (by simp [l0, l1]) l2
    simpa only [bs, List.append_assoc] using this
  · have := slice_mid (p0 ++ p1 ++ p2) p3 (p4 ++ p5 ++ p6 ++ p7 ++ tail) 9 1 (by simp [l0, l1, l2]) l3
    simpa only [bs, List.append_assoc] using this
  · have := slice_mid (p0 ++ p1 ++ p2 ++ p3) p4 (p5 ++ p6 ++ p7 ++ tail) 10 1 (by simp [l0, l1, l2, l3]) l4
    simpa only [bs, List.append_assoc] using this
  · have := slice_mid (p0 ++ p1 ++ p2 ++ p3 ++ p4) p5 (p6 ++ p7 ++ tail) 11 4 (by simp [l0, l1, l2, l3, l4]) l5
    simpa only [bs, List.append_assoc] using this
  · have := slice_mid (p0 ++ p1 ++ p2 ++ p3 ++ p4 ++ p5) p6 (p7 ++ tail) 15 4 (by simp [l0, l1, l2, l3, l4, l5]) l6
    simpa only [bs, List.append_assoc] using this
  · have := slice_mid (p0 ++ p1 ++ p2 ++ p3 ++ p4 ++ p5 ++ p6) p7 tail 19 4 (by simp [l0, l1, l2, l3, l4, l5, l6]) l7
    simpa only [bs, List.append_assoc] using this
  · have hl : (p0 ++ p1 ++ p2 ++ p3 ++ p4 ++ p5 ++ p6 ++ p7).length = 23 := by simp [l0, l1, l2, l3, l4, l5, l6, l7]
    show ((p0 ++ p1 ++ p2 ++ p3 ++ p4 ++ p5 ++ p6 ++ p7) ++ tail).drop 23 = tail
    rw [← hl, List.drop_left]
  · simp [bs, l0, l1, l2, l3, l4, l5, l6, l7]; omega
end WM.Codec
