import WM.Lemmas.NormalizeIdem4
/-! Idempotence of `normalize`, part 5: `normalize` produces normal forms. -/
namespace WM.Normalize
open WM.Sat WM.Clean

theorem sameClass_withBoost (k : CK) : ∀ (q : Q) (b : Rat), sameClass k (q.withBoost b) = sameClass k q
  | .null, _ => rfl
  | .every _ _, _ => rfl
  | .term _ _ _, _ => rfl
  | .pre _ _ _ _, _ => rfl
  | .wild _ _ _ _, _ => rfl
  | .multi _ _ _ _ _, _ => rfl
  | .range _ _ _ _ _ _ _, _ => rfl
  | .phrase _ _ _ _, _ => rfl
  | .comp _ _ _, _ => rfl
  | .seq _ _ _ _ _, _ => rfl
  | .not _ _, _ => rfl
  | .bin k' _ _, _ => by cases k' <;> rfl
  | .const _ _, _ => rfl
  | .opq _ _, _ => rfl

theorem wild_branch {f : Field} {t : Text} {b : Rat} {c : Bool}
    (h : wildNormalize f t b c = .wild f t b c) (b' : Rat) : wildNormalize f t b' c = .wild f t b' c := by
  unfold wildNormalize at h ⊢
  split
  · rename_i h1; rw [if_pos h1] at h; cases h
  · rename_i h1
    rw [if_neg h1] at h
    split
    · rfl
    · rename_i h2
      rw [if_neg h2] at h
      split
      · rename_i h3; rw [if_pos h3] at h; cases h
      · rename_i h3
        rw [if_neg h3] at h
        split
        · rename_i h4; rw [if_pos h4] at h; cases h
        · rfl

theorem Normal_withBoost : ∀ (q : Q) (b : Rat), Normal q = true → Normal (q.withBoost b) = true
  | .null, _, _ => rfl
  | .every _ _, _, _ => rfl
  | .term _ _ _, _, _ => rfl
  | .pre _ _ _ _, _, _ => rfl
  | .wild f t b0 c, b, h => by
    simp only [Normal, beq_iff_eq] at h
    simp only [Q.withBoost, Normal, beq_iff_eq]
    exact wild_branch h b
  | .multi _ _ _ _ _, _, _ => rfl
  | .range _ _ _ _ _ _ _, _, h => by simpa [Q.withBoost, Normal, Rng.proper] using h
  | .phrase _ _ _ _, _, h => by simpa [Q.withBoost, Normal] using h
  | .comp _ _ _, _, h => by simpa [Q.withBoost, Normal] using h
  | .seq _ _ _ _ _, _, h => by simpa [Q.withBoost, Normal] using h
  | .not _ _, _, h => by simpa [Q.withBoost, Normal] using h
  | .bin .andnot x y, b, h => by
    simp only [Normal, Bool.and_eq_true, Bool.not_eq_true'] at h
    simp only [Q.withBoost, Normal, Bool.and_eq_true, Bool.not_eq_true', withBoost_isNull]
    exact ⟨⟨⟨Normal_withBoost x b h.1.1.1, h.1.1.2⟩, h.1.2⟩, h.2⟩
  | .bin .require x y, b, h => by
    simp only [Normal, Bool.and_eq_true, Bool.not_eq_true'] at h
    simp only [Q.withBoost, Normal, Bool.and_eq_true, Bool.not_eq_true', withBoost_isNull]
    exact ⟨⟨⟨Normal_withBoost x b h.1.1.1, h.1.1.2⟩, h.1.2⟩, h.2⟩
  | .bin .andmaybe x y, b, h => by
    simp only [Normal, Bool.and_eq_true, Bool.not_eq_true'] at h
    simp only [Q.withBoost, Normal, Bool.and_eq_true, Bool.not_eq_true', withBoost_isNull]
    exact ⟨⟨⟨Normal_withBoost x b h.1.1.1, Normal_withBoost y b h.1.1.2⟩, h.1.2⟩, h.2⟩
  | .bin .otherwise x y, b, h => by
    simp only [Normal, Bool.and_eq_true, Bool.not_eq_true'] at h
    simp only [Q.withBoost, Normal, Bool.and_eq_true, Bool.not_eq_true', withBoost_isNull]
    exact ⟨⟨⟨Normal_withBoost x b h.1.1.1, Normal_withBoost y b h.1.1.2⟩, h.1.2⟩, h.2⟩
  | .const _ _, _, _ => rfl
  | .opq _ _, _, _ => rfl

theorem Normal_rngNormalize (r : Rng) : Normal r.normalize = true := by
  unfold Rng.normalize
  split
  · rfl
  · rename_i h1
    split
    · split
      · rfl
      · split <;> rfl
    · rename_i h2
      simp only [Normal, Rng.proper, Bool.and_true, Bool.and_eq_true, Bool.not_eq_true']
      exact ⟨Bool.eq_false_iff.mpr h1, Bool.eq_false_iff.mpr h2⟩

theorem sameClass_rngNormalize (k : CK) (r : Rng) : sameClass k r.normalize = false := by
  unfold Rng.normalize
  split
  · rfl
  · split
    · split
      · rfl
      · split <;> rfl
    · rfl

/-- A property of all input clauses and of all results of `TermRange.normalize` holds for all
    clauses the merge loop emits. -/
theorem mergeLoop_forall (P : Q → Prop) (hP : ∀ r : Rng, P r.normalize) (i : Bool)
    (ef : List (Option Field)) (l : List Q) (h : ∀ x ∈ l, P x) : ∀ x ∈ (mergeLoop i ef l).1, P x := by
  fun_induction mergeLoop i ef l with
  | case1 ef => exact fun x hx => by simp at hx
  | case2 ef q rest hc ih => exact ih (fun x hx => h x (List.mem_cons_of_mem _ hx))
  | case3 ef q rest hc r hr p q' ef' res ih =>
    intro x hx
    rcases List.mem_cons.mp hx with rfl | hx
    · exact hP p.1
    · exact ih (fun y hy => h y (List.mem_cons_of_mem _ (absorb_mem i r rest y hy))) x hx
  | case4 ef q rest hc hr ef' res ih =>
    intro x hx
    rcases List.mem_cons.mp hx with rfl | hx
    · exact h _ (List.mem_cons_self ..)
    · exact ih (fun y hy => h y (List.mem_cons_of_mem _ hy)) x hx

/-- Facts about the flattened list of normal clauses. -/
theorem flatten_Normal (k : CK) : ∀ (l : List Q), NormalList l = true →
    (∀ x ∈ flatten k l, Normal x = true) ∧ (∀ x ∈ flatten k l, sameClass k x = false)
  | [], _ => ⟨fun x hx => by simp [flatten] at hx, fun x hx => by simp [flatten] at hx⟩
  | s :: rest, h => by
    simp only [NormalList, Bool.and_eq_true] at h
    obtain ⟨ih1, ih2⟩ := flatten_Normal k rest h.2
    have keep : ∀ (s : Q), Normal s = true → sameClass k s = false →
        (∀ x ∈ s :: flatten k rest, Normal x = true) ∧ (∀ x ∈ s :: flatten k rest, sameClass k x = false) := by
      intro s hs hk
      constructor <;> intro x hx <;> rcases List.mem_cons.mp hx with rfl | hx
      · exact hs
      · exact ih1 x hx
      · exact hk
      · exact ih2 x hx
    cases s <;> try exact keep _ h.1 rfl
    rename_i k' ss b
    simp only [flatten]
    split
    · rename_i hk
      subst hk
      have hs := h.1
      simp only [Normal, Bool.and_eq_true, decide_eq_true_eq, List.all_eq_true, Bool.not_eq_true'] at hs
      obtain ⟨⟨⟨⟨hN, _⟩, hall⟩, _⟩, _⟩ := hs
      rw [NormalList_iff] at hN
      constructor <;> intro x hx <;> rcases List.mem_append.mp hx with hx | hx
      · obtain ⟨y, hy, rfl⟩ := List.mem_map.mp hx
        exact Normal_withBoost y _ (hN y hy)
      · exact ih1 x hx
      · obtain ⟨y, hy, rfl⟩ := List.mem_map.mp hx
        rw [sameClass_withBoost]
        exact (hall y hy).2
      · exact ih2 x hx
    · rename_i hk
      exact keep _ h.1 (by simp [sameClass, hk])

theorem finish_Normal (k : CK) (l : List Q) (b : Rat)
    (hN : ∀ x ∈ l, Normal x = true)
    (hcomp : 2 ≤ l.length → Normal (.comp k l b) = true) : Normal (finish k l b) = true := by
  unfold finish
  match l, hN, hcomp with
  | [], _, _ => rfl
  | [sub], hN, _ =>
    simp only
    split
    · exact hN sub (List.mem_cons_self ..)
    · exact Normal_withBoost _ _ (hN sub (List.mem_cons_self ..))
  | x :: y :: rest, _, hcomp => exact hcomp (by simp)

theorem compTail_Normal (k : CK) (l : List Q) (b : Rat)
    (hN : ∀ x ∈ l, Normal x = true) (hsame : ∀ x ∈ l, sameClass k x = false)
    (hall : ∀ x ∈ l, x.isEveryAll = false) : Normal (compTail k l b) = true := by
  unfold compTail
  obtain ⟨hst, hef, hea⟩ := mergeLoop_stable k.intersect [] l (by simp) hall
  have hNo := mergeLoop_forall (fun x => Normal x = true) Normal_rngNormalize k.intersect [] l hN
  have hso := mergeLoop_forall (fun x => sameClass k x = false) (sameClass_rngNormalize k) k.intersect [] l hsame
  generalize mergeLoop k.intersect [] l = res at hst hef hea hNo hso
  obtain ⟨out, ef⟩ := res
  simp only at hst hef hea hNo hso ⊢
  have hsub3 : (dedupe ef [] out).Sublist out := dedupe_sublist ef out []
  have hsub4 : ((dedupe ef [] out).filter fun q => !q.isNull).Sublist (dedupe ef [] out) :=
    List.filter_sublist
  have hsub : ((dedupe ef [] out).filter fun q => !q.isNull).Sublist out := hsub4.trans hsub3
  generalize hl4 : (dedupe ef [] out).filter (fun q => !q.isNull) = l4 at hsub hsub4
  apply finish_Normal
  · exact fun x hx => hNo x (hsub.subset hx)
  · intro hlen
    simp only [Normal, Bool.and_eq_true, decide_eq_true_eq, List.all_eq_true, Bool.not_eq_true']
    refine ⟨⟨⟨⟨?_, hlen⟩, ?_⟩, ?_⟩, ?_⟩
    · rw [NormalList_iff]; exact fun x hx => hNo x (hsub.subset hx)
    · intro x hx
      refine ⟨⟨?_, hea x (hsub.subset hx)⟩, hso x (hsub.subset hx)⟩
      have : x ∈ (dedupe ef [] out).filter fun q => !q.isNull := by rw [hl4]; exact hx
      simpa using (List.mem_filter.mp this).2
    · exact stable_mono hsub [] [] (fun o ho => ho) hst
    · have h3 : dstable ef [] (dedupe ef [] out) = true := dedupe_dstable ef out []
      apply dstable_mono hsub4 ef (efFinal [] l4) [] [] ?_ (fun x hx => hx) h3
      intro o ho
      rw [← hef]
      exact efFinal_sublist hsub [] o ho

theorem compNormalize_Normal (k : CK) (subs : List Q) (b : Rat) (h : NormalList subs = true) :
    Normal (compNormalize k subs b) = true := by
  obtain ⟨hN, hsame⟩ := flatten_Normal k subs h
  unfold compNormalize
  generalize flatten k subs = l at hN hsame
  simp only
  by_cases h1 : l.all Q.isNull = true
  · rw [if_pos h1]; rfl
  rw [if_neg h1]
  by_cases h2 : (l.any Q.isEveryAll && !k.intersect) = true
  · rw [if_pos h2]; rfl
  rw [if_neg h2]
  have hl2 : (∀ x ∈ (if l.any Q.isEveryAll = true then l.filter (fun q => !q.isEveryAll) else l), Normal x = true)
      ∧ (∀ x ∈ (if l.any Q.isEveryAll = true then l.filter (fun q => !q.isEveryAll) else l), sameClass k x = false)
      ∧ (∀ x ∈ (if l.any Q.isEveryAll = true then l.filter (fun q => !q.isEveryAll) else l), x.isEveryAll = false) := by
    split
    · refine ⟨fun x hx => hN x (List.mem_filter.mp hx).1, fun x hx => hsame x (List.mem_filter.mp hx).1, ?_⟩
      intro x hx
      simpa using (List.mem_filter.mp hx).2
    · rename_i hno
      refine ⟨hN, hsame, ?_⟩
      intro x hx
      cases hc : x.isEveryAll with
      | false => rfl
      | true => exact absurd (List.any_eq_true.mpr ⟨x, hx, hc⟩) hno
  generalize (if l.any Q.isEveryAll = true then l.filter (fun q => !q.isEveryAll) else l) = l2 at hl2
  by_cases h3 : (l.any Q.isEveryAll && l2.all Q.isNull) = true
  · rw [if_pos h3]; rfl
  rw [if_neg h3]
  exact compTail_Normal k l2 b hl2.1 hl2.2.1 hl2.2.2

theorem binNormalize_Normal (k : BK) (a b : Q) (ha : Normal a = true) (hb : Normal b = true) :
    Normal (binNormalize k a b) = true := by
  unfold binNormalize
  cases k <;> simp only
  all_goals
    repeat' split
    all_goals first
      | rfl
      | exact ha
      | exact hb
      | (simp only [Normal, Bool.and_eq_true, Bool.not_eq_true']; simp_all)

theorem wildNormalize_Normal (f : Field) (t : Text) (b : Rat) (c : Bool) :
    Normal (wildNormalize f t b c) = true := by
  unfold wildNormalize
  split
  · rfl
  · rename_i h1
    split
    · rename_i h2
      simp only [Normal, beq_iff_eq]
      unfold wildNormalize
      rw [if_neg h1, if_pos h2]
    · rename_i h2
      split
      · rfl
      · rename_i h3
        split
        · rfl
        · rename_i h4
          simp only [Normal, beq_iff_eq]
          unfold wildNormalize
          rw [if_neg h1, if_neg h2, if_neg h3, if_neg h4]

theorem phraseNormalize_Normal (f : Field) (ws : List Text) (s : Nat) (b : Rat) :
    Normal (phraseNormalize f ws s b) = true := by
  unfold phraseNormalize
  match ws with
  | [] => rfl
  | [w] => rfl
  | x :: y :: rest => simp [Normal]

mutual
theorem Normal_normalize : ∀ (q : Q), Normal (normalize q) = true
  | .null => rfl
  | .every _ _ => rfl
  | .term _ _ _ => rfl
  | .pre _ _ _ _ => rfl
  | .wild f t b c => by simp only [normalize]; exact wildNormalize_Normal f t b c
  | .multi _ _ _ _ _ => rfl
  | .range f lo hi lx hx b c => by simp only [normalize]; exact Normal_rngNormalize _
  | .phrase f ws s b => by simp only [normalize]; exact phraseNormalize_Normal f ws s b
  | .comp k qs b => by
    simp only [normalize]; exact compNormalize_Normal k _ b (NormalList_normalizeList qs)
  | .seq _ qs _ _ _ => by simp only [normalize, Normal]; exact NormalList_normalizeList qs
  | .not q b => by
    simp only [normalize]
    split
    · rfl
    · rename_i hn
      simp only [Normal, Bool.and_eq_true, Bool.not_eq_true']
      exact ⟨Normal_normalize q, by simpa using hn⟩
  | .bin k a b => by
    simp only [normalize]
    exact binNormalize_Normal k _ _ (Normal_normalize a) (Normal_normalize b)
  | .const _ _ => rfl
  | .opq _ _ => rfl
theorem NormalList_normalizeList : ∀ (qs : List Q), NormalList (normalizeList qs) = true
  | [] => rfl
  | q :: qs => by
    simp only [normalizeList, NormalList, Bool.and_eq_true]
    exact ⟨Normal_normalize q, NormalList_normalizeList qs⟩
end

/-- `normalize` is idempotent. -/
theorem normalize_idempotent (q : Q) : normalize (normalize q) = normalize q :=
  normalize_of_Normal _ (Normal_normalize q)

end WM.Normalize
