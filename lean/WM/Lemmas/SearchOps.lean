import WM.Lemmas.SearchSpec
/-!
Compound operators of `WM.Compile` (tree folds of any valid shape, `orMany` with its three
strategies) against pointwise specifications.
-/
namespace WM.Compile
open WM.Search

/-- a pointwise specification of a posting list -/
abbrev PSpec := Nat → Option Rat

/-- `l` is strictly ascending and agrees pointwise with `sp` (up to scores when not `sc`) -/
def AgreeP (sc : Bool) (l : PL) (sp : PSpec) : Prop := Sorted l ∧ ∀ i, R sc (lookup l i) (sp i)

/-- element-wise agreement of a list of posting lists with a list of specifications -/
def AgreeL (sc : Bool) : List PL → List PSpec → Prop
  | [], [] => True
  | m :: ms, sp :: sps => AgreeP sc m sp ∧ AgreeL sc ms sps
  | _, _ => False

theorem AgreeL.length {sc : Bool} : ∀ {ms : List PL} {sps : List PSpec}, AgreeL sc ms sps → ms.length = sps.length
  | [], [], _ => rfl
  | _ :: ms, _ :: sps, h => by simp [AgreeL.length (ms := ms) (sps := sps) h.2]
  | [], _ :: _, h => by cases h
  | _ :: _, [], h => by cases h

theorem AgreeL.sorted {sc : Bool} : ∀ {ms : List PL} {sps : List PSpec}, AgreeL sc ms sps → ∀ m ∈ ms, Sorted m
  | [], [], _ => by intro m hm; cases hm
  | m :: ms, _ :: sps, h => by
    intro x hx
    rcases List.mem_cons.mp hx with rfl | hx
    · exact h.1.1
    · exact AgreeL.sorted (ms := ms) (sps := sps) h.2 x hx
  | [], _ :: _, h => by cases h
  | _ :: _, [], h => by cases h

theorem AgreeL.foldr {sc : Bool} {F : Option Rat → Option Rat → Option Rat}
    (hF : ∀ x y x' y', R sc x y → R sc x' y' → R sc (F x x') (F y y')) (e : Option Rat) (i : Nat) :
    ∀ {ms : List PL} {sps : List PSpec}, AgreeL sc ms sps →
      R sc ((ms.map (fun m => lookup m i)).foldr F e) ((sps.map (fun sp => sp i)).foldr F e)
  | [], [], _ => R.refl sc e
  | m :: ms, sp :: sps, h => by
    simp only [List.map_cons, List.foldr_cons]
    exact hF _ _ _ _ (h.1.2 i) (AgreeL.foldr hF e i (ms := ms) (sps := sps) h.2)
  | [], _ :: _, h => by cases h
  | _ :: _, [], h => by cases h

theorem AgreeL.map {sc : Bool} (g : PL → PL) (gs : PSpec → PSpec)
    (hg : ∀ m sp, AgreeP sc m sp → AgreeP sc (g m) (gs sp)) :
    ∀ {ms : List PL} {sps : List PSpec}, AgreeL sc ms sps → AgreeL sc (ms.map g) (sps.map gs)
  | [], [], _ => trivial
  | m :: ms, sp :: sps, h => ⟨hg m sp h.1, AgreeL.map g gs hg (ms := ms) (sps := sps) h.2⟩
  | [], _ :: _, h => by cases h
  | _ :: _, [], h => by cases h

/-! ### tree folds -/

theorem foldShape_agree {sc : Bool} {op : PL → PL → PL} {F : Option Rat → Option Rat → Option Rat}
    {e : Option Rat} (hop : OpSpec op F) (hF : Monoidal F e)
    (hR : ∀ x y x' y', R sc x y → R sc x' y' → R sc (F x x') (F y y'))
    {ms : List PL} {sps : List PSpec} (h : AgreeL sc ms sps) {sh : Shape} (hv : sh.Valid ms.length) :
    AgreeP sc (foldShape op ms sh) (fun i => (sps.map (fun sp => sp i)).foldr F e) := by
  have hfs := foldShape_valid hop hF (AgreeL.sorted h) hv
  refine ⟨hfs.1, fun i => ?_⟩
  rw [hfs.2 i]
  exact AgreeL.foldr hR e i h

/-! ### boost and constant score -/

theorem boostL_agree {sc : Bool} (w : Rat) {m : PL} {sp : PSpec} (h : AgreeP sc m sp) :
    AgreeP sc (boostL w m) (fun i => (sp i).map (· * w)) := by
  refine ⟨boostL_sorted w h.1, fun i => ?_⟩
  rw [lookup_boostL w h.1]
  exact R.map _ (h.2 i)

theorem constL_agree {sc sc' : Bool} (c : Rat) {m : PL} {sp : PSpec} (h : AgreeP sc' m sp) :
    AgreeP sc (constL c m) (fun i => (sp i).map (fun _ => c)) := by
  refine ⟨constL_sorted c h.1, fun i => ?_⟩
  rw [lookup_constL c h.1]
  exact R.const c (h.2 i)

/-! ### sums distribute over the boost; sums of positive scores are positive -/

theorem foldr_add_map_mul (b : Rat) (xs : List (Option Rat)) :
    (xs.map (fun x => x.map (· * b))).foldr (optMerge (· + ·)) none =
      (xs.foldr (optMerge (· + ·)) none).map (· * b) := by
  induction xs with
  | nil => rfl
  | cons x xs ih =>
    simp only [List.map_cons, List.foldr_cons, ih]
    cases x <;> cases (List.foldr (optMerge fun x1 x2 => x1 + x2) none xs) <;> simp [optMerge, Rat.add_mul]

theorem foldr_add_pos {xs : List (Option Rat)} (h : ∀ x ∈ xs, ∀ v, x = some v → 0 < v) {w : Rat}
    (hw : xs.foldr (optMerge (· + ·)) none = some w) : 0 < w := by
  induction xs generalizing w with
  | nil => simp at hw
  | cons x xs ih =>
    simp only [List.foldr_cons] at hw
    have hxs : ∀ y ∈ xs, ∀ v, y = some v → 0 < v := fun y hy => h y (List.mem_cons_of_mem _ hy)
    cases x with
    | none =>
      simp only [optMerge] at hw
      exact ih hxs hw
    | some a =>
      have ha : 0 < a := h (some a) List.mem_cons_self a rfl
      cases hr : List.foldr (optMerge fun x1 x2 => x1 + x2) none xs with
      | none =>
        rw [hr] at hw
        simp only [optMerge, Option.some.injEq] at hw
        rw [← hw]; exact ha
      | some r =>
        rw [hr] at hw
        simp only [optMerge, Option.some.injEq] at hw
        have := ih hxs hr
        rw [← hw]; grind

theorem foldr_add_isSome (xs : List (Option Rat)) :
    (xs.foldr (optMerge (· + ·)) none).isSome = xs.any (·.isSome) := by
  induction xs with
  | nil => rfl
  | cons x xs ih =>
    simp only [List.foldr_cons, List.any_cons, ← ih]
    cases x <;> cases (List.foldr (optMerge fun x1 x2 => x1 + x2) none xs) <;> simp [optMerge]

/-! ### `orMany`: whichever strategy `Or._matcher` picks, the list is the boosted sum -/

/-- the positivity the array union needs: in a scored context every specified score is positive -/
def PosSpecs (sc : Bool) (sps : List PSpec) : Prop :=
  sc = true → ∀ sp ∈ sps, ∀ i v, sp i = some v → 0 < v

theorem unionAll_agree {sc : Bool} {ms : List PL} {sps : List PSpec} (h : AgreeL sc ms sps) :
    AgreeP sc (unionAll ms) (fun i => (sps.map (fun sp => sp i)).foldr (optMerge (· + ·)) none) := by
  have hu := unionAll_spec (AgreeL.sorted h)
  refine ⟨hu.1, fun i => ?_⟩
  rw [hu.2 i]
  exact AgreeL.foldr (fun _ _ _ _ => R.optMerge) none i h

theorem orMany_agree {ctx : Ctx} {dc : Nat} {sh : Shape} {ms : List PL} {sps : List PSpec} {b : Rat}
    (h : AgreeL ctx.scored ms sps) (hv : sh.Valid ms.length) (hb : 0 < b) (hpos : PosSpecs ctx.scored sps) :
    AgreeP ctx.scored (orMany ctx dc sh ms b)
      (fun i => ((sps.map (fun sp => sp i)).foldr (optMerge (· + ·)) none).map (· * b)) := by
  unfold orMany
  split
  · -- binary tree of unions, boosted
    exact boostL_agree b (foldShape_agree (mergeWith_opSpec _) add_monoidal (fun _ _ _ _ => R.optMerge) h hv)
  · split
    · -- array union, scored: accumulates score * boost, keeps positive cells
      rename_i hsc
      have hsc' : ctx.scored = true := hsc
      have hb' : AgreeL ctx.scored (ms.map (boostL b)) (sps.map (fun sp i => (sp i).map (· * b))) :=
        AgreeL.map (boostL b) (fun sp i => (sp i).map (· * b)) (fun m sp hm => boostL_agree b hm) h
      have hu := unionAll_agree hb'
      have hval : ∀ i, lookup (unionAll (ms.map (boostL b))) i =
          ((sps.map (fun sp => sp i)).foldr (optMerge (· + ·)) none).map (· * b) := by
        intro i
        have h0 := (hu.2 i).2 hsc'
        rw [h0]
        show List.foldr (optMerge (· + ·)) none
            (List.map (fun sp => sp i) (List.map (fun sp i => Option.map (fun x => x * b) (sp i)) sps)) = _
        have : (List.map (fun sp => sp i) (List.map (fun sp i => Option.map (fun x => x * b) (sp i)) sps)) =
            (sps.map (fun sp => sp i)).map (fun x => x.map (· * b)) := by
          rw [List.map_map, List.map_map]; rfl
        rw [this, foldr_add_map_mul]
      have hposall : ∀ e ∈ unionAll (ms.map (boostL b)), 0 < e.score := by
        intro e he
        have h1 := lookup_of_mem hu.1 he
        rw [hval e.id] at h1
        cases hf : (sps.map (fun sp => sp e.id)).foldr (optMerge (· + ·)) none with
        | none => rw [hf] at h1; cases h1
        | some w =>
          rw [hf] at h1
          simp only [Option.map_some, Option.some.injEq] at h1
          have hw : 0 < w := by
            apply foldr_add_pos _ hf
            intro x hx v hxv
            obtain ⟨sp, hsp, rfl⟩ := List.mem_map.mp hx
            exact hpos hsc' sp hsp e.id v hxv
          rw [← h1]; exact Rat.mul_pos hw hb
      rw [arrayParts_pos _ _ hposall]
      refine ⟨hu.1, fun i => ?_⟩
      rw [hval i]
      exact R.refl _ _
    · -- array union, unscored: every cell is 1
      rename_i hsc
      have hsc' : ctx.scored = false := by simpa using hsc
      have hu := unionAll_agree h
      refine ⟨constL_sorted 1 hu.1, fun i => ?_⟩
      rw [lookup_constL 1 hu.1, hsc']
      have h1 := (hu.2 i).1
      constructor
      · cases hl : lookup (unionAll ms) i <;>
          cases hr : (sps.map (fun sp => sp i)).foldr (optMerge (· + ·)) none <;> simp_all
      · intro hc; cases hc

end WM.Compile
