import WM.Lemmas.IndexLive
/-!
Adding a removed field name again: what the freshness hypothesis of `OpOK (.addField f _)` needs
from the segments (used by `WM.C06.readd_after_optimize`).
-/
namespace WM.Index
open WM.Dict

/-- every live document of the index is a document of one of its segments -/
theorem liveGlobal_mem_docs (segs : List Seg) (base : Nat) :
    ∀ q ∈ liveGlobal segs base, ∃ s ∈ segs, q.1 ∈ s.docs := by
  induction segs generalizing base with
  | nil => intro q hq; simp [liveGlobal] at hq
  | cons s r ih =>
    intro q hq
    simp only [liveGlobal, List.mem_append, List.mem_map] at hq
    rcases hq with ⟨p, hp, rfl⟩ | hq
    · refine ⟨s, List.mem_cons_self, ?_⟩
      simp only [Seg.liveIdx, List.mem_filter] at hp
      have := List.mem_zipIdx (x := p.1) (i := p.2) (xs := s.docs) (k := 0) hp.1
      rw [this.2.2]; exact List.getElem_mem _
    · obtain ⟨s', hs', hd⟩ := ih _ q hq
      exact ⟨s', List.mem_cons_of_mem _ hs', hd⟩

/-- a document that fits a schema has no data of a field the schema lacks -/
theorem fits_hasField_false (sc : Schema) (d : DocRec) (f : Nat) (h : d.fits sc = true) (hf : sc.has f = false) :
    d.hasField f = false := by
  simp only [DocRec.fits, List.all_eq_true] at h
  simp only [DocRec.hasField, List.any_eq_false, beq_iff_eq]
  intro fd hfd heq
  have := h fd hfd
  rw [heq, hf] at this
  exact absurd this (by simp)

end WM.Index
