import WM.Lemmas.SearchCursorBuild
/-! The cursor tree `build` constructs denotes `compile` (mutual induction over the query). -/
namespace WM.Compile
open WM.Search
open WM.Matcher (Any mkInter mkUnion mkDisMax mkAndNot mkAndMaybe mkRequire mkInverse mkConst mkBoost mkAUnion allIds WF
  ListM unionWith scale)

theorem postings_sorted (ls : LeafScore) (s : Segment) (f : String) (t : Term) : Sorted (postings ls s f t) := by
  rw [postings_eq_canon]; exact canon_sorted (live_asc s) _ _

/-- `CompoundQuery.matcher` on both sides -/
theorem compound_denotes {many : List Any → MR Any} {manyL : List PL → PL} (b : Rat)
    {ms : List Any} {pls : List PL} (h : DenotesL ms pls)
    (hmany : 2 ≤ ms.length → ∃ m, many ms = .ok m ∧ Denotes m (manyL pls)) :
    ∃ m, compoundM many b ms = .ok m ∧ Denotes m (compoundL manyL b pls) := by
  match ms, pls, h, hmany with
  | [], [], _, _ => exact ⟨_, rfl, denotes_null⟩
  | [m], [l], h, _ => exact ⟨_, rfl, denotes_boostM b h.1⟩
  | m1 :: m2 :: mr, l1 :: l2 :: lr, h, hmany =>
    obtain ⟨m, hm, hd⟩ := hmany (by simp)
    exact ⟨m, hm, hd⟩
  | [], _ :: _, h, _ => cases h
  | [_], [], h, _ => cases h
  | [_], _ :: _ :: _, h, _ => cases h.2
  | _ :: _ :: _, [], h, _ => cases h
  | _ :: _ :: _, [_], h, _ => cases h.2

theorem compileList_length (ls : LeafScore) (so : ShapeOracle) (s : Segment) (ctx : Ctx) :
    ∀ qs : List Query, (compileList ls so s ctx qs).length = qs.length
  | [] => by simp [compileList]
  | q :: qs => by simp [compileList, compileList_length ls so s ctx qs]

theorem buildList_length {ls : LeafScore} {so : ShapeOracle} {s : Segment} {ctx : Ctx} :
    ∀ {qs : List Query} {ms : List Any}, buildList ls so s ctx qs = .ok ms → ms.length = qs.length
  | [], ms, h => by simp [buildList] at h; subst h; rfl
  | q :: qs, ms, h => by
    simp only [buildList] at h
    cases hb : build ls so s ctx q with
    | error e => rw [hb] at h; cases h
    | ok m =>
      cases hl : buildList ls so s ctx qs with
      | error e => rw [hb, hl] at h; cases h
      | ok ms' =>
        rw [hb, hl] at h
        have : ms = m :: ms' := by cases h; rfl
        subst this
        simp [buildList_length hl]

theorem bind_ok {α β} (x : MR α) (f : α → MR β) (a : α) (h : x = .ok a) : (x >>= f) = f a := by
  rw [h]; rfl

theorem boostL_one (l : PL) : boostL 1 l = l := by
  unfold boostL
  conv => rhs; rw [← List.map_id l]
  apply List.map_congr_left
  intro e _
  cases e
  simp [Rat.mul_one]

theorem postings_id_lt (ls : LeafScore) (s : Segment) (f : String) (t : Term) :
    ∀ e ∈ postings ls s f t, e.id < s.size := by
  intro e he
  unfold postings at he
  obtain ⟨i, hi, rfl⟩ := List.mem_map.mp he
  have h1 := (List.mem_filter.mp hi).1
  unfold Segment.live at h1
  have := (List.mem_filter.mp h1).1
  simpa using this

theorem lexicon_postings_sorted (ls : LeafScore) (s : Segment) (f : String) (b : Rat) :
    Sorted (constL (wOf b) (unionAll ((lexicon s f).map (postings ls s f)))) := by
  apply constL_sorted
  apply (unionAll_spec _).1
  intro m hm
  obtain ⟨t, _, rfl⟩ := List.mem_map.mp hm
  exact postings_sorted ls s f t

theorem live_map_sorted (s : Segment) (w : Rat) : Sorted (s.live.map (fun i => (⟨i, w⟩ : Hit))) := by
  unfold Sorted
  rw [List.pairwise_map]
  exact live_asc s

theorem denotesL_postings (ls : LeafScore) (s : Segment) (f : String) :
    ∀ ts : List Term, DenotesL (ts.map (fun t => listOf (postings ls s f t))) (ts.map (postings ls s f))
  | [] => trivial
  | t :: ts => ⟨denotes_listOf (postings_sorted ls s f t), denotesL_postings ls s f ts⟩

/-- clauses that are plain terms (boost 1) with positive leaf scores: their built matchers are the list
    matchers over their compiled lists -/
theorem unitTerms_lists (ls : LeafScore) (so : ShapeOracle) (s : Segment) (ctx : Ctx) :
    ∀ qs : List Query,
      (∀ q ∈ qs, ∃ f t, q = Query.term f t 1 ∧ ∀ e ∈ postings ls s f t, 0 < e.score) →
      buildList ls so s ctx qs = .ok ((compileList ls so s ctx qs).map listOf) ∧
      ∀ l ∈ compileList ls so s ctx qs, Sorted l ∧ ∀ e ∈ l, 0 < e.score ∧ e.id < s.size
  | [], _ => ⟨by simp [buildList, compileList], by intro l hl; simp [compileList] at hl⟩
  | q :: qs, h => by
    obtain ⟨f, t, rfl, hpos⟩ := h q List.mem_cons_self
    obtain ⟨ih1, ih2⟩ := unitTerms_lists ls so s ctx qs (fun q' hq' => h q' (List.mem_cons_of_mem _ hq'))
    have hc : compile ls so s ctx (.term f t 1) = postings ls s f t := by simp only [compile]; exact boostL_one _
    have hb : build ls so s ctx (.term f t 1) = .ok (listOf (postings ls s f t)) := by simp [build, boostM]
    refine ⟨?_, ?_⟩
    · simp only [buildList, compileList, hb, ih1, hc]; rfl
    · intro l hl
      simp only [compileList, hc, List.mem_cons] at hl
      rcases hl with rfl | hl
      · exact ⟨postings_sorted ls s f t, fun e he => ⟨hpos e he, postings_id_lt ls s f t e he⟩⟩
      · exact ih2 l hl

theorem unionOK_orOK {ls : LeafScore} {so : ShapeOracle} {s : Segment} {ctx : Ctx} {qs : List Query} {b : Rat}
    (h : UnionOK ls s ctx qs b) {ms : List Any} (hms : buildList ls so s ctx qs = .ok ms)
    (hlen : ms.length = qs.length) (h2 : 2 ≤ ms.length) :
    OrOK ctx s.size b ms (compileList ls so s ctx qs) := by
  rcases h with hle | ⟨hlt, hor⟩ | ⟨hsc, hb, hall⟩
  · exact .inl ⟨by omega, .inr (.inl (by omega))⟩
  · refine .inl ⟨by omega, ?_⟩
    rcases hor with hnc | hdc
    · exact .inl hnc
    · exact .inr (.inr hdc)
  · obtain ⟨h1, h3⟩ := unitTerms_lists ls so s ctx qs hall
    rw [h1] at hms
    exact .inr ⟨hsc, hb, by cases hms; rfl, h3⟩

mutual
theorem build_denotes (ls : LeafScore) (so : ShapeOracle) (s : Segment) :
    ∀ (q : Query) (ctx : Ctx), CursorOK ls s ctx q →
      ∃ m, build ls so s ctx q = .ok m ∧ Denotes m (compile ls so s ctx q)
  | .term f t b, ctx, _ => by
    refine ⟨boostM b (listOf (postings ls s f t)), by simp [build], ?_⟩
    simp only [compile]
    exact denotes_boostM b (denotes_listOf (postings_sorted ls s f t))
  | .null, ctx, _ => ⟨Any.null, by simp [build], by simp only [compile]; exact denotes_null⟩
  | .and qs b, ctx, h => by
    simp only [CursorOK] at h
    obtain ⟨ms, hms, hd⟩ := buildList_denotes ls so s qs ctx h
    simp only [build, compile]
    rw [bind_ok _ _ ms hms]
    apply compound_denotes b hd
    intro _
    obtain ⟨m, hm, hdm⟩ := foldShapeM_denotes opOk_inter hd (so qs)
    exact ⟨_, by rw [bind_ok _ _ m hm]; rfl, denotes_boostM b hdm⟩
  | .or qs b, ctx, h => by
    simp only [CursorOK] at h
    obtain ⟨ms, hms, hd⟩ := buildList_denotes ls so s qs ctx h.1
    simp only [build, compile]
    rw [bind_ok _ _ ms hms]
    apply compound_denotes b hd
    intro h2
    exact orManyM_denotes (so qs) hd h2 (unionOK_orOK h.2 hms (buildList_length hms) h2)
  | .dismax qs b, ctx, h => by
    simp only [CursorOK] at h
    obtain ⟨ms, hms, hd⟩ := buildList_denotes ls so s qs ctx h
    simp only [build, compile]
    rw [bind_ok _ _ ms hms]
    apply compound_denotes b hd
    intro _
    obtain ⟨m, hm, hdm⟩ := foldShapeM_denotes opOk_dismax hd (so qs)
    exact ⟨_, by rw [bind_ok _ _ m hm]; rfl, denotes_boostM b hdm⟩
  | .not q, ctx, h => by
    simp only [CursorOK] at h
    obtain ⟨c, hc, hdc⟩ := build_denotes ls so s q boolCtx h
    obtain ⟨m, h1, h2, h3⟩ := (WM.C11.constructors_wf c c hdc.1 hdc.1).2.2.2.2.2 s.size s.deleted 1 0
    refine ⟨m, ?_, h2, ?_⟩
    · simp only [build]; rw [bind_ok _ _ c hc]; exact h1
    · simp only [compile]
      rw [h3, toPL_complement, hdc.2]
  | .andNot a b, ctx, h => by
    simp only [CursorOK] at h
    obtain ⟨x, hx, hdx⟩ := build_denotes ls so s a ctx h.1
    obtain ⟨y, hy, hdy⟩ := build_denotes ls so s b boolCtx h.2
    obtain ⟨m, h1, h2, h3⟩ := (WM.C11.constructors_wf x y hdx.1 hdy.1).2.1
    refine ⟨m, ?_, h2, ?_⟩
    · simp only [build]; rw [bind_ok _ _ x hx, bind_ok _ _ y hy]; exact h1
    · simp only [compile]; rw [h3, toPL_diff, hdx.2, hdy.2]
  | .andMaybe a b, ctx, h => by
    simp only [CursorOK] at h
    obtain ⟨x, hx, hdx⟩ := build_denotes ls so s a ctx h.1
    obtain ⟨y, hy, hdy⟩ := build_denotes ls so s b ctx h.2
    obtain ⟨m, h1, h2, h3⟩ := (WM.C11.constructors_wf x y hdx.1 hdy.1).2.2.1
    refine ⟨m, ?_, h2, ?_⟩
    · simp only [build]; rw [bind_ok _ _ x hx, bind_ok _ _ y hy]; exact h1
    · simp only [compile]; rw [h3, toPL_leftJoin, hdx.2, hdy.2]
  | .require a b, ctx, h => by
    simp only [CursorOK] at h
    obtain ⟨x, hx, hdx⟩ := build_denotes ls so s a ctx h.1
    obtain ⟨y, hy, hdy⟩ := build_denotes ls so s b boolCtx h.2
    obtain ⟨m, h1, h2, h3⟩ := (WM.C11.constructors_wf x y hdx.1 hdy.1).2.2.2.1
    refine ⟨m, ?_, h2, ?_⟩
    · simp only [build]; rw [bind_ok _ _ x hx, bind_ok _ _ y hy]; exact h1
    · simp only [compile]; rw [h3, toPL_require, hdx.2, hdy.2]
  | .constScore q sc, ctx, h => by
    simp only [CursorOK] at h
    obtain ⟨c, hc, hdc⟩ := build_denotes ls so s q ctx h
    simp only [build, compile]
    rw [bind_ok _ _ c hc]
    exact csM_denotes ctx sc hdc
  | .every none b, ctx, _ => by
    refine ⟨listOf (s.live.map (fun i => (⟨i, wOf b⟩ : Hit))), by simp [build], ?_⟩
    simp only [compile]
    exact denotes_listOf (live_map_sorted s _)
  | .every (some f) b, ctx, _ => by
    refine ⟨everyFieldM ls s f b, by simp [build], ?_⟩
    simp only [compile]
    exact denotes_listOf (lexicon_postings_sorted ls s f b)
  | .multi f p b cs, ctx, h => by
    simp only [CursorOK] at h
    simp only [build, compile]
    by_cases hall : isAllPred p = true
    · simp only [hall, if_true]
      exact ⟨_, rfl, denotes_listOf (lexicon_postings_sorted ls s f b)⟩
    · have hu := h.resolve_left hall
      simp only [hall, Bool.false_eq_true, if_false]
      generalize (lexicon s f).filter p.test = ts at hu ⊢
      match ts, hu with
      | [], _ => exact ⟨Any.null, rfl, denotes_null⟩
      | [t], _ =>
        have hd := denotes_listOf (postings_sorted ls s f t)
        cases cs with
        | true => simpa using csM_denotes ctx b hd
        | false => exact ⟨_, rfl, by simpa using denotes_boostM b hd⟩
      | t1 :: t2 :: tr, hu =>
        have hd := denotesL_postings ls s f (t1 :: t2 :: tr)
        have hlen : ((t1 :: t2 :: tr).map (fun t => listOf (postings ls s f t))).length = (t1 :: t2 :: tr).length := by
          simp
        -- the expansion is `Or([Term(f, t) ...])`: the clause lists are the postings
        have hcl : ∀ c : Ctx, ∀ us : List Term,
            compileList ls so s c (us.map (fun t => Query.term f t 1)) = us.map (postings ls s f) := by
          intro c us
          induction us with
          | nil => simp [compileList]
          | cons u us ih => simp only [List.map_cons, compileList, ih, compile, boostL_one]
        have hbl : ∀ c : Ctx, ∀ us : List Term,
            buildList ls so s c (us.map (fun t => Query.term f t 1)) =
              .ok (us.map (fun t => listOf (postings ls s f t))) := by
          intro c us
          induction us with
          | nil => simp [buildList]
          | cons u us ih => simp only [List.map_cons, buildList, ih, build, boostM, if_true]; rfl
        have hok := unionOK_orOK (so := so) hu (hbl _ (t1 :: t2 :: tr)) (by simp) (by simp)
        rw [hcl] at hok
        obtain ⟨m, hm, hdm⟩ := orManyM_denotes (so ((t1 :: t2 :: tr).map (fun t => Query.term f t 1))) hd
          (by simp) hok
        cases cs with
        | true =>
          obtain ⟨m', hm', hdm'⟩ := csM_denotes ctx b hdm
          exact ⟨m', by simp only [if_true] at hm ⊢; rw [bind_ok _ _ m hm]; exact hm', by simpa using hdm'⟩
        | false =>
          exact ⟨m, by simp only [Bool.false_eq_true, if_false] at hm ⊢; rw [bind_ok _ _ m hm]; rfl,
            by simpa using hdm⟩
  | .phrase _ _ _ _, _, h => by simp [CursorOK] at h
  | .numRange _ _ _ _ _ _, _, h => by simp [CursorOK] at h
theorem buildList_denotes (ls : LeafScore) (so : ShapeOracle) (s : Segment) :
    ∀ (qs : List Query) (ctx : Ctx), CursorOKL ls s ctx qs →
      ∃ ms, buildList ls so s ctx qs = .ok ms ∧ DenotesL ms (compileList ls so s ctx qs)
  | [], ctx, _ => ⟨[], by simp [buildList], by simp [compileList, DenotesL]⟩
  | q :: qs, ctx, h => by
    simp only [CursorOKL] at h
    obtain ⟨m, hm, hd⟩ := build_denotes ls so s q ctx h.1
    obtain ⟨ms, hms, hds⟩ := buildList_denotes ls so s qs ctx h.2
    refine ⟨m :: ms, ?_, ?_⟩
    · simp only [buildList]; rw [bind_ok _ _ m hm, bind_ok _ _ ms hms]; rfl
    · simp only [compileList]; exact ⟨hd, hds⟩
end

mutual
/-- round 2's fragment is part of `CursorOK` (with no positivity condition: it has no array union) -/
theorem treeOnly_cursorOK (ls : LeafScore) (s : Segment) : ∀ (q : Query) (ctx : Ctx), TreeOnly s ctx q → CursorOK ls s ctx q
  | .term _ _ _, _, _ => trivial
  | .null, _, _ => trivial
  | .and qs _, ctx, h => by simp only [TreeOnly] at h; simp only [CursorOK]; exact treeOnlyL_cursorOKL ls s qs ctx h
  | .or qs b, ctx, h => by
    simp only [TreeOnly] at h; simp only [CursorOK]
    refine ⟨treeOnlyL_cursorOKL ls s qs ctx h.1, ?_⟩
    rcases h.2 with h2 | h2
    · exact .inl h2
    · exact .inr (.inl h2)
  | .dismax qs _, ctx, h => by simp only [TreeOnly] at h; simp only [CursorOK]; exact treeOnlyL_cursorOKL ls s qs ctx h
  | .not q, _, h => by simp only [TreeOnly] at h; simp only [CursorOK]; exact treeOnly_cursorOK ls s q boolCtx h
  | .andNot a b, ctx, h => by
    simp only [TreeOnly] at h; simp only [CursorOK]
    exact ⟨treeOnly_cursorOK ls s a ctx h.1, treeOnly_cursorOK ls s b boolCtx h.2⟩
  | .andMaybe a b, ctx, h => by
    simp only [TreeOnly] at h; simp only [CursorOK]
    exact ⟨treeOnly_cursorOK ls s a ctx h.1, treeOnly_cursorOK ls s b ctx h.2⟩
  | .require a b, ctx, h => by
    simp only [TreeOnly] at h; simp only [CursorOK]
    exact ⟨treeOnly_cursorOK ls s a ctx h.1, treeOnly_cursorOK ls s b boolCtx h.2⟩
  | .constScore q _, ctx, h => by simp only [TreeOnly] at h; simp only [CursorOK]; exact treeOnly_cursorOK ls s q ctx h
  | .multi _ _ _ _, _, h => by simp [TreeOnly] at h
  | .phrase _ _ _ _, _, h => by simp [TreeOnly] at h
  | .numRange _ _ _ _ _ _, _, h => by simp [TreeOnly] at h
  | .every _ _, _, h => by simp [TreeOnly] at h
theorem treeOnlyL_cursorOKL (ls : LeafScore) (s : Segment) :
    ∀ (qs : List Query) (ctx : Ctx), TreeOnlyL s ctx qs → CursorOKL ls s ctx qs
  | [], _, _ => by simp [CursorOKL]
  | q :: qs, ctx, h => by
    simp only [TreeOnlyL] at h; simp only [CursorOKL]
    exact ⟨treeOnly_cursorOK ls s q ctx h.1, treeOnlyL_cursorOKL ls s qs ctx h.2⟩
end

/-- under the theorems' positivity hypotheses the array-union clause of `UnionOK` asks only for the shape -/
theorem unionOK_of_pos {ls : LeafScore} {s : Segment} (hleaf : PosLeaf ls s) {ctx : Ctx} {qs : List Query} {b : Rat}
    (hsc : ctx.scored = true) (hb : 0 < b) (hq : ∀ q ∈ qs, ∃ f t, q = Query.term f t 1) : UnionOK ls s ctx qs b := by
  refine .inr (.inr ⟨hsc, hb, fun q hq' => ?_⟩)
  obtain ⟨f, t, rfl⟩ := hq q hq'
  refine ⟨f, t, rfl, fun e he => ?_⟩
  unfold postings at he
  obtain ⟨i, hi, rfl⟩ := List.mem_map.mp he
  have := List.mem_filter.mp hi
  exact hleaf i this.1 f t this.2

end WM.Compile
