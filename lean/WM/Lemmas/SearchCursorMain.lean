import WM.Lemmas.SearchCursorBuild
/-! The cursor tree `build` constructs denotes `compile` (mutual induction over the query). -/
namespace WM.Compile
open WM.Search
open WM.Matcher (Any mkInter mkUnion mkDisMax mkAndNot mkAndMaybe mkRequire mkInverse mkConst mkBoost allIds WF
  ListM unionWith scale)

theorem DenotesL.length : ∀ {ms : List Any} {pls : List PL}, DenotesL ms pls → ms.length = pls.length
  | [], [], _ => rfl
  | _ :: ms, _ :: ls, h => by simp [DenotesL.length (ms := ms) (pls := ls) h.2]
  | [], _ :: _, h => by cases h
  | _ :: _, [], h => by cases h

theorem postings_sorted (ls : LeafScore) (s : Segment) (f : String) (t : Term) : Sorted (postings ls s f t) := by
  rw [postings_eq_canon]; exact canon_sorted (live_asc s) _ _

/-- `CompoundQuery.matcher` on both sides -/
theorem compound_denotes {many : List Any → MR Any} {manyL : List PL → PL} (b : Rat)
    {ms : List Any} {pls : List PL} (h : DenotesL ms pls)
    (hmany : 2 ≤ ms.length → ∃ m, many ms = .ok m ∧ Denotes m (manyL pls)) :
    ∃ m, compoundM many b ms = .ok m ∧ Denotes m (compoundL manyL b pls) := by
  match ms, pls, h, hmany with
  | [], [], _, _ => exact ⟨_, rfl, denotes_null⟩
  | [m], [l], h, _ => exact ⟨_, rfl, denotes_boostM b h.1⟩
  | m1 :: m2 :: mr, l1 :: l2 :: lr, h, hmany =>
    obtain ⟨m, hm, hd⟩ := hmany (by simp)
    exact ⟨m, hm, hd⟩
  | [], _ :: _, h, _ => cases h
  | [_], [], h, _ => cases h
  | [_], _ :: _ :: _, h, _ => cases h.2
  | _ :: _ :: _, [], h, _ => cases h
  | _ :: _ :: _, [_], h, _ => cases h.2

theorem compileList_length (ls : LeafScore) (so : ShapeOracle) (s : Segment) (ctx : Ctx) :
    ∀ qs : List Query, (compileList ls so s ctx qs).length = qs.length
  | [] => by simp [compileList]
  | q :: qs => by simp [compileList, compileList_length ls so s ctx qs]

theorem buildList_length {ls : LeafScore} {so : ShapeOracle} {s : Segment} {ctx : Ctx} :
    ∀ {qs : List Query} {ms : List Any}, buildList ls so s ctx qs = .ok ms → ms.length = qs.length
  | [], ms, h => by simp [buildList] at h; subst h; rfl
  | q :: qs, ms, h => by
    simp only [buildList] at h
    cases hb : build ls so s ctx q with
    | error e => rw [hb] at h; cases h
    | ok m =>
      cases hl : buildList ls so s ctx qs with
      | error e => rw [hb, hl] at h; cases h
      | ok ms' =>
        rw [hb, hl] at h
        have : ms = m :: ms' := by cases h; rfl
        subst this
        simp [buildList_length hl]

theorem bind_ok {α β} (x : MR α) (f : α → MR β) (a : α) (h : x = .ok a) : (x >>= f) = f a := by
  rw [h]; rfl

mutual
theorem build_denotes (ls : LeafScore) (so : ShapeOracle) (s : Segment) :
    ∀ (q : Query) (ctx : Ctx), TreeOnly s ctx q →
      ∃ m, build ls so s ctx q = .ok m ∧ Denotes m (compile ls so s ctx q)
  | .term f t b, ctx, _ => by
    refine ⟨boostM b (listOf (postings ls s f t)), by simp [build], ?_⟩
    simp only [compile]
    exact denotes_boostM b (denotes_listOf (postings_sorted ls s f t))
  | .null, ctx, _ => ⟨Any.null, by simp [build], by simp only [compile]; exact denotes_null⟩
  | .and qs b, ctx, h => by
    simp only [TreeOnly] at h
    obtain ⟨ms, hms, hd⟩ := buildList_denotes ls so s qs ctx h
    simp only [build, compile]
    rw [bind_ok _ _ ms hms]
    apply compound_denotes b hd
    intro _
    obtain ⟨m, hm, hdm⟩ := foldShapeM_denotes opOk_inter hd (so qs)
    exact ⟨_, by rw [bind_ok _ _ m hm]; rfl, denotes_boostM b hdm⟩
  | .or qs b, ctx, h => by
    simp only [TreeOnly] at h
    obtain ⟨ms, hms, hd⟩ := buildList_denotes ls so s qs ctx h.1
    have hlen := hd.length
    have hcl : (compileList ls so s ctx qs).length = qs.length := compileList_length ls so s ctx qs
    simp only [build, compile]
    rw [bind_ok _ _ ms hms]
    apply compound_denotes b hd
    intro h2
    have hcond : (decide (ms.length < 1024) && (ctx.nc || ms.length == 2 || decide (5000 < s.size))) = true := by
      rw [hlen, hcl]
      rw [hlen, hcl] at h2
      rcases h.2 with hle | ⟨hlt, hor⟩
      · have : qs.length = 2 := by omega
        simp [this]
      · rcases hor with hnc | hdc
        · simp [hlt, hnc]
        · simp [hlt, hdc]
    have hcond' : (decide ((compileList ls so s ctx qs).length < 1024) &&
        (ctx.nc || (compileList ls so s ctx qs).length == 2 || decide (5000 < s.size))) = true := by
      rw [← hlen]; exact hcond
    obtain ⟨m, hm, hdm⟩ := foldShapeM_denotes opOk_union hd (so qs)
    refine ⟨boostM b m, ?_, ?_⟩
    · simp only [hcond, if_true]
      rw [bind_ok _ _ m hm]; rfl
    · unfold orMany
      simp only [hcond', if_true]
      exact denotes_boostM b hdm
  | .dismax qs b, ctx, h => by
    simp only [TreeOnly] at h
    obtain ⟨ms, hms, hd⟩ := buildList_denotes ls so s qs ctx h
    simp only [build, compile]
    rw [bind_ok _ _ ms hms]
    apply compound_denotes b hd
    intro _
    obtain ⟨m, hm, hdm⟩ := foldShapeM_denotes opOk_dismax hd (so qs)
    exact ⟨_, by rw [bind_ok _ _ m hm]; rfl, denotes_boostM b hdm⟩
  | .not q, ctx, h => by
    simp only [TreeOnly] at h
    obtain ⟨c, hc, hdc⟩ := build_denotes ls so s q boolCtx h
    obtain ⟨m, h1, h2, h3⟩ := (WM.C11.constructors_wf c c hdc.1 hdc.1).2.2.2.2.2 s.size s.deleted 1 0
    refine ⟨m, ?_, h2, ?_⟩
    · simp only [build]; rw [bind_ok _ _ c hc]; exact h1
    · simp only [compile]
      rw [h3, toPL_complement, hdc.2]
  | .andNot a b, ctx, h => by
    simp only [TreeOnly] at h
    obtain ⟨x, hx, hdx⟩ := build_denotes ls so s a ctx h.1
    obtain ⟨y, hy, hdy⟩ := build_denotes ls so s b boolCtx h.2
    obtain ⟨m, h1, h2, h3⟩ := (WM.C11.constructors_wf x y hdx.1 hdy.1).2.1
    refine ⟨m, ?_, h2, ?_⟩
    · simp only [build]; rw [bind_ok _ _ x hx, bind_ok _ _ y hy]; exact h1
    · simp only [compile]; rw [h3, toPL_diff, hdx.2, hdy.2]
  | .andMaybe a b, ctx, h => by
    simp only [TreeOnly] at h
    obtain ⟨x, hx, hdx⟩ := build_denotes ls so s a ctx h.1
    obtain ⟨y, hy, hdy⟩ := build_denotes ls so s b ctx h.2
    obtain ⟨m, h1, h2, h3⟩ := (WM.C11.constructors_wf x y hdx.1 hdy.1).2.2.1
    refine ⟨m, ?_, h2, ?_⟩
    · simp only [build]; rw [bind_ok _ _ x hx, bind_ok _ _ y hy]; exact h1
    · simp only [compile]; rw [h3, toPL_leftJoin, hdx.2, hdy.2]
  | .require a b, ctx, h => by
    simp only [TreeOnly] at h
    obtain ⟨x, hx, hdx⟩ := build_denotes ls so s a ctx h.1
    obtain ⟨y, hy, hdy⟩ := build_denotes ls so s b boolCtx h.2
    obtain ⟨m, h1, h2, h3⟩ := (WM.C11.constructors_wf x y hdx.1 hdy.1).2.2.2.1
    refine ⟨m, ?_, h2, ?_⟩
    · simp only [build]; rw [bind_ok _ _ x hx, bind_ok _ _ y hy]; exact h1
    · simp only [compile]; rw [h3, toPL_require, hdx.2, hdy.2]
  | .constScore q sc, ctx, h => by
    simp only [TreeOnly] at h
    obtain ⟨c, hc, hdc⟩ := build_denotes ls so s q ctx h
    simp only [build, compile, csL]
    rw [bind_ok _ _ c hc]
    by_cases hnc : ctx.nc = true
    · simp only [hnc, if_true]
      refine ⟨mkConst c sc, rfl, hdc.1, ?_⟩
      show toPL (WM.Matcher.constScore sc c.den) = _
      rw [toPL_constScore, hdc.2]
    · simp only [hnc]
      have hids := WM.C11.all_ids_base c hdc.1
      rw [bind_ok _ _ _ hids]
      refine ⟨_, rfl, ?_⟩
      have heq : (c.den.map (·.1)).map (fun i => (⟨i, wOf sc⟩ : Hit)) = constL (wOf sc) (compile ls so s ctx q) := by
        rw [← hdc.2]
        simp [constL, toPL, List.map_map, Function.comp_def]
      rw [heq]
      apply denotes_listOf
      apply constL_sorted
      rw [← hdc.2]
      have hasc := WM.C11.sorted c.1 c.2 hdc.1
      unfold Sorted toPL
      rw [List.pairwise_map]
      exact hasc
  | .multi _ _ _ _, _, h => by simp [TreeOnly] at h
  | .phrase _ _ _ _, _, h => by simp [TreeOnly] at h
  | .numRange _ _ _ _ _ _, _, h => by simp [TreeOnly] at h
  | .every _ _, _, h => by simp [TreeOnly] at h
theorem buildList_denotes (ls : LeafScore) (so : ShapeOracle) (s : Segment) :
    ∀ (qs : List Query) (ctx : Ctx), TreeOnlyL s ctx qs →
      ∃ ms, buildList ls so s ctx qs = .ok ms ∧ DenotesL ms (compileList ls so s ctx qs)
  | [], ctx, _ => ⟨[], by simp [buildList], by simp [compileList, DenotesL]⟩
  | q :: qs, ctx, h => by
    simp only [TreeOnlyL] at h
    obtain ⟨m, hm, hd⟩ := build_denotes ls so s q ctx h.1
    obtain ⟨ms, hms, hds⟩ := buildList_denotes ls so s qs ctx h.2
    refine ⟨m :: ms, ?_, ?_⟩
    · simp only [buildList]; rw [bind_ok _ _ m hm, bind_ok _ _ ms hms]; rfl
    · simp only [compileList]; exact ⟨hd, hds⟩
end

end WM.Compile
