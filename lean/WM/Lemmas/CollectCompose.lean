import WM.Lemmas.CollectViews
import WM.Lemmas.CollectCollapse
/-! Lemmas for the composed view theorems (C14Compose): the documents a `CollapseCollector` keeps are
pairwise different, the ascending view only depends on the *set* of documents, and a limited sorted
search is a prefix of the unlimited one. -/
namespace WM.Collect
open WM.Rank

/-- Two permutations of each other have the same ascending view. -/
theorem ascending_congr (key : Nat → Key) {l1 l2 : List Nat} (h : l1.Perm l2) :
    ascending key l1 = ascending key l2 := by
  unfold ascending
  apply List.Perm.eq_of_pairwise (le := fun a b => kdLe a b = true)
  · intro a b _ _ h1 h2; exact kdLe_antisymm a b h1 h2
  · exact List.pairwise_mergeSort kdLe_trans kdLe_total _
  · exact List.pairwise_mergeSort kdLe_trans kdLe_total _
  · exact (List.mergeSort_perm _ _).trans ((h.map _).trans (List.mergeSort_perm _ _).symm)

/-- The ascending view of concrete documents is the (unique) sorted permutation of their `(key, doc)` pairs —
    used to evaluate examples (`List.mergeSort` is defined by well-founded recursion and does not reduce
    under `decide`). -/
theorem ascending_eq_of (key : Nat → Key) (docs : List Nat) (L : List (Key × Nat))
    (hp : L.isPerm (docs.map fun d => (key d, d)) = true) (hs : L.Pairwise (fun a b => kdLe a b = true)) :
    ascending key docs = L := by
  unfold ascending
  apply List.Perm.eq_of_pairwise (le := fun a b => kdLe a b = true)
  · intro a b _ _ h1 h2; exact kdLe_antisymm a b h1 h2
  · exact List.pairwise_mergeSort kdLe_trans kdLe_total _
  · exact hs
  · exact (List.mergeSort_perm _ _).trans (List.isPerm_iff.mp hp).symm

/-- What one `CollapseCollector.collect` does to the child's document list. -/
theorem collapseCollect_kept (ckey : Nat → Option Int) (skey : Nat → Key) (n : Nat) (st st' : CollapseSt) (d : Nat)
    (h : collapseCollect ckey skey n st d = .ok st') :
    st'.kept = st.kept ++ [d] ∨ st'.kept = st.kept ∨ ∃ w, st'.kept = st.kept.filter (· != w) ++ [d] := by
  unfold collapseCollect at h
  split at h
  · cases h; exact Or.inl rfl
  · dsimp only at h
    split at h
    · cases h; exact Or.inl rfl
    · split at h
      · cases h
      · split at h
        · cases h; exact Or.inr (Or.inr ⟨_, rfl⟩)
        · cases h; exact Or.inr (Or.inl rfl)

/-- The child of a `CollapseCollector` never holds a document twice, and only documents it was given. -/
theorem collapseRun_kept_nodup (ckey : Nat → Option Int) (skey : Nat → Key) (n : Nat) :
    ∀ (docs pre : List Nat) (st st' : CollapseSt), st.kept.Nodup → (∀ x ∈ st.kept, x ∈ pre) →
      (pre ++ docs).Nodup → collapseRun ckey skey n docs st = .ok st' →
      st'.kept.Nodup ∧ ∀ x ∈ st'.kept, x ∈ pre ++ docs := by
  intro docs
  induction docs with
  | nil =>
    intro pre st st' hnd hsub _ h
    simp only [collapseRun] at h
    cases h
    exact ⟨hnd, by simpa using hsub⟩
  | cons d ds ih =>
    intro pre st st' hnd hsub hall h
    simp only [collapseRun] at h
    split at h
    · cases h
    · rename_i st1 h1
      have hd : d ∉ st.kept := by
        intro hm
        have := hsub d hm
        rw [List.nodup_append] at hall
        exact hall.2.2 d this d (by simp) rfl
      have hstep : st1.kept.Nodup ∧ ∀ x ∈ st1.kept, x ∈ pre ++ [d] := by
        rcases collapseCollect_kept ckey skey n st st1 d h1 with e | e | ⟨w, e⟩
        · rw [e]
          refine ⟨?_, ?_⟩
          · rw [List.nodup_append]
            refine ⟨hnd, by simp, ?_⟩
            intro a ha b hb hab
            simp only [List.mem_singleton] at hb
            subst hb; subst hab
            exact hd ha
          · intro x hx
            simp only [List.mem_append, List.mem_singleton] at hx ⊢
            rcases hx with hx | hx
            · exact Or.inl (hsub x hx)
            · exact Or.inr hx
        · rw [e]
          exact ⟨hnd, fun x hx => by simp only [List.mem_append]; exact Or.inl (hsub x hx)⟩
        · rw [e]
          refine ⟨?_, ?_⟩
          · rw [List.nodup_append]
            refine ⟨hnd.sublist List.filter_sublist, by simp, ?_⟩
            intro a ha b hb hab
            simp only [List.mem_singleton] at hb
            subst hb; subst hab
            exact hd (List.mem_filter.mp ha).1
          · intro x hx
            simp only [List.mem_append, List.mem_singleton] at hx ⊢
            rcases hx with hx | hx
            · exact Or.inl (hsub x (List.mem_filter.mp hx).1)
            · exact Or.inr hx
      have hall' : (pre ++ [d] ++ ds).Nodup := by simpa using hall
      have := ih (pre ++ [d]) st1 st' hstep.1 hstep.2 hall' h
      simpa using this

/-- Membership in the documents a collapser keeps, as a Boolean test: no key, or among the best `n`
    of its key. -/
def keepsB (ckey : Nat → Option Int) (skey : Nat → Key) (n : Nat) (docs : List Nat) (d : Nat) : Bool :=
  match ckey d with
  | none => true
  | some c => (bestOf ckey skey n docs c).contains (skey d, d)

theorem keepsB_iff (ckey : Nat → Option Int) (skey : Nat → Key) (n : Nat) (docs : List Nat) (d : Nat) :
    keepsB ckey skey n docs d = true ↔
      (ckey d = none ∨ ∃ c, ckey d = some c ∧ (skey d, d) ∈ bestOf ckey skey n docs c) := by
  unfold keepsB
  cases h : ckey d with
  | none => simp
  | some c => simp

end WM.Collect
