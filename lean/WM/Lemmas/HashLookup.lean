import WM.Lemmas.HashOrdered
/-! The reader statements over the unchecked writer `build` (unbounded positions and hash values);
`WM/Props/C20Hash.lean` restates them for the writers with the struct-format limits. -/
set_option linter.unusedSimpArgs false
namespace WM.C20
open WM.HashFile

/-- `HashWriter.close()` always completes: the open-addressing insertion loop finds a free slot
    within `numslots` probes for every bucket (the `2n` slots are never full). -/
theorem build_total_raw {α} (hash : Key → Nat) (vlen : α → Nat) (so : Nat) (kvs : List (Key × α)) :
    ∃ f, build hash vlen so kvs = some f := by
  rcases build_spec hash vlen so kvs with ⟨f, hf, _⟩
  exact ⟨f, hf⟩

/-- `list(reader.all(k))` are the values written under `k`, in insertion order; absent keys give `[]`. -/
theorem lookup_raw {α} (hash : Key → Nat) (vlen : α → Nat) (so : Nat) (kvs : List (Key × α))
    (f : File α) (hf : build hash vlen so kvs = some f) (key : Key) :
    all hash f key = kvs.filterMap (fun kv => if kv.1 = key then some kv.2 else none) := by
  rcases build_spec hash vlen so kvs with ⟨f', hf', hb⟩
  rw [hf] at hf'
  cases Option.some.inj hf'
  have hsorted : f.recs.Pairwise (fun a b => a.pos < b.pos) := by
    rw [hb.recs]; exact layout_pos_sorted vlen kvs _
  -- reduce the right-hand side to the records
  have hkvs : kvs = f.recs.map (fun r => (r.key, r.val)) := by
    rw [hb.recs, layout_kvs]
  have hrhs : kvs.filterMap (fun kv => if kv.1 = key then some kv.2 else none)
      = f.recs.filterMap (fun r => if r.key = key then some r.val else none) := by
    rw [hkvs, List.filterMap_map]; rfl
  rw [hrhs]
  unfold all
  simp only
  have hlt : hash key % 256 < 256 := Nat.mod_lt _ (by omega)
  rcases hb.tables _ hlt with ⟨T, hT, hlen, hinv⟩
  rw [hT]
  simp only
  -- the records of this bucket with the key's hash are the records with the key's hash
  have hent : (bucketEntries hash f.recs (hash key % 256)).filter (fun s => s.1 == hash key)
      = (f.recs.filter (fun r => hash r.key == hash key)).map (fun r => (hash r.key, r.pos)) := by
    unfold bucketEntries
    rw [List.filter_map, List.filter_filter]
    congr 1
    apply List.filter_congr
    intro r _
    simp only [Function.comp]
    by_cases h : hash r.key = hash key
    · simp [h]
    · simp [h]
  have hcheck : ∀ r ∈ f.recs,
      checkKey f key r.pos = (if r.key = key then some r.val else none) := by
    intro r hr
    unfold checkKey recAt
    rw [find_at_pos hsorted hr]
    simp only
    by_cases h : r.key = key
    · simp [h]
    · simp [h]
  have hfinal : ((f.recs.filter (fun r => hash r.key == hash key)).map (fun r => (hash r.key, r.pos))).filterMap
        (fun s => checkKey f key s.2)
      = f.recs.filterMap (fun r => if r.key = key then some r.val else none) := by
    rw [List.filterMap_map]
    have : ∀ l : List (Rec α), (∀ r ∈ l, r ∈ f.recs) →
        (l.filter (fun r => hash r.key == hash key)).filterMap
          ((fun s : Slot => checkKey f key s.2) ∘ fun r => (hash r.key, r.pos))
        = l.filterMap (fun r => if r.key = key then some r.val else none) := by
      intro l
      induction l with
      | nil => intro _; rfl
      | cons a t ih =>
        intro hsub
        have ha := hcheck a (hsub a (by simp))
        have iht := ih (fun r hr => hsub r (List.mem_cons_of_mem _ hr))
        rw [List.filter_cons, List.filterMap_cons]
        by_cases hh : hash a.key = hash key
        · have hb' : (hash a.key == hash key) = true := by simp [hh]
          rw [if_pos hb', List.filterMap_cons]
          simp only [Function.comp] at ha iht ⊢
          rw [ha, iht]
        · have hb' : ¬ (hash a.key == hash key) = true := by simp [hh]
          have hk : ¬ a.key = key := fun h => hh (by rw [h])
          rw [if_neg hb', iht, if_neg hk]
    exact this f.recs (fun r hr => hr)
  by_cases h0 : T.length = 0
  · rw [if_pos h0]
    -- empty bucket: no record has this hash, a fortiori none has this key
    have hnil : bucketEntries hash f.recs (hash key % 256) = [] := by
      apply List.eq_nil_of_length_eq_zero; omega
    have := hfinal
    rw [← hent, hnil] at this
    rw [← this]; rfl
  · rw [if_neg h0, scan_inv hinv (hash key) _ (by omega), hent, hfinal]

/-- `reader.get(k)` / `reader[k]` is the first value written under `k`; `k in reader` iff written. -/
theorem get_contains_raw {α} (hash : Key → Nat) (vlen : α → Nat) (so : Nat) (kvs : List (Key × α))
    (f : File α) (hf : build hash vlen so kvs = some f) (key : Key) :
    WM.HashFile.get hash f key = (kvs.find? (fun kv => kv.1 == key)).map (·.2)
      ∧ (containsKey hash f key = true ↔ key ∈ kvs.map (·.1)) := by
  unfold WM.HashFile.get containsKey
  rw [lookup_raw hash vlen so kvs f hf key]
  clear hf
  constructor
  · induction kvs with
    | nil => rfl
    | cons a t ih =>
      rw [List.filterMap_cons, List.find?_cons]
      by_cases h : a.1 = key
      · simp [h]
      · have : (a.1 == key) = false := by simp [h]
        simp only [h, ↓reduceIte, this]
        exact ih
  · induction kvs with
    | nil => simp
    | cons a t ih =>
      rw [List.filterMap_cons]
      by_cases h : a.1 = key
      · simp [h]
      · simp only [h, ↓reduceIte, List.map_cons, List.mem_cons]
        rw [ih]
        constructor
        · intro h1; exact Or.inr h1
        · rintro (h1 | h1)
          · exact absurd h1.symm h
          · exact h1

/-- Iterating the file (`items()`, `keys()`, `__iter__`) yields the pairs in insertion order. -/
theorem items_raw {α} (hash : Key → Nat) (vlen : α → Nat) (so : Nat) (kvs : List (Key × α))
    (f : File α) (hf : build hash vlen so kvs = some f) : items vlen f = kvs := by
  rcases build_spec hash vlen so kvs with ⟨f', hf', hb⟩
  rw [hf] at hf'
  cases Option.some.inj hf'
  have hsorted : f.recs.Pairwise (fun a b => a.pos < b.pos) := by
    rw [hb.recs]; exact layout_pos_sorted vlen kvs _
  unfold items
  rw [hb.start, walk_layout vlen f hsorted kvs (so + headerSize) [] (by rw [hb.recs]; rfl) hb.eod,
    layout_kvs]

/-! ### ordered files -/

/-- `closest_key(k)`: the first key at or after `k` (keys written in strictly ascending order). -/
theorem closest_key_raw {α} (hash : Key → Nat) (vlen : α → Nat) (so : Nat) (kvs : List (Key × α))
    (f : File α) (hf : build hash vlen so kvs = some f) (hpos : ∀ r ∈ f.recs, r.pos < 2 ^ 63)
    (hord : (kvs.map (·.1)).Pairwise (· < ·)) (key : Key) :
    closestKey f key = .ok ((kvs.map (·.1)).find? (fun k => !decide (k < key))) := by
  rcases closest_pos_spec hash vlen so kvs f hf hpos hord key with ⟨lo, hlo, hpos, hlen, h1, h2⟩
  rcases build_spec hash vlen so kvs with ⟨f', hf', hb⟩
  rw [hf] at hf'
  cases Option.some.inj hf'
  have hsorted : f.recs.Pairwise (fun a b => a.pos < b.pos) := by
    rw [hb.recs]; exact layout_pos_sorted vlen kvs _
  unfold closestKey
  rw [hpos]
  simp only [bind, Except.bind]
  have hfind : (kvs.map (·.1)).find? (fun k => !decide (k < key)) = (kvs.map (·.1))[lo]? := by
    apply find?_eq_getElem
    · intro k hk hklo
      have := h1 k (by simpa using hk) hklo
      simp [this]
    · intro hlo'
      have := h2 lo (by simpa using hlo') (Nat.le_refl _)
      simp [this]
    · simpa using hlo
  rw [hfind]
  by_cases hend : lo < kvs.length
  · have hlr : lo < f.recs.length := by omega
    rw [List.getElem?_eq_getElem hlr]
    simp only [Option.map_some]
    unfold recAt
    rw [find_at_pos hsorted (List.getElem_mem hlr)]
    simp only
    rw [List.getElem?_eq_getElem (by simpa using hend)]
    congr 2
    have := getElem_layout_key vlen kvs (so + headerSize) lo (by rw [← hb.recs]; exact hlr) hend
    simp only [hb.recs, List.getElem_map]
    exact this
  · rw [List.getElem?_eq_none (by omega), List.getElem?_eq_none (by simp; omega)]
    rfl

/-- `items_from(k)` / `keys_from(k)`: the pairs from the first key at or after `k` to the end. -/
theorem items_from_raw {α} (hash : Key → Nat) (vlen : α → Nat) (so : Nat) (kvs : List (Key × α))
    (f : File α) (hf : build hash vlen so kvs = some f) (hpos : ∀ r ∈ f.recs, r.pos < 2 ^ 63)
    (hord : (kvs.map (·.1)).Pairwise (· < ·)) (key : Key) :
    itemsFrom vlen f key = .ok (kvs.dropWhile (fun kv => decide (kv.1 < key))) := by
  rcases closest_pos_spec hash vlen so kvs f hf hpos hord key with ⟨lo, hlo, hpos, hlen, h1, h2⟩
  rcases build_spec hash vlen so kvs with ⟨f', hf', hb⟩
  rw [hf] at hf'
  cases Option.some.inj hf'
  have hsorted : f.recs.Pairwise (fun a b => a.pos < b.pos) := by
    rw [hb.recs]; exact layout_pos_sorted vlen kvs _
  unfold itemsFrom
  rw [hpos]
  simp only [bind, Except.bind]
  have hdrop : kvs.dropWhile (fun kv => decide (kv.1 < key)) = kvs.drop lo := by
    apply dropWhile_eq_drop
    · intro k hk hklo
      simpa using h1 k hk hklo
    · intro hlo'
      simpa using h2 lo hlo' (Nat.le_refl _)
    · exact hlo
  rw [hdrop]
  by_cases hend : lo < kvs.length
  · have hlr : lo < f.recs.length := by omega
    rw [List.getElem?_eq_getElem hlr]
    simp only [Option.map_some]
    rcases layout_drop vlen kvs (so + headerSize) lo hend with ⟨pre, hpre, hend'⟩
    have hposeq : (f.recs[lo]).pos = ((layout vlen (so + headerSize) kvs)[lo]'(by rw [length_layout]; exact hend)).pos := by
      simp only [hb.recs]
    rw [walk_layout vlen f hsorted (kvs.drop lo) _ pre (by rw [hposeq, ← hpre, hb.recs])
      (by rw [hposeq, ← hend', hb.eod]), layout_kvs]
  · rw [List.getElem?_eq_none (by omega)]
    simp only [Option.map_none]
    rw [List.drop_eq_nil_of_le (by omega)]

end WM.C20
