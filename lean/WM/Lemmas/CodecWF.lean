import WM.Lemmas.CodecReader
import WM.Lemmas.CodecTerm
/-! What the writer produces is well-formed for the reader; meaning of the aggregates. -/
namespace WM.Codec

variable {ι μ : Type}

theorem BlockOf.ne_nil {c : Cfg ι μ} {last : Bool} {ch : List (Posting ι)} {b : DiskBlock ι μ}
    (h : BlockOf c last ch b) : ch ≠ [] := by
  obtain ⟨lp, hl, _⟩ := h
  intro e; rw [e] at hl; simp at hl

theorem BlockOf.wf {c : Cfg ι μ} (hk : c.ids.Lawful) {last : Bool} {ch : List (Posting ι)}
    {b : DiskBlock ι μ} (h : BlockOf c last ch b) (hv : ValuesOk c.fixedsize ch) :
    BlockWF c.ids c.fixedsize b := by
  have hne := h.ne_nil
  obtain ⟨lp, hl, rfl⟩ := h
  refine ⟨⟨_, readValues_encode c last ch lp.id hv, by simp [encodeBlock]⟩, ?_, ?_, ?_⟩
  · simp [readIds, encodeBlock, hk _]
  · rw [readWeights_mini _ (ch.map fun p => c.f32 p.weight) rfl (by simp [encodeBlock])]
    simp [encodeBlock]
  · simp only [encodeBlock]
    cases ch with
    | nil => exact absurd rfl hne
    | cons a l => simp

theorem BlocksOf.last_false {c : Cfg ι μ} {chs bs} (h : BlocksOf c chs bs) :
    ∀ x ∈ bs, x.last = false := by
  induction h with
  | nil => simp
  | cons hb _ ih =>
    intro x hx
    simp only [List.mem_cons] at hx
    rcases hx with rfl | hx
    · obtain ⟨_, _, rfl⟩ := hb; rfl
    · exact ih x hx

theorem BlocksOf.all_wf {c : Cfg ι μ} (hk : c.ids.Lawful) {chs bs} (h : BlocksOf c chs bs)
    (hv : ∀ ch ∈ chs, ValuesOk c.fixedsize ch) : ∀ x ∈ bs, BlockWF c.ids c.fixedsize x := by
  induction h with
  | nil => simp
  | cons hb _ ih =>
    intro x hx
    simp only [List.mem_cons] at hx
    rcases hx with rfl | hx
    · exact hb.wf hk (hv _ (by simp))
    · exact ih (fun ch hch => hv ch (by simp [hch])) x hx

/-- The block list of a term is well-formed for the reader. -/
theorem wfBlocks_of {c : Cfg ι μ} (hk : c.ids.Lawful) {chs bs} (h : BlocksOf c chs bs)
    {rem : List (Posting ι)} {b : DiskBlock ι μ} (hb : BlockOf c true rem b)
    (hv : ∀ ch ∈ chs, ValuesOk c.fixedsize ch) (hvr : ValuesOk c.fixedsize rem) :
    WFBlocks c.ids c.fixedsize (bs ++ [b]) := by
  constructor
  · intro x hx
    simp only [List.mem_append, List.mem_singleton] at hx
    rcases hx with hx | rfl
    · exact h.all_wf hk hv x hx
    · exact hb.wf hk hvr
  · intro j x hj
    by_cases hlt : j < bs.length
    · rw [List.getElem?_append_left hlt] at hj
      have := h.last_false x (List.mem_of_getElem? hj)
      simp only [this, List.length_append, List.length_singleton]
      constructor
      · intro hh; cases hh
      · intro hh; omega
    · rw [List.getElem?_append_right (by omega)] at hj
      have hj0 : j - bs.length = 0 := by
        rcases hjj : j - bs.length with _ | n
        · rfl
        · rw [hjj] at hj; simp at hj
      rw [hj0] at hj
      simp only [List.getElem?_cons_zero, Option.some.injEq] at hj
      subst hj
      obtain ⟨_, _, rfl⟩ := hb
      simp only [encodeBlock, List.length_append, List.length_singleton, true_iff]
      omega

/-- Ids do not descend along the list (`¬ later < earlier`). -/
def NonDescending (k : IdKind ι μ) (ps : List (Posting ι)) : Prop :=
  ps.Pairwise (fun p q => k.lt q.id p.id = false)

theorem BlockOf.bounded {c : Cfg ι μ} (hk : c.ids.Lawful) (hirr : ∀ x, c.ids.lt x x = false)
    {last : Bool} {ch : List (Posting ι)} {b : DiskBlock ι μ} (h : BlockOf c last ch b)
    (hv : ValuesOk c.fixedsize ch) (hs : NonDescending c.ids ch) :
    ∀ es, blockEntries c.ids c.fixedsize b = .ok es → ∀ e ∈ es, c.ids.lt b.info.lastId e.id = false := by
  obtain ⟨lp, hl, rfl⟩ := h
  intro es hes e he
  rw [blockEntries_encode c hk last ch lp.id hv] at hes
  cases hes
  simp only [List.mem_map] at he
  obtain ⟨p, hp, rfl⟩ := he
  obtain ⟨ys, rfl⟩ := List.getLast?_eq_some_iff.mp hl
  simp only [encodeBlock, expected]
  simp only [List.mem_append, List.mem_singleton] at hp
  rcases hp with hp | rfl
  · exact (List.pairwise_append.mp hs).2.2 p hp lp (by simp)
  · exact hirr _

theorem BlocksOf.bounded {c : Cfg ι μ} (hk : c.ids.Lawful) (hirr : ∀ x, c.ids.lt x x = false)
    {chs bs} (h : BlocksOf c chs bs) (hv : ∀ ch ∈ chs, ValuesOk c.fixedsize ch)
    (hs : ∀ ch ∈ chs, NonDescending c.ids ch) : BoundedByLastId c.ids c.fixedsize bs := by
  induction h with
  | nil => intro b hb; simp at hb
  | cons hb _ ih =>
    intro x hx
    simp only [List.mem_cons] at hx
    rcases hx with rfl | hx
    · exact hb.bounded hk hirr (hv _ (by simp)) (hs _ (by simp))
    · exact ih (fun ch hch => hv ch (by simp [hch])) (fun ch hch => hs ch (by simp [hch])) x hx

theorem split_mem {α : Type} (bl : Nat) (ps : List α) :
    (∀ ch ∈ (split bl ps).1, ∀ p ∈ ch, p ∈ ps) ∧ (∀ p ∈ (split bl ps).2, p ∈ ps) := by
  have := split_flatten bl ps
  constructor
  · intro ch hch p hp
    rw [← this]
    exact List.mem_append_left _ (List.mem_flatten.mpr ⟨ch, hch, hp⟩)
  · intro p hp
    rw [← this]
    exact List.mem_append_right _ hp

theorem split_nonDescending (k : IdKind ι μ) (bl : Nat) (ps : List (Posting ι))
    (hs : NonDescending k ps) :
    (∀ ch ∈ (split bl ps).1, NonDescending k ch) ∧ NonDescending k (split bl ps).2 := by
  have := split_flatten bl ps
  unfold NonDescending at hs
  rw [← this] at hs
  have h2 := List.pairwise_append.mp hs
  exact ⟨fun ch hch => (List.pairwise_flatten.mp h2.1).1 ch hch, h2.2.1⟩
