import WM.Lemmas.IndexLive
/-! Effect of the writer's calls on the live documents: `delete_by_query`, `add_document`, schema
changes. -/
namespace WM.Index
open WM.Dict

/-! ### doc numbers in `liveGlobal` are strictly ascending -/

theorem zipIdx_pairwise {α} (l : List α) (k : Nat) : (l.zipIdx k).Pairwise (fun a b => a.2 < b.2) := by
  induction l generalizing k with
  | nil => simp
  | cons a r ih =>
    rw [List.zipIdx_cons, List.pairwise_cons]
    refine ⟨?_, ih (k + 1)⟩
    intro b hb
    have := List.mem_zipIdx (x := b.1) (i := b.2) hb
    simp; omega

theorem liveIdx_pairwise (s : Seg) : s.liveIdx.Pairwise (fun a b => a.2 < b.2) :=
  (zipIdx_pairwise s.docs 0).filter _

theorem liveGlobal_pairwise (segs : List Seg) (base : Nat) :
    (liveGlobal segs base).Pairwise (fun a b => a.2 < b.2) := by
  induction segs generalizing base with
  | nil => simp [liveGlobal]
  | cons s r ih =>
    simp only [liveGlobal, List.pairwise_append]
    refine ⟨?_, ih _, ?_⟩
    · rw [List.pairwise_map]
      exact (liveIdx_pairwise s).imp (by intro a b h; simp; omega)
    · intro a ha b hb
      simp only [List.mem_map] at ha
      obtain ⟨q, hq, rfl⟩ := ha
      have h1 := liveIdx_lt s q hq
      have h2 := liveGlobal_ge r _ b hb
      simp; omega

theorem pairwise_lt_inj {α} (f : α → Nat) (l : List α) (h : l.Pairwise (fun a b => f a < f b))
    (a b : α) (ha : a ∈ l) (hb : b ∈ l) (hab : f a = f b) : a = b := by
  induction l with
  | nil => simp at ha
  | cons x r ih =>
    rw [List.pairwise_cons] at h
    simp only [List.mem_cons] at ha hb
    rcases ha with rfl | ha <;> rcases hb with rfl | hb
    · rfl
    · have := h.1 b hb; omega
    · have := h.1 a ha; omega
    · exact ih h.2 ha hb

theorem liveGlobal_inj (segs : List Seg) (base : Nat) (a b : DocRec × Nat)
    (ha : a ∈ liveGlobal segs base) (hb : b ∈ liveGlobal segs base) (h : a.2 = b.2) : a = b :=
  pairwise_lt_inj (·.2) _ (liveGlobal_pairwise segs base) a b ha hb h

/-! ### frame: what `delete_document` never touches -/

structure Frame (w w' : Writer) : Prop where
  schema : w'.schema = w.schema
  gen : w'.gen = w.gen
  ndocs : w'.ndocs = w.ndocs
  pool : w'.pool = w.pool
  added : w'.added = w.added
  counts : w'.segs.map Seg.docCountAll = w.segs.map Seg.docCountAll
  docs : w'.segs.map Seg.docs = w.segs.map Seg.docs
  posts : w'.segs.map Seg.posts = w.segs.map Seg.posts

theorem Frame.refl (w : Writer) : Frame w w := ⟨rfl, rfl, rfl, rfl, rfl, rfl, rfl, rfl⟩

theorem Frame.trans {a b c : Writer} (h1 : Frame a b) (h2 : Frame b c) : Frame a c :=
  ⟨h2.schema.trans h1.schema, h2.gen.trans h1.gen, h2.ndocs.trans h1.ndocs, h2.pool.trans h1.pool,
   h2.added.trans h1.added, h2.counts.trans h1.counts, h2.docs.trans h1.docs, h2.posts.trans h1.posts⟩

theorem Frame.total {w w' : Writer} (h : Frame w w') : docCountAllSegs w'.segs = docCountAllSegs w.segs := by
  simp [docCountAllSegs, h.counts]

theorem Writer.deleteDocument_ok (w : Writer) (n : Nat) (h : n < docCountAllSegs w.segs) :
    ∃ w', w.deleteDocument n true = .ok w' ∧ Frame w w' ∧
      liveGlobal w'.segs 0 = (liveGlobal w.segs 0).filter (fun p => p.2 != n) := by
  obtain ⟨w', h1, a, b, c, d, e, f, g, i, j⟩ := Writer.deleteDocument_spec w n h
  exact ⟨w', h1, ⟨a, b, c, d, e, f, g, i⟩, j⟩

/-- Deleting a list of valid numbers removes exactly those documents. -/
theorem Writer.deleteMany_ok (w : Writer) (ns : List Nat) (h : ∀ n ∈ ns, n < docCountAllSegs w.segs) :
    ∃ w', w.deleteMany ns = .ok w' ∧ Frame w w' ∧
      liveGlobal w'.segs 0 = (liveGlobal w.segs 0).filter (fun p => !ns.contains p.2) := by
  induction ns generalizing w with
  | nil => exact ⟨w, rfl, Frame.refl w, by symm; rw [List.filter_eq_self]; intro a _; simp⟩
  | cons n r ih =>
    obtain ⟨w1, h1, f1, l1⟩ := Writer.deleteDocument_ok w n (h n (by simp))
    obtain ⟨w2, h2, f2, l2⟩ := ih w1 (by intro m hm; rw [f1.total]; exact h m (by simp [hm]))
    refine ⟨w2, ?_, f1.trans f2, ?_⟩
    · simp only [Writer.deleteMany, List.foldlM_cons, h1] at h2 ⊢
      exact h2
    · rw [l2, l1, List.filter_filter]
      apply List.filter_congr
      intro p _
      by_cases hp : p.2 = n
      · simp [hp]
      · have : (p.2 != n) = true := by simpa using hp
        simp [this, hp]

/-! ### `docs_for_query` -/

theorem docsForQuery_pred (sc : Schema) (p : DocRec → Bool) (segs : List Seg) (base : Nat) :
    docsForQuery sc (.pred p) segs base
      = ((liveGlobal segs base).filter (fun q => p (restrict sc q.1))).map (·.2) := by
  induction segs generalizing base with
  | nil => simp [docsForQuery, liveGlobal]
  | cons s r ih =>
    simp only [docsForQuery, liveGlobal, List.filter_append, List.map_append, ih, Seg.docsFor]
    congr 1
    rw [List.filter_map, List.map_map, List.map_map]
    rfl

/-- `delete_by_query(q)` for a query denoting predicate `p`: succeeds, returns the number of live
    matches and removes exactly the live matches. -/
theorem Writer.deleteByQuery_pred (w : Writer) (p : DocRec → Bool) :
    ∃ w', w.deleteByQuery (.pred p) = .ok (w', ((contentOf w.schema w.segs).filter p).length) ∧ Frame w w' ∧
      liveGlobal w'.segs 0 = (liveGlobal w.segs 0).filter (fun q => !p (restrict w.schema q.1)) := by
  have hds := docsForQuery_pred w.schema p w.segs 0
  obtain ⟨w', h1, f1, l1⟩ := Writer.deleteMany_ok w (docsForQuery w.schema (.pred p) w.segs 0) (by
    intro n hn
    rw [hds] at hn
    simp only [List.mem_map, List.mem_filter] at hn
    obtain ⟨q, ⟨hq, _⟩, rfl⟩ := hn
    have := liveGlobal_lt w.segs 0 q hq
    omega)
  refine ⟨w', ?_, f1, ?_⟩
  · simp only [Writer.deleteByQuery, h1, Except.map]
    congr 2
    rw [hds, contentOf_eq_liveGlobal w.schema w.segs 0, List.filter_map, List.length_map, List.length_map]
    rfl
  · rw [l1]
    apply List.filter_congr
    intro q hq
    congr 1
    rw [hds]
    by_cases hp : p (restrict w.schema q.1) = true
    · rw [hp]
      rw [List.contains_iff_mem]
      exact List.mem_map.mpr ⟨q, List.mem_filter.mpr ⟨hq, hp⟩, rfl⟩
    · have hp' : p (restrict w.schema q.1) = false := by simpa using hp
      rw [hp']
      apply Bool.eq_false_iff.mpr
      rw [Ne, List.contains_iff_mem]
      intro hmem
      obtain ⟨q', hq', heq⟩ := List.mem_map.mp hmem
      obtain ⟨hq'1, hq'2⟩ := List.mem_filter.mp hq'
      have := liveGlobal_inj w.segs 0 q' q hq'1 hq heq
      subst this
      exact hp hq'2

end WM.Index
