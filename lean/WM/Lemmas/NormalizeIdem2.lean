import WM.Lemmas.NormalizeIdem1
/-! Idempotence of `normalize`, part 2: clause lists on which the merge loop and the de-duplication
    pass do nothing, and the fact that their outputs are such lists. -/
namespace WM.Normalize
open WM.Sat WM.Clean

/-- `everyfields` after a whole pass over `l`. -/
def efFinal (ef : List (Option Field)) : List Q → List (Option Field)
  | [] => ef
  | q :: rest => efFinal (efNext q ef) rest

/-- The merge loop has nothing to do on `l` (started with `everyfields = ef`). -/
def stable (ef : List (Option Field)) : List Q → Bool
  | [] => true
  | q :: rest =>
    !ef.contains q.field
      && (match q.asRange with
          | some r => r.proper && (popOverlap r rest).isNone
          | none => true)
      && stable (efNext q ef) rest

/-- The de-duplication pass has nothing to do on `l`. -/
def dstable (ef : List (Option Field)) : List Q → List Q → Bool
  | _, [] => true
  | seen, s :: rest =>
    !(!s.isEvery && ef.contains s.field) && !seen.contains s && dstable ef (s :: seen) rest

theorem mergeLoop_of_stable (i : Bool) : ∀ (l : List Q) (ef : List (Option Field)),
    stable ef l = true → mergeLoop i ef l = (l, efFinal ef l)
  | [], ef, _ => by simp [mergeLoop, efFinal]
  | q :: rest, ef, h => by
    simp only [stable, Bool.and_eq_true, Bool.not_eq_true'] at h
    obtain ⟨⟨hc, hr⟩, ht⟩ := h
    have ih := mergeLoop_of_stable i rest (efNext q ef) ht
    unfold mergeLoop
    simp only [hc, Bool.false_eq_true, ↓reduceIte]
    cases hq : q.asRange with
    | none =>
      change (q :: (mergeLoop i (efNext q ef) rest).1, (mergeLoop i (efNext q ef) rest).2) = _
      rw [ih]
      rfl
    | some r =>
      simp only [hq, Bool.and_eq_true, Option.isNone_iff_eq_none] at hr
      have hab : absorb i r rest = (r, rest) := absorb_of_none hr.2
      have hn : r.normalize = q := by rw [Rng.normalize_of_proper hr.1, asRange_some hq]
      change ((absorb i r rest).1.normalize ::
          (mergeLoop i (efNext (absorb i r rest).1.normalize ef) (absorb i r rest).2).1,
        (mergeLoop i (efNext (absorb i r rest).1.normalize ef) (absorb i r rest).2).2) = _
      rw [hab]
      simp only [hn]
      rw [ih]
      rfl

theorem dedupe_of_dstable (ef : List (Option Field)) : ∀ (l seen : List Q),
    dstable ef seen l = true → dedupe ef seen l = l
  | [], _, _ => rfl
  | s :: rest, seen, h => by
    simp only [dstable, Bool.and_eq_true, Bool.not_eq_true'] at h
    obtain ⟨⟨h1, h2⟩, h3⟩ := h
    unfold dedupe
    rw [if_neg (by rw [h1]; simp), if_neg (by rw [h2]; simp), dedupe_of_dstable ef rest (s :: seen) h3]

/-! ### Monotonicity under removing clauses -/

theorem mem_efNext_of_mem {o : Option Field} {q : Q} {ef : List (Option Field)} (h : o ∈ ef) :
    o ∈ efNext q ef := by
  cases q <;> simp only [efNext] <;> first | exact h | exact List.mem_cons_of_mem _ h

theorem efNext_mono {q : Q} {ef ef' : List (Option Field)} (h : ∀ o ∈ ef', o ∈ ef) :
    ∀ o ∈ efNext q ef', o ∈ efNext q ef := by
  intro o ho
  cases q <;> simp only [efNext] at ho ⊢ <;> try exact h o ho
  rcases List.mem_cons.mp ho with rfl | ho
  · exact List.mem_cons_self ..
  · exact List.mem_cons_of_mem _ (h o ho)

theorem contains_false_mono {x : Option Field} {ef ef' : List (Option Field)} (h : ∀ o ∈ ef', o ∈ ef)
    (hc : ef.contains x = false) : ef'.contains x = false := by
  rw [Bool.eq_false_iff] at hc ⊢
  intro hc'
  exact hc (by simpa using h x (by simpa using hc'))

theorem popOverlap_none_sublist {r : Rng} {l l' : List Q} (hs : l'.Sublist l) (h : popOverlap r l = none) :
    popOverlap r l' = none :=
  popOverlap_none_iff.mpr fun s hs' => popOverlap_none_iff.mp h s (hs.subset hs')

theorem stable_mono : ∀ {l' l : List Q}, l'.Sublist l → ∀ (ef ef' : List (Option Field)),
    (∀ o ∈ ef', o ∈ ef) → stable ef l = true → stable ef' l' = true
  | _, _, .slnil, _, _, _, _ => rfl
  | _, _, .cons a hs, ef, ef', hsub, h => by
    simp only [stable, Bool.and_eq_true] at h
    exact stable_mono hs (efNext a ef) ef' (fun o ho => mem_efNext_of_mem (hsub o ho)) h.2
  | _, _, .cons₂ a hs, ef, ef', hsub, h => by
    simp only [stable, Bool.and_eq_true, Bool.not_eq_true'] at h ⊢
    obtain ⟨⟨hc, hr⟩, ht⟩ := h
    refine ⟨⟨contains_false_mono hsub hc, ?_⟩, stable_mono hs _ _ (efNext_mono hsub) ht⟩
    cases hq : a.asRange with
    | none => rfl
    | some r =>
      simp only [hq, Bool.and_eq_true, Option.isNone_iff_eq_none] at hr ⊢
      exact ⟨hr.1, popOverlap_none_sublist hs hr.2⟩

theorem dstable_mono : ∀ {l' l : List Q}, l'.Sublist l → ∀ (ef ef' : List (Option Field)) (seen seen' : List Q),
    (∀ o ∈ ef', o ∈ ef) → (∀ x ∈ seen', x ∈ seen) → dstable ef seen l = true → dstable ef' seen' l' = true
  | _, _, .slnil, _, _, _, _, _, _, _ => rfl
  | _, _, .cons a hs, ef, ef', seen, seen', hsub, hseen, h => by
    simp only [dstable, Bool.and_eq_true] at h
    exact dstable_mono hs ef ef' (a :: seen) seen' hsub (fun x hx => List.mem_cons_of_mem _ (hseen x hx)) h.2
  | _, _, .cons₂ a hs, ef, ef', seen, seen', hsub, hseen, h => by
    simp only [dstable, Bool.and_eq_true, Bool.not_eq_true', Bool.and_eq_false_iff] at h ⊢
    obtain ⟨⟨h1, h2⟩, h3⟩ := h
    refine ⟨⟨?_, ?_⟩, dstable_mono hs ef ef' (a :: seen) (a :: seen') hsub ?_ h3⟩
    · rcases h1 with h1 | h1
      · exact Or.inl h1
      · exact Or.inr (contains_false_mono hsub h1)
    · rw [Bool.eq_false_iff] at h2 ⊢
      intro hc
      exact h2 (by simpa using hseen a (by simpa using hc))
    · intro x hx
      rcases List.mem_cons.mp hx with rfl | hx
      · exact List.mem_cons_self ..
      · exact List.mem_cons_of_mem _ (hseen x hx)

theorem dedupe_sublist (ef : List (Option Field)) : ∀ (l seen : List Q), (dedupe ef seen l).Sublist l
  | [], _ => .slnil
  | s :: rest, seen => by
    unfold dedupe
    split
    · exact .cons _ (dedupe_sublist ef rest seen)
    · split
      · exact .cons _ (dedupe_sublist ef rest seen)
      · exact .cons₂ _ (dedupe_sublist ef rest _)

theorem dedupe_dstable (ef : List (Option Field)) : ∀ (l seen : List Q),
    dstable ef seen (dedupe ef seen l) = true
  | [], _ => rfl
  | s :: rest, seen => by
    unfold dedupe
    split
    · exact dedupe_dstable ef rest seen
    · rename_i h1
      split
      · exact dedupe_dstable ef rest seen
      · rename_i h2
        simp only [dstable, Bool.and_eq_true, Bool.not_eq_true']
        exact ⟨⟨by simpa using h1, by simpa using h2⟩, dedupe_dstable ef rest (s :: seen)⟩

theorem efFinal_mem : ∀ (l : List Q) (ef : List (Option Field)) (o : Option Field),
    o ∈ efFinal ef l ↔ o ∈ ef ∨ ∃ b, Q.every o b ∈ l
  | [], ef, o => by simp [efFinal]
  | q :: rest, ef, o => by
    rw [efFinal, efFinal_mem rest (efNext q ef) o]
    constructor
    · rintro (h | ⟨b, hb⟩)
      · cases q <;> simp only [efNext] at h <;> try exact Or.inl h
        rcases List.mem_cons.mp h with rfl | h
        · exact Or.inr ⟨_, List.mem_cons_self ..⟩
        · exact Or.inl h
      · exact Or.inr ⟨b, List.mem_cons_of_mem _ hb⟩
    · rintro (h | ⟨b, hb⟩)
      · exact Or.inl (mem_efNext_of_mem h)
      · rcases List.mem_cons.mp hb with rfl | hb
        · exact Or.inl (by simp [efNext])
        · exact Or.inr ⟨b, hb⟩

theorem efFinal_sublist {l' l : List Q} (hs : l'.Sublist l) (ef : List (Option Field)) :
    ∀ o ∈ efFinal ef l', o ∈ efFinal ef l := by
  intro o ho
  rw [efFinal_mem] at ho ⊢
  rcases ho with h | ⟨b, hb⟩
  · exact Or.inl h
  · exact Or.inr ⟨b, hs.subset hb⟩

end WM.Normalize
