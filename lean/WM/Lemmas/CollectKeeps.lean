import WM.Lemmas.Den
import WM.Model.Collect
/-! Bridge between the C12 contract (`WM.Matcher.Keeps`, what `replace(q)` / `skip_to_quality(q)` may
do to the remaining result list of a matcher) and the wishes of a `Step` of the collector model: every
outcome that `Keeps` allows (for a threshold `q ≠ 0`) is produced by some list of wishes. So the
quantification of `C05.topk` over all schedules covers everything a contract-abiding matcher may do. -/
namespace WM.Collect
open WM.Matcher

/-- The remaining result list of a pending posting list. -/
def denOf (m : List Posting) : Den := m.map fun p => (p.doc, p.score)

theorem keeps_is_wishes (q : Rat) (hq : q ≠ 0) :
    ∀ (m : List Posting) (L' : Den), Asc (denOf m) → Asc L' → Keeps q L' (denOf m) →
      ∃ mask : List Wish, denOf (dropMasked q mask m) = L' := by
  intro m
  induction m with
  | nil =>
    intro L' _ _ hk
    refine ⟨[], ?_⟩
    cases L' with
    | nil => rfl
    | cons x T =>
      obtain ⟨r, hr, _⟩ := hk.dom x (by simp)
      simp [denOf] at hr
  | cons p ps ih =>
    intro L' hasc hasc' hk
    have hL : denOf (p :: ps) = (p.doc, p.score) :: denOf ps := rfl
    rw [hL] at hasc hk
    have hlt : ∀ x ∈ denOf ps, p.doc < x.1 := fun x hx => List.rel_of_pairwise_cons hasc hx
    have hascps : Asc (denOf ps) := List.Pairwise.of_cons hasc
    -- the case where `p` is not in `L'`: dropped
    have dropCase : (∀ x ∈ L', x.1 ≠ p.doc) → ∃ mask : List Wish, denOf (dropMasked q mask (p :: ps)) = L' := by
      intro hno
      have hle : p.score ≤ q := by
        apply Decidable.byContradiction
        intro hgt
        have hgt' : q < p.score := by grind
        have : (p.doc, p.score) ∈ hi q L' := by
          rw [hk.hi_eq]; simp [hi, hgt']
        have := (List.mem_filter.mp this).1
        exact hno _ this rfl
      have hk' : Keeps q L' (denOf ps) := by
        constructor
        · rw [hk.hi_eq]
          have : ¬ q < p.score := by grind
          simp [hi, this]
        · intro x hx
          obtain ⟨r, hr, hxr⟩ := hk.dom x hx
          rcases List.mem_cons.mp hr with h | h
          · exact absurd (by simpa using (Prod.mk.inj h).1) (hno x hx)
          · exact ⟨r, h, hxr⟩
      obtain ⟨mask, hm⟩ := ih L' hascps hasc' hk'
      refine ⟨.drop :: mask, ?_⟩
      simp [dropMasked, hq, hle, hm]
    cases L' with
    | nil => exact dropCase (by simp)
    | cons x T =>
      by_cases hx : x.1 = p.doc
      · -- `p` is still there, intact or with a lower score
        have hT : ∀ y ∈ T, x.1 < y.1 := fun y hy => List.rel_of_pairwise_cons hasc' hy
        have hascT : Asc T := List.Pairwise.of_cons hasc'
        obtain ⟨r, hr, hxr⟩ := hk.dom x (by simp)
        have hrp : r = p.score := by
          rcases List.mem_cons.mp hr with h | h
          · exact (Prod.mk.inj h).2
          · have := hlt _ h; simp at this; omega
        subst hrp
        have hdomT : Dominated T (denOf ps) := by
          intro y hy
          obtain ⟨r, hr, hyr⟩ := hk.dom y (List.mem_cons_of_mem _ hy)
          rcases List.mem_cons.mp hr with h | h
          · have := hT y hy
            have := (Prod.mk.inj h).1
            omega
          · exact ⟨r, h, hyr⟩
        have hhi := hk.hi_eq
        by_cases hgt : q < p.score
        · -- above the threshold: untouched
          have hxs : q < x.2 := by
            apply Decidable.byContradiction
            intro hn
            have h1 : (p.doc, p.score) ∈ hi q (x :: T) := by rw [hhi]; simp [hi, hgt]
            have h2 : (p.doc, p.score) ∈ T := by
              have := List.mem_filter.mp h1
              rcases List.mem_cons.mp this.1 with h | h
              · rw [← h] at hn; exact absurd hgt hn
              · exact h
            have := hT _ h2
            simp at this; omega
          have hxeq : x = (p.doc, p.score) ∧ hi q T = hi q (denOf ps) := by
            simp only [hi, List.filter_cons, hxs, hgt, decide_true, if_true] at hhi
            exact ⟨(List.cons.inj hhi).1, (List.cons.inj hhi).2⟩
          obtain ⟨mask, hm⟩ := ih T hascps hascT ⟨hxeq.2, hdomT⟩
          refine ⟨.keep :: mask, ?_⟩
          have hnle : ¬ p.score ≤ q := by grind
          simp [dropMasked, hnle, denOf] at hm ⊢
          exact ⟨hxeq.1.symm, hm⟩
        · -- at or below the threshold: possibly lowered
          have hle : p.score ≤ q := by grind
          have hxs : ¬ q < x.2 := by grind
          have hhiT : hi q T = hi q (denOf ps) := by
            simpa [hi, List.filter_cons, hxs, hgt] using hhi
          obtain ⟨mask, hm⟩ := ih T hascps hascT ⟨hhiT, hdomT⟩
          refine ⟨.lower x.2 :: mask, ?_⟩
          simp [dropMasked, hq, hle, hxr, denOf] at hm ⊢
          exact ⟨by rw [← hx], hm⟩
      · apply dropCase
        intro y hy
        have hxin : p.doc < x.1 := by
          obtain ⟨r, hr, _⟩ := hk.dom x (by simp)
          rcases List.mem_cons.mp hr with h | h
          · exact absurd (Prod.mk.inj h).1 hx
          · exact hlt (x.1, r) h
        rcases List.mem_cons.mp hy with rfl | hy
        · omega
        · have := List.rel_of_pairwise_cons hasc' hy
          omega

end WM.Collect
