import WM.Lemmas.FaithfulMulti
import WM.Lemmas.Quality
/-! The quality contract (C12) of `MultiMatcher` over sub-matchers that satisfy it. -/
namespace WM.Matcher

theorem hi_append (q : Rat) (L M : Den) : hi q (L ++ M) = hi q L ++ hi q M := by
  simp [hi, List.filter_append]

theorem hi_shift (q : Rat) (o : Nat) (L : Den) : hi q (shift o L) = shift o (hi q L) := by
  induction L with
  | nil => rfl
  | cons p L ih =>
    simp only [shift, hi, List.map_cons, List.filter_cons] at ih ⊢
    by_cases hp : q < p.2
    · simp [hp, ih]
    · simp [hp, ih]

theorem Dominated.shift {o : Nat} {L' L : Den} (h : Dominated L' L) : Dominated (shift o L') (shift o L) := fun p hp => by
  obtain ⟨p', hp', rfl⟩ := List.mem_map.1 hp
  obtain ⟨r, hr, hle⟩ := h p' hp'
  exact ⟨r, List.mem_map.2 ⟨(p'.1, r), hr, rfl⟩, hle⟩

theorem Dominated.append {A' A B' B : Den} (h₁ : Dominated A' A) (h₂ : Dominated B' B) :
    Dominated (A' ++ B') (A ++ B) := fun p hp => by
  rcases List.mem_append.1 hp with hp | hp
  · obtain ⟨r, hr, hle⟩ := h₁ p hp
    exact ⟨r, List.mem_append_left _ hr, hle⟩
  · obtain ⟨r, hr, hle⟩ := h₂ p hp
    exact ⟨r, List.mem_append_right _ hr, hle⟩

theorem Keeps.shift {q : Rat} {o : Nat} {L' L : Den} (h : Keeps q L' L) : Keeps q (shift o L') (shift o L) :=
  ⟨by rw [hi_shift, hi_shift, h.hi_eq], h.dom.shift⟩

theorem Keeps.append {q : Rat} {A' A B' B : Den} (h₁ : Keeps q A' A) (h₂ : Keeps q B' B) :
    Keeps q (A' ++ B') (A ++ B) :=
  ⟨by rw [hi_append, hi_append, h₁.hi_eq, h₂.hi_eq], h₁.dom.append h₂.dom⟩

theorem boundedBy_shift {q : Rat} {o : Nat} {L : Den} (h : BoundedBy q L) : BoundedBy q (shift o L) := fun p hp => by
  obtain ⟨p', hp', rfl⟩ := List.mem_map.1 hp
  exact h p' hp'

theorem nonNeg_shift {o : Nat} {L : Den} (h : NonNegDen L) : NonNegDen (shift o L) := fun p hp => by
  obtain ⟨p', hp', rfl⟩ := List.mem_map.1 hp
  exact h p' hp'

namespace Multi
variable {α : Type} {A : Ops α} {dA fA : α → Den} {WQ W0 : α → Prop}

theorem WF.mono {WA WB : α → Prop} (hw : ∀ a, WA a → WB a) {m : Multi α} (h : WF A dA fA WA m) : WF A dA fA WB m :=
  ⟨fun s hs => hw _ (h.child s hs), h.sub, h.asc, h.act⟩

theorem nonNeg_denOf {l : List (α × Nat)} (h : ∀ s ∈ l, NonNegDen (dA s.1)) : NonNegDen (denOf dA l) := by
  induction l with
  | nil => intro p hp; cases hp
  | cons s ss ih =>
    intro p hp
    rcases List.mem_append.1 hp with hp | hp
    · exact nonNeg_shift (h s List.mem_cons_self) p hp
    · exact ih (fun s' hs' => h s' (List.mem_cons_of_mem _ hs')) p hp

section Main
variable (QA : QFaithful A dA fA WQ W0)
include QA

/-- `max(mr.max_quality() for mr in matchers[current:])` bounds everything that is left -/
theorem maxOf_spec : ∀ l : List (α × Nat), l ≠ [] → (∀ s ∈ l, W0 s.1) →
    ∃ q, maxOf A l = .ok q ∧ BoundedBy q (denOf dA l) ∧ 0 ≤ q
  | [], h, _ => absurd rfl h
  | [s], _, hw => by
    obtain ⟨q, h1, h2⟩ := QA.max s.1 (hw s List.mem_cons_self)
    refine ⟨q, h1, ?_, QA.maxNonneg _ _ (hw s List.mem_cons_self) h1⟩
    show BoundedBy q (shift s.2 (dA s.1) ++ [])
    rw [List.append_nil]; exact boundedBy_shift h2
  | s :: s' :: ss, _, hw => by
    obtain ⟨a, h1, h2⟩ := QA.max s.1 (hw s List.mem_cons_self)
    obtain ⟨b, k1, k2, k3⟩ := maxOf_spec (s' :: ss) (by simp) fun x hx => hw x (List.mem_cons_of_mem _ hx)
    refine ⟨max a b, by simp [maxOf, h1, k1, bind, Except.bind]; rfl, ?_, ?_⟩
    · intro p hp
      rcases List.mem_append.1 hp with hp | hp
      · exact Rat.le_trans (boundedBy_shift h2 p hp) (by grind)
      · exact Rat.le_trans (k2 p hp) (by grind)
    · exact Rat.le_trans k3 (by grind)

theorem skipQLoop_spec (q : Rat) : ∀ (n : Nat) (m : Multi α) (k : Nat), WF A dA fA WQ m → m.segs.length - m.cur < n →
    ∃ m' k', skipQLoop A q n m k = .ok (m', k') ∧ WF A dA fA WQ m' ∧ Keeps q (den dA m') (den dA m) ∧
      rem A m' ≤ rem A m ∧ (den dA m' ≠ den dA m → rem A m' < rem A m) ∧ full fA m' = full fA m
  | 0, m, _, _, hn => by omega
  | n + 1, m, k, h, hn => by
    unfold skipQLoop
    cases hs : m.segs[m.cur]? with
    | none => exact ⟨m, k, rfl, h, Keeps.refl _ _, Nat.le_refl _, fun h0 => absurd rfl h0, rfl⟩
    | some s =>
      have hmem : s ∈ m.segs := List.mem_of_getElem? hs
      have hne : dA s.1 ≠ [] := (QA.curQ.active s.1 (h.child s hmem)).1 (h.act s hs)
      obtain ⟨c, j, c1, c2, c3, c4, c5, c6⟩ := QA.skipQ s.1 q (h.child s hmem) hne
      have hsub : IdSub (dA c) (fA c) := by
        rw [c6]; exact (IdSub.of_dominated c3.dom).trans (h.sub s hmem)
      obtain ⟨g1, g2, g3, g4, g5, g6, g7⟩ := settle_spec QA.curQ h hs c2 hsub c6
      simp only [c1, bind, Except.bind]
      by_cases ha : A.isActive c = true
      · simp only [ha, ↓reduceIte]
        refine ⟨_, _, rfl, g1, ?_, by omega, ?_, g3⟩
        · rw [g2, den_of_get hs]
          exact Keeps.append c3.shift (Keeps.refl _ _)
        · intro hdne
          have : dA c ≠ dA s.1 := by
            intro he
            apply hdne
            rw [g2, he, den_of_get hs]
          have := c5 this
          omega
      · simp only [ha, Bool.false_eq_true, ↓reduceIte]
        have hcnil : dA c = [] := (QA.curQ.inactive c2).1 (by simpa using ha)
        have hlt : A.rem c < A.rem s.1 := c5 (by rw [hcnil]; exact fun h1 => hne h1.symm)
        obtain ⟨m', k', k1, k2, k3, k4, k5, k6⟩ := skipQLoop_spec q n (settle A m c s.2) (k + j) g1
          (by have := g7 (by simpa using ha); have := (List.getElem?_eq_some_iff.1 hs).1; omega)
        refine ⟨m', k', k1, k2, ?_, by omega, fun _ => by omega, k6.trans g3⟩
        refine k3.trans ?_
        rw [g2, den_of_get hs]
        exact Keeps.append c3.shift (Keeps.refl _ _)

theorem qfaithful : QFaithful (ops A) (den dA) (full fA) (WF A dA fA WQ) (WF A dA fA W0) where
  toW0 _ h := h.mono QA.toW0
  cur0 := faithful QA.cur0
  curQ := faithful QA.curQ
  nn m h := by
    intro p hp
    have hp' : p ∈ denOf dA m.segs := (denOf_drop_sublist dA m.segs m.cur).subset hp
    exact nonNeg_denOf (fun s hs => QA.nn s.1 (h.child s hs)) p hp'
  sup m h := by
    show supportsBQ A m = true
    unfold supportsBQ
    rw [List.all_eq_true]
    intro s hs
    exact QA.sup s.1 (h.child s (List.mem_of_mem_drop hs))
  max m h := by
    show ∃ q, maxQuality A m = .ok q ∧ _
    unfold maxQuality
    by_cases ha : isActive m = true
    · simp only [ha, ↓reduceIte]
      have hlt : m.cur < m.segs.length := by simpa [isActive] using ha
      obtain ⟨q, h1, h2, -⟩ := maxOf_spec QA (m.segs.drop m.cur) (by simp; omega)
        fun s hs => h.child s (List.mem_of_mem_drop hs)
      exact ⟨q, h1, h2⟩
    · simp only [ha, Bool.false_eq_true, ↓reduceIte]
      refine ⟨0, rfl, ?_⟩
      have : den dA m = [] := ((faithful QA.cur0).inactive h).1 (by show isActive m = false; simpa using ha)
      rw [this]; intro p hp; cases hp
  maxNonneg m q h hq := by
    change maxQuality A m = .ok q at hq
    unfold maxQuality at hq
    by_cases ha : isActive m = true
    · simp only [ha, ↓reduceIte] at hq
      have hlt : m.cur < m.segs.length := by simpa [isActive] using ha
      obtain ⟨q', h1, -, h3⟩ := maxOf_spec QA (m.segs.drop m.cur) (by simp; omega)
        fun s hs => h.child s (List.mem_of_mem_drop hs)
      rw [h1] at hq; cases hq; exact h3
    · simp only [ha, Bool.false_eq_true, ↓reduceIte] at hq
      cases hq; exact Rat.le_refl
  block m h := by
    show ∃ q, blockQuality A m = .ok q ∧ _
    unfold blockQuality
    cases hs : m.segs[m.cur]? with
    | none =>
      refine ⟨0, rfl, ?_⟩
      intro x r L hd
      rw [den_of_none hs] at hd; cases hd
    | some s =>
      obtain ⟨q, h1, h2⟩ := QA.block s.1 (h.child s (List.mem_of_getElem? hs))
      refine ⟨q, h1, ?_⟩
      intro x r L hd
      obtain ⟨s', x0, L0, hs', h0, -, -⟩ := cur_of_den QA.curQ h hd
      rw [hs] at hs'; cases hs'
      exact h2 x0 r L0 h0
  skipQ m q h hne := by
    obtain ⟨m', k', k1, k2, k3, k4, k5, k6⟩ := skipQLoop_spec QA q (m.segs.length - m.cur + 1) m 0 h (by omega)
    exact ⟨m', k', k1, k2, k3, k4, k5, k6⟩

end Main

end Multi

end WM.Matcher
