import WM.Lemmas.IndexStats
/-! Two layouts of the same content stay two layouts of the same content, whatever the (layout-free)
calls and the merge policies. -/
namespace WM.Index
open WM.Dict

/-- calls that do not mention document numbers -/
def Op.layoutFree : Op → Bool
  | .delDoc _ | .undelDoc _ => false
  | _ => true

theorem step_wf (w : Writer) (hwf : w.WF) (op : Op) : (w.step op).1.WF := by
  cases op with
  | add d =>
    cases h1 : w.addDocument d with
    | ok w' => simp only [Writer.step, h1]; exact Writer.addDocument_wf w d w' hwf h1
    | error e => simp only [Writer.step, h1]; exact hwf
  | update d =>
    cases h1 : w.deleteMany (findUnique w.schema w.segs (uniqTerms w.schema d)) with
    | error e => simp only [Writer.step, Writer.updateDocument, h1]; exact hwf
    | ok w1 =>
      have wf1 := Writer.deleteMany_wf w _ w1 hwf h1
      cases h2 : w1.addDocument d with
      | ok w2 => simp only [Writer.step, Writer.updateDocument, h1, h2]; exact Writer.addDocument_wf w1 d w2 wf1 h2
      | error e => simp only [Writer.step, Writer.updateDocument, h1, h2]; exact wf1
  | delDoc n =>
    cases h1 : w.deleteDocument n true with
    | ok w' => simp only [Writer.step, h1]; exact Writer.deleteDocument_wf w n true w' hwf h1
    | error e => simp only [Writer.step, h1]; exact hwf
  | undelDoc n =>
    cases h1 : w.deleteDocument n false with
    | ok w' => simp only [Writer.step, h1]; exact Writer.deleteDocument_wf w n false w' hwf h1
    | error e => simp only [Writer.step, h1]; exact hwf
  | delBy q =>
    cases h1 : w.deleteMany (docsForQuery w.schema q w.segs 0) with
    | ok w' =>
      simp only [Writer.step, Writer.deleteByQuery, h1, Except.map]
      exact Writer.deleteMany_wf w _ w' hwf h1
    | error e => simp only [Writer.step, Writer.deleteByQuery, h1, Except.map]; exact hwf
  | addField f u =>
    cases h1 : w.addField f u with
    | ok w' => simp only [Writer.step, h1]; exact Writer.addField_wf w f u w' hwf h1
    | error e => simp only [Writer.step, h1]; exact hwf
  | removeField f =>
    cases h1 : w.removeField f with
    | ok w' => simp only [Writer.step, h1]; exact Writer.removeField_wf w f w' hwf h1
    | error e => simp only [Writer.step, h1]; exact hwf

/-- what a layout-free call does to the schema and to `_added`, as a function of these two alone -/
def nextSA (sc : Schema) (added : Bool) : Op → Schema × Bool
  | .add d => (sc, added || d.fits sc)
  | .update d => (sc, added || d.fits sc)
  | .addField f u => if !added && !sc.has f then (sc.add f u, added) else (sc, added)
  | .removeField f => if !added && sc.has f then (sc.remove f, added) else (sc, added)
  | _ => (sc, added)

theorem deleteMany_frame_of_term (w : Writer) (hwf : w.WF) (q : Query) :
    ∃ w', w.deleteMany (docsForQuery w.schema q w.segs 0) = .ok w' ∧ Frame w w' := by
  have hp : ∀ s ∈ w.segs, s.posts.Perm (allPostings s.docs) := fun s hs => (hwf.segs s hs).posts
  cases q with
  | term f t =>
    obtain ⟨w', h1, f1, _⟩ := Writer.deleteMany_ok w _ (docsForQuery_term_lt w.schema f t w.segs hp)
    exact ⟨w', h1, f1⟩
  | pred p =>
    obtain ⟨w', h1, f1, _⟩ := Writer.deleteMany_ok w (docsForQuery w.schema (.pred p) w.segs 0) (by
      intro n hn
      rw [docsForQuery_pred] at hn
      simp only [List.mem_map, List.mem_filter] at hn
      obtain ⟨x, ⟨hx, _⟩, rfl⟩ := hn
      have := liveGlobal_lt w.segs 0 x hx
      omega)
    exact ⟨w', h1, f1⟩

theorem step_nextSA (w : Writer) (hwf : w.WF) (op : Op) (hop : op.layoutFree = true) :
    ((w.step op).1.schema, (w.step op).1.added) = nextSA w.schema w.added op := by
  have hp : ∀ s ∈ w.segs, s.posts.Perm (allPostings s.docs) := fun s hs => (hwf.segs s hs).posts
  cases op with
  | add d =>
    by_cases hf : d.fits w.schema = true
    · simp [Writer.step, Writer.addDocument, hf, nextSA]
    · have hf' : d.fits w.schema = false := by simpa using hf
      simp [Writer.step, Writer.addDocument, hf', nextSA]
  | update d =>
    obtain ⟨w1, h1, f1, _⟩ := Writer.deleteMany_ok w (findUnique w.schema w.segs (uniqTerms w.schema d))
      (findUnique_lt w.schema w.segs _ hp)
    by_cases hf : d.fits w.schema = true
    · have hf1 : d.fits w1.schema = true := by rw [f1.schema]; exact hf
      simp [Writer.step, Writer.updateDocument, h1, Writer.addDocument, hf1, nextSA, hf, f1.schema]
    · have hf' : d.fits w.schema = false := by simpa using hf
      have hf1 : d.fits w1.schema = false := by rw [f1.schema]; exact hf'
      simp [Writer.step, Writer.updateDocument, h1, Writer.addDocument, hf1, nextSA, hf', f1.schema, f1.added]
  | delDoc n => simp [Op.layoutFree] at hop
  | undelDoc n => simp [Op.layoutFree] at hop
  | delBy q =>
    obtain ⟨w', h1, f1⟩ := deleteMany_frame_of_term w hwf q
    simp [Writer.step, Writer.deleteByQuery, h1, Except.map, nextSA, f1.schema, f1.added]
  | addField f u =>
    cases ha : w.added <;> cases hh : w.schema.has f <;> simp [Writer.step, Writer.addField, nextSA, ha, hh]
  | removeField f =>
    cases ha : w.added <;> cases hh : w.schema.has f <;> simp [Writer.step, Writer.removeField, nextSA, ha, hh]

theorem specOp_layoutFree (w1 w2 : Writer) (hs : w1.schema = w2.schema) (ha : w1.added = w2.added) (op : Op)
    (hop : op.layoutFree = true) : w1.specOp op = w2.specOp op := by
  cases op with
  | delDoc n => simp [Op.layoutFree] at hop
  | undelDoc n => simp [Op.layoutFree] at hop
  | delBy q => cases q <;> rfl
  | add d => simp [Writer.specOp, hs]
  | update d => simp [Writer.specOp, hs]
  | addField f u => simp [Writer.specOp, hs, ha]
  | removeField f => simp [Writer.specOp, hs, ha]

/-- the specification run of layout-free calls does not depend on the layout the writer sees -/
theorem specOps_layoutFree (ops : List Op) (w1 w2 : Writer) (h1 : w1.WF) (h2 : w2.WF) (hs : w1.schema = w2.schema)
    (ha : w1.added = w2.added) (hops : ∀ op ∈ ops, op.layoutFree = true) : w1.specOps ops = w2.specOps ops := by
  induction ops generalizing w1 w2 with
  | nil => rfl
  | cons o r ih =>
    have ho := hops o (by simp)
    simp only [Writer.specOps]
    rw [specOp_layoutFree w1 w2 hs ha o ho]
    have e1 := step_nextSA w1 h1 o ho
    have e2 := step_nextSA w2 h2 o ho
    rw [hs, ha] at e1
    have e := e1.trans e2.symm
    simp only [Prod.mk.injEq] at e
    rw [ih (w1.step o).1 (w2.step o).1 (step_wf w1 h1 o) (step_wf w2 h2 o) e.1 e.2 (fun op hop => hops op (by simp [hop]))]

/-- One session on two layouts of the same content: whatever the (layout-free) calls and whatever
    the two merge policies, the results are again two layouts of one and the same content. -/
theorem layout_session (t1 t2 : Toc) (sp : State) (h1 : t1.WF) (h2 : t2.WF) (r1 : Rel t1 sp) (r2 : Rel t2 sp)
    (ops : List Op) (hfree : ∀ op ∈ ops, op.layoutFree = true) (e1 e2 : Ending) (se : SEnd)
    (he1 : EndRel e1 se) (he2 : EndRel e2 se)
    (hok1 : RunOK t1.writer sp.open_ ops) (hok2 : RunOK t2.writer sp.open_ ops) :
    ∃ t1' t2' sp', t1.session ops e1 = .ok t1' ∧ t2.session ops e2 = .ok t2' ∧ t1'.WF ∧ t2'.WF ∧
      Rel t1' sp' ∧ Rel t2' sp' := by
  obtain ⟨t1', s1, w1, rel1⟩ := session_sim t1 sp h1 r1 ops e1 se he1 hok1
  obtain ⟨t2', s2, w2, rel2⟩ := session_sim t2 sp h2 r2 ops e2 se he2 hok2
  have hs : t1.writer.specOps ops = t2.writer.specOps ops :=
    specOps_layoutFree ops t1.writer t2.writer (Toc.writer_wf t1 h1) (Toc.writer_wf t2 h2)
      (by simp [Toc.writer, ← r1.schema, ← r2.schema]) rfl hfree
  rw [← hs] at rel2
  exact ⟨t1', t2', _, s1, s2, w1, w2, rel1, rel2⟩

end WM.Index
