import WM.Model.MatcherTree
import WM.Lemmas.Den
/-!
`Faithful O den full WF`: the operation table `O` over states `σ` is a faithful forward cursor over
the result list `den s` for every well-formed state (`WF s`).  This is the per-node content of
C11; each matcher functor is shown to preserve it.
-/
namespace WM.Matcher

/-- The cursor contract (C11) of an operation table, relative to a meaning function `den`, the
    complete list `full` (what `reset` returns to) and a well-formedness invariant `WF`. -/
structure Faithful {σ : Type} (O : Ops σ) (den full : σ → Den) (WF : σ → Prop) : Prop where
  asc : ∀ s, WF s → Asc (den s)
  active : ∀ s, WF s → (O.isActive s = true ↔ den s ≠ [])
  id : ∀ s x r L, WF s → den s = (x, r) :: L → O.id s = .ok x
  score : ∀ s x r L, WF s → den s = (x, r) :: L → O.score s = .ok r
  next : ∀ s x r L, WF s → den s = (x, r) :: L →
    ∃ s', O.next s = .ok s' ∧ WF s' ∧ den s' = L ∧ O.rem s' < O.rem s ∧ full s' = full s
  skipTo : ∀ s t, WF s → den s ≠ [] →
    ∃ s', O.skipTo s t = .ok s' ∧ WF s' ∧ den s' = dropBelow t (den s) ∧ O.rem s' ≤ O.rem s ∧
      (den s' ≠ den s → O.rem s' < O.rem s) ∧ full s' = full s
  reset : ∀ s, WF s → ∃ s', O.reset s = .ok s' ∧ WF s' ∧ den s' = full s ∧ full s' = full s

namespace Faithful
variable {σ : Type} {O : Ops σ} {den full : σ → Den} {WF : σ → Prop}

theorem inactive (F : Faithful O den full WF) {s : σ} (h : WF s) :
    O.isActive s = false ↔ den s = [] := by
  have := F.active s h
  constructor
  · intro hf
    cases hd : den s with
    | nil => rfl
    | cons p L =>
      have h2 := this.2 (by simp [hd])
      rw [h2] at hf; cases hf
  · intro he
    cases hA : O.isActive s with
    | false => rfl
    | true => exact absurd he (this.1 hA)

/-- every key of the remaining list is at least the current id -/
theorem head_le {L : Den} {x : Nat} {r : Rat} {M : Den} (hL : Asc L) (h : L = (x, r) :: M) :
    ∀ p ∈ L, x ≤ p.1 := by
  subst h
  intro p hp
  rcases List.mem_cons.1 hp with rfl | hp
  · exact Nat.le_refl _
  · exact Nat.le_of_lt (hL.head_lt p hp)

end Faithful

/-! ## NullMatcher -/

theorem null_faithful : Faithful nullOps (fun _ => []) (fun _ => []) (fun _ => True) where
  asc _ _ := asc_nil
  active _ _ := by simp [nullOps]
  id _ _ _ _ _ h := by cases h
  score _ _ _ _ _ h := by cases h
  next _ _ _ _ _ h := by cases h
  skipTo _ _ _ h := absurd rfl h
  reset _ _ := ⟨(), rfl, trivial, rfl, rfl⟩

/-! ## ListMatcher -/

namespace ListM

/-- ids strictly ascending, one weight per id -/
def WF (m : ListM) : Prop := m.ids.Pairwise (· < ·) ∧ m.weights.length = m.ids.length

theorem asc_zip {ids : List Nat} {ws : List Rat} (h : ids.Pairwise (· < ·)) : Asc (ids.zip ws) := by
  induction ids generalizing ws with
  | nil => simp
  | cons x xs ih =>
    cases ws with
    | nil => simp
    | cons w ws =>
      rw [List.zip_cons_cons]
      refine asc_cons.2 ⟨?_, ih (List.Pairwise.of_cons h)⟩
      intro q hq
      have := (List.of_mem_zip hq).1
      exact List.rel_of_pairwise_cons h this

theorem asc_full {m : ListM} (h : m.WF) : Asc m.full := asc_zip h.1

theorem asc_den {m : ListM} (h : m.WF) : Asc m.den :=
  asc_sublist (List.drop_sublist _ _) (asc_full h)

theorem den_eq_nil_iff {m : ListM} (h : m.WF) : m.den = [] ↔ m.ids.length ≤ m.i := by
  simp [den, full, List.drop_eq_nil_iff, List.length_zip, h.2]

theorem den_cons {m : ListM} {x : Nat} {r : Rat} {L : Den} (h : m.den = (x, r) :: L) :
    m.ids[m.i]? = some x ∧ m.weights[m.i]? = some r ∧ L = (m.full.drop (m.i + 1)) := by
  have h0 : (m.ids.zip m.weights)[m.i]? = some (x, r) := by
    have := congrArg List.head? h
    simpa [den, full, List.head?_drop] using this
  rw [List.getElem?_zip_eq_some] at h0
  refine ⟨h0.1, h0.2, ?_⟩
  have := congrArg List.tail h
  simp only [den, List.tail_drop, List.tail_cons] at this
  exact this.symm

theorem drop_zip {α β} (l : List α) (l' : List β) (i : Nat) :
    (l.zip l').drop i = (l.drop i).zip (l'.drop i) := by
  simp [List.zip, List.drop_zipWith]

theorem skipCount_spec (t : Nat) (ids : List Nat) (ws : List Rat) (hl : ws.length = ids.length) :
    (ids.zip ws).drop (skipCount t ids) = dropBelow t (ids.zip ws) := by
  induction ids generalizing ws with
  | nil => simp [skipCount]
  | cons x xs ih =>
    cases ws with
    | nil => simp at hl
    | cons w ws =>
      rw [List.zip_cons_cons, dropBelow_cons, skipCount]
      by_cases hx : x < t
      · simp only [hx, ↓reduceIte, List.drop_succ_cons]
        exact ih ws (by simpa using hl)
      · simp [hx]

theorem faithful : Faithful ops den full WF where
  asc _ h := asc_den h
  active m h := by
    show m.isActive = true ↔ _
    rw [Ne, den_eq_nil_iff h]
    simp [isActive]
  id m x r L _ hd := by
    show m.id = _
    simp [id, (den_cons hd).1]
  score m x r L h hd := by
    show m.score = _
    obtain ⟨_, h2, _⟩ := den_cons hd
    unfold score
    cases hw : m.weights with
    | nil => simp [hw] at h2
    | cons w ws => simp only [← hw, h2]
  next m x r L h hd := by
    refine ⟨{ m with i := m.i + 1 }, rfl, h, ?_, ?_, rfl⟩
    · exact (den_cons hd).2.2.symm
    · have : ¬ m.ids.length ≤ m.i := by
        intro hle
        have := (den_eq_nil_iff h).2 hle
        rw [hd] at this; cases this
      show m.ids.length - (m.i + 1) < m.ids.length - m.i
      omega
  skipTo m t h hne := by
    have hact : m.isActive = true := by
      have := (not_congr (den_eq_nil_iff h)).1 hne
      simp [isActive]; omega
    have hden : ({ m with i := m.i + skipCount t (m.ids.drop m.i) } : ListM).den = dropBelow t m.den := by
      show (m.ids.zip m.weights).drop (m.i + skipCount t (m.ids.drop m.i)) = dropBelow t ((m.ids.zip m.weights).drop m.i)
      rw [← List.drop_drop, drop_zip, skipCount_spec]
      · rw [List.length_drop, List.length_drop, h.2]
    refine ⟨{ m with i := m.i + skipCount t (m.ids.drop m.i) }, ?_, h, hden, ?_, ?_, rfl⟩
    · show m.skipTo t = _
      simp [skipTo, hact]
    · show m.ids.length - (m.i + _) ≤ m.ids.length - m.i
      omega
    · intro hne2
      show m.ids.length - (m.i + _) < m.ids.length - m.i
      have hpos : skipCount t (m.ids.drop m.i) ≠ 0 := by
        intro h0
        apply hne2
        show (m.ids.zip m.weights).drop (m.i + skipCount t (m.ids.drop m.i)) = (m.ids.zip m.weights).drop m.i
        rw [h0]; rfl
      have : m.i < m.ids.length := by simpa [isActive] using hact
      omega
  reset m h := ⟨{ m with i := 0 }, rfl, h, by simp [den, full], rfl⟩

end ListM

end WM.Matcher
