import WM.Spec.Den
/-!
Lemmas about result lists (`Den`): everything is reduced to the pointwise view `lookup L d`, in which
the node combinators are trivial, plus extensionality for ascending lists.
-/
namespace WM.Matcher

/-! ### basic facts about `lookup` and `Asc` -/

@[simp] theorem lookup_nil (d : Nat) : lookup [] d = none := rfl

theorem lookup_cons (x : Nat) (s : Rat) (L : Den) (d : Nat) :
    lookup ((x, s) :: L) d = if x = d then some s else lookup L d := rfl

@[simp] theorem asc_nil : Asc [] := List.Pairwise.nil

theorem asc_cons {p : Nat × Rat} {L : Den} :
    Asc (p :: L) ↔ (∀ q ∈ L, p.1 < q.1) ∧ Asc L := List.pairwise_cons

theorem Asc.tail {p : Nat × Rat} {L : Den} (h : Asc (p :: L)) : Asc L := (asc_cons.1 h).2

theorem Asc.head_lt {p : Nat × Rat} {L : Den} (h : Asc (p :: L)) : ∀ q ∈ L, p.1 < q.1 :=
  (asc_cons.1 h).1

theorem lookup_some_mem {L : Den} {d : Nat} {r : Rat} (h : lookup L d = some r) : (d, r) ∈ L := by
  induction L with
  | nil => simp at h
  | cons p L ih =>
    obtain ⟨x, s⟩ := p
    rw [lookup_cons] at h
    split at h
    · next hx => cases h; subst hx; exact List.mem_cons_self
    · exact List.mem_cons_of_mem _ (ih h)

theorem lookup_none_of_lt {L : Den} {d : Nat} (h : ∀ q ∈ L, d < q.1) : lookup L d = none := by
  induction L with
  | nil => rfl
  | cons p L ih =>
    obtain ⟨x, s⟩ := p
    rw [lookup_cons]
    have hx : d < x := h (x, s) List.mem_cons_self
    rw [if_neg (by omega)]
    exact ih fun q hq => h q (List.mem_cons_of_mem _ hq)

theorem mem_lookup {L : Den} (hL : Asc L) {d : Nat} {r : Rat} (h : (d, r) ∈ L) :
    lookup L d = some r := by
  induction L with
  | nil => simp at h
  | cons p L ih =>
    obtain ⟨x, s⟩ := p
    rw [lookup_cons]
    rcases List.mem_cons.1 h with h | h
    · cases h; simp
    · have := hL.head_lt _ h
      rw [if_neg (by simp at this; omega)]
      exact ih hL.tail h

theorem mem_iff_lookup {L : Den} (hL : Asc L) {d : Nat} {r : Rat} :
    (d, r) ∈ L ↔ lookup L d = some r := ⟨mem_lookup hL, lookup_some_mem⟩

/-- In an ascending list nothing lies below the head. -/
theorem lookup_lt_head {x : Nat} {s : Rat} {L : Den} (h : Asc ((x, s) :: L)) {d : Nat} (hd : d < x) :
    lookup ((x, s) :: L) d = none := by
  apply lookup_none_of_lt
  intro q hq
  rcases List.mem_cons.1 hq with rfl | hq
  · exact hd
  · exact Nat.lt_trans hd (h.head_lt q hq)

theorem lookup_head (x : Nat) (s : Rat) (L : Den) : lookup ((x, s) :: L) x = some s := by
  simp [lookup_cons]

theorem lookup_tail_of_ne {x : Nat} {s : Rat} {L : Den} {d : Nat} (h : x ≠ d) :
    lookup ((x, s) :: L) d = lookup L d := by simp [lookup_cons, h]

/-- Extensionality: ascending lists with the same pointwise content are equal. -/
theorem den_ext {L₁ L₂ : Den} (h₁ : Asc L₁) (h₂ : Asc L₂)
    (h : ∀ d, lookup L₁ d = lookup L₂ d) : L₁ = L₂ := by
  induction L₁ generalizing L₂ with
  | nil =>
    cases L₂ with
    | nil => rfl
    | cons q L₂ =>
      obtain ⟨y, t⟩ := q
      have := h y
      simp [lookup_cons] at this
  | cons p L₁ ih =>
    obtain ⟨x, s⟩ := p
    cases L₂ with
    | nil =>
      have := h x
      simp [lookup_cons] at this
    | cons q L₂ =>
      obtain ⟨y, t⟩ := q
      have hxy : x = y := by
        rcases Nat.lt_trichotomy x y with hlt | heq | hgt
        · have := h x
          rw [lookup_head, lookup_lt_head h₂ hlt] at this
          cases this
        · exact heq
        · have := h y
          rw [lookup_head, lookup_lt_head h₁ hgt] at this
          cases this
      subst hxy
      have hst : s = t := by
        have := h x
        rw [lookup_head, lookup_head] at this
        exact Option.some.inj this
      subst hst
      congr 1
      apply ih h₁.tail h₂.tail
      intro d
      by_cases hd : x = d
      · subst hd
        rw [lookup_none_of_lt (h₁.head_lt), lookup_none_of_lt (h₂.head_lt)]
      · have := h d
        rwa [lookup_tail_of_ne hd, lookup_tail_of_ne hd] at this

theorem exists_cons_of_ne_nil {L : Den} (h : L ≠ []) : ∃ x r L', L = (x, r) :: L' := by
  cases L with
  | nil => exact absurd rfl h
  | cons p L' => exact ⟨p.1, p.2, L', rfl⟩

/-! ### `dropBelow` -/

@[simp] theorem dropBelow_nil (t : Nat) : dropBelow t [] = [] := rfl

theorem dropBelow_cons (t x : Nat) (s : Rat) (L : Den) :
    dropBelow t ((x, s) :: L) = if x < t then dropBelow t L else (x, s) :: L := by
  simp only [dropBelow, List.dropWhile_cons]
  by_cases h : x < t <;> simp [h]

theorem asc_sublist {L L' : Den} (h : L'.Sublist L) (hL : Asc L) : Asc L' :=
  List.Pairwise.sublist h hL

theorem asc_dropBelow {L : Den} (t : Nat) (h : Asc L) : Asc (dropBelow t L) :=
  asc_sublist (List.dropWhile_sublist _) h

theorem lookup_dropBelow {L : Den} (hL : Asc L) (t d : Nat) :
    lookup (dropBelow t L) d = if d < t then none else lookup L d := by
  induction L with
  | nil => simp
  | cons p L ih =>
    obtain ⟨x, s⟩ := p
    rw [dropBelow_cons]
    by_cases hx : x < t
    · rw [if_pos hx, ih hL.tail]
      by_cases hd : d < t
      · simp [hd]
      · rw [if_neg hd, if_neg hd, lookup_tail_of_ne (by omega)]
    · rw [if_neg hx]
      by_cases hd : d < t
      · rw [if_pos hd]
        exact lookup_lt_head hL (by omega)
      · rw [if_neg hd]

theorem dropBelow_of_le_head {x : Nat} {s : Rat} {L : Den} {t : Nat} (h : t ≤ x) :
    dropBelow t ((x, s) :: L) = (x, s) :: L := by
  rw [dropBelow_cons, if_neg (by omega)]

/-- `next()` on an ascending list is `skip_to(id + 1)`. -/
theorem tail_eq_dropBelow {x : Nat} {s : Rat} {L : Den} (h : Asc ((x, s) :: L)) :
    dropBelow (x + 1) ((x, s) :: L) = L := by
  rw [dropBelow_cons, if_pos (by omega)]
  cases L with
  | nil => rfl
  | cons q L =>
    obtain ⟨y, t⟩ := q
    have := h.head_lt (y, t) List.mem_cons_self
    exact dropBelow_of_le_head (by simp at this; omega)

theorem dropBelow_dropBelow {L : Den} (hL : Asc L) (t u : Nat) :
    dropBelow t (dropBelow u L) = dropBelow (max t u) L := by
  apply den_ext (asc_dropBelow _ (asc_dropBelow _ hL)) (asc_dropBelow _ hL)
  intro d
  rw [lookup_dropBelow (asc_dropBelow _ hL), lookup_dropBelow hL, lookup_dropBelow hL]
  by_cases h1 : d < t <;> by_cases h2 : d < u <;> simp [h1, h2] <;> omega

theorem dropBelow_length_le (t : Nat) (L : Den) : (dropBelow t L).length ≤ L.length :=
  (List.dropWhile_sublist _).length_le

theorem dropBelow_eq_nil_or {L : Den} (hL : Asc L) (t : Nat) :
    dropBelow t L = [] ∨ ∃ x s L', dropBelow t L = (x, s) :: L' ∧ t ≤ x := by
  induction L with
  | nil => left; rfl
  | cons p L ih =>
    obtain ⟨x, s⟩ := p
    rw [dropBelow_cons]
    by_cases hx : x < t
    · rw [if_pos hx]; exact ih hL.tail
    · rw [if_neg hx]; right; exact ⟨x, s, L, rfl, by omega⟩

/-! ### `hi` -/

theorem asc_hi {L : Den} (q : Rat) (h : Asc L) : Asc (hi q L) :=
  asc_sublist List.filter_sublist h

theorem lookup_hi {L : Den} (hL : Asc L) (q : Rat) (d : Nat) :
    lookup (hi q L) d = (lookup L d).filter (fun r => decide (q < r)) := by
  induction L with
  | nil => simp [hi]
  | cons p L ih =>
    obtain ⟨x, s⟩ := p
    have ih := ih hL.tail
    simp only [hi, List.filter_cons] at ih ⊢
    by_cases hx : x = d
    · subst hx
      by_cases hs : q < s
      · simp [hs, lookup_cons, Option.filter]
      · simp only [hs, decide_false, Bool.false_eq_true, ↓reduceIte, lookup_head]
        rw [show lookup (List.filter (fun p => decide (q < p.2)) L) x = none from
          lookup_none_of_lt fun r hr => hL.head_lt r ((List.mem_filter.1 hr).1)]
        simp [Option.filter, hs]
    · by_cases hs : q < s
      · simp only [hs, decide_true, ↓reduceIte]
        rw [lookup_tail_of_ne hx, lookup_tail_of_ne hx]; exact ih
      · simp only [hs, decide_false, Bool.false_eq_true, ↓reduceIte]
        rw [lookup_tail_of_ne hx]; exact ih

theorem mem_hi {L : Den} {q : Rat} {p : Nat × Rat} : p ∈ hi q L ↔ p ∈ L ∧ q < p.2 := by
  simp [hi]

/-! ### the node combinators, pointwise -/

/-- The pointwise meaning of `unionWith`. -/
def optUnion (f : Rat → Rat → Rat) : Option Rat → Option Rat → Option Rat
  | some s, some t => some (f s t)
  | some s, none => some s
  | none, o => o

theorem unionWith_nil_left (f) (B : Den) : unionWith f [] B = B := by
  unfold unionWith; rfl

theorem unionWith_nil_right (f) (A : Den) : unionWith f A [] = A := by
  cases A <;> (unfold unionWith; rfl)

theorem unionWith_cons (f) (x y : Nat) (s t : Rat) (A B : Den) :
    unionWith f ((x, s) :: A) ((y, t) :: B) =
      if x < y then (x, s) :: unionWith f A ((y, t) :: B)
      else if y < x then (y, t) :: unionWith f ((x, s) :: A) B
      else (x, f s t) :: unionWith f A B := by
  rw [unionWith]

theorem unionWith_keys_ge (f) {A B : Den} {k : Nat} (hA : ∀ p ∈ A, k ≤ p.1) (hB : ∀ p ∈ B, k ≤ p.1) :
    ∀ p ∈ unionWith f A B, k ≤ p.1 := by
  fun_induction unionWith f A B with
  | case1 B => exact hB
  | case2 A _ => exact hA
  | case3 x s A y t B hxy ih =>
    intro p hp
    rcases List.mem_cons.1 hp with rfl | hp
    · exact hA _ List.mem_cons_self
    · exact ih (fun p hp => hA p (List.mem_cons_of_mem _ hp)) hB p hp
  | case4 x s A y t B hxy hyx ih =>
    intro p hp
    rcases List.mem_cons.1 hp with rfl | hp
    · exact hB _ List.mem_cons_self
    · exact ih hA (fun p hp => hB p (List.mem_cons_of_mem _ hp)) p hp
  | case5 x s A y t B hxy hyx ih =>
    intro p hp
    rcases List.mem_cons.1 hp with rfl | hp
    · exact hA (x, s) List.mem_cons_self
    · exact ih (fun p hp => hA p (List.mem_cons_of_mem _ hp))
        (fun p hp => hB p (List.mem_cons_of_mem _ hp)) p hp

theorem asc_unionWith (f) {A B : Den} (hA : Asc A) (hB : Asc B) : Asc (unionWith f A B) := by
  fun_induction unionWith f A B with
  | case1 B => exact hB
  | case2 A _ => exact hA
  | case3 x s A y t B hxy ih =>
    refine asc_cons.2 ⟨?_, ih hA.tail hB⟩
    apply unionWith_keys_ge f (k := x + 1)
    · intro p hp; exact hA.head_lt p hp
    · intro p hp
      rcases List.mem_cons.1 hp with rfl | hp
      · exact hxy
      · have := hB.head_lt p hp; simp at this ⊢; omega
  | case4 x s A y t B hxy hyx ih =>
    refine asc_cons.2 ⟨?_, ih hA hB.tail⟩
    apply unionWith_keys_ge f (k := y + 1)
    · intro p hp
      rcases List.mem_cons.1 hp with rfl | hp
      · exact hyx
      · have := hA.head_lt p hp; simp at this ⊢; omega
    · intro p hp; exact hB.head_lt p hp
  | case5 x s A y t B hxy hyx ih =>
    have hxy' : x = y := by omega
    subst hxy'
    refine asc_cons.2 ⟨?_, ih hA.tail hB.tail⟩
    apply unionWith_keys_ge f (k := x + 1)
    · intro p hp; exact hA.head_lt p hp
    · intro p hp; exact hB.head_lt p hp

theorem lookup_unionWith (f) {A B : Den} (hA : Asc A) (hB : Asc B) (d : Nat) :
    lookup (unionWith f A B) d = optUnion f (lookup A d) (lookup B d) := by
  fun_induction unionWith f A B with
  | case1 B => simp [optUnion]
  | case2 A _ => cases h : lookup A d <;> simp [optUnion]
  | case3 x s A y t B hxy ih =>
    have ih := ih hA.tail hB
    by_cases hd : x = d
    · subst hd
      rw [lookup_head, lookup_head, lookup_lt_head hB hxy]; rfl
    · rw [lookup_tail_of_ne hd, lookup_tail_of_ne hd, ih]
  | case4 x s A y t B hxy hyx ih =>
    have ih := ih hA hB.tail
    by_cases hd : y = d
    · subst hd
      rw [lookup_head, lookup_head, lookup_lt_head hA hyx]; rfl
    · rw [lookup_tail_of_ne hd, lookup_tail_of_ne hd, ih]
  | case5 x s A y t B hxy hyx ih =>
    have hxy' : x = y := by omega
    subst hxy'
    have ih := ih hA.tail hB.tail
    by_cases hd : x = d
    · subst hd
      rw [lookup_head, lookup_head, lookup_head]; rfl
    · rw [lookup_tail_of_ne hd, lookup_tail_of_ne hd, lookup_tail_of_ne hd, ih]

/-- Keys of a `filterMap` that keeps the key are a sublist of the keys. -/
theorem asc_filterMap_key {L : Den} (g : Nat × Rat → Option (Nat × Rat))
    (hg : ∀ p q, g p = some q → q.1 = p.1) (hL : Asc L) : Asc (L.filterMap g) := by
  induction L with
  | nil => simp
  | cons p L ih =>
    rw [List.filterMap_cons]
    cases hgp : g p with
    | none => exact ih hL.tail
    | some q =>
      simp only
      refine asc_cons.2 ⟨?_, ih hL.tail⟩
      intro r hr
      obtain ⟨p', hp', hr'⟩ := List.mem_filterMap.1 hr
      rw [hg p q hgp, hg p' r hr']
      exact hL.head_lt p' hp'

theorem asc_interWith (f) {A : Den} (B : Den) (hA : Asc A) : Asc (interWith f A B) := by
  apply asc_filterMap_key _ _ hA
  intro p q h
  cases hb : lookup B p.1 <;> simp [hb] at h
  rw [← h]

theorem lookup_interWith (f) {A : Den} (B : Den) (hA : Asc A) (d : Nat) :
    lookup (interWith f A B) d =
      match lookup A d, lookup B d with
      | some s, some t => some (f s t)
      | _, _ => none := by
  induction A with
  | nil => simp [interWith]
  | cons p A ih =>
    obtain ⟨x, s⟩ := p
    have ih := ih hA.tail
    simp only [interWith, List.filterMap_cons] at ih ⊢
    by_cases hd : x = d
    · subst hd
      rw [lookup_head]
      cases hb : lookup B x with
      | none =>
        simp only [Option.map_none]
        rw [ih, lookup_none_of_lt hA.head_lt]
      | some t => simp [lookup_cons]
    · rw [lookup_tail_of_ne hd]
      cases hb : lookup B x with
      | none => simpa using ih
      | some t => simp only [Option.map_some]; rw [lookup_tail_of_ne hd]; exact ih

theorem asc_diff {A : Den} (B : Den) (hA : Asc A) : Asc (diff A B) :=
  asc_sublist List.filter_sublist hA

theorem lookup_filter {A : Den} (hA : Asc A) (p : Nat → Bool) (d : Nat) :
    lookup (A.filter fun e => p e.1) d = if p d then lookup A d else none := by
  induction A with
  | nil => simp
  | cons e A ih =>
    obtain ⟨x, s⟩ := e
    have ih := ih hA.tail
    rw [List.filter_cons]
    by_cases hd : x = d
    · subst hd
      by_cases hp : p x
      · simp [hp, lookup_cons]
      · simp only [hp, Bool.false_eq_true, ↓reduceIte]
        exact lookup_none_of_lt fun r hr => hA.head_lt r ((List.mem_filter.1 hr).1)
    · by_cases hp : p x
      · simp only [hp, ↓reduceIte]
        rw [lookup_tail_of_ne hd, lookup_tail_of_ne hd]; exact ih
      · simp only [hp, Bool.false_eq_true, ↓reduceIte]
        rw [lookup_tail_of_ne hd]; exact ih

theorem lookup_diff {A : Den} (B : Den) (hA : Asc A) (d : Nat) :
    lookup (diff A B) d = if (lookup B d).isNone then lookup A d else none :=
  lookup_filter hA (fun i => (lookup B i).isNone) d

theorem asc_map_key {L : Den} (g : Nat × Rat → Rat) (hL : Asc L) :
    Asc (L.map fun p => (p.1, g p)) := by
  induction L with
  | nil => simp
  | cons p L ih =>
    rw [List.map_cons]
    refine asc_cons.2 ⟨?_, ih hL.tail⟩
    intro r hr
    obtain ⟨p', hp', rfl⟩ := List.mem_map.1 hr
    exact hL.head_lt p' hp'

theorem lookup_map_key {L : Den} (g : Nat × Rat → Rat) (d : Nat) :
    lookup (L.map fun p => (p.1, g p)) d = (lookup L d).map fun s => g (d, s) := by
  induction L with
  | nil => simp
  | cons p L ih =>
    obtain ⟨x, s⟩ := p
    rw [List.map_cons, lookup_cons, lookup_cons]
    by_cases hd : x = d
    · subst hd; simp
    · simp [hd, ih]

theorem asc_leftJoin {A : Den} (B : Den) (hA : Asc A) : Asc (leftJoin A B) :=
  asc_map_key _ hA

theorem lookup_leftJoin (A B : Den) (d : Nat) :
    lookup (leftJoin A B) d =
      (lookup A d).map fun s => match lookup B d with | some t => s + t | none => s :=
  lookup_map_key _ d

theorem asc_scale {A : Den} (w : Rat) (hA : Asc A) : Asc (scale w A) := asc_map_key _ hA
theorem lookup_scale (w : Rat) (A : Den) (d : Nat) :
    lookup (scale w A) d = (lookup A d).map (· * w) := lookup_map_key _ d

theorem asc_constScore {A : Den} (c : Rat) (hA : Asc A) : Asc (constScore c A) := asc_map_key _ hA
theorem lookup_constScore (c : Rat) (A : Den) (d : Nat) :
    lookup (constScore c A) d = (lookup A d).map (fun _ => c) := lookup_map_key _ d

theorem asc_keepIds {A : Den} (S : List Nat) (excl : Bool) (hA : Asc A) : Asc (keepIds S excl A) :=
  asc_sublist List.filter_sublist hA
theorem lookup_keepIds {A : Den} (S : List Nat) (excl : Bool) (hA : Asc A) (d : Nat) :
    lookup (keepIds S excl A) d = if (S.contains d) != excl then lookup A d else none :=
  lookup_filter hA (fun i => (S.contains i) != excl) d

/-! ### `Keeps` -/

theorem Dominated.refl (L : Den) : Dominated L L := fun p hp => ⟨p.2, hp, Rat.le_refl⟩

theorem Keeps.refl (q : Rat) (L : Den) : Keeps q L L := ⟨rfl, Dominated.refl L⟩

theorem Dominated.trans {L₁ L₂ L₃ : Den} (h₁ : Dominated L₁ L₂) (h₂ : Dominated L₂ L₃) :
    Dominated L₁ L₃ := by
  intro p hp
  obtain ⟨r, hr, hle⟩ := h₁ p hp
  obtain ⟨r', hr', hle'⟩ := h₂ (p.1, r) hr
  exact ⟨r', hr', Rat.le_trans hle hle'⟩

theorem Keeps.trans {q : Rat} {L₁ L₂ L₃ : Den} (h₁ : Keeps q L₁ L₂) (h₂ : Keeps q L₂ L₃) :
    Keeps q L₁ L₃ := ⟨h₁.hi_eq.trans h₂.hi_eq, h₁.dom.trans h₂.dom⟩

/-- `hi` is monotone in the threshold: keeping everything above `q'` keeps everything above `q ≥ q'`. -/
theorem hi_eq_of_le {q q' : Rat} {L' L : Den} (hq : q' ≤ q) (h : hi q' L' = hi q' L) :
    hi q L' = hi q L := by
  have key : ∀ M : Den, hi q M = hi q (hi q' M) := by
    intro M
    simp only [hi, List.filter_filter]
    congr 1
    funext p
    by_cases h1 : q < p.2
    · have : q' < p.2 := by grind
      simp [h1, this]
    · simp [h1]
  rw [key L', key L, h]

theorem Keeps.mono {q q' : Rat} {L' L : Den} (hq : q' ≤ q) (h : Keeps q' L' L) : Keeps q L' L :=
  ⟨hi_eq_of_le hq h.hi_eq, h.dom⟩

/-- Pointwise reading of `Keeps` for ascending lists. -/
theorem keeps_iff {q : Rat} {L' L : Den} (h' : Asc L') (h : Asc L) :
    Keeps q L' L ↔
      (∀ d r, q < r → (lookup L' d = some r ↔ lookup L d = some r)) ∧
      (∀ d r', lookup L' d = some r' → ∃ r, lookup L d = some r ∧ r' ≤ r) := by
  constructor
  · rintro ⟨hhi, hdom⟩
    refine ⟨fun d r hq => ?_, fun d r' hl => ?_⟩
    · have := congrArg (fun M => lookup M d) hhi
      simp only [lookup_hi h', lookup_hi h] at this
      constructor
      · intro hl
        rw [hl] at this
        simp only [Option.filter, hq, decide_true, ↓reduceIte] at this
        cases hl2 : lookup L d with
        | none => simp [hl2] at this
        | some r2 =>
          rw [hl2] at this
          simp only at this
          split at this
          · exact this.symm
          · cases this
      · intro hl
        rw [hl] at this
        simp only [Option.filter, hq, decide_true, ↓reduceIte] at this
        cases hl2 : lookup L' d with
        | none => simp [hl2] at this
        | some r2 =>
          rw [hl2] at this
          simp only at this
          split at this
          · exact this
          · cases this
    · obtain ⟨r, hr, hle⟩ := hdom (d, r') (lookup_some_mem hl)
      exact ⟨r, mem_lookup h hr, hle⟩
  · rintro ⟨hk, hd⟩
    refine ⟨?_, fun p hp => ?_⟩
    · apply den_ext (asc_hi q h') (asc_hi q h)
      intro d
      rw [lookup_hi h', lookup_hi h]
      cases h1 : lookup L' d with
      | none =>
        cases h2 : lookup L d with
        | none => rfl
        | some r2 =>
          by_cases hq : q < r2
          · have := (hk d r2 hq).2 h2; rw [h1] at this; cases this
          · simp [Option.filter, hq]
      | some r1 =>
        by_cases hq : q < r1
        · rw [(hk d r1 hq).1 h1]
        · simp only [Option.filter, hq, decide_false, Bool.false_eq_true, ↓reduceIte]
          cases h2 : lookup L d with
          | none => rfl
          | some r2 =>
            by_cases hq2 : q < r2
            · have := (hk d r2 hq2).2 h2; rw [h1] at this; cases this; exact absurd hq2 hq
            · simp [hq2]
    · obtain ⟨r, hr, hle⟩ := hd p.1 p.2 (mem_lookup h' hp)
      exact ⟨r, lookup_some_mem hr, hle⟩

end WM.Matcher
