import WM.Model.MatcherReads
import WM.Lemmas.FaithfulTree
/-!
The reads `weight()` and `matching_terms()` (count) of a matcher tree are functions of the list position:
`opsR k s` (the operation table with `score` replaced by the read) moves exactly as `ops s` and is a faithful
cursor over `denR k s`, the list of `(id, read)` entries, which has the ids of `den s`.
-/
namespace WM.Matcher

/-! ## two operation tables that move alike -/

/-- everything but the score and the quality operations agrees -/
def MoveEq {σ : Type} (A' A : Ops σ) : Prop :=
  A'.isActive = A.isActive ∧ A'.id = A.id ∧ A'.next = A.next ∧ A'.skipTo = A.skipTo ∧ A'.reset = A.reset ∧
    A'.rem = A.rem

theorem MoveEq.refl {σ : Type} (A : Ops σ) : MoveEq A A := ⟨rfl, rfl, rfl, rfl, rfl, rfl⟩

/-- replacing the score does not change how a table moves -/
theorem MoveEq.withScore {σ : Type} (A : Ops σ) (f : σ → R Rat) : MoveEq { A with score := f } A :=
  ⟨rfl, rfl, rfl, rfl, rfl, rfl⟩

theorem MoveEq.trans {σ : Type} {A B C : Ops σ} (h₁ : MoveEq A B) (h₂ : MoveEq B C) : MoveEq A C := by
  obtain ⟨a1, a2, a3, a4, a5, a6⟩ := h₁
  obtain ⟨b1, b2, b3, b4, b5, b6⟩ := h₂
  exact ⟨a1.trans b1, a2.trans b2, a3.trans b3, a4.trans b4, a5.trans b5, a6.trans b6⟩

/- The cursor operations of every functor use the sub-matchers' cursor operations only: with the tables taken
   apart, both sides unfold to the same term (`smartUnfolding false`: the fuel loops must unfold on a variable). -/
section Congr
set_option smartUnfolding false

variable {α β : Type}

theorem Union.moveEq {A' A : Ops α} {B' B : Ops β} (ha : MoveEq A' A) (hb : MoveEq B' B) :
    MoveEq (Union.ops A' B') (Union.ops A B) := by
  obtain ⟨a1, a2, a3, a4, a5, a6, a7, a8, a9, a10, a11⟩ := A'
  obtain ⟨b1, b2, b3, b4, b5, b6, b7, b8, b9, b10, b11⟩ := B'
  obtain ⟨c1, c2, c3, c4, c5, c6, c7, c8, c9, c10, c11⟩ := A
  obtain ⟨d1, d2, d3, d4, d5, d6, d7, d8, d9, d10, d11⟩ := B
  obtain ⟨rfl, rfl, rfl, rfl, rfl, rfl⟩ := ha
  obtain ⟨rfl, rfl, rfl, rfl, rfl, rfl⟩ := hb
  exact ⟨rfl, rfl, rfl, rfl, rfl, rfl⟩
theorem Union.moveEq_dismax {A' A : Ops α} {B' B : Ops β} (ha : MoveEq A' A) (hb : MoveEq B' B) :
    MoveEq (Union.ops A' B') (DisMax.ops A B) := by
  obtain ⟨a1, a2, a3, a4, a5, a6, a7, a8, a9, a10, a11⟩ := A'
  obtain ⟨b1, b2, b3, b4, b5, b6, b7, b8, b9, b10, b11⟩ := B'
  obtain ⟨c1, c2, c3, c4, c5, c6, c7, c8, c9, c10, c11⟩ := A
  obtain ⟨d1, d2, d3, d4, d5, d6, d7, d8, d9, d10, d11⟩ := B
  obtain ⟨rfl, rfl, rfl, rfl, rfl, rfl⟩ := ha
  obtain ⟨rfl, rfl, rfl, rfl, rfl, rfl⟩ := hb
  exact ⟨rfl, rfl, rfl, rfl, rfl, rfl⟩
theorem Inter.moveEq {A' A : Ops α} {B' B : Ops β} (ha : MoveEq A' A) (hb : MoveEq B' B) :
    MoveEq (Inter.ops A' B') (Inter.ops A B) := by
  obtain ⟨a1, a2, a3, a4, a5, a6, a7, a8, a9, a10, a11⟩ := A'
  obtain ⟨b1, b2, b3, b4, b5, b6, b7, b8, b9, b10, b11⟩ := B'
  obtain ⟨c1, c2, c3, c4, c5, c6, c7, c8, c9, c10, c11⟩ := A
  obtain ⟨d1, d2, d3, d4, d5, d6, d7, d8, d9, d10, d11⟩ := B
  obtain ⟨rfl, rfl, rfl, rfl, rfl, rfl⟩ := ha
  obtain ⟨rfl, rfl, rfl, rfl, rfl, rfl⟩ := hb
  exact ⟨rfl, rfl, rfl, rfl, rfl, rfl⟩
theorem Inter.moveEq_require {A' A : Ops α} {B' B : Ops β} (ha : MoveEq A' A) (hb : MoveEq B' B) :
    MoveEq (Inter.ops A' B') (Require.ops A B) := by
  obtain ⟨a1, a2, a3, a4, a5, a6, a7, a8, a9, a10, a11⟩ := A'
  obtain ⟨b1, b2, b3, b4, b5, b6, b7, b8, b9, b10, b11⟩ := B'
  obtain ⟨c1, c2, c3, c4, c5, c6, c7, c8, c9, c10, c11⟩ := A
  obtain ⟨d1, d2, d3, d4, d5, d6, d7, d8, d9, d10, d11⟩ := B
  obtain ⟨rfl, rfl, rfl, rfl, rfl, rfl⟩ := ha
  obtain ⟨rfl, rfl, rfl, rfl, rfl, rfl⟩ := hb
  exact ⟨rfl, rfl, rfl, rfl, rfl, rfl⟩
theorem Require.moveEq {A' A : Ops α} {B' B : Ops β} (ha : MoveEq A' A) (hb : MoveEq B' B) :
    MoveEq (Require.ops A' B') (Require.ops A B) := by
  obtain ⟨a1, a2, a3, a4, a5, a6, a7, a8, a9, a10, a11⟩ := A'
  obtain ⟨b1, b2, b3, b4, b5, b6, b7, b8, b9, b10, b11⟩ := B'
  obtain ⟨c1, c2, c3, c4, c5, c6, c7, c8, c9, c10, c11⟩ := A
  obtain ⟨d1, d2, d3, d4, d5, d6, d7, d8, d9, d10, d11⟩ := B
  obtain ⟨rfl, rfl, rfl, rfl, rfl, rfl⟩ := ha
  obtain ⟨rfl, rfl, rfl, rfl, rfl, rfl⟩ := hb
  exact ⟨rfl, rfl, rfl, rfl, rfl, rfl⟩
theorem AndNot.moveEq {A' A : Ops α} {B' B : Ops β} (ha : MoveEq A' A) (hb : MoveEq B' B) :
    MoveEq (AndNot.ops A' B') (AndNot.ops A B) := by
  obtain ⟨a1, a2, a3, a4, a5, a6, a7, a8, a9, a10, a11⟩ := A'
  obtain ⟨b1, b2, b3, b4, b5, b6, b7, b8, b9, b10, b11⟩ := B'
  obtain ⟨c1, c2, c3, c4, c5, c6, c7, c8, c9, c10, c11⟩ := A
  obtain ⟨d1, d2, d3, d4, d5, d6, d7, d8, d9, d10, d11⟩ := B
  obtain ⟨rfl, rfl, rfl, rfl, rfl, rfl⟩ := ha
  obtain ⟨rfl, rfl, rfl, rfl, rfl, rfl⟩ := hb
  exact ⟨rfl, rfl, rfl, rfl, rfl, rfl⟩
theorem AndMaybe.moveEq {A' A : Ops α} {B' B : Ops β} (ha : MoveEq A' A) (hb : MoveEq B' B) :
    MoveEq (AndMaybe.ops A' B') (AndMaybe.ops A B) := by
  obtain ⟨a1, a2, a3, a4, a5, a6, a7, a8, a9, a10, a11⟩ := A'
  obtain ⟨b1, b2, b3, b4, b5, b6, b7, b8, b9, b10, b11⟩ := B'
  obtain ⟨c1, c2, c3, c4, c5, c6, c7, c8, c9, c10, c11⟩ := A
  obtain ⟨d1, d2, d3, d4, d5, d6, d7, d8, d9, d10, d11⟩ := B
  obtain ⟨rfl, rfl, rfl, rfl, rfl, rfl⟩ := ha
  obtain ⟨rfl, rfl, rfl, rfl, rfl, rfl⟩ := hb
  exact ⟨rfl, rfl, rfl, rfl, rfl, rfl⟩
theorem Boost.moveEq {A' A : Ops α} (ha : MoveEq A' A) : MoveEq (Boost.ops A') (Boost.ops A) := by
  obtain ⟨a1, a2, a3, a4, a5, a6, a7, a8, a9, a10, a11⟩ := A'
  obtain ⟨c1, c2, c3, c4, c5, c6, c7, c8, c9, c10, c11⟩ := A
  obtain ⟨rfl, rfl, rfl, rfl, rfl, rfl⟩ := ha
  exact ⟨rfl, rfl, rfl, rfl, rfl, rfl⟩
theorem Filter.moveEq {A' A : Ops α} (ha : MoveEq A' A) : MoveEq (Filter.ops A') (Filter.ops A) := by
  obtain ⟨a1, a2, a3, a4, a5, a6, a7, a8, a9, a10, a11⟩ := A'
  obtain ⟨c1, c2, c3, c4, c5, c6, c7, c8, c9, c10, c11⟩ := A
  obtain ⟨rfl, rfl, rfl, rfl, rfl, rfl⟩ := ha
  exact ⟨rfl, rfl, rfl, rfl, rfl, rfl⟩
theorem Inverse.moveEq {A' A : Ops α} (ha : MoveEq A' A) : MoveEq (Inverse.ops A') (Inverse.ops A) := by
  obtain ⟨a1, a2, a3, a4, a5, a6, a7, a8, a9, a10, a11⟩ := A'
  obtain ⟨c1, c2, c3, c4, c5, c6, c7, c8, c9, c10, c11⟩ := A
  obtain ⟨rfl, rfl, rfl, rfl, rfl, rfl⟩ := ha
  exact ⟨rfl, rfl, rfl, rfl, rfl, rfl⟩
theorem Const.moveEq {A' A : Ops α} (ha : MoveEq A' A) : MoveEq (Const.ops A') (Const.ops A) := by
  obtain ⟨a1, a2, a3, a4, a5, a6, a7, a8, a9, a10, a11⟩ := A'
  obtain ⟨c1, c2, c3, c4, c5, c6, c7, c8, c9, c10, c11⟩ := A
  obtain ⟨rfl, rfl, rfl, rfl, rfl, rfl⟩ := ha
  exact ⟨rfl, rfl, rfl, rfl, rfl, rfl⟩
theorem Multi.moveEq {A' A : Ops α} (ha : MoveEq A' A) : MoveEq (Multi.ops A') (Multi.ops A) := by
  obtain ⟨a1, a2, a3, a4, a5, a6, a7, a8, a9, a10, a11⟩ := A'
  obtain ⟨c1, c2, c3, c4, c5, c6, c7, c8, c9, c10, c11⟩ := A
  obtain ⟨rfl, rfl, rfl, rfl, rfl, rfl⟩ := ha
  exact ⟨rfl, rfl, rfl, rfl, rfl, rfl⟩

end Congr

/-- the table of a read moves exactly as the table of the tree (any shape) -/
theorem tree_moveEq (k : Rd) : ∀ s : Shape, MoveEq (opsR k s) (ops s)
  | .null => MoveEq.refl _
  | .list => by cases k <;> exact ⟨rfl, rfl, rfl, rfl, rfl, rfl⟩
  | .leaf => by cases k <;> exact ⟨rfl, rfl, rfl, rfl, rfl, rfl⟩
  | .union a b => Union.moveEq (tree_moveEq k a) (tree_moveEq k b)
  | .dismax a b => Union.moveEq_dismax (tree_moveEq k a) (tree_moveEq k b)
  | .inter a b => Inter.moveEq (tree_moveEq k a) (tree_moveEq k b)
  | .andNot a b => AndNot.moveEq (tree_moveEq k a) (tree_moveEq k b)
  | .andMaybe a b => AndMaybe.moveEq (tree_moveEq k a) (tree_moveEq k b)
  | .require a b => by
    cases k
    · exact Require.moveEq (tree_moveEq _ a) (tree_moveEq _ b)
    · exact Inter.moveEq_require (tree_moveEq _ a) (tree_moveEq _ b)
  | .boost c => by
    cases k
    · exact Boost.moveEq (tree_moveEq _ c)
    · exact (MoveEq.withScore _ _).trans (Boost.moveEq (tree_moveEq _ c))
  | .filter c => by
    cases k
    · exact Filter.moveEq (tree_moveEq _ c)
    · exact (MoveEq.withScore _ _).trans (Filter.moveEq (tree_moveEq _ c))
  | .inverse c => by
    cases k
    · exact Inverse.moveEq (tree_moveEq _ c)
    · exact (MoveEq.withScore _ _).trans (Inverse.moveEq (tree_moveEq _ c))
  | .const c => by
    cases k
    · exact (MoveEq.withScore _ _).trans (Const.moveEq (tree_moveEq _ c))
    · exact (MoveEq.withScore _ _).trans (Const.moveEq (tree_moveEq _ c))
  | .multi c => Multi.moveEq (tree_moveEq k c)
  | .aunion c => MoveEq.withScore _ _

/-! ## transport of `Faithful` -/

theorem Faithful.of_eq {σ : Type} {O : Ops σ} {den full den' full' : σ → Den} {WF : σ → Prop}
    (F : Faithful O den full WF) (h₁ : ∀ s, den' s = den s) (h₂ : ∀ s, full' s = full s) :
    Faithful O den' full' WF := by
  have e₁ : den' = den := funext h₁
  have e₂ : full' = full := funext h₂
  subst e₁ e₂
  exact F

/-- A table `O'` that behaves on `s` as `O` behaves on `φ s` (the state with its scoring data replaced) is a
    faithful cursor over the list of `φ s`. -/
theorem Faithful.comap {σ : Type} {O O' : Ops σ} {den full : σ → Den} {WF : σ → Prop} (F : Faithful O den full WF)
    (φ : σ → σ)
    (hact : ∀ s, O'.isActive s = O.isActive (φ s)) (hid : ∀ s, O'.id s = O.id (φ s))
    (hscore : ∀ s, O.isActive (φ s) = true → O'.score s = O.score (φ s))
    (hnext : ∀ s, O.next (φ s) = (O'.next s).map φ)
    (hskip : ∀ s t, O.skipTo (φ s) t = (O'.skipTo s t).map φ)
    (hreset : ∀ s, O.reset (φ s) = (O'.reset s).map φ)
    (hrem : ∀ s, O'.rem s = O.rem (φ s)) :
    Faithful O' (fun s => den (φ s)) (fun s => full (φ s)) (fun s => WF (φ s)) where
  asc s h := F.asc _ h
  active s h := by rw [hact]; exact F.active _ h
  id s x r L h hd := by rw [hid]; exact F.id _ x r L h hd
  score s x r L h hd := by
    rw [hscore s ((F.active _ h).2 (by rw [hd]; simp))]; exact F.score _ x r L h hd
  next s x r L h hd := by
    obtain ⟨s1, h1, h2, h3, h4, h5⟩ := F.next _ x r L h hd
    rw [hnext] at h1
    cases hn : O'.next s with
    | error e => rw [hn] at h1; cases h1
    | ok s' =>
      rw [hn] at h1
      simp only [Except.map, Except.ok.injEq] at h1
      subst h1
      exact ⟨s', rfl, h2, h3, by rw [hrem, hrem]; exact h4, h5⟩
  skipTo s t h hne := by
    obtain ⟨s1, h1, h2, h3, h4, h5, h6⟩ := F.skipTo _ t h hne
    rw [hskip] at h1
    cases hn : O'.skipTo s t with
    | error e => rw [hn] at h1; cases h1
    | ok s' =>
      rw [hn] at h1
      simp only [Except.map, Except.ok.injEq] at h1
      subst h1
      exact ⟨s', rfl, h2, h3, by rw [hrem, hrem]; exact h4, by rw [hrem, hrem]; exact h5, h6⟩
  reset s h := by
    obtain ⟨s1, h1, h2, h3, h4⟩ := F.reset _ h
    rw [hreset] at h1
    cases hn : O'.reset s with
    | error e => rw [hn] at h1; cases h1
    | ok s' =>
      rw [hn] at h1
      simp only [Except.map, Except.ok.injEq] at h1
      subst h1
      exact ⟨s', rfl, h2, h3, h4⟩

/-! ## the posting list: the cursor does not look at the scorer -/

namespace LeafM

/-- the same cursor with another scorer -/
def withSc (sc : Rat → Nat → Rat) (m : LeafM) : LeafM := { m with sc := sc }

theorem nextBlock_withSc (sc) (m : LeafM) : (withSc sc m).nextBlock = m.nextBlock.map (withSc sc) := by
  obtain ⟨bl, sc0, tw, tl, b, i, ae⟩ := m
  simp only [nextBlock, withSc]
  cases ae
  · by_cases h2 : b + 1 ≥ bl.length
    · simp only [h2, if_true]; rfl
    · simp only [h2, if_false]; rfl
  · rfl

theorem next_eq (m : LeafM) :
    m.next = if m.i + 1 = m.blen then ({ m with i := m.i + 1 } : LeafM).nextBlock else .ok { m with i := m.i + 1 } := rfl

theorem next_withSc (sc) (m : LeafM) : (withSc sc m).next = m.next.map (withSc sc) := by
  rw [next_eq, next_eq]
  by_cases h : m.i + 1 = m.blen
  · have h' : (withSc sc m).i + 1 = (withSc sc m).blen := h
    rw [if_pos h, if_pos h']
    exact nextBlock_withSc sc { m with i := m.i + 1 }
  · have h' : ¬ (withSc sc m).i + 1 = (withSc sc m).blen := h
    rw [if_neg h, if_neg h']
    rfl

theorem skipBlocksWhile_withSc (sc) (p : LeafM → Bool) (hp : ∀ m, p (withSc sc m) = p m) :
    ∀ (n : Nat) (m : LeafM), skipBlocksWhile p n (withSc sc m) =
      (skipBlocksWhile p n m).map fun r => (withSc sc r.1, r.2)
  | 0, _ => rfl
  | n + 1, m => by
    have ha : (withSc sc m).isActive = m.isActive := rfl
    simp only [skipBlocksWhile, ha, hp, nextBlock_withSc]
    by_cases hc : (m.isActive && p m) = true
    · simp only [hc, if_true]
      cases hb : m.nextBlock with
      | error e => rfl
      | ok m' =>
        simp only [Except.map]
        rw [skipBlocksWhile_withSc sc p hp n m']
        cases skipBlocksWhile p n m' with
        | error e => rfl
        | ok r => rfl
    · simp only [hc]
      rfl

theorem stepWhileBelow_withSc (sc) (t : Nat) :
    ∀ (n : Nat) (m : LeafM), stepWhileBelow t n (withSc sc m) = (stepWhileBelow t n m).map (withSc sc)
  | 0, _ => rfl
  | n + 1, m => by
    have ha : (withSc sc m).isActive = m.isActive := rfl
    have hi : (withSc sc m).id = m.id := rfl
    simp only [stepWhileBelow, ha, hi, next_withSc]
    by_cases hc : m.isActive = true
    · simp only [hc, if_true]
      cases m.id with
      | error e => rfl
      | ok x =>
        simp only []
        by_cases hx : x < t
        · simp only [hx, if_true]
          cases m.next with
          | error e => rfl
          | ok m' => simp only [Except.map]; exact stepWhileBelow_withSc sc t n m'
        · simp only [hx, if_false]; rfl
    · simp only [hc]; rfl

theorem skipTo_withSc (sc) (m : LeafM) (t : Nat) : (withSc sc m).skipTo t = (m.skipTo t).map (withSc sc) := by
  have ha : (withSc sc m).isActive = m.isActive := rfl
  have hi : (withSc sc m).id = m.id := rfl
  simp only [skipTo, ha, hi]
  by_cases hc : m.isActive = true
  · simp only [hc, Bool.not_true, Bool.false_eq_true, if_false]
    cases m.id with
    | error e => rfl
    | ok x =>
      simp only []
      by_cases hx : t ≤ x
      · simp only [hx, if_true]; rfl
      · simp only [hx, if_false]
        have hb : (withSc sc m).skipBlocksTo t = (m.skipBlocksTo t).map (withSc sc) := by
          have hm : (withSc sc m).blockMaxId = m.blockMaxId := rfl
          simp only [skipBlocksTo, hm]
          by_cases ht : t > m.blockMaxId
          · simp only [ht, if_true]
            have hl : (withSc sc m).blocks.length = m.blocks.length := rfl
            rw [hl, skipBlocksWhile_withSc sc _ (fun _ => rfl)]
            cases skipBlocksWhile (fun m => decide (t > m.blockMaxId)) (m.blocks.length + 1) m with
            | error e => rfl
            | ok r => rfl
          · simp only [ht, if_false]; rfl
        rw [hb]
        cases m.skipBlocksTo t with
        | error e => rfl
        | ok m1 =>
          simp only [Except.map]
          have hr : (withSc sc m1).rem = m1.rem := rfl
          rw [hr]
          exact stepWhileBelow_withSc sc t _ m1
  · simp only [hc]; rfl

/-- the reads of a posting list are faithful over the list scored with `k.sc` -/
theorem faithfulR (k : Rd) :
    Faithful (LeafM.opsR k) (LeafM.denR k) (LeafM.fullR k) (fun m => LeafM.WF (withSc k.sc m)) := by
  have F := LeafM.faithful.comap (O' := LeafM.opsR k) (withSc k.sc)
  cases k
  · exact F (fun _ => rfl) (fun _ => rfl) (fun _ _ => rfl) (next_withSc _) (skipTo_withSc _) (fun _ => rfl) (fun _ => rfl)
  · refine F (fun _ => rfl) (fun _ => rfl) (fun m ha => ?_) (next_withSc _) (skipTo_withSc _) (fun _ => rfl) (fun _ => rfl)
    have ha' : m.isActive = true := ha
    show (if m.isActive then Except.ok 1 else Except.ok 0) = LeafM.score (withSc _ m)
    rw [if_pos ha']
    have hc : (withSc (Rd.sc .terms) m).cur = m.cur := rfl
    simp only [LeafM.score, hc]
    have hlt : m.i < m.blen := by
      simp only [LeafM.isActive, Bool.and_eq_true, decide_eq_true_eq] at ha'
      exact ha'.2
    unfold LeafM.blen at hlt
    cases hb : m.curBlock with
    | none => simp only [hb] at hlt; exact absurd hlt (Nat.not_lt_zero _)
    | some B =>
      simp only [hb] at hlt
      simp only [LeafM.cur, hb, Option.bind_some]
      have : B.posts[m.i]? = some (B.posts[m.i]'hlt) := List.getElem?_eq_getElem hlt
      rw [this]
      rfl

end LeafM

/-! ## ListMatcher -/

namespace ListM

theorem ones_wf {m : ListM} (h : ListM.WF m) : ListM.WF m.ones := ⟨h.1, by simp [ones]⟩

theorem faithfulR (k : Rd) :
    Faithful (ListM.opsR k) (ListM.denR k) (ListM.fullR k) (fun m => ListM.WF (viewR k m)) := by
  cases k
  · exact ListM.faithful
  · refine ListM.faithful.comap (O' := ListM.opsR .terms) ones
      (fun _ => rfl) (fun _ => rfl) (fun m ha => ?_) (fun _ => rfl) (fun m t => ?_) (fun _ => rfl) (fun _ => rfl)
    · have ha' : m.isActive = true := ha
      show (if m.isActive then Except.ok 1 else Except.ok 0) = ListM.score m.ones
      rw [if_pos ha']
      have hi : m.i < m.ids.length := by simpa [ListM.isActive] using ha'
      simp only [ListM.score, ones]
      cases hids : m.ids with
      | nil => rw [hids] at hi; cases hi
      | cons x xs =>
        have : ((x :: xs).map fun _ => (1 : Rat))[m.i]? = some 1 := by
          rw [List.getElem?_map, List.getElem?_eq_getElem (by rw [← hids]; exact hi)]; rfl
        simp only [List.map_cons] at this ⊢
        rw [this]
    · show ListM.skipTo m.ones t = (ListM.skipTo m t).map ones
      have ha : m.ones.isActive = m.isActive := rfl
      simp only [ListM.skipTo, ha]
      by_cases hc : m.isActive = true
      · simp only [hc, Bool.not_true, Bool.false_eq_true, if_false]; rfl
      · simp only [hc]; rfl

end ListM

/-! ## wrappers -/

section Wrappers
variable {α : Type} {A : Ops α} {dA fA : α → Den} {WA : α → Prop}

/-- matching terms of a boost wrapper: the child's -/
theorem Boost.faithfulT (FA : Faithful A dA fA WA) :
    Faithful (Boost.opsT A) (fun m => scale 1 (dA m.child)) (fun m => scale 1 (fA m.child)) (fun m => WA m.child) :=
  scoreMap_faithful FA (Boost.opsT A) (·.child) (fun m c => { m with child := c }) (fun _ r => r * 1)
    (fun _ _ => rfl) (fun _ _ => rfl) (fun _ => rfl) (fun _ => rfl)
    (fun m r h => by show A.score m.child = _; rw [h, Rat.mul_one])
    (fun m c h => by show (do let c ← A.next m.child; pure { m with child := c }) = _; rw [h]; rfl)
    (fun m t c h => by show (do let c ← A.skipTo m.child t; pure { m with child := c }) = _; rw [h]; rfl)
    (fun m c h => by show (do let c ← A.reset m.child; pure { m with child := c }) = _; rw [h]; rfl)
    (fun _ => rfl)

/-- `weight()` of a constant-score wrapper: the child's (times the inherited boost 1.0) -/
theorem Const.faithfulW (FA : Faithful A dA fA WA) :
    Faithful (Const.opsW A) (fun m => scale 1 (dA m.child)) (fun m => scale 1 (fA m.child)) (fun m => WA m.child) :=
  scoreMap_faithful FA (Const.opsW A) (·.child) (fun m c => { m with child := c }) (fun _ r => r * 1)
    (fun _ _ => rfl) (fun _ _ => rfl) (fun _ => rfl) (fun _ => rfl)
    (fun m r h => by show (do let w ← A.score m.child; pure (w * 1)) = _; rw [h]; rfl)
    (fun m c h => by show (do let c ← A.next m.child; pure { m with child := c }) = _; rw [h]; rfl)
    (fun m t c h => by show (do let c ← A.skipTo m.child t; pure { m with child := c }) = _; rw [h]; rfl)
    (fun m c h => by show (do let c ← A.reset m.child; pure { m with child := c }) = _; rw [h]; rfl)
    (fun _ => rfl)

/-- … its matching terms: the child's -/
theorem Const.faithfulT (FA : Faithful A dA fA WA) :
    Faithful (Const.opsT A) (fun m => scale 1 (dA m.child)) (fun m => scale 1 (fA m.child)) (fun m => WA m.child) :=
  scoreMap_faithful FA (Const.opsT A) (·.child) (fun m c => { m with child := c }) (fun _ r => r * 1)
    (fun _ _ => rfl) (fun _ _ => rfl) (fun _ => rfl) (fun _ => rfl)
    (fun m r h => by show A.score m.child = _; rw [h, Rat.mul_one])
    (fun m c h => by show (do let c ← A.next m.child; pure { m with child := c }) = _; rw [h]; rfl)
    (fun m t c h => by show (do let c ← A.skipTo m.child t; pure { m with child := c }) = _; rw [h]; rfl)
    (fun m c h => by show (do let c ← A.reset m.child; pure { m with child := c }) = _; rw [h]; rfl)
    (fun _ => rfl)

theorem Filter.findNext_setBoost (m : Filter α) (b : Rat) :
    Filter.findNext A { m with boost := b } = (Filter.findNext A m).map fun m' => { m' with boost := b } := by
  simp only [Filter.findNext, bind, Except.bind]
  cases Filter.findLoop A m.ids m.exclude (A.rem m.child + 1) m.child <;> rfl

/-- matching terms of a `FilterMatcher`: the child's, on the documents that pass -/
theorem Filter.faithfulT (FA : Faithful A dA fA WA) :
    Faithful (Filter.opsT A) (fun m => scale 1 (keepIds m.ids m.exclude (dA m.child)))
      (fun m => scale 1 (keepIds m.ids m.exclude (fA m.child)))
      (fun m => WA m.child ∧ Filter.Passes dA m.ids m.exclude m.child) := by
  refine (Filter.faithful FA).comap (O' := Filter.opsT A) (fun m => { m with boost := 1 })
    (fun _ => rfl) (fun _ => rfl) (fun m _ => ?_) (fun m => ?_) (fun m t => ?_) (fun m => ?_) (fun _ => rfl)
  · show A.score m.child = (do let s ← A.score m.child; pure (s * 1))
    cases A.score m.child with
    | error e => rfl
    | ok r => show _ = Except.ok (r * 1); rw [Rat.mul_one]
  · show (do let c ← A.next m.child; Filter.findNext A { m with child := c, boost := 1 }) =
      Except.map _ (do let c ← A.next m.child; Filter.findNext A { m with child := c })
    cases A.next m.child with
    | error e => rfl
    | ok c => exact Filter.findNext_setBoost { m with child := c } 1
  · show (do let c ← A.skipTo m.child t; Filter.findNext A { m with child := c, boost := 1 }) =
      Except.map _ (do let c ← A.skipTo m.child t; Filter.findNext A { m with child := c })
    cases A.skipTo m.child t with
    | error e => rfl
    | ok c => exact Filter.findNext_setBoost { m with child := c } 1
  · show (do let c ← A.reset m.child; Filter.findNext A { m with child := c, boost := 1 }) =
      Except.map _ (do let c ← A.reset m.child; Filter.findNext A { m with child := c })
    cases A.reset m.child with
    | error e => rfl
    | ok c => exact Filter.findNext_setBoost { m with child := c } 1

theorem Inverse.findNext_setWeight (m : Inverse α) (w : Rat) :
    Inverse.findNext A { m with weight := w } = (Inverse.findNext A m).map fun m' => { m' with weight := w } := by
  simp only [Inverse.findNext, bind, Except.bind]
  cases Inverse.findLoop A m.limit m.missing (m.limit - m.id + A.rem m.child + 1) m.child m.id <;> rfl

/-- matching terms of an `InverseMatcher`: none (its child is never on the document) -/
theorem Inverse.faithfulT (FA : Faithful A dA fA WA) :
    Faithful (Inverse.opsT A) (fun m => complement m.id m.limit m.missing (dA m.child) 0)
      (fun m => complement 0 m.limit m.missing (fA m.child) 0)
      (fun m => WA m.child ∧ Inverse.Stops dA m.limit m.missing m.child m.id) := by
  refine (Inverse.faithful FA).comap (O' := Inverse.opsT A) (fun m => { m with weight := 0 })
    (fun _ => rfl) (fun _ => rfl) (fun m _ => rfl) (fun m => ?_) (fun m t => ?_) (fun m => ?_) (fun _ => rfl)
  · show (if m.id ≥ m.limit then _ else Inverse.findNext A { m with id := m.id + 1, weight := 0 }) =
      Except.map _ (if m.id ≥ m.limit then _ else Inverse.findNext A { m with id := m.id + 1 })
    by_cases h : m.id ≥ m.limit
    · rw [if_pos h, if_pos h]; rfl
    · rw [if_neg h, if_neg h]; exact Inverse.findNext_setWeight { m with id := m.id + 1 } 0
  · show (if m.id ≥ m.limit then _ else if t < m.id then _ else Inverse.findNext A { m with id := t, weight := 0 }) =
      Except.map _ (if m.id ≥ m.limit then _ else if t < m.id then _ else Inverse.findNext A { m with id := t })
    by_cases h : m.id ≥ m.limit
    · rw [if_pos h, if_pos h]; rfl
    · rw [if_neg h, if_neg h]
      by_cases h2 : t < m.id
      · rw [if_pos h2, if_pos h2]; rfl
      · rw [if_neg h2, if_neg h2]; exact Inverse.findNext_setWeight { m with id := t } 0
  · show (do let c ← A.reset m.child; Inverse.findNext A { m with child := c, id := 0, weight := 0 }) =
      Except.map _ (do let c ← A.reset m.child; Inverse.findNext A { m with child := c, id := 0 })
    cases A.reset m.child with
    | error e => rfl
    | ok c => exact Inverse.findNext_setWeight { m with child := c, id := 0 } 0

end Wrappers

/-! ## the tree -/

/-- well-formedness of a tree for a read: `WF` with the reads' lists in the alignment conditions -/
def WFR (k : Rd) : (s : Shape) → St s → Prop
  | .null, _ => True
  | .list, m => ListM.WF (ListM.viewR k m)
  | .leaf, m => LeafM.WF (LeafM.withSc k.sc m)
  | .union a b, m => WFR k a m.a ∧ WFR k b m.b
  | .dismax a b, m => WFR k a m.a ∧ WFR k b m.b
  | .inter a b, m => WFR k a m.a ∧ WFR k b m.b ∧ Inter.Aligned (denR k a) (denR k b) m
  | .andNot a b, m => WFR k a m.a ∧ WFR k b m.b ∧ AndNot.Ahead (denR k a) (denR k b) m
  | .andMaybe a b, m => WFR k a m.a ∧ WFR k b m.b ∧ AndMaybe.NotBehind (denR k a) (denR k b) m
  | .require a b, m => WFR k a m.a ∧ WFR k b m.b ∧ Inter.Aligned (denR k a) (denR k b) m
  | .boost c, m => WFR k c m.child
  | .filter c, m => WFR k c m.child ∧ Filter.Passes (denR k c) m.ids m.exclude m.child
  | .inverse c, m => WFR k c m.child ∧ Inverse.Stops (denR k c) m.limit m.missing m.child m.id
  | .const c, m => WFR k c m.child
  | .multi c, m => Multi.WF (opsR k c) (denR k c) (fullR k c) (WFR k c) m
  | .aunion _, _ => False

theorem faithful_false {σ : Type} (O : Ops σ) (den full : σ → Den) : Faithful O den full (fun _ => False) where
  asc _ h := h.elim
  active _ h := h.elim
  id _ _ _ _ h := h.elim
  score _ _ _ _ h := h.elim
  next _ _ _ _ h := h.elim
  skipTo _ _ h := h.elim
  reset _ h := h.elim

/-- every tree is a faithful cursor over the list of its reads -/
theorem tree_faithfulR (k : Rd) : ∀ s : Shape, Faithful (opsR k s) (denR k s) (fullR k s) (WFR k s)
  | .null => null_faithful
  | .list => ListM.faithfulR k
  | .leaf => LeafM.faithfulR k
  | .union a b => Union.faithful (tree_faithfulR k a) (tree_faithfulR k b)
  | .dismax a b => Union.faithful (tree_faithfulR k a) (tree_faithfulR k b)
  | .inter a b => Inter.faithful (tree_faithfulR k a) (tree_faithfulR k b)
  | .andNot a b => AndNot.faithful (tree_faithfulR k a) (tree_faithfulR k b)
  | .andMaybe a b => AndMaybe.faithful (tree_faithfulR k a) (tree_faithfulR k b)
  | .require a b => by
    cases k
    · exact Require.faithful (tree_faithfulR _ a) (tree_faithfulR _ b)
    · exact Inter.faithful (tree_faithfulR _ a) (tree_faithfulR _ b)
  | .boost c => by
    cases k
    · exact Boost.faithful (tree_faithfulR _ c)
    · exact Boost.faithfulT (tree_faithfulR _ c)
  | .filter c => by
    cases k
    · exact Filter.faithful (tree_faithfulR _ c)
    · exact Filter.faithfulT (tree_faithfulR _ c)
  | .inverse c => by
    cases k
    · exact Inverse.faithful (tree_faithfulR _ c)
    · exact Inverse.faithfulT (tree_faithfulR _ c)
  | .const c => by
    cases k
    · exact Const.faithfulW (tree_faithfulR _ c)
    · exact Const.faithfulT (tree_faithfulR _ c)
  | .multi c => Multi.faithful (tree_faithfulR k c)
  | .aunion _ => faithful_false _ _ _

/-- a tree that is well formed in both senses stands on the same document in both lists -/
theorem head_of_read (k : Rd) (s : Shape) (m : St s) (h : WF s m) (hr : WFR k s m) {x : Nat} {w : Rat} {L' : Den}
    (hd : denR k s m = (x, w) :: L') : ∃ r L, den s m = (x, r) :: L := by
  have F := tree_faithful s
  have FR := tree_faithfulR k s
  have hid := FR.id m x w L' hr hd
  have hact : (opsR k s).isActive m = true := (FR.active m hr).2 (by rw [hd]; simp)
  obtain ⟨e1, e2, -⟩ := tree_moveEq k s
  rw [e1] at hact; rw [e2] at hid
  obtain ⟨x', r, L, hd'⟩ := exists_cons_of_ne_nil ((F.active m h).1 hact)
  have := F.id m x' r L h hd'
  rw [hid] at this; cases this
  exact ⟨r, L, hd'⟩

/-- … and conversely -/
theorem read_of_head (k : Rd) (s : Shape) (m : St s) (h : WF s m) (hr : WFR k s m) {x : Nat} {r : Rat} {L : Den}
    (hd : den s m = (x, r) :: L) : ∃ w L', denR k s m = (x, w) :: L' := by
  have F := tree_faithful s
  have FR := tree_faithfulR k s
  have hid := F.id m x r L h hd
  have hact : (ops s).isActive m = true := (F.active m h).2 (by rw [hd]; simp)
  obtain ⟨e1, e2, -⟩ := tree_moveEq k s
  rw [← e1] at hact; rw [← e2] at hid
  obtain ⟨x', w, L', hd'⟩ := exists_cons_of_ne_nil ((FR.active m hr).1 hact)
  have := FR.id m x' w L' hr hd'
  rw [hid] at this; cases this
  exact ⟨w, L', hd'⟩

/-- a well-formed tree without `MultiMatcher`/`ArrayUnionMatcher` nodes is well formed for every read -/
theorem wfr_of_wf (k : Rd) : ∀ (s : Shape) (m : St s), plain s = true → WF s m → WFR k s m
  | .null, _, _, _ => trivial
  | .list, m, _, h => by
    cases k
    · exact h
    · exact ListM.ones_wf h
  | .leaf, _, _, h => h
  | .union a b, m, hp, h => by
    simp only [plain, Bool.and_eq_true] at hp
    exact ⟨wfr_of_wf k a m.a hp.1 h.1, wfr_of_wf k b m.b hp.2 h.2⟩
  | .dismax a b, m, hp, h => by
    simp only [plain, Bool.and_eq_true] at hp
    exact ⟨wfr_of_wf k a m.a hp.1 h.1, wfr_of_wf k b m.b hp.2 h.2⟩
  | .inter a b, m, hp, h => by
    simp only [plain, Bool.and_eq_true] at hp
    have wa := wfr_of_wf k a m.a hp.1 h.1
    have wb := wfr_of_wf k b m.b hp.2 h.2.1
    refine ⟨wa, wb, fun x r La y s Lb h1 h2 => ?_⟩
    obtain ⟨r', La', g1⟩ := head_of_read k a m.a h.1 wa h1
    obtain ⟨s', Lb', g2⟩ := head_of_read k b m.b h.2.1 wb h2
    exact h.2.2 x r' La' y s' Lb' g1 g2
  | .require a b, m, hp, h => by
    simp only [plain, Bool.and_eq_true] at hp
    have wa := wfr_of_wf k a m.a hp.1 h.1
    have wb := wfr_of_wf k b m.b hp.2 h.2.1
    refine ⟨wa, wb, fun x r La y s Lb h1 h2 => ?_⟩
    obtain ⟨r', La', g1⟩ := head_of_read k a m.a h.1 wa h1
    obtain ⟨s', Lb', g2⟩ := head_of_read k b m.b h.2.1 wb h2
    exact h.2.2 x r' La' y s' Lb' g1 g2
  | .andNot a b, m, hp, h => by
    simp only [plain, Bool.and_eq_true] at hp
    have wa := wfr_of_wf k a m.a hp.1 h.1
    have wb := wfr_of_wf k b m.b hp.2 h.2.1
    refine ⟨wa, wb, fun x r La y s Lb h1 h2 => ?_⟩
    obtain ⟨r', La', g1⟩ := head_of_read k a m.a h.1 wa h1
    obtain ⟨s', Lb', g2⟩ := head_of_read k b m.b h.2.1 wb h2
    exact h.2.2 x r' La' y s' Lb' g1 g2
  | .andMaybe a b, m, hp, h => by
    simp only [plain, Bool.and_eq_true] at hp
    have wa := wfr_of_wf k a m.a hp.1 h.1
    have wb := wfr_of_wf k b m.b hp.2 h.2.1
    refine ⟨wa, wb, fun x r La y s Lb h1 h2 => ?_⟩
    obtain ⟨r', La', g1⟩ := head_of_read k a m.a h.1 wa h1
    obtain ⟨s', Lb', g2⟩ := head_of_read k b m.b h.2.1 wb h2
    exact h.2.2 x r' La' y s' Lb' g1 g2
  | .boost c, m, hp, h => wfr_of_wf k c m.child hp h
  | .const c, m, hp, h => wfr_of_wf k c m.child hp h
  | .filter c, m, hp, h => by
    have wc := wfr_of_wf k c m.child hp h.1
    refine ⟨wc, fun x r L h1 => ?_⟩
    obtain ⟨r', L', g1⟩ := head_of_read k c m.child h.1 wc h1
    exact h.2 x r' L' g1
  | .inverse c, m, hp, h => by
    have wc := wfr_of_wf k c m.child hp h.1
    refine ⟨wc, fun hlt => ⟨(h.2 hlt).1, fun x r L h1 => ?_⟩⟩
    obtain ⟨r', L', g1⟩ := head_of_read k c m.child h.1 wc h1
    exact (h.2 hlt).2 x r' L' g1
  | .multi _, _, hp, _ => by simp [plain] at hp
  | .aunion _, _, hp, _ => by simp [plain] at hp

end WM.Matcher
