import WM.Model.Parser
import WM.Spec.Parser
import WM.Lemmas.ParserTotal
/-! `do_operators` as a left-to-right scan with the already scanned part as an accumulator
(`passZ`), and the proof that the index loop of the model (`opLoopL`, which mirrors the Python
`while` loop and `replace_self`) computes exactly that scan. -/
namespace WM.Parser

/-- `isinstance(t, optype) and t.grouptype is gtype` -/
def Node.isOpOf (o : OpCfg) : Node → Bool
  | .op t g _ _ => t == o.t && g == o.g
  | _ => false

def Node.isOp : Node → Bool
  | .op .. => true
  | _ => false

/-- The scan: `done` are the nodes left of the cursor (already final for this pass), the second
    argument is the rest of the list. -/
def passZ (o : OpCfg) : List Node → List Node → List Node
  | done, [] => done
  | done, [x] =>
    if x.isOpOf o then
      match o.t with
      | .inf => done
      | .pre => done
      | .post =>
        match done.getLast? with
        | some left => done.dropLast ++ [.group o.g [left] 1]
        | none => done
    else done ++ [x]
  | done, x :: y :: rest =>
    if x.isOpOf o then
      match o.t with
      | .inf =>
        match done.getLast? with
        | some left => passZ o (done.dropLast ++ [combineL o.g left y]) rest
        | none => passZ o done (y :: rest)
      | .pre => passZ o (done ++ [.group o.g [y] 1]) rest
      | .post =>
        match done.getLast? with
        | some left => passZ o (done.dropLast ++ [.group o.g [left] 1]) (y :: rest)
        | none => passZ o done (y :: rest)
    else passZ o (done ++ [x]) (y :: rest)
termination_by _ rest => rest.length
decreasing_by all_goals simp_wf <;> omega

def Node.laOK : Node → Bool
  | .op _ _ la _ => la
  | _ => true

theorem pyGet_append_len {α} (done : List α) (x : α) (rest : List α) :
    pyGet (done ++ x :: rest) (done.length : Int) = .ok x := by
  rw [pyGet_nat]; simp

theorem opLoopL_unfold (o : OpCfg) (group : List Node) (i : Nat) (hi : i < group.length)
    {g' : List Node} {i' : Nat} (hs : opStepL o group i = .ok (g', i')) :
    opLoopL o group i = opLoopL o g' i' := by
  rw [opLoopL]
  simp only [hi, dite_true]
  split
  · next e he => rw [hs] at he; cases he
  · next g1 i1 he => rw [hs] at he; injection he with he; injection he with h1 h2; subst h1; subst h2; rfl

theorem opLoopL_end (o : OpCfg) (group : List Node) : opLoopL o group group.length = .ok group := by
  rw [opLoopL]; simp

theorem opStepL_skip (o : OpCfg) (done : List Node) (x : Node) (rest : List Node)
    (hx : x.isOpOf o = false) :
    opStepL o (done ++ x :: rest) done.length = .ok (done ++ x :: rest, done.length + 1) := by
  unfold opStepL
  rw [pyGet_append_len]
  cases x <;> simp_all [Node.isOpOf]

theorem opStepL_op (o : OpCfg) (done : List Node) (rest : List Node) (t g la txt)
    (hx : (Node.op t g la txt).isOpOf o = true) :
    opStepL o (done ++ .op t g la txt :: rest) done.length
      = replaceSelf o.t o.g la (done ++ .op t g la txt :: rest) done.length := by
  unfold opStepL
  rw [pyGet_append_len]
  simp only [Node.isOpOf, Bool.and_eq_true, beq_iff_eq] at hx
  simp [hx.1, hx.2]

theorem eraseIdx_append_len {α} (done : List α) (x : α) (rest : List α) :
    (done ++ x :: rest).eraseIdx done.length = done ++ rest := by
  rw [List.eraseIdx_append_of_length_le (Nat.le_refl _)]; simp

theorem set_append_len {α} (done : List α) (x v : α) (rest : List α) :
    (done ++ x :: rest).set done.length v = done ++ v :: rest := by
  rw [List.set_append_right _ _ (Nat.le_refl _)]; simp

theorem pySplice_append_len {α} (d mid l : List α) (a b : Nat) :
    pySplice (d ++ l) (d.length + a) (d.length + b) mid = d ++ pySplice l a b mid := by
  unfold pySplice
  have : max (d.length + a) (d.length + b) = d.length + max a b := by omega
  rw [this, List.take_append, List.drop_append]
  have h1 : List.take (d.length + a) d = d := List.take_of_length_le (by omega)
  have h2 : List.drop (d.length + max a b) d = [] := List.drop_of_length_le (by omega)
  simp [h1, h2]

theorem prefixReplace_ctx (g : GK) (done : List Node) (x y : Node) (rest : List Node) :
    prefixReplace g (done ++ x :: y :: rest) done.length
      = .ok (done ++ .group g [y] 1 :: rest, done.length) := by
  unfold prefixReplace
  have hl : done.length < (done ++ x :: y :: rest).length := by simp
  rw [pyDel_ok_nat hl, eraseIdx_append_len]
  have h2 : done.length + 1 < (done ++ x :: y :: rest).length := by simp
  simp only [h2, if_true]
  have h3 : done.length < (done ++ y :: rest).length := by simp
  simp only [pyGet_ok_nat h3, pySet_ok_nat h3]
  simp

theorem prefixReplace_last (g : GK) (done : List Node) (x : Node) :
    prefixReplace g (done ++ [x]) done.length = .ok (done, done.length) := by
  unfold prefixReplace
  have hl : done.length < (done ++ [x]).length := by simp
  rw [pyDel_ok_nat hl, eraseIdx_append_len]
  simp

theorem infixReplace_ctx (g : GK) (d : List Node) (left x right : Node) (rest : List Node) :
    infixReplace g true (d ++ left :: x :: right :: rest) (d.length + 1)
      = .ok (d ++ combineL g left right :: rest, d.length + 1) := by
  unfold infixReplace
  have h1 : 0 < d.length + 1 ∧ d.length + 1 + 1 < (d ++ left :: x :: right :: rest).length := by
    simp; omega
  simp only [h1, and_self, if_true]
  have e1 : ((d.length + 1 : Nat) : Int) - 1 = (d.length : Int) := by omega
  have e2 : ((d.length + 1 : Nat) : Int) + 1 = ((d.length + 2 : Nat) : Int) := by omega
  rw [e1, e2, pyGet_append_len]
  have : pyGet (d ++ left :: x :: right :: rest) ((d.length + 2 : Nat) : Int) = .ok right := by
    rw [pyGet_nat]; simp
  rw [this]
  simp only [Bool.and_true, Bool.not_true, Bool.and_false]
  unfold combineL
  split
  · next ns b h =>
    simp only [h]
    have e3 : d.length + 1 - 1 = d.length := by omega
    rw [e3, set_append_len]
    have := pySplice_append_len d [] (Node.group g (ns ++ [right]) b :: x :: right :: rest) 1 3
    rw [show d.length + 1 + 2 = d.length + 3 from rfl, this]
    simp [pySplice]
  · next h =>
    simp only [h]
    have e3 : d.length + 1 - 1 = d.length := by omega
    simp only [e3, Bool.false_eq_true, if_false]
    have := pySplice_append_len d [Node.group g [left, right] 1] (left :: x :: right :: rest) 0 3
    rw [show d.length + 1 + 2 = d.length + 3 from rfl]
    rw [Nat.add_zero] at this
    rw [this]
    simp [pySplice]

theorem pyDel_zero {α} (x : α) (rest : List α) : pyDel (x :: rest) ((0 : Nat) : Int) = .ok rest := by
  rw [pyDel_ok_nat (by simp)]; simp

theorem infixReplace_first (g : GK) (la : Bool) (x : Node) (rest : List Node) :
    infixReplace g la (x :: rest) 0 = .ok (rest, 0) := by
  unfold infixReplace
  simp only [Nat.lt_irrefl, false_and, if_false, pyDel_zero]

theorem infixReplace_last (g : GK) (la : Bool) (done : List Node) (x : Node) :
    infixReplace g la (done ++ [x]) done.length = .ok (done, done.length) := by
  unfold infixReplace
  have h : ¬ (0 < done.length ∧ done.length + 1 < (done ++ [x]).length) := by simp
  simp only [h, if_false]
  have hl : done.length < (done ++ [x]).length := by simp
  rw [pyDel_ok_nat hl, eraseIdx_append_len]
  simp

theorem postfixReplace_ctx (g : GK) (d : List Node) (left x : Node) (rest : List Node) :
    postfixReplace g (d ++ left :: x :: rest) (d.length + 1)
      = .ok (d ++ .group g [left] 1 :: rest, d.length + 1) := by
  unfold postfixReplace
  have hl : d.length + 1 < (d ++ left :: x :: rest).length := by simp
  rw [pyDel_ok_nat hl]
  have : (d ++ left :: x :: rest).eraseIdx (d.length + 1) = d ++ left :: rest := by
    have := eraseIdx_append_len (d ++ [left]) x rest
    simpa using this
  rw [this]
  simp only [Nat.zero_lt_succ, if_true]
  have e1 : ((d.length + 1 : Nat) : Int) - 1 = (d.length : Int) := by omega
  have h3 : d.length < (d ++ left :: rest).length := by simp
  simp only [e1, pyGet_ok_nat h3, pySet_ok_nat h3]
  simp

theorem postfixReplace_first (g : GK) (x : Node) (rest : List Node) :
    postfixReplace g (x :: rest) 0 = .ok (rest, 0) := by
  unfold postfixReplace
  simp only [pyDel_zero, Nat.lt_irrefl, if_false]

theorem dropLast_append_getLast {α} {l : List α} {a : α} (h : l.getLast? = some a) :
    l = l.dropLast ++ [a] := by
  rw [List.getLast?_eq_some_iff] at h
  obtain ⟨ys, rfl⟩ := h
  simp

theorem isOpOf_true {o : OpCfg} {x : Node} (h : x.isOpOf o = true) :
    ∃ la txt, x = .op o.t o.g la txt := by
  cases x <;> simp [Node.isOpOf] at h
  obtain ⟨rfl, rfl⟩ := h
  exact ⟨_, _, rfl⟩

/-- one loop iteration, as an equation between loop states -/
theorem opLoopL_step {o : OpCfg} {group g' : List Node} {i i' : Nat}
    (hs : opStepL o group i = .ok (g', i')) (hi : i < group.length) : opLoopL o group i = opLoopL o g' i' :=
  opLoopL_unfold o group i hi hs

theorem replaceSelf_inf {t : OpT} (h : t = .inf) (g la grp p) :
    replaceSelf t g la grp p = infixReplace g la grp p := by subst h; rfl
theorem replaceSelf_pre {t : OpT} (h : t = .pre) (g la grp p) :
    replaceSelf t g la grp p = prefixReplace g grp p := by subst h; rfl
theorem replaceSelf_post {t : OpT} (h : t = .post) (g la grp p) :
    replaceSelf t g la grp p = postfixReplace g grp p := by subst h; rfl

/-- The index loop computes the scan. -/
theorem opLoopL_eq_passZ (o : OpCfg) (done rest : List Node)
    (hla : ∀ x ∈ rest, x.laOK = true) :
    opLoopL o (done ++ rest) done.length = .ok (passZ o done rest) := by
  fun_induction passZ o done rest with
  | case1 done => simp [opLoopL_end]
  | case2 done x hx hinf =>
    obtain ⟨la, txt, rfl⟩ := isOpOf_true hx
    have hs : opStepL o (done ++ [Node.op o.t o.g la txt]) done.length = .ok (done, done.length) := by
      rw [opStepL_op _ _ _ _ _ _ _ hx, replaceSelf_inf hinf]; exact infixReplace_last _ _ _ _
    rw [opLoopL_step hs (by simp)]
    exact opLoopL_end o done
  | case3 done x hx hpre =>
    obtain ⟨la, txt, rfl⟩ := isOpOf_true hx
    have hs : opStepL o (done ++ [Node.op o.t o.g la txt]) done.length = .ok (done, done.length) := by
      rw [opStepL_op _ _ _ _ _ _ _ hx, replaceSelf_pre hpre]; exact prefixReplace_last _ _ _
    rw [opLoopL_step hs (by simp)]
    exact opLoopL_end o done
  | case4 done x hx hpost left hl =>
    obtain ⟨la, txt, rfl⟩ := isOpOf_true hx
    have hd := dropLast_append_getLast hl
    have hlen : done.length = done.dropLast.length + 1 := by
      conv => lhs; rw [hd]
      simp
    have hg : done ++ [Node.op o.t o.g la txt] = done.dropLast ++ left :: Node.op o.t o.g la txt :: [] := by
      conv => lhs; rw [hd]
      simp
    have hs : opStepL o (done ++ [Node.op o.t o.g la txt]) done.length
        = .ok (done.dropLast ++ Node.group o.g [left] 1 :: [], done.length) := by
      rw [opStepL_op _ _ _ _ _ _ _ hx, replaceSelf_post hpost, hg, hlen]; exact postfixReplace_ctx _ _ _ _ _
    rw [opLoopL_step hs (by simp)]
    have : done.length = (done.dropLast ++ [Node.group o.g [left] 1]).length := by simp; omega
    rw [this]
    exact opLoopL_end o _
  | case5 done x hx hpost hl =>
    obtain ⟨la, txt, rfl⟩ := isOpOf_true hx
    have hd : done = [] := by
      cases done with
      | nil => rfl
      | cons a t => simp [List.getLast?_cons] at hl
    subst hd
    have hs : opStepL o ([] ++ [Node.op o.t o.g la txt]) ([] : List Node).length = .ok ([], 0) := by
      rw [opStepL_op _ [] _ _ _ _ _ hx, replaceSelf_post hpost]; exact postfixReplace_first _ _ _
    rw [opLoopL_step hs (by simp)]
    exact opLoopL_end o []
  | case6 done x hx =>
    have hx' : x.isOpOf o = false := by simpa using hx
    rw [opLoopL_step (opStepL_skip o done x [] hx') (by simp)]
    have : done.length + 1 = (done ++ [x]).length := by simp
    rw [this]
    exact opLoopL_end o _
  | case7 done x y rest hx hinf left hl ih =>
    obtain ⟨la, txt, rfl⟩ := isOpOf_true hx
    have hlat : la = true := by
      have := hla (Node.op o.t o.g la txt) (by simp)
      simpa [Node.laOK] using this
    subst hlat
    have hd := dropLast_append_getLast hl
    have hlen : done.length = done.dropLast.length + 1 := by
      conv => lhs; rw [hd]
      simp
    have hg : done ++ Node.op o.t o.g true txt :: y :: rest
        = done.dropLast ++ left :: Node.op o.t o.g true txt :: y :: rest := by
      conv => lhs; rw [hd]
      simp
    have hs : opStepL o (done ++ Node.op o.t o.g true txt :: y :: rest) done.length
        = .ok (done.dropLast ++ combineL o.g left y :: rest, done.length) := by
      rw [opStepL_op _ _ _ _ _ _ _ hx, replaceSelf_inf hinf, hg, hlen]; exact infixReplace_ctx _ _ _ _ _ _
    rw [opLoopL_step hs (by simp)]
    have e : done.length = (done.dropLast ++ [combineL o.g left y]).length := by simp; omega
    have e2 : done.dropLast ++ combineL o.g left y :: rest = (done.dropLast ++ [combineL o.g left y]) ++ rest := by simp
    rw [e, e2]
    exact ih (fun z hz => hla z (by simp [hz]))
  | case8 done x y rest hx hinf hl ih =>
    obtain ⟨la, txt, rfl⟩ := isOpOf_true hx
    have hd : done = [] := by
      cases done with
      | nil => rfl
      | cons a t => simp [List.getLast?_cons] at hl
    subst hd
    have hs : opStepL o ([] ++ Node.op o.t o.g la txt :: y :: rest) ([] : List Node).length = .ok (y :: rest, 0) := by
      rw [opStepL_op _ [] _ _ _ _ _ hx, replaceSelf_inf hinf]; exact infixReplace_first _ _ _ _
    rw [opLoopL_step hs (by simp)]
    exact ih (fun z hz => hla z (by simp [hz]))
  | case9 done x y rest hx hpre ih =>
    obtain ⟨la, txt, rfl⟩ := isOpOf_true hx
    have hs : opStepL o (done ++ Node.op o.t o.g la txt :: y :: rest) done.length
        = .ok (done ++ Node.group o.g [y] 1 :: rest, done.length) := by
      rw [opStepL_op _ _ _ _ _ _ _ hx, replaceSelf_pre hpre]; exact prefixReplace_ctx _ _ _ _ _
    rw [opLoopL_step hs (by simp)]
    -- the loop now looks at the new group (not an operator) and moves on
    have hng : (Node.group o.g [y] 1).isOpOf o = false := rfl
    rw [opLoopL_step (opStepL_skip o done _ rest hng) (by simp)]
    have e : done.length + 1 = (done ++ [Node.group o.g [y] 1]).length := by simp
    have e2 : done ++ Node.group o.g [y] 1 :: rest = (done ++ [Node.group o.g [y] 1]) ++ rest := by simp
    rw [e, e2]
    exact ih (fun z hz => hla z (by simp [hz]))
  | case10 done x y rest hx hpost left hl ih =>
    obtain ⟨la, txt, rfl⟩ := isOpOf_true hx
    have hd := dropLast_append_getLast hl
    have hlen : done.length = done.dropLast.length + 1 := by
      conv => lhs; rw [hd]
      simp
    have hg : done ++ Node.op o.t o.g la txt :: y :: rest
        = done.dropLast ++ left :: Node.op o.t o.g la txt :: y :: rest := by
      conv => lhs; rw [hd]
      simp
    have hs : opStepL o (done ++ Node.op o.t o.g la txt :: y :: rest) done.length
        = .ok (done.dropLast ++ Node.group o.g [left] 1 :: y :: rest, done.length) := by
      rw [opStepL_op _ _ _ _ _ _ _ hx, replaceSelf_post hpost, hg, hlen]; exact postfixReplace_ctx _ _ _ _ _
    rw [opLoopL_step hs (by simp)]
    have e : done.length = (done.dropLast ++ [Node.group o.g [left] 1]).length := by simp; omega
    have e2 : done.dropLast ++ Node.group o.g [left] 1 :: y :: rest
        = (done.dropLast ++ [Node.group o.g [left] 1]) ++ y :: rest := by simp
    rw [e, e2]
    exact ih (fun z hz => hla z (by simp at hz ⊢; rcases hz with h | h <;> simp [h]))
  | case11 done x y rest hx hpost hl ih =>
    obtain ⟨la, txt, rfl⟩ := isOpOf_true hx
    have hd : done = [] := by
      cases done with
      | nil => rfl
      | cons a t => simp [List.getLast?_cons] at hl
    subst hd
    have hs : opStepL o ([] ++ Node.op o.t o.g la txt :: y :: rest) ([] : List Node).length = .ok (y :: rest, 0) := by
      rw [opStepL_op _ [] _ _ _ _ _ hx, replaceSelf_post hpost]; exact postfixReplace_first _ _ _
    rw [opLoopL_step hs (by simp)]
    exact ih (fun z hz => hla z (by simp at hz ⊢; rcases hz with h | h <;> simp [h]))
  | case12 done x y rest hx ih =>
    have hx' : x.isOpOf o = false := by simpa using hx
    rw [opLoopL_step (opStepL_skip o done x (y :: rest) hx') (by simp)]
    have e : done.length + 1 = (done ++ [x]).length := by simp
    have e2 : done ++ x :: y :: rest = (done ++ [x]) ++ y :: rest := by simp
    rw [e, e2]
    exact ih (fun z hz => hla z (by simp at hz ⊢; rcases hz with h | h <;> simp [h]))

end WM.Parser
