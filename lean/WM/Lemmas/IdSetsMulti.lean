import WM.Lemmas.IdSetsGeneric
/-! `MultiIdSet`: serial sub-sets glued by offsets. -/
set_option linter.unusedSimpArgs false
namespace WM.IdSets
open WM.Spec.IdSet (Sorted)

/-- "SERIAL sub-DocIdSets": as many offsets as sets, at least one, the first offset is 0, offsets
    ascend, and every member of set `k` (shifted) lies below the next offset. -/
structure Multi.WF (m : Multi) : Prop where
  len_eq : m.sets.length = m.offsets.length
  nonempty : 0 < m.offsets.length
  first : m.offsets[0]'nonempty = 0
  mono : ∀ (i j : Nat) (hij : i ≤ j) (hj : j < m.offsets.length), m.offsets[i]'(by omega) ≤ m.offsets[j]
  fits : ∀ (k : Nat) (hk : k + 1 < m.offsets.length) (hs : k < m.sets.length),
    ∀ x ∈ (m.sets[k]).iter, x + m.offsets[k]'(by omega) < m.offsets[k + 1]
  wf : ∀ s ∈ m.sets, s.WF

theorem Multi.mem_iter (m : Multi) (x : Nat) :
    x ∈ m.iter ↔ ∃ (k : Nat) (hk : k < m.sets.length) (hk' : k < m.offsets.length),
      ∃ y ∈ (m.sets[k]).iter, x = y + m.offsets[k] := by
  unfold Multi.iter
  rw [List.mem_flatMap]
  constructor
  · rintro ⟨⟨s, off⟩, hp, hx⟩
    rcases List.getElem_of_mem hp with ⟨k, hk, hget⟩
    rw [List.length_zip] at hk
    rw [List.getElem_zip] at hget
    simp only [Prod.mk.injEq] at hget
    rcases List.mem_map.mp hx with ⟨y, hy, rfl⟩
    refine ⟨k, by omega, by omega, y, ?_, ?_⟩
    · rw [hget.1]; exact hy
    · rw [hget.2]
  · rintro ⟨k, hk, hk', y, hy, rfl⟩
    refine ⟨(m.sets[k], m.offsets[k]), ?_, ?_⟩
    · have hz : k < (m.sets.zip m.offsets).length := by rw [List.length_zip]; omega
      have := List.getElem_mem hz
      rw [List.getElem_zip] at this
      exact this
    · exact List.mem_map.mpr ⟨y, hy, rfl⟩

/-- `item in multiidset`. -/
theorem Multi.contains_spec (m : Multi) (h : m.WF) (item : Nat) :
    m.contains item = .ok (decide (item ∈ m.iter)) := by
  unfold Multi.contains Multi.documentSet bisectRight
  rcases bisectBy_spec (· ≤ item) m.offsets
      (fun i j hij hj hp => by
        have := h.mono i j (by omega) hj
        simp only [decide_eq_true_eq] at hp ⊢; omega)
      m.offsets.length 0 m.offsets.length rfl (Nat.zero_le _) (Nat.le_refl _)
    with ⟨r, hr, _, hrl, h3, h4⟩
  rw [hr]
  simp only [Except.map, bind, Except.bind]
  have hr1 : 1 ≤ r := by
    apply Classical.byContradiction
    intro hnot
    have := h4 0 h.nonempty (by omega) h.nonempty
    rw [h.first] at this
    simp at this
  have hk' : r - 1 < m.offsets.length := by omega
  have hk : r - 1 < m.sets.length := by rw [h.len_eq]; exact hk'
  rw [List.getElem?_eq_getElem hk', List.getElem?_eq_getElem hk]
  simp only
  have hle : m.offsets[r - 1] ≤ item := by
    have := h3 (r - 1) hk' (Nat.zero_le _) (by omega)
    simpa using this
  have hnlt : ¬ item < m.offsets[r - 1] := by omega
  rw [if_neg hnlt, Inner.contains_spec _ (h.wf _ (List.getElem_mem hk))]
  congr 1
  rw [decide_eq_decide, Multi.mem_iter]
  constructor
  · intro hy
    exact ⟨r - 1, hk, hk', item - m.offsets[r - 1], hy, by omega⟩
  · rintro ⟨k, hks, hko, y, hy, hxy⟩
    have hkeq : k = r - 1 := by
      rcases Nat.lt_trichotomy k (r - 1) with hlt | heq | hgt
      · exfalso
        have hf := h.fits k (by omega) hks y hy
        have hm := h.mono (k + 1) (r - 1) (by omega) hk'
        omega
      · exact heq
      · exfalso
        have := h4 k hko (by omega) hko
        simp only [decide_eq_false_iff_not] at this
        omega
    subst hkeq
    have : item - m.offsets[r - 1] = y := by omega
    rw [this]; exact hy

theorem Multi.len_aux : ∀ (sets : List Inner) (offsets : List Nat), sets.length = offsets.length →
    (∀ s ∈ sets, s.WF) → ∀ acc : Nat,
    foldE (fun acc s => (s.len).map (acc + ·)) acc sets
      = .ok (acc + ((sets.zip offsets).flatMap fun (s, off) => s.iter.map (· + off)).length)
  | [], [], _, _, acc => by simp [foldE]
  | [], _ :: _, h, _, _ => by simp at h
  | _ :: _, [], h, _, _ => by simp at h
  | s :: ss, o :: os, h, hwf, acc => by
    have ih := Multi.len_aux ss os (by simpa using h) (fun x hx => hwf x (List.mem_cons_of_mem _ hx))
      (acc + s.iter.length)
    simp only [foldE, Inner.len_spec s (hwf s (by simp)), Except.map] at ih ⊢
    rw [ih]
    simp only [List.zip_cons_cons, List.flatMap_cons, List.length_append, List.length_map]
    congr 1
    omega

/-- `len(multiidset)`. -/
theorem Multi.len_spec (m : Multi) (h : m.WF) : m.len = .ok m.iter.length := by
  unfold Multi.len Multi.iter
  rw [Multi.len_aux m.sets m.offsets h.len_eq h.wf 0]
  simp

/-- `list(multiidset)` is strictly ascending. -/
theorem Multi.sorted_iter (m : Multi) (h : m.WF) : Sorted m.iter := by
  unfold Multi.iter Sorted
  rw [List.flatMap_def, List.pairwise_flatten]
  constructor
  · intro l hl
    rcases List.mem_map.mp hl with ⟨⟨s, off⟩, hp, rfl⟩
    have hs : s ∈ m.sets := (List.of_mem_zip hp).1
    have := Inner.sorted_iter s (h.wf s hs)
    simp only
    rw [List.pairwise_map]
    exact List.Pairwise.imp (fun hab => by omega) this
  · rw [List.pairwise_map, List.pairwise_iff_getElem]
    intro i j hi hj hij
    rw [List.length_zip] at hi hj
    simp only [List.getElem_zip]
    intro x hx y hy
    rcases List.mem_map.mp hx with ⟨a, ha, rfl⟩
    rcases List.mem_map.mp hy with ⟨b, hb, rfl⟩
    have hf := h.fits i (by omega) (by omega) a ha
    have hm := h.mono (i + 1) j (by omega) (by omega)
    omega

end WM.IdSets
