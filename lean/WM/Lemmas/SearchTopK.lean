import WM.Props.C05
import WM.Lemmas.SearchIndex
/-!
Glue between the search family (`WM.Compile`: what the per-segment matchers of a query enumerate) and
the collector family (`WM.Collect`: what `TopCollector` / `UnlimitedCollector` make of per-segment posting
streams): the matcher lists of a run *are* the collector's input.
-/
namespace WM.Compile
open WM.Search

/-- the per-segment matcher lists of a run (`Collector.run`: one matcher per leaf searcher, with its
    offset) as the collector family's input.  `flags k doc` = "the matcher entered a new block at this
    posting" and `sup k` = `matcher.supports_block_quality()` of the `k`-th segment are arbitrary. -/
def collectorSegs (ls : LeafScore) (so : ShapeOracle) (ctx : Ctx) (q : Query) (flags : Nat → Nat → Bool)
    (sup : Nat → Bool) : Nat → Nat → Index → List WM.Collect.Seg
  | _, _, [] => []
  | k, off, s :: rest =>
    ⟨off, sup k, (compile ls so s ctx q).map (fun e => WM.Collect.Posting.mk' e.id e.score (flags k e.id))⟩ ::
      collectorSegs ls so ctx q flags sup (k + 1) (off + s.size) rest

/-- a hit of the search family as a hit of the ranking specification (with the `final()` hook) -/
def toRank (useFinal : Bool) (final : Nat → Rat → Rat) (h : Hit) : WM.Rank.Hit :=
  ⟨h.id, if useFinal then final h.id h.score else h.score⟩

theorem collectorSegs_fresh (ls : LeafScore) (so : ShapeOracle) (ctx : Ctx) (q : Query) (flags : Nat → Nat → Bool)
    (sup : Nat → Bool) : ∀ (idx : Index) (k off : Nat), WM.Collect.Fresh (collectorSegs ls so ctx q flags sup k off idx)
  | [], _, _ => by intro s hs; cases hs
  | s :: rest, k, off => by
    intro sg hsg p hp
    simp only [collectorSegs, List.mem_cons] at hsg
    rcases hsg with rfl | hsg
    · obtain ⟨e, _, rfl⟩ := List.mem_map.mp hp
      rfl
    · exact collectorSegs_fresh ls so ctx q flags sup rest (k + 1) (off + s.size) sg hsg p hp

theorem collectorSegs_docs (ls : LeafScore) (so : ShapeOracle) (ctx : Ctx) (q : Query) (flags : Nat → Nat → Bool)
    (sup : Nat → Bool) : ∀ (idx : Index) (k off : Nat),
      WM.Collect.globalDocs (collectorSegs ls so ctx q flags sup k off idx) = (runFrom ls so ctx q off idx).map (·.id)
  | [], _, _ => rfl
  | s :: rest, k, off => by
    have ih := collectorSegs_docs ls so ctx q flags sup rest (k + 1) (off + s.size)
    simp only [WM.Collect.globalDocs, collectorSegs, List.flatMap_cons] at ih ⊢
    rw [ih]
    simp only [runFrom, List.map_append, shift, List.map_map]
    congr 1
    apply List.map_congr_left
    intro e _
    simp [WM.Collect.Posting.mk', Nat.add_comm]

theorem collectorSegs_hits (ls : LeafScore) (so : ShapeOracle) (ctx : Ctx) (q : Query) (flags : Nat → Nat → Bool)
    (sup : Nat → Bool) (cfg : WM.Collect.Cfg) (final : Nat → Rat → Rat) : ∀ (idx : Index) (k off : Nat),
      WM.Collect.allHits cfg final (collectorSegs ls so ctx q flags sup k off idx) =
        (runFrom ls so ctx q off idx).map (toRank cfg.useFinal final)
  | [], _, _ => rfl
  | s :: rest, k, off => by
    have ih := collectorSegs_hits ls so ctx q flags sup cfg final rest (k + 1) (off + s.size)
    simp only [WM.Collect.allHits, collectorSegs, List.flatMap_cons] at ih ⊢
    rw [ih]
    simp only [runFrom, List.map_append, shift, List.map_map]
    congr 1
    apply List.map_congr_left
    intro e _
    simp [WM.Collect.toHit, WM.Collect.Posting.mk', toRank, Nat.add_comm]

/-- the global document numbers of the specified hits ascend strictly (segment after segment, each shifted
    by its offset) -/
theorem hitsFrom_asc (ls : LeafScore) (q : Query) : ∀ (idx : Index) (off : Nat),
    ((hitsFrom ls q off idx).map (·.id)).Pairwise (· < ·) ∧ ∀ i ∈ (hitsFrom ls q off idx).map (·.id), off ≤ i
  | [], _ => ⟨by simp [hitsFrom], by simp [hitsFrom]⟩
  | s :: rest, off => by
    obtain ⟨ih1, ih2⟩ := hitsFrom_asc ls q rest (off + s.size)
    have hseg : ∀ i ∈ (shift off (segHits ls q s)).map (·.id), off ≤ i ∧ i < off + s.size := by
      intro i hi
      rw [shift_ids, segHits_ids] at hi
      obtain ⟨j, hj, rfl⟩ := List.mem_map.mp hi
      have hl := (List.mem_filter.mp hj).1
      unfold Segment.live at hl
      have := (List.mem_filter.mp hl).1
      have : j < s.size := by simpa using this
      omega
    have hsorted : ((shift off (segHits ls q s)).map (·.id)).Pairwise (· < ·) := by
      rw [shift_ids, segHits_ids, List.pairwise_map]
      have := live_asc s
      unfold Asc at this
      exact (this.sublist List.filter_sublist).imp (by intro a b h; omega)
    simp only [hitsFrom, List.map_append]
    refine ⟨List.pairwise_append.mpr ⟨hsorted, ih1, fun a ha b hb => ?_⟩, fun i hi => ?_⟩
    · have := (hseg a ha).2; have := ih2 b hb; omega
    · rcases List.mem_append.mp hi with h | h
      · exact (hseg i h).1
      · have := ih2 i h; omega

end WM.Compile
