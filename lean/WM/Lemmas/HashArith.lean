import WM.Model.HashFile
/-! Modular arithmetic of the probe sequence and small list facts used by the hash-table proofs. -/
set_option linter.unusedSimpArgs false
namespace WM.HashFile

/-- slot reached after `d` probes from `H` in a table of `n` slots -/
def P (n H d : Nat) : Nat := (H + d) % n

theorem P_lt {n : Nat} (hn : 0 < n) (H d : Nat) : P n H d < n := Nat.mod_lt _ hn

theorem succ_mod_eq {n s : Nat} (hs : s < n) : (s + 1) % n = nextSlot n s := by
  unfold nextSlot
  by_cases h : s + 1 = n
  · rw [if_pos h, h, Nat.mod_self]
  · rw [if_neg h, Nat.mod_eq_of_lt (by omega)]

theorem P_succ (n H d : Nat) : (P n H d + 1) % n = P n H (d + 1) := by
  unfold P
  rw [Nat.add_mod, Nat.mod_mod, ← Nat.add_mod, Nat.add_assoc]

theorem P_inj {n H d1 d2 : Nat} (h1 : d1 < d2) (h2 : d2 < n) : P n H d1 ≠ P n H d2 := by
  unfold P
  intro heq
  have := Nat.sub_mod_eq_zero_of_mod_eq heq.symm
  have hsub : H + d2 - (H + d1) = d2 - d1 := by omega
  rw [hsub, Nat.mod_eq_of_lt (by omega)] at this
  omega

theorem P_inj' {n H d1 d2 : Nat} (h1 : d1 < n) (h2 : d2 < n) (h : P n H d1 = P n H d2) : d1 = d2 := by
  rcases Nat.lt_trichotomy d1 d2 with hlt | heq | hgt
  · exact absurd h (P_inj hlt h2)
  · exact heq
  · exact absurd h.symm (P_inj hgt h1)

theorem P_surj {n s : Nat} (H : Nat) (hs : s < n) : ∃ d, d < n ∧ P n H d = s := by
  have hn : 0 < n := by omega
  have hr : H % n < n := Nat.mod_lt _ hn
  unfold P
  by_cases hc : H % n ≤ s
  · refine ⟨s - H % n, by omega, ?_⟩
    rw [Nat.add_mod, Nat.mod_eq_of_lt (a := s - H % n) (by omega)]
    have : H % n + (s - H % n) = s := by omega
    rw [this, Nat.mod_eq_of_lt hs]
  · refine ⟨s + n - H % n, by omega, ?_⟩
    rw [Nat.add_mod, Nat.mod_eq_of_lt (a := s + n - H % n) (by omega)]
    have : H % n + (s + n - H % n) = s + n := by omega
    rw [this, Nat.add_mod_right, Nat.mod_eq_of_lt hs]

/-- "occupied" as the reader sees it (`if not itempos: return`) -/
def nz (s : Slot) : Bool := s.2 != 0

theorem nz_null : nz null = false := rfl

theorem countP_set_of_null {T : List Slot} {i : Nat} {e : Slot} (hi : i < T.length)
    (hnull : nz T[i] = false) (he : nz e = true) : (T.set i e).countP nz = T.countP nz + 1 := by
  induction T generalizing i with
  | nil => simp at hi
  | cons a t ih =>
    cases i with
    | zero =>
      simp only [List.getElem_cons_zero] at hnull
      simp [List.countP_cons, hnull, he]
    | succ k =>
      simp only [List.getElem_cons_succ] at hnull
      simp only [List.set_cons_succ, List.countP_cons]
      rw [ih (by simpa using hi) hnull]
      omega

theorem countP_lt_of_exists_not {T : List Slot} {i : Nat} (hi : i < T.length) (h : nz T[i] = false) :
    T.countP nz < T.length := by
  apply Classical.byContradiction
  intro hnot
  have hle := List.countP_le_length (p := nz) (l := T)
  have heq : T.countP nz = T.length := by omega
  rw [List.countP_eq_length] at heq
  have := heq T[i] (List.getElem_mem hi)
  rw [h] at this; cases this

/-- `takeWhile` only looks at the list up to the first failing element. -/
theorem takeWhile_set_after {α} (p : α → Bool) : ∀ (L : List α) (t i : Nat) (x : α) (ht : t < L.length),
    p L[t] = false → t < i → (L.set i x).takeWhile p = L.takeWhile p
  | [], t, _, _, ht, _, _ => by simp at ht
  | a :: l, 0, i, x, _, hp, hti => by
    cases i with
    | zero => omega
    | succ k =>
      simp only [List.getElem_cons_zero] at hp
      simp [List.set_cons_succ, List.takeWhile_cons, hp]
  | a :: l, t + 1, i, x, ht, hp, hti => by
    cases i with
    | zero => omega
    | succ k =>
      simp only [List.getElem_cons_succ] at hp
      simp only [List.set_cons_succ, List.takeWhile_cons]
      split
      · rw [takeWhile_set_after p l t k x (by simpa using ht) hp (by omega)]
      · rfl

/-- Filling the first failing position extends the run. -/
theorem takeWhile_set_first {α} (p : α → Bool) : ∀ (L : List α) (t : Nat) (x : α) (ht : t < L.length),
    (∀ j (hj : j < t), p (L[j]'(by omega)) = true) → p L[t] = false → p x = true →
    (L.set t x).takeWhile p = L.takeWhile p ++ x :: (L.drop (t + 1)).takeWhile p
  | [], t, _, ht, _, _, _ => by simp at ht
  | a :: l, 0, x, _, _, hp, hx => by
    simp only [List.getElem_cons_zero] at hp
    simp [List.takeWhile_cons, hp, hx]
  | a :: l, t + 1, x, ht, hall, hp, hx => by
    have ha : p a = true := hall 0 (by omega)
    simp only [List.getElem_cons_succ] at hp
    simp only [List.set_cons_succ, List.takeWhile_cons, ha, ↓reduceIte, List.drop_succ_cons, List.cons_append]
    rw [takeWhile_set_first p l t x (by simpa using ht)
      (fun j hj => by have := hall (j + 1) (by omega); simpa using this) hp hx]

theorem takeWhile_length_first {α} (p : α → Bool) : ∀ (L : List α) (t : Nat) (ht : t < L.length),
    (∀ j (hj : j < t), p (L[j]'(by omega)) = true) → p L[t] = false → (L.takeWhile p).length = t
  | [], t, ht, _, _ => by simp at ht
  | a :: l, 0, _, _, hp => by
    simp only [List.getElem_cons_zero] at hp
    simp [List.takeWhile_cons, hp]
  | a :: l, t + 1, ht, hall, hp => by
    have ha : p a = true := hall 0 (by omega)
    simp only [List.getElem_cons_succ] at hp
    simp only [List.takeWhile_cons, ha, ↓reduceIte, List.length_cons]
    rw [takeWhile_length_first p l t (by simpa using ht)
      (fun j hj => by have := hall (j + 1) (by omega); simpa using this) hp]

/-- Every element of `takeWhile p` satisfies `p`, and sits at its index in the list. -/
theorem takeWhile_prefix {α} (p : α → Bool) (L : List α) :
    ∃ rest, L = L.takeWhile p ++ rest := ⟨L.dropWhile p, (List.takeWhile_append_dropWhile).symm⟩

theorem getElem_takeWhile_true {α} (p : α → Bool) (L : List α) (j : Nat) (hj : j < (L.takeWhile p).length) :
    ∃ hj' : j < L.length, p L[j] = true ∧ (L.takeWhile p)[j] = L[j] := by
  rcases takeWhile_prefix p L with ⟨rest, hrest⟩
  have hlen : j < L.length := by
    have := congrArg List.length hrest
    rw [List.length_append] at this; omega
  refine ⟨hlen, ?_, ?_⟩
  · have hm := (List.all_eq_true.mp (List.all_takeWhile (p := p) (l := L))) _ (List.getElem_mem hj)
    have : (L.takeWhile p)[j] = L[j] := by
      conv => rhs; arg 1; rw [hrest]
      rw [List.getElem_append_left hj]
    rw [← this]; exact hm
  · conv => rhs; arg 1; rw [hrest]
    rw [List.getElem_append_left hj]

theorem takeWhile_stop {α} (p : α → Bool) : ∀ (L : List α) (x : α),
    L[(L.takeWhile p).length]? = some x → p x = false
  | [], x, h => by simp at h
  | a :: l, x, h => by
    rw [List.takeWhile_cons] at h
    by_cases ha : p a = true
    · simp only [ha, ↓reduceIte, List.length_cons, List.getElem?_cons_succ] at h
      exact takeWhile_stop p l x h
    · simp only [ha] at h
      simp only [Bool.false_eq_true, ↓reduceIte, List.length_nil, List.getElem?_cons_zero,
        Option.some.injEq] at h
      subst h
      simpa using ha

end WM.HashFile
