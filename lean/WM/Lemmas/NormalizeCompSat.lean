import WM.Lemmas.NormalizeMerge
/-! `CompoundQuery.normalize` (after the clauses have been normalized) preserves the meaning of the
    compound, for `Or`/`DisjunctionMax` always and for `And` on clean clause lists. -/
namespace WM.Normalize
open WM.Sat WM.Clean

theorem satAny_of_mem (env : Env) (d : Doc) {x : Q} {l : List Q} (hx : x ∈ l) (hs : sat env x d = true) :
    satAny env l d = true := by
  rw [satAny_eq_any, List.any_eq_true]
  exact ⟨x, hx, hs⟩

theorem sat_of_satAll (env : Env) (d : Doc) {x : Q} {l : List Q} (hx : x ∈ l) (hs : satAll env l d = true) :
    sat env x d = true := by
  rw [satAll_eq_all, List.all_eq_true] at hs
  exact hs x hx

/-! ### De-duplication -/

theorem dedupe_or (env : Env) (d : Doc) (ef : List (Option Field)) :
    ∀ (l seen : List Q), (∀ o ∈ ef, ∃ b, Q.every o b ∈ seen ++ l) →
      (satAny env seen d || satAny env (dedupe ef seen l) d) = (satAny env seen d || satAny env l d)
  | [], _, _ => rfl
  | s :: rest, seen, hw => by
    unfold dedupe
    split
    · -- dropped: an Every clause covers its field
      rename_i hc
      simp only [Bool.and_eq_true, Bool.not_eq_true'] at hc
      have hw' : ∀ o ∈ ef, ∃ b, Q.every o b ∈ seen ++ rest := by
        intro o ho
        obtain ⟨b, hb⟩ := hw o ho
        refine ⟨b, ?_⟩
        rcases List.mem_append.mp hb with hb | hb
        · exact List.mem_append_left _ hb
        · rcases List.mem_cons.mp hb with e | hb
          · rw [← e] at hc; simp [Q.isEvery] at hc
          · exact List.mem_append_right _ hb
      rw [dedupe_or env d ef rest seen hw']
      simp only [satAny]
      cases hs : sat env s d
      · simp
      · have hm : s.field ∈ ef := by simpa using hc.2
        obtain ⟨b, hb⟩ := hw' s.field hm
        have hev : sat env (Q.every s.field b) d = true := by
          rw [sat_every]
          cases hf : s.field with
          | none => rfl
          | some f => exact field_sound env s f d hf hs
        have := satAny_of_mem env d hb hev
        rw [satAny_append] at this
        simp [this]
    · split
      · -- duplicate
        rename_i hc hd
        have hmem : s ∈ seen := by simpa using hd
        have hw' : ∀ o ∈ ef, ∃ b, Q.every o b ∈ seen ++ rest := by
          intro o ho
          obtain ⟨b, hb⟩ := hw o ho
          refine ⟨b, ?_⟩
          rcases List.mem_append.mp hb with hb | hb
          · exact List.mem_append_left _ hb
          · rcases List.mem_cons.mp hb with e | hb
            · rw [e]; exact List.mem_append_left _ hmem
            · exact List.mem_append_right _ hb
        rw [dedupe_or env d ef rest seen hw']
        simp only [satAny]
        cases hs : sat env s d
        · simp
        · simp [satAny_of_mem env d hmem hs]
      · -- kept
        have hw' : ∀ o ∈ ef, ∃ b, Q.every o b ∈ (s :: seen) ++ rest := by
          intro o ho
          obtain ⟨b, hb⟩ := hw o ho
          refine ⟨b, ?_⟩
          rcases List.mem_append.mp hb with hb | hb
          · exact List.mem_append_left _ (List.mem_cons_of_mem _ hb)
          · rcases List.mem_cons.mp hb with e | hb
            · rw [e]; exact List.mem_append_left _ (List.mem_cons_self ..)
            · exact List.mem_append_right _ hb
        have ih := dedupe_or env d ef rest (s :: seen) hw'
        simp only [satAny] at ih ⊢
        cases h1 : satAny env seen d <;> cases h2 : sat env s d <;> simp_all

theorem dedupe_and (env : Env) (d : Doc) (ef : List (Option Field)) :
    ∀ (l seen : List Q), (∀ s ∈ l, s.isEvery = false → ef.contains s.field = false) →
      (satAll env seen d && satAll env (dedupe ef seen l) d) = (satAll env seen d && satAll env l d)
  | [], _, _ => rfl
  | s :: rest, seen, hw => by
    have hw' : ∀ x ∈ rest, x.isEvery = false → ef.contains x.field = false :=
      fun x hx => hw x (List.mem_cons_of_mem _ hx)
    unfold dedupe
    split
    · rename_i hc
      simp only [Bool.and_eq_true, Bool.not_eq_true'] at hc
      have := hw s (List.mem_cons_self ..) hc.1
      rw [this] at hc
      simp at hc
    · split
      · rename_i hc hd
        have hmem : s ∈ seen := by simpa using hd
        rw [dedupe_and env d ef rest seen hw']
        simp only [satAll]
        cases hs : satAll env seen d
        · simp
        · simp [sat_of_satAll env d hmem hs]
      · have ih := dedupe_and env d ef rest (s :: seen) hw'
        simp only [satAll] at ih ⊢
        cases h1 : satAll env seen d <;> cases h2 : sat env s d <;> simp_all

theorem dedupe_isEmpty (ef : List (Option Field)) (l : List Q)
    (hw : ∀ s ∈ l, s.isEvery = false → ef.contains s.field = false) :
    (dedupe ef [] l).isEmpty = l.isEmpty := by
  cases l with
  | nil => rfl
  | cons s rest =>
    unfold dedupe
    split
    · rename_i hc
      simp only [Bool.and_eq_true, Bool.not_eq_true'] at hc
      have := hw s (List.mem_cons_self ..) hc.1
      rw [this] at hc
      simp at hc
    · simp

theorem dedupe_mem (ef : List (Option Field)) : ∀ (l seen : List Q), ∀ x ∈ dedupe ef seen l, x ∈ l
  | [], _, x, hx => by simp [dedupe] at hx
  | s :: rest, seen, x, hx => by
    unfold dedupe at hx
    split at hx
    · exact List.mem_cons_of_mem _ (dedupe_mem ef rest seen x hx)
    · split at hx
      · exact List.mem_cons_of_mem _ (dedupe_mem ef rest seen x hx)
      · rcases List.mem_cons.mp hx with rfl | hx
        · exact List.mem_cons_self ..
        · exact List.mem_cons_of_mem _ (dedupe_mem ef rest _ x hx)


/-! ### Small facts about the clause-list predicates of `WM.Clean` -/

theorem everyFieldOk_spec {l : List Q} (h : everyFieldOk l = true) :
    ∀ s ∈ l, ∀ f, s.field = some f → (∃ b, Q.every (some f) b ∈ l) → s.isEvery = true := by
  intro s hs f hf ⟨b, hb⟩
  simp only [everyFieldOk, List.all_eq_true] at h
  have := h _ hb
  simp only [List.all_eq_true, Bool.or_eq_true, bne_iff_ne, ne_eq] at this
  rcases this s hs with h1 | h1
  · exact absurd hf h1
  · exact h1

theorem rangesApart_filter (p : Q → Bool) : ∀ (l : List Q), rangesApart l = true →
    rangesApart (l.filter p) = true
  | [], _ => rfl
  | s :: rest, h => by
    simp only [rangesApart, Bool.and_eq_true] at h
    have ih := rangesApart_filter p rest h.2
    simp only [List.filter_cons]
    split
    · simp only [rangesApart, Bool.and_eq_true, ih, and_true]
      cases hr : s.asRange with
      | none => rfl
      | some r =>
        have h1 := h.1
        simp only [hr, List.all_eq_true] at h1 ⊢
        exact fun x hx => h1 x (List.mem_filter.mp hx).1
    · exact ih

theorem NFList_filter (p : Q → Bool) (l : List Q) (h : NFList l = true) : NFList (l.filter p) = true := by
  rw [NFList_iff] at *
  exact fun q hq => h q (List.mem_filter.mp hq).1

theorem filter_notNull_of_none {l : List Q} (h : ∀ s ∈ l, s.isNull = false) :
    l.filter (fun q => !q.isNull) = l := by
  rw [List.filter_eq_self]
  intro a ha
  simp [h a ha]

theorem satAny_filter_notNull (env : Env) (d : Doc) (l : List Q) :
    satAny env (l.filter fun q => !q.isNull) d = satAny env l d := by
  induction l with
  | nil => rfl
  | cons s rest ih =>
    simp only [List.filter_cons]
    cases hn : s.isNull
    · simp [satAny, ih]
    · have : s = .null := by cases s <;> simp [Q.isNull] at hn; rfl
      simp [satAny, ih, this, sat]

theorem satAll_filter_notEveryAll (env : Env) (d : Doc) (l : List Q) :
    satAll env (l.filter fun q => !q.isEveryAll) d = satAll env l d := by
  induction l with
  | nil => rfl
  | cons s rest ih =>
    simp only [List.filter_cons]
    cases hn : s.isEveryAll
    · simp [satAll, ih]
    · have : ∃ b, s = .every none b := by
        cases s <;> simp [Q.isEveryAll] at hn
        rename_i f b
        cases f <;> simp [Q.isEveryAll] at hn
        exact ⟨b, rfl⟩
      obtain ⟨b, rfl⟩ := this
      simp [satAll, ih, sat]

/-- The last step of `CompoundQuery.normalize`: nothing, the only clause (re-boosted), or a new
    compound. -/
theorem final_sat (env : Env) (k : CK) (l : List Q) (boost : Rat) (d : Doc) :
    sat env (finish k l boost) d = den env k l d := by
  unfold finish
  match l with
  | [] => cases k <;> simp [sat, den, satAll, satAny]
  | [sub] =>
    simp only
    split <;> cases k <;> simp [den, satAll, satAny, withBoost_sat]
  | a :: b :: rest => simp only [sat_comp]

theorem compTail_or (env : Env) (k : CK) (hk : k ≠ .and) (l : List Q) (boost : Rat) (d : Doc)
    (hp : d.BelowMax) (hl : LOk d l) : sat env (compTail k l boost) d = satAny env l d := by
  have hint : k.intersect = false := by cases k <;> simp_all [CK.intersect]
  have hden : ∀ l', den env k l' d = satAny env l' d := by
    intro l'; cases k <;> simp_all [den]
  unfold compTail
  simp only [hint]
  have hm1 := mergeLoop_or env d hp [] l hl
  have hmef := mergeLoop_ef false [] l
  generalize mergeLoop false [] l = res at hm1 hmef ⊢
  obtain ⟨out, ef⟩ := res
  simp only [efAny, List.any_nil, Bool.false_or] at hm1 hmef ⊢
  have hw : ∀ o ∈ ef, ∃ b, Q.every o b ∈ [] ++ out := by
    intro o ho
    rcases hmef o ho with h0 | h1
    · simp at h0
    · simpa using h1
  have hd1 := dedupe_or env d ef out [] hw
  simp only [satAny, Bool.false_or] at hd1
  rw [final_sat, hden, satAny_filter_notNull, hd1, hm1]

theorem compTail_and (env : Env) (l : List Q) (boost : Rat) (d : Doc)
    (hne : l ≠ []) (hok : AndOk [] l) (hnonull : ∀ s ∈ l, s.isNull = false)
    (hE : ∀ s ∈ l, ∀ f, s.field = some f → (∃ b, Q.every (some f) b ∈ l) → s.isEvery = true) :
    sat env (compTail .and l boost) d = satAll env l d := by
  unfold compTail
  obtain ⟨hm1, hm2⟩ := mergeLoop_and env d [] l hok
  have hmef := mergeLoop_ef true [] l
  have hmemp := mergeLoop_isEmpty true l
  simp only [CK.intersect]
  generalize mergeLoop true [] l = res at hm1 hm2 hmef hmemp ⊢
  obtain ⟨out, ef⟩ := res
  simp only [efAll, List.all_nil, Bool.true_and] at hm1 hm2 hmef hmemp ⊢
  have hded : ∀ s ∈ out, s.isEvery = false → ef.contains s.field = false := by
    intro s hs hnev
    rw [Bool.eq_false_iff]
    intro hc
    have hm : s.field ∈ ef := by simpa using hc
    rcases hmef _ hm with h0 | ⟨b, hb⟩
    · simp at h0
    · cases hf : s.field with
      | none =>
        rw [hf] at hb
        have := hok.noAll _ (hm2 _ hb)
        simp [Q.isEveryAll] at this
      | some f =>
        rw [hf] at hb
        have := hE s (hm2 s hs) f hf ⟨b, hm2 _ hb⟩
        rw [hnev] at this
        exact absurd this (by simp)
  have hd1 := dedupe_and env d ef out [] hded
  have hd2 := dedupe_isEmpty ef out hded
  have hd3 := dedupe_mem ef out []
  simp only [satAll, Bool.true_and] at hd1
  have hnn : ∀ s ∈ dedupe ef [] out, s.isNull = false :=
    fun s hs => hnonull s (hm2 s (hd3 s hs))
  rw [filter_notNull_of_none hnn, final_sat]
  simp only [den, hd1, hd2, hm1, hmemp]
  cases l with
  | nil => exact absurd rfl hne
  | cons a as => simp

/-- `CompoundQuery.normalize` on already normalized clauses. -/
theorem compNormalize_sat (env : Env) (k : CK) (subs : List Q) (boost : Rat) (d : Doc) (hp : d.BelowMax)
    (hl : LOk d (flatten k subs)) (hnf : NFList subs = true)
    (hclean : k = .and → nullMixOk (flatten k subs) = true ∧ everyFieldOk (flatten k subs) = true
      ∧ rangesApart (flatten k subs) = true) :
    sat env (compNormalize k subs boost) d = den env k subs d := by
  have hflat : den env k (flatten k subs) d = den env k subs d := by
    cases k
    · simp only [den, flatten_isEmpty _ _ hnf, flatten_satAll env _ d hnf]
    · simp only [den]; exact flatten_satAny env _ (by decide) _ d
    · simp only [den]; exact flatten_satAny env _ (by decide) _ d
  have hnfl := flatten_NF k subs hnf
  rw [← hflat]
  unfold compNormalize
  generalize flatten k subs = l at hclean hnfl hl ⊢
  simp only
  -- all clauses Null
  by_cases hall : l.all Q.isNull = true
  · rw [if_pos hall]
    rw [List.all_eq_true] at hall
    have hnull : ∀ s ∈ l, sat env s d = false := by
      intro s hs
      have := hall s hs
      cases s <;> simp [Q.isNull] at this
      rfl
    cases k
    · simp only [sat, den]
      cases l with
      | nil => rfl
      | cons s rest => simp [satAll, hnull s (List.mem_cons_self ..)]
    all_goals
      simp only [sat, den, satAny_eq_any]
      symm
      rw [Bool.eq_false_iff]
      intro h
      obtain ⟨x, hx, hs⟩ := List.any_eq_true.mp h
      rw [hnull x hx] at hs
      exact absurd hs (by simp)
  rw [if_neg hall]
  by_cases hany : l.any Q.isEveryAll = true
  · -- there is an unfielded Every
    obtain ⟨x, hx, hxe⟩ := List.any_eq_true.mp hany
    have hsx : sat env x d = true := by
      cases x <;> simp [Q.isEveryAll] at hxe
      rename_i f b
      cases f <;> simp [Q.isEveryAll] at hxe
      rfl
    cases k
    · -- And: drop them
      obtain ⟨hN, hE, hR⟩ := hclean rfl
      have hnonull : ∀ s ∈ l, s.isNull = false := by
        simp only [nullMixOk, Bool.or_eq_true, List.all_eq_true] at hN
        rcases hN with hN | hN
        · exact absurd (List.all_eq_true.mpr hN) hall
        · intro s hs; simpa using hN s hs
      simp only [hany, CK.intersect, Bool.not_true, Bool.and_false, Bool.false_eq_true, ↓reduceIte,
        Bool.true_and]
      have hsat2 := satAll_filter_notEveryAll env d l
      have hlne : l.isEmpty = false := by cases l <;> simp_all
      by_cases hfn : (l.filter fun q => !q.isEveryAll).all Q.isNull = true
      · rw [if_pos hfn]
        -- nothing but unfielded Everys
        have hnil : l.filter (fun q => !q.isEveryAll) = [] := by
          cases hf : l.filter (fun q => !q.isEveryAll) with
          | nil => rfl
          | cons a as =>
            have ha : a ∈ l.filter fun q => !q.isEveryAll := by rw [hf]; exact List.mem_cons_self ..
            have h1 := hnonull a (List.mem_filter.mp ha).1
            have h2 := List.all_eq_true.mp hfn a ha
            rw [h1] at h2
            exact absurd h2 (by simp)
        rw [hnil] at hsat2
        simp only [sat, den, hlne, ← hsat2, satAll, Bool.not_false, Bool.and_self]
      · rw [if_neg hfn]
        have hne2 : l.filter (fun q => !q.isEveryAll) ≠ [] := by
          intro e; rw [e] at hfn; simp at hfn
        have hE' := everyFieldOk_spec hE
        rw [compTail_and env _ boost d hne2 ?_ ?_ ?_, hsat2]
        · simp [den, hlne]
        · refine ⟨rangesApart_filter _ _ hR, NFList_filter _ _ hnfl, ?_, ?_, by simp⟩
          · intro s hs f hf hw
            rcases hw with hw | ⟨b, hb⟩
            · simp at hw
            · exact hE' s (List.mem_filter.mp hs).1 f hf ⟨b, (List.mem_filter.mp hb).1⟩
          · intro s hs
            simpa using (List.mem_filter.mp hs).2
        · exact fun s hs => hnonull s (List.mem_filter.mp hs).1
        · intro s hs f hf ⟨b, hb⟩
          exact hE' s (List.mem_filter.mp hs).1 f hf ⟨b, (List.mem_filter.mp hb).1⟩
    all_goals
      simp only [hany, CK.intersect, Bool.not_false, Bool.and_self, ↓reduceIte, sat, den]
      exact (satAny_of_mem env d hx hsx).symm
  · -- no unfielded Every
    have hany' : l.any Q.isEveryAll = false := by simpa using hany
    simp only [hany', Bool.false_and, Bool.false_eq_true, ↓reduceIte]
    cases k
    · obtain ⟨hN, hE, hR⟩ := hclean rfl
      have hnonull : ∀ s ∈ l, s.isNull = false := by
        simp only [nullMixOk, Bool.or_eq_true, List.all_eq_true] at hN
        rcases hN with hN | hN
        · exact absurd (List.all_eq_true.mpr hN) hall
        · intro s hs; simpa using hN s hs
      have hlne : l ≠ [] := by intro e; subst e; simp at hall
      have hE' := everyFieldOk_spec hE
      have hnoAll : ∀ s ∈ l, s.isEveryAll = false := by
        intro s hs
        cases hc : s.isEveryAll with
        | false => rfl
        | true =>
          have : l.any Q.isEveryAll = true := List.any_eq_true.mpr ⟨s, hs, hc⟩
          rw [hany'] at this
          exact absurd this (by simp)
      rw [compTail_and env l boost d hlne ⟨hR, hnfl, ?_, hnoAll, by simp⟩ hnonull hE']
      · cases l with
        | nil => exact absurd rfl hlne
        | cons a as => simp [den]
      · intro s hs f hf hw
        rcases hw with hw | hw
        · simp at hw
        · exact hE' s hs f hf hw
    · rw [compTail_or env _ (by decide) l boost d hp hl]; rfl
    · rw [compTail_or env _ (by decide) l boost d hp hl]; rfl

end WM.Normalize
