import WM.Lemmas.NormalizeRange
/-! The leaf rewrites (`Wildcard.normalize`, `Phrase.normalize`, `TermRange.normalize`) preserve `sat`. -/
namespace WM.Normalize
open WM.Sat

/-! ### Globs -/

theorem parseGlob_cons_plain (br : Text → Option ((Nat → Bool) × Nat)) (c : Nat) (rest : Text)
    (h1 : c ≠ starC) (h2 : c ≠ qmarkC) (h3 : c ≠ lbrC) :
    parseGlob br (c :: rest) = .lit c :: parseGlob br rest := by
  rw [parseGlob]
  simp [h1, h2, h3]

theorem parseGlob_plain (br : Text → Option ((Nat → Bool) × Nat)) (t : Text)
    (h1 : t.contains starC = false) (h2 : t.contains qmarkC = false) (h3 : t.contains lbrC = false) :
    parseGlob br t = t.map .lit := by
  induction t with
  | nil => rw [parseGlob]; rfl
  | cons c rest ih =>
    simp only [List.contains_cons, Bool.or_eq_false_iff, beq_eq_false_iff_ne, ne_eq] at h1 h2 h3
    rw [parseGlob_cons_plain br c rest (Ne.symm h1.1) (Ne.symm h2.1) (Ne.symm h3.1),
      ih h1.2 h2.2 h3.2]
    rfl

theorem parseGlob_plain_star (br : Text → Option ((Nat → Bool) × Nat)) (p : Text)
    (h1 : p.contains starC = false) (h2 : p.contains qmarkC = false) (h3 : p.contains lbrC = false) :
    parseGlob br (p ++ [starC]) = p.map .lit ++ [.star] := by
  induction p with
  | nil =>
    simp only [List.nil_append, List.map_nil]
    rw [parseGlob]
    simp only [↓reduceIte]
    rw [parseGlob]
  | cons c rest ih =>
    simp only [List.contains_cons, Bool.or_eq_false_iff, beq_eq_false_iff_ne, ne_eq] at h1 h2 h3
    simp only [List.cons_append, List.map_cons]
    rw [parseGlob_cons_plain br c _ (Ne.symm h1.1) (Ne.symm h2.1) (Ne.symm h3.1), ih h1.2 h2.2 h3.2]

theorem gmatch_lits (p x : Text) : gmatch (p.map .lit) x = (x == p) := by
  induction p generalizing x with
  | nil => cases x <;> simp [gmatch]
  | cons c rest ih =>
    cases x with
    | nil => simp [gmatch]
    | cons y ys => simp [gmatch, ih ys]

theorem gmatch_star (x : Text) : gmatch [.star] x = true := by
  simp only [gmatch, List.any_eq_true, List.mem_range]
  exact ⟨x.length, by omega, by simp⟩

theorem gmatch_lits_star (p x : Text) : gmatch (p.map .lit ++ [.star]) x = p.isPrefixOf x := by
  induction p generalizing x with
  | nil => simp [gmatch_star]
  | cons c rest ih =>
    cases x with
    | nil => simp [gmatch]
    | cons y ys =>
      simp only [List.map_cons, List.cons_append, gmatch, ih ys, List.isPrefixOf_cons_cons]
      congr 1
      rw [Bool.eq_iff_iff]
      simp only [beq_iff_eq]
      exact eq_comm

/-! ### `Wildcard.normalize` -/

theorem split_last_star (t : Text) (hl : t.getLast? = some starC) (hi : t.idxOf starC = t.length - 1) :
    ∃ p, t = p ++ [starC] ∧ t.dropLast = p ∧ p.contains starC = false := by
  obtain ⟨p, hp⟩ := List.getLast?_eq_some_iff.mp hl
  refine ⟨p, hp, by rw [hp]; simp, ?_⟩
  rw [Bool.eq_false_iff]
  intro hc
  have hmem : starC ∈ p := by simpa using hc
  have hlt : t.idxOf starC < p.length := by
    rw [hp, List.idxOf_append, if_pos hmem]
    exact List.idxOf_lt_length_of_mem hmem
  rw [hi, hp] at hlt
  simp at hlt

theorem wildNormalize_sat (env : Env) (f : Field) (t : Text) (b : Rat) (c : Bool) (d : Doc) :
    sat env (wildNormalize f t b c) d = sat env (.wild f t b c) d := by
  unfold wildNormalize
  split
  · rename_i h
    have : t = [starC] := by simpa using h
    simp [sat, this]
  · rename_i hstar
    have hstar' : t ≠ [starC] := by simpa using hstar
    split
    · rfl
    · rename_i hbr
      have hbr' : t.contains lbrC = false := by simpa using hbr
      split
      · rename_i hpl
        simp only [Bool.and_eq_true, Bool.not_eq_true'] at hpl
        simp only [sat, hstar', ↓reduceIte, parseGlob_plain env.bracket t hpl.1 hpl.2 hbr', gmatch_lits]
        rw [Bool.eq_iff_iff]
        simp only [List.contains_eq_mem, List.any_eq_true, beq_iff_eq, decide_eq_true_eq]
        constructor
        · intro hm; exact ⟨t, hm, rfl⟩
        · rintro ⟨x, hx, rfl⟩; exact hx
      · split
        · rename_i hpre
          simp only [Bool.and_eq_true, Bool.not_eq_true', beq_iff_eq] at hpre
          obtain ⟨⟨hq, hl⟩, hi⟩ := hpre
          obtain ⟨p, hsplit, hdrop, hnostar⟩ := split_last_star t hl hi
          have hq' : p.contains qmarkC = false := by
            rw [Bool.eq_false_iff]; intro hc
            have : qmarkC ∈ t := by rw [hsplit]; exact List.mem_append_left _ (by simpa using hc)
            simp [this] at hq
          have hb' : p.contains lbrC = false := by
            rw [Bool.eq_false_iff]; intro hc
            have : lbrC ∈ t := by rw [hsplit]; exact List.mem_append_left _ (by simpa using hc)
            simp [this] at hbr'
          have hdne : p ≠ [] := by
            intro e; rw [e] at hsplit; exact hstar' (by simpa using hsplit)
          have hg : parseGlob env.bracket t = p.map .lit ++ [.star] := by
            rw [hsplit]
            exact parseGlob_plain_star env.bracket _ hnostar hq' hb'
          rw [hdrop]
          simp only [sat, hstar', hdne, ↓reduceIte, hg, gmatch_lits_star]
        · rfl

/-! ### `Phrase.normalize` -/

theorem phraseNormalize_sat (env : Env) (f : Field) (ws : List Text) (slop : Nat) (b : Rat) (d : Doc) :
    sat env (phraseNormalize f ws slop b) d = sat env (.phrase f ws slop b) d := by
  unfold phraseNormalize
  split
  · simp [sat, phraseMatch]
  · rename_i w
    simp only [sat, phraseMatch, chainFrom, Bool.and_true]
    rw [Bool.eq_iff_iff]
    simp only [List.contains_eq_mem, decide_eq_true_eq, List.any_eq_true, List.mem_range, beq_iff_eq]
    constructor
    · intro hm
      obtain ⟨i, hi, rfl⟩ := List.mem_iff_getElem.mp hm
      exact ⟨i, hi, by simp [hi]⟩
    · rintro ⟨i, hi, he⟩
      exact List.mem_of_getElem? he
  · rfl

/-! ### `TermRange.normalize` -/

theorem pt_lt_iff (x y : Text) : pt x ≤ pt y ↔ x ≤ y := by
  show Cmp.le (pt x) (pt y) = true ↔ x ≤ y
  simp only [Cmp.le, pt, Bnd.lt, Int.le_refl, decide_true, Bool.and_true, Bool.or_eq_true,
    decide_eq_true_eq, beq_iff_eq, Bnd.val.injEq]
  constructor
  · rintro (h | h)
    · exact List.le_of_lt h
    · rw [h]; exact List.le_refl _
  · intro h
    rcases List.le_iff_lt_or_eq.mp h with h | h
    · exact Or.inl h
    · exact Or.inr h

/-- The quirk of `TermRange._btexts` never fires on `r` and `d` (`ROk`). -/
theorem inRangeQ_of_ROk {d : Doc} {r : Rng} (he : ROk d r) {x : Text} (hx : x ∈ d.toks r.f) :
    inRangeQ r.lo r.hi r.lox r.hix x = inRange r.lo r.hi r.lox r.hix x := by
  unfold inRangeQ
  rcases he with he | he
  · have : (r.lo == none && r.lox) = false := by
      unfold Rng.openExcl at he
      cases hl : r.lox <;> cases hlo : r.lo <;> simp_all
    rw [show (r.lo == none && r.lox && x == []) = false by rw [this]; rfl]
    simp
  · have : (x == []) = false := by simpa using he r.f x hx
    simp [this]

theorem any_congr_mem {α} (l : List α) (p q : α → Bool) (h : ∀ x ∈ l, p x = q x) : l.any p = l.any q := by
  induction l with
  | nil => rfl
  | cons a as ih =>
    simp only [List.any_cons, h a (List.mem_cons_self ..), ih (fun x hx => h x (List.mem_cons_of_mem _ hx))]

/-- Meaning of a range clause on a document for which the empty term is harmless: some term of the
    field lies in the interval. -/
theorem sat_range_ROk (env : Env) (r : Rng) (d : Doc) (he : ROk d r) :
    sat env r.toQ d = (d.toks r.f).any fun x => inRange r.lo r.hi r.lox r.hix x := by
  simp only [Rng.toQ, sat]
  exact any_congr_mem _ _ _ fun x hx => inRangeQ_of_ROk he hx

theorem rngNormalize_sat (env : Env) (r : Rng) (d : Doc) (hp : d.BelowMax) (he : ROk d r) :
    sat env r.normalize d = sat env r.toQ d := by
  have hq := sat_range_ROk env r d he
  unfold Rng.normalize
  split
  · -- the whole field
    rename_i h
    simp only [Bool.and_eq_true, Bool.or_eq_true, beq_iff_eq] at h
    obtain ⟨hlo, hhi⟩ := h
    rw [hq]
    simp only [sat, hasField]
    rw [Bool.eq_iff_iff]
    simp only [Bool.not_eq_true', List.isEmpty_eq_false_iff, ne_eq, List.any_eq_true, inRange_iff]
    constructor
    · intro hne
      cases htk : d.toks r.f with
      | nil => exact absurd htk hne
      | cons x xs =>
        have hxm : x ∈ d.toks r.f := by simp [htk]
        have hxb := hp r.f x hxm
        refine ⟨x, by simp, ?_, ?_⟩
        · rcases hlo with hlo | hlo
          · rw [hlo]; show Cmp.le _ _ = true; simp [cmpStart, pt, Cmp.le, Bnd.lt]
          · -- lo = "": fine unless the start is exclusive and x is the empty term
            have hcase : r.lox = false ∨ x ≠ [] := by
              rcases he with he | he
              · left
                unfold Rng.openExcl at he
                cases hl : r.lox
                · rfl
                · simp [hl, hlo] at he
              · right; exact he r.f x hxm
            rw [hlo]
            show Cmp.le _ _ = true
            rcases hcase with hl | hx0
            · rw [hl]
              simp only [cmpStart, pt, Cmp.le, Bnd.lt, Bool.false_eq_true, ↓reduceIte, Int.le_refl,
                decide_true, Bool.and_true, Bool.or_eq_true, decide_eq_true_eq, beq_iff_eq, Bnd.val.injEq]
              cases x with
              | nil => right; rfl
              | cons y ys => left; exact List.nil_lt_cons y ys
            · simp only [cmpStart, pt, Cmp.le, Bnd.lt, Bool.or_eq_true, decide_eq_true_eq,
                Bool.and_eq_true, beq_iff_eq, Bnd.val.injEq]
              cases x with
              | nil => exact absurd rfl hx0
              | cons y ys => left; exact List.nil_lt_cons y ys
        · rcases hhi with hhi | hhi <;> rw [hhi]
          · show Cmp.le _ _ = true; simp [cmpEnd, pt, Cmp.le, Bnd.lt]
          · show Cmp.le _ _ = true
            simp only [cmpEnd, pt, Cmp.le, Bnd.lt, Bool.or_eq_true, decide_eq_true_eq]
            left; exact hxb
    · rintro ⟨x, hx, _⟩ e
      rw [e] at hx; simp at hx
  · split
    · -- start == end
      rename_i h1 h2
      have h2' : r.lo = r.hi := by simpa using h2
      split
      · -- exclusive on one side: empty
        rename_i hex
        rw [hq]
        simp only [sat]
        symm
        rw [Bool.eq_false_iff]
        simp only [ne_eq, List.any_eq_true, inRange_iff, not_exists, not_and]
        intro x _ hs he
        cases hlo : r.lo with
        | none =>
          rw [hlo] at h2'
          simp [hlo, ← h2'] at h1
        | some t =>
          rw [hlo] at h2'
          rw [hlo] at hs
          rw [← h2'] at he
          have hs' : Cmp.le (cmpStart (some t) r.lox) (pt x) = true := hs
          have he' : Cmp.le (pt x) (cmpEnd (some t) r.hix) = true := he
          simp only [cmpStart, cmpEnd, pt, Cmp.le, Bnd.lt, Bool.or_eq_true, decide_eq_true_eq,
            Bool.and_eq_true, beq_iff_eq, Bnd.val.injEq] at hs' he'
          simp only [Bool.or_eq_true] at hex
          rcases hex with hex | hex <;> simp only [hex, ↓reduceIte] at hs' he' <;> grind
      · rename_i hex
        simp only [Bool.or_eq_true, not_or, Bool.not_eq_true] at hex
        rw [hq]
        cases hlo : r.lo with
        | none =>
          rw [hlo] at h2'
          simp [hlo, ← h2'] at h1
        | some t =>
          rw [hlo] at h2'
          simp only [sat, ← h2', hex.1, hex.2]
          rw [Bool.eq_iff_iff]
          simp only [List.contains_eq_mem, decide_eq_true_eq, List.any_eq_true, inRange_iff]
          constructor
          · intro hm
            refine ⟨t, hm, ?_, ?_⟩
            · show Cmp.le _ _ = true; simp [cmpStart, pt, Cmp.le]
            · show Cmp.le _ _ = true; simp [cmpEnd, pt, Cmp.le]
          · rintro ⟨x, hx, hs, he⟩
            have hs' : Cmp.le (cmpStart (some t) false) (pt x) = true := hs
            have he' : Cmp.le (pt x) (cmpEnd (some t) false) = true := he
            simp only [cmpStart, cmpEnd, pt, Cmp.le, Bnd.lt, Bool.false_eq_true, ↓reduceIte,
              Int.le_refl, decide_true, Bool.and_true, Bool.or_eq_true, decide_eq_true_eq, beq_iff_eq,
              Bnd.val.injEq] at hs' he'
            have : x = t := by grind
            rw [← this]; exact hx
    · simp [sat, Rng.toQ]

end WM.Normalize
